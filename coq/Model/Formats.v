(* Model/Formats.v — outputs/formats/json_format.go (JSONFormatter, ValueToJson, AppendJSONString),
   outputs/formats/human_readable_schema.go (WithoutQualifiers, applied by SetSchema of both formatters),
   outputs/formats/csv_format.go (CSVFormatter, FormatCSVValue) with encoding/csv's Writer (Go 1.23),
   strconv.AppendInt base 10; reference decoders for JSON (RFC 8259) and CSV (RFC 4180).
   Executable definitions only.  Bytes are Z in 0..255; a string is a list of bytes.

   Not modelled (opaque, supplied by the harness as text next to the value): the digits strconv prints for a
   float64 ('g',-1 for JSON and 'f',-1 for CSV), time.Format(RFC3339) and Duration.String(). *)
From Octo Require Export Base.
From Octo Require Import Values.

(* ---------- values and types as the formatters see them ---------- *)
Inductive fval : Type :=
| FNull
| FInt (z : Z)
| FFloat (bits : Z) (gtext ftext : list Z)  (* the bit pattern; AppendFloat 'g',-1 text; FormatFloat 'f',-1 text *)
| FBool (b : bool)
| FStr (s : list Z)
| FTime (text : list Z)                     (* value.Time.Format(time.RFC3339) *)
| FDur (text : list Z)                      (* value.Duration.String() *)
| FList (l : list fval)
| FStruct (l : list fval)
| FTuple (l : list fval).

Inductive fty : Type :=
| TScalar (id : Z)                          (* Null 0, Int 1, Float 2, Boolean 3, String 4, Time 5, Duration 6 *)
| TList (e : option fty)                    (* List.Element is a pointer and may be nil *)
| TStruct (fs : list (list Z * fty))        (* field names and types *)
| TTuple (es : list fty)
| TUnion (alts : list fty).

Definition val_id (v : fval) : Z :=
  match v with
  | FNull => 0 | FInt _ => 1 | FFloat _ _ _ => 2 | FBool _ => 3 | FStr _ => 4
  | FTime _ => 5 | FDur _ => 6 | FList _ => 7 | FStruct _ => 8 | FTuple _ => 9
  end.
Definition ty_id (t : fty) : Z :=
  match t with TScalar id => id | TList _ => 7 | TStruct _ => 8 | TTuple _ => 9 | TUnion _ => 10 end.

(* math.IsNaN(f) || math.IsInf(f, 0): exponent field all ones *)
Definition nonfinite (bits : Z) : bool := f_inf_mag <=? f_mag bits.

(* ---------- strconv.AppendInt(dst, z, 10) ---------- *)
(* most significant digit first; "0" for zero.  The fuel is the bit length of n, which bounds the number of
   decimal digits; running out of it would print '?' (byte 63) — FormatsProofs.nat_digits_parse shows it cannot. *)
Fixpoint nat_digits (fuel : nat) (n : Z) (acc : list Z) : list Z :=
  if n <? 10 then (48 + n) :: acc
  else match fuel with
       | O => 63 :: acc
       | S f => nat_digits f (n / 10) ((48 + n mod 10) :: acc)
       end.
Definition print_nat (n : Z) : list Z := nat_digits (Z.to_nat (Z.log2 n)) n [].
Definition print_int (z : Z) : list Z := if z <? 0 then 45 :: print_nat (- z) else print_nat z.

Definition is_digit (c : Z) : bool := (48 <=? c) && (c <=? 57).
Definition parse_nat (s : list Z) : option Z :=
  match s with
  | [] => None
  | _ => if forallb is_digit s then Some (fold_left (fun a d => a * 10 + (d - 48)) s 0) else None
  end.
Definition parse_int (s : list Z) : option Z :=
  match s with
  | c :: r => if c =? 45 then option_map Z.opp (parse_nat r) else parse_nat s
  | [] => None
  end.

(* ---------- the JSON tree ---------- *)
Inductive json : Type :=
| JNull
| JBool (b : bool)
| JNum (tok : list Z)                       (* the number token, exactly as written *)
| JStr (s : list Z)                         (* the decoded bytes *)
| JArr (l : list json)
| JObj (ms : list (list Z * json)).         (* members in order, duplicates kept *)

(* ---------- AppendJSONString ---------- *)
Definition hex_digit (n : Z) : Z := if n <? 10 then 48 + n else 87 + n.   (* "0123456789abcdef"[n] *)
Definition esc_byte (c : Z) : list Z :=
  if c =? 34 then [92; 34]
  else if c =? 92 then [92; 92]
  else if c =? 10 then [92; 110]
  else if c =? 13 then [92; 114]
  else if c =? 9 then [92; 116]
  else if c <? 32 then [92; 117; 48; 48; hex_digit (c / 16); hex_digit (c mod 16)]
  else [c].
Definition esc_body (s : list Z) : list Z := flat_map esc_byte s.
Definition json_escape (s : list Z) : list Z := 34 :: esc_body s ++ [34].

(* the pinned tree: fastjson escapeString = raw unless hasSpecialChars, else strconv.AppendQuote.
   AppendQuote is modelled exactly for ASCII; a byte >= 0x80 is written as \xNN, which is what AppendQuote
   does for a byte that is not part of a valid UTF-8 sequence (valid printable multi-byte runes would be
   copied instead: not modelled, the refutation witnesses are ASCII). *)
Definition has_special (s : list Z) : bool := existsb (fun c => (c =? 34) || (c =? 92) || (c <? 32)) s.
Definition quote_byte (c : Z) : list Z :=
  if c =? 34 then [92; 34]
  else if c =? 92 then [92; 92]
  else if c =? 7 then [92; 97]
  else if c =? 8 then [92; 98]
  else if c =? 12 then [92; 102]
  else if c =? 10 then [92; 110]
  else if c =? 13 then [92; 114]
  else if c =? 9 then [92; 116]
  else if c =? 11 then [92; 118]
  else if (c <? 32) || (126 <? c) then [92; 120; hex_digit (c / 16); hex_digit (c mod 16)]
  else [c].
Definition json_escape_pinned (s : list Z) : list Z :=
  if has_special s then 34 :: flat_map quote_byte s ++ [34] else 34 :: s ++ [34].

(* ---------- marshalling a tree (the appends of ValueToJson / JSONFormatter.Write) ---------- *)
Section Print.
  Variable esc : list Z -> list Z.
  Fixpoint print_json_gen (j : json) : list Z :=
    match j with
    | JNull => [110; 117; 108; 108]
    | JBool true => [116; 114; 117; 101]
    | JBool false => [102; 97; 108; 115; 101]
    | JNum t => t
    | JStr s => esc s
    | JArr l =>
        91 :: (fix elems (l : list json) : list Z :=
                 match l with
                 | [] => [93]
                 | [v] => print_json_gen v ++ [93]
                 | v :: l' => print_json_gen v ++ 44 :: elems l'
                 end) l
    | JObj ms =>
        123 :: (fix members (ms : list (list Z * json)) : list Z :=
                  match ms with
                  | [] => [125]
                  | [kv] => esc (fst kv) ++ 58 :: print_json_gen (snd kv) ++ [125]
                  | kv :: ms' => esc (fst kv) ++ 58 :: print_json_gen (snd kv) ++ 44 :: members ms'
                  end) ms
    end.
End Print.
Definition print_json : json -> list Z := print_json_gen json_escape.
Definition print_json_pinned : json -> list Z := print_json_gen json_escape_pinned.

(* ---------- ValueToJson: which tree is appended for a value of a static type ---------- *)
Definition e_nonfinite : Z := 1.        (* Err: the float has no JSON representation *)
Definition p_nil_element : Z := 1.      (* Panic: *t.List.Element with a nil pointer *)
Definition p_index : Z := 2.            (* Panic: t.Struct.Fields[i] / t.Tuple.Elements[i] out of range *)
Definition p_csv_type : Z := 3.         (* Panic (pinned tree): "invalid value type to print in CSV" *)

(* the loop over t.Union.Alternatives; the alternative found has the value's type id, so it is not a union
   itself and the recursive call goes straight to the switch.  None = no alternative ("Using null"). *)
Definition resolve (t : fty) (v : fval) : option fty :=
  match t with
  | TUnion alts => find (fun a => ty_id a =? val_id v) alts
  | _ => Some t
  end.

(* first failure wins, left to right, as the loops return on the first error / panic *)
Fixpoint sequence {A} (l : list (outcome A)) : outcome (list A) :=
  match l with
  | [] => Ok []
  | x :: xs => obind x (fun a => obind (sequence xs) (fun r => Ok (a :: r)))
  end.

Definition elem_ty (t : fty) : option fty := match t with TList e => e | _ => None end.
Definition field_tys (t : fty) : list (list Z * fty) := match t with TStruct fs => fs | _ => [] end.
Definition tuple_tys (t : fty) : list fty := match t with TTuple es => es | _ => [] end.

Section Tree.
  Variable check_finite : bool.          (* false = the pinned tree, which prints NaN / +Inf / -Inf *)
  Fixpoint to_tree_gen (t : fty) (v : fval) {struct v} : outcome json :=
    match resolve t v with
    | None => Ok JNull
    | Some t' =>
      match v with
      | FNull => Ok JNull
      | FInt z => Ok (JNum (print_int z))
      | FFloat bits g _ => if check_finite && nonfinite bits then Err e_nonfinite else Ok (JNum g)
      | FBool b => Ok (JBool b)
      | FStr s => Ok (JStr s)
      | FTime x => Ok (JStr x)
      | FDur x => Ok (JStr x)
      | FList l =>
          obind (sequence (map (fun x => match elem_ty t' with
                                         | Some e => to_tree_gen e x
                                         | None => Panic p_nil_element
                                         end) l))
                (fun js => Ok (JArr js))
      | FStruct vs =>
          obind (sequence ((fix go (vs : list fval) (fs : list (list Z * fty)) : list (outcome (list Z * json)) :=
                              match vs with
                              | [] => []
                              | x :: vs' =>
                                  match fs with
                                  | [] => [Panic p_index]
                                  | f :: fs' => obind (to_tree_gen (snd f) x) (fun j => Ok (fst f, j)) :: go vs' fs'
                                  end
                              end) vs (field_tys t')))
                (fun ms => Ok (JObj ms))
      | FTuple vs =>
          obind (sequence ((fix go (vs : list fval) (es : list fty) : list (outcome json) :=
                              match vs with
                              | [] => []
                              | x :: vs' =>
                                  match es with
                                  | [] => [Panic p_index]
                                  | e :: es' => to_tree_gen e x :: go vs' es'
                                  end
                              end) vs (tuple_tys t')))
                (fun js => Ok (JArr js))
      end
    end.
End Tree.
Definition to_tree : fty -> fval -> outcome json := to_tree_gen true.
Definition to_tree_pinned : fty -> fval -> outcome json := to_tree_gen false.

(* JSONFormatter.Write: for i := range t.fields { name, ':', ValueToJson(type, values[i]) } *)
Fixpoint row_members_gen (cf : bool) (fields : list (list Z * fty)) (row : list fval) : list (outcome (list Z * json)) :=
  match fields with
  | [] => []
  | f :: fields' =>
      match row with
      | [] => [Panic p_index]                    (* values[i] out of range *)
      | v :: row' => obind (to_tree_gen cf (snd f) v) (fun j => Ok (fst f, j)) :: row_members_gen cf fields' row'
      end
  end.
Definition row_tree (fields : list (list Z * fty)) (row : list fval) : outcome json :=
  obind (sequence (row_members_gen true fields row)) (fun ms => Ok (JObj ms)).
Definition json_line (fields : list (list Z * fty)) (row : list fval) : outcome (list Z) :=
  obind (row_tree fields row) (fun j => Ok (print_json j ++ [10])).
Definition json_line_pinned (fields : list (list Z * fty)) (row : list fval) : outcome (list Z) :=
  obind (sequence (row_members_gen false fields row)) (fun ms => Ok (print_json_pinned (JObj ms) ++ [10])).

(* a run of the formatter as outputs/eager drives it: rows until the first error; status 0 ok, 1 error, 2 panic *)
Fixpoint run_lines (line : list fval -> outcome (list Z)) (rows : list (list fval)) : Z * list Z :=
  match rows with
  | [] => (0, [])
  | r :: rows' =>
      match line r with
      | Ok b => let '(st, out) := run_lines line rows' in (st, b ++ out)
      | Err _ => (1, [])
      | Panic _ => (2, [])
      end
  end.
Definition json_file (fields : list (list Z * fty)) (rows : list (list fval)) : Z * list Z :=
  run_lines (json_line fields) rows.

(* ---------- the specification side: the tree a typed value stands for ---------- *)
Fixpoint jtree (t : fty) (v : fval) {struct v} : json :=
  let t' := match resolve t v with Some t' => t' | None => t end in
  match v with
  | FNull => JNull
  | FInt z => JNum (print_int z)
  | FFloat _ g _ => JNum g
  | FBool b => JBool b
  | FStr s => JStr s
  | FTime x => JStr x
  | FDur x => JStr x
  | FList l => JArr (map (fun x => match elem_ty t' with Some e => jtree e x | None => JNull end) l)
  | FStruct vs =>
      JObj ((fix go (vs : list fval) (fs : list (list Z * fty)) : list (list Z * json) :=
               match vs, fs with
               | x :: vs', f :: fs' => (fst f, jtree (snd f) x) :: go vs' fs'
               | _, _ => []
               end) vs (field_tys t'))
  | FTuple vs =>
      JArr ((fix go (vs : list fval) (es : list fty) : list json :=
               match vs, es with
               | x :: vs', e :: es' => jtree e x :: go vs' es'
               | _, _ => []
               end) vs (tuple_tys t'))
  end.
Fixpoint row_jmembers (fields : list (list Z * fty)) (row : list fval) : list (list Z * json) :=
  match fields, row with
  | f :: fields', v :: row' => (fst f, jtree (snd f) v) :: row_jmembers fields' row'
  | _, _ => []
  end.

(* the value conforms to the type, decided the way ValueToJson reads the type *)
Fixpoint has_type (t : fty) (v : fval) {struct v} : bool :=
  match resolve t v with
  | None => false
  | Some t' =>
      match v with
      | FList l =>
          match t' with
          | TList (Some e) => forallb (has_type e) l
          | TList None => match l with [] => true | _ => false end
          | _ => false
          end
      | FStruct vs =>
          match t' with
          | TStruct fs =>
              (fix go (vs : list fval) (fs : list (list Z * fty)) : bool :=
                 match vs, fs with
                 | [], [] => true
                 | x :: vs', f :: fs' => has_type (snd f) x && go vs' fs'
                 | _, _ => false
                 end) vs fs
          | _ => false
          end
      | FTuple vs =>
          match t' with
          | TTuple es =>
              (fix go (vs : list fval) (es : list fty) : bool :=
                 match vs, es with
                 | [], [] => true
                 | x :: vs', e :: es' => has_type e x && go vs' es'
                 | _, _ => false
                 end) vs es
          | _ => false
          end
      | _ => match t' with TScalar id => id =? val_id v | _ => false end
      end
  end.
Fixpoint row_typed (fields : list (list Z * fty)) (row : list fval) : bool :=
  match fields, row with
  | [], [] => true
  | f :: fields', v :: row' => has_type (snd f) v && row_typed fields' row'
  | _, _ => false
  end.

Fixpoint has_nonfinite (v : fval) : bool :=
  match v with
  | FFloat bits _ _ => nonfinite bits
  | FList l | FStruct l | FTuple l => existsb has_nonfinite l
  | _ => false
  end.

(* ---------- reference JSON parser (RFC 8259), on bytes ---------- *)
Definition is_ws (c : Z) : bool := (c =? 32) || (c =? 9) || (c =? 10) || (c =? 13).
Fixpoint skip_ws (s : list Z) : list Z :=
  match s with
  | c :: r => if is_ws c then skip_ws r else s
  | [] => []
  end.

Definition hex_val (c : Z) : option Z :=
  if (48 <=? c) && (c <=? 57) then Some (c - 48)
  else if (97 <=? c) && (c <=? 102) then Some (c - 87)
  else if (65 <=? c) && (c <=? 70) then Some (c - 55)
  else None.
Definition hex4 (a b c d : Z) : option Z :=
  match hex_val a, hex_val b, hex_val c, hex_val d with
  | Some x, Some y, Some z, Some w => Some (((x * 16 + y) * 16 + z) * 16 + w)
  | _, _, _, _ => None
  end.
Definition utf8_enc (cp : Z) : list Z :=
  if cp <? 128 then [cp]
  else if cp <? 2048 then [192 + cp / 64; 128 + cp mod 64]
  else if cp <? 65536 then [224 + cp / 4096; 128 + (cp / 64) mod 64; 128 + cp mod 64]
  else [240 + cp / 262144; 128 + (cp / 4096) mod 64; 128 + (cp / 64) mod 64; 128 + cp mod 64].
Definition is_high_sur (cp : Z) : bool := (55296 <=? cp) && (cp <? 56320).
Definition is_low_sur (cp : Z) : bool := (56320 <=? cp) && (cp <? 57344).

Definition pcons (bs : list Z) (r : option (list Z * list Z)) : option (list Z * list Z) :=
  match r with Some (s, rest) => Some (bs ++ s, rest) | None => None end.

(* after the opening quotation mark: the decoded bytes and what follows the closing one.
   Unescaped control characters, unknown escapes and lone surrogates are rejected. *)
Fixpoint pstr (s : list Z) : option (list Z * list Z) :=
  match s with
  | [] => None
  | c :: r =>
      if c =? 34 then Some ([], r)
      else if c =? 92 then
        match r with
        | [] => None
        | e :: r1 =>
            if (e =? 34) || (e =? 92) || (e =? 47) then pcons [e] (pstr r1)
            else if e =? 98 then pcons [8] (pstr r1)
            else if e =? 102 then pcons [12] (pstr r1)
            else if e =? 110 then pcons [10] (pstr r1)
            else if e =? 114 then pcons [13] (pstr r1)
            else if e =? 116 then pcons [9] (pstr r1)
            else if e =? 117 then
              match r1 with
              | a :: b :: c' :: d :: r2 =>
                  match hex4 a b c' d with
                  | None => None
                  | Some cp =>
                      if is_low_sur cp then None
                      else if is_high_sur cp then
                        match r2 with
                        | b1 :: u1 :: a2 :: b2 :: c2 :: d2 :: r3 =>
                            if (b1 =? 92) && (u1 =? 117) then
                              match hex4 a2 b2 c2 d2 with
                              | Some lo =>
                                  if is_low_sur lo
                                  then pcons (utf8_enc (65536 + (cp - 55296) * 1024 + (lo - 56320))) (pstr r3)
                                  else None
                              | None => None
                              end
                            else None
                        | _ => None
                        end
                      else pcons (utf8_enc cp) (pstr r2)
                  end
              | _ => None
              end
            else None
        end
      else if (c <? 32) || (255 <? c) then None
      else pcons [c] (pstr r)
  end.
Definition json_parse_string (s : list Z) : option (list Z) :=
  match s with
  | c :: r => if c =? 34 then match pstr r with Some (x, []) => Some x | _ => None end else None
  | [] => None
  end.

(* numbers: the maximal run of number characters must match the grammar
   minus? (zero | nonzero-digit digits) (dot digits+)? ((e|E) sign? digits+)?  of RFC 8259 section 6 *)
Definition is_numchar (c : Z) : bool :=
  is_digit c || (c =? 45) || (c =? 43) || (c =? 46) || (c =? 101) || (c =? 69).
Fixpoint span (p : Z -> bool) (s : list Z) : list Z * list Z :=
  match s with
  | c :: r => if p c then let '(a, b) := span p r in (c :: a, b) else ([], s)
  | [] => ([], [])
  end.
Definition int_part_ok (ip : list Z) : bool :=
  match ip with
  | [] => false
  | [c] => true
  | c :: _ => negb (c =? 48)
  end.
Definition exp_ok (t : list Z) : bool :=
  match t with
  | [] => true
  | e :: r =>
      ((e =? 101) || (e =? 69)) &&
      (let r1 := match r with s :: r' => if (s =? 43) || (s =? 45) then r' else r | [] => [] end in
       match r1 with [] => false | _ => forallb is_digit r1 end)
  end.
Definition num_grammar_ok (t : list Z) : bool :=
  let t1 := match t with c :: r => if c =? 45 then r else t | [] => [] end in
  let '(ip, t2) := span is_digit t1 in
  int_part_ok ip &&
  match t2 with
  | c :: r =>
      if c =? 46 then let '(fp, t3) := span is_digit r in (match fp with [] => false | _ => true end) && exp_ok t3
      else exp_ok t2
  | [] => true
  end.

Fixpoint strip_prefix (p s : list Z) : option (list Z) :=
  match p with
  | [] => Some s
  | c :: p' => match s with d :: s' => if c =? d then strip_prefix p' s' else None | [] => None end
  end.

(* one step of each of the three mutually recursive parsers, the recursive calls abstracted *)
Definition pval_body (pe : list Z -> option (list json * list Z))
                     (pm : list Z -> option (list (list Z * json) * list Z))
                     (s : list Z) : option (json * list Z) :=
  match skip_ws s with
  | [] => None
  | c :: r =>
      if c =? 34 then match pstr r with Some (x, r') => Some (JStr x, r') | None => None end
      else if c =? 91 then
        match skip_ws r with
        | [] => None
        | c2 :: r2 =>
            if c2 =? 93 then Some (JArr [], r2)
            else match pe r with Some (l, r') => Some (JArr l, r') | None => None end
        end
      else if c =? 123 then
        match skip_ws r with
        | [] => None
        | c2 :: r2 =>
            if c2 =? 125 then Some (JObj [], r2)
            else match pm r with Some (ms, r') => Some (JObj ms, r') | None => None end
        end
      else if c =? 116 then match strip_prefix [114; 117; 101] r with Some r' => Some (JBool true, r') | None => None end
      else if c =? 102 then match strip_prefix [97; 108; 115; 101] r with Some r' => Some (JBool false, r') | None => None end
      else if c =? 110 then match strip_prefix [117; 108; 108] r with Some r' => Some (JNull, r') | None => None end
      else let '(tok, rest) := span is_numchar (c :: r) in
           if num_grammar_ok tok then Some (JNum tok, rest) else None
  end.
(* a value, then ',' and more elements, or ']' *)
Definition pelems_body (pv : list Z -> option (json * list Z))
                       (pe : list Z -> option (list json * list Z))
                       (s : list Z) : option (list json * list Z) :=
  match pv s with
  | None => None
  | Some (v, r) =>
      match skip_ws r with
      | [] => None
      | c :: r' =>
          if c =? 44 then match pe r' with Some (vs, r'') => Some (v :: vs, r'') | None => None end
          else if c =? 93 then Some ([v], r')
          else None
      end
  end.
(* a string, ':', a value, then ',' and more members, or '}' *)
Definition pmembers_body (pv : list Z -> option (json * list Z))
                         (pm : list Z -> option (list (list Z * json) * list Z))
                         (s : list Z) : option (list (list Z * json) * list Z) :=
  match skip_ws s with
  | [] => None
  | q :: r0 =>
      if q =? 34 then
        match pstr r0 with
        | None => None
        | Some (k, r1) =>
            match skip_ws r1 with
            | [] => None
            | col :: r2 =>
                if col =? 58 then
                  match pv r2 with
                  | None => None
                  | Some (v, r) =>
                      match skip_ws r with
                      | [] => None
                      | c :: r' =>
                          if c =? 44 then match pm r' with Some (ms, r'') => Some ((k, v) :: ms, r'') | None => None end
                          else if c =? 125 then Some ([(k, v)], r')
                          else None
                      end
                  end
                else None
            end
        end
      else None
  end.

(* fuel decreases at every call; json_parse gives more than any input can use (FormatsProofs.need_le_length) *)
Fixpoint pval (n : nat) (s : list Z) {struct n} : option (json * list Z) :=
  match n with O => None | S n' => pval_body (pelems n') (pmembers n') s end
with pelems (n : nat) (s : list Z) {struct n} : option (list json * list Z) :=
  match n with O => None | S n' => pelems_body (pval n') (pelems n') s end
with pmembers (n : nat) (s : list Z) {struct n} : option (list (list Z * json) * list Z) :=
  match n with O => None | S n' => pmembers_body (pval n') (pmembers n') s end.

Definition json_parse (s : list Z) : option json :=
  match pval (S (length s)) s with
  | Some (j, r) => match skip_ws r with [] => Some j | _ => None end
  | None => None
  end.

(* well-formedness of a tree to be printed: strings are bytes, number tokens are JSON numbers *)
Definition is_byte (c : Z) : bool := (0 <=? c) && (c <? 256).
Definition num_token_ok (t : list Z) : bool :=
  match t with [] => false | _ => forallb is_numchar t && num_grammar_ok t end.
Fixpoint wf_json (j : json) : bool :=
  match j with
  | JNum t => num_token_ok t
  | JStr s => forallb is_byte s
  | JArr l => forallb wf_json l
  | JObj ms => forallb (fun kv => forallb is_byte (fst kv) && wf_json (snd kv)) ms
  | _ => true
  end.

(* the texts carried by a value are bytes, and the float text is a JSON number when the float is finite *)
Fixpoint texts_ok (v : fval) : bool :=
  match v with
  | FFloat bits g f => forallb is_byte f && (nonfinite bits || num_token_ok g)
  | FStr s | FTime s | FDur s => forallb is_byte s
  | FList l | FStruct l | FTuple l => forallb texts_ok l
  | _ => true
  end.
Fixpoint ty_names_ok (t : fty) : bool :=
  match t with
  | TScalar _ => true
  | TList None => true
  | TList (Some e) => ty_names_ok e
  | TStruct fs => forallb (fun f => forallb is_byte (fst f) && ty_names_ok (snd f)) fs
  | TTuple es => forallb ty_names_ok es
  | TUnion alts => forallb ty_names_ok alts
  end.
Definition fields_ok (fields : list (list Z * fty)) : bool :=
  forallb (fun f => forallb is_byte (fst f) && ty_names_ok (snd f)) fields.

(* ---------- CSV: FormatCSVValue + encoding/csv Writer (Comma ',', UseCRLF false) ---------- *)
Definition bool_text (b : bool) : list Z := if b then [116; 114; 117; 101] else [102; 97; 108; 115; 101].
Definition is_container (v : fval) : bool :=
  match v with FList _ | FStruct _ | FTuple _ => true | _ => false end.
Definition csv_text_gen (pinned : bool) (t : fty) (v : fval) : outcome (list Z) :=
  match v with
  | FNull => Ok []
  | FInt z => Ok (print_int z)
  | FFloat _ _ f => Ok f
  | FBool b => Ok (bool_text b)
  | FStr s => Ok s
  | FTime x => Ok x
  | FDur x => Ok x
  | _ => if pinned then Panic p_csv_type else obind (to_tree t v) (fun j => Ok (print_json j))
  end.
Definition csv_text := csv_text_gen false.

(* utf8.DecodeRuneInString(field) followed by unicode.IsSpace: the white space runes are
   U+0009..U+000D, U+0020, U+0085, U+00A0, U+1680, U+2000..U+200A, U+2028, U+2029, U+202F, U+205F, U+3000;
   each has exactly one UTF-8 encoding (overlong forms decode to RuneError, which is not a space). *)
Definition first_rune_is_space (f : list Z) : bool :=
  match f with
  | c :: r =>
      if ((9 <=? c) && (c <=? 13)) || (c =? 32) then true
      else if c =? 194 then match r with d :: _ => (d =? 133) || (d =? 160) | [] => false end
      else if c =? 225 then match r with d :: e :: _ => (d =? 154) && (e =? 128) | _ => false end
      else if c =? 226 then
        match r with
        | d :: e :: _ =>
            ((d =? 128) && (((128 <=? e) && (e <=? 138)) || (e =? 168) || (e =? 169) || (e =? 175)))
            || ((d =? 129) && (e =? 159))
        | _ => false
        end
      else if c =? 227 then match r with d :: e :: _ => (d =? 128) && (e =? 128) | _ => false end
      else false
  | [] => false
  end.
Definition csv_special (c : Z) : bool := (c =? 10) || (c =? 13) || (c =? 34) || (c =? 44).
Definition needs_quotes (f : list Z) : bool :=
  match f with
  | [] => false
  | _ => list_eqb Z.eqb f [92; 46] || existsb csv_special f || first_rune_is_space f
  end.
Definition csv_qbyte (c : Z) : list Z := if c =? 34 then [34; 34] else [c].
Definition csv_field (f : list Z) : list Z :=
  if needs_quotes f then 34 :: flat_map csv_qbyte f ++ [34] else f.
Fixpoint csv_fields (fs : list (list Z)) : list Z :=
  match fs with
  | [] => [10]
  | [f] => csv_field f ++ [10]
  | f :: fs' => csv_field f ++ 44 :: csv_fields fs'
  end.
Definition csv_write_record (fs : list (list Z)) : list Z := csv_fields fs.

(* CSVFormatter.Write: for i := range values { FormatCSVValue(t.fields[i].Type, values[i]) } *)
Fixpoint csv_row_texts (pinned : bool) (fields : list (list Z * fty)) (row : list fval) : list (outcome (list Z)) :=
  match row with
  | [] => []
  | v :: row' =>
      match fields with
      | [] => if pinned then csv_text_gen pinned (TScalar 0) v :: csv_row_texts pinned [] row' else [Panic p_index]
      | f :: fields' => csv_text_gen pinned (snd f) v :: csv_row_texts pinned fields' row'
      end
  end.
Definition csv_record (fields : list (list Z * fty)) (row : list fval) : outcome (list Z) :=
  obind (sequence (csv_row_texts false fields row)) (fun ts => Ok (csv_write_record ts)).
Definition csv_record_pinned (fields : list (list Z * fty)) (row : list fval) : outcome (list Z) :=
  obind (sequence (csv_row_texts true fields row)) (fun ts => Ok (csv_write_record ts)).
Definition csv_header (fields : list (list Z * fty)) : list Z := csv_write_record (map fst fields).
Definition csv_file (fields : list (list Z * fty)) (rows : list (list fval)) : Z * list Z :=
  let '(st, out) := run_lines (csv_record fields) rows in (st, csv_header fields ++ out).

(* ---------- reference CSV parser (RFC 4180; every line is a record; LF or CRLF ends a record) ---------- *)
(* states: 0 record start, 1 field start, 2 inside an unquoted field, 3 inside quotes, 4 after a quote inside quotes *)
Definition csv_res := option (list (list (list Z))).
Definition push_char (c : Z) (r : csv_res) : csv_res :=
  match r with
  | Some ((f :: fs) :: recs) => Some (((c :: f) :: fs) :: recs)
  | _ => None
  end.
Definition new_field (r : csv_res) : csv_res :=
  match r with
  | Some (fs :: recs) => Some (([] :: fs) :: recs)
  | _ => None
  end.
Definition end_record (r : csv_res) : csv_res :=
  match r with
  | Some recs => Some ([[]] :: recs)
  | None => None
  end.
Fixpoint csv_p (s : list Z) (st : Z) : csv_res :=
  match s with
  | [] => if st =? 0 then Some [] else if st =? 3 then None else Some [[[]]]
  | c :: r =>
      if st =? 3 then
        (if c =? 34 then csv_p r 4 else push_char c (csv_p r 3))
      else if (st =? 4) && (c =? 34) then push_char 34 (csv_p r 3)
      else if c =? 44 then new_field (csv_p r 1)
      else if c =? 10 then end_record (csv_p r 0)
      else if c =? 13 then
        match r with
        | d :: r' => if d =? 10 then end_record (csv_p r' 0) else None
        | [] => None
        end
      else if st =? 4 then None
      else if c =? 34 then (if st =? 2 then None else csv_p r 3)
      else push_char c (csv_p r 2)
  end.
Definition csv_parse (s : list Z) : csv_res := csv_p s 0.

(* ---------- SetSchema of both formatters: outputs/formats/human_readable_schema.go WithoutQualifiers ---------- *)
(* strings.Contains(name, ".") ... strings.SplitN(name, ".", 2)[1]: what follows the first '.' *)
Fixpoint after_dot (s : list Z) : option (list Z) :=
  match s with
  | [] => None
  | c :: r => if c =? 46 then Some r else after_dot r
  end.
Definition short_name (n : list Z) : list Z := match after_dot n with Some r => r | None => n end.
Definition bytes_eqb : list Z -> list Z -> bool := list_eqb Z.eqb.
(* nameCount[short]: how many fields have this short name (Go map keys are compared byte-wise) *)
Definition name_count (s : list Z) (shorts : list (list Z)) : nat := length (filter (bytes_eqb s) shorts).
Definition out_name (shorts : list (list Z)) (n : list Z) : list Z :=
  if Nat.eqb (name_count (short_name n) shorts) 1 then short_name n else n.
Definition without_qualifiers (fields : list (list Z * fty)) : list (list Z * fty) :=
  let shorts := map (fun f => short_name (fst f)) fields in
  map (fun f => (out_name shorts (fst f), snd f)) fields.

(* a whole run: SetSchema, then the records *)
Definition json_run (fields : list (list Z * fty)) (rows : list (list fval)) : Z * list Z :=
  json_file (without_qualifiers fields) rows.
Definition csv_run (fields : list (list Z * fty)) (rows : list (list fval)) : Z * list Z :=
  csv_file (without_qualifiers fields) rows.

Fixpoint nodupb (l : list (list Z)) : bool :=
  match l with
  | [] => true
  | x :: r => negb (existsb (bytes_eqb x) r) && nodupb r
  end.

(* ---------- the cases of engine c25 ---------- *)
(* fields, rows, (status, bytes) observed from the JSON formatter, (status, bytes) observed from the CSV formatter *)
Definition c25_case : Type := (list (list Z * fty) * list (list fval) * (Z * list Z) * (Z * list Z))%type.

Fixpoint forall2b {A B} (f : A -> B -> bool) (a : list A) (b : list B) : bool :=
  match a, b with
  | [], [] => true
  | x :: a', y :: b' => f x y && forall2b f a' b'
  | _, _ => false
  end.

Definition obs_eqb (a b : Z * list Z) : bool := (fst a =? fst b) && list_eqb Z.eqb (snd a) (snd b).
Definition c25_tie_json (c : c25_case) : bool :=
  let '(fields, rows, oj, _) := c in obs_eqb (json_run fields rows) oj.
Definition c25_tie_csv (c : c25_case) : bool :=
  let '(fields, rows, _, oc) := c in obs_eqb (csv_run fields rows) oc.

Fixpoint split_lines (s : list Z) : list (list Z) :=        (* LF-terminated lines; a trailing fragment is kept *)
  match s with
  | [] => []
  | c :: r =>
      if c =? 10 then [] :: split_lines r
      else match split_lines r with
           | l :: ls => (c :: l) :: ls
           | [] => [[c]]
           end
  end.

Fixpoint json_eqb (a b : json) {struct a} : bool :=
  match a, b with
  | JNull, JNull => true
  | JBool x, JBool y => Bool.eqb x y
  | JNum x, JNum y => list_eqb Z.eqb x y
  | JStr x, JStr y => list_eqb Z.eqb x y
  | JArr x, JArr y => list_eqb json_eqb x y
  | JObj x, JObj y =>
      (fix go (x y : list (list Z * json)) : bool :=
         match x, y with
         | [], [] => true
         | p :: x', q :: y' => list_eqb Z.eqb (fst p) (fst q) && json_eqb (snd p) (snd q) && go x' y'
         | _, _ => false
         end) x y
  | _, _ => false
  end.
Definition ojson_eqb (a : option json) (b : json) : bool :=
  match a with Some x => json_eqb x b | None => false end.

Definition row_finite (row : list fval) : bool := negb (existsb has_nonfinite row).
Fixpoint finite_prefix (rows : list (list fval)) : list (list fval) :=
  match rows with
  | r :: rows' => if row_finite r then r :: finite_prefix rows' else []
  | [] => []
  end.
Definition all_typed (fields : list (list Z * fty)) (rows : list (list fval)) : bool :=
  forallb (row_typed fields) rows.

(* the oracle on the bytes the implementation wrote: every line parses (reference parser) to the tree of its row;
   an error is legitimate only at a row holding a non-finite float, after the lines of the rows before it *)
Definition keys_distinct (o : option json) : bool :=
  match o with Some (JObj ms) => nodupb (map fst ms) | _ => false end.
Definition c25_spec_json (c : c25_case) : bool :=
  let '(fields0, rows, (st, bytes), _) := c in
  let fields := without_qualifiers fields0 in
  all_typed fields rows &&
  (* exactly one member per column: distinct columns keep distinct keys *)
  (negb (nodupb (map fst fields0)) || forallb (fun l => keys_distinct (json_parse l)) (split_lines bytes)) &&
  let expect := if st =? 0 then rows else finite_prefix rows in
  ((st =? 0) && forallb row_finite rows || (st =? 1) && negb (forallb row_finite rows)) &&
  forall2b (fun l r => ojson_eqb (json_parse l) (JObj (row_jmembers fields r))) (split_lines bytes) expect.

(* CSV: the reference parser gives the header and one record per row; a scalar cell is the value's text
   (NULL empty), a nested cell parses as JSON to the tree of the value *)
Definition cell_ok (t : fty) (v : fval) (cell : list Z) : bool :=
  match v with
  | FNull => match cell with [] => true | _ => false end
  | FInt z => match parse_int cell with Some z' => z' =? z | None => false end
  | FFloat _ _ f => list_eqb Z.eqb cell f
  | FBool b => list_eqb Z.eqb cell (bool_text b)
  | FStr s | FTime s | FDur s => list_eqb Z.eqb cell s
  | _ => ojson_eqb (json_parse cell) (jtree t v)
  end.
Fixpoint cells_ok (fields : list (list Z * fty)) (row : list fval) (cells : list (list Z)) : bool :=
  match fields, row, cells with
  | [], [], [] => true
  | f :: fields', v :: row', c :: cells' => cell_ok (snd f) v c && cells_ok fields' row' cells'
  | _, _, _ => false
  end.
Definition nested_finite (row : list fval) : bool :=
  negb (existsb (fun v => is_container v && has_nonfinite v) row).
Fixpoint nested_finite_prefix (rows : list (list fval)) : list (list fval) :=
  match rows with
  | r :: rows' => if nested_finite r then r :: nested_finite_prefix rows' else []
  | [] => []
  end.
Definition c25_spec_csv (c : c25_case) : bool :=
  let '(fields0, rows, _, (st, bytes)) := c in
  let fields := without_qualifiers fields0 in
  all_typed fields rows &&
  (negb (nodupb (map fst fields0)) || match csv_parse bytes with Some (hd :: _) => nodupb hd | _ => false end) &&
  let expect := if st =? 0 then rows else nested_finite_prefix rows in
  ((st =? 0) && forallb nested_finite rows || (st =? 1) && negb (forallb nested_finite rows)) &&
  match csv_parse bytes with
  | Some (hd :: recs) =>
      list_eqb (list_eqb Z.eqb) hd (map fst fields) && forall2b (fun cells r => cells_ok fields r cells) recs expect
  | _ => false
  end.
