(* Model/SourcesCases.v — the differential cases of the engines c23 and c24 (one sum type per engine, so
   that one cases.v carries every kind of case).  Executable definitions only. *)
From Octo Require Export SourcesScan SourcesQueue SourcesStdin SourcesCsv SourcesJson SourcesCsvProj SourcesJsonInfer.

(* CSV record-level case: header option, the records encoding/csv returns (header row included), the mask of
   used columns, then the observation: names of all columns, records of the pruned read, "no error" *)
Definition csvproj_case : Type := bool * list (list cell) * list bool * list bytes * list (list value) * bool.
Definition rows_eqb (a b : list (list value)) : bool := list_eqb (list_eqb value_eqb_flat) a b.
Definition csvproj_eval (run_model : bool) (c : csvproj_case) : bool :=
  let '(header, records, keep, onames, orecs, ook) := c in
  match csv_names ctext header records with
  | Ok (names, data) =>
      list_eqb bytes_eqb names onames &&
      match infer_csv (length names) data with
      | Ok tys =>
          let '(out, e) :=
            if run_model then csv_run exec_cell header names (select keep (combine names tys)) records
            else spec_rows exec_cell keep tys data in
          rows_eqb out orecs && Bool.eqb (is_ok e) ook
      | _ => false
      end
  | _ => negb ook
  end.
(* tie: the model of execution.go (name lookup, indicesToRead, d.fields[i]); spec: the statement of
   C23_csv_rows read on the observation (kept cells of each record, each converted at its own column's type) *)
Definition csvproj_tie := csvproj_eval true.
Definition csvproj_spec := csvproj_eval false.

Inductive c23_case : Type :=
| CLines (c : lines_case)
| CQueue (c : queue_case)
| CStdin (c : stdin_case)
| CCsv (c : csvproj_case).

Definition c23_tie (c : c23_case) : bool :=
  match c with CLines x => lines_tie x | CQueue x => queue_tie x | CStdin x => stdin_tie x | CCsv x => csvproj_tie x end.
Definition c23_spec (c : c23_case) : bool :=
  match c with CLines x => lines_spec_ok x | CQueue _ => true | CStdin x => stdin_spec x | CCsv x => csvproj_spec x end.

Inductive c24_case : Type :=
| C24Parse (c : intparse_case)
| C24Csv (c : csv_case)
| C24JValue (c : jvalue_case)
| C24JFile (c : jfile_case)
| C24JInfer (c : jinfer_case)
| C24JNested (c : jnested_case).

Definition c24_tie (c : c24_case) : bool :=
  match c with
  | C24Parse x => intparse_tie x
  | C24Csv x => csv_cells_wf x && csv_tie x
  | C24JValue x => jvalue_tie x
  | C24JFile x => jfile_tie x
  | C24JInfer x => jinfer_tie x
  | C24JNested x => jnested_tie x
  end.
Definition c24_spec (c : c24_case) : bool :=
  match c with
  | C24Parse _ => true
  | C24Csv x => csv_spec x
  | C24JValue x => jvalue_spec x
  | C24JFile x => jfile_spec x
  | C24JInfer _ => true
  | C24JNested x => jnested_spec x
  end.
