(* Model/SourcesCases.v — the differential cases of the engines c23 and c24 (one sum type per engine, so
   that one cases.v carries every kind of case).  Executable definitions only. *)
From Octo Require Export SourcesScan SourcesQueue SourcesStdin SourcesCsv SourcesJson.

Inductive c23_case : Type :=
| CLines (c : lines_case)
| CQueue (c : queue_case)
| CStdin (c : stdin_case).

Definition c23_tie (c : c23_case) : bool :=
  match c with CLines x => lines_tie x | CQueue x => queue_tie x | CStdin x => stdin_tie x end.
Definition c23_spec (c : c23_case) : bool :=
  match c with CLines x => lines_spec_ok x | CQueue _ => true | CStdin x => stdin_spec x end.

Inductive c24_case : Type :=
| C24Parse (c : intparse_case)
| C24Csv (c : csv_case)
| C24JValue (c : jvalue_case)
| C24JFile (c : jfile_case)
| C24JInfer (c : jinfer_case).

Definition c24_tie (c : c24_case) : bool :=
  match c with
  | C24Parse x => intparse_tie x
  | C24Csv x => csv_cells_wf x && csv_tie x
  | C24JValue x => jvalue_tie x
  | C24JFile x => jfile_tie x
  | C24JInfer x => jinfer_tie x
  end.
Definition c24_spec (c : c24_case) : bool :=
  match c with
  | C24Parse _ => true
  | C24Csv x => csv_spec x
  | C24JValue x => jvalue_spec x
  | C24JFile x => jfile_spec x
  | C24JInfer _ => true
  end.
