(* Model/Operators.v — execution/nodes/{filter,map,distinct,limit,unnest,lookup_join,order_sensitive_transform}.go
   and the record handling of outputs/batch/live_output.go.  Executable definitions only (no proofs).
   Every node is  run_N : params -> list event -> list event  (the exact sequence of produce/metaSend calls
   the node makes when its source replays the input events and then ends). *)
From Octo Require Export Changelog.

Definition row : Type := list value.
(* a batch row: an insertion without event time *)
Definition ins (x : row) : rec := mkrec x false zero_ns.

(* ------------------------------------------------------------------------------------------------ *)
(* Expressions used for the executable tie.  The node models below take arbitrary total functions
   row -> value; these four shapes are what the harness builds from execution.NewVariable(0,i),
   execution.NewConstant and execution.NewFunctionCall over functions.FunctionMap()["="] / ["+"]
   (both Strict: nullCheckIndices = [0;1]).                                                            *)
Inductive expr :=
| EVar (i : nat)                    (* Variable{level 0, index i}: curVars.Values[i] *)
| EConst (c : value)
| EEqConst (i : nat) (c : value)    (* col_i = c *)
| EAddConst (i : nat) (c : Z).      (* col_i + c, the Int,Int descriptor *)

Definition is_null (v : value) : bool := match v with VNull => true | _ => false end.
(* the .Int field of an octosql.Value: zero unless the value was built by NewInt *)
Definition int_field (v : value) : Z := match v with VInt z => z | _ => 0 end.

(* [nth i x VNull]: Go indexes the slice and panics when i is out of range; [expr_ok] is the guard and every
   tie case is checked against it (a case with an index out of range fails the tie). *)
Definition eval (e : expr) (x : row) : value :=
  match e with
  | EVar i => nth i x VNull
  | EConst c => c
  | EEqConst i c =>
      let v := nth i x VNull in
      if is_null v || is_null c then VNull else VBool (vequal v c)
  | EAddConst i c =>
      let v := nth i x VNull in
      if is_null v then VNull else VInt (wrap64 (int_field v + c))
  end.
Definition expr_ok (arity : nat) (e : expr) : bool :=
  match e with
  | EVar i | EEqConst i _ | EAddConst i _ => (i <? arity)%nat
  | EConst _ => true
  end.

(* ------------------------------------------------------------------------------------------------ *)
(* Filter: produce the record iff the predicate evaluates to Boolean true; metadata is forwarded. *)
Definition passes (p : row -> value) (x : row) : bool :=
  match p x with VBool true => true | _ => false end.
Definition filter_step (p : row -> value) (e : event) : list event :=
  match e with
  | Rec r => if passes p (vals r) then [Rec r] else []
  | WM w => [WM w]
  end.
Definition run_filter (p : row -> value) (inp : list event) : list event := flat_map (filter_step p) inp.

(* Map: NewRecord(values, record.Retraction, record.EventTime) *)
Definition map_row (fs : list (row -> value)) (x : row) : row := map (fun f => f x) fs.
Definition map_step (fs : list (row -> value)) (e : event) : list event :=
  match e with
  | Rec r => [Rec (mkrec (map_row fs (vals r)) (retr r) (et r))]
  | WM w => [WM w]
  end.
Definition run_map (fs : list (row -> value)) (inp : list event) : list event := flat_map (map_step fs) inp.

(* Unnest: one record per element of record.Values[index].List (nil for every non-list value).
   Go panics when index is out of range; [unnest_ok] is the guard. *)
Definition list_field (v : value) : list value := match v with VList l => l | _ => [] end.
Definition unnest_row (i : nat) (x : row) : list row :=
  map (fun el => firstn i x ++ el :: skipn (S i) x) (list_field (nth i x VNull)).
Definition unnest_step (i : nat) (e : event) : list event :=
  match e with
  | Rec r => map (fun y => Rec (mkrec y (retr r) (et r))) (unnest_row i (vals r))
  | WM w => [WM w]
  end.
Definition run_unnest (i : nat) (inp : list event) : list event := flat_map (unnest_step i) inp.
Definition unnest_ok (i : nat) (inp : list event) : bool :=
  forallb (fun r => (i <? length (vals r))%nat) (records inp).

(* LookupJoin: for every source record the joined node is run with that record in the variable context;
   [joined x] is everything it emits (records and watermarks; the same metaSend is handed to it).
   retraction = (s || j) && !(s && j) = xor;  event time of the source record. *)
Definition lookup_step (joined : row -> list event) (e : event) : list event :=
  match e with
  | Rec r => map (fun je => match je with
                            | Rec j => Rec (mkrec (vals r ++ vals j) (xorb (retr r) (retr j)) (et r))
                            | WM w => WM w
                            end) (joined (vals r))
  | WM w => [WM w]
  end.
Definition run_lookup (joined : row -> list event) (inp : list event) : list event :=
  flat_map (lookup_step joined) inp.
(* the joined side the harness builds: Filter(table, Variable{0,a} = Variable{1,b}) *)
Definition table_joined (table : list event) (a b : nat) (x : row) : list event :=
  run_filter (fun j => let u := nth a j VNull in let v := nth b x VNull in
                       if is_null u || is_null v then VNull else VBool (vequal u v)) table.

(* ------------------------------------------------------------------------------------------------ *)
(* Distinct: zyedidia hashmap keyed by record.Values (hash = HashManyValues, equality = pairwise Compare = 0
   on range a) holding *distinctItem.  An association list searched by hash-and-equality. *)
Definition dkey_eq (x k : row) : bool := (vhash_many k =? vhash_many x) && slices_eq k x.   (* equals(stored, key) *)
Definition dstate : Type := list (row * Z)%type.
Fixpoint dget (st : dstate) (x : row) : option Z :=
  match st with
  | [] => None
  | (k, c) :: rest => if dkey_eq x k then Some c else dget rest x
  end.
(* item.Count++ / -- on the pointer already stored in the map (nothing happens when it is not stored) *)
Fixpoint dset (st : dstate) (x : row) (c : Z) : dstate :=
  match st with
  | [] => []
  | (k, c0) :: rest => if dkey_eq x k then (k, c) :: rest else (k, c0) :: dset rest x c
  end.
(* Put: replaces the value of an existing key, otherwise adds the entry *)
Fixpoint dput (st : dstate) (x : row) (c : Z) : dstate :=
  match st with
  | [] => [(x, c)]
  | (k, c0) :: rest => if dkey_eq x k then (k, c) :: rest else (k, c0) :: dput rest x c
  end.
Fixpoint dremove (st : dstate) (x : row) : dstate :=
  match st with
  | [] => []
  | (k, c0) :: rest => if dkey_eq x k then rest else (k, c0) :: dremove rest x
  end.
Definition distinct_step (st : dstate) (r : rec) : dstate * list event :=
  let c0 := match dget st (vals r) with Some c => c | None => 0 end in
  let c := if retr r then c0 - 1 else c0 + 1 in
  if 0 <? c then
    if negb (retr r) && (c =? 1) then (dput st (vals r) c, [Rec r])
    else (dset st (vals r) c, [])
  else (dremove st (vals r), [Rec r]).
Fixpoint distinct_from (st : dstate) (inp : list event) : list event :=
  match inp with
  | [] => []
  | WM _ :: rest => distinct_from st rest                    (* the metaSend closure returns nil: swallowed *)
  | Rec r :: rest => let '(st', out) := distinct_step st r in out ++ distinct_from st' rest
  end.
Definition run_distinct (inp : list event) : list event := distinct_from [] inp.

(* ------------------------------------------------------------------------------------------------ *)
(* Limit: produce, i++, stop the source by the sentinel error when i == limit.
   (i is an int64; inputs longer than 2^63 records are not considered.) *)
Fixpoint limit_go (n i : Z) (inp : list event) : list event :=
  match inp with
  | [] => []
  | WM w :: rest => WM w :: limit_go n i rest
  | Rec r :: rest => Rec r :: (if (i + 1) =? n then [] else limit_go n (i + 1) rest)
  end.
(* after `fix: LIMIT 0 returned every row`: limit 0 returns before the source is run *)
Definition run_limit (n : Z) (inp : list event) : list event := if n =? 0 then [] else limit_go n 0 inp.
(* the pinned code has no guard *)
Definition run_limit_pinned (n : Z) (inp : list event) : list event := limit_go n 0 inp.

(* ------------------------------------------------------------------------------------------------ *)
(* The counted google/btree shared (as duplicated code) by OrderSensitiveTransform and batch.OutputPrinter.
   Items are (Key, Values, Count, DirectionMultipliers); Key is computed from Values when the item is created
   and never changes, so the model recomputes it.  Less: first the keys with comp*multiplier == -1, then the
   values.  A key component is tagged with its direction; all items of one tree share the multipliers, so the
   mixed-tag case of [dcmp] never arises (it is ordered by tag only to make the comparator total).
   Both loops index the other item by the receiver's length: all records of a stream have one arity
   (hypothesis [arity_ok] of the theorems, checked on every tie case). *)
Inductive dval := Asc (v : value) | Desc (v : value).
Definition dcmp (a b : dval) : Z :=
  match a, b with
  | Asc x, Asc y => vcompare x y
  | Desc x, Desc y => vcompare y x          (* comp * (-1) == -1  <->  comp == 1 *)
  | Asc _, Desc _ => -1
  | Desc _, Asc _ => 1
  end.
(* ORDER BY keys: (descending?, key expression) *)
Definition okeys : Type := list (bool * (row -> value))%type.
Definition okey (ks : okeys) (x : row) : list dval :=
  map (fun k : (bool * (row -> value))%type => if fst k then Desc (snd k x) else Asc (snd k x)) ks.
Definition skey (ks : okeys) (x : row) : list dval := okey ks x ++ map Asc x.
Definition item_cmp (ks : okeys) (a b : row) : Z := lex_cmp dcmp (skey ks a) (skey ks b).
Definition item_less (ks : okeys) (a b : row) : bool := item_cmp ks a b =? -1.
Definition item_eqv (ks : okeys) (a b : row) : bool := negb (item_less ks a b) && negb (item_less ks b a).

(* the tree: items in ascending order *)
Definition tree : Type := list (row * Z)%type.
Fixpoint tget (ks : okeys) (t : tree) (x : row) : option Z :=
  match t with
  | [] => None
  | (k, c) :: rest => if item_eqv ks k x then Some c else tget ks rest x
  end.
(* ReplaceOrInsert of the pointer obtained from Get: same Key/Values, new Count *)
Fixpoint tset (ks : okeys) (t : tree) (x : row) (c : Z) : tree :=
  match t with
  | [] => []
  | (k, c0) :: rest => if item_eqv ks k x then (k, c) :: rest else (k, c0) :: tset ks rest x c
  end.
(* ReplaceOrInsert of a new item *)
Fixpoint tinsert (ks : okeys) (t : tree) (x : row) (c : Z) : tree :=
  match t with
  | [] => [(x, c)]
  | (k, c0) :: rest => if item_less ks x k then (x, c) :: (k, c0) :: rest else (k, c0) :: tinsert ks rest x c
  end.
Fixpoint tdelete (ks : okeys) (t : tree) (x : row) : tree :=
  match t with
  | [] => []
  | (k, c0) :: rest => if item_eqv ks k x then rest else (k, c0) :: tdelete ks rest x
  end.
(* the per-record body shared by both users; returns the new count too (the printer panics on < 0) *)
Definition tree_step (ks : okeys) (limit : option Z) (noretr : bool) (t : tree) (r : rec) : tree * Z :=
  let got := tget ks t (vals r) in
  let c0 := match got with Some c => c | None => 0 end in
  let c := if retr r then c0 - 1 else c0 + 1 in
  let t1 := if 0 <? c then (match got with Some _ => tset ks t (vals r) c | None => tinsert ks t (vals r) c end)
            else tdelete ks t (vals r) in
  let t2 := match limit with
            | Some n => if noretr && (n <? Z.of_nat (length t1)) then removelast t1 else t1   (* DeleteMax *)
            | None => t1
            end in
  (t2, c).
Definition expand_tree (t : tree) : list row := flat_map (fun it => repeat (fst it) (Z.to_nat (snd it))) t.

(* OrderSensitiveTransform.  limit: evaluated first; 0 -> return nil, negative -> error (enum 1). *)
Fixpoint ost_tree (ks : okeys) (limit : option Z) (noretr : bool) (t : tree) (inp : list event) : tree :=
  match inp with
  | [] => t
  | WM _ :: rest => ost_tree ks limit noretr t rest
  | Rec r :: rest => ost_tree ks limit noretr (fst (tree_step ks limit noretr t r)) rest
  end.
(* produceOrderByItems after `fix: ORDER BY ... LIMIT n counted distinct rows`: the check and i++ are per row *)
Fixpoint take_upto (n i : Z) (l : list row) : list row :=
  match l with
  | [] => []
  | x :: xs => if n <=? i then [] else x :: take_upto n (i + 1) xs
  end.
(* the pinned loop: the check and i++ are per tree item, all Count copies of the item are produced *)
Fixpoint take_items_pinned (n i : Z) (t : tree) : list row :=
  match t with
  | [] => []
  | it :: rest => if n <=? i then [] else repeat (fst it) (Z.to_nat (snd it)) ++ take_items_pinned n (i + 1) rest
  end.
Definition ost_emit (limit : option Z) (t : tree) : list row :=
  match limit with Some n => take_upto n 0 (expand_tree t) | None => expand_tree t end.
Definition ost_emit_pinned (limit : option Z) (t : tree) : list row :=
  match limit with Some n => take_items_pinned n 0 t | None => expand_tree t end.
Definition run_ost_gen (emit : option Z -> tree -> list row)
           (ks : okeys) (limit : option Z) (noretr : bool) (inp : list event) : outcome (list event) :=
  match limit with
  | Some n =>
      if n =? 0 then Ok []
      else if n <? 0 then Err 1
      else Ok (map (fun x => Rec (ins x)) (emit limit (ost_tree ks limit noretr [] inp)))
  | None => Ok (map (fun x => Rec (ins x)) (emit limit (ost_tree ks limit noretr [] inp)))
  end.
Definition run_ost := run_ost_gen ost_emit.
Definition run_ost_pinned := run_ost_gen ost_emit_pinned.

(* batch.OutputPrinter (live = false): the rows handed to Format.Write by the final print.
   panic("received retraction before value") = Panic 1.  The print loop tests i == limit before each row. *)
Fixpoint printer_tree (ks : okeys) (limit : option Z) (noretr : bool) (t : tree) (inp : list event) : outcome tree :=
  match inp with
  | [] => Ok t
  | WM _ :: rest => printer_tree ks limit noretr t rest
  | Rec r :: rest =>
      let '(t', c) := tree_step ks limit noretr t r in
      if c <? 0 then Panic 1 else printer_tree ks limit noretr t' rest
  end.
Fixpoint take_eq (n i : Z) (l : list row) : list row :=
  match l with
  | [] => []
  | x :: xs => if i =? n then [] else x :: take_eq n (i + 1) xs
  end.
Definition printer_emit (limit : option Z) (t : tree) : list row :=
  match limit with Some n => take_eq n 0 (expand_tree t) | None => expand_tree t end.
Definition run_printer (ks : okeys) (limit : option Z) (noretr : bool) (inp : list event) : outcome (list row) :=
  obind (printer_tree ks limit noretr [] inp) (fun t => Ok (printer_emit limit t)).

(* ------------------------------------------------------------------------------------------------ *)
(* Batch meaning of each node on a bag given as a list of rows (duplicates listed individually). *)
Definition count_rows (rows : list row) (x : row) : Z := consolidate (map ins rows) x.
Definition bag_filter (p : row -> value) (rows : list row) : list rec := map ins (filter (passes p) rows).
Definition bag_map (fs : list (row -> value)) (rows : list row) : list rec := map ins (map (map_row fs) rows).
Definition bag_unnest (i : nat) (rows : list row) : list rec := map ins (flat_map (unnest_row i) rows).
(* the joined side may itself retract: the result is a signed bag *)
Definition bag_lookup (joined : row -> list event) (rows : list row) : list rec :=
  flat_map (fun x => map (fun j => mkrec (x ++ vals j) (retr j) zero_ns) (records (joined x))) rows.
(* DISTINCT: the support, one copy of each row class *)
Fixpoint dedup (rows : list row) : list row :=
  match rows with
  | [] => []
  | x :: xs => x :: filter (fun y => negb (row_eqb x y)) (dedup xs)
  end.
Definition bag_support (rows : list row) : list rec := map ins (dedup rows).

(* the rows of a consolidated changelog, duplicates listed individually (meaningful when it is valid) *)
Definition expand (l : list rec) : list row :=
  flat_map (fun x => repeat x (Z.to_nat (consolidate l x))) (dedup (map vals l)).

(* ORDER BY: the key order alone (ties between rows with equal keys may be listed either way) *)
Definition key_le (ks : okeys) (a b : row) : bool := lex_cmp dcmp (okey ks a) (okey ks b) <=? 0.
Fixpoint sorted_by (ks : okeys) (l : list row) : bool :=
  match l with
  | [] => true
  | x :: xs => match xs with [] => true | y :: _ => key_le ks x y && sorted_by ks xs end
  end.

(* ------------------------------------------------------------------------------------------------ *)
(* The differential cases of engine c15. *)
Definition okeys_of (ks : list (bool * expr)) : okeys := map (fun k : (bool * expr)%type => (fst k, eval (snd k))) ks.
Inductive node_spec :=
| NFilter (e : expr)
| NMap (es : list expr)
| NUnnest (i : nat)
| NLookup (table : list event) (a b : nat)
| NDistinct
| NLimit (n : Z)
| NOst (ks : list (bool * expr)) (limit : option Z) (noretr : bool)
| NPrinter (ks : list (bool * expr)) (limit : option Z) (noretr : bool)
| NPipe (below above : node_spec).          (* [above] built over [below]: a pipeline of nodes *)

Inductive observation :=
| ObsEvents (l : list event)      (* node ran to the end: everything it emitted *)
| ObsRows (l : list row)          (* batch printer: rows written *)
| ObsErr                          (* the node returned an error *)
| ObsPanic.                       (* the node panicked *)

Definition rows_eqb (a b : list row) : bool := list_eqb (list_eqb value_eqb) a b.
Definition obs_eqb (a b : observation) : bool :=
  match a, b with
  | ObsEvents x, ObsEvents y => events_eqb x y
  | ObsRows x, ObsRows y => rows_eqb x y
  | ObsErr, ObsErr => true
  | ObsPanic, ObsPanic => true
  | _, _ => false
  end.
Definition obs_of_events (o : outcome (list event)) : observation :=
  match o with Ok l => ObsEvents l | Err _ => ObsErr | Panic _ => ObsPanic end.
Definition obs_of_rows (o : outcome (list row)) : observation :=
  match o with Ok l => ObsRows l | Err _ => ObsErr | Panic _ => ObsPanic end.

Definition run_node1 (nd : node_spec) (inp : list event) : observation :=
  match nd with
  | NFilter e => ObsEvents (run_filter (eval e) inp)
  | NMap es => ObsEvents (run_map (map eval es) inp)
  | NUnnest i => ObsEvents (run_unnest i inp)
  | NLookup table a b => ObsEvents (run_lookup (table_joined table a b) inp)
  | NDistinct => ObsEvents (run_distinct inp)
  | NLimit n => ObsEvents (run_limit n inp)
  | NOst ks limit noretr => obs_of_events (run_ost (okeys_of ks) limit noretr inp)
  | NPrinter ks limit noretr => obs_of_rows (run_printer (okeys_of ks) limit noretr inp)
  | NPipe _ _ => ObsPanic
  end.
(* a pipeline: what the lower node emits is the input of the upper one; an error or panic below ends the run *)
Fixpoint run_node (nd : node_spec) (inp : list event) : observation :=
  match nd with
  | NPipe a b => match run_node a inp with ObsEvents mid => run_node b mid | o => o end
  | _ => run_node1 nd inp
  end.

Definition first_arity (l : list rec) : nat := match l with r :: _ => length (vals r) | [] => 0%nat end.
Fixpoint node_params_ok (arity : nat) (nd : node_spec) (inp : list event) : bool :=
  match nd with
  | NFilter e => expr_ok arity e
  | NMap es => forallb (expr_ok arity) es
  | NUnnest i => (i <? arity)%nat
  | NLookup table a b => (b <? arity)%nat && forallb (fun r => (a <? length (vals r))%nat) (records table)
  | NDistinct | NLimit _ => true
  | NOst ks _ _ | NPrinter ks _ _ => forallb (fun k => expr_ok arity (snd k)) ks
  | NPipe a b =>
      node_params_ok arity a inp &&
      match run_node a inp with
      | ObsEvents mid =>
          let ar := first_arity (records mid) in
          arity_ok (Z.of_nat ar) (records mid) &&
          (match records mid with [] => true | _ => node_params_ok ar b mid end)
      | _ => true
      end
  end.

(* (arity, node, input script, observation) *)
Definition c15_case : Type := nat * node_spec * list event * observation.

Definition c15_tie (c : c15_case) : bool :=
  let '(arity, nd, inp, ob) := c in
  arity_ok (Z.of_nat arity) (records inp) && node_params_ok arity nd inp && obs_eqb (run_node nd inp) ob.

(* the batch result the consolidated output must equal, computed from the consolidated input only *)
Fixpoint batch_of (nd : node_spec) (rows : list row) : option (list rec) :=
  match nd with
  | NPipe a b =>
      match batch_of a rows with
      | Some l => if forallb (fun r => negb (retr r)) l then batch_of b (map vals l) else None
      | None => None
      end
  | NFilter e => Some (bag_filter (eval e) rows)
  | NMap es => Some (bag_map (map eval es) rows)
  | NUnnest i => Some (bag_unnest i rows)
  | NLookup table a b => Some (bag_lookup (table_joined table a b) rows)
  | NDistinct => Some (bag_support rows)
  | NOst _ None _ => Some (map ins rows)
  | _ => None        (* limits: property C05 *)
  end.
Definition insert_only (l : list rec) : bool := forallb (fun r => negb (retr r)) l.
Definition rows_of (l : list event) : list row := map vals (records l).
(* does the node promise a valid output changelog for this input?  (LookupJoin: when the joined side only inserts) *)
Fixpoint promises_valid (nd : node_spec) : bool :=
  match nd with
  | NLookup table _ _ => insert_only (records table)
  | NPipe a b => promises_valid a && promises_valid b
  | _ => true
  end.

(* the oracle, on the implementation's observation: for a valid input changelog the node neither fails nor
   panics, its output is a valid changelog, it consolidates to the batch result, and ORDER BY output is
   insert-only and sorted. *)
Definition c15_spec (c : c15_case) : bool :=
  let '(arity, nd, inp, ob) := c in
  negb (valid_changelog (records inp)) ||
  match ob with
  | ObsEvents out =>
      (negb (promises_valid nd) || valid_changelog (records out)) &&
      match batch_of nd (expand (records inp)) with
      | Some b => bag_eqb (records out) b
      | None => true
      end &&
      match nd with
      | NOst ks None _ => insert_only (records out) && sorted_by (okeys_of ks) (map vals (records out))
      | NLimit n | NPipe _ (NLimit n) => (n <? 0) || (Z.of_nat (length (records out)) <=? n)
      | NPipe _ (NOst ks None _) => insert_only (records out) && sorted_by (okeys_of ks) (map vals (records out))
      | _ => true
      end
  | ObsRows out =>
      match nd with
      | NPrinter ks None _ => bag_eqb (map ins out) (map ins (expand (records inp))) && sorted_by (okeys_of ks) out
      | _ => true
      end
  | ObsErr => match nd with NOst _ (Some n) _ => n <? 0 | _ => false end
  | ObsPanic => false
  end.
