(* Model/C10Spec.v — C10: case type of the differential run, tie and oracles.  Executable definitions only.
   The model of octosql/types.go and Value.Type is Model/Types.v. *)
From Octo Require Import Types TypesClash.

Definition oty_eqb (a b : option ty) : bool :=
  match a, b with
  | None, None => true
  | Some x, Some y => ty_eqb x y
  | _, _ => false
  end.
Definition is_ok_ty (o : outcome ty) (t : ty) : bool := match o with Ok r => ty_eqb r t | _ => false end.

Inductive c10_case : Type :=
(* a pair of types with everything the implementation says about it *)
| CPair (a b : ty) (vals : list value)      (* probe values: inhabitants of a, of b, NULL, random ones *)
        (ab ba : rel) (eq : bool)           (* a.Is(b), b.Is(a), a.Equals(b) *)
        (s_ab s_ba : ty) (comm : bool)      (* TypeSum(a,b), TypeSum(b,a), TypeSum(a,b).Equals(TypeSum(b,a)) *)
        (inter : option ty)                 (* TypeIntersection(a,b) *)
        (cl_ab cl_ba cl_inter : bool)       (* the engine's finding-class predicates sumClash(a,b), sumClash(b,a), interClash(a,b) *)
(* the upper-bound law on its own (so that the known finding's class covers nothing else) *)
| CUpper (a b s : ty) (a_s b_s : rel)       (* s = TypeSum(a,b); a.Is(s), b.Is(s) *)
(* the lower-bound law of the intersection on its own *)
| CInter (a b i : ty) (i_a i_b : rel)       (* i = *TypeIntersection(a,b); i.Is(a), i.Is(b) *)
(* one type *)
| CType (a : ty) (vals : list value)
        (aa : rel) (s_aa : ty) (idem : bool) (* a.Is(a), TypeSum(a,a), TypeSum(a,a).Equals(a) *)
        (nn : ty)                            (* NonNullable(a) *)
(* one value *)
| CValue (v : value) (t : ty) (cl : bool)     (* v.Type(): compared with the model; cl = the engine's valueClash(v) *)
| CValueType (v : value) (t : ty).           (* v.Type(): does v inhabit it *)

Definition c10_tie (c : c10_case) : bool :=
  match c with
  | CPair a b _ ab ba eq s_ab s_ba comm inter cl_ab cl_ba cl_inter =>
      rel_eqb (is_rel a b) ab && rel_eqb (is_rel b a) ba && Bool.eqb (ty_equals a b) eq
      && is_ok_ty (tsum a b) s_ab && is_ok_ty (tsum b a) s_ba && Bool.eqb (ty_equals s_ab s_ba) comm
      && match type_inter a b with Ok i => oty_eqb i inter | _ => false end
      (* the engine tags the finding's class with exactly the model's class predicates *)
      && Bool.eqb (sum_clash a b) cl_ab && Bool.eqb (sum_clash b a) cl_ba && Bool.eqb (inter_clash a b) cl_inter
  | CUpper a b s a_s b_s =>
      is_ok_ty (tsum a b) s && rel_eqb (is_rel a s) a_s && rel_eqb (is_rel b s) b_s
  | CInter a b i i_a i_b =>
      match type_inter a b with Ok (Some r) => ty_eqb r i | _ => false end
      && rel_eqb (is_rel i a) i_a && rel_eqb (is_rel i b) i_b
  | CType a _ aa s_aa idem nn =>
      rel_eqb (is_rel a a) aa && is_ok_ty (tsum a a) s_aa && Bool.eqb (ty_equals s_aa a) idem
      && ty_eqb (non_nullable a) nn
  | CValue v t cl => is_ok_ty (type_of_value v) t && Bool.eqb (value_clash v) cl
  | CValueType v t => true
  end.

(* the laws, read on the implementation's own answers *)
Definition c10_spec (c : c10_case) : bool :=
  match c with
  | CPair a b vals ab ba eq s_ab s_ba comm inter _ _ _ =>
      (* Equals is mutual Is *)
      Bool.eqb eq (is_Is ab && is_Is ba)
      (* commutative up to Equals, on normal-form types *)
      && (if wf_ty a && wf_ty b then comm else true)
      (* a Is b is sound for the probe values *)
      && (if is_Is ab then forallb (fun v => negb (has_type v a) || has_type v b) vals else true)
      && (if is_Is ba then forallb (fun v => negb (has_type v b) || has_type v a) vals else true)
  | CUpper a b s a_s b_s => is_Is a_s && is_Is b_s
  | CInter a b i i_a i_b => is_Is i_a && is_Is i_b
  | CType a vals aa s_aa idem nn =>
      is_Is aa && idem
      && (if nn_shape a
          then forallb (fun v => Bool.eqb (has_type v nn) (has_type v a && not_null v)) vals
          else true)
  | CValue v t _ => true
  | CValueType v t => has_type v t
  end.
