(* Model/C09Spec.v — C09: the equivalences the operators derive from Value.Compare / Hash, the abstract
   behaviour of the containers they put values in, the case type of the differential run, tie and oracle.
   Executable definitions only.  Value.Compare, Equal, the hash feed, fnv1a, CompareValueSlices and the
   hashmap equality closure themselves are in Model/Values.v. *)
From Octo Require Import Values.

(* ---- the "same key" relations of the containers ---------------------------------------------------- *)

(* google/btree under GroupKey.Less = CompareValueSlices (CustomTriggerGroupBy.aggregates, the triggers'
   key trees, join key trees): two keys are the same item iff neither is less than the other. *)
Definition eq_tree (a b : list value) : bool := negb (slices_less a b) && negb (slices_less b a).

(* zyedidia hashmap as built by SimpleGroupBy and Distinct: hash = HashManyValues, equality = the closure
   `for i := range a { if a[i].Compare(b[i]) != 0 {return false} }` (slices_eq).  [a] is the stored key. *)
Definition eq_hashmap (a b : list value) : bool := (vhash_many a =? vhash_many b) && slices_eq a b.

(* aggregates.Distinct (count_distinct & co.): hash = Value.Hash, equality = a.Compare(b) == 0 *)
Definition eq_count_distinct (a b : value) : bool := (vhash a =? vhash b) && (vcompare a b =? 0).

(* orderByItem.Less: keys with direction multipliers first, then the record's values.  Go indexes
   than.Key[i], DirectionMultipliers[i], than.Values[i] without a length check: a short operand panics. *)
Fixpoint ob_vals_less (v1 v2 : list value) : outcome bool :=
  match v1 with
  | [] => Ok false
  | x :: xs => match v2 with
               | y :: ys => let c := vcompare x y in if c =? 0 then ob_vals_less xs ys else Ok (c =? -1)
               | [] => Panic 1
               end
  end.
Fixpoint ob_less (mults : list Z) (k1 k2 v1 v2 : list value) : outcome bool :=
  match k1 with
  | [] => ob_vals_less v1 v2
  | x :: xs => match k2, mults with
               | y :: ys, m :: ms =>
                   let c := vcompare x y in
                   if c =? 0 then ob_less ms xs ys v1 v2 else Ok (c * m =? -1)
               | _, _ => Panic 1
               end
  end.
Definition is_ok_false (o : outcome bool) : bool := match o with Ok false => true | _ => false end.
Definition is_ok_true (o : outcome bool) : bool := match o with Ok true => true | _ => false end.
Definition eq_orderby (mults : list Z) (k1 v1 k2 v2 : list value) : bool :=
  is_ok_false (ob_less mults k1 k2 v1 v2) && is_ok_false (ob_less mults k2 k1 v2 v1).

(* ---- the operators on a batch of additions (no retractions, no event times, end of stream) ---------- *)

(* a group: (key stored first, key seen last, number of records) *)
Definition grp : Type := (list value * list value * Z)%type.
Definition g_first (g : grp) := fst (fst g).
Definition g_last (g : grp) := snd (fst g).
Definition g_count (g : grp) := snd g.

(* hashmap: association list in insertion order, searched with the map's key equality *)
Fixpoint hm_add (eq : list value -> list value -> bool) (r : list value) (gs : list grp) : list grp :=
  match gs with
  | [] => [(r, r, 1)]
  | g :: rest => if eq (g_first g) r then (g_first g, r, g_count g + 1) :: rest else g :: hm_add eq r rest
  end.
Definition hm_groups (eq : list value -> list value -> bool) (rows : list (list value)) : list grp :=
  fold_left (fun gs r => hm_add eq r gs) rows [].

(* btree: association list kept sorted under the given less; an item is found iff neither is less *)
Fixpoint bt_add (less : list value -> list value -> bool) (r : list value) (gs : list grp) : list grp :=
  match gs with
  | [] => [(r, r, 1)]
  | g :: rest =>
      if less r (g_first g) then (r, r, 1) :: g :: rest
      else if less (g_first g) r then g :: bt_add less r rest
      else (g_first g, r, g_count g + 1) :: rest
  end.
Definition bt_groups (less : list value -> list value -> bool) (rows : list (list value)) : list grp :=
  fold_left (fun gs r => bt_add less r gs) rows [].

(* nodes.Distinct: a record is forwarded when its count goes from 0 to 1 *)
Definition op_distinct (rows : list (list value)) : list (list value) :=
  map g_first (hm_groups eq_hashmap rows).

(* nodes.SimpleGroupBy, key = every column, aggregate count(1): one row per hashmap entry (in map order:
   compared as a bag), the key is the one stored when the group was created *)
Definition op_simple_group_by (rows : list (list value)) : list (list value) :=
  map (fun g => g_first g ++ [VInt (g_count g)]) (hm_groups eq_hashmap rows).

(* nodes.CustomTriggerGroupBy with the end-of-stream trigger: the trigger's key tree is filled with
   ReplaceOrInsert (keeps the key seen last), polled in ascending order; counts come from the aggregates tree *)
Definition op_trigger_group_by (rows : list (list value)) : list (list value) :=
  map (fun g => g_last g ++ [VInt (g_count g)]) (bt_groups slices_less rows).

(* aggregates.Distinct around Count, as the only aggregate of a key-less SimpleGroupBy over column 0.
   -1: no output row (no input rows); -2: NULL (only NULL inputs); else the number of distinct non-NULL values *)
Definition hm1_add (r : value) (gs : list (value * Z)) : list (value * Z) :=
  (fix go (gs : list (value * Z)) :=
     match gs with
     | [] => [(r, 1)]
     | (k, n) :: rest => if eq_count_distinct k r then (k, n + 1) :: rest else (k, n) :: go rest
     end) gs.
Definition col0 (rows : list (list value)) : outcome (list value) :=
  fold_right (fun r acc => match r, acc with
                           | x :: _, Ok l => Ok (x :: l)
                           | [], Ok _ => Panic 2          (* Variable(0,0) on an empty record: index out of range *)
                           | _, o => o
                           end) (Ok []) rows.
Definition is_null (v : value) : bool := match v with VNull => true | _ => false end.
Definition op_count_distinct (rows : list (list value)) : outcome Z :=
  obind (col0 rows) (fun vs =>
    let nn := filter (fun v => negb (is_null v)) vs in
    match vs, nn with
    | [], _ => Ok (-1)
    | _, [] => Ok (-2)
    | _, _ => Ok (Z.of_nat (length (fold_left (fun gs v => hm1_add v gs) nn [])))
    end).

(* nodes.OrderSensitiveTransform without limit, key expressions = every column: the tree keeps the item
   inserted first and a count; Ascend emits each item Count times *)
Definition ob_lt (mults : list Z) (a b : list value) : bool := is_ok_true (ob_less mults a b a b).
Definition op_order_by (desc : bool) (rows : list (list value)) : list (list value) :=
  let arity := match rows with [] => O | r :: _ => length r end in
  let mults := repeat (if desc then -1 else 1) arity in
  flat_map (fun g => repeat (g_first g) (Z.to_nat (g_count g))) (bt_groups (ob_lt mults) rows).

(* ---- the differential cases ----------------------------------------------------------------------- *)

Fixpoint zip_compare (a b : list value) : list Z :=
  match a, b with
  | x :: xs, y :: ys => vcompare x y :: zip_compare xs ys
  | _, _ => []
  end.

Definition in_range (c : Z) : bool := (c =? -1) || (c =? 0) || (c =? 1).

(* "less" read off elementwise comparison answers: first non-zero answer decides by its sign, then the shorter key *)
Fixpoint obs_less (cs : list Z) (n1 n2 : nat) : bool :=
  match cs with
  | c :: rest => if c =? 0 then obs_less rest (Nat.pred n1) (Nat.pred n2) else c <? 0
  | [] => Nat.ltb n1 n2
  end.

Definition b2z (b : bool) : Z := if b then 1 else 0.

(* the comparison functions of functions/functions.go, all Strict (a NULL argument gives NULL):
   = / != are Value.Equal, the order operators read the sign of Compare, IN is Equal against each tuple element *)
Definition expr_model (a b b2 : value) : list Z :=
  let strict2 (r : bool) := if is_null a || is_null b then 2 else b2z r in
  [ strict2 (vequal a b); strict2 (negb (vequal a b));
    strict2 (vcompare a b <? 0); strict2 (vcompare a b <=? 0); strict2 (0 <? vcompare a b); strict2 (0 <=? vcompare a b);
    if is_null a then 2 else b2z (vequal a b || vequal a b2) ].

Inductive c09_case : Type :=
| CMatrix (vals : list value)              (* n values *)
          (cmp : list (list Z))            (* observed vals[i].Compare(vals[j]) *)
          (hashes : list Z)                (* observed vals[i].Hash() *)
          (eqs : list (list bool))         (* observed vals[i].Equal(vals[j]) *)
| CSlices (k1 k2 : list value)
          (l12 l21 : bool)                 (* observed execution.CompareValueSlices(k1,k2), (k2,k1) *)
          (h1 h2 : Z)                      (* observed octosql.HashManyValues *)
          (c12 c21 : list Z)               (* observed k1[i].Compare(k2[i]) and k2[i].Compare(k1[i]), i < min length *)
(* the comparison operators resolved by the real typechecker for two columns of one static type *)
| CExpr (env : Z)                          (* which static typing of the columns (engine's enum; not used by the model) *)
        (a b b2 : value)
        (cab cab2 : Z)                     (* observed a.Compare(b), a.Compare(b2) *)
        (outs : list Z)                    (* a = b, a != b, a < b, a <= b, a > b, a >= b, a IN (b, b2):
                                              0 false, 1 true, 2 NULL, 3 anything else (error, panic, other value) *)
| COps (desc : bool) (rows : list (list value))
       (o_distinct o_sgb o_ctgb : list (list value)) (o_cd : Z) (o_order : list (list value)).

Definition rows_eqb (a b : list (list value)) : bool := list_eqb (list_eqb value_eqb) a b.

(* bag equality of row lists under structural equality *)
Fixpoint remove_first (r : list value) (l : list (list value)) : option (list (list value)) :=
  match l with
  | [] => None
  | x :: xs => if list_eqb value_eqb r x then Some xs
               else match remove_first r xs with Some ys => Some (x :: ys) | None => None end
  end.
Fixpoint rows_bag_eqb (a b : list (list value)) : bool :=
  match a with
  | [] => match b with [] => true | _ => false end
  | r :: rest => match remove_first r b with Some b' => rows_bag_eqb rest b' | None => false end
  end.

Definition same_arity (rows : list (list value)) : bool :=
  match rows with
  | [] => true
  | r :: rest => (0 <? Z.of_nat (length r)) && forallb (fun x => Nat.eqb (length x) (length r)) rest
  end.

Definition c09_tie (c : c09_case) : bool :=
  match c with
  | CMatrix vals cmp hashes eqs =>
      list_eqb (list_eqb Z.eqb) (map (fun a => map (vcompare a) vals) vals) cmp
      && list_eqb Z.eqb (map vhash vals) hashes
      && list_eqb (list_eqb Bool.eqb) (map (fun a => map (vequal a) vals) vals) eqs
  | CSlices k1 k2 l12 l21 h1 h2 c12 c21 =>
      Bool.eqb (slices_less k1 k2) l12 && Bool.eqb (slices_less k2 k1) l21
      && (vhash_many k1 =? h1) && (vhash_many k2 =? h2)
      && list_eqb Z.eqb (zip_compare k1 k2) c12 && list_eqb Z.eqb (zip_compare k2 k1) c21
  | CExpr _ a b b2 _ _ outs => list_eqb Z.eqb (expr_model a b b2) outs
  | COps desc rows od os oc cd oo =>
      same_arity rows
      && rows_eqb (op_distinct rows) od
      && rows_bag_eqb (op_simple_group_by rows) os
      && rows_eqb (op_trigger_group_by rows) oc
      && match op_count_distinct rows with Ok n => n =? cd | _ => false end
      && rows_eqb (op_order_by desc rows) oo
  end.

(* ---- the oracle: the order laws and "compare 0 => same hash", read on the implementation's own answers *)

Fixpoint all2 {A B} (f : A -> B -> bool) (a : list A) (b : list B) : bool :=
  match a, b with
  | [], [] => true
  | x :: xs, y :: ys => f x y && all2 f xs ys
  | _, _ => false
  end.

Definition mx_shape (n : nat) (cmp : list (list Z)) (hashes : list Z) (eqs : list (list bool)) : bool :=
  Nat.eqb (length cmp) n && forallb (fun r => Nat.eqb (length r) n) cmp &&
  Nat.eqb (length hashes) n &&
  Nat.eqb (length eqs) n && forallb (fun r => Nat.eqb (length r) n) eqs.

Definition mx_range (cmp : list (list Z)) : bool :=
  forallb (forallb (fun c => (c =? -1) || (c =? 0) || (c =? 1))) cmp.

Definition mx_get (cmp : list (list Z)) (i j : nat) : Z := nth j (nth i cmp []) 7.   (* used after mx_shape *)

Definition mx_refl (n : nat) (cmp : list (list Z)) : bool :=
  forallb (fun i => mx_get cmp i i =? 0) (seq 0 n).

Definition mx_antisym (n : nat) (cmp : list (list Z)) : bool :=
  forallb (fun i => forallb (fun j => mx_get cmp j i =? - mx_get cmp i j) (seq 0 n)) (seq 0 n).

(* forall i j k, c[i][j] <= 0 -> c[j][k] <= 0 -> c[i][k] <= 0 *)
Definition mx_trans (cmp : list (list Z)) : bool :=
  forallb (fun ri =>
    all2 (fun cij rj =>
      if cij <=? 0 then all2 (fun cjk cik => if cjk <=? 0 then cik <=? 0 else true) rj ri else true)
      ri cmp) cmp.

(* c[i][j] = 0 -> forall k, c[i][k] = c[j][k] *)
Definition mx_cong (cmp : list (list Z)) : bool :=
  forallb (fun ri => all2 (fun cij rj => if cij =? 0 then list_eqb Z.eqb ri rj else true) ri cmp) cmp.

(* c[i][j] = 0 -> hash i = hash j *)
Definition mx_hash (cmp : list (list Z)) (hashes : list Z) : bool :=
  all2 (fun ri hi => all2 (fun cij hj => if cij =? 0 then hi =? hj else true) ri hashes) cmp hashes.

(* Equal(i,j) = (c[i][j] = 0) unless both are NULL, where it is false *)
Definition mx_equal (vals : list value) (cmp : list (list Z)) (eqs : list (list bool)) : bool :=
  all2 (fun vi rc_re =>
          all2 (fun vj ce => Bool.eqb (snd ce) (if is_null vi && is_null vj then false else fst ce =? 0))
               vals (combine (fst rc_re) (snd rc_re)))
       vals (combine cmp eqs).

Definition c09_spec (c : c09_case) : bool :=
  match c with
  | CMatrix vals cmp hashes eqs =>
      let n := length vals in
      mx_shape n cmp hashes eqs && mx_range cmp && mx_refl n cmp && mx_antisym n cmp && mx_trans cmp
      && mx_cong cmp && mx_hash cmp hashes && mx_equal vals cmp eqs
  | CSlices k1 k2 l12 l21 h1 h2 c12 c21 =>
      negb (l12 && l21) &&
      (if Nat.eqb (length k1) (length k2) then (if negb l12 && negb l21 then h1 =? h2 else true)
       else xorb l12 l21)          (* keys of different lengths are never the same tree item *)
      (* CompareValueSlices is the lexicographic order of the implementation's own Compare answers *)
      && forallb in_range c12 && forallb in_range c21
      && Nat.eqb (length c12) (Nat.min (length k1) (length k2)) && Nat.eqb (length c21) (length c12)
      && Bool.eqb l12 (obs_less c12 (length k1) (length k2)) && Bool.eqb l21 (obs_less c21 (length k2) (length k1))
  | CExpr _ a b b2 cab cab2 outs =>
      if is_null a || is_null b then true
      else list_eqb Z.eqb outs
             [b2z (cab =? 0); b2z (negb (cab =? 0)); b2z (cab <? 0); b2z (cab <=? 0); b2z (0 <? cab); b2z (0 <=? cab);
              b2z ((cab =? 0) || (negb (is_null b2) && (cab2 =? 0)))]
  | COps _ _ _ _ _ _ _ => true      (* the partition oracle of the operator runs (and of the self equi-join) is evaluated by the engine *)
  end.
