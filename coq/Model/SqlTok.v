(* Model/SqlTok.v — tokens of the SQL fragment and the template language the generated file
   Gen/GenAstFormat.v is written in (C30).  Executable definitions only.
   A token is what sqlparser.Tokenizer.Scan returns: (token type, value). *)
From Octo Require Export Base.
From Coq Require Export String.
Open Scope Z_scope.

Definition ident := list Z.      (* bytes of an identifier / literal text *)

(* keywords and punctuation of the fragment (token types of token.go / sql.y) *)
Inductive kw : Type :=
| K_select | K_distinct | K_from | K_where | K_group | K_by | K_trigger | K_order | K_limit | K_offset
| K_as | K_join | K_left | K_right | K_outer | K_lookup | K_stream | K_on
| K_counting | K_watermark | K_end | K_of | K_after | K_delay
| K_and | K_or | K_not | K_like | K_in | K_is | K_null | K_true | K_false
| K_interval | K_descriptor | K_table | K_asc | K_desc | K_convert
| K_with | K_having | K_exists | K_between | K_case | K_when | K_then | K_else | K_inner | K_cross | K_regexp
| P_tilde | P_tildestar | P_ntilde | P_ntildestar   (* ~  ~*  !~  !~* *)
| P_lparen | P_rparen | P_comma | P_dot | P_star | P_plus | P_minus | P_slash
| P_eq | P_lt | P_gt | P_le | P_ge | P_ne | P_nseq
| P_rarrow      (* =>  RIGHTARROW *)
| P_arrow       (* ->  JSON_EXTRACT_OP *)
| P_explode     (* ->* JSON_EXPLODE_OP *)
| P_cast        (* ::  LIST_ARG *)
| P_listtype    (* []  LIST_TYPE *)
| P_objtype     (* {}  OBJECT_TYPE *)
| P_lbracket | P_rbracket.

Inductive token : Type :=
| TK (k : kw)
| TId (s : ident)        (* ID *)
| TStr (s : ident)       (* STRING *)
| TInt (s : ident)       (* INTEGRAL *)
| TFloat (s : ident)     (* FLOAT *)
| THex (s : ident)       (* HEX  x'..' *)
| TBit (s : ident)       (* BIT_LITERAL  b'..' *)
| THexNum (s : ident)    (* HEXNUM  0x.. *)
| TArg (s : ident)       (* VALUE_ARG  :v1 (also what a '?' scans to) *)
| TOther (n : Z)         (* any other token type of the real tokenizer (outside the fragment) *)
| TBad.                  (* emitted by the template interpreter for a field the model does not know *)

Definition kw_eq_dec : forall a b : kw, {a = b} + {a <> b}.
Proof. decide equality. Defined.
Definition kw_eqb (a b : kw) : bool := if kw_eq_dec a b then true else false.

Definition ident_eqb (a b : ident) : bool := list_eqb Z.eqb a b.

Definition token_eqb (a b : token) : bool :=
  match a, b with
  | TK x, TK y => kw_eqb x y
  | TId x, TId y | TStr x, TStr y | TInt x, TInt y | TFloat x, TFloat y
  | THex x, THex y | TBit x, TBit y | THexNum x, THexNum y | TArg x, TArg y => ident_eqb x y
  | TOther x, TOther y => x =? y
  | TBad, TBad => true
  | _, _ => false
  end.
Definition tokens_eqb : list token -> list token -> bool := list_eqb token_eqb.

(* ---- the template language: what a Format method's buf.Myprintf calls say ---- *)
Inductive piece : Type :=
| PL (toks : list token)                (* literal text between the % verbs, tokenised by the real Tokenizer at generation time *)
| PV (field : string)                   (* %v applied to node.<field> ("Self" = the node itself / a conversion of it) *)
| PS (field : string)                   (* %s applied to node.<field> *)
| PIf (cond : string) (body els : list piece)    (* if <cond> { Myprintf… } [else { Myprintf… }]; cond = Go source text *)
| PEach (field : string) (body : list piece).    (* for _, item := range node.<field> { Myprintf(…, item) }; "Item" = the loop variable *)
Definition template := list piece.

(* list-shaped Format methods:  prefix := <first>; for … { Myprintf("%s%v", prefix, n); prefix = <sep> } *)
Record list_template := { lt_first : list token; lt_sep : list token }.

(* an environment gives, for a field name, the tokens it prints, and for a condition (by its source text) its truth value *)
Record fieldval := { fv_toks : list token; fv_present : bool }.
Definition env := list (string * fieldval).

Fixpoint lookup (f : string) (e : env) : option fieldval :=
  match e with
  | [] => None
  | (g, v) :: e' => if String.eqb f g then Some v else lookup f e'
  end.

Definition field_toks (e : env) (f : string) : list token :=
  match lookup f e with Some v => fv_toks v | None => [TBad] end.

(* the branches of a conditional hold only PL / PV / PS *)
Fixpoint interp_flat (b : list piece) (e : env) : list token :=
  match b with
  | [] => []
  | PL t :: b' => t ++ interp_flat b' e
  | PV g :: b' | PS g :: b' => field_toks e g ++ interp_flat b' e
  | PIf _ _ _ :: b' | PEach _ _ :: b' => TBad :: interp_flat b' e      (* nested conditionals / loops are not part of the language *)
  end.

Fixpoint interp_pieces (ps : list piece) (e : env) : list token :=
  match ps with
  | [] => []
  | p :: ps' =>
      (match p with
       | PL t => t
       | PV f | PS f => field_toks e f
       | PIf c body els =>
           match lookup c e with
           | Some v => if fv_present v then interp_flat body e else interp_flat els e
           | None => [TBad]          (* a condition the model does not know *)
           end
       | PEach f body =>             (* the environment holds the concatenation of the items' texts; only "%v" per item is modelled *)
           match body with
           | [PV g] => if String.eqb g "Item" then field_toks e f else [TBad]
           | _ => [TBad]
           end
       end) ++ interp_pieces ps' e
  end.
Definition interp (t : template) (e : env) : list token := interp_pieces t e.

Definition fv (t : list token) : fieldval := {| fv_toks := t; fv_present := true |}.
Definition fv_opt (t : list token) (present : bool) : fieldval := {| fv_toks := t; fv_present := present |}.

(* prefix/separator lists *)
Fixpoint join_with (sep : list token) (xs : list (list token)) : list token :=
  match xs with
  | [] => []
  | [x] => x
  | x :: xs' => x ++ sep ++ join_with sep xs'
  end.
Definition interp_list (lt : list_template) (xs : list (list token)) : list token :=
  match xs with [] => [] | _ => lt_first lt ++ join_with (lt_sep lt) xs end.

(* ---- precedence table of sql.y (extracted lines: associativity + token names, lowest first) ---- *)
Inductive assoc := ALeft | ARight | ANonassoc.
Definition prec_table := list (assoc * list string).

Fixpoint mem_string (s : string) (l : list string) : bool :=
  match l with [] => false | x :: l' => String.eqb s x || mem_string s l' end.

(* 1-based line index of a token name in the table; 0 = not declared *)
Fixpoint prec_level_from (i : nat) (t : prec_table) (s : string) : nat :=
  match t with
  | [] => O
  | (_, names) :: t' => if mem_string s names then i else prec_level_from (S i) t' s
  end.
Definition prec_level (t : prec_table) (s : string) : nat := prec_level_from 1 t s.
Fixpoint prec_assoc (t : prec_table) (s : string) : option assoc :=
  match t with
  | [] => None
  | (a, names) :: t' => if mem_string s names then Some a else prec_assoc t' s
  end.
