(* Model/GroupBy.v — execution/nodes/custom_trigger_group_by.go (Run, trigger), simple_group_by.go,
   event_time_buffer.go + execution/record_event_time_buffer.go (the constructor of the custom-trigger
   group-by wraps its source in an EventTimeBuffer), physical/nodes.go (which node is built).
   Executable definitions only.

   Layers: (1) the node over an abstract "vector aggregate" (state of all aggregates of one group);
   (2) the vector built by the group-by code from single aggregates (NULL inputs skipped,
   AggregatedSetSize); (3) COUNT and SUM over Int, used by the executable tie.

   A record handed to the group-by is  key columns (nk of them) ++ one argument column per aggregate:
   the harness uses variable expressions key[i] = column i, argument[j] = column nk+j. *)
From Octo Require Export Triggers.

(* ---------- RecordEventTimeBuffer / EventTimeBuffer ---------- *)
Definition etbuf : Type := list (Z * list rec).     (* ascending event time -> records in arrival order *)

Fixpoint buf_add (r : rec) (b : etbuf) : etbuf :=
  match b with
  | [] => [(et r, [r])]
  | (t, rs) :: rest =>
      if et r <? t then (et r, [r]) :: b
      else if et r =? t then (t, rs ++ [r]) :: rest
      else (t, rs) :: buf_add r rest
  end.

(* Emit(watermark): pop the minimum while !EventTime.After(watermark) *)
Fixpoint buf_emit (w : Z) (b : etbuf) : list rec * etbuf :=
  match b with
  | [] => ([], [])
  | (t, rs) :: rest =>
      if w <? t then ([], b)
      else let '(o, b') := buf_emit w rest in (rs ++ o, b')
  end.

Definition etb_step (b : etbuf) (e : event) : etbuf * list event :=
  match e with
  | Rec r => if et r =? zero_ns then (b, [Rec r]) else (buf_add r b, [])      (* EventTime.IsZero(): not buffered *)
  | WM w => let '(o, b') := buf_emit w b in (b', map Rec o ++ [WM w])
  end.

Fixpoint etb_run_from (b : etbuf) (es : list event) : etbuf * list event :=
  match es with
  | [] => (b, [])
  | e :: rest =>
      let '(b1, o1) := etb_step b e in
      let '(b2, o2) := etb_run_from b1 rest in (b2, o1 ++ o2)
  end.

(* everything the buffer hands to the group-by, including the final Emit(WatermarkMaxValue) *)
Definition etb_run_finish (es : list event) : list event :=
  let '(b, o) := etb_run_from [] es in o ++ map Rec (fst (buf_emit max_wm b)).

(* ---------- layer 1: the nodes over an abstract vector aggregate ---------- *)
Section GroupBy.
  Variable ST : Type.
  Variable rinit : ST.
  Variable radd : bool -> list value -> ST -> ST.     (* retraction flag, aggregate inputs *)
  Variable rout : ST -> list value.                   (* the aggregate columns of the output row *)
  Variable wl : wkey -> wkey -> bool.                 (* comparator of the watermark trigger's tree *)
  Variable nk : nat.                                  (* len(keyExprs) *)
  Variable kti : option nat.                          (* keyEventTimeIndex; None = -1 *)

  Definition keyf (r : rec) : gkey := firstn nk (vals r).
  Definition argf (r : rec) : list value := skipn nk (vals r).

  (* aggregatesItem: (Aggregates + AggregatedSetSize, OverallRecordCount) *)
  Definition item : Type := ST * Z.

  (* the update of one group's item by one of its records; the item is deleted when the count is 0 *)
  Definition item_step (o : option item) (r : rec) : option item :=
    let '(st, c) := match o with Some it => it | None => (rinit, 0) end in
    let c' := if retr r then c - 1 else c + 1 in
    if c' =? 0 then None else Some (radd (retr r) (argf r) st, c').

  Definition aggs_map : Type := list (gkey * item).

  Definition aggs_upd (r : rec) (aggs : aggs_map) : aggs_map :=
    let found := m_get slices_less (keyf r) aggs in
    let sk := match found with Some e => fst e | None => keyf r end in     (* the key the item is stored under *)
    match item_step (option_map snd found) r with
    | Some it => m_put slices_less sk it aggs
    | None => m_del slices_less sk aggs
    end.

  (* previouslySentValues: key -> (Values, EventTime) *)
  Definition sent_map : Type := list (gkey * (list value * Z)).

  Definition out_row (aggs : aggs_map) (k : gkey) : option (list value) :=
    match m_get slices_less k aggs with
    | Some e => Some (k ++ rout (fst (snd e)))
    | None => None
    end.

  (* newValueEventTime: curEventTime, lowered to the row's own event time when there is one *)
  Definition new_time (cur : Z) (ov : option (list value)) : Z :=
    match ov, kti with
    | Some row, Some i =>
        match nth_error row i with
        | Some v => if fst (vtime v) <? cur then fst (vtime v) else cur        (* cur.After(row[i].Time) *)
        | None => cur                                                          (* excluded by cfg_ok *)
        end
    | _, _ => cur
    end.

  (* one iteration of the loop in trigger(): retract what was sent for the key, send its current row *)
  Definition emit_key (aggs : aggs_map) (cur : Z) (sent : sent_map) (k : gkey) : sent_map * list event :=
    let ov := out_row aggs k in
    let t := new_time cur ov in
    let '(sent1, o1) :=
      match m_get slices_less k sent with
      | Some e => (m_del slices_less k sent, [Rec (mkrec (fst (snd e)) true t)])
      | None => (sent, [])
      end in
    match ov with
    | Some row => (m_put slices_less k (row, t) sent1, o1 ++ [Rec (mkrec row false t)])
    | None => (sent1, o1)
    end.

  Fixpoint emit_keys (aggs : aggs_map) (cur : Z) (sent : sent_map) (ks : list gkey) : sent_map * list event :=
    match ks with
    | [] => (sent, [])
    | k :: r =>
        let '(s1, o1) := emit_key aggs cur sent k in
        let '(s2, o2) := emit_keys aggs cur s1 r in (s2, o1 ++ o2)
    end.

  Definition gst : Type := aggs_map * sent_map * list tstate.

  (* the produce callback and the metadata callback of CustomTriggerGroupBy.Run *)
  Definition ctg_step (s : gst) (e : event) : gst * list event :=
    let '(aggs, sent, ts) := s in
    match e with
    | Rec r =>
        let aggs' := aggs_upd r aggs in
        let '(ks, ts') := mt_poll wl (mt_key wl (keyf r) ts) in
        let '(sent', o) := emit_keys aggs' (et r) sent ks in
        ((aggs', sent', ts'), o)
    | WM w =>
        let '(ks, ts') := mt_poll wl (mt_wm w ts) in
        let '(sent', o) := emit_keys aggs w sent ks in
        ((aggs, sent', ts'), o ++ [WM w])                  (* the watermark is forwarded after triggering *)
    end.

  (* after the source returned: EndOfStreamReached, trigger(WatermarkMaxValue) *)
  Definition ctg_finish (s : gst) : gst * list event :=
    let '(aggs, sent, ts) := s in
    let '(ks, ts') := mt_poll wl (mt_eos ts) in
    let '(sent', o) := emit_keys aggs max_wm sent ks in
    ((aggs, sent', ts'), o).

  Fixpoint ctg_run_from (s : gst) (es : list event) : gst * list event :=
    match es with
    | [] => (s, [])
    | e :: rest =>
        let '(s1, o1) := ctg_step s e in
        let '(s2, o2) := ctg_run_from s1 rest in (s2, o1 ++ o2)
    end.

  Definition ctg_init (trigs : list tkind) : gst :=
    ([], [], mt_init (match kti with Some i => i | None => O end) trigs).

  (* the node's whole output for the stream [es] its (buffered) source delivers *)
  Definition ctg_run (trigs : list tkind) (es : list event) : list event :=
    let '(s, o) := ctg_run_from (ctg_init trigs) es in o ++ snd (ctg_finish s).

  (* SimpleGroupBy: no buffer, watermarks pass through, every group is emitted once at the end with a
     zero event time.  The hashmap (lookup by hash and Compare = 0; equal keys hash equally, theorem
     rows_enc of C09) is an association list searched by the same equivalence; its iteration order is
     not modelled (the model lists the groups in key order, the tie compares the final block as a bag). *)
  Definition sgb_aggs (l : list rec) : aggs_map := fold_left (fun a r => aggs_upd r a) l [].
  Definition sgb_run (es : list event) : list event :=
    map WM (watermarks es) ++
    map (fun e => Rec (mkrec (fst e ++ rout (fst (snd e))) false zero_ns)) (sgb_aggs (records es)).

  (* physical/nodes.go: which node a GroupBy materialises to *)
  Definition gb_run (trigs : list tkind) (es : list event) : list event :=
    if is_simple trigs then sgb_run es else ctg_run trigs (etb_run_finish es).

  (* ---------- the batch meaning: plain grouping of a bag of rows ---------- *)
  Definition sub_hist (k : gkey) (l : list rec) : list rec := filter (fun r => row_eqb (keyf r) k) l.
  (* net number of rows of the group *)
  Definition cnt (k : gkey) (l : list rec) : Z := zsum (map sign (sub_hist k l)).
  (* the aggregates folded over everything the group ever received *)
  Definition whole_state (k : gkey) (l : list rec) : ST :=
    fold_left (fun st r => radd (retr r) (argf r) st) (sub_hist k l) rinit.
  (* multiplicity of [row] in the grouping of [l]: one row per non-empty group *)
  Definition bag_group (l : list rec) (row : list value) : Z :=
    let k := firstn nk row in
    if cnt k l =? 0 then 0 else if row_eqb (k ++ rout (whole_state k l)) row then 1 else 0.

  (* the rows on which two bags of group rows can differ: the rows that occur, and the group rows *)
  Definition group_rows (l : list rec) : list (list value) :=
    map (fun r => keyf r ++ rout (whole_state (keyf r) l)) l.
  Definition out_is_group_of (inp out : list rec) : bool :=
    forallb (fun row => consolidate out row =? bag_group inp row) (map vals out ++ group_rows inp).
End GroupBy.

(* ---------- layer 2: the vector of aggregates as the group-by code maintains it ---------- *)
Section Vec.
  Variable akind : Type.
  Variable S : Type.
  Variable ainit : akind -> S.
  Variable aadd : akind -> bool -> value -> S -> S.
  Variable atrig : akind -> S -> value.

  Definition vec_state : Type := list (S * Z).         (* Aggregates[i], AggregatedSetSize[i] *)
  Definition vec_init (ks : list akind) : vec_state := map (fun a => (ainit a, 0)) ks.

  (* for i, expr := range aggregateExprs: NULL inputs are skipped.  The three lists have one length for
     every record of the right arity (guarded by arity_ok in the theorems and the tie). *)
  Fixpoint vec_add (ks : list akind) (retr : bool) (args : list value) (st : vec_state) : vec_state :=
    match ks, args, st with
    | a :: ks', v :: args', (s, n) :: st' =>
        (match v with
         | VNull => (s, n)
         | _ => (aadd a retr v s, if retr then n - 1 else n + 1)
         end) :: vec_add ks' retr args' st'
    | _, _, _ => []
    end.

  Fixpoint vec_out (ks : list akind) (st : vec_state) : list value :=
    match ks, st with
    | a :: ks', (s, n) :: st' => (if 0 <? n then atrig a s else VNull) :: vec_out ks' st'
    | _, _ => []
    end.
End Vec.

(* ---------- layer 3: COUNT and SUM over Int (aggregates/count.go, aggregates/sum.go SumInt) ---------- *)
Inductive cagg := ACount | ASum.
Definition vint (v : value) : Z := match v with VInt z => z | _ => 0 end.      (* the .Int field *)
Definition cinit (_ : cagg) : Z := 0.
Definition cadd (a : cagg) (retr : bool) (v : value) (s : Z) : Z :=
  match a with
  | ACount => wrap64 (if retr then s - 1 else s + 1)
  | ASum => wrap64 (if retr then s - vint v else s + vint v)
  end.
Definition ctrig (_ : cagg) (s : Z) : value := VInt s.

Record gb_cfg := mkcfg { g_nk : nat; g_aggs : list cagg; g_kti : option nat; g_trigs : list tkind }.

Definition is_wm (t : tkind) : bool := match t with TWatermark => true | _ => false end.
Definition counting_ok (t : tkind) : bool := match t with TCounting n => (0 <=? n) && (n <? two64) | _ => true end.

(* what the planner guarantees: the event-time index points into the key, ON WATERMARK needs one
   (logical/group_by.go panics at typecheck time otherwise), triggerAfter is a uint *)
Definition cfg_ok (c : gb_cfg) : bool :=
  (match g_kti c with Some i => Nat.ltb i (g_nk c) | None => negb (existsb is_wm (g_trigs c)) end)
  && forallb counting_ok (g_trigs c).

Definition gb_run_with (wl : wkey -> wkey -> bool) (c : gb_cfg) (es : list event) : list event :=
  gb_run (vec_state Z) (vec_init cagg Z cinit (g_aggs c)) (vec_add cagg Z cadd (g_aggs c)) (vec_out cagg Z ctrig (g_aggs c))
         wl (g_nk c) (g_kti c) (g_trigs c) es.

(* an index outside the key makes the Go code panic at the first record (index out of range); the
   model answers Panic for the whole configuration *)
Definition run_group_by (c : gb_cfg) (es : list event) : outcome (list event) :=
  if cfg_ok c then Ok (gb_run_with wless c es) else Panic 1.
Definition run_group_by_pinned (c : gb_cfg) (es : list event) : outcome (list event) :=
  if cfg_ok c then Ok (gb_run_with wless_pinned c es) else Panic 1.

Definition c_bag_group (c : gb_cfg) : list rec -> list value -> Z :=
  bag_group (vec_state Z) (vec_init cagg Z cinit (g_aggs c)) (vec_add cagg Z cadd (g_aggs c)) (vec_out cagg Z ctrig (g_aggs c)) (g_nk c).
Definition c_out_is_group_of (c : gb_cfg) : list rec -> list rec -> bool :=
  out_is_group_of (vec_state Z) (vec_init cagg Z cinit (g_aggs c)) (vec_add cagg Z cadd (g_aggs c)) (vec_out cagg Z ctrig (g_aggs c)) (g_nk c).

(* ---------- differential cases ---------- *)
(* (nk, aggregates, keyEventTimeIndex, triggers, input script, observed output) *)
Definition gb_case : Type := nat * list cagg * option nat * list tkind * list event * list event.
Definition case_cfg (c : gb_case) : gb_cfg := let '(nk, ags, kti, tr, _, _) := c in mkcfg nk ags kti tr.
Definition case_inp (c : gb_case) : list event := let '(_, _, _, _, inp, _) := c in inp.
Definition case_out (c : gb_case) : list event := let '(_, _, _, _, _, out) := c in out.

(* multiset equality of records by structural equality (for the hashmap-ordered block of SimpleGroupBy) *)
Definition count_rec (r : rec) (l : list rec) : nat := length (filter (rec_eqb r) l).
Definition recs_perm_eqb (a b : list rec) : bool :=
  Nat.eqb (length a) (length b) && forallb (fun r => Nat.eqb (count_rec r a) (count_rec r b)) (a ++ b).

Definition events_tie (simple : bool) (model out : list event) : bool :=
  if simple
  then list_eqb Z.eqb (watermarks model) (watermarks out)
       && events_eqb (firstn (length (watermarks out)) out) (map WM (watermarks out))    (* watermarks first, in order *)
       && recs_perm_eqb (records model) (records out)
  else events_eqb model out.

Definition gb_tie (c : gb_case) : bool :=
  match run_group_by (case_cfg c) (case_inp c) with
  | Ok m => events_tie (is_simple (g_trigs (case_cfg c))) m (case_out c)
  | _ => false
  end.

(* input hypotheses of C16: arity, a valid changelog, event times within the watermark range *)
Definition gb_input_ok (c : gb_case) : bool :=
  let cfg := case_cfg c in
  cfg_ok cfg
  && arity_ok (Z.of_nat (g_nk cfg + length (g_aggs cfg))) (records (case_inp c))
  && valid_changelog (records (case_inp c))
  && forallb (fun r => et r <=? max_wm) (records (case_inp c)).

(* C16 read on the implementation's output: its consolidation is the grouping of the input *)
Definition c16_spec (c : gb_case) : bool :=
  negb (gb_input_ok c) || c_out_is_group_of (case_cfg c) (records (case_inp c)) (records (case_out c)).

(* the class of the recorded finding: the event-time buffer hands the group-by a stream that is not a
   valid changelog (a retraction overtakes the insertion it retracts) *)
Definition delivered_valid (c : gb_case) : bool :=
  is_simple (g_trigs (case_cfg c)) || valid_changelog (records (etb_run_finish (case_inp c))).
