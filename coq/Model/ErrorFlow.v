(* Model/ErrorFlow.v — how errors travel through execution/nodes/*.go, the subquery expressions of
   execution/expressions.go and the eager output sink.  Executable definitions only (C06).

   A Go node is   Run(ctx, produce, metaSend) error .  Here a node is a function of the consumer's two
   callbacks and the consumer's state; every call returns (state, returned error, ghost):

     * the returned error is Go's `error` value reduced to what the code can tell apart:
       the sentinel of the Limit node with a given id ("limit <ulid> reached"; fmt.Errorf("...: %w")
       keeps that text, so wrapping is the identity here), any other error, or a Go panic unwinding
       the stack (a panic is not a return value: ignoring a returned error does not stop it);
     * the ghost flag is NOT in the Go code.  It is raised exactly where a fresh runtime failure comes
       into existence during the run (the scripted source reaches its injected failure, an expression
       evaluates to an error, a limit expression fails, a producer's error message is received by a
       join, a subquery meets a retraction).  No definition branches on it; it only accumulates (||).
       C06 is: ghost = true -> the returned error is a failure (nothing between the failure and the
       top of the plan swallowed it).  The engine observes the same flag in the real implementation
       (its scripted source and its failing expressions record that they fired).

   Operator state that decides WHICH records flow (distinct counts, order-by tree, limit counter, event-time
   buffer) is modelled concretely, because whether a failure is reached under a LIMIT depends on it.
   Group-by aggregation and join matching are abstract functions of the history of received messages
   (any state machine is one), with concrete instances below for the differential run. *)
From Octo Require Export Changelog.

Inductive gerr := ELimit (id : Z) | EFail (e : Z) | EPanic (site : Z).
Definition res := option gerr.
Definition R (S : Type) : Type := (S * res * bool)%type.
Definition rst {S} (x : R S) : S := fst (fst x).
Definition rres {S} (x : R S) : res := snd (fst x).
Definition rgen {S} (x : R S) : bool := snd x.

Definition ret {S} (s : S) : R S := (s, None, false).
Definition fail_with {S} (s : S) (e : gerr) : R S := (s, Some e, true).      (* a fresh failure *)

Definition is_fail (r : res) : bool :=
  match r with Some (EFail _) | Some (EPanic _) => true | _ => false end.

(* `if err := step; err != nil { return err }; rest` *)
Definition bindR {S} (x : R S) (k : S -> R S) : R S :=
  match rres x with
  | None => let y := k (rst x) in (rst y, rres y, rgen x || rgen y)
  | Some _ => x
  end.

Definition mapst {S T} (f : S -> T) (x : R S) : R T := (f (rst x), rres x, rgen x).

(* value, err := expr.Evaluate(ctx); if err != nil { return fmt.Errorf(...: %w) } *)
Definition on_eval {S A} (s : S) (o : outcome A) (k : A -> R S) : R S :=
  match o with
  | Ok a => k a
  | Err e => fail_with s (EFail e)
  | Panic x => fail_with s (EPanic x)
  end.

Definition pfn (S : Type) : Type := S -> rec -> R S.      (* ProduceFn *)
Definition mfn (S : Type) : Type := S -> Z -> R S.        (* MetaSendFn, watermark messages *)
Definition node : Type := forall S : Type, pfn S -> mfn S -> S -> R S.

Definition evalfn : Type := rec -> outcome value.         (* Expression.Evaluate(ctx.WithRecord(record)) *)

(* for _, r := range rs { if err := produce(r); err != nil { return err } } *)
Fixpoint produce_all {S} (p : pfn S) (s : S) (rs : list rec) : R S :=
  match rs with
  | [] => ret s
  | r :: rest => bindR (p s r) (fun s1 => produce_all p s1 rest)
  end.

Fixpoint send_all {S} (p : pfn S) (m : mfn S) (s : S) (es : list event) : R S :=
  match es with
  | [] => ret s
  | Rec r :: rest => bindR (p s r) (fun s1 => send_all p m s1 rest)
  | WM w :: rest => bindR (m s w) (fun s1 => send_all p m s1 rest)
  end.

(* ---- the scripted source (harness/lib/stream.go ScriptSource; any datasource: rows, then maybe an error) ---- *)
Fixpoint run_script (evs : list event) (fl : option Z) (S : Type) (p : pfn S) (m : mfn S) (s : S) : R S :=
  match evs with
  | [] => match fl with Some e => fail_with s (EFail e) | None => ret s end
  | Rec r :: rest => bindR (p s r) (run_script rest fl S p m)
  | WM w :: rest => bindR (m s w) (run_script rest fl S p m)
  end.

(* ---- Filter ---- *)
Definition filter_cb {S} (pred : evalfn) (p : pfn S) : pfn S := fun s r =>
  on_eval s (pred r) (fun v => match v with VBool true => p s r | _ => ret s end).
Definition filter_node (pred : evalfn) (src : node) : node := fun S p m s => src S (filter_cb pred p) m s.

(* ---- Map ---- *)
Fixpoint eval_all (es : list evalfn) (r : rec) : outcome (list value) :=
  match es with
  | [] => Ok []
  | e :: rest => obind (e r) (fun v => obind (eval_all rest r) (fun vs => Ok (v :: vs)))
  end.
Definition map_cb {S} (es : list evalfn) (p : pfn S) : pfn S := fun s r =>
  on_eval s (eval_all es r) (fun vs => p s (mkrec vs (retr r) (et r))).
Definition map_node (es : list evalfn) (src : node) : node := fun S p m s => src S (map_cb es p) m s.

(* ---- Distinct: hashmap from row to *distinctItem, equality = the closure over Compare ---- *)
Definition dstate : Type := list (list value * Z).
Fixpoint dget (k : list value) (d : dstate) : option Z :=
  match d with
  | [] => None
  | (k', c) :: rest => if slices_eq k k' then Some c else dget k rest
  end.
Fixpoint dset (k : list value) (c : Z) (d : dstate) : dstate :=
  match d with
  | [] => [(k, c)]
  | (k', c') :: rest => if slices_eq k k' then (k', c) :: rest else (k', c') :: dset k c rest
  end.
Fixpoint dremove (k : list value) (d : dstate) : dstate :=
  match d with
  | [] => []
  | (k', c') :: rest => if slices_eq k k' then rest else (k', c') :: dremove k rest
  end.
Definition distinct_cb {S} (p : pfn S) : pfn (S * dstate) := fun sd r =>
  let '(s, d) := sd in
  let c0 := match dget (vals r) d with Some c => c | None => 0 end in
  let c := if retr r then c0 - 1 else c0 + 1 in
  if 0 <? c then
    if negb (retr r) && (c =? 1) then
      bindR (mapst (fun s1 => (s1, d)) (p s r)) (fun sd1 => ret (fst sd1, dset (vals r) c d))
    else ret (s, dset (vals r) c d)          (* item.Count++ / -- through the pointer held by the map *)
  else
    bindR (mapst (fun s1 => (s1, d)) (p s r)) (fun sd1 => ret (fst sd1, dremove (vals r) d)).
(* the metadata callback of Distinct and of OrderSensitiveTransform: `return nil` (watermarks are not forwarded) *)
Definition drop_meta {S} : mfn S := fun s _ => ret s.

(* what survives when the error returned by source.Run is thrown away: only a panic *)
Definition discard_error (r : res) : res := match r with Some (EPanic x) => Some (EPanic x) | _ => None end.

Definition distinct_node (pinned : bool) (src : node) : node := fun S p m s =>
  let x := src (S * dstate)%type (distinct_cb p) drop_meta (s, []) in
  (fst (rst x), if pinned then discard_error (rres x) else rres x, rgen x).

(* ---- Limit ---- *)
Definition limit_cb {S} (id k : Z) (p : pfn S) : pfn (S * Z) := fun si r =>
  let '(s, i) := si in
  bindR (mapst (fun s1 => (s1, i)) (p s r))
        (fun si1 => if i + 1 =? k then (fst si1, i + 1, Some (ELimit id), false)   (* the sentinel is not a failure *)
                    else ret (fst si1, i + 1)).
Definition lift_m {S T} (m : mfn S) : mfn (S * T) := fun st w =>
  mapst (fun s1 => (s1, snd st)) (m (fst st) w).
Definition int_of (v : value) : Z := match v with VInt k => k | _ => 0 end.     (* value.Int of a non-int value *)
(* strings.Contains(err.Error(), "limit <own id> reached") -> return nil *)
Definition swallow_own (id : Z) (r : res) : res :=
  match r with Some (ELimit id') => if id' =? id then None else r | _ => r end.
Definition limit_node (id : Z) (lim : outcome value) (src : node) : node := fun S p m s =>
  on_eval s lim (fun v =>
    if int_of v =? 0 then ret s            (* LIMIT 0: returns before running the source (fix of C05) *)
    else
    let x := src (S * Z)%type (limit_cb id (int_of v) p) (lift_m m) (s, 0) in
    (fst (rst x), swallow_own id (rres x), rgen x)).

(* ---- Unnest ---- *)
Fixpoint replace_nth {A} (i : nat) (x : A) (l : list A) : list A :=
  match l, i with
  | [], _ => []
  | _ :: t, O => x :: t
  | h :: t, S i' => h :: replace_nth i' x t
  end.
Definition unnest_cb {S} (idx : nat) (p : pfn S) : pfn S := fun s r =>
  match nth_error (vals r) idx with
  | None => fail_with s (EPanic 1)                    (* record.Values[u.index]: index out of range *)
  | Some (VList l) => produce_all p s (map (fun x => mkrec (replace_nth idx x (vals r)) (retr r) (et r)) l)
  | Some _ => ret s                                   (* .List of a non-list value is nil *)
  end.
Definition unnest_node (idx : nat) (src : node) : node := fun S p m s => src S (unnest_cb idx p) m s.

(* ---- EventTimeBuffer (RecordEventTimeBuffer: btree by event time, insertion order within one instant) ---- *)
Fixpoint buf_insert (r : rec) (b : list rec) : list rec :=
  match b with
  | [] => [r]
  | x :: rest => if et r <? et x then r :: b else x :: buf_insert r rest
  end.
Definition buf_ready (w : Z) (b : list rec) : list rec := filter (fun r => et r <=? w) b.
Definition buf_later (w : Z) (b : list rec) : list rec := filter (fun r => negb (et r <=? w)) b.
Definition buffer_cb {S} (p : pfn S) : pfn (S * list rec) := fun sb r =>
  let '(s, b) := sb in
  if et r =? zero_ns then mapst (fun s1 => (s1, b)) (p s r)
  else ret (s, buf_insert r b).
Definition buffer_meta {S} (p : pfn S) (m : mfn S) : mfn (S * list rec) := fun sb w =>
  let '(s, b) := sb in
  bindR (mapst (fun s1 => (s1, buf_later w b)) (produce_all p s (buf_ready w b)))
        (fun sb1 => mapst (fun s1 => (s1, snd sb1)) (m (fst sb1) w)).
Definition buffer_node (src : node) : node := fun S p m s =>
  let x := src (S * list rec)%type (buffer_cb p) (buffer_meta p m) (s, []) in
  match rres x with
  | Some _ => (fst (rst x), rres x, rgen x)
  | None => let y := produce_all p (fst (rst x)) (buf_ready max_wm (snd (rst x))) in
            (rst y, rres y, rgen x || rgen y)
  end.

(* ---- OrderSensitiveTransform: google/btree of *orderByItem under orderByItem.Less ---- *)
Record oitem := mkoitem { okey : list value; ovals : list value; ocnt : Z }.
(* keys with direction multipliers, then values ascending; both slices have the stream's arity *)
Fixpoint key_cmp (dirs : list Z) (a b : list value) : Z :=
  match a, b, dirs with
  | x :: xs, y :: ys, d :: ds => let c := vcompare x y in if c =? 0 then key_cmp ds xs ys else c * d
  | _, _, _ => 0
  end.
Definition oless (dirs : list Z) (a b : oitem) : bool :=
  let c := key_cmp dirs (okey a) (okey b) in
  if c =? 0 then lex_cmp vcompare (ovals a) (ovals b) =? -1 else c =? -1.
Fixpoint oget (dirs : list Z) (x : oitem) (t : list oitem) : option oitem :=
  match t with
  | [] => None
  | y :: rest => if oless dirs x y || oless dirs y x then oget dirs x rest else Some y
  end.
Fixpoint odelete (dirs : list Z) (x : oitem) (t : list oitem) : list oitem :=
  match t with
  | [] => []
  | y :: rest => if oless dirs x y || oless dirs y x then y :: odelete dirs x rest else rest
  end.
Fixpoint oinsert (dirs : list Z) (x : oitem) (t : list oitem) : list oitem :=   (* ReplaceOrInsert *)
  match t with
  | [] => [x]
  | y :: rest => if oless dirs x y then x :: t
                 else if oless dirs y x then y :: oinsert dirs x rest
                 else x :: rest
  end.
Definition ost_update (dirs : list Z) (limit : option Z) (noretr : bool) (key : list value) (r : rec) (t : list oitem) : list oitem :=
  let probe := mkoitem key (vals r) 0 in
  let it := match oget dirs probe t with Some y => y | None => probe end in
  let it' := mkoitem (okey it) (ovals it) (if retr r then ocnt it - 1 else ocnt it + 1) in
  let t1 := if 0 <? ocnt it' then oinsert dirs it' t else odelete dirs it' t in
  match limit with
  | Some k => if noretr && (k <? Z.of_nat (length t1)) then removelast t1 else t1     (* DeleteMax *)
  | None => t1
  end.
Definition ost_cb {S} (keys : list evalfn) (dirs : list Z) (limit : option Z) (noretr : bool) : pfn (S * list oitem) := fun st r =>
  on_eval st (eval_all keys r) (fun key => ret (fst st, ost_update dirs limit noretr key r (snd st))).
(* produceOrderByItems: i counts tree items (not rows); each item is produced Count times *)
Fixpoint ost_rows (limit : option Z) (i : Z) (t : list oitem) : list rec :=
  match t with
  | [] => []
  | x :: rest =>
      if match limit with Some k => k <=? i | None => false end then []
      else repeat (mkrec (ovals x) false zero_ns) (Z.to_nat (ocnt x)) ++ ost_rows limit (i + 1) rest
  end.
Definition ost_node (pinned : bool) (keys : list evalfn) (dirs : list Z) (lim : option (outcome value)) (noretr : bool)
           (src : node) : node := fun S p m s =>
  let go (limit : option Z) :=
    let x := src (S * list oitem)%type (ost_cb keys dirs limit noretr) drop_meta (s, []) in
    let r := if pinned then discard_error (rres x) else rres x in
    match r with
    | Some _ => (fst (rst x), r, rgen x)
    | None => let y := produce_all p (fst (rst x)) (ost_rows limit 0 (snd (rst x))) in
              (rst y, rres y, rgen x || rgen y)
    end in
  match lim with
  | None => go None
  | Some l => on_eval s l (fun v =>
                if int_of v =? 0 then ret s                              (* returns before running the source *)
                else if int_of v <? 0 then fail_with s (EFail 2)         (* "limit must be positive" *)
                else go (Some (int_of v)))
  end.

(* ---- SimpleGroupBy: expressions are evaluated per record; rows come out at end of stream ---- *)
Record sgb := mksgb {
  sgb_eval : rec -> outcome unit;        (* key and aggregate-argument expressions on one record *)
  sgb_out : list rec -> list rec }.      (* the rows produced at the end (hashmap order), from the records received *)
Definition sgb_cb {S} (g : sgb) : pfn (S * list rec) := fun sh r =>
  on_eval sh (sgb_eval g r) (fun _ => ret (fst sh, snd sh ++ [r])).
Definition sgb_node (g : sgb) (src : node) : node := fun S p m s =>
  let x := src (S * list rec)%type (sgb_cb g) (lift_m m) (s, []) in
  match rres x with
  | Some _ => (fst (rst x), rres x, rgen x)
  | None => let y := produce_all p (fst (rst x)) (sgb_out g (snd (rst x))) in
            (rst y, rres y, rgen x || rgen y)
  end.

(* ---- CustomTriggerGroupBy: source wrapped in an EventTimeBuffer; the trigger may fire after every message ---- *)
Record cgb := mkcgb {
  cgb_eval : rec -> outcome unit;
  cgb_emit : list event -> list rec;     (* rows triggered right after the last message of this history *)
  cgb_end : list event -> list rec }.    (* rows triggered at end of stream *)
Definition cgb_cb {S} (g : cgb) (p : pfn S) : pfn (S * list event) := fun sh r =>
  on_eval sh (cgb_eval g r) (fun _ =>
    let h := snd sh ++ [Rec r] in
    mapst (fun s1 => (s1, h)) (produce_all p (fst sh) (cgb_emit g h))).
Definition cgb_meta {S} (g : cgb) (p : pfn S) (m : mfn S) : mfn (S * list event) := fun sh w =>
  let h := snd sh ++ [WM w] in
  bindR (mapst (fun s1 => (s1, h)) (produce_all p (fst sh) (cgb_emit g h)))
        (fun sh1 => mapst (fun s1 => (s1, h)) (m (fst sh1) w)).
Definition cgb_node (g : cgb) (src : node) : node := fun S p m s =>
  let x := buffer_node src (S * list event)%type (cgb_cb g p) (cgb_meta g p m) (s, []) in
  match rres x with
  | Some _ => (fst (rst x), rres x, rgen x)
  | None => let y := produce_all p (fst (rst x)) (cgb_end g (snd (rst x))) in
            (rst y, rres y, rgen x || rgen y)
  end.

(* ---- LookupJoin: the joined subtree is run once per source record, in that record's variable context ---- *)
Definition lookup_out (a b : rec) : rec :=
  mkrec (vals a ++ vals b) (xorb (retr a) (retr b)) (et a).
Definition lookup_node (src : node) (joined : rec -> node) : node := fun S p m s =>
  src S (fun s1 a => joined a S (fun s2 b => p s2 (lookup_out a b)) m s1) m s.

(* ---- StreamJoin / OuterJoin, error paths only.
   Two goroutines run the sides with callbacks that only send on a channel (they never return an error);
   a side whose Run returns an error sends that error as its last message.  The receive loop takes
   messages in some interleaving ([sched]: which channel the select picks; an exhausted channel hands
   over to the other), returns a received error at once, and returns errors of its own processing.
   Matching, buffering and watermark arithmetic are abstract: [jp_proc h] is what is emitted after the
   last message of history [h] was taken (Err when a key expression fails), [jp_end h] the final flush. *)
Inductive jmsg := JEv (e : event) | JErr (e : gerr).
Record jparams := mkjp {
  jp_proc : list (bool * event) -> outcome (list event);
  jp_end : list (bool * event) -> list event }.
(* the channel-send callbacks: append to the channel, never an error *)
Definition rec_p : pfn (list event) := fun out r => ret (out ++ [Rec r]).
Definition rec_m : mfn (list event) := fun out w => ret (out ++ [WM w]).
Definition side_msgs (n : node) : list jmsg :=
  let x := n (list event) rec_p rec_m [] in
  map JEv (rst x) ++ match rres x with Some e => [JErr e] | None => [] end.
Fixpoint merge_by (sched : list bool) (lq rq : list jmsg) : list (bool * jmsg) :=
  match sched with
  | [] => map (pair true) lq ++ map (pair false) rq
  | true :: rest => match lq with
                    | x :: lq' => (true, x) :: merge_by rest lq' rq
                    | [] => map (pair false) rq
                    end
  | false :: rest => match rq with
                     | x :: rq' => (false, x) :: merge_by rest lq rq'
                     | [] => map (pair true) lq
                     end
  end.
Fixpoint join_consume {S} (j : jparams) (p : pfn S) (m : mfn S) (h : list (bool * event)) (ms : list (bool * jmsg)) (s : S) : R S :=
  match ms with
  | [] => send_all p m s (jp_end j h)
  | (_, JErr e) :: _ => (s, Some e, is_fail (Some e))                 (* if msg.err != nil { return msg.err } *)
  | (side, JEv ev) :: rest =>
      let h' := h ++ [(side, ev)] in
      on_eval s (jp_proc j h') (fun out => bindR (send_all p m s out) (join_consume j p m h' rest))
  end.
Definition join_node (j : jparams) (sched : list bool) (l r : node) : node := fun S p m s =>
  join_consume j p m [] (merge_by sched (side_msgs l) (side_msgs r)) s.

(* ---- plans ---- *)
Inductive plan : Type :=
| PScript (evs : list event) (fl : option Z)
| PFilter (pred : evalfn) (src : plan)
| PMap (es : list evalfn) (src : plan)
| PDistinct (src : plan)
| POst (keys : list evalfn) (dirs : list Z) (lim : option (outcome value)) (noretr : bool) (src : plan)
| PLimit (id : Z) (lim : outcome value) (src : plan)
| PUnnest (idx : nat) (src : plan)
| PSimpleGB (g : sgb) (src : plan)
| PCustomGB (g : cgb) (src : plan)
| PBuffer (src : plan)
| PLookup (src : plan) (joined : rec -> plan)
| PStreamJoin (j : jparams) (sched : list bool) (l r : plan)
| POuterJoin (j : jparams) (sched : list bool) (l r : plan).

(* [pinned] selects the code before the fix: commits (Distinct.Run and OrderSensitiveTransform.Run drop source.Run's error) *)
Fixpoint run (pinned : bool) (pl : plan) : node :=
  match pl with
  | PScript evs fl => run_script evs fl
  | PFilter pred src => filter_node pred (run pinned src)
  | PMap es src => map_node es (run pinned src)
  | PDistinct src => distinct_node pinned (run pinned src)
  | POst keys dirs lim noretr src => ost_node pinned keys dirs lim noretr (run pinned src)
  | PLimit id lim src => limit_node id lim (run pinned src)
  | PUnnest idx src => unnest_node idx (run pinned src)
  | PSimpleGB g src => sgb_node g (run pinned src)
  | PCustomGB g src => cgb_node g (run pinned src)
  | PBuffer src => buffer_node (run pinned src)
  | PLookup src joined => lookup_node (run pinned src) (fun a => run pinned (joined a))
  | PStreamJoin j sched l r => join_node j sched (run pinned l) (run pinned r)
  | POuterJoin j sched l r => join_node j sched (run pinned l) (run pinned r)
  end.

(* the recording consumer of the harness (lib.RunNode): never returns an error *)
(* it is the same pair of callbacks as the channel sends above: rec_p, rec_m *)
Definition run_top (pinned : bool) (pl : plan) : R (list event) := run pinned pl (list event) rec_p rec_m [].
Definition run_outcome (pinned : bool) (pl : plan) : outcome (list event) :=
  let x := run_top pinned pl in
  match rres x with
  | None => Ok (rst x)
  | Some (EFail e) => Err e
  | Some (ELimit id) => Err (-1)          (* a sentinel that escaped every Limit *)
  | Some (EPanic site) => Panic site
  end.

(* ---- SingleColumnQueryExpression / MultiColumnQueryExpression.Evaluate ---- *)
Definition qe_cb (multi : bool) : pfn (list value) := fun acc r =>
  if retr r then fail_with acc (EFail 3)             (* "query expression currently can't handle retractions" *)
  else if multi then ret (acc ++ [VStruct (vals r)])
  else match vals r with
       | v :: _ => ret (acc ++ [v])
       | [] => fail_with acc (EPanic 2)              (* record.Values[0] *)
       end.
Definition query_expr (pinned multi : bool) (sub : node) : outcome value :=
  let x := sub (list value) (qe_cb multi) drop_meta [] in
  match (if pinned then discard_error (rres x) else rres x) with
  | None => Ok (VList (rst x))
  | Some (EFail e) => Err e
  | Some (ELimit _) => Err (-1)
  | Some (EPanic site) => Panic site
  end.
Definition query_expr_gen (multi : bool) (sub : node) : bool := rgen (sub (list value) (qe_cb multi) drop_meta []).

(* ---- eager.OutputPrinter + a Format: the consumer at the top of every CLI plan for -o json / csv ----
   [wr] is the io.Writer: Some e when the write of this row fails.  JSONFormatter.Write before the fix
   dropped t.w.Write's error. *)
Definition sink_p (pinned : bool) (wr : rec -> option Z) : pfn (list rec) := fun out r =>
  match wr r with
  | Some e => if pinned then ret (out ++ [r]) else fail_with out (EFail e)
  | None => ret (out ++ [r])
  end.
Definition eager_sink (pinned : bool) (wr : rec -> option Z) (n : node) : R (list rec) :=
  n (list rec) (sink_p pinned wr) drop_meta [].
Definition sink_write_failed (wr : rec -> option Z) (out : list rec) : bool :=
  existsb (fun r => match wr r with Some _ => true | None => false end) out.

(* ---- concrete pieces used by the differential cases ---- *)
Inductive cexpr :=
| CCol (i : nat)                         (* variable, level 0, index i *)
| CConst (v : value)
| CFailIf (i : nat) (v : value)          (* errors when column i Compare-equals v, else yields column i *)
| CTrueUnless (i : nat) (v : value)      (* a predicate: errors when column i equals v, else TRUE *)
| CEq (i : nat) (v : value)              (* column i = v, as a boolean *)
| CFailAlways
| CCall (a b : cexpr).                   (* execution.FunctionCall of a strict two-argument function (nullCheckIndices [0;1]) *)
(* FunctionCall.Evaluate: EVERY argument is evaluated, in order (the first error is returned), and only then the NULL
   check of the strict positions is made; the function itself here returns its first argument *)
Fixpoint ev (e : cexpr) : evalfn := fun r =>
  match e with
  | CCol i => match nth_error (vals r) i with Some v => Ok v | None => Panic 3 end
  | CConst v => Ok v
  | CFailIf i v => match nth_error (vals r) i with
                   | Some x => if vcompare x v =? 0 then Err 1 else Ok x
                   | None => Panic 3 end
  | CTrueUnless i v => match nth_error (vals r) i with
                       | Some x => if vcompare x v =? 0 then Err 1 else Ok (VBool true)
                       | None => Panic 3 end
  | CEq i v => match nth_error (vals r) i with
               | Some x => Ok (VBool (vcompare x v =? 0))
               | None => Panic 3 end
  | CFailAlways => Err 1
  | CCall a b => obind (ev a r) (fun x => obind (ev b r) (fun y =>
                   match x, y with VNull, _ | _, VNull => Ok VNull | _, _ => Ok x end))
  end.

(* group by column 0, count(<arg>) — SimpleGroupBy with aggregates.Count: state per key (OverallRecordCount,
   AggregatedSetSize, count); the entry is removed when OverallRecordCount returns to 0 *)
Definition gstate : Type := list (value * (Z * Z * Z)).
Fixpoint gupd (k : value) (f : option (Z * Z * Z) -> option (Z * Z * Z)) (g : gstate) : gstate :=
  match g with
  | [] => match f None with Some x => [(k, x)] | None => [] end
  | (k', x) :: rest => if vcompare k k' =? 0
                       then match f (Some x) with Some x' => (k', x') :: rest | None => rest end
                       else (k', x) :: gupd k f rest
  end.
Definition gcount_step (arg : cexpr) (g : gstate) (r : rec) : gstate :=
  match ev (CCol 0) r, ev arg r with
  | Ok k, Ok a =>
      gupd k (fun o =>
        let '(ov, sz, c) := match o with Some x => x | None => (0, 0, 0) end in
        let d := if retr r then -1 else 1 in
        let ov' := ov + d in
        let '(sz', c') := match a with VNull => (sz, c) | _ => (sz + d, c + d) end in
        if ov' =? 0 then None else Some (ov', sz', c')) g
  | _, _ => g
  end.
Definition grow (kx : value * (Z * Z * Z)) : list value :=
  let '(k, (ov, sz, c)) := kx in [k; if 0 <? sz then VInt c else VNull].
Definition eval_unit (es : list cexpr) (r : rec) : outcome unit :=
  obind (eval_all (map ev es) r) (fun _ => Ok tt).
Definition sgb_count (arg : cexpr) : sgb :=
  mksgb (eval_unit [CCol 0; arg])
        (fun h => map (fun kx => mkrec (grow kx) false zero_ns) (fold_left (gcount_step arg) h [])).

(* CustomTriggerGroupBy, key column 0, count(<arg>), CountingTrigger(1): every record triggers its key:
   retraction of the row sent before for that key, then the new row (if the group still exists) *)
Definition crecs (h : list event) : list rec := records h.
Fixpoint last_sent (k : value) (sent : list (value * list value)) : option (list value) :=
  match sent with
  | [] => None
  | (k', v) :: rest => if vcompare k k' =? 0 then Some v else last_sent k rest
  end.
Fixpoint remove_sent (k : value) (sent : list (value * list value)) : list (value * list value) :=
  match sent with
  | [] => []
  | (k', v) :: rest => if vcompare k k' =? 0 then rest else (k', v) :: remove_sent k rest
  end.
Fixpoint gfind (k : value) (g : gstate) : option (Z * Z * Z) :=
  match g with
  | [] => None
  | (k', x) :: rest => if vcompare k k' =? 0 then Some x else gfind k rest
  end.
(* state after a history of records: aggregates and previouslySentValues; and the rows emitted for the last record *)
Definition ccount_step (arg : cexpr) (st : gstate * list (value * list value) * list rec) (r : rec)
  : gstate * list (value * list value) * list rec :=
  let '(g, sent, _) := st in
  match ev (CCol 0) r with
  | Ok k =>
      let g' := gcount_step arg g r in
      let newrow := match gfind k g' with Some x => Some (grow (k, x)) | None => None end in
      let retraction := match last_sent k sent with Some v => [mkrec v true (et r)] | None => [] end in
      let sent1 := remove_sent k sent in
      match newrow with
      | Some v => (g', (k, v) :: sent1, retraction ++ [mkrec v false (et r)])
      | None => (g', sent1, retraction)
      end
  | _ => st
  end.
Definition cgb_count (arg : cexpr) : cgb :=
  mkcgb (eval_unit [CCol 0; arg])
        (fun h => match last h (WM 0) with
                  | Rec _ => snd (fold_left (ccount_step arg) (crecs h) ([], [], []))
                  | WM _ => []
                  end)
        (fun _ => []).

(* the joined side used by the lookup-join cases: for source record a, [n] copies of the one-column row
   (column 0 of a), n = number of values of a; it fails after the first copy when column 0 equals [bad] *)
Definition joined_script (bad : value) (a : rec) : plan :=
  match vals a with
  | [] => PScript [] None
  | x :: _ => if vcompare x bad =? 0 then PScript [Rec (mkrec [x] false zero_ns)] (Some 4)
              else PScript (repeat (Rec (mkrec [x] false zero_ns)) (length (vals a))) None
  end.

(* joins in the differential cases: only the error status is compared (the schedule is not observable),
   so the abstract matching emits nothing *)
Definition jp_silent (lkey rkey : cexpr) : jparams :=
  mkjp (fun h => match last h (true, WM 0) with
                 | (side, Rec r) => obind (ev (if side then lkey else rkey) r) (fun _ => Ok [])
                 | (_, WM _) => Ok []
                 end)
       (fun _ => []).

(* ---- the differential case and its checks ----
   In-process: (plan, comparison level, observed events, observed error class, observed "a failure fired").
   Error classes: 0 nil, 1 error, 2 a limit sentinel escaped, 3 panic.
   level 0: exact event list; 1: same consolidated bag of records and same number of records;
   2: error class and ghost only (joins: the interleaving is not observable).
   CLI: (failure is certainly reached, exit status non-zero with a message, stdout empty or not) *)
Inductive c06_case :=
| CInproc (pl : plan) (level : Z) (out : list event) (cls : Z) (fired : bool)
| CCli (must_fail : bool) (failed : bool).

Definition class_of (r : res) : Z :=
  match r with None => 0 | Some (EFail _) => 1 | Some (ELimit _) => 2 | Some (EPanic _) => 3 end.

Definition c06_tie (c : c06_case) : bool :=
  match c with
  | CInproc pl level out cls fired =>
      let x := run_top false pl in
      (class_of (rres x) =? cls) && Bool.eqb (rgen x) fired &&
      (if level =? 0 then events_eqb (rst x) out
       else if level =? 1 then bag_eqb (records (rst x)) (records out) &&
                               (Z.of_nat (length (records (rst x))) =? Z.of_nat (length (records out)))
       else true)
  | CCli _ _ => true
  end.

(* the property read on the implementation's own observation: a failure that fired must come out as an error *)
Definition c06_spec (c : c06_case) : bool :=
  match c with
  | CInproc _ _ _ cls fired => implb fired ((cls =? 1) || (cls =? 3))
  | CCli must_fail failed => implb must_fail failed
  end.
