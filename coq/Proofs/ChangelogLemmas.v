(* Proofs/ChangelogLemmas.v — algebra of consolidated bags. *)
From Octo Require Import Changelog CompareLaws.

Lemma consolidate_app a b row : consolidate (a ++ b) row = consolidate a row + consolidate b row.
Proof. induction a as [|x xs IH]; simpl; [reflexivity | rewrite IH; lia]. Qed.

Lemma consolidate_filter_split p l row :
  consolidate (filter p l) row + consolidate (filter (fun r => negb (p r)) l) row = consolidate l row.
Proof. induction l as [|x xs IH]; simpl; [reflexivity|]. destruct (p x); simpl; lia. Qed.

Lemma consolidate_cong l row row' : row_eqb row row' = true -> consolidate l row = consolidate l row'.
Proof.
  intro H. induction l as [|x xs IH]; simpl; [reflexivity|].
  rewrite (row_eqb_cong_r (vals x) row row' H), IH. reflexivity.
Qed.

Lemma consolidate_zero l row :
  (forall r, In r l -> row_eqb (vals r) row = false) -> consolidate l row = 0.
Proof.
  induction l as [|x xs IH]; intro H; simpl; [reflexivity|].
  rewrite (H x (or_introl eq_refl)), IH; [reflexivity|]. intros r Hr. apply H. right. exact Hr.
Qed.

Lemma bag_eqb_spec a b :
  bag_eqb a b = true <-> (forall row, consolidate a row = consolidate b row).
Proof.
  unfold bag_eqb. rewrite forallb_forall. split.
  - intros H row.
    destruct (existsb (fun r => row_eqb (vals r) row) (a ++ b)) eqn:E.
    + apply existsb_exists in E. destruct E as [r [Hin Hr]].
      rewrite <- (consolidate_cong a _ _ Hr), <- (consolidate_cong b _ _ Hr).
      apply Z.eqb_eq. apply H. exact Hin.
    + assert (Z : forall r, In r (a ++ b) -> row_eqb (vals r) row = false).
      { intros r Hin. destruct (row_eqb (vals r) row) eqn:Er; [|reflexivity].
        assert (existsb (fun r => row_eqb (vals r) row) (a ++ b) = true) by (apply existsb_exists; eauto).
        congruence. }
      rewrite !consolidate_zero; [reflexivity | |]; intros r Hin; apply Z; apply in_or_app; auto.
  - intros H r _. apply Z.eqb_eq. apply H.
Qed.

Lemma records_app a b : records (a ++ b) = records a ++ records b.
Proof. unfold records. apply flat_map_app. Qed.
Lemma watermarks_app a b : watermarks (a ++ b) = watermarks a ++ watermarks b.
Proof. unfold watermarks. apply flat_map_app. Qed.
Lemma records_map_Rec l : records (map Rec l) = l.
Proof. induction l as [|x xs IH]; simpl; [reflexivity | rewrite IH; reflexivity]. Qed.
Lemma watermarks_map_Rec l : watermarks (map Rec l) = [].
Proof. induction l as [|x xs IH]; simpl; [reflexivity | exact IH]. Qed.

Lemma arity_ok_forall n l : arity_ok n l = true <-> (forall r, In r l -> Z.of_nat (length (vals r)) = n).
Proof. unfold arity_ok. rewrite forallb_forall. split; intros H r Hr; [apply Z.eqb_eq | apply Z.eqb_eq]; auto. Qed.
