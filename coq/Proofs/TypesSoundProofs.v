(* Proofs/TypesSoundProofs.v — a Is b is sound for inhabitation; NonNullable removes exactly NULL. *)
From Octo Require Import Types TypesIsProofs.

(* ---- has_type equations ---- *)
Fixpoint fields_ok (fs : list (list Z * ty)) (l : list value) : bool :=
  match fs, l with
  | [], [] => true
  | (_, ft) :: fs', x :: l' => has_type x ft && fields_ok fs' l'
  | _, _ => false
  end.
Fixpoint elems_ok (es : list ty) (l : list value) : bool :=
  match es, l with
  | [], [] => true
  | et :: es', x :: l' => has_type x et && elems_ok es' l'
  | _, _ => false
  end.
Lemma has_type_struct : forall fs l, has_type (VStruct l) (TStruct fs) = fields_ok fs l.
Proof. reflexivity. Qed.
Lemma has_type_tuple : forall es l, has_type (VTuple l) (TTuple es) = elems_ok es l.
Proof. reflexivity. Qed.
Lemma has_type_union : forall v alts, has_type v (TUnion alts) = existsb (fun a => has_type v a) alts.
Proof. reflexivity. Qed.

(* ---- Is is sound for the inhabitation judgement ---- *)
Theorem is_sound : forall a b v, is_rel a b = Is -> has_type v a = true -> has_type v b = true.
Proof.
  induction a as [ | | | | | | | |e IHe|fs IH|es IH|alts IH| ] using ty_ind'.
  13: { (* Any *) intros b; induction b as [ | | | | | | | |e' _|fs' _|es' _|oalts IHb| ] using ty_ind'; intros v H Hv;
        try (simpl in H; discriminate H); try reflexivity.
        apply is_rel_union_r_Is in H; [|reflexivity]. destruct H as [b [Hb E]]. rewrite has_type_union.
        apply existsb_exists. exists b. split; [exact Hb|]. rewrite Forall_forall in IHb. apply (IHb b Hb v E Hv). }
  12: { (* Union *) intros b v H Hv. rewrite is_rel_union_l_Is in H. rewrite has_type_union in Hv.
        apply existsb_exists in Hv. destruct Hv as [a [Ha Hva]]. rewrite Forall_forall in IH.
        apply (IH a Ha b v (H a Ha) Hva). }
  all: intros b; induction b as [ | | | | | | | |e' _|fs' _|es' _|oalts IHb| ] using ty_ind'; intros v H Hv;
       try reflexivity; try (simpl in H; discriminate H);
       try (apply is_rel_union_r_Is in H; [|reflexivity]; destruct H as [b [Hb E]]; rewrite has_type_union;
            apply existsb_exists; exists b; split; [exact Hb|]; rewrite Forall_forall in IHb; apply (IHb b Hb v E Hv));
       try exact Hv.
  - (* List None, List Some *) destruct v; try discriminate Hv. destruct l; try discriminate Hv. reflexivity.
  - (* List Some, List Some *) simpl in H. destruct (is_rel e e') eqn:E; try discriminate H.
    destruct v; try discriminate Hv. simpl in *. rewrite forallb_forall in *. intros x Hx. apply (IHe e' x E). apply Hv. exact Hx.
  - (* Struct, Struct *) destruct v; try discriminate Hv. rewrite has_type_struct in *. rewrite is_rel_struct in H.
    revert fs' l H Hv. induction IH as [|[n x] fs Hx _ IHfs]; intros [|[m y] fs'] [|w l] H Hv; simpl in *; try discriminate; try reflexivity.
    destruct (bytes_eqb n m); simpl in H; try discriminate H.
    destruct (is_rel x y) eqn:E; simpl in H; try discriminate H.
    apply andb_true_iff in Hv. destruct Hv as [Hv1 Hv2]. rewrite (Hx y w E Hv1). simpl. apply IHfs; assumption.
  - (* Tuple, Tuple *) destruct v; try discriminate Hv. rewrite has_type_tuple in *. rewrite is_rel_tuple in H.
    revert es' l H Hv. induction IH as [|x es Hx _ IHes]; intros [|y es'] [|w l] H Hv; simpl in *; try discriminate; try reflexivity.
    destruct (is_rel x y) eqn:E; simpl in H; try discriminate H.
    apply andb_true_iff in Hv. destruct Hv as [Hv1 Hv2]. rewrite (Hx y w E Hv1). simpl. apply IHes; assumption.
Qed.

(* ---- NonNullable removes exactly NULL ---- *)
Lemma has_type_null_alt : forall a, is_union a = false -> tyid a <> 11 -> tyid a <> 0 -> has_type VNull a = false.
Proof. intros a U A N. destruct a; try reflexivity; simpl in *; try congruence; try (destruct e; reflexivity). Qed.

Lemma has_type_tnull : forall v a, tyid a = 0 -> has_type v a = negb (match v with VNull => false | _ => true end).
Proof. intros v a H. destruct a; simpl in H; try discriminate H. destruct v; reflexivity. Qed.

Lemma existsb_filter_nonnull : forall v alts,
  (match v with VNull => false | _ => true end) = true ->
  existsb (fun a => has_type v a) (filter (fun a => negb (tyid a =? 0)) alts) = existsb (fun a => has_type v a) alts.
Proof.
  intros v alts Hv. induction alts as [|a alts IH]; [reflexivity|]. simpl.
  destruct (Z.eqb_spec (tyid a) 0) as [e|ne]; simpl.
  - rewrite (has_type_tnull v a e), Hv. simpl. exact IH.
  - rewrite IH. reflexivity.
Qed.

Lemma existsb_filter_null : forall alts,
  forallb (fun a => negb (is_union a) && negb (tyid a =? 11)) alts = true ->
  existsb (fun a => has_type VNull a) (filter (fun a => negb (tyid a =? 0)) alts) = false.
Proof.
  induction alts as [|a alts IH]; intro H; [reflexivity|]. simpl in H. apply andb_true_iff in H. destruct H as [Ha H].
  apply andb_true_iff in Ha. destruct Ha as [U A]. simpl.
  destruct (Z.eqb_spec (tyid a) 0) as [e|ne]; simpl; [apply IH; exact H|].
  rewrite has_type_null_alt; [apply IH; exact H | destruct (is_union a); [discriminate|reflexivity] | | exact ne].
  destruct (Z.eqb_spec (tyid a) 11); [discriminate|assumption].
Qed.

Lemma has_type_singleton_union : forall v x, has_type v (TUnion [x]) = has_type v x.
Proof. intros. rewrite has_type_union. simpl. apply orb_false_r. Qed.

Theorem non_nullable_spec : forall t v, nn_shape t = true ->
  has_type v (non_nullable t) = has_type v t && not_null v.
Proof.
  intros t v S. destruct t; simpl in S; try discriminate S; try solve [destruct v; reflexivity].
  - (* list *) destruct e; destruct v; simpl; try reflexivity; try (rewrite andb_true_r; reflexivity); destruct l; reflexivity.
  - (* struct *) change (non_nullable (TStruct fs)) with (TStruct fs). destruct v; try reflexivity. unfold not_null. rewrite andb_true_r. reflexivity.
  - (* tuple *) change (non_nullable (TTuple es)) with (TTuple es). destruct v; try reflexivity. unfold not_null. rewrite andb_true_r. reflexivity.
  - (* union *)
    assert (E : has_type v (non_nullable (TUnion alts)) = existsb (fun a => has_type v a) (filter (fun a => negb (tyid a =? 0)) alts)).
    { unfold non_nullable. destruct (filter (fun a => negb (tyid a =? 0)) alts) as [|x [|y r]] eqn:F; try reflexivity.
      simpl. rewrite orb_false_r. reflexivity. }
    rewrite E, has_type_union. destruct (not_null v) eqn:N.
    + rewrite andb_true_r. apply existsb_filter_nonnull. exact N.
    + rewrite andb_false_r. destruct v; try discriminate N. apply existsb_filter_null. exact S.
Qed.
