(* Proofs/LookupJoinProofs.v — LookupJoin keeps a valid changelog exactly when, for every source row, every prefix of
   what the joined side emits consolidates between the empty bag and the joined side's total. *)
From Octo Require Import Operators LimitOrder CompareLaws ChangelogLemmas OperatorsProofs LimitOrderProofs.

Definition G_bounded (G : row -> list rec) : Prop :=
  forall x k o, 0 <= consolidate (firstn k (G x)) o <= consolidate (G x) o.
Definition joined_bounded (joined : row -> list event) : Prop :=
  forall x k o, 0 <= consolidate (firstn k (records (joined x))) o <= consolidate (records (joined x)) o.

Lemma flip_consolidate (r : rec) l o :
  consolidate (map (fun j => mkrec (vals j) (xorb (retr r) (retr j)) (et r)) l) o = sign r * consolidate l o.
Proof.
  induction l as [|j l IH]; [simpl; lia|]. cbn [map consolidate vals]. rewrite IH. unfold sign; cbn [retr].
  destruct (retr r), (retr j), (row_eqb (vals j) o); cbn [xorb]; lia.
Qed.

Lemma blk_firstn G r k o : consolidate (firstn k (blk G r)) o = sign r * consolidate (firstn k (G (vals r))) o.
Proof. unfold blk. rewrite firstn_map. apply flip_consolidate. Qed.

Lemma lin_valid_from_bounded G : G_congruent G -> G_bounded G -> forall l pre,
  (forall n x, 0 <= consolidate (pre ++ firstn n l) x) ->
  forall n o, 0 <= consolidate (lin_out G pre ++ firstn n (lin_out G l)) o.
Proof.
  intros Hc Hb.
  assert (Hw : forall o, congruent (fun x => consolidate (G x) o)) by (intros o x y Hxy; apply Hc; exact Hxy).
  assert (Hp : forall o x, 0 <= consolidate (G x) o) by (intros o x; pose proof (Hb x 0%nat o) as B; simpl in B; lia).
  assert (base : forall pre o, nonneg pre -> 0 <= consolidate (lin_out G pre) o).
  { intros pre o Hn. rewrite lin_consolidate. apply wsum_nonneg; [apply Hw | apply Hp | exact Hn]. }
  induction l as [|r l IH]; intros pre H n o.
  - cbn [lin_out flat_map]. rewrite firstn_nil, app_nil_r. apply base. intro x. specialize (H 0%nat x). rewrite app_nil_r in H. exact H.
  - assert (Hpre : nonneg pre) by (intro x; specialize (H 0%nat x); rewrite app_nil_r in H; exact H).
    assert (Hpre1 : nonneg (pre ++ [r])) by (intro x; apply (H 1%nat x)).
    change (lin_out G (r :: l)) with (blk G r ++ lin_out G l). rewrite firstn_app.
    destruct (Nat.le_gt_cases n (length (blk G r))) as [Le|Gt].
    + replace (n - length (blk G r))%nat with 0%nat by lia. rewrite firstn_O, app_nil_r, consolidate_app, blk_firstn.
      pose proof (Hb (vals r) n o) as B.
      pose proof (base pre o Hpre) as B0. pose proof (base (pre ++ [r]) o Hpre1) as B1.
      rewrite lin_out_app, consolidate_app in B1. cbn [lin_out flat_map] in B1. rewrite app_nil_r, blk_consolidate in B1.
      unfold sign in *. destruct (retr r); lia.
    + rewrite firstn_all2 by lia. rewrite app_assoc.
      replace (lin_out G pre ++ blk G r) with (lin_out G (pre ++ [r])) by (rewrite lin_out_app; cbn [lin_out flat_map]; rewrite app_nil_r; reflexivity).
      apply IH. intros m x. rewrite <- app_assoc. apply (H (S m) x).
Qed.

Theorem lin_valid_bounded G l : G_congruent G -> G_bounded G -> Valid l -> Valid (lin_out G l).
Proof. intros Hc Hb Hv n o. apply (lin_valid_from_bounded G Hc Hb l [] Hv n o). Qed.

Lemma glue_consolidate x (l : list rec) o :
  consolidate (map (fun j => mkrec (x ++ vals j) (retr j) zero_ns) l) o =
  if row_eqb x (firstn (length x) o) then consolidate l (skipn (length x) o) else 0.
Proof.
  induction l as [|j js IH]; [destruct (row_eqb x _); reflexivity|].
  cbn [map consolidate vals]. rewrite IH, row_eqb_app. unfold sign; cbn [retr].
  destruct (row_eqb x (firstn (length x) o)); cbn [andb]; [reflexivity | lia].
Qed.

Lemma G_lookup_bounded joined : joined_bounded joined -> G_bounded (G_lookup joined).
Proof.
  intros Hb x k o. unfold G_lookup. rewrite firstn_map, !glue_consolidate.
  destruct (row_eqb x (firstn (length x) o)); [apply Hb | lia].
Qed.

Theorem lookup_valid_bounded joined inp : joined_congruent joined -> joined_bounded joined ->
  valid_changelog (records inp) = true -> valid_changelog (records (run_lookup joined inp)) = true.
Proof.
  intros Hc Hb V. apply valid_iff. rewrite run_lookup_lin.
  apply lin_valid_bounded; [apply G_lookup_congruent; exact Hc | apply G_lookup_bounded; exact Hb | apply valid_iff; exact V].
Qed.

(* ... and the hypothesis is necessary: a joined side that violates it gives an invalid output for [+x] or [+x, -x] *)
Lemma row_eqb_app_self x o : row_eqb x (firstn (length x) (x ++ o)) = true /\ skipn (length x) (x ++ o) = o.
Proof.
  split.
  - rewrite firstn_app, Nat.sub_diag, firstn_O, app_nil_r, firstn_all. apply row_eqb_refl.
  - rewrite skipn_app, Nat.sub_diag, skipn_all. reflexivity.
Qed.

Theorem lookup_valid_exact joined : joined_congruent joined ->
  ((forall inp, valid_changelog (records inp) = true -> valid_changelog (records (run_lookup joined inp)) = true)
   <-> joined_bounded joined).
Proof.
  intro Hc. split; [|intros Hb inp; apply lookup_valid_bounded; assumption].
  intros H x k o.
  set (G := G_lookup joined).
  assert (P : forall m, consolidate (firstn m (G x)) (x ++ o) = consolidate (firstn m (records (joined x))) o).
  { intro m. unfold G, G_lookup. rewrite firstn_map, glue_consolidate. destruct (row_eqb_app_self x o) as [-> ->]. reflexivity. }
  assert (T : consolidate (G x) (x ++ o) = consolidate (records (joined x)) o).
  { unfold G, G_lookup. rewrite glue_consolidate. destruct (row_eqb_app_self x o) as [-> ->]. reflexivity. }
  split.
  - pose proof (H [Rec (ins x)] (insert_only_Valid [ins x] eq_refl)) as V. apply valid_iff in V. rewrite run_lookup_lin in V.
    change (records [Rec (ins x)]) with [ins x] in V. cbn [lin_out flat_map] in V. rewrite app_nil_r in V.
    specialize (V k (x ++ o)). rewrite blk_firstn in V. change (sign (ins x)) with 1 in V. change (vals (ins x)) with x in V.
    fold G in V. rewrite P in V. lia.
  - set (rx := mkrec x true zero_ns).
    assert (Vi : valid_changelog (records [Rec (ins x); Rec rx]) = true).
    { apply valid_iff. change (records [Rec (ins x); Rec rx]) with [ins x; rx]. intros m y.
      destruct m as [|[|m]]; cbn [firstn consolidate]; rewrite ?firstn_nil; cbn [consolidate];
        change (sign (ins x)) with 1; change (sign rx) with (-1); change (vals (ins x)) with x; change (vals rx) with x;
        destruct (row_eqb x y); lia. }
    pose proof (H _ Vi) as V. apply valid_iff in V. rewrite run_lookup_lin in V.
    change (records [Rec (ins x); Rec rx]) with [ins x; rx] in V. cbn [lin_out flat_map] in V. rewrite app_nil_r in V.
    specialize (V (length (blk G (ins x)) + k)%nat (x ++ o)). fold G in V.
    rewrite firstn_app, firstn_all2 in V by lia. replace (length (blk G (ins x)) + k - length (blk G (ins x)))%nat with k in V by lia.
    rewrite consolidate_app, blk_consolidate, blk_firstn in V.
    change (sign (ins x)) with 1 in V. change (vals (ins x)) with x in V. change (sign rx) with (-1) in V. change (vals rx) with x in V.
    rewrite P, T in V. lia.
Qed.

(* an insert-only joined side is the common special case *)
Lemma joined_inserts_bounded joined : joined_inserts joined -> joined_bounded joined.
Proof.
  intros Hi x k o.
  assert (A : forall j, In j (firstn k (records (joined x))) -> retr j = false).
  { intros j Hj. apply (Hi x j). rewrite <- (firstn_skipn k (records (joined x))). apply in_or_app. left. exact Hj. }
  assert (B : forall j, In j (skipn k (records (joined x))) -> retr j = false).
  { intros j Hj. apply (Hi x j). rewrite <- (firstn_skipn k (records (joined x))). apply in_or_app. right. exact Hj. }
  pose proof (uniform_sign (fun _ => []) _ false o A) as UA. pose proof (uniform_sign (fun _ => []) _ false o B) as UB. cbv iota in UA, UB.
  rewrite <- (firstn_skipn k (records (joined x))) at 3. rewrite consolidate_app. lia.
Qed.
