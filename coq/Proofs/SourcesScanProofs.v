(* Proofs/SourcesScanProofs.v — C23 (1): the lines source returns exactly the separator-delimited pieces,
   for every way the reader chunks the bytes. *)
From Octo Require Import SourcesScan.
From Coq Require Import Arith.

Local Open Scope nat_scope.

(* ---- prefixb / index_of characterised -------------------------------------------------------------- *)
Lemma prefixb_app : forall p r, prefixb p (p ++ r) = true.
Proof. induction p; simpl; intros; auto. rewrite Z.eqb_refl; simpl; auto. Qed.

Lemma prefixb_true : forall p d, prefixb p d = true -> exists r, d = p ++ r.
Proof.
  induction p; simpl; intros d H. exists d; auto.
  destruct d; try discriminate. apply andb_true_iff in H as [H1 H2]. apply Z.eqb_eq in H1; subst.
  destruct (IHp _ H2) as [r ->]. exists r; auto.
Qed.

Lemma prefixb_iff : forall p d, prefixb p d = true <-> firstn (length p) d = p.
Proof.
  split.
  - intros H. destruct (prefixb_true _ _ H) as [r ->]. rewrite firstn_app, Nat.sub_diag, firstn_all. simpl. apply app_nil_r.
  - intros H. rewrite <- (firstn_skipn (length p) d), H. apply prefixb_app.
Qed.

Lemma prefixb_length : forall p d, prefixb p d = true -> length p <= length d.
Proof. intros p d H. destruct (prefixb_true _ _ H) as [r ->]. rewrite app_length. lia. Qed.

Lemma prefixb_app_l : forall p d r, prefixb p d = true -> prefixb p (d ++ r) = true.
Proof. intros p d r H. destruct (prefixb_true _ _ H) as [x ->]. rewrite <- app_assoc. apply prefixb_app. Qed.

(* an occurrence inside the window is an occurrence of the whole; conversely when it ends inside the window *)
Lemma prefixb_app_inv : forall p d r, length p <= length d -> prefixb p (d ++ r) = true -> prefixb p d = true.
Proof.
  induction p; simpl; intros; auto.
  destruct d; simpl in *; try lia. apply andb_true_iff in H0 as [H1 H2]. rewrite H1; simpl.
  eapply IHp; eauto. lia.
Qed.

(* index_of returns the least index at which sep occurs *)
Lemma index_of_some : forall sep d i, index_of sep d = Some i ->
  prefixb sep (skipn i d) = true /\ (forall j, j < i -> prefixb sep (skipn j d) = false) /\ i + length sep <= length d.
Proof.
  intros sep d. induction d as [|x d IH]; intros i H.
  - simpl in H. destruct (prefixb sep []) eqn:E; inversion H; subst. simpl. rewrite E. split; auto. split. intros; lia.
    apply prefixb_length in E. simpl in *. lia.
  - cbn [index_of] in H. destruct (prefixb sep (x :: d)) eqn:E.
    + inversion H; subst. simpl. split; auto. split. intros; lia. apply prefixb_length in E. simpl in *. lia.
    + destruct (index_of sep d) eqn:E2; inversion H; subst. destruct (IH _ eq_refl) as [A [B C]].
      simpl. split; auto. split. intros j Hj. destruct j; simpl; auto. apply B. lia. lia.
Qed.

Lemma index_of_none : forall sep d, index_of sep d = None -> forall j, prefixb sep (skipn j d) = false.
Proof.
  intros sep d. induction d as [|x d IH]; intros H j.
  - simpl in H. destruct (prefixb sep []) eqn:E; try discriminate. destruct j; simpl; auto.
  - cbn [index_of] in H. destruct (prefixb sep (x :: d)) eqn:E; try discriminate.
    destruct (index_of sep d) eqn:E2; try discriminate. destruct j; simpl; auto.
Qed.

Lemma index_of_least : forall sep d i,
  prefixb sep (skipn i d) = true -> (forall j, j < i -> prefixb sep (skipn j d) = false) -> i <= length d ->
  index_of sep d = Some i.
Proof.
  intros sep d. induction d as [|x d IH]; intros i A B C.
  - simpl in C. assert (i = 0) by lia. subst. simpl in *. rewrite A. auto.
  - destruct i.
    + simpl in A. cbn [index_of]. rewrite A. auto.
    + cbn [index_of]. pose proof (B 0 ltac:(lia)) as B0. simpl in B0. rewrite B0. simpl in A. rewrite (IH i); auto.
      intros j Hj. apply (B (S j)). lia. simpl in C. lia.
Qed.

Theorem index_of_spec : forall sep d i, index_of sep d = Some i <->
  (firstn (length sep) (skipn i d) = sep /\ i <= length d /\
   forall j, j < i -> firstn (length sep) (skipn j d) <> sep).
Proof.
  split.
  - intros H. destruct (index_of_some _ _ _ H) as [A [B C]]. split. apply prefixb_iff; auto. split. lia.
    intros j Hj E. apply prefixb_iff in E. rewrite B in E; auto. discriminate.
  - intros [A [C B]]. apply index_of_least; auto. apply prefixb_iff; auto.
    intros j Hj. destruct (prefixb sep (skipn j d)) eqn:E; auto. apply prefixb_iff in E. exfalso. eapply B; eauto.
Qed.

Theorem index_of_none_spec : forall sep d, index_of sep d = None <->
  forall j, firstn (length sep) (skipn j d) <> sep.
Proof.
  split.
  - intros H j E. apply prefixb_iff in E. rewrite (index_of_none _ _ H) in E. discriminate.
  - intros H. destruct (index_of sep d) eqn:E; auto. apply index_of_spec in E. destruct E as [A _]. exfalso. eapply H; eauto.
Qed.

Lemma skipn_app_le : forall {A} n (a b : list A), n <= length a -> skipn n (a ++ b) = skipn n a ++ b.
Proof. intros. rewrite skipn_app. replace (n - length a) with 0 by lia. auto. Qed.

Lemma firstn_app_le : forall {A} n (a b : list A), n <= length a -> firstn n (a ++ b) = firstn n a.
Proof. intros. rewrite firstn_app. replace (n - length a) with 0 by lia. simpl. apply app_nil_r. Qed.

Lemma index_of_app_some : forall sep w r i, index_of sep w = Some i -> index_of sep (w ++ r) = Some i.
Proof.
  intros sep w r i H. destruct (index_of_some _ _ _ H) as [A [B C]].
  apply index_of_least.
  - rewrite skipn_app_le by lia. apply prefixb_app_l; auto.
  - intros j Hj. rewrite skipn_app_le by lia.
    destruct (prefixb sep (skipn j w ++ r)) eqn:E; auto.
    apply prefixb_app_inv in E. rewrite B in E; auto. rewrite skipn_length. lia.
  - rewrite app_length. lia.
Qed.

Lemma index_of_app_none : forall sep w r i, index_of sep w = None -> index_of sep (w ++ r) = Some i ->
  length w < i + length sep.
Proof.
  intros sep w r i H1 H2. destruct (index_of_some _ _ _ H2) as [A [B C]].
  destruct (le_lt_dec (i + length sep) (length w)); auto.
  rewrite skipn_app_le in A by lia. apply prefixb_app_inv in A.
  rewrite (index_of_none _ _ H1) in A. discriminate. rewrite skipn_length. lia.
Qed.

(* ---- the specification unfolds (its fuel never runs out) ------------------------------------------- *)
Lemma split_spec_fuel_enough : forall sep, sep <> [] -> forall f1 f2 d, length d < f1 -> length d < f2 ->
  split_spec_fuel f1 sep d = split_spec_fuel f2 sep d.
Proof.
  intros sep Hs. induction f1; intros f2 d H1 H2. lia.
  destruct f2. lia. simpl. destruct d as [|x d]; auto.
  destruct (index_of sep (x :: d)) eqn:E; auto.
  f_equal. destruct (index_of_some _ _ _ E) as [_ [_ C]].
  assert (0 < length sep) by (destruct sep; simpl; try congruence; lia).
  apply IHf1; rewrite skipn_length; lia.
Qed.

Lemma split_spec_fuel_S : forall f sep d, split_spec_fuel (S f) sep d =
  match d with
  | [] => []
  | _ => match index_of sep d with
         | None => [d]
         | Some i => firstn i d :: split_spec_fuel f sep (skipn (i + length sep) d)
         end
  end.
Proof. reflexivity. Qed.

Theorem split_spec_unfold : forall sep d, sep <> [] ->
  split_spec sep d =
  match d with
  | [] => []
  | _ => match index_of sep d with
         | None => [d]
         | Some i => firstn i d :: split_spec sep (skipn (i + length sep) d)
         end
  end.
Proof.
  intros sep d Hs. unfold split_spec at 1. rewrite split_spec_fuel_S. destruct d as [|x d]; auto.
  destruct (index_of sep (x :: d)) eqn:E; auto. f_equal.
  destruct (index_of_some _ _ _ E) as [_ [_ C]].
  assert (0 < length sep) by (destruct sep; simpl; try congruence; lia).
  unfold split_spec. simpl length in C. apply split_spec_fuel_enough; auto; rewrite skipn_length; simpl length; lia.
Qed.

(* ---- the scanner ------------------------------------------------------------------------------------ *)
Section Correct.
  Variables (dropcr : bool) (sep : bytes) (maxtok : nat).
  Hypothesis sep_nonempty : sep <> [].
  Hypothesis sep_fits : length sep <= maxtok.
  Let post := fun t : bytes => if dropcr then drop_cr t else t.
  Let split := split_fn_gen true dropcr sep.

  Lemma sep_pos : 0 < length sep.
  Proof. destruct sep; simpl; try congruence; lia. Qed.

  Lemma scan_loop_correct : forall fuel rd win rest eof empties acc,
    (eof = true -> rest = []) ->
    Forall (fun p => length p + length sep <= maxtok) (split_spec sep (win ++ rest)) ->
    2 * length win + 3 * length rest + (if eof then 0 else 1) < fuel ->
    scan_loop split maxtok fuel rd win rest eof empties acc
    = (acc ++ map post (split_spec sep (win ++ rest)), EndOk).
  Proof.
    pose proof sep_pos as Hsp.
    induction fuel; intros rd win rest eof empties acc Heof Hfit Hfuel. lia.
    cbn [scan_loop].
    destruct win as [|w0 win0] eqn:Ewin.
    - (* empty window *)
      destruct eof.
      + rewrite (Heof eq_refl). simpl. rewrite app_nil_r. auto.
      + simpl negb. simpl orb. cbn iota beta. simpl.
        destruct (maxtok <=? 0) eqn:Emt. apply Nat.leb_le in Emt. lia.
        unfold read_step. destruct rest as [|r0 rest0] eqn:Erest.
        * rewrite IHfuel; auto. simpl. lia.
        * set (n := Nat.min _ _).
          assert (Hn : 1 <= n). { subst n. apply Nat.min_glb. destruct (chunks rd); lia. apply Nat.leb_gt in Emt. simpl. lia. }
          rewrite IHfuel.
          -- simpl app at 2. rewrite firstn_skipn. auto.
          -- intros H. apply andb_true_iff in H as [_ H]. destruct (skipn n (r0 :: rest0)); auto. discriminate.
          -- simpl app at 1. rewrite firstn_skipn. auto.
          -- rewrite skipn_length. simpl app. rewrite firstn_length.
             assert (length (r0 :: rest0) >= 1) by (simpl; lia).
             destruct (eofl rd && is_nil (skipn n (r0 :: rest0))); simpl length in *; lia.
    - (* non-empty window: split is called *)
      rewrite <- Ewin in *. assert (Hwne : win <> []) by (subst; discriminate).
      replace (negb (is_nil win) || eof) with true by (subst win; auto).
      unfold split at 1. unfold split_fn_gen.
      rewrite (split_spec_unfold _ _ sep_nonempty) in Hfit |- *.
      destruct (index_of sep win) as [i|] eqn:Eix.
      + (* a separator-terminated line inside the window *)
        destruct (index_of_some _ _ _ Eix) as [_ [_ Hi]].
        rewrite (index_of_app_some _ _ rest _ Eix) in Hfit |- *.
        replace (match win with [] => _ | _ :: _ => _ end)
          with (Z.of_nat i + Z.of_nat (length sep), Some (post (firstn i win)))%Z
          by (subst win; destruct eof; reflexivity).
        replace (match win ++ rest with [] => [] | _ :: _ => _ end)
          with (firstn i (win ++ rest) :: split_spec sep (skipn (i + length sep) (win ++ rest)))
          by (subst win; reflexivity).
        replace (match win ++ rest with [] => [] | _ :: _ => _ end)
          with (firstn i (win ++ rest) :: split_spec sep (skipn (i + length sep) (win ++ rest))) in Hfit
          by (subst win; reflexivity).
        destruct ((Z.of_nat i + Z.of_nat (length sep) <? 0)%Z || (Z.of_nat (length win) <? Z.of_nat i + Z.of_nat (length sep))%Z) eqn:Eb.
        { apply orb_true_iff in Eb as [Eb|Eb]; apply Z.ltb_lt in Eb; lia. }
        replace (Z.to_nat (Z.of_nat i + Z.of_nat (length sep))) with (i + length sep) by lia.
        replace (eof && (Z.of_nat i + Z.of_nat (length sep) =? 0)%Z) with false
          by (destruct eof; simpl; auto; symmetry; apply Z.eqb_neq; lia).
        inversion Hfit as [|? ? Hfit1 Hfit2]; subst.
        rewrite skipn_app_le in Hfit2 |- * by lia.
        rewrite IHfuel; auto.
        * rewrite firstn_app_le by lia. rewrite <- app_assoc. reflexivity.
        * rewrite skipn_length. lia.
      + destruct eof.
        * (* final non-terminated line *)
          rewrite (Heof eq_refl) in *. rewrite app_nil_r in *. rewrite Eix in *.
          replace (match win with [] => _ | _ :: _ => _ end)
            with (Z.of_nat (length win), Some (post win)) by (subst win; reflexivity).
          replace (match win with [] => [] | _ :: _ => [win] end) with [win] by (subst win; reflexivity).
          rewrite Z.ltb_irrefl. replace (Z.of_nat (length win) <? 0)%Z with false by (symmetry; apply Z.ltb_ge; lia).
          simpl orb. cbn iota. rewrite Nat2Z.id, skipn_all.
          replace (true && (Z.of_nat (length win) =? 0)%Z) with false
            by (symmetry; apply Z.eqb_neq; subst win; simpl; lia).
          rewrite IHfuel.
          -- subst win. simpl. rewrite <- app_assoc. reflexivity.
          -- auto.
          -- simpl. constructor.
          -- subst win. simpl in *. lia.
        * (* request more data *)
          replace (match win with [] => _ | _ :: _ => _ end) with (0%Z, @None bytes) by (subst win; reflexivity).
          simpl orb. replace (Z.of_nat (length win) <? 0)%Z with false by (symmetry; apply Z.ltb_ge; lia).
          cbn iota. simpl skipn.
          assert (Hlt : length win < maxtok).
          { destruct (index_of sep (win ++ rest)) as [i|] eqn:E2.
            - pose proof (index_of_app_none _ _ _ _ Eix E2).
              destruct (index_of_some _ _ _ E2) as [_ [_ Hi]].
              replace (match win ++ rest with [] => [] | _ :: _ => _ end)
                with (firstn i (win ++ rest) :: split_spec sep (skipn (i + length sep) (win ++ rest))) in Hfit
                by (subst win; reflexivity).
              inversion Hfit; subst. rewrite firstn_length in *. lia.
            - replace (match win ++ rest with [] => [] | _ :: _ => _ end) with [win ++ rest] in Hfit by (subst win; reflexivity).
              inversion Hfit; subst. rewrite app_length in *. lia. }
          replace (maxtok <=? length win) with false by (symmetry; apply Nat.leb_gt; auto).
          unfold read_step. destruct rest as [|r0 rest0] eqn:Erest.
          -- rewrite IHfuel; auto.
             ++ rewrite !app_nil_r. rewrite (split_spec_unfold _ _ sep_nonempty). reflexivity.
             ++ rewrite !app_nil_r in *. rewrite (split_spec_unfold _ _ sep_nonempty). auto.
             ++ rewrite app_nil_r. simpl in *. lia.
          -- rewrite <- Erest in *. assert (Hr : 1 <= length rest) by (subst rest; simpl; lia).
             set (n := Nat.min _ _).
             assert (Hn : 1 <= n). { subst n. apply Nat.min_glb. destruct (chunks rd); lia. lia. }
             rewrite IHfuel.
             ++ rewrite <- app_assoc, firstn_skipn. rewrite (split_spec_unfold _ _ sep_nonempty). reflexivity.
             ++ intros H. apply andb_true_iff in H as [_ H]. destruct (skipn n rest); auto. discriminate.
             ++ rewrite <- app_assoc, firstn_skipn. rewrite (split_spec_unfold _ _ sep_nonempty). auto.
             ++ rewrite app_length, skipn_length, firstn_length.
                destruct (eofl rd && is_nil (skipn n rest)); lia.
  Qed.

  Theorem scan_correct : forall rd data,
    Forall (fun p => length p + length sep <= maxtok) (split_spec sep data) ->
    scan split maxtok rd data = (map post (split_spec sep data), EndOk).
  Proof.
    intros. unfold scan. rewrite scan_loop_correct; auto. discriminate. unfold scan_fuel. simpl. lia.
  Qed.
End Correct.

Lemma bytes_eqb_eq : forall a b, bytes_eqb a b = true <-> a = b.
Proof.
  induction a; destruct b; simpl; split; intros; try discriminate; auto.
  - apply andb_true_iff in H as [H1 H2]. apply Z.eqb_eq in H1. apply IHa in H2. subst; auto.
  - inversion H; subst. rewrite Z.eqb_refl. simpl. apply IHa; auto.
Qed.

Definition fits (sep : bytes) (maxtok : nat) (data : bytes) : Prop :=
  length sep <= maxtok /\ Forall (fun p => length p + length sep <= maxtok) (split_spec sep data).

Theorem lines_split_correct : forall sep data rd maxtok,
  sep <> [] -> fits sep maxtok data ->
  scan (split_fn sep) maxtok rd data = (split_spec sep data, EndOk).
Proof.
  intros sep data rd maxtok Hs [H1 H2]. unfold split_fn.
  rewrite (scan_correct false sep maxtok Hs H1 rd data H2). rewrite map_id. reflexivity.
Qed.

Theorem scan_lines_correct : forall data rd maxtok,
  fits [10%Z] maxtok data ->
  scan scan_lines maxtok rd data = (map drop_cr (split_spec [10%Z] data), EndOk).
Proof.
  intros data rd maxtok [H1 H2]. unfold scan_lines.
  rewrite (scan_correct true [10%Z] maxtok ltac:(discriminate) H1 rd data H2). reflexivity.
Qed.

Theorem lines_run_correct : forall sep data rd maxtok,
  sep <> [] -> fits sep maxtok data ->
  lines_run sep maxtok rd data = (lines_spec sep data, Ok tt).
Proof.
  intros sep data rd maxtok Hs Hf. unfold lines_run, lines_run_gen, lines_spec.
  destruct (bytes_eqb sep [10%Z]) eqn:E.
  - apply bytes_eqb_eq in E. subst. rewrite scan_lines_correct; auto.
  - fold (split_fn sep). rewrite lines_split_correct; auto.
Qed.

(* the run reports nil only when the scanner ended without an error *)
Theorem lines_run_no_silent_error : forall sep data rd maxtok recs,
  lines_run sep maxtok rd data = (recs, Ok tt) ->
  exists toks, scan (if bytes_eqb sep [10%Z] then scan_lines else split_fn sep) maxtok rd data = (toks, EndOk).
Proof.
  intros sep data rd maxtok recs. unfold lines_run, lines_run_gen. fold (split_fn sep).
  destruct (scan _ maxtok rd data) as [toks e]. destruct e; intros H; inversion H. eauto.
Qed.

(* ---- the pinned code ------------------------------------------------------------------------------- *)
(* xabyabz with ?sep=ab yields x, by, bz *)
Theorem lines_split_pinned_refuted :
  exists sep data rd maxtok, sep <> [] /\ fits sep maxtok data /\
    fst (scan (split_fn_pinned sep) maxtok rd data) <> split_spec sep data.
Proof.
  exists [97;98]%Z, [120;97;98;121;97;98;122]%Z, (mkreader [] false), 64.
  split. discriminate. split. split. simpl; lia. vm_compute. repeat constructor.
  vm_compute. discriminate.
Qed.

(* an over-long line ends the pinned run with a nil error after the lines before it *)
Theorem lines_run_pinned_silent_error_refuted :
  exists sep data rd maxtok recs,
    lines_run_pinned sep maxtok rd data = (recs, Ok tt) /\
    snd (scan (split_fn_pinned sep) maxtok rd data) = EndTooLong.
Proof.
  exists [59]%Z, [97;59;98;98;98;98;98;98;59;99]%Z, (mkreader [] false), 4, [(0, [97])]%Z.
  split; vm_compute; reflexivity.
Qed.
