(* Proofs/WrapperProofs.v — the internally-consistent wrapper forwards exactly the settled changes. *)
From Octo Require Import Wrapper CompareLaws ChangelogLemmas.

Arguments flush : simpl never.

Definition same_arity (n : Z) (l : list rec) : Prop := forall r, In r l -> Z.of_nat (length (vals r)) = n.

Lemma same_arity_row_eqb n l a b : same_arity n l -> In a l -> In b l ->
  slices_eq (vals a) (vals b) = row_eqb (vals a) (vals b).
Proof. intros H Ha Hb. apply slices_eq_row_eqb. apply Nat2Z.inj. rewrite (H a Ha), (H b Hb). reflexivity. Qed.

Lemma remove_first_retraction_spec r l l' :
  remove_first_retraction r l = Some l' ->
  exists x, In x l /\ retr x = true /\ slices_eq (vals r) (vals x) = true /\
            length l = S (length l') /\ (forall y, In y l' -> In y l) /\
            (forall row, consolidate l row = consolidate l' row + (if row_eqb (vals x) row then -1 else 0)).
Proof.
  revert l'. induction l as [|x xs IH]; intros l' H; simpl in H; [discriminate|].
  destruct (retr x && slices_eq (vals r) (vals x)) eqn:E.
  - inversion H; subst. apply andb_true_iff in E. destruct E as [E1 E2].
    exists x. repeat split; auto; [left; reflexivity | intros; right; assumption |].
    intro row. simpl. unfold sign. rewrite E1. lia.
  - destruct (remove_first_retraction r xs) as [xs'|] eqn:R; [|discriminate].
    inversion H; subst. destruct (IH xs' eq_refl) as [y [Hin [Hr [Hs [Hl [Hincl Hc]]]]]].
    exists y. repeat split; auto; [right; assumption | simpl; lia | |].
    + intros z [Hz|Hz]; [left; assumption | right; apply Hincl; assumption].
    + intro row. simpl. rewrite (Hc row). lia.
Qed.

Lemma cancel_fuel_spec n0 : forall n l, (length l <= n)%nat -> same_arity n0 l ->
  (forall row, consolidate (cancel_fuel n l) row = consolidate l row) /\
  (forall y, In y (cancel_fuel n l) -> In y l).
Proof.
  induction n as [|n IH]; intros l Hl Ha.
  - destruct l; simpl in *; [split; [reflexivity | tauto] | lia].
  - destruct l as [|x xs]; simpl; [split; [reflexivity | tauto]|].
    assert (Hxs : same_arity n0 xs) by (intros r Hr; apply Ha; right; exact Hr).
    simpl in Hl. destruct (retr x) eqn:Rx.
    + destruct (IH xs ltac:(lia) Hxs) as [C I]. split.
      * intro row. simpl. rewrite C. reflexivity.
      * intros y [Hy|Hy]; [left; assumption | right; apply I; assumption].
    + destruct (remove_first_retraction x xs) as [xs'|] eqn:R.
      * destruct (remove_first_retraction_spec _ _ _ R) as [y [Hin [Hr [Hs [Hlen [Hincl Hc]]]]]].
        assert (Hxs' : same_arity n0 xs') by (intros r Hr'; apply Hxs; apply Hincl; exact Hr').
        destruct (IH xs' ltac:(lia) Hxs') as [C I]. split.
        -- intro row. rewrite C. simpl. rewrite (Hc row). unfold sign. rewrite Rx.
           rewrite (same_arity_row_eqb n0 (x :: xs) x y Ha (or_introl eq_refl) (or_intror Hin)) in Hs.
           rewrite (row_eqb_cong _ _ row Hs). destruct (row_eqb (vals y) row); lia.
        -- intros z Hz. right. apply Hincl. apply I. exact Hz.
      * destruct (IH xs ltac:(lia) Hxs) as [C I]. split.
        -- intro row. simpl. rewrite C. reflexivity.
        -- intros y [Hy|Hy]; [left; assumption | right; apply I; assumption].
Qed.

Lemma cancel_spec n0 l : same_arity n0 l ->
  (forall row, consolidate (cancel l) row = consolidate l row) /\ (forall y, In y (cancel l) -> In y l).
Proof. intro H. apply (cancel_fuel_spec n0); [apply le_n | exact H]. Qed.

Lemma flush_spec n0 w pending : same_arity n0 pending ->
  let '(out, rest) := flush w pending in
  rest = filter (after_wm w) pending /\
  (forall row, consolidate out row + consolidate rest row = consolidate pending row) /\
  (forall y, In y out -> In y pending /\ after_wm w y = false).
Proof.
  intro Ha. unfold flush.
  assert (Hle : same_arity n0 (filter (fun r => negb (after_wm w r)) pending)).
  { intros r Hr. apply filter_In in Hr. apply Ha. tauto. }
  destruct (cancel_spec n0 _ Hle) as [C I]. split; [reflexivity|]. split.
  - intro row. rewrite C. rewrite Z.add_comm. apply (consolidate_filter_split (after_wm w)).
  - intros y Hy. apply I in Hy. apply filter_In in Hy. destruct Hy as [H1 H2]. split; [exact H1|].
    destruct (after_wm w y); [discriminate | reflexivity].
Qed.

(* the invariant: [seen] = records received so far, [emitted] = records produced so far *)
Record Inv (seen emitted pending : list rec) (wlast : Z) : Prop := {
  inv_bag : forall row, consolidate emitted row + consolidate pending row = consolidate seen row;
  inv_pending : forall W, wlast <= W -> filter (after_wm W) pending = filter (after_wm W) seen;
  inv_in_e : forall y, In y emitted -> In y seen;
  inv_in_p : forall y, In y pending -> In y seen
}.

Lemma filter_after_after w W l : w <= W -> filter (after_wm W) (filter (after_wm w) l) = filter (after_wm W) l.
Proof.
  intro H. induction l as [|x xs IH]; simpl; [reflexivity|].
  destruct (after_wm w x) eqn:E1; destruct (after_wm W x) eqn:E2; simpl; rewrite ?E2, ?IH; try reflexivity.
  unfold after_wm in *. apply Z.ltb_lt in E2. apply Z.ltb_ge in E1. lia.
Qed.

Definition last_wm (wlast : Z) (es : list event) : Z := last (watermarks es) wlast.

Lemma last_cons {A} : forall (l : list A) a d, last (a :: l) d = last l a.
Proof.
  induction l as [|b l IH]; intros a d; [reflexivity|].
  change (last (a :: b :: l) d) with (last (b :: l) d). rewrite (IH b d), (IH b a). reflexivity.
Qed.

Lemma icw_run_from_cons p e rest :
  icw_run_from p (e :: rest) =
  let '(p1, o1) := icw_step p e in let '(p2, o2) := icw_run_from p1 rest in (p2, o1 ++ o2).
Proof. reflexivity. Qed.

Lemma run_inv n0 : forall es seen emitted pending wlast,
  Inv seen emitted pending wlast -> same_arity n0 (seen ++ records es) ->
  monotone_from wlast (watermarks es) = true ->
  let '(p', o) := icw_run_from pending es in
  Inv (seen ++ records es) (emitted ++ records o) p' (last_wm wlast es) /\ watermarks o = watermarks es.
Proof.
  induction es as [|e es IH]; intros seen emitted pending wlast HI Ha Hm.
  - simpl. rewrite !app_nil_r. split; [exact HI | reflexivity].
  - destruct e as [r|w].
    + (* a record is appended to pending *)
      rewrite icw_run_from_cons. unfold icw_step.
      assert (HI' : Inv (seen ++ [r]) emitted (pending ++ [r]) wlast).
      { destruct HI as [B P E Pn]. split.
        - intro row. rewrite !consolidate_app. rewrite <- (B row). lia.
        - intros W HW. rewrite !filter_app, (P W HW). reflexivity.
        - intros y Hy. apply in_or_app. left. apply E. exact Hy.
        - intros y Hy. apply in_app_or in Hy. apply in_or_app. destruct Hy; [left; apply Pn|right]; assumption. }
      specialize (IH (seen ++ [r]) emitted (pending ++ [r]) wlast HI').
      simpl records in *. rewrite <- app_assoc in IH. simpl in IH. specialize (IH Ha Hm).
      destruct (icw_run_from (pending ++ [r]) es) as [p' o]. simpl. exact IH.
    + (* a watermark flushes *)
      simpl in Hm. apply andb_true_iff in Hm. destruct Hm as [Hw Hm]. apply Z.leb_le in Hw.
      rewrite icw_run_from_cons. unfold icw_step.
      assert (Hap : same_arity n0 pending).
      { intros y Hy. apply Ha. apply in_or_app. left. apply (inv_in_p _ _ _ _ HI). exact Hy. }
      pose proof (flush_spec n0 w pending Hap) as F.
      destruct (flush w pending) as [out rest]. destruct F as [Frest [Fbag Fin]].
      assert (HI' : Inv seen (emitted ++ out) rest w).
      { destruct HI as [B P E Pn]. split.
        - intro row. rewrite consolidate_app. rewrite <- (B row), <- (Fbag row). lia.
        - intros W HW. subst rest. rewrite (filter_after_after w W pending HW). apply P. lia.
        - intros y Hy. apply in_app_or in Hy. destruct Hy as [Hy|Hy]; [apply E; exact Hy|].
          apply Pn. apply (Fin y Hy).
        - intros y Hy. subst rest. apply filter_In in Hy. apply Pn. tauto. }
      specialize (IH seen (emitted ++ out) rest w HI').
      simpl records in *. specialize (IH Ha Hm).
      destruct (icw_run_from rest es) as [p' o]. destruct IH as [IH1 IH2].
      simpl. split.
      * rewrite !records_app, records_map_Rec. simpl. rewrite app_nil_r. rewrite <- app_assoc in IH1.
        unfold last_wm in *. simpl watermarks.
        rewrite last_cons. exact IH1.
      * rewrite !watermarks_app, watermarks_map_Rec. simpl. rewrite IH2. reflexivity.
Qed.

Lemma inv_init w : Inv [] [] [] w.
Proof. split; intros; simpl; try reflexivity; try tauto. Qed.

Definition first_wm (es : list event) : Z := match watermarks es with [] => 0 | w :: _ => w end.

Lemma monotone_wms_from es : monotone_wms es = true -> monotone_from (first_wm es) (watermarks es) = true.
Proof.
  unfold monotone_wms, first_wm. destruct (watermarks es) as [|w ws]; [reflexivity|].
  intro H. simpl. rewrite H. rewrite Z.leb_refl. reflexivity.
Qed.

Lemma run_inv_top n0 es : same_arity n0 (records es) -> monotone_wms es = true ->
  let '(p', o) := icw_run_from [] es in
  Inv (records es) (records o) p' (last_wm (first_wm es) es) /\ watermarks o = watermarks es.
Proof.
  intros Ha Hm. pose proof (run_inv n0 es [] [] [] (first_wm es) (inv_init _) Ha (monotone_wms_from es Hm)) as H.
  destruct (icw_run_from [] es) as [p' o]. simpl in H. exact H.
Qed.

Lemma icw_run_from_app : forall a b p,
  icw_run_from p (a ++ b) =
  let '(p1, o1) := icw_run_from p a in let '(p2, o2) := icw_run_from p1 b in (p2, o1 ++ o2).
Proof.
  induction a as [|e a IH]; intros b p.
  - simpl. destruct (icw_run_from p b); reflexivity.
  - simpl. destruct (icw_step p e) as [p1 o1]. rewrite IH.
    destruct (icw_run_from p1 a) as [p2 o2]. destruct (icw_run_from p2 b) as [p3 o3].
    rewrite app_assoc. reflexivity.
Qed.

Lemma last_wm_snoc w0 pre W : last_wm w0 (pre ++ [WM W]) = W.
Proof. unfold last_wm. rewrite watermarks_app. simpl. apply last_last. Qed.

(* Each time the wrapper forwards watermark W, what it has emitted consolidates to the input at or below W. *)
Theorem icw_at_watermark n0 pre W :
  same_arity n0 (records pre) -> monotone_wms (pre ++ [WM W]) = true ->
  forall row, consolidate (records (icw_run (pre ++ [WM W]))) row =
              consolidate (filter (fun r => negb (after_wm W r)) (records pre)) row.
Proof.
  intros Ha Hm row. unfold icw_run.
  assert (Ha' : same_arity n0 (records (pre ++ [WM W]))) by (rewrite records_app; simpl; rewrite app_nil_r; exact Ha).
  pose proof (run_inv_top n0 (pre ++ [WM W]) Ha' Hm) as H.
  rewrite icw_run_from_app in *. destruct (icw_run_from [] pre) as [p1 o1] eqn:R1.
  simpl in *.
  destruct H as [[B P _ _] _]. rewrite last_wm_snoc in P.
  specialize (P W (Z.le_refl _)). rewrite filter_after_after in P by lia.
  specialize (B row). rewrite P in B.
  pose proof (consolidate_filter_split (after_wm W) (records pre) row) as S.
  replace (records (pre ++ [WM W])) with (records pre) in B by (rewrite records_app; simpl; rewrite app_nil_r; reflexivity).
  lia.
Qed.

(* the output up to and including that watermark is a prefix of the whole output *)
Theorem icw_prefix pre W post :
  exists rest, icw_run (pre ++ WM W :: post) = icw_run (pre ++ [WM W]) ++ rest /\
               last (icw_run (pre ++ [WM W])) (WM 0) = WM W.
Proof.
  unfold icw_run. replace (pre ++ WM W :: post) with ((pre ++ [WM W]) ++ post) by (rewrite <- app_assoc; reflexivity).
  rewrite (icw_run_from_app (pre ++ [WM W]) post).
  rewrite (icw_run_from_app pre [WM W]).
  destruct (icw_run_from [] pre) as [p1 o1]. cbn [icw_run_from icw_step snd]. destruct (flush W p1) as [out rest]. cbn [snd].
  destruct (icw_run_from rest post) as [p3 o3]. cbn [snd]. exists o3. split; [reflexivity|].
  rewrite app_nil_r. rewrite app_assoc. apply last_last.
Qed.

Theorem icw_no_invention n0 inp :
  same_arity n0 (records inp) -> monotone_wms inp = true ->
  forall r, In r (records (icw_run_finish inp)) -> In r (records inp).
Proof.
  intros Ha Hm r Hr. unfold icw_run_finish in Hr.
  pose proof (run_inv_top n0 inp Ha Hm) as H. destruct (icw_run_from [] inp) as [p o].
  destruct H as [[B P E Pn] _]. rewrite records_app, records_map_Rec in Hr.
  apply in_app_or in Hr. destruct Hr as [Hr|Hr]; [apply E; exact Hr|].
  assert (Hap : same_arity n0 p) by (intros y Hy; apply Ha; apply Pn; exact Hy).
  pose proof (flush_spec n0 max_wm p Hap) as F. destruct (flush max_wm p) as [out rest].
  destruct F as [_ [_ Fin]]. apply Pn. apply (Fin r Hr).
Qed.

Lemma filter_none {A} (f : A -> bool) l : (forall x, In x l -> f x = false) -> filter f l = [].
Proof.
  induction l as [|x xs IH]; intro H; simpl; [reflexivity|].
  rewrite (H x (or_introl eq_refl)). apply IH. intros y Hy. apply H. right. exact Hy.
Qed.

Theorem icw_complete n0 inp :
  same_arity n0 (records inp) -> monotone_wms inp = true ->
  (forall r, In r (records inp) -> et r <= max_wm) ->
  forall row, consolidate (records (icw_run_finish inp)) row = consolidate (records inp) row.
Proof.
  intros Ha Hm Hle row. unfold icw_run_finish.
  pose proof (run_inv_top n0 inp Ha Hm) as H. destruct (icw_run_from [] inp) as [p o].
  destruct H as [[B P E Pn] _]. rewrite records_app, records_map_Rec, consolidate_app.
  assert (Hap : same_arity n0 p) by (intros y Hy; apply Ha; apply Pn; exact Hy).
  pose proof (flush_spec n0 max_wm p Hap) as F. destruct (flush max_wm p) as [out rest].
  destruct F as [Frest [Fbag _]]. simpl.
  assert (H : rest = []).
  { subst rest. apply filter_none. intros x Hx. unfold after_wm. apply Z.ltb_ge. apply Hle. apply Pn. exact Hx. }
  rewrite H in Fbag. specialize (Fbag row). specialize (B row). simpl in Fbag. lia.
Qed.

Theorem icw_watermarks n0 inp :
  same_arity n0 (records inp) -> monotone_wms inp = true ->
  watermarks (icw_run_finish inp) = watermarks inp.
Proof.
  intros Ha Hm. unfold icw_run_finish.
  pose proof (run_inv_top n0 inp Ha Hm) as H. destruct (icw_run_from [] inp) as [p o].
  destruct H as [_ H]. destruct (flush max_wm p) as [out rest]. simpl.
  rewrite watermarks_app, watermarks_map_Rec, app_nil_r. exact H.
Qed.

(* ---- the pinned code violates two clauses; witnesses by computation ---- *)
Definition w_a : list value := [VInt 1].
Lemma pinned_invents_a_record :
  exists inp r, In r (records (icw_run_finish_pinned inp)) /\ ~ In r (records inp).
Proof.
  exists [Rec (mkrec w_a false 5); WM 3], zero_rec. split.
  - vm_compute. left. reflexivity.
  - vm_compute. intros [H|[]]. discriminate.
Qed.
Lemma pinned_cancels_twice :
  exists inp, consolidate (records (icw_run_finish_pinned inp)) w_a <> consolidate (records inp) w_a.
Proof.
  exists [Rec (mkrec w_a false 1); Rec (mkrec w_a false 1); Rec (mkrec w_a true 1); WM 3].
  vm_compute. discriminate.
Qed.
