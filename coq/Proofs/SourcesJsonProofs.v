(* Proofs/SourcesJsonProofs.v — C24, JSON: every value getOctoSQLValue reports as ok has the type it was
   asked for (all types, nested), it never panics, so every record the worker produces matches the schema
   or the line is an error; the pinned code's silent conversions and its nil dereference. *)
From Octo Require Import SourcesJson.

Section JtyInd.
  Variable P : jty -> Prop.
  Hypothesis HNull : P JNull.
  Hypothesis HInt : P JInt.
  Hypothesis HFloat : P JFloat.
  Hypothesis HBool : P JBool.
  Hypothesis HStr : P JStr.
  Hypothesis HTime : P JTime.
  Hypothesis HDur : P JDur.
  Hypothesis HListN : P (JList None).
  Hypothesis HListS : forall e, P e -> P (JList (Some e)).
  Hypothesis HStruct : forall fs, Forall (fun f => P (snd f)) fs -> P (JStruct fs).
  Hypothesis HTuple : forall l, Forall P l -> P (JTuple l).
  Hypothesis HUnion : forall l, Forall P l -> P (JUnion l).
  Hypothesis HAny : P JAny.

  Fixpoint jty_ind' (t : jty) : P t :=
    let go := fix go (l : list jty) : Forall P l :=
      match l with [] => Forall_nil P | x :: xs => Forall_cons x (jty_ind' x) (go xs) end in
    let gof := fix gof (l : list (bytes * jty)) : Forall (fun f => P (snd f)) l :=
      match l with [] => Forall_nil _ | x :: xs => Forall_cons x (jty_ind' (snd x)) (gof xs) end in
    match t with
    | JNull => HNull | JInt => HInt | JFloat => HFloat | JBool => HBool | JStr => HStr
    | JTime => HTime | JDur => HDur
    | JList None => HListN
    | JList (Some e) => HListS e (jty_ind' e)
    | JStruct fs => HStruct fs (gof fs)
    | JTuple l => HTuple l (go l)
    | JUnion l => HUnion l (go l)
    | JAny => HAny
    end.
End JtyInd.

Lemma null_is_has_type : forall t, null_is t = true -> has_jtype t VNull = true.
Proof.
  induction t using jty_ind'; simpl; intros; try discriminate; auto.
  induction l as [|a r IHr]; simpl in *. discriminate.
  inversion H as [|? ? Hh Ht]; subst. apply orb_true_iff in H0 as [H0|H0].
  rewrite Hh; auto. rewrite IHr; auto. apply orb_true_r.
Qed.

Definition gv_good (t : jty) : Prop :=
  forall ov, (forall p, get_value true t ov <> Panic p) /\ (forall e, get_value true t ov <> Err e) /\
             (forall v, get_value true t ov = Ok (v, true) -> has_jtype t v = true).

Ltac triv3 := solve [repeat split; try (intros; discriminate); try (intros ? Htriv; inversion Htriv; subst; reflexivity)].

Lemma gv_none : forall t,
  (forall p, get_value true t None <> Panic p) /\ (forall e, get_value true t None <> Err e) /\
  (forall v, get_value true t None = Ok (v, true) -> has_jtype t v = true).
Proof.
  intros t. assert (E : get_value true t None = Ok (VNull, null_is t)) by (destruct t; reflexivity).
  rewrite E. repeat split; try (intros; discriminate).
  intros v H. inversion H as [[Hv Hn]]. rewrite Hn. apply null_is_has_type; auto.
Qed.

Lemma get_value_good : forall t, gv_good t.
Proof.
  induction t using jty_ind'; intros ov; (destruct ov as [jv|]; [|apply gv_none]).
  - (* JNull *) simpl; destruct jv; triv3.
  - simpl; triv3.
  - simpl; destruct jv; triv3.
  - simpl; destruct jv; triv3.
  - simpl; destruct jv; triv3.
  - simpl; destruct jv as [| | |s [p|] d| |]; triv3.
  - simpl; destruct jv as [| | |s tm [d|]| |]; triv3.
  - (* JList None *) simpl; destruct jv as [| | | |arr|]; try triv3; destruct arr; triv3.
  - (* JList (Some e) *)
    destruct jv as [| | | |arr|]; try (simpl; triv3).
    cbn [get_value].
    match goal with |- context [match ?g arr with _ => _ end] => set (go := g) end.
    assert (Hgo : forall arr, (forall p, go arr <> Panic p) /\ (forall e, go arr <> Err e) /\
                              (forall vs, go arr = Ok (vs, true) -> forallb (has_jtype t) vs = true)).
    { intros arr0. induction arr0 as [|a r IHr]; simpl. triv3.
      destruct (IHt (Some a)) as [A1 [A2 A3]]. destruct IHr as [B1 [B2 B3]].
      destruct (get_value true t (Some a)) as [[v ok1]| |] eqn:E1; try (exfalso; eapply A1; reflexivity); try (exfalso; eapply A2; reflexivity).
      destruct (go r) as [[vs ok2]| |] eqn:E2; try (exfalso; eapply B1; reflexivity); try (exfalso; eapply B2; reflexivity).
      repeat split; try (intros; discriminate).
      intros vs0 H. inversion H; subst. apply andb_true_iff in H2 as [-> ->]. simpl.
      rewrite A3, B3; auto. }
    destruct (Hgo arr) as [B1 [B2 B3]].
    destruct (go arr) as [[vs ok]| |] eqn:E; try (exfalso; eapply B1; reflexivity); try (exfalso; eapply B2; reflexivity).
    repeat split; try (intros; discriminate). intros v0 Hv. inversion Hv. simpl. apply B3. congruence.
  - (* JStruct *)
    destruct jv as [| | | | |obj]; try (simpl; triv3).
    cbn [get_value].
    match goal with |- context [match ?g fs with _ => _ end] => set (go := g) end.
    assert (Hgo : (forall p, go fs <> Panic p) /\ (forall e, go fs <> Err e) /\
                  (forall vs, go fs = Ok (vs, true) -> has_jtype (JStruct fs) (VStruct vs) = true)).
    { induction fs as [|[name ft] r IHr]; simpl. triv3.
      inversion H as [|? ? Hh Ht]; subst. simpl in Hh.
      destruct (Hh (obj_get obj name)) as [A1 [A2 A3]]. destruct (IHr Ht) as [B1 [B2 B3]].
      destruct (get_value true ft (obj_get obj name)) as [[v ok1]| |] eqn:E1; try (exfalso; eapply A1; reflexivity); try (exfalso; eapply A2; reflexivity).
      destruct (go r) as [[vs ok2]| |] eqn:E2; try (exfalso; eapply B1; reflexivity); try (exfalso; eapply B2; reflexivity).
      repeat split; try (intros; discriminate).
      intros vs0 H0. inversion H0; subst. apply andb_true_iff in H3 as [-> ->].
      rewrite A3; auto. simpl. specialize (B3 vs eq_refl). simpl in B3. exact B3. }
    destruct Hgo as [B1 [B2 B3]].
    destruct (go fs) as [[vs ok]| |] eqn:E; try (exfalso; eapply B1; reflexivity); try (exfalso; eapply B2; reflexivity).
    repeat split; try (intros; discriminate). intros v0 Hv. inversion Hv. apply B3. congruence.
  - simpl; triv3.
  - (* JUnion *)
    cbn [get_value].
    induction l as [|a r IHr]; simpl. triv3.
    inversion H as [|? ? Hh Ht]; subst.
    destruct (Hh (Some jv)) as [A1 [A2 A3]]. destruct (IHr Ht) as [B1 [B2 B3]].
    destruct (get_value true a (Some jv)) as [[v ok1]| |] eqn:E1; try (exfalso; eapply A1; reflexivity); try (exfalso; eapply A2; reflexivity).
    destruct ok1.
    + repeat split; try (intros; discriminate). intros v0 H0. inversion H0; subst. rewrite A3; auto.
    + repeat split; auto. intros v0 H0. specialize (B3 v0 H0). simpl in B3. rewrite B3. apply orb_true_r.
  - simpl; triv3.
Qed.

Theorem get_value_sound : forall t ov v, get_value true t ov = Ok (v, true) -> has_jtype t v = true.
Proof. intros t ov. apply (get_value_good t ov). Qed.

Theorem get_value_total : forall t ov, exists v ok, get_value true t ov = Ok (v, ok).
Proof.
  intros. destruct (get_value_good t ov) as [A [B _]].
  destruct (get_value true t ov) as [[v ok]| |]; eauto. exfalso; eapply B; eauto. exfalso; eapply A; eauto.
Qed.

Definition jrow_result_ok (fields : list (bytes * jty)) (o : outcome (list value)) : Prop :=
  match o with
  | Ok vs => Forall2 (fun v f => has_jtype (snd f) v = true) vs fields
  | Err _ => True
  | Panic _ => False
  end.

(* every record the worker hands over matches the schema; otherwise the line is reported as an error *)
Theorem exec_json_row_sound : forall fields obj, jrow_result_ok fields (exec_json_row true fields obj).
Proof.
  induction fields as [|[name t] r IH]; intros obj; simpl. constructor.
  destruct (get_value_total t (obj_get obj name)) as [v [ok E]]. rewrite E.
  destruct ok; simpl; auto.
  specialize (IH obj). destruct (exec_json_row true r obj); simpl in *; auto.
  constructor; auto. simpl. eapply get_value_sound; eauto.
Qed.

(* ---- the pinned code ------------------------------------------------------------------------------------ *)
Definition k_a : bytes := [97].
Definition k_b : bytes := [98].
Definition one_bits : Z := 4607182418800017408.

(* the worker drops `ok`: a string in a Float column becomes NULL *)
Theorem json_pinned_ok_dropped_refuted :
  exists fields obj vs, exec_json_row false fields obj = Ok vs /\
    all2 (fun v f => has_jtype (snd f) v) vs fields = false.
Proof.
  exists [(k_a, JFloat)], [(k_a, JVStr [120] None None)], [VNull]. split; vm_compute; reflexivity.
Qed.

(* a list column inferred from empty arrays only, then a non-empty array: nil pointer dereference *)
Theorem json_pinned_nil_element_refuted :
  exists fields obj p, exec_json_row false fields obj = Panic p.
Proof.
  exists [(k_a, JList None)], [(k_a, JVArr [JVNum one_bits])], p_nil_element. vm_compute. reflexivity.
Qed.

(* a key absent from a previewed row is typed without NULL, and that row holds a NULL *)
Theorem json_pinned_missing_key_refuted :
  exists rows fs r vs, infer_json false rows = Ok fs /\ In r (firstn 100 rows) /\
    exec_json_row false (jschema fs) r = Ok vs /\
    all2 (fun v f => has_jtype (snd f) v) vs (jschema fs) = false.
Proof.
  exists [[(k_a, JVNum one_bits)]; [(k_b, JVNum one_bits)]],
         [(k_a, FPrim t_float); (k_b, FPrim t_float)], [(k_a, JVNum one_bits)], [VFloat one_bits; VNull].
  split. vm_compute. reflexivity. split. simpl. auto. split; vm_compute; reflexivity.
Qed.

(* the same file after the fixes: both keys are nullable and both rows are produced with matching values *)
Example json_fixed_missing_key :
  let rows := [[(k_a, JVNum one_bits)]; [(k_b, JVNum one_bits)]] in
  infer_json true rows = Ok [(k_a, FUnion [t_null; t_float]); (k_b, FUnion [t_null; t_float])] /\
  exec_json_row true (jschema [(k_a, FUnion [t_null; t_float]); (k_b, FUnion [t_null; t_float])]) [(k_a, JVNum one_bits)]
    = Ok [VFloat one_bits; VNull].
Proof. split; vm_compute; reflexivity. Qed.

(* with the pinned switch an explicit JSON null is never ok, so making `ok` an error needs the Null case *)
Theorem json_pinned_null_not_ok :
  get_value false (JUnion [JNull; JFloat]) (Some JVNull) = Ok (VNull, false) /\
  get_value true (JUnion [JNull; JFloat]) (Some JVNull) = Ok (VNull, true).
Proof. split; vm_compute; reflexivity. Qed.
