(* Proofs/JoinDeliveryProofs.v — an error sent by a producer of a join is always delivered, or Run has already returned. *)
From Octo Require Import Base JoinDelivery ConcurrencyProofs.
Open Scope nat_scope.

(* once a failing side has left its source (sent the error), the error message is still in its channel, or the
   receive loop has returned; and in the second phase the other side is closed and drained *)
Definition DInv (p : nparams) (s : nstate) : Prop :=
  (forall d, np_err p d = true -> p_pc (nget s d) <> PSend -> In MErr (p_ch (nget s d)) \/ n_m s = MRet) /\
  (forall e, n_m s = MOnly e -> p_closed (nget s (other e)) = true /\ p_ch (nget s (other e)) = []).

Lemma dinv_init : forall p, DInv p ninit.
Proof. intros p. split; [intros d _ H; destruct d; simpl in H; congruence | intros e H; discriminate]. Qed.

Ltac inv_some := match goal with H : Some _ = Some _ |- _ => inversion H; subst; clear H end.

Lemma dinv_step : forall p s l s', NInv p s -> DInv p s -> nstep p s l = Some s' -> DInv p s'.
Proof.
  intros p s l s' HN [H1 H2] Hs.
  destruct s as [xl xr m a]. destruct HN as [(_ & Lc & _) (_ & Rc & _)]. simpl in Lc, Rc.
  destruct l as [d|d|d|d|d]; simpl in Hs.
  - (* NSend *)
    destruct d; simpl in Hs.
    + destruct (p_pc xl) eqn:Epc; try discriminate.
      match type of Hs with (if ?c then _ else _) = _ => destruct c eqn:E; try discriminate end. inv_some.
      split.
      * intros d He Hp. destruct d; simpl in *; [congruence|]. apply (H1 SR He Hp).
      * intros e Hm. simpl in Hm. subst m. destruct (H2 e eq_refl) as [Hc Hch]. destruct e; simpl in *; auto.
        apply Lc in Hc. congruence.
    + destruct (p_pc xr) eqn:Epc; try discriminate.
      match type of Hs with (if ?c then _ else _) = _ => destruct c eqn:E; try discriminate end. inv_some.
      split.
      * intros d He Hp. destruct d; simpl in *; [apply (H1 SL He Hp)|congruence].
      * intros e Hm. simpl in Hm. subst m. destruct (H2 e eq_refl) as [Hc Hch]. destruct e; simpl in *; auto.
        apply Rc in Hc. congruence.
  - (* NErr *)
    destruct d; simpl in Hs.
    + destruct (p_pc xl) eqn:Epc; try discriminate.
      match type of Hs with (if ?c then _ else _) = _ => destruct c eqn:E; try discriminate end. inv_some.
      split.
      * intros d He Hp. destruct d; simpl in *; [left; apply in_or_app; right; left; reflexivity | apply (H1 SR He Hp)].
      * intros e Hm. simpl in Hm. subst m. destruct (H2 e eq_refl) as [Hc Hch]. destruct e; simpl in *; auto.
        apply Lc in Hc. congruence.
    + destruct (p_pc xr) eqn:Epc; try discriminate.
      match type of Hs with (if ?c then _ else _) = _ => destruct c eqn:E; try discriminate end. inv_some.
      split.
      * intros d He Hp. destruct d; simpl in *; [apply (H1 SL He Hp) | left; apply in_or_app; right; left; reflexivity].
      * intros e Hm. simpl in Hm. subst m. destruct (H2 e eq_refl) as [Hc Hch]. destruct e; simpl in *; auto.
        apply Rc in Hc. congruence.
  - (* NClose *)
    destruct d; simpl in Hs.
    + destruct (p_pc xl) eqn:Epc; try discriminate.
      * match type of Hs with (if ?c then _ else _) = _ => destruct c eqn:E; try discriminate end. inv_some.
        apply andb_true_iff in E. destruct E as [_ E]. apply negb_true_iff in E.
        split.
        -- intros d He Hp. destruct d; simpl in *; [congruence | apply (H1 SR He Hp)].
        -- intros e Hm. simpl in Hm. subst m. destruct (H2 e eq_refl) as [Hc Hch]. destruct e; simpl in *; auto.
      * inv_some. split.
        -- intros d He Hp. destruct d; simpl in *; [apply (H1 SL He); simpl; congruence | apply (H1 SR He Hp)].
        -- intros e Hm. simpl in Hm. subst m. destruct (H2 e eq_refl) as [Hc Hch]. destruct e; simpl in *; auto.
    + destruct (p_pc xr) eqn:Epc; try discriminate.
      * match type of Hs with (if ?c then _ else _) = _ => destruct c eqn:E; try discriminate end. inv_some.
        apply andb_true_iff in E. destruct E as [_ E]. apply negb_true_iff in E.
        split.
        -- intros d He Hp. destruct d; simpl in *; [apply (H1 SL He Hp) | congruence].
        -- intros e Hm. simpl in Hm. subst m. destruct (H2 e eq_refl) as [Hc Hch]. destruct e; simpl in *; auto.
      * inv_some. split.
        -- intros d He Hp. destruct d; simpl in *; [apply (H1 SL He Hp) | apply (H1 SR He); simpl; congruence].
        -- intros e Hm. simpl in Hm. subst m. destruct (H2 e eq_refl) as [Hc Hch]. destruct e; simpl in *; auto.
  - (* NRecv *)
    destruct (listens m d) eqn:El; try discriminate.
    destruct d; simpl in Hs.
    + destruct (p_ch xl) as [|[|] rest] eqn:Ech; try discriminate; inv_some.
      * (* MData *)
        assert (Hm' : forall m', (m' = m \/ m' = MRet) ->
                  DInv p (mknstate (mkprod (p_sent xl) (p_pc xl) rest (p_closed xl)) xr m' (S a)) /\
                  DInv p (mknstate (mkprod (p_sent xl) (p_pc xl) rest (p_closed xl)) xr m' a)).
        { intros m' Hm'. assert (Hg : forall a', DInv p (mknstate (mkprod (p_sent xl) (p_pc xl) rest (p_closed xl)) xr m' a')).
          { intros a'. split.
            - intros d He Hp. destruct d; simpl in *.
              + destruct (H1 SL He Hp) as [Hin|Hr]; simpl in *.
                * rewrite Ech in Hin. destruct Hin as [Hin|Hin]; [discriminate|]. left; exact Hin.
                * right. destruct Hm'; congruence.
              + destruct (H1 SR He Hp) as [Hin|Hr]; simpl in *; [left; exact Hin | right; destruct Hm'; congruence].
            - intros e Hm. simpl in Hm. destruct Hm' as [Hm'|Hm']; [|congruence]. subst m'. subst m.
              destruct (H2 e eq_refl) as [Hc Hch]. destruct e; simpl in *; auto. discriminate. }
          split; apply Hg. }
        unfold act. simpl. destruct (np_fail p) as [k|].
        -- destruct (k =? a); [apply (Hm' MRet); auto | apply (Hm' m); auto].
        -- apply (Hm' m); auto.
      * (* MErr *)
        split; [intros d He Hp; right; reflexivity | intros e Hm; discriminate].
    + destruct (p_ch xr) as [|[|] rest] eqn:Ech; try discriminate; inv_some.
      * assert (Hg : forall m' a', (m' = m \/ m' = MRet) ->
                  DInv p (mknstate xl (mkprod (p_sent xr) (p_pc xr) rest (p_closed xr)) m' a')).
        { intros m' a' Hm'. split.
          - intros d He Hp. destruct d; simpl in *.
            + destruct (H1 SL He Hp) as [Hin|Hr]; simpl in *; [left; exact Hin | right; destruct Hm'; congruence].
            + destruct (H1 SR He Hp) as [Hin|Hr]; simpl in *.
              * rewrite Ech in Hin. destruct Hin as [Hin|Hin]; [discriminate|]. left; exact Hin.
              * right. destruct Hm'; congruence.
          - intros e Hm. simpl in Hm. destruct Hm' as [Hm'|Hm']; [|congruence]. subst m'. subst m.
            destruct (H2 e eq_refl) as [Hc Hch]. destruct e; simpl in *; auto. discriminate. }
        unfold act. simpl. destruct (np_fail p) as [k|].
        -- destruct (k =? a); apply Hg; auto.
        -- apply Hg; auto.
      * split; [intros d He Hp; right; reflexivity | intros e Hm; discriminate].
  - (* NClosed *)
    destruct (listens m d && p_closed (nget (mknstate xl xr m a) d)) eqn:El; try discriminate.
    apply andb_true_iff in El. destruct El as [El Ecl].
    destruct (p_ch (nget (mknstate xl xr m a) d)) eqn:Ech; try discriminate.
    destruct m as [|e|]; try discriminate.
    + (* MBoth: phase switch *)
      inv_some. unfold act. simpl.
      assert (Hg : forall m' a', (m' = MOnly (other d) \/ m' = MRet) -> DInv p (mknstate xl xr m' a')).
      { intros m' a' Hm'. split.
        - intros d0 He Hp. destruct (H1 d0 He Hp) as [Hin|Hr]; [left; exact Hin | discriminate].
        - intros e Hm. simpl in Hm. destruct Hm' as [Hm'|Hm']; [|congruence]. subst m'. inversion Hm; subst e.
          destruct d; simpl in *; auto. }
      destruct (np_fail p) as [k|]; [destruct (k =? a)|]; apply Hg; auto.
    + (* MOnly: return *)
      inv_some. split; [intros d0 He Hp; right; reflexivity | intros e0 Hm; discriminate].
Qed.

Lemma dinv_reach : forall p s, nreach p s -> DInv p s.
Proof.
  intros p s R. induction R; [apply dinv_init|].
  eapply dinv_step; eauto. apply ninv_reach; assumption.
Qed.

(* Run cannot return through its final flush (the only nil return) when the source of either side failed *)
Theorem join_no_nil_return_when_a_source_failed : forall p s l s',
  nreach p s -> nstep p s l = Some s' -> nil_return_step s l = true ->
  np_errl p = false /\ np_errr p = false.
Proof.
  intros p s l s' R Hs Hn. pose proof (dinv_reach p s R) as [H1 H2]. pose proof (ninv_reach p s R) as HN.
  destruct s as [xl xr m a]. destruct HN as [(_ & Lc & _) (_ & Rc & _)]. simpl in Lc, Rc.
  unfold nil_return_step in Hn. destruct l as [d|d|d|d|d]; try discriminate. simpl in Hn.
  destruct m as [|e|]; try discriminate. simpl in Hs.
  match type of Hs with (if ?c then _ else _) = _ => destruct c eqn:El; try discriminate end.
  apply andb_true_iff in El. destruct El as [El Ecl].
  destruct (p_ch (nget (mknstate xl xr (MOnly e) a) d)) eqn:Ech; try discriminate.
  destruct (H2 e eq_refl) as [Hoc Hoch].
  assert (Hside : forall d0, p_closed (nget (mknstate xl xr (MOnly e) a) d0) = true ->
                             p_ch (nget (mknstate xl xr (MOnly e) a) d0) = [] -> np_err p d0 = false).
  { intros d0 Hc Hch. destruct (np_err p d0) eqn:He; [|reflexivity].
    assert (Hp : p_pc (nget (mknstate xl xr (MOnly e) a) d0) <> PSend).
    { destruct d0; simpl in *; [apply Lc in Hc | apply Rc in Hc]; congruence. }
    destruct (H1 d0 He Hp) as [Hin|Hr]; [rewrite Hch in Hin; contradiction | discriminate]. }
  assert (Hd : e = d). { destruct e, d; simpl in El; congruence. } subst e.
  pose proof (Hside d Ecl Ech) as Hd1. pose proof (Hside (other d) Hoc Hoch) as Hd2.
  destruct d; unfold np_err, other in Hd1, Hd2; split; assumption.
Qed.

(* every complete run from the initial state: if a source failed, the last step of the receive loop was not the nil return *)
Corollary join_run_returns_error : forall p tr s l s',
  nrun p ninit tr = Some s -> nstep p s l = Some s' -> (np_errl p = true \/ np_errr p = true) ->
  nil_return_step s l = false.
Proof.
  intros p tr s l s' Hr Hs He. destruct (nil_return_step s l) eqn:E; [|reflexivity].
  assert (R : nreach p s) by (eapply nrun_reach; [apply nreach_init | exact Hr]).
  destruct (join_no_nil_return_when_a_source_failed p s l s' R Hs E) as [A B].
  destruct He; congruence.
Qed.

(* with the non-blocking send of the seeded variant the error is lost: a failing left source, and Run returns nil *)
Lemma nonblocking_send_loses_the_error :
  exists p tr s l s', np_errl p = true /\ drun p ninit tr = Some s /\ dstep p s (DStd l) = Some s' /\
                      nil_return_step s l = true /\ n_m s' = MRet.
Proof.
  exists (mknparams 1 0 true false 1 None),
         [DStd (NSend SL); DDrop SL; DStd (NClose SL); DStd (NClose SR); DStd (NClosed SR); DStd (NRecv SL)].
  eexists. exists (NClosed SL). eexists. vm_compute. repeat split; reflexivity.
Qed.
