(* Proofs/PluginsRoundtrip.v — String() of a version parses back to the same version (C28, used by C27). *)
From Octo Require Import Plugins PluginsProofs.
Local Arguments bytes_eqb : simpl never.

(* ---------------- decimal numbers ---------------- *)
Lemma digits_val_app : forall a b acc, digits_val acc (a ++ b) = digits_val (digits_val acc a) b.
Proof. induction a as [|c a IH]; intros; simpl; [reflexivity|apply IH]. Qed.

Lemma digits_val_shift : forall ds a, digits_val a ds = a * 10 ^ Z.of_nat (length ds) + digits_val 0 ds.
Proof.
  induction ds as [|c ds IH]; intro a; [simpl; lia|].
  cbn [digits_val length]. rewrite IH. rewrite (IH (0 * 10 + (c - 48))).
  rewrite Nat2Z.inj_succ, Z.pow_succ_r by lia. ring.
Qed.

Lemma dec_fuel_spec : forall fuel n acc, 0 <= n < 10 ^ Z.of_nat fuel -> (0 < fuel)%nat ->
  exists ds, dec_fuel fuel n acc = ds ++ acc /\ forallb is_digit ds = true /\ ds <> [] /\ digits_val 0 ds = n.
Proof.
  induction fuel as [|f IH]; intros n acc Hn Hf; [lia|].
  cbn [dec_fuel]. assert (M : 0 <= n mod 10 < 10) by (apply Z.mod_pos_bound; lia).
  assert (N0 : 0 <= n) by (apply Hn).
  destruct (Z.ltb_spec n 10).
  - exists [48 + n mod 10]. rewrite Z.mod_small by (split; assumption). split; [reflexivity|]. split.
    + cbn [forallb]. unfold is_digit. rewrite andb_true_r. apply andb_true_iff. split; apply Z.leb_le; clear - N0 H; lia.
    + split; [discriminate|]. cbn [digits_val]. clear - N0 H; lia.
  - assert (F : (0 < f)%nat).
    { destruct f; [|lia]. simpl in Hn. lia. }
    assert (Q : 0 <= n / 10 < 10 ^ Z.of_nat f).
    { rewrite Nat2Z.inj_succ, Z.pow_succ_r in Hn by lia. split; [apply Z.div_pos; lia|apply Z.div_lt_upper_bound; lia]. }
    destruct (IH (n / 10) ((48 + n mod 10) :: acc) Q F) as (ds & E & D & NE & V).
    exists (ds ++ [48 + n mod 10]). rewrite E. rewrite <- app_assoc. split; [reflexivity|]. split.
    + rewrite forallb_app. rewrite D. cbn [forallb andb]. unfold is_digit. rewrite andb_true_r. apply andb_true_iff. split; apply Z.leb_le; clear - M; lia.
    + split; [destruct ds; discriminate|]. rewrite digits_val_app. rewrite V. cbn [digits_val].
      pose proof (Z.div_mod n 10). clear - H0 M. lia.
Qed.

Lemma dec_spec : forall n, 0 <= n < two63 ->
  forallb is_digit (dec n) = true /\ dec n <> [] /\ digits_val 0 (dec n) = n.
Proof.
  intros n H. unfold dec.
  destruct (dec_fuel_spec 20 n []) as (ds & E & D & NE & V); [unfold two63 in H; simpl; lia|lia|].
  rewrite E, app_nil_r. auto.
Qed.

Lemma parse_int63_dec : forall n, 0 <= n < two63 -> parse_int63 (dec n) = Some n.
Proof.
  intros n H. destruct (dec_spec n H) as (D & NE & V). unfold parse_int63.
  destruct (dec n) as [|c t] eqn:E; [congruence|]. rewrite D, V.
  destruct (Z.ltb_spec n two63); [reflexivity|lia].
Qed.

Lemma span_digits_stop : forall ds r, forallb is_digit ds = true ->
  match r with [] => True | c :: _ => is_digit c = false end ->
  span_digits (ds ++ r) = (ds, r).
Proof.
  induction ds as [|c ds IH]; intros r D Hr.
  - destruct r as [|c r]; [reflexivity|]. cbn [app span_digits]. cbn beta iota in Hr. rewrite Hr. reflexivity.
  - cbn [forallb] in D. apply andb_true_iff in D. destruct D as [D1 D2]. cbn [app span_digits]. rewrite D1. rewrite (IH r D2 Hr). reflexivity.
Qed.

(* ---------------- identifiers ---------------- *)
Lemma ident_char_not : forall c, ident_char c = true -> c <> 46 /\ c <> 43.
Proof.
  intros c H. unfold ident_char, is_digit in H.
  repeat (apply orb_true_iff in H; destruct H as [H|H]);
    try (apply andb_true_iff in H; destruct H as [H1 H2]; apply Z.leb_le in H1; apply Z.leb_le in H2; lia).
  apply Z.eqb_eq in H. lia.
Qed.

Definition clean (sep : Z) (s : bytes) : Prop := Forall (fun c => c <> sep) s.

Lemma valid_ident_clean : forall p, valid_ident p = true -> clean 46 p /\ clean 43 p /\ p <> [].
Proof.
  intros p H. unfold valid_ident in H. apply andb_true_iff in H. destruct H as [H1 H2].
  rewrite forallb_forall in H2. repeat split.
  - apply Forall_forall. intros c Hc. apply (ident_char_not c (H2 c Hc)).
  - apply Forall_forall. intros c Hc. apply (ident_char_not c (H2 c Hc)).
  - destruct p; [discriminate|discriminate].
Qed.

Lemma split_clean : forall sep s, clean sep s -> split_on sep s = [s].
Proof.
  induction s as [|c s IH]; intro H; [reflexivity|]. inversion H; subst. simpl.
  destruct (Z.eqb_spec c sep); [contradiction|]. rewrite (IH H3). reflexivity.
Qed.

Lemma split_app : forall sep a r, clean sep a -> split_on sep (a ++ sep :: r) = a :: split_on sep r.
Proof.
  induction a as [|c a IH]; intros r H; simpl.
  - rewrite Z.eqb_refl. reflexivity.
  - inversion H; subst. destruct (Z.eqb_spec c sep); [contradiction|]. rewrite (IH r H3). reflexivity.
Qed.

Lemma split_join : forall l, l <> [] -> Forall (clean 46) l -> split_on 46 (join_with 46 l) = l.
Proof.
  induction l as [|x t IH]; intros Hne H; [congruence|]. inversion H; subst.
  destruct t as [|y t']; [simpl; apply split_clean; assumption|].
  change (join_with 46 (x :: y :: t')) with (x ++ 46 :: join_with 46 (y :: t')).
  rewrite split_app by assumption. f_equal. apply IH; [discriminate|assumption].
Qed.

Lemma join_clean43 : forall l, Forall (clean 43) l -> clean 43 (join_with 46 l).
Proof.
  induction l as [|x t IH]; intro H; [constructor|]. inversion H; subst.
  destruct t as [|y t']; [simpl; assumption|].
  change (join_with 46 (x :: y :: t')) with (x ++ 46 :: join_with 46 (y :: t')).
  unfold clean. apply Forall_app. split; [assumption|]. constructor; [lia|apply IH; assumption].
Qed.

Lemma cut_clean : forall a, clean 43 a -> cut_at 43 a = (a, None).
Proof.
  induction a as [|c a IH]; intro H; [reflexivity|]. inversion H; subst. simpl.
  destruct (Z.eqb_spec c 43); [contradiction|]. rewrite (IH H3). reflexivity.
Qed.
Lemma cut_app : forall a m, clean 43 a -> cut_at 43 (a ++ 43 :: m) = (a, Some m).
Proof.
  induction a as [|c a IH]; intros m H; simpl; [reflexivity|]. inversion H; subst.
  destruct (Z.eqb_spec c 43); [contradiction|]. rewrite (IH m H3). reflexivity.
Qed.

(* ---------------- the round trip ---------------- *)
Definition wf_version (v : version) : Prop :=
  0 <= vmaj v < two63 /\ 0 <= vmin v < two63 /\ 0 <= vpat v < two63 /\
  forallb valid_ident (vpre v) = true /\ (vmeta v = [] \/ valid_dotted (vmeta v) = true).

Definition tail_text (v : version) : bytes :=
  (match vpre v with [] => [] | p => 45 :: join_with 46 p end) ++ (match vmeta v with [] => [] | m => 43 :: m end).

Lemma tail_start : forall v, match tail_text v with [] => True | c :: _ => is_digit c = false end.
Proof. intro v. unfold tail_text. destruct (vpre v); [destruct (vmeta v); simpl; auto|simpl; reflexivity]. Qed.

Lemma parse_tail_text : forall v, wf_version v ->
  parse_tail (vmaj v) (vmin v) (vpat v) (tail_text v) = Some v.
Proof.
  intros [ma mi pa pre meta] (_ & _ & _ & Hp & Hm). unfold tail_text. cbn [vmaj vmin vpat vpre vmeta] in *.
  assert (PC : Forall (clean 46) pre /\ Forall (clean 43) pre).
  { rewrite forallb_forall in Hp. split; apply Forall_forall; intros x Hx; apply (valid_ident_clean x (Hp x Hx)). }
  destruct PC as [P46 P43].
  destruct pre as [|x pre'].
  - destruct meta as [|c m]; [reflexivity|]. cbn [app parse_tail]. destruct Hm as [Hm|Hm]; [discriminate|]. rewrite Hm. reflexivity.
  - set (pre := x :: pre') in *.
    assert (SJ : split_on 46 (join_with 46 pre) = pre) by (apply split_join; [discriminate|assumption]).
    assert (VD : valid_dotted (join_with 46 pre) = true) by (unfold valid_dotted; rewrite SJ; exact Hp).
    destruct meta as [|c m].
    + rewrite app_nil_r. change (match pre with [] => [] | _ :: _ => 45 :: join_with 46 pre end) with (45 :: join_with 46 pre). cbn [parse_tail]. rewrite (cut_clean _ (join_clean43 pre P43)). rewrite VD, SJ. reflexivity.
    + change ((45 :: join_with 46 pre) ++ 43 :: c :: m) with (45 :: (join_with 46 pre ++ 43 :: c :: m)).
      cbn [parse_tail]. rewrite (cut_app _ (c :: m) (join_clean43 pre P43)). rewrite VD.
      destruct Hm as [Hm|Hm]; [discriminate|]. rewrite Hm, SJ. reflexivity.
Qed.

Lemma print_shape : forall v, print_version v = dec (vmaj v) ++ 46 :: dec (vmin v) ++ 46 :: dec (vpat v) ++ tail_text v.
Proof. intro v. reflexivity. Qed.

Theorem parse_print : forall v, wf_version v -> parse_version (print_version v) = Some v.
Proof.
  intros v W. pose proof W as (H1 & H2 & H3 & _). rewrite print_shape.
  destruct (dec_spec _ H1) as (D1 & N1 & _). destruct (dec_spec _ H2) as (D2 & N2 & _). destruct (dec_spec _ H3) as (D3 & N3 & _).
  assert (HD : exists c t, dec (vmaj v) = c :: t /\ is_digit c = true).
  { destruct (dec (vmaj v)) as [|c t]; [congruence|]. cbn [forallb] in D1. apply andb_true_iff in D1. exists c, t. tauto. }
  destruct HD as (c & t & E & Dc).
  set (s := dec (vmaj v) ++ 46 :: dec (vmin v) ++ 46 :: dec (vpat v) ++ tail_text v).
  unfold parse_version. cbv zeta.
  match goal with |- context [span_digits ?X] => replace X with s end.
  2:{ assert (Es : s = c :: (t ++ 46 :: dec (vmin v) ++ 46 :: dec (vpat v) ++ tail_text v)) by (unfold s; rewrite E; reflexivity).
      rewrite Es. destruct (Z.eqb_spec c 118) as [e|n]; [subst; discriminate Dc|].
      destruct c as [|p|p]; try reflexivity. repeat (destruct p as [p|p|]; try reflexivity). exfalso. apply n. reflexivity. }
  unfold s.
  rewrite span_digits_stop by (auto; reflexivity).
  rewrite E. rewrite <- E. rewrite parse_int63_dec by exact H1.
  unfold opt_segment at 1. rewrite span_digits_stop by (auto; reflexivity).
  destruct (dec (vmin v)) as [|c2 t2] eqn:E2; [congruence|]. rewrite <- E2. rewrite parse_int63_dec by exact H2.
  unfold opt_segment. rewrite span_digits_stop by (auto; apply tail_start).
  destruct (dec (vpat v)) as [|c3 t3] eqn:E3; [congruence|]. rewrite <- E3. rewrite parse_int63_dec by exact H3.
  apply parse_tail_text. exact W.
Qed.

(* the version directories Install creates (String() of the versions) are listed as exactly those versions *)
Lemma parse_versions_print : forall vs, Forall wf_version vs -> parse_versions (map print_version vs) = Ok vs.
Proof.
  induction vs as [|v vs IH]; intro H; [reflexivity|]. inversion H; subst.
  cbn [map parse_versions]. rewrite (parse_print v) by assumption. rewrite (IH H3). reflexivity.
Qed.

Lemma wf_version_example : wf_version (mkV 1 2 0 [[114;99]; [49]] [98;53]) /\ wf_version (mkV 0 0 0 [] []).
Proof.
  split; unfold wf_version, two63; cbn [vmaj vmin vpat vpre vmeta].
  - split; [lia|]. split; [lia|]. split; [lia|]. split; [reflexivity|right; reflexivity].
  - split; [lia|]. split; [lia|]. split; [lia|]. split; [reflexivity|left; reflexivity].
Qed.
