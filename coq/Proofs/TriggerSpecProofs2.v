(* Proofs/TriggerSpecProofs2.v — C17, second part: ON WATERMARK soundness read on the node's emitted
   list, the two group-by implementations agree, forwarded watermarks. *)
From Octo Require Import GroupBy TriggerProofs GroupByProofs TriggerSpecProofs CompareLaws ChangelogLemmas.

Section NodeSound.
  Variable ST : Type.
  Variable rinit : ST.
  Variable radd : bool -> list value -> ST -> ST.
  Variable rout : ST -> list value.
  Variable nk : nat.
  Variable kti : option nat.

  Notation keyf := (keyf nk).
  Notation aggs_upd := (aggs_upd ST rinit radd nk).
  Notation emit_key := (emit_key ST rout kti).
  Notation emit_keys := (emit_keys ST rout kti).
  Notation ctg_step := (ctg_step ST rinit radd rout wless nk kti).
  Notation ctg_run_from := (ctg_run_from ST rinit radd rout wless nk kti).
  Notation ctg_init := (ctg_init ST kti).
  Notation st_aggs := (st_aggs ST).
  Notation st_sent := (st_sent ST).
  Notation st_trigs := (st_trigs ST).
  Let idx := match kti with Some i => i | None => O end.

  (* every row recorded as sent starts with the key it is recorded under *)
  Definition sent_shape (sent : sent_map) : Prop := forall e, In e sent -> exists o, fst (snd e) = fst e ++ o.

  (* record x is a row of key k: its values are a representation of k followed by aggregate columns *)
  Definition row_of_key (x : rec) (k : gkey) : Prop := exists k' o, geq k k' = true /\ vals x = k' ++ o.

  Lemma emit_key_rows aggs cur sent k sent' o : sent_shape sent -> emit_key aggs cur sent k = (sent', o) ->
    sent_shape sent' /\ forall x, In (Rec x) o -> row_of_key x k.
  Proof.
    intros SH H. unfold GroupBy.emit_key, out_row in H.
    assert (DEL : sent_shape (m_del slices_less k sent)).
    { intros e He. apply (in_del slices_less) in He. apply SH. tauto. }
    assert (PUT : forall m row t, sent_shape m -> (exists o, row = k ++ o) -> sent_shape (m_put slices_less k (row, t) m)).
    { intros m row t Hm Hr e He. apply (in_put slices_less) in He. destruct He as [He|[He _]]; [subst; exact Hr | apply Hm; exact He]. }
    assert (OLD : forall e, m_get slices_less k sent = Some e -> row_of_key (mkrec (fst (snd e)) true (new_time kti cur (out_row ST rout aggs k))) k).
    { intros e G. apply (get_some slices_less) in G. destruct G as [Hin G]. destruct (SH e Hin) as [oo Ho].
      exists (fst e), oo. split; [exact G | exact Ho]. }
    unfold out_row in OLD.
    destruct (m_get slices_less k aggs) as [a|] eqn:GA; destruct (m_get slices_less k sent) as [e|] eqn:GS; inversion H; subst; clear H.
    - split; [apply PUT; [exact DEL | eauto]|]. intros x [Hx|[Hx|[]]]; inversion Hx; subst.
      + apply (OLD e eq_refl).
      + exists k, (rout (fst (snd a))). split; [apply geq_refl | reflexivity].
    - split; [apply PUT; [exact SH | eauto]|]. intros x [Hx|[]]; inversion Hx; subst.
      exists k, (rout (fst (snd a))). split; [apply geq_refl | reflexivity].
    - split; [exact DEL|]. intros x [Hx|[]]; inversion Hx; subst. apply (OLD e eq_refl).
    - split; [exact SH|]. intros x [].
  Qed.

  Lemma emit_keys_rows aggs cur : forall ks sent sent' o, sent_shape sent -> emit_keys aggs cur sent ks = (sent', o) ->
    sent_shape sent' /\ forall x, In (Rec x) o -> exists k, In k ks /\ row_of_key x k.
  Proof.
    induction ks as [|k r IH]; simpl; intros sent sent' o SH H.
    - inversion H; subst. split; [exact SH | intros x []].
    - destruct (emit_key aggs cur sent k) as [s1 o1] eqn:E1. destruct (emit_keys aggs cur s1 r) as [s2 o2] eqn:E2.
      inversion H; subst; clear H. destruct (emit_key_rows _ _ _ _ _ _ SH E1) as [SH1 R1].
      destruct (IH _ _ _ SH1 E2) as [SH2 R2]. split; [exact SH2|].
      intros x Hx. apply in_app_or in Hx. destruct Hx as [Hx|Hx].
      + exists k. split; [left; reflexivity | apply R1; exact Hx].
      + destruct (R2 x Hx) as [k' [H1 H2]]. exists k'. split; [right; exact H1 | exact H2].
  Qed.

  Lemma mt_poll_from : forall ts ks ts' k, mt_poll wless ts = (ks, ts') -> In k ks ->
    exists t, In t ts /\ In k (fst (t_poll wless t)).
  Proof.
    induction ts as [|t r IH]; simpl; intros ks ts' k H Hk.
    - inversion H; subst. destruct Hk.
    - destruct (t_poll wless t) as [o t1] eqn:P. destruct (mt_poll wless r) as [o2 r'] eqn:R.
      inversion H; subst; clear H. apply in_app_or in Hk. destruct Hk as [Hk|Hk].
      + exists t. split; [left; reflexivity | rewrite P; exact Hk].
      + destruct (IH _ _ k eq_refl Hk) as [t' [H1 H2]]. exists t'. split; [right; exact H1 | exact H2].
  Qed.

  (* the watermark every ON WATERMARK trigger of the state holds = the last watermark received *)
  Definition t_wm_is (W : Z) (t : tstate) : Prop := match t with SWm _ _ _ wm => wm = W | _ => True end.
  Definition last_wm (es : list event) : Z := last (watermarks es) zero_ns.

  Lemma wm_is_key W k t : t_wm_is W t -> t_wm_is W (t_key wless k t).
  Proof.
    destruct t; simpl; auto.
    destruct (m_get slices_less k counts) as [[sk c0]|]; match goal with |- context [if ?b then _ else _] => destruct b end; auto.
  Qed.
  Lemma wm_is_poll W t o t' : t_poll wless t = (o, t') -> t_wm_is W t -> t_wm_is W t'.
  Proof. destruct t; simpl; intro H; inversion H; subst; auto. Qed.
  Lemma wm_is_set W w t : t_wm_is W t -> t_wm_is w (t_wm w t).
  Proof. destruct t; simpl; auto. Qed.

  Lemma F_poll (P : tstate -> Prop) : (forall t o t', t_poll wless t = (o, t') -> P t -> P t') ->
    forall ts ks ts', mt_poll wless ts = (ks, ts') -> Forall P ts -> Forall P ts'.
  Proof.
    intros HP ts ks ts' H F. pose proof (mt_poll_spec _ _ _ H) as F2. clear H.
    induction F2 as [|t t' l l' [o [Pt _]] _ IH]; [constructor|].
    inversion F; subst. constructor; [apply (HP t o t' Pt); assumption | apply IH; assumption].
  Qed.

  (* what holds of every state CustomTriggerGroupBy.Run reaches after the delivered events es *)
  Definition reach_inv (trigs : list tkind) (es : list event) (s : gst ST) : Prop :=
    ts_good kti trigs (st_trigs s) /\ sent_shape (st_sent s) /\ Forall (t_wm_is (last_wm es)) (st_trigs s).

  Lemma last_wm_rec es r : last_wm (es ++ [Rec r]) = last_wm es.
  Proof. unfold last_wm. rewrite watermarks_app. simpl. rewrite app_nil_r. reflexivity. Qed.
  Lemma last_wm_wm es w : last_wm (es ++ [WM w]) = w.
  Proof. unfold last_wm. rewrite watermarks_app. simpl. apply last_last. Qed.

  Lemma reach_step trigs es s e s' o : reach_inv trigs es s -> ctg_step s e = (s', o) -> reach_inv trigs (es ++ [e]) s'.
  Proof.
    intros [G [SH WI]] H. split; [apply (good_step ST rinit radd rout nk kti trigs s e s' o G H)|].
    destruct s as [[aggs sent] ts]. unfold GroupByProofs.st_trigs, GroupByProofs.st_sent in *. simpl in *. destruct e as [r|w].
    - destruct (mt_poll wless (mt_key wless (keyf r) ts)) as [ks ts'] eqn:P.
      destruct (emit_keys (aggs_upd r aggs) (et r) sent ks) as [sent' o'] eqn:E. inversion H; subst; clear H. simpl.
      split; [apply (proj1 (emit_keys_rows _ _ _ _ _ _ SH E))|]. rewrite last_wm_rec.
      apply (F_poll _ (wm_is_poll (last_wm es)) _ _ _ P). unfold mt_key. apply F_map; [apply wm_is_key | exact WI].
    - destruct (mt_poll wless (mt_wm w ts)) as [ks ts'] eqn:P.
      destruct (emit_keys aggs w sent ks) as [sent' o'] eqn:E. inversion H; subst; clear H. simpl.
      split; [apply (proj1 (emit_keys_rows _ _ _ _ _ _ SH E))|]. rewrite last_wm_wm.
      apply (F_poll _ (wm_is_poll w) _ _ _ P). unfold mt_wm.
      clear -WI. induction WI; simpl; constructor; [eapply wm_is_set; eassumption | assumption].
  Qed.

  Lemma reach_run trigs : forall es2 es1 s s' o, reach_inv trigs es1 s -> ctg_run_from s es2 = (s', o) -> reach_inv trigs (es1 ++ es2) s'.
  Proof.
    induction es2 as [|e rest IH]; intros es1 s s' o R H.
    - simpl in H. inversion H; subst. rewrite app_nil_r. exact R.
    - cbn [GroupBy.ctg_run_from] in H. destruct (ctg_step s e) as [s1 o1] eqn:S1.
      destruct (ctg_run_from s1 rest) as [s2 o2] eqn:S2. inversion H; subst.
      replace (es1 ++ e :: rest) with ((es1 ++ [e]) ++ rest) by (rewrite <- app_assoc; reflexivity).
      apply (IH _ _ _ _ (reach_step _ _ _ _ _ _ R S1) S2).
  Qed.

  Lemma reach_init trigs : reach_inv trigs [] (ctg_init trigs).
  Proof.
    split; [apply good_init|]. split; [intros e []|].
    unfold GroupByProofs.st_trigs, GroupBy.ctg_init, mt_init. simpl. apply Forall_forall. intros t Ht.
    apply in_map_iff in Ht. destruct Ht as [k [E _]]. subst. destruct k; simpl; auto.
  Qed.

  Lemma F2_in_r_shape trigs ts t : Forall2 (t_shape kti) trigs ts -> In t ts -> exists kd, t_shape kti kd t.
  Proof.
    induction 1 as [|a b l l' Rab F IH]; [intros []|]. intros [H|H]; [subst; eauto | apply IH; exact H].
  Qed.

  (* ON WATERMARK, soundness on the emitted list.  For every configuration, every delivered stream es and
     every further event e (a record or a watermark; i.e. before end of stream): every row the node emits
     while handling e is a row of a key k that some trigger's Poll of this very step returned, and
     - if that trigger is the ON WATERMARK trigger, k's time component is at or below the last watermark
       received (W itself when e = WM W: these are the rows that precede WM W in the output);
     - otherwise it is a COUNTING trigger (END OF STREAM returns nothing before the end).
     So no row of a key beyond the watermark is emitted unless a counting poll of the same step returned it. *)
  Theorem watermark_sound trigs es s o e s' o' x :
    ctg_run_from (ctg_init trigs) es = (s, o) -> ctg_step s e = (s', o') -> In (Rec x) o' ->
    exists k, row_of_key x k /\
      (fst (key_time idx k) <= last_wm (es ++ [e]) \/
       exists n counts fire, In (SCount n counts false fire)
                                (match e with Rec r => mt_key wless (keyf r) (st_trigs s) | WM w => mt_wm w (st_trigs s) end) /\
                             In k (fst (t_poll wless (SCount n counts false fire)))).
  Proof.
    intros R S1 Hx. pose proof (reach_run trigs es [] _ _ _ (reach_init trigs) R) as [[SHP OK] [SH WI]]. simpl in WI.
    destruct s as [[aggs sent] ts]. unfold GroupByProofs.st_trigs, GroupByProofs.st_sent in *. simpl in *.
    (* the trigger states right before Poll, with their invariants *)
    set (ts1 := match e with Rec r => mt_key wless (keyf r) ts | WM w => mt_wm w ts end).
    assert (SHP1 : Forall2 (t_shape kti) trigs ts1).
    { unfold ts1. destruct e; [unfold mt_key | unfold mt_wm]; apply F2_map; auto; intros a b; [apply shape_key | apply shape_wm]. }
    assert (OK1 : Forall t_ok ts1).
    { unfold ts1. destruct e; [unfold mt_key | unfold mt_wm]; apply F_map; auto; [apply t_key_ok | apply t_wm_ok]. }
    assert (WI1 : Forall (t_wm_is (last_wm (es ++ [e]))) ts1).
    { unfold ts1. destruct e as [r|w].
      - rewrite last_wm_rec. unfold mt_key. apply F_map; [apply wm_is_key | exact WI].
      - rewrite last_wm_wm. unfold mt_wm. clear -WI. induction WI; simpl; constructor; [eapply wm_is_set; eassumption | assumption]. }
    assert (EM : exists ks ts' aggs' cur sent', mt_poll wless ts1 = (ks, ts') /\ emit_keys aggs' cur sent ks = (sent', filter (fun ev => match ev with Rec _ => true | WM _ => false end) o')).
    { unfold ts1. destruct e as [r|w].
      - destruct (mt_poll wless (mt_key wless (keyf r) ts)) as [ks ts'] eqn:P.
        destruct (emit_keys (aggs_upd r aggs) (et r) sent ks) as [sent' oo] eqn:E. inversion S1; subst.
        exists ks, ts', (aggs_upd r aggs), (et r), sent'. split; [reflexivity|]. rewrite E. f_equal.
        pose proof (emit_keys_no_wm ST rout kti (aggs_upd r aggs) (et r) ks sent) as NW. rewrite E in NW. simpl in NW.
        clear -NW. induction o' as [|ev l IH]; simpl; [reflexivity|]. destruct ev; simpl in *; [f_equal; apply IH; exact NW | discriminate].
      - destruct (mt_poll wless (mt_wm w ts)) as [ks ts'] eqn:P.
        destruct (emit_keys aggs w sent ks) as [sent' oo] eqn:E. inversion S1; subst.
        exists ks, ts', aggs, w, sent'. split; [reflexivity|]. rewrite E. f_equal.
        pose proof (emit_keys_no_wm ST rout kti aggs w ks sent) as NW. rewrite E in NW. simpl in NW.
        rewrite filter_app. simpl. rewrite app_nil_r.
        clear -NW. induction oo as [|ev l IH]; simpl; [reflexivity|]. destruct ev; simpl in *; [f_equal; apply IH; exact NW | discriminate]. }
    destruct EM as [ks [ts' [aggs' [cur [sent' [P E]]]]]].
    assert (Hx' : In (Rec x) (filter (fun ev => match ev with Rec _ => true | WM _ => false end) o')) by (apply filter_In; auto).
    destruct (proj2 (emit_keys_rows _ _ _ _ _ _ SH E) x Hx') as [k [Hk RK]].
    exists k. split; [exact RK|].
    destruct (mt_poll_from _ _ _ k P Hk) as [t [Ht Pk]].
    destruct (F2_in_r_shape trigs ts1 t SHP1 Ht) as [kd Sk].
    rewrite Forall_forall in OK1, WI1. specialize (OK1 t Ht). specialize (WI1 t Ht).
    destruct t as [n counts eos fire | i tks eos wm | keys eos]; destruct kd; simpl in Sk; try contradiction; destruct eos; try contradiction.
    - right. exists n, counts, fire. split; [exact Ht | exact Pk].
    - left. subst i. simpl in WI1. subst wm.
      apply (wm_poll_sound idx tks _ _ _ OK1 (surjective_pairing _) k). exact Pk.
  Qed.
End NodeSound.

(* ---------- the two group-by implementations agree ---------- *)
Section TwoImpls.
  Variable ST : Type.
  Variable rinit : ST.
  Variable radd : bool -> list value -> ST -> ST.
  Variable rout : ST -> list value.
  Variable nk : nat.
  Variable kti : option nat.

  (* on the same delivered stream, with any non-empty trigger configuration, unconditionally *)
  Theorem two_impls_same_stream trigs es : trigs <> [] -> has_keys nk (records es) ->
    forall row, consolidate (records (ctg_run ST rinit radd rout wless nk kti trigs es)) row
                = consolidate (records (sgb_run ST rinit radd rout nk es)) row.
  Proof.
    intros NE HK row. rewrite (ctg_final ST rinit radd rout nk kti trigs es NE HK).
    rewrite (sgb_final ST rinit radd rout nk es HK). reflexivity.
  Qed.

  (* as the planner would wire them: CustomTriggerGroupBy sits behind its EventTimeBuffer *)
  Theorem two_impls na trigs inp : net_determined ST rinit radd rout nk na -> trigs <> [] ->
    has_arity nk na (records inp) -> pvalid (records inp) -> pvalid (records (etb_run_finish inp)) ->
    (forall r, In r (records inp) -> et r <= max_wm) ->
    forall row, consolidate (records (ctg_run ST rinit radd rout wless nk kti trigs (etb_run_finish inp))) row
                = consolidate (records (sgb_run ST rinit radd rout nk inp)) row.
  Proof.
    intros HR NE HA V VD T row.
    assert (HK : has_keys nk (records inp)) by (apply (has_arity_keys nk na); exact HA).
    assert (HA' : has_arity nk na (records (etb_run_finish inp))).
    { intros r Hr. apply HA. apply etb_no_invention. exact Hr. }
    rewrite (ctg_final ST rinit radd rout nk kti trigs _ NE (has_arity_keys nk na _ HA')).
    rewrite (sgb_final ST rinit radd rout nk inp HK).
    rewrite (bag_inc_group ST rinit radd rout nk na HR _ (has_arity_args nk na _ HA') VD).
    rewrite (bag_inc_group ST rinit radd rout nk na HR _ (has_arity_args nk na _ HA) V).
    apply (bag_group_consolidated ST rinit radd rout nk na HR);
      [apply has_arity_args; exact HA' | apply has_arity_args; exact HA | exact VD | exact V|].
    apply etb_consolidate. exact T.
  Qed.
End TwoImpls.
