(* Proofs/ExprProofs.v — C11: Kleene AND/OR/NOT for operand lists of any length, NULL propagation of Strict
   descriptors, IS [NOT] NULL total, Filter keeps exactly TRUE. *)
From Octo Require Import Expr.

(* ---------- small facts ---------- *)
Lemma tv_val_to_tv v : is_tv v = true -> tv_val (to_tv v) = v.
Proof. destruct v; try discriminate; simpl; auto. destruct b; reflexivity. Qed.

Lemma has_type_null_allows t : has_type VNull t = true -> allows_null t = true.
Proof.
  destruct t as [|ks]; simpl; auto. unfold allows_null, is_rel. simpl. intros H.
  unfold K_NULL. rewrite H. reflexivity.
Qed.

Lemma evals_map_ok ev l vs : evals ev l = Ok vs -> length vs = length l.
Proof.
  revert vs. induction l as [|x xs IH]; simpl; intros vs H.
  - inversion H; reflexivity.
  - destruct (ev x); try discriminate. simpl in H. destruct (evals ev xs) eqn:E; try discriminate.
    simpl in H. inversion H; subst. simpl. f_equal. apply IH; reflexivity.
Qed.

(* ---------- AND ---------- *)
Definition acc_tv (ne : bool) : tv := if ne then NN else TT.

Lemma and_loop_kleene ev l : forall vs ne,
  evals ev l = Ok vs -> Forall (fun v => is_tv v = true) vs ->
  and_loop ev l ne = Ok (tv_val (k_and (acc_tv ne) (kleene_and (map to_tv vs)))).
Proof.
  induction l as [|x xs IH]; simpl; intros vs ne H F.
  - inversion H; subst. destruct ne; reflexivity.
  - destruct (ev x) as [v| |] eqn:Ex; try discriminate. simpl in H.
    destruct (evals ev xs) as [vs'| |] eqn:Exs; try discriminate. simpl in H. inversion H; subst. clear H.
    inversion F as [|? ? Hv F']; subst. simpl.
    destruct v; try discriminate Hv; simpl.
    + rewrite (IH vs' true eq_refl F'). simpl. destruct ne; destruct (kleene_and (map to_tv vs')); reflexivity.
    + destruct b; simpl.
      * rewrite (IH vs' ne eq_refl F'). destruct ne; destruct (kleene_and (map to_tv vs')); reflexivity.
      * destruct ne; reflexivity.
Qed.

Lemma and_kleene ctx args vs :
  evals (eval ctx) args = Ok vs -> Forall (fun v => is_tv v = true) vs ->
  eval ctx (EAnd args) = Ok (tv_val (kleene_and (map to_tv vs))).
Proof.
  intros H F. simpl. rewrite (and_loop_kleene _ _ _ false H F). simpl.
  destruct (kleene_and (map to_tv vs)); reflexivity.
Qed.

(* short circuit: operands up to the first FALSE are evaluated and are TRUE or NULL; whatever follows
   (errors, panics, anything) is not evaluated *)
Lemma and_loop_short ev pre x post : forall vs ne,
  evals ev pre = Ok vs -> Forall (fun v => v = VNull \/ v = VBool true) vs -> ev x = Ok (VBool false) ->
  and_loop ev (pre ++ x :: post) ne = Ok (VBool false).
Proof.
  induction pre as [|p ps IH]; simpl; intros vs ne H F Hx.
  - rewrite Hx. reflexivity.
  - destruct (ev p) as [v| |] eqn:Ep; try discriminate. simpl in H.
    destruct (evals ev ps) as [vs'| |] eqn:Eps; try discriminate. simpl in H. inversion H; subst. clear H.
    inversion F as [|? ? Hv F']; subst. simpl.
    destruct Hv as [-> | ->]; simpl; eapply IH; eauto.
Qed.

(* ---------- OR ---------- *)
Definition acc_tv_or (ne : bool) : tv := if ne then NN else FF.

Lemma or_loop_kleene ev l : forall vs ne,
  evals ev l = Ok vs -> Forall (fun v => is_tv v = true) vs ->
  or_loop ev l ne = Ok (tv_val (k_or (acc_tv_or ne) (kleene_or (map to_tv vs)))).
Proof.
  induction l as [|x xs IH]; simpl; intros vs ne H F.
  - inversion H; subst. destruct ne; reflexivity.
  - destruct (ev x) as [v| |] eqn:Ex; try discriminate. simpl in H.
    destruct (evals ev xs) as [vs'| |] eqn:Exs; try discriminate. simpl in H. inversion H; subst. clear H.
    inversion F as [|? ? Hv F']; subst. simpl.
    destruct v; try discriminate Hv; simpl.
    + rewrite (IH vs' true eq_refl F'). simpl. destruct ne; destruct (kleene_or (map to_tv vs')); reflexivity.
    + destruct b; simpl.
      * destruct ne; reflexivity.
      * rewrite (IH vs' ne eq_refl F'). destruct ne; destruct (kleene_or (map to_tv vs')); reflexivity.
Qed.

Lemma or_kleene ctx args vs :
  evals (eval ctx) args = Ok vs -> Forall (fun v => is_tv v = true) vs ->
  eval ctx (EOr args) = Ok (tv_val (kleene_or (map to_tv vs))).
Proof.
  intros H F. simpl. rewrite (or_loop_kleene _ _ _ false H F). simpl.
  destruct (kleene_or (map to_tv vs)); reflexivity.
Qed.

Lemma or_loop_short ev pre x post : forall vs ne,
  evals ev pre = Ok vs -> Forall (fun v => v = VNull \/ v = VBool false) vs -> ev x = Ok (VBool true) ->
  or_loop ev (pre ++ x :: post) ne = Ok (VBool true).
Proof.
  induction pre as [|p ps IH]; simpl; intros vs ne H F Hx.
  - rewrite Hx. reflexivity.
  - destruct (ev p) as [v| |] eqn:Ep; try discriminate. simpl in H.
    destruct (evals ev ps) as [vs'| |] eqn:Eps; try discriminate. simpl in H. inversion H; subst. clear H.
    inversion F as [|? ? Hv F']; subst. simpl.
    destruct Hv as [-> | ->]; simpl; eapply IH; eauto.
Qed.

(* statements on physical expressions *)
Theorem pand_kleene orc t ctx args vs :
  pevals orc ctx args = Ok vs -> Forall (fun v => is_tv v = true) vs ->
  peval orc ctx (PAnd t args) = Ok (tv_val (kleene_and (map to_tv vs))).
Proof. intros. unfold peval. simpl materialize. apply and_kleene; assumption. Qed.

Theorem por_kleene orc t ctx args vs :
  pevals orc ctx args = Ok vs -> Forall (fun v => is_tv v = true) vs ->
  peval orc ctx (POr t args) = Ok (tv_val (kleene_or (map to_tv vs))).
Proof. intros. unfold peval. simpl materialize. apply or_kleene; assumption. Qed.

Theorem pand_short orc t ctx pre x post vs :
  pevals orc ctx pre = Ok vs -> Forall (fun v => v = VNull \/ v = VBool true) vs -> peval orc ctx x = Ok (VBool false) ->
  peval orc ctx (PAnd t (pre ++ x :: post)) = Ok (VBool false).
Proof.
  intros. unfold peval. simpl materialize. rewrite map_app. simpl map. simpl eval.
  eapply and_loop_short; eauto.
Qed.

Theorem por_short orc t ctx pre x post vs :
  pevals orc ctx pre = Ok vs -> Forall (fun v => v = VNull \/ v = VBool false) vs -> peval orc ctx x = Ok (VBool true) ->
  peval orc ctx (POr t (pre ++ x :: post)) = Ok (VBool true).
Proof.
  intros. unfold peval. simpl materialize. rewrite map_app. simpl map. simpl eval.
  eapply or_loop_short; eauto.
Qed.

(* ---------- null checks ---------- *)

(* a NULL among the arguments, every argument value allowed by its static type: the check of a Strict
   descriptor fires *)
Lemma null_check_hits : forall tys vs pre,
  Forall2 (fun v t => has_type v t = true) vs tys -> In VNull vs ->
  null_check (pre ++ vs) (null_indices_from (length pre) tys) = Ok true.
Proof.
  induction tys as [|t tys IH]; intros vs pre F Hin.
  - inversion F; subst. destruct Hin.
  - inversion F as [|v ? vs' ? Hv F']; subst. simpl.
    assert (Happ : pre ++ v :: vs' = (pre ++ [v]) ++ vs') by (rewrite <- app_assoc; reflexivity).
    assert (Hlen : S (length pre) = length (pre ++ [v])) by (rewrite app_length; simpl; lia).
    destruct (is_null v) eqn:Hn.
    + destruct v; try discriminate Hn.
      rewrite (has_type_null_allows _ Hv). simpl.
      rewrite nth_error_app2 by lia. rewrite Nat.sub_diag. simpl. reflexivity.
    + assert (Hin' : In VNull vs') by (destruct Hin as [E|]; [subst v; discriminate Hn | assumption]).
      destruct (allows_null t).
      * simpl. rewrite nth_error_app2 by lia. rewrite Nat.sub_diag. simpl. rewrite Hn.
        rewrite Happ, Hlen. apply IH; assumption.
      * rewrite Happ, Hlen. apply IH; assumption.
Qed.

(* no NULL among the argument values: no check fires (indices stay in range) *)
Lemma null_check_misses : forall tys vs pre,
  length vs = length tys -> Forall (fun v => is_null v = false) vs ->
  null_check (pre ++ vs) (null_indices_from (length pre) tys) = Ok false.
Proof.
  induction tys as [|t tys IH]; intros vs pre L F.
  - reflexivity.
  - destruct vs as [|v vs']; [discriminate L|]. simpl in L. inversion F as [|? ? Hv F']; subst. simpl.
    assert (Happ : pre ++ v :: vs' = (pre ++ [v]) ++ vs') by (rewrite <- app_assoc; reflexivity).
    assert (Hlen : S (length pre) = length (pre ++ [v])) by (rewrite app_length; simpl; lia).
    destruct (allows_null t).
    + simpl. rewrite nth_error_app2 by lia. rewrite Nat.sub_diag. simpl. rewrite Hv.
      rewrite Happ, Hlen. apply IH; [lia|assumption].
    + rewrite Happ, Hlen. apply IH; [lia|assumption].
Qed.

Lemma pevals_types_length orc ctx args vs : pevals orc ctx args = Ok vs -> length vs = length (map ptype args).
Proof. intros H. apply evals_map_ok in H. rewrite !map_length in *. assumption. Qed.

(* NULL propagation: holds for every descriptor whose Strict flag is set, whatever its body is *)
Theorem strict_null orc t d ctx args vs :
  fd_strict d = true ->
  pevals orc ctx args = Ok vs ->
  Forall2 (fun v a => has_type v (ptype a) = true) vs args ->
  In VNull vs ->
  peval orc ctx (PCall t d args) = Ok VNull.
Proof.
  intros Hs He F Hin. unfold peval. simpl. unfold pevals in He. rewrite He. simpl.
  unfold null_check_indices. rewrite Hs.
  assert (F' : Forall2 (fun v ty => has_type v ty = true) vs (map ptype args)).
  { clear -F. induction F; simpl; constructor; auto. }
  pose proof (null_check_hits (map ptype args) vs [] F' Hin) as H. simpl in H. rewrite H. reflexivity.
Qed.

(* and when no argument is NULL the body decides *)
Theorem call_no_null orc t d ctx args vs :
  pevals orc ctx args = Ok vs -> Forall (fun v => is_null v = false) vs ->
  peval orc ctx (PCall t d args) =
    match apply_body (body_of orc d) vs with
    | Ok v => Ok v
    | Err e => if e =? E_NOT_MODELLED then Err E_NOT_MODELLED else Err E_FUNCTION
    | Panic p => Panic p
    end.
Proof.
  intros He F. unfold peval. simpl. pose proof (pevals_types_length _ _ _ _ He) as L.
  unfold pevals in He. rewrite He. simpl.
  assert (H : null_check vs (null_check_indices d (map ptype args)) = Ok false).
  { unfold null_check_indices. destruct (fd_strict d); [|reflexivity].
    apply (null_check_misses (map ptype args) vs [] L F). }
  rewrite H. reflexivity.
Qed.

(* a non-strict descriptor never gets a null check *)
Lemma nonstrict_call orc t d ctx args vs :
  fd_strict d = false -> pevals orc ctx args = Ok vs ->
  peval orc ctx (PCall t d args) =
    match apply_body (body_of orc d) vs with
    | Ok v => Ok v
    | Err e => if e =? E_NOT_MODELLED then Err E_NOT_MODELLED else Err E_FUNCTION
    | Panic p => Panic p
    end.
Proof.
  intros Hs He. unfold peval. simpl. unfold pevals in He. rewrite He. simpl.
  unfold null_check_indices. rewrite Hs. reflexivity.
Qed.

(* ---------- NOT ---------- *)
Theorem not_kleene orc t d ctx a v :
  fd_strict d = true -> body_of orc d = BNot ->
  peval orc ctx a = Ok v -> is_tv v = true -> has_type v (ptype a) = true ->
  peval orc ctx (PCall t d [a]) = Ok (tv_val (k_not (to_tv v))).
Proof.
  intros Hs Hb He Htv Hty.
  assert (Hev : pevals orc ctx [a] = Ok [v]). { unfold pevals. simpl. unfold peval in He. rewrite He. reflexivity. }
  destruct v; try discriminate Htv.
  - rewrite (strict_null orc t d ctx [a] [VNull] Hs Hev); [reflexivity| |left; reflexivity].
    constructor; [assumption|constructor].
  - rewrite (call_no_null orc t d ctx [a] [VBool b] Hev); [|constructor; [reflexivity|constructor]].
    rewrite Hb. destruct b; reflexivity.
Qed.

(* ---------- IS NULL / IS NOT NULL ---------- *)
Theorem is_null_total orc t d ctx a v :
  fd_strict d = false -> body_of orc d = BIsNull -> peval orc ctx a = Ok v ->
  peval orc ctx (PCall t d [a]) = Ok (VBool (is_null v)).
Proof.
  intros Hs Hb He.
  assert (Hev : pevals orc ctx [a] = Ok [v]). { unfold pevals. simpl. unfold peval in He. rewrite He. reflexivity. }
  rewrite (nonstrict_call orc t d ctx [a] [v] Hs Hev). rewrite Hb. reflexivity.
Qed.

Theorem is_not_null_total orc t d ctx a v :
  fd_strict d = false -> body_of orc d = BIsNotNull -> peval orc ctx a = Ok v ->
  peval orc ctx (PCall t d [a]) = Ok (VBool (negb (is_null v))).
Proof.
  intros Hs Hb He.
  assert (Hev : pevals orc ctx [a] = Ok [v]). { unfold pevals. simpl. unfold peval in He. rewrite He. reflexivity. }
  rewrite (nonstrict_call orc t d ctx [a] [v] Hs Hev). rewrite Hb. reflexivity.
Qed.

(* ---------- comparisons on non-NULL operands are Boolean ---------- *)
Definition is_cmp_body (b : body) : bool :=
  match b with BCmp _ | BEq | BNe => true | _ => false end.

Theorem cmp_non_null orc t d ctx a b x y :
  is_cmp_body (body_of orc d) = true ->
  pevals orc ctx [a; b] = Ok [x; y] -> is_null x = false -> is_null y = false ->
  exists r, peval orc ctx (PCall t d [a; b]) = Ok (VBool r).
Proof.
  intros Hb He Hx Hy.
  rewrite (call_no_null orc t d ctx [a; b] [x; y] He); [|repeat constructor; assumption].
  destruct (body_of orc d); try discriminate Hb; simpl; eexists; reflexivity.
Qed.

(* ---------- Filter ---------- *)
Definition pred_true (p : eexpr) (outer : vctx) (r : list value) : bool :=
  match eval (r :: outer) p with Ok v => is_true v | _ => false end.

Theorem filter_keeps_true p outer rows :
  Forall (fun r => is_ok (eval (r :: outer) p) = true) rows ->
  filter_run p outer rows = (filter (pred_true p outer) rows, Ok tt).
Proof.
  induction rows as [|r rs IH]; intros F; simpl.
  - reflexivity.
  - inversion F as [|? ? Hr F']; subst. unfold pred_true at 1.
    destruct (eval (r :: outer) p) as [v| |]; try discriminate Hr.
    rewrite (IH F'). destruct (is_true v); reflexivity.
Qed.

Theorem filter_stops_at_error p outer pre r post :
  Forall (fun r => is_ok (eval (r :: outer) p) = true) pre ->
  is_ok (eval (r :: outer) p) = false ->
  fst (filter_run p outer (pre ++ r :: post)) = filter (pred_true p outer) pre /\
  is_ok (snd (filter_run p outer (pre ++ r :: post))) = false.
Proof.
  induction pre as [|q qs IH]; intros F Hr; simpl.
  - destruct (eval (r :: outer) p); try discriminate Hr; split; reflexivity.
  - inversion F as [|? ? Hq F']; subst. unfold pred_true at 1.
    destruct (eval (q :: outer) p) as [v| |]; try discriminate Hq.
    destruct (IH F' Hr) as [H1 H2].
    destruct (filter_run p outer (qs ++ r :: post)) as [out res]. simpl in *.
    split; [destruct (is_true v); simpl; congruence | assumption].
Qed.

(* exactly TRUE: NULL, FALSE and non-Boolean values are dropped *)
Lemma is_true_spec v : is_true v = true <-> v = VBool true.
Proof. split; [destruct v; try discriminate; destruct b; try discriminate; reflexivity | intros ->; reflexivity]. Qed.

(* ---------- which body a descriptor has does not depend on the oracle (only an abstract body carries it) ---------- *)
Lemma body_of_shape orc d :
  body_of orc d = body_of no_oracle d \/
  exists ks n, body_of orc d = BAbstract ks n (orc (fd_name d) (fd_idx d)) /\
               body_of no_oracle d = BAbstract ks n (no_oracle (fd_name d) (fd_idx d)).
Proof.
  unfold body_of.
  repeat match goal with
         | |- context [if ?c then _ else _] => destruct c; [try (left; reflexivity); right; eexists; eexists; split; reflexivity|]
         end.
  left. reflexivity.
Qed.

Lemma body_of_concrete orc d b :
  body_of no_oracle d = b -> (forall ks n f, b <> BAbstract ks n f) -> body_of orc d = b.
Proof.
  intros H Hn. destruct (body_of_shape orc d) as [E|[ks [n [_ E]]]]; [rewrite E; exact H|].
  exfalso. rewrite H in E. exact (Hn _ _ _ E).
Qed.

Lemma body_kinds_orc orc d : body_result_kinds (body_of orc d) = body_result_kinds (body_of no_oracle d).
Proof. destruct (body_of_shape orc d) as [E|[ks [n [E1 E2]]]]; [rewrite E; reflexivity|rewrite E1, E2; reflexivity]. Qed.

Lemma body_min_args_orc orc d : body_min_args (body_of orc d) = body_min_args (body_of no_oracle d).
Proof. destruct (body_of_shape orc d) as [E|[ks [n [E1 E2]]]]; [rewrite E; reflexivity|rewrite E1, E2; reflexivity]. Qed.
