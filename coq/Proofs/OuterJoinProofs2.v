(* Proofs/OuterJoinProofs2.v — corollaries of the outer-join invariant: prefix form of the watermark theorem,
   and C02 for LEFT / RIGHT / FULL OUTER joins over batch inputs. *)
From Coq Require Import Permutation.
From Octo Require Import Joins JoinQuery CompareLaws ChangelogLemmas JoinsBase JoinsProofs GenJoinProofs OuterJoinProofs JoinQueryProofs.

Theorem oj_at_watermark_prefix kl kr ol or nl nr : key_respects kl -> key_respects kr ->
  forall L R pre sm post st os st' o W,
  interleave L R (pre ++ sm :: post) -> scripts_ok (arO nl nr) L R -> scripts_timed L R ->
  oj_run_steps kl kr ol or nl nr jinit pre = (st, os) -> oj_step kl kr ol or nl nr st sm = (st', o ++ [WM W]) ->
  forall x, consolidate (records (concat os ++ o ++ [WM W])) x =
            consolidate (outer_list kl kr ol or nl nr (restrict_le W (received SL (pre ++ [sm])))
                                                      (restrict_le W (received SR (pre ++ [sm])))) x.
Proof.
  intros Hkl Hkr L R pre sm post st os st' o W Hil [Hl [Hr [Ha Ha']]] [Tl Tr] Hrun Hstep.
  destruct (interleave_proj _ _ _ Hil) as [EL ER].
  replace (pre ++ sm :: post) with ((pre ++ [sm]) ++ post) in EL, ER by (rewrite <- app_assoc; reflexivity).
  rewrite proj_side_app in EL, ER.
  unfold received.
  apply (oj_at_watermark kl kr ol or nl nr Hkl Hkr (proj_side SL (pre ++ [sm])) (proj_side SR (pre ++ [sm])) pre sm st os st' o W).
  - apply proj_interleave.
  - split; [apply (plain_script_prefix _ (proj_side SL post)); rewrite EL; exact Hl|].
    split; [apply (plain_script_prefix _ (proj_side SR post)); rewrite ER; exact Hr|]. split.
    + intros x Hin. apply Ha. rewrite <- EL, msg_recs_app. apply in_or_app. left. exact Hin.
    + intros x Hin. apply Ha'. rewrite <- ER, msg_recs_app. apply in_or_app. left. exact Hin.
  - split; [apply (well_timed_prefix _ _ (proj_side SL post)); rewrite EL; exact Tl | apply (well_timed_prefix _ _ (proj_side SR post)); rewrite ER; exact Tr].
  - exact Hrun.
  - exact Hstep.
Qed.

(* ---- batches: the reference outer join, pair by pair and pad by pad ---- *)
Lemma consolidate_ins_nonneg (R : list row) r : 0 <= consolidate (map ins R) r.
Proof. induction R as [|b R IH]; [simpl; lia|]. cbn [map consolidate]. unfold sign, ins at 1 2. cbn [retr vals]. destruct (row_eqb b r); lia. Qed.

Lemma consolidate_ins_pos (R : list row) r : In r R -> 0 < consolidate (map ins R) r.
Proof.
  induction R as [|a R IH]; intro H; [contradiction|]. cbn [map consolidate]. unfold sign, ins at 1 2. cbn [retr vals].
  pose proof (consolidate_ins_nonneg R r) as N. destruct H as [E|H].
  - subst. rewrite row_eqb_refl. lia.
  - specialize (IH H). destruct (row_eqb a r); lia.
Qed.

Lemma existsb_ext_in {A} (f g : A -> bool) l : (forall a, In a l -> f a = g a) -> existsb f l = existsb g l.
Proof.
  induction l as [|a l IH]; intro H; [reflexivity|]. simpl. rewrite (H a (or_introl eq_refl)), IH; [reflexivity|].
  intros; apply H; right; assumption.
Qed.

Lemma existsb_map' {A B} (f : A -> B) (g : B -> bool) l : existsb g (map f l) = existsb (fun a => g (f a)) l.
Proof. induction l as [|a l IH]; simpl; [reflexivity | rewrite IH; reflexivity]. Qed.

Lemma key_match_sym a b : key_match a b = key_match b a.
Proof. unfold key_match. rewrite (row_eqb_sym a b). destruct (has_null a), (has_null b); reflexivity. Qed.

Section Batch.
  Variables kl kr : list value -> list value.
  Variables (nl nr : nat) (kind : Z).
  Notation ol := ((kind =? 1) || (kind =? 3)).
  Notation or := ((kind =? 2) || (kind =? 3)).
  Notation kp := (key_pred kl kr nl).

  Lemma has_partner_batch_l l R : length l = nl ->
    has_partner kl kr (kl l) SR (map ins R) = existsb (fun r => kp (l ++ r)) R.
  Proof.
    intro Hl. unfold has_partner. rewrite existsb_map'. apply existsb_ext_in. intros r Hin. cbn [key_of ins vals].
    pose proof (consolidate_ins_pos R r Hin) as Pos.
    destruct (Z.eqb_spec (consolidate (map ins R) r) 0); [lia|]. cbn [negb]. rewrite Bool.andb_true_r.
    unfold key_pred. destruct (firstn_app_exact l r nl Hl) as [E1 E2]. rewrite E1, E2. reflexivity.
  Qed.

  Lemma has_partner_batch_r r L : (forall l, In l L -> length l = nl) ->
    has_partner kl kr (kr r) SL (map ins L) = existsb (fun l => kp (l ++ r)) L.
  Proof.
    intro Ha. unfold has_partner. rewrite existsb_map'. apply existsb_ext_in. intros l Hin. cbn [key_of ins vals].
    pose proof (consolidate_ins_pos L l Hin) as Pos.
    destruct (Z.eqb_spec (consolidate (map ins L) l) 0); [lia|]. cbn [negb]. rewrite Bool.andb_true_r.
    unfold key_pred. destruct (firstn_app_exact l r nl (Ha l Hin)) as [E1 E2]. rewrite E1, E2. apply key_match_sym.
  Qed.

  Lemma outer_list_batch L R : (forall l, In l L -> length l = nl) -> (forall r, In r R -> length r = nr) ->
    outer_list kl kr ol or nl nr (map ins L) (map ins R) = map ins (rel_join kind kp nl nr L R).
  Proof.
    intros HL HR. unfold outer_list, rel_join. rewrite !map_app, (join_list_batch kl kr nl L R HL). f_equal. f_equal.
    - destruct ol; [|reflexivity]. unfold pads_of, rel_left_pads.
      assert (G : forall L0, (forall l, In l L0 -> length l = nl) ->
                flat_map (fun r0 => if has_partner kl kr (key_of kl kr SL (vals r0)) (other SL) (map ins R) then []
                                    else [mkrec (pad_own nl nr SL (vals r0)) (retr r0) (et r0)]) (map ins L0) =
                map ins (flat_map (fun l => if existsb (fun r0 => kp (l ++ r0)) R then [] else [l ++ nulls nr]) L0)).
      { induction L0 as [|l L0 IH]; intro H0; [reflexivity|]. cbn [map flat_map].
        rewrite IH by (intros; apply H0; right; assumption). rewrite map_app. cbn [ins vals retr et key_of other].
        rewrite (has_partner_batch_l l R (H0 l (or_introl eq_refl))).
        destruct (existsb _ R); [reflexivity|]. cbn [pad_own map app]. rewrite (fit_exact nl nr l (H0 l (or_introl eq_refl))). reflexivity. }
      apply G. exact HL.
    - destruct or; [|reflexivity]. unfold pads_of, rel_right_pads.
      assert (G : forall R0, (forall r, In r R0 -> length r = nr) ->
                flat_map (fun r0 => if has_partner kl kr (key_of kl kr SR (vals r0)) (other SR) (map ins L) then []
                                    else [mkrec (pad_own nl nr SR (vals r0)) (retr r0) (et r0)]) (map ins R0) =
                map ins (flat_map (fun r => if existsb (fun l => kp (l ++ r)) L then [] else [nulls nl ++ r]) R0)).
      { induction R0 as [|r R0 IH]; intro H0; [reflexivity|]. cbn [map flat_map].
        rewrite IH by (intros; apply H0; right; assumption). rewrite map_app. cbn [ins vals retr et key_of other].
        rewrite (has_partner_batch_r r L HL).
        destruct (existsb _ L); [reflexivity|]. cbn [pad_own map app]. rewrite (fit_same nr r (H0 r (or_introl eq_refl))). reflexivity. }
      apply G. exact HR.
  Qed.

  Hypothesis kl_resp : key_respects kl.
  Hypothesis kr_resp : key_respects kr.

  (* C02_outer *)
  Theorem outer_join_batch L R sigma st os :
    interleave (batch L) (batch R) sigma ->
    (forall l, In l L -> length l = nl) -> (forall r, In r R -> length r = nr) ->
    oj_run_steps kl kr ol or nl nr jinit sigma = (st, os) -> phase st = Done ->
    forall x, consolidate (records (concat os)) x = count_rows (rel_join kind kp nl nr L R) x.
  Proof.
    intros Hil HL HR Hrun Hd x. unfold count_rows. rewrite <- (outer_list_batch L R HL HR), <- !msg_recs_batch.
    apply (oj_final kl kr ol or nl nr kl_resp kr_resp (batch L) (batch R) sigma st os Hil); auto.
    - split; [apply plain_batch|]. split; [apply plain_batch|]. rewrite !msg_recs_batch. split.
      + intros a Hin. apply in_map_iff in Hin. destruct Hin as [l [E Hin]]. subst a. apply HL. exact Hin.
      + intros a Hin. apply in_map_iff in Hin. destruct Hin as [l [E Hin]]. subst a. apply HR. exact Hin.
    - rewrite !msg_recs_batch. intros a Hin. apply in_app_or in Hin.
      destruct Hin as [Hin|Hin]; apply in_map_iff in Hin; destruct Hin as [l [E _]]; subst a; vm_compute; discriminate.
  Qed.
End Batch.
