(* Proofs/RelProofs.v — C01/C03: the compiled pipeline computes the relational semantics. *)
From Coq Require Import Permutation.
From Octo Require Import Values ValueInd CompareLaws Rel.

Ltac inv H := inversion H; subst; clear H.

Lemma last_app_ne {A} (a b : list A) d : b <> [] -> last (a ++ b) d = last b d.
Proof.
  intro H. induction a as [|x a IH]; [reflexivity|]. simpl. rewrite IH.
  destruct (a ++ b) eqn:E; [|reflexivity]. destruct a; simpl in E; [contradiction|discriminate].
Qed.

(* ------------------------------------------------------------------ sorting *)
Section SortingProofs.
  Context {A : Type} (cmp : A -> A -> Z).
  Hypothesis laws : forall x, cmp_laws cmp x.
  Variable P : A -> Prop.
  Hypothesis Heq : forall a b, P a -> P b -> cmp a b = 0 -> a = b.

  Let anti a b : cmp b a = - cmp a b. Proof. apply (cl_anti _ _ (laws a)). Qed.
  Let range a b : cmp a b = -1 \/ cmp a b = 0 \/ cmp a b = 1. Proof. apply (cl_range _ _ (laws a)). Qed.
  Let trans a b c : cmp a b = -1 -> cmp b c = -1 -> cmp a c = -1. Proof. apply (cl_trans _ _ (laws a)). Qed.
  Let refl a : cmp a a = 0. Proof. apply (cl_refl _ _ (laws a)). Qed.

  Lemma ins_perm x l : Permutation (x :: l) (ins cmp x l).
  Proof.
    induction l as [|y t IH]; simpl; [reflexivity|].
    destruct (cmp x y =? -1); [reflexivity|].
    rewrite perm_swap. constructor. exact IH.
  Qed.

  Lemma isort_gen_perm l acc : Permutation (acc ++ l) (fold_left (fun a x => ins cmp x a) l acc).
  Proof.
    revert acc. induction l as [|x t IH]; intro acc; simpl.
    - rewrite app_nil_r. reflexivity.
    - rewrite <- IH. rewrite <- ins_perm. simpl. symmetry. apply Permutation_middle.
  Qed.

  Lemma isort_perm l : Permutation l (isort cmp l).
  Proof. exact (isort_gen_perm l []). Qed.

  Lemma isort_in l x : In x (isort cmp l) <-> In x l.
  Proof. split; intro H; [eapply Permutation_in; [symmetry; apply isort_perm|exact H] | eapply Permutation_in; [apply isort_perm|exact H]]. Qed.

  Lemma isort_length l : length (isort cmp l) = length l.
  Proof. symmetry. apply Permutation_length, isort_perm. Qed.

  (* sorted: every element is <= every later one *)
  Fixpoint sorted (l : list A) : Prop :=
    match l with
    | [] => True
    | x :: t => (forall y, In y t -> cmp x y <= 0) /\ sorted t
    end.

  Lemma le_trans a b c : cmp a b <= 0 -> cmp b c <= 0 -> cmp a c <= 0.
  Proof.
    intros H1 H2.
    destruct (range a b) as [E1|[E1|E1]]; try lia; destruct (range b c) as [E2|[E2|E2]]; try lia.
    - rewrite (trans a b c E1 E2). lia.
    - rewrite <- (cl_congr _ _ (laws a) b c E2). lia.
    - rewrite (cl_congl _ _ (laws a) b c E1). lia.
    - rewrite (cl_congl _ _ (laws a) b c E1). lia.
  Qed.

  Lemma ins_sorted x l : sorted l -> sorted (ins cmp x l).
  Proof.
    induction l as [|y t IH]; simpl; intro S; [split; [intros ? []|exact I]|].
    destruct S as [Hy St].
    destruct (Z.eqb_spec (cmp x y) (-1)) as [E|NE].
    - simpl. split; [|split; assumption].
      intros z [<-|Hz]; [lia|]. apply le_trans with y; [lia|auto].
    - simpl. split; [|apply IH; exact St].
      intros z Hz. apply (Permutation_in _ (Permutation_sym (ins_perm x t))) in Hz.
      destruct Hz as [<-|Hz]; [|auto].
      rewrite (anti x y). destruct (range x y) as [E|[E|E]]; lia.
  Qed.

  Lemma isort_gen_sorted l acc : sorted acc -> sorted (fold_left (fun a x => ins cmp x a) l acc).
  Proof. revert acc. induction l as [|x t IH]; intros acc S; simpl; [exact S|]. apply IH, ins_sorted, S. Qed.

  Lemma isort_sorted l : sorted (isort cmp l).
  Proof. apply isort_gen_sorted. exact I. Qed.

  (* the counted tree: keys strictly increasing, counts positive *)
  Fixpoint ssorted (l : list A) : Prop :=
    match l with
    | [] => True
    | x :: t => (forall y, In y t -> cmp x y = -1) /\ ssorted t
    end.
  Definition cinv (L : list (A * Z)) : Prop := ssorted (map fst L) /\ Forall (fun yc => 1 <= snd yc) L.

  Lemma cadd_keys x L y : In y (map fst (cadd cmp x L)) -> y = x \/ In y (map fst L).
  Proof.
    induction L as [|[k c] t IH]; simpl; [intros [<-|[]]; auto|].
    destruct (cmp x k =? 0); [simpl; intros [<-|H]; auto|].
    destruct (cmp x k =? -1); simpl; [intros [<-|[<-|H]]; auto|].
    intros [<-|H]; auto. destruct (IH H); auto.
  Qed.

  Lemma cadd_inv x L : cinv L -> cinv (cadd cmp x L).
  Proof.
    unfold cinv. induction L as [|[k c] t IH]; simpl; intros [S F].
    - split; [split; [intros ? []|exact I]|repeat constructor; simpl; lia].
    - destruct S as [Hk St]. inv F. simpl in *.
      destruct (Z.eqb_spec (cmp x k) 0) as [E0|N0].
      + simpl. split; [split; assumption|]. constructor; [simpl; lia|assumption].
      + destruct (Z.eqb_spec (cmp x k) (-1)) as [E1|N1].
        * simpl. split.
          -- split; [|split; assumption]. intros y [<-|Hy]; [exact E1|]. apply trans with k; auto.
          -- constructor; [simpl; lia|]. constructor; assumption.
        * destruct (IH (conj St H2)) as [S' F']. simpl. split.
          -- split; [|exact S']. intros y Hy. destruct (cadd_keys _ _ _ Hy) as [->|Hy']; [|auto].
             rewrite (anti x k). destruct (range x k) as [E|[E|E]]; lia.
          -- constructor; assumption.
  Qed.

  Lemma ins_repeat x y n rest : cmp x y <> -1 -> ins cmp x (repeat y n ++ rest) = repeat y n ++ ins cmp x rest.
  Proof.
    intro H. induction n as [|n IH]; simpl; [reflexivity|].
    destruct (Z.eqb_spec (cmp x y) (-1)); [contradiction|]. rewrite IH. reflexivity.
  Qed.

  Lemma ins_below x L : cinv L -> (forall y, In y (map fst L) -> cmp x y = -1) -> ins cmp x (expand L) = x :: expand L.
  Proof.
    destruct L as [|[k c] t]; [reflexivity|]. intros [_ F] H. inv F. simpl in *. unfold expand. simpl.
    remember (Z.to_nat c) as n eqn:E. destruct n; [lia|]. simpl. rewrite (H k (or_introl eq_refl)). reflexivity.
  Qed.

  Lemma expand_cadd x L : cinv L -> P x -> Forall P (map fst L) -> expand (cadd cmp x L) = ins cmp x (expand L).
  Proof.
    induction L as [|[k c] t IH]; intros [S F] Px PL; [reflexivity|].
    simpl in S. destruct S as [Hk St]. inv F. inv PL. simpl in *.
    destruct (Z.eqb_spec (cmp x k) 0) as [E0|N0].
    - assert (x = k) by (apply Heq; assumption). subst k.
      unfold expand; simpl. fold (expand t).
      rewrite ins_repeat by lia. rewrite (ins_below x t (conj St H2) Hk).
      replace (Z.to_nat (c + 1)) with (S (Z.to_nat c)) by lia.
      change (x :: expand t) with ([x] ++ expand t). rewrite app_assoc. f_equal.
      clear. induction (Z.to_nat c); simpl; [reflexivity|]. f_equal. assumption.
    - destruct (Z.eqb_spec (cmp x k) (-1)) as [E1|N1].
      + unfold expand; simpl.
        assert (E : exists n, Z.to_nat c = S n) by (exists (Z.to_nat c - 1)%nat; lia). destruct E as [n E].
        rewrite E. simpl. rewrite E1. reflexivity.
      + unfold expand; simpl. fold (expand t). fold (expand (cadd cmp x t)).
        rewrite IH; [|split; assumption|assumption|assumption]. rewrite ins_repeat by assumption. reflexivity.
  Qed.

  Lemma cbuild_gen l : forall L, cinv L -> Forall P l -> Forall P (map fst L) ->
    expand (fold_left (fun acc x => cadd cmp x acc) l L) = fold_left (fun a x => ins cmp x a) l (expand L) /\
    cinv (fold_left (fun acc x => cadd cmp x acc) l L).
  Proof.
    induction l as [|x t IH]; intros L I Pl PL; simpl; [split; [reflexivity|exact I]|].
    inv Pl. rewrite <- expand_cadd by assumption. apply IH; [apply cadd_inv; exact I|assumption|].
    apply Forall_forall. intros y Hy. destruct (cadd_keys _ _ _ Hy) as [->|Hy']; [assumption|].
    rewrite Forall_forall in PL. auto.
  Qed.

  Theorem expand_cbuild l : Forall P l -> expand (cbuild cmp l) = isort cmp l.
  Proof.
    intro Pl. apply (cbuild_gen l []); [split; [exact I|constructor]|exact Pl|constructor].
  Qed.

  Lemma cbuild_inv l : Forall P l -> cinv (cbuild cmp l).
  Proof. intro Pl. apply (cbuild_gen l []); [split; [exact I|constructor]|exact Pl|constructor]. Qed.

  (* first and last key of the tree = first and last element of the expansion *)
  Lemma expand_head L : cinv L -> match L with (m, _) :: _ => hd_error (expand L) = Some m | [] => expand L = [] end.
  Proof.
    destruct L as [|[k c] t]; [reflexivity|]. intros [_ F]. inv F. simpl in *.
    unfold expand; simpl. destruct (Z.to_nat c) eqn:E; [lia|]. reflexivity.
  Qed.

  Lemma expand_last L d : cinv L -> L <> [] -> last (expand L) d = fst (last L (d, 0)).
  Proof.
    induction L as [|[k c] t IH]; [congruence|]. intros [S F] _. inv F. simpl in S. destruct S as [_ St].
    unfold expand; simpl. fold (expand t). simpl in H1.
    destruct t as [|kc2 t'].
    - simpl. rewrite app_nil_r. assert (E : exists n, Z.to_nat c = S n) by (exists (Z.to_nat c - 1)%nat; lia).
      destruct E as [n ->]. clear. induction n as [|n IH]; [reflexivity|]. simpl in *. exact IH.
    - assert (E : expand (kc2 :: t') <> []).
      { inv H2. destruct kc2 as [k2 c2]. unfold expand; simpl. destruct (Z.to_nat c2) eqn:E; [simpl in *; lia|]. simpl. discriminate. }
      rewrite last_app_ne by exact E. rewrite IH; [|split; assumption|discriminate]. reflexivity.
  Qed.
End SortingProofs.

(* ------------------------------------------------------------------ keyed collections *)
Section AssocProofs.
  Context {K : Type} (keq : K -> K -> bool).
  Hypothesis keq_refl : forall a, keq a a = true.
  Hypothesis keq_sym : forall a b, keq a b = keq b a.
  Hypothesis keq_trans : forall a b c, keq a b = true -> keq b c = true -> keq a c = true.

  Lemma keq_cong_r a b c : keq b c = true -> keq a b = keq a c.
  Proof.
    intro H. destruct (keq a b) eqn:E1, (keq a c) eqn:E2; try reflexivity.
    - rewrite (keq_trans a b c E1 H) in E2. discriminate.
    - rewrite keq_sym in H. rewrite (keq_trans a c b E2 H) in E1. discriminate.
  Qed.

  Lemma aget_aput_eq {V} (m : list (K * V)) k k' v : keq k k' = true -> aget keq (aput keq m k v) k' = Some v.
  Proof.
    intro H. induction m as [|[k0 v0] t IH]; simpl; [rewrite H; reflexivity|].
    destruct (keq k0 k) eqn:E; simpl.
    - rewrite (keq_trans k0 k k' E H). reflexivity.
    - rewrite <- (keq_cong_r k0 k k' H), E. exact IH.
  Qed.

  Lemma aget_aput_ne {V} (m : list (K * V)) k k' v : keq k k' = false -> aget keq (aput keq m k v) k' = aget keq m k'.
  Proof.
    intro H. induction m as [|[k0 v0] t IH]; simpl; [rewrite H; reflexivity|].
    destruct (keq k0 k) eqn:E; simpl.
    - destruct (keq k0 k') eqn:E'; [|reflexivity].
      rewrite keq_sym in E. rewrite (keq_trans k k0 k' E E') in H. discriminate.
    - destruct (keq k0 k'); [reflexivity|exact IH].
  Qed.

  Definition seenb (seen : list K) (r : K) : bool := existsb (fun s => keq s r) seen.

  Lemma seenb_cong seen r r' : keq r r' = true -> seenb seen r = seenb seen r'.
  Proof. intro H. unfold seenb. induction seen as [|s t IH]; simpl; [reflexivity|]. rewrite IH, (keq_cong_r s r r' H). reflexivity. Qed.

  Definition dinv (m : list (K * Z)) (seen : list K) : Prop :=
    forall r, match aget keq m r with Some c => 1 <= c /\ seenb seen r = true | None => seenb seen r = false end.

  Lemma dinv_step m seen r :
    dinv m seen ->
    let c := match aget keq m r with Some c => c | None => 0 end + 1 in
    (c =? 1) = negb (seenb seen r) /\
    dinv (aput keq m r c) (if seenb seen r then seen else r :: seen).
  Proof.
    intros I c. pose proof (I r) as Ir. unfold c. destruct (aget keq m r) as [c0|] eqn:G.
    - destruct Ir as [Hc Hs]. rewrite Hs. split; [simpl; lia|].
      intro r'. destruct (keq r r') eqn:E.
      + rewrite aget_aput_eq by exact E. split; [lia|]. rewrite <- (seenb_cong seen r r' E). exact Hs.
      + rewrite aget_aput_ne by exact E. apply I.
    - rewrite Ir. split; [reflexivity|].
      intro r'. destruct (keq r r') eqn:E.
      + rewrite aget_aput_eq by exact E. split; [lia|]. simpl. rewrite E. reflexivity.
      + rewrite aget_aput_ne by exact E. simpl. rewrite E. simpl. apply I.
  Qed.

  Lemma distinct_fold l : forall m out seen, dinv m seen ->
    snd (fold_left (distinct_step keq) l (m, out)) = out ++ distinct_from keq seen l.
  Proof.
    induction l as [|r t IH]; intros m out seen I; simpl; [rewrite app_nil_r; reflexivity|].
    destruct (dinv_step m seen r I) as [Hc I']. fold (seenb seen r).
    destruct (seenb seen r); simpl in Hc; rewrite Hc.
    - apply IH. exact I'.
    - rewrite (IH _ _ _ I'). rewrite <- app_assoc. reflexivity.
  Qed.

  Lemma dinv_nil : dinv [] [].
  Proof. intro r. reflexivity. Qed.

  (* the support: what distinct_from means *)
  Lemma distinct_from_in seen l r : In r (distinct_from keq seen l) -> In r l /\ seenb seen r = false.
  Proof.
    revert seen. induction l as [|x t IH]; intros seen; simpl; [intros []|].
    fold (seenb seen x). destruct (seenb seen x) eqn:E.
    - intro H. destruct (IH _ H). auto.
    - intros [<-|H]; [auto|]. destruct (IH _ H) as [H1 H2]. simpl in H2. apply orb_false_iff in H2. tauto.
  Qed.

  Lemma distinct_from_covers seen l r : In r l -> seenb (seen ++ distinct_from keq seen l) r = true.
  Proof.
    revert seen. induction l as [|x t IH]; intros seen; simpl; [intros []|].
    fold (seenb seen x). intros [<-|H].
    - destruct (seenb seen x) eqn:E.
      + unfold seenb in *. rewrite existsb_app, E. reflexivity.
      + unfold seenb. rewrite existsb_app. simpl. rewrite keq_refl. rewrite orb_true_r. reflexivity.
    - destruct (seenb seen x) eqn:E; [apply IH; exact H|].
      specialize (IH (x :: seen) H). unfold seenb in *. rewrite existsb_app in *. simpl in *.
      destruct (keq x r); simpl in *; [rewrite orb_true_r; reflexivity|exact IH].
  Qed.

  Fixpoint pairwise_distinct (l : list K) : Prop :=
    match l with [] => True | x :: t => (forall y, In y t -> keq x y = false) /\ pairwise_distinct t end.

  Lemma distinct_from_nodup seen l : pairwise_distinct (distinct_from keq seen l).
  Proof.
    revert seen. induction l as [|x t IH]; intros seen; simpl; [exact I|].
    destruct (existsb (fun s => keq s x) seen); [apply IH|].
    simpl. split; [|apply IH]. intros y Hy. destruct (distinct_from_in _ _ _ Hy) as [_ H].
    simpl in H. apply orb_false_iff in H. tauto.
  Qed.
End AssocProofs.

(* ------------------------------------------------------------------ plain values: Compare = 0 is equality *)
Lemma lex_eq {A} (cmp : A -> A -> Z) (la : list A) : forall lb,
  (forall x y, In x la -> In y lb -> cmp x y = 0 -> x = y) ->
  (forall x y, cmp x y = -1 \/ cmp x y = 0 \/ cmp x y = 1) ->
  lex_cmp cmp la lb = 0 -> la = lb.
Proof.
  induction la as [|x xs IH]; intros [|y ys] He Hr H; try reflexivity; try (simpl in H; lia).
  rewrite lex_cons in H. destruct (Z.eqb_spec (cmp x y) 0) as [e|ne].
  - f_equal; [apply He; simpl; auto|]. apply IH; [|exact Hr|exact H]. intros; apply He; simpl; auto.
  - destruct (Hr x y) as [E|[E|E]]; lia.
Qed.

Lemma plain_float_eq x y : plainb (VFloat x) = true -> plainb (VFloat y) = true -> fcompare x y = 0 -> x = y.
Proof.
  simpl. rewrite !andb_true_iff, !negb_true_iff, !Z.leb_le, !Z.ltb_lt, !Z.eqb_neq.
  intros [[[Lx Ux] Nx] Zx] [[[Ly Uy] Ny] Zy]. unfold fcompare. rewrite Nx, Ny.
  unfold zcmp. destruct (Z.ltb_spec (f_key x) (f_key y)); [discriminate|].
  destruct (Z.ltb_spec (f_key y) (f_key x)); [discriminate|]. intros _.
  assert (K : f_key x = f_key y) by lia. clear H H0.
  unfold f_key, f_neg, f_mag in K. rewrite (Z.mod_small x two64), (Z.mod_small y two64) in K by lia.
  unfold two63, two64 in *.
  destruct (Z.leb_spec 9223372036854775808 x), (Z.leb_spec 9223372036854775808 y);
    pose proof (Z.mod_pos_bound x 9223372036854775808 ltac:(lia));
    pose proof (Z.mod_pos_bound y 9223372036854775808 ltac:(lia));
    pose proof (Z.div_mod x 9223372036854775808 ltac:(lia));
    pose proof (Z.div_mod y 9223372036854775808 ltac:(lia));
    assert (x / 9223372036854775808 = 0 \/ x / 9223372036854775808 = 1) by
      (assert (0 <= x / 9223372036854775808 < 2) by (split; [apply Z.div_pos; lia|apply Z.div_lt_upper_bound; lia]); lia);
    assert (y / 9223372036854775808 = 0 \/ y / 9223372036854775808 = 1) by
      (assert (0 <= y / 9223372036854775808 < 2) by (split; [apply Z.div_pos; lia|apply Z.div_lt_upper_bound; lia]); lia);
    lia.
Qed.

Lemma plain_vcompare_eq : forall a b, plainb a = true -> plainb b = true -> vcompare a b = 0 -> a = b.
Proof.
  induction a as [ | x | x | x | x | x lx | x | l IH | l IH | l IH ] using value_ind'; intros b Pa Pb H;
    try discriminate; destruct b; try discriminate;
    try (exfalso; rewrite vcompare_tid_ne in H by (simpl; lia); simpl in H; discriminate).
  - reflexivity.
  - rewrite vc_int in H. f_equal. revert H. zcmp_tac.
  - rewrite vc_float in H. f_equal. apply plain_float_eq; assumption.
  - rewrite vc_bool in H. f_equal. destruct x, b; try reflexivity; discriminate.
  - rewrite vc_str in H. f_equal. apply bytes_cmp_eq. exact H.
  - rewrite vc_list in H. f_equal. simpl in Pa, Pb. rewrite forallb_forall in Pa, Pb. rewrite Forall_forall in IH.
    apply (lex_eq vcompare l l0); [|apply vcompare_range|exact H].
    intros x y Hx Hy. apply IH; auto.
Qed.

Lemma plain_row_eq a b : plain_row a = true -> plain_row b = true -> row_eqb a b = true -> a = b.
Proof.
  unfold plain_row, row_eqb. rewrite !forallb_forall, Z.eqb_eq. intros Pa Pb H.
  apply (lex_eq vcompare a b); [|apply vcompare_range|exact H]. intros x y Hx Hy. apply plain_vcompare_eq; auto.
Qed.

(* val_eqb and row_eqb are equivalences *)
Lemma val_eqb_refl a : val_eqb a a = true.
Proof. unfold val_eqb. rewrite vcompare_refl. reflexivity. Qed.
Lemma val_eqb_sym a b : val_eqb a b = val_eqb b a.
Proof. unfold val_eqb. rewrite (vcompare_antisym b a). destruct (vcompare_range b a) as [E|[E|E]]; rewrite E; reflexivity. Qed.
Lemma val_eqb_trans a b c : val_eqb a b = true -> val_eqb b c = true -> val_eqb a c = true.
Proof. unfold val_eqb. rewrite !Z.eqb_eq. intros H1 H2. rewrite (vcompare_eq_cong a b c H1). exact H2. Qed.

(* directed values *)
Lemma dcmp_laws : forall x, cmp_laws dcmp x.
Proof.
  intros [d v].
  assert (R := vcompare_range). assert (An := vcompare_antisym).
  assert (CL := vcompare_eq_cong). assert (CR := vcompare_eq_cong_r). assert (T := vcompare_lt_trans).
  split.
  - intros [d' w]. unfold dcmp, bcompare; simpl. destruct d, d'; simpl; try lia; apply R.
  - unfold dcmp, bcompare; simpl. rewrite Bool.eqb_reflx. destruct d; apply vcompare_refl.
  - intros [d' w]. unfold dcmp, bcompare; simpl. destruct d, d'; simpl; try reflexivity; apply An.
  - intros [d' w] [d'' u]. unfold dcmp, bcompare; simpl. destruct d, d', d''; simpl; intro H; try discriminate; try reflexivity.
    + apply CR. rewrite An. lia.
    + apply CL. exact H.
  - intros [d' w] [d'' u]. unfold dcmp, bcompare; simpl. destruct d, d', d''; simpl; intro H; try discriminate; try reflexivity.
    + apply CL. rewrite An. lia.
    + apply CR. exact H.
  - intros [d' w] [d'' u]. unfold dcmp, bcompare; simpl. destruct d, d', d''; simpl; intros H1 H2; try discriminate; try reflexivity.
    + apply (T u w v); assumption.
    + apply (T v w u); assumption.
Qed.

Lemma pullback_laws {A B} (f : A -> B) (cmp : B -> B -> Z) :
  (forall y, cmp_laws cmp y) -> forall x, cmp_laws (fun a b => cmp (f a) (f b)) x.
Proof.
  intros L x. destruct (L (f x)) as [r rf an cl cr tr].
  split; intros; [apply r | exact rf | apply an | apply cl; assumption | apply cr; assumption | eapply tr; eassumption].
Qed.

Lemma oitem_laws : forall x, cmp_laws oitem_cmp x.
Proof.
  apply (pullback_laws oitem_key (lex_cmp dcmp)). intro y. apply lex_laws. apply Forall_forall. intros; apply dcmp_laws.
Qed.

Definition plain_oitem (n : nat) (it : oitem) : Prop :=
  length (fst it) = n /\ forallb (fun dv => plainb (snd dv)) (fst it) = true /\ plain_row (snd it) = true.

Lemma oitem_eq n a b : plain_oitem n a -> plain_oitem n b -> oitem_cmp a b = 0 -> a = b.
Proof.
  intros [La [Ka Ra]] [Lb [Kb Rb]] H. unfold oitem_cmp in H.
  assert (E : oitem_key a = oitem_key b).
  { apply (lex_eq dcmp); [|apply (fun x => cl_range _ _ (dcmp_laws x))|exact H].
    intros [d v] [d' w] Hx Hy E. unfold dcmp in E; simpl in E.
    assert (Pv : plainb v = true).
    { unfold oitem_key in Hx. apply in_app_or in Hx. destruct Hx as [Hx|Hx].
      - rewrite forallb_forall in Ka. apply (Ka _ Hx).
      - apply in_map_iff in Hx. destruct Hx as [v0 [Ev Hv]]. inv Ev. unfold plain_row in Ra. rewrite forallb_forall in Ra. auto. }
    assert (Pw : plainb w = true).
    { unfold oitem_key in Hy. apply in_app_or in Hy. destruct Hy as [Hy|Hy].
      - rewrite forallb_forall in Kb. apply (Kb _ Hy).
      - apply in_map_iff in Hy. destruct Hy as [v0 [Ev Hv]]. inv Ev. unfold plain_row in Rb. rewrite forallb_forall in Rb. auto. }
    destruct d, d'; simpl in E; try discriminate; f_equal.
    - symmetry. apply plain_vcompare_eq; assumption.
    - apply plain_vcompare_eq; assumption. }
  unfold oitem_key in E. destruct a as [ka ra], b as [kb rb]. simpl in *.
  assert (ka = kb /\ map (fun v => (false, v)) ra = map (fun v => (false, v)) rb) as [E1 E2].
  { apply app_inj_tail_iff || idtac.
    clear - E La Lb. subst n. revert kb Lb E. induction ka as [|x xs IH]; intros [|y ys] L E; simpl in *; try discriminate; [auto|].
    inv E. inv L. destruct (IH ys H0 H1). subst. auto. }
  subst. f_equal. clear - E2. revert rb E2. induction ra as [|x xs IH]; intros [|y ys] E; simpl in *; try discriminate; [reflexivity|].
  inv E. f_equal. auto.
Qed.

(* ------------------------------------------------------------------ aggregates *)
Lemma wrap64_add_l a b : wrap64 (wrap64 a + b) = wrap64 (a + b).
Proof.
  unfold wrap64. f_equal.
  replace ((a + two63) mod two64 - two63 + b + two63) with ((a + two63) mod two64 + b) by lia.
  rewrite Z.add_mod_idemp_l by (unfold two64; lia). f_equal. lia.
Qed.

Definition plain_vals (l : list value) : Prop := Forall (fun v => plainb v = true) l.

Lemma fold_count vs : forall c, fold_left agg_add vs (StCount c) = StCount (c + Z.of_nat (length vs)).
Proof. induction vs as [|v t IH]; intro c; simpl; [f_equal; lia|]. rewrite IH. f_equal. lia. Qed.

Lemma fold_sum vs : forall s, fold_left agg_add vs (StSum (wrap64 s)) = StSum (wrap64 (s + zsum (map int_of vs))).
Proof.
  induction vs as [|v t IH]; intro s; simpl; [f_equal; f_equal; lia|].
  rewrite wrap64_add_l, IH. f_equal. f_equal. lia.
Qed.

Lemma fold_avg vs : forall s c, fold_left agg_add vs (StAvg (wrap64 s) c) =
  StAvg (wrap64 (s + zsum (map int_of vs))) (c + Z.of_nat (length vs)).
Proof.
  induction vs as [|v t IH]; intros s c; simpl; [f_equal; [f_equal|]; lia|].
  rewrite wrap64_add_l, IH. f_equal; [f_equal|]; lia.
Qed.

Lemma fold_min vs : forall L, fold_left agg_add vs (StMin L) = StMin (fold_left (fun acc x => cadd vcompare x acc) vs L).
Proof. induction vs as [|v t IH]; intro L; simpl; [reflexivity|apply IH]. Qed.
Lemma fold_max vs : forall L, fold_left agg_add vs (StMax L) = StMax (fold_left (fun acc x => cadd vcompare x acc) vs L).
Proof. induction vs as [|v t IH]; intro L; simpl; [reflexivity|apply IH]. Qed.
Lemma fold_arr vs : forall L, fold_left agg_add vs (StArr L) = StArr (fold_left (fun acc x => cadd vcompare x acc) vs L).
Proof. induction vs as [|v t IH]; intro L; simpl; [reflexivity|apply IH]. Qed.

Definition PV (v : value) : Prop := plainb v = true.
Lemma PVeq : forall a b, PV a -> PV b -> vcompare a b = 0 -> a = b.
Proof. exact plain_vcompare_eq. Qed.

Lemma expand_cbuild_vals vs : plain_vals vs -> expand (cbuild vcompare vs) = sort_vals vs.
Proof. intro P. apply (expand_cbuild vcompare vcompare_laws PV PVeq). exact P. Qed.

Lemma cbuild_inv_vals vs : plain_vals vs -> cinv vcompare (cbuild vcompare vs).
Proof. intro P. apply (cbuild_inv vcompare vcompare_laws PV PVeq). exact P. Qed.

Definition agg_den_plain (f : aggfn) (vs : list value) : value :=
  match f with
  | ACount => VInt (Z.of_nat (length vs))
  | ASum => VInt (wrap64 (zsum (map int_of vs)))
  | AAvg => VInt (Z.quot (wrap64 (zsum (map int_of vs))) (Z.of_nat (length vs)))
  | AMin => match sort_vals vs with m :: _ => m | [] => VNull end
  | AMax => last (sort_vals vs) VNull
  | AArr => VList (sort_vals vs)
  end.

Lemma agg_plain_correct f vs : plain_vals vs -> vs <> [] ->
  agg_trigger (fold_left agg_add vs (agg_init_plain f)) = Ok (agg_den_plain f vs).
Proof.
  intros P NE.
  assert (LEN : (0 < length vs)%nat) by (destruct vs; [congruence|simpl; lia]).
  destruct f; simpl.
  - rewrite fold_count. reflexivity.
  - change 0 with (wrap64 0) at 1. rewrite fold_sum. reflexivity.
  - change (StAvg 0 0) with (StAvg (wrap64 0) 0). rewrite fold_avg. simpl.
    destruct (Z.eqb_spec (Z.of_nat (length vs)) 0); [lia|]. reflexivity.
  - rewrite fold_min. fold (cbuild vcompare vs).
    pose proof (expand_head vcompare vcompare_laws PV PVeq _ (cbuild_inv_vals vs P)) as H. rewrite expand_cbuild_vals in H by exact P.
    destruct (cbuild vcompare vs) as [|[m c] t].
    + exfalso. pose proof (isort_length vcompare vs) as L. unfold sort_vals in H. rewrite H in L. simpl in L. lia.
    + destruct (sort_vals vs); simpl in H; [discriminate|]. inv H. reflexivity.
  - rewrite fold_max. fold (cbuild vcompare vs).
    assert (NEc : cbuild vcompare vs <> []).
    { intro E. pose proof (expand_cbuild_vals vs P) as H. rewrite E in H. simpl in H.
      pose proof (isort_length vcompare vs) as L. unfold sort_vals in H. rewrite <- H in L. simpl in L. lia. }
    pose proof (expand_last vcompare vcompare_laws PV PVeq _ VNull (cbuild_inv_vals vs P) NEc) as H. rewrite expand_cbuild_vals in H by exact P.
    destruct (cbuild vcompare vs); [congruence|]. rewrite H. reflexivity.
  - rewrite fold_arr. fold (cbuild vcompare vs). simpl. rewrite expand_cbuild_vals by exact P. reflexivity.
Qed.

Lemma fold_distinct vs : forall m inner seen, dinv val_eqb m seen ->
  exists m', fold_left agg_add vs (StDistinct m inner) =
             StDistinct m' (fold_left agg_add (distinct_from val_eqb seen vs) inner).
Proof.
  induction vs as [|v t IH]; intros m inner seen I; simpl; [eexists; reflexivity|].
  destruct (dinv_step val_eqb val_eqb_refl val_eqb_sym val_eqb_trans m seen v I) as [Hc I'].
  fold (seenb val_eqb seen v). destruct (seenb val_eqb seen v); simpl in Hc; rewrite Hc; apply IH; exact I'.
Qed.

Lemma dedup_plain vs : plain_vals vs -> plain_vals (dedup_vals vs).
Proof.
  intro P. apply Forall_forall. intros x Hx. apply (distinct_from_in val_eqb) in Hx. destruct Hx as [Hx _].
  unfold plain_vals in P. rewrite Forall_forall in P. auto.
Qed.

Lemma dedup_nonempty vs : vs <> [] -> dedup_vals vs <> [].
Proof. destruct vs; [congruence|]. intros _. unfold dedup_vals. simpl. discriminate. Qed.

Theorem agg_correct f d vs : plain_vals vs -> vs <> [] ->
  agg_trigger (fold_left agg_add vs (agg_init f d)) = Ok (agg_den f d vs).
Proof.
  intros P NE. unfold agg_init, agg_den. destruct vs as [|v0 t0] eqn:E; [congruence|]. rewrite <- E in *. clear E.
  destruct d.
  - destruct (fold_distinct vs [] (agg_init_plain f) [] (dinv_nil val_eqb)) as [m' ->]. simpl.
    fold (dedup_vals vs). rewrite agg_plain_correct; [|apply dedup_plain; exact P|apply dedup_nonempty; exact NE].
    destruct f; reflexivity.
  - rewrite agg_plain_correct by assumption. destruct f; reflexivity.
Qed.

(* ------------------------------------------------------------------ SimpleGroupBy *)
Lemma row_eqb_trans' a b c : row_eqb a b = true -> row_eqb b c = true -> row_eqb a c = true.
Proof. apply row_eqb_trans. Qed.

Definition ginit (aggs : list aggcall) : gitem :=
  mkgitem (map (fun a : aggcall => agg_init (fst (fst a)) (snd (fst a))) aggs) (map (fun _ => 0) aggs) 0.
Definition gadd (it : gitem) (inputs : list value) : gitem :=
  let '(sts, sizes) := add_inputs (g_states it) (g_sizes it) inputs in mkgitem sts sizes (g_count it + 1).
Definition gstate (aggs : list aggcall) (g : list keyed) : gitem :=
  fold_left (fun it kr => gadd it (snd kr)) g (ginit aggs).

Lemma group_step_eq aggs m kr :
  group_step aggs m kr =
  aput row_eqb m (fst kr) (gadd (match aget row_eqb m (fst kr) with Some it => it | None => ginit aggs end) (snd kr)).
Proof.
  destruct kr as [k inputs]. unfold group_step, gadd. simpl.
  destruct (aget row_eqb m k); simpl; destruct (add_inputs _ _ inputs); reflexivity.
Qed.

Definition same_key (k : list value) (kr : keyed) : bool := row_eqb (fst kr) k.
Definition expected (aggs : list aggcall) (P : list keyed) : list (list value * gitem) :=
  map (fun k => (k, gstate aggs (filter (same_key k) P))) (den_distinct (map fst P)).

Lemma distinct_from_snoc {K} (keq : K -> K -> bool) l x : forall seen,
  distinct_from keq seen (l ++ [x]) =
  distinct_from keq seen l ++ (if seenb keq (seen ++ distinct_from keq seen l) x then [] else [x]).
Proof.
  induction l as [|y t IH]; intro seen; simpl.
  - rewrite app_nil_r. fold (seenb keq seen x). destruct (seenb keq seen x); reflexivity.
  - fold (seenb keq seen y). destruct (seenb keq seen y).
    + apply IH.
    + simpl. rewrite IH.
      assert (E : seenb keq ((y :: seen) ++ distinct_from keq (y :: seen) t) x =
                  seenb keq (seen ++ y :: distinct_from keq (y :: seen) t) x).
      { unfold seenb. rewrite !existsb_app. simpl.
        destruct (existsb (fun s => keq s x) seen), (keq y x); simpl; reflexivity. }
      rewrite E. reflexivity.
Qed.

Lemma filter_same_key_cong k k' P : row_eqb k k' = true -> filter (same_key k) P = filter (same_key k') P.
Proof.
  intro H. apply filter_ext. intro kr. unfold same_key. apply row_eqb_cong_r. exact H.
Qed.

Lemma aget_map_expected (F : list value -> gitem) ks kx :
  aget row_eqb (map (fun k => (k, F k)) ks) kx =
  match find (fun k => row_eqb k kx) ks with Some k0 => Some (F k0) | None => None end.
Proof. induction ks as [|k t IH]; simpl; [reflexivity|]. destruct (row_eqb k kx); [reflexivity|exact IH]. Qed.

Lemma aput_map_expected (F G : list value -> gitem) ks kx v :
  pairwise_distinct row_eqb ks ->
  (forall k, In k ks -> G k = if row_eqb k kx then v else F k) ->
  aput row_eqb (map (fun k => (k, F k)) ks) kx v =
  map (fun k => (k, G k)) ks ++ (if seenb row_eqb ks kx then [] else [(kx, v)]).
Proof.
  induction ks as [|k t IH]; simpl; intros PD HG; [reflexivity|].
  destruct PD as [Hk PD]. rewrite (HG k (or_introl eq_refl)).
  destruct (row_eqb k kx) eqn:E; simpl.
  - rewrite app_nil_r. f_equal. apply map_ext_in. intros k' Hk'. f_equal. rewrite (HG k' (or_intror Hk')).
    destruct (row_eqb k' kx) eqn:E'; [|reflexivity].
    rewrite row_eqb_sym in E'. specialize (Hk k' Hk'). rewrite (row_eqb_trans k kx k' E E') in Hk. discriminate.
  - f_equal. apply IH; [exact PD|]. intros; apply HG; auto.
Qed.

Lemma gstate_snoc aggs g x : gstate aggs (g ++ [x]) = gadd (gstate aggs g) (snd x).
Proof. unfold gstate. rewrite fold_left_app. reflexivity. Qed.

Lemma find_seen ks kx : match find (fun k => row_eqb k kx) ks with
                        | Some k0 => In k0 ks /\ row_eqb k0 kx = true /\ seenb row_eqb ks kx = true
                        | None => seenb row_eqb ks kx = false end.
Proof.
  induction ks as [|k t IH]; simpl; [reflexivity|]. destruct (row_eqb k kx) eqn:E; [auto|].
  destruct (find _ t); simpl; [|exact IH]. destruct IH as [H1 [H2 H3]]. auto.
Qed.

Lemma filter_unseen (ks : list row) kx (P : list keyed) :
  seenb row_eqb ks kx = false -> (forall kr, In kr P -> seenb row_eqb ks (fst kr) = true) ->
  filter (same_key kx) P = [].
Proof.
  intros S COV. induction P as [|kr P IH]; simpl; [reflexivity|].
  unfold same_key at 1. destruct (row_eqb (fst kr) kx) eqn:E.
  - rewrite <- (seenb_cong row_eqb row_eqb_sym row_eqb_trans ks _ _ E) in S. rewrite COV in S; [discriminate|simpl; auto].
  - apply IH. intros; apply COV; simpl; auto.
Qed.

Lemma group_fold aggs l : forall P, fold_left (group_step aggs) l (expected aggs P) = expected aggs (P ++ l).
Proof.
  induction l as [|x t IH]; intro P; simpl; [rewrite app_nil_r; reflexivity|].
  replace (P ++ x :: t) with ((P ++ [x]) ++ t) by (rewrite <- app_assoc; reflexivity).
  rewrite <- IH. f_equal.
  rewrite group_step_eq. unfold expected at 1 2.
  set (ks := den_distinct (map fst P)).
  rewrite aget_map_expected.
  pose proof (find_seen ks (fst x)) as FS.
  assert (COV : forall kr, In kr P -> seenb row_eqb ks (fst kr) = true).
  { intros kr Hkr. apply (distinct_from_covers row_eqb row_eqb_refl [] (map fst P)). apply in_map. exact Hkr. }
  assert (KS' : den_distinct (map fst (P ++ [x])) = ks ++ (if seenb row_eqb ks (fst x) then [] else [fst x])).
  { unfold den_distinct, ks. rewrite map_app. simpl. rewrite distinct_from_snoc. reflexivity. }
  unfold expected. rewrite KS'.
  assert (FILT : forall k, filter (same_key k) (P ++ [x]) = filter (same_key k) P ++ (if row_eqb (fst x) k then [x] else [])).
  { intro k. rewrite filter_app. simpl. unfold same_key at 2. destruct (row_eqb (fst x) k); reflexivity. }
  rewrite map_app.
  rewrite (aput_map_expected (fun k => gstate aggs (filter (same_key k) P))
                             (fun k => gstate aggs (filter (same_key k) (P ++ [x]))) ks).
  - f_equal. destruct (seenb row_eqb ks (fst x)) eqn:S; [reflexivity|]. simpl. f_equal. f_equal.
    destruct (find (fun k0 => row_eqb k0 (fst x)) ks); [destruct FS as [_ [_ FS]]; discriminate|].
    rewrite FILT, row_eqb_refl.
    rewrite (filter_unseen ks (fst x) P S COV). simpl. unfold gstate. reflexivity.
  - apply (distinct_from_nodup row_eqb).
  - intros k Hk. rewrite FILT. rewrite (row_eqb_sym (fst x) k).
    destruct (row_eqb k (fst x)) eqn:E; [|rewrite app_nil_r; reflexivity].
    rewrite gstate_snoc. f_equal.
    destruct (find (fun k0 => row_eqb k0 (fst x)) ks) as [k0|] eqn:F.
    + destruct FS as [_ [E0 _]]. f_equal. apply filter_same_key_cong.
      rewrite row_eqb_sym in E0. apply (row_eqb_trans k (fst x) k0 E E0).
    + exfalso. apply find_none with (x := k) in F; [|exact Hk]. simpl in F. congruence.
Qed.

Lemma group_fold_nil aggs l : fold_left (group_step aggs) l [] = expected aggs l.
Proof. apply (group_fold aggs l []). Qed.

(* per group: the state vector column by column *)
Definition shift (g : list keyed) : list keyed := map (fun kr => (fst kr, tl (snd kr))) g.

Lemma col_cons i kr t : col i (kr :: t) = (match nth_error (snd kr) i with Some v => [v] | None => [] end) ++ col i t.
Proof. reflexivity. Qed.

Lemma col_shift i g : col (S i) g = col i (shift g).
Proof.
  induction g as [|kr t IH]; [reflexivity|].
  change (shift (kr :: t)) with ((fst kr, tl (snd kr)) :: shift t). rewrite !col_cons, IH. f_equal.
  cbn [snd]. destruct (snd kr); [destruct i|]; reflexivity.
Qed.

Definition gfold (sts : list aggstate) (sizes : list Z) (g : list keyed) : list aggstate * list Z :=
  fold_left (fun p kr => add_inputs (fst p) (snd p) (snd kr)) g (sts, sizes).

Lemma add_inputs_nil sts sizes : add_inputs sts sizes [] = (sts, sizes).
Proof. destruct sts, sizes; reflexivity. Qed.

Lemma gfold_step sts sizes kr t :
  gfold sts sizes (kr :: t) = gfold (fst (add_inputs sts sizes (snd kr))) (snd (add_inputs sts sizes (snd kr))) t.
Proof. unfold gfold. simpl. destruct (add_inputs sts sizes (snd kr)); reflexivity. Qed.

Lemma gfold_cons g : forall st sts n sizes,
  gfold (st :: sts) (n :: sizes) g =
  (fold_left agg_add (nonnull (col 0 g)) st :: fst (gfold sts sizes (shift g)),
   (n + Z.of_nat (length (nonnull (col 0 g)))) :: snd (gfold sts sizes (shift g))).
Proof.
  induction g as [|[k inputs] t IH]; intros st sts n sizes.
  - unfold gfold; simpl. f_equal. f_equal. lia.
  - change (shift ((k, inputs) :: t)) with ((k, tl inputs) :: shift t).
    rewrite !gfold_step, col_cons. cbn [snd].
    destruct inputs as [|v rest].
    + cbn [tl nth_error app]. rewrite !add_inputs_nil. cbn [fst snd]. apply IH.
    + cbn [tl nth_error app]. simpl add_inputs. destruct (add_inputs sts sizes rest) as [a b] eqn:AI.
      assert (NN : nonnull (v :: col 0 t) = if is_null v then nonnull (col 0 t) else v :: nonnull (col 0 t)).
      { unfold nonnull. simpl. destruct (is_null v); reflexivity. }
      rewrite NN. destruct (is_null v) eqn:NV; cbn [negb fst snd].
      * rewrite IH. reflexivity.
      * rewrite IH. cbn [fold_left length]. f_equal. f_equal. lia.
Qed.

Lemma gstate_gfold aggs g :
  g_states (gstate aggs g) = fst (gfold (g_states (ginit aggs)) (g_sizes (ginit aggs)) g) /\
  g_sizes (gstate aggs g) = snd (gfold (g_states (ginit aggs)) (g_sizes (ginit aggs)) g).
Proof.
  unfold gstate, gfold. generalize (ginit aggs). induction g as [|kr t IH]; intro it; simpl; [auto|].
  assert (E : add_inputs (g_states it) (g_sizes it) (snd kr) = (g_states (gadd it (snd kr)), g_sizes (gadd it (snd kr)))).
  { unfold gadd. destruct (add_inputs (g_states it) (g_sizes it) (snd kr)); reflexivity. }
  rewrite E. apply IH.
Qed.

Definition plain_keyed (g : list keyed) : Prop := Forall (fun kr : keyed => plain_vals (snd kr)) g.

Lemma plain_col g i : plain_keyed g -> plain_vals (nonnull (col i g)).
Proof.
  intro P. apply Forall_forall. intros v Hv. unfold nonnull in Hv. apply filter_In in Hv. destruct Hv as [Hv _].
  unfold col in Hv. apply in_flat_map in Hv. destruct Hv as [kr [Hkr Hv]].
  unfold plain_keyed in P. rewrite Forall_forall in P. specialize (P kr Hkr). unfold plain_vals in P. rewrite Forall_forall in P.
  destruct (nth_error (snd kr) i) eqn:E; [|destruct Hv]. destruct Hv as [<-|[]]. apply P. eapply nth_error_In; eassumption.
Qed.

Lemma plain_shift g : plain_keyed g -> plain_keyed (shift g).
Proof.
  unfold plain_keyed, shift. rewrite !Forall_forall. intros P kr Hkr. apply in_map_iff in Hkr. destruct Hkr as [kr0 [<- H0]]. simpl.
  specialize (P kr0 H0). unfold plain_vals in *. destruct (snd kr0); simpl; [constructor|]. inv P. assumption.
Qed.

Lemma aggs_den_shift aggs : forall i g, aggs_den aggs (S i) g = aggs_den aggs i (shift g).
Proof. induction aggs as [|[[f d] e] t IH]; intros i g; simpl; [reflexivity|]. rewrite col_shift, IH. reflexivity. Qed.

Lemma group_outputs_correct aggs : forall g, plain_keyed g ->
  group_outputs (fst (gfold (g_states (ginit aggs)) (g_sizes (ginit aggs)) g))
                (snd (gfold (g_states (ginit aggs)) (g_sizes (ginit aggs)) g)) = Ok (aggs_den aggs 0 g).
Proof.
  induction aggs as [|[[f d] e] t IH]; intros g P.
  - simpl. unfold gfold. assert (E : forall g0 : list keyed, fold_left (fun p kr => add_inputs (fst p) (snd p) (snd kr)) g0 ([], []) = ([], [])).
    { induction g0; simpl; [reflexivity|]. assumption. }
    rewrite E. reflexivity.
  - simpl. rewrite gfold_cons. simpl.
    specialize (IH (shift g) (plain_shift g P)). simpl in IH. rewrite IH. rewrite aggs_den_shift.
    pose proof (plain_col g 0 P) as PC.
    destruct (nonnull (col 0 g)) as [|v0 vs0] eqn:E.
    + simpl. reflexivity.
    + rewrite <- E in *. assert (NE : nonnull (col 0 g) <> []) by (rewrite E; discriminate).
      destruct (Z.ltb_spec 0 (Z.of_nat (length (nonnull (col 0 g))))) as [L|L].
      * rewrite (agg_correct f d _ PC NE). reflexivity.
      * rewrite E in L. simpl in L. lia.
Qed.

(* C03_set_size: AggregatedSetSize of a group = the number of its non-NULL inputs, per aggregate *)
Fixpoint sizes_den (n i : nat) (g : list keyed) : list Z :=
  match n with O => [] | S n' => Z.of_nat (length (nonnull (col i g))) :: sizes_den n' (S i) g end.

Lemma sizes_den_shift n : forall i g, sizes_den n (S i) g = sizes_den n i (shift g).
Proof. induction n as [|n IH]; intros; simpl; [reflexivity|]. rewrite col_shift, IH. reflexivity. Qed.

Lemma set_size_correct aggs g : g_sizes (gstate aggs g) = sizes_den (length aggs) 0 g.
Proof.
  rewrite (proj2 (gstate_gfold aggs g)). revert g. induction aggs as [|a t IH]; intro g; simpl.
  - unfold gfold. induction g; simpl; [reflexivity|]. assumption.
  - rewrite gfold_cons. simpl. simpl in IH. rewrite IH, sizes_den_shift. reflexivity.
Qed.

Lemma mapM_ok_map {A B} (f : A -> outcome B) (g : A -> B) l : (forall x, In x l -> f x = Ok (g x)) -> mapM f l = Ok (map g l).
Proof.
  induction l as [|x t IH]; intro H; simpl; [reflexivity|]. rewrite (H x (or_introl eq_refl)). simpl.
  rewrite IH by (intros; apply H; simpl; auto). reflexivity.
Qed.

Lemma plain_filter k g : plain_keyed g -> plain_keyed (filter (same_key k) g).
Proof. unfold plain_keyed. rewrite !Forall_forall. intros P kr H. apply filter_In in H. apply P, H. Qed.

Theorem group_node_correct aggs l : plain_keyed l -> group_node aggs l = Ok (den_group aggs l).
Proof.
  intro P. unfold group_node, den_group. rewrite group_fold_nil. unfold expected.
  rewrite (mapM_ok_map _ (fun kit : list value * gitem => fst kit ++ aggs_den aggs 0 (filter (same_key (fst kit)) l))).
  - rewrite map_map. reflexivity.
  - intros [k it] H. apply in_map_iff in H. destruct H as [k0 [E _]]. inv E. simpl.
    destruct (gstate_gfold aggs (filter (same_key k) l)) as [-> ->].
    rewrite group_outputs_correct by (apply plain_filter; exact P). reflexivity.
Qed.

(* ------------------------------------------------------------------ the other operators *)
Lemma filter_node_eq s e rows : filter_node s e rows = filter_rows s (Some e) rows.
Proof.
  unfold filter_node, filter_rows. destruct (mapM _ rows) as [l| |]; simpl; try reflexivity. f_equal.
  induction l as [|[b r] t IH]; simpl; [reflexivity|]. destruct b; simpl; rewrite IH; reflexivity.
Qed.

Lemma distinct_node_eq rows : distinct_node rows = den_distinct rows.
Proof.
  unfold distinct_node, den_distinct.
  rewrite (distinct_fold row_eqb row_eqb_refl row_eqb_sym row_eqb_trans rows [] [] [] (dinv_nil row_eqb)). reflexivity.
Qed.

Lemma limit_loop_eq n rows : forall i, 0 <= i < n -> limit_loop n i rows = firstn (Z.to_nat (n - i)) rows.
Proof.
  induction rows as [|r t IH]; intros i Hi; simpl; [destruct (Z.to_nat (n - i)); reflexivity|].
  destruct (Z.to_nat (n - i)) as [|k] eqn:E; [lia|]. simpl. f_equal.
  destruct (Z.eqb_spec (i + 1) n) as [e|ne].
  - replace k with O by lia. reflexivity.
  - rewrite IH by lia. f_equal. lia.
Qed.

Lemma limit_node_eq n rows : 0 <= n -> limit_node n rows = firstn (Z.to_nat n) rows.
Proof.
  intro H. unfold limit_node. destruct (Z.eqb_spec n 0) as [->|ne]; [reflexivity|].
  rewrite limit_loop_eq by lia. f_equal. lia.
Qed.

(* ------------------------------------------------------------------ plainness is preserved *)
Lemma forallb_In {A} (f : A -> bool) l x : forallb f l = true -> In x l -> f x = true.
Proof. rewrite forallb_forall. auto. Qed.

Lemma apply_bin_plain op a b v : apply_bin op a b = Ok v -> plainb v = true.
Proof.
  unfold apply_bin. destruct (is_null a || is_null b); [intro H; inv H; reflexivity|].
  destruct op; try (intro H; inv H; reflexivity);
    try (destruct (tid a =? tid b); intro H; inv H; reflexivity);
    destruct a; try discriminate; destruct b; try discriminate; intro H; inv H; reflexivity.
Qed.

Lemma apply_un_plain op a v : apply_un op a = Ok v -> plainb v = true.
Proof. destruct op; simpl; try (intro H; inv H; reflexivity); destruct a; try discriminate; intro H; inv H; reflexivity. Qed.

Lemma eval_plain s e : forall r v, plain_row r = true -> plain_expr e = true -> eval s e r = Ok v -> plainb v = true.
Proof.
  induction e as [q n|lit|op a IHa b IHb|op a IHa|a IHa b IHb|a IHa b IHb]; intros r v Pr Pe H; simpl in *.
  - destruct (resolve s q n) as [ix| |]; simpl in H; try discriminate. destruct (nth_error r ix) eqn:E; inv H.
    apply (forallb_In plainb r v Pr). eapply nth_error_In; eassumption.
  - inv H. exact Pe.
  - apply andb_true_iff in Pe. destruct Pe as [Pa Pb].
    destruct (eval s a r) as [va| |]; simpl in H; try discriminate.
    destruct (eval s b r) as [vb| |]; simpl in H; try discriminate. eapply apply_bin_plain; eassumption.
  - destruct (eval s a r) as [va| |]; simpl in H; try discriminate. eapply apply_un_plain; eassumption.
  - destruct (eval s a r) as [va| |]; simpl in H; try discriminate.
    destruct va as [ | | |[|]| | | | | | ]; try discriminate; try (inv H; reflexivity);
      destruct (eval s b r) as [vb| |]; simpl in H; try discriminate;
      destruct vb as [ | | |[|]| | | | | | ]; try discriminate; inv H; reflexivity.
  - destruct (eval s a r) as [va| |]; simpl in H; try discriminate.
    destruct va as [ | | |[|]| | | | | | ]; try discriminate; try (inv H; reflexivity);
      destruct (eval s b r) as [vb| |]; simpl in H; try discriminate;
      destruct vb as [ | | |[|]| | | | | | ]; try discriminate; inv H; reflexivity.
Qed.

Lemma mapM_ok {A B} (f : A -> outcome B) l ys : mapM f l = Ok ys -> Forall2 (fun x y => f x = Ok y) l ys.
Proof.
  revert ys. induction l as [|x t IH]; intros ys H; simpl in H; [inv H; constructor|].
  destruct (f x) eqn:E; simpl in H; try discriminate. destruct (mapM f t); simpl in H; try discriminate. inv H.
  constructor; auto.
Qed.

Lemma mapM_forall {A B} (f : A -> outcome B) (P : A -> Prop) (Q : B -> Prop) l ys :
  (forall x y, P x -> f x = Ok y -> Q y) -> Forall P l -> mapM f l = Ok ys -> Forall Q ys.
Proof.
  intros H Pl M. apply mapM_ok in M. induction M; [constructor|]. inv Pl. constructor; eauto.
Qed.

Definition prow (r : row) : Prop := plain_row r = true.
Lemma prows_iff rows : forallb plain_row rows = true <-> Forall prow rows.
Proof. rewrite forallb_forall, Forall_forall. reflexivity. Qed.

Lemma plain_row_vals r : plain_row r = true <-> plain_vals r.
Proof. unfold plain_row, plain_vals. rewrite forallb_forall, Forall_forall. reflexivity. Qed.

Lemma filter_rows_plain s wh rows rows' : Forall prow rows -> filter_rows s wh rows = Ok rows' -> Forall prow rows'.
Proof.
  intros P H. destruct wh as [e|]; simpl in H; [|inv H; exact P].
  destruct (mapM _ rows) as [l| |] eqn:M; simpl in H; inv H.
  assert (F : Forall (fun br : bool * row => prow (snd br)) l).
  { eapply mapM_forall; [|exact P|exact M]. intros r [b r'] Pr H. simpl in H.
    destruct (eval s e r); simpl in H; inv H. exact Pr. }
  clear M. induction l as [|[b r] t IH]; simpl; [constructor|]. inv F. destruct b; simpl; [constructor|]; auto.
Qed.

Lemma eval_items_plain s items r r' : forallb plain_item items = true -> prow r -> eval_items s items r = Ok r' -> prow r'.
Proof.
  intros Pi Pr H. unfold eval_items in H. destruct (mapM _ items) as [vs| |] eqn:M; simpl in H; inv H.
  assert (F : Forall prow vs).
  { rewrite forallb_forall in Pi. eapply mapM_forall with (P := fun i => plain_item i = true); [| apply Forall_forall; exact Pi | exact M].
    intros [e a|f d a al| |q] y Pit H; simpl in H.
    - destruct (eval s e r) eqn:E; simpl in H; inv H. unfold prow. simpl. rewrite (eval_plain s e r a0 Pr Pit E). reflexivity.
    - discriminate.
    - inv H. exact Pr.
    - inv H. unfold prow, plain_row in *. rewrite forallb_forall in *. intros v Hv.
      apply in_map_iff in Hv. destruct Hv as [[f v'] [<- Hv]]. apply filter_In in Hv. destruct Hv as [Hv _].
      apply in_combine_r in Hv. auto. }
  clear M. unfold prow, plain_row in *. induction F; simpl; [reflexivity|]. rewrite forallb_app, H, IHF. reflexivity.
Qed.

Lemma eval_keyed_plain s keys aggs r kr : forallb plain_expr keys = true ->
  forallb (fun a : aggcall => plain_expr (snd a)) aggs = true -> prow r ->
  eval_keyed s keys aggs r = Ok kr -> plain_vals (fst kr) /\ plain_vals (snd kr).
Proof.
  intros Pk Pa Pr H. unfold eval_keyed in H.
  destruct (mapM (fun k => eval s k r) keys) as [kv| |] eqn:M1; simpl in H; try discriminate.
  destruct (mapM _ aggs) as [av| |] eqn:M2; simpl in H; inv H. simpl. split.
  - rewrite forallb_forall in Pk. eapply mapM_forall with (P := fun k => plain_expr k = true); [|apply Forall_forall; exact Pk|exact M1].
    intros k v Pkk E. exact (eval_plain s k r v Pr Pkk E).
  - rewrite forallb_forall in Pa. eapply mapM_forall with (P := fun a : aggcall => plain_expr (snd a) = true); [|apply Forall_forall; exact Pa|exact M2].
    intros [[f d] e] v Pe E. simpl in *. destruct (eval s e r) eqn:EV; simpl in E; try discriminate.
    destruct (agg_input_ok f a); inv E. exact (eval_plain s e r v Pr Pe EV).
Qed.

Lemma sort_vals_plain vs : plain_vals vs -> plain_vals (sort_vals vs).
Proof. unfold plain_vals. rewrite !Forall_forall. intros P x Hx. apply P. apply (isort_in vcompare). exact Hx. Qed.

Lemma agg_den_plainb f d vs : plain_vals vs -> plainb (agg_den f d vs) = true.
Proof.
  intro P. unfold agg_den. destruct vs as [|v0 t0] eqn:E; [reflexivity|]. rewrite <- E in *. clear E.
  set (ws := if d then dedup_vals vs else vs).
  assert (Pw : plain_vals ws) by (unfold ws; destruct d; [apply dedup_plain|]; exact P).
  apply sort_vals_plain in Pw. unfold plain_vals in Pw.
  destruct f; try reflexivity.
  - destruct (sort_vals ws); [reflexivity|]. inv Pw. assumption.
  - destruct (sort_vals ws) as [|x l] eqn:E; [reflexivity|].
    rewrite Forall_forall in Pw. apply Pw. rewrite <- E.
    assert (NE : sort_vals ws <> []) by (rewrite E; discriminate).
    rewrite (app_removelast_last VNull NE) at 2. apply in_or_app. right. left. reflexivity.
  - simpl. rewrite forallb_forall. rewrite Forall_forall in Pw. exact Pw.
Qed.

Lemma aggs_den_plain aggs : forall i g, plain_keyed g -> plain_vals (aggs_den aggs i g).
Proof.
  induction aggs as [|[[f d] e] t IH]; intros i g P; simpl; [constructor|].
  constructor; [apply agg_den_plainb, plain_col, P|apply IH, P].
Qed.

Lemma den_group_plain aggs kl : Forall (fun kr : keyed => plain_vals (fst kr) /\ plain_vals (snd kr)) kl ->
  Forall prow (den_group aggs kl).
Proof.
  intro P. unfold den_group. apply Forall_forall. intros r Hr. apply in_map_iff in Hr. destruct Hr as [k [<- Hk]].
  apply plain_row_vals. apply Forall_app. split.
  - apply (distinct_from_in row_eqb) in Hk. destruct Hk as [Hk _]. apply in_map_iff in Hk. destruct Hk as [kr [<- Hkr]].
    rewrite Forall_forall in P. apply (P kr Hkr).
  - apply aggs_den_plain. apply plain_filter. unfold plain_keyed. eapply Forall_impl; [|exact P]. intros a [_ H]. exact H.
Qed.

Lemma project_plain cols r r' : prow r -> project cols r = Ok r' -> prow r'.
Proof.
  intros Pr H. unfold project in H. apply plain_row_vals.
  eapply mapM_forall with (P := fun _ => True); [|apply Forall_forall; auto|exact H].
  intros c v _ E. cbv beta in E. destruct (nth_error r c) as [w|] eqn:N; [|discriminate]. inv E. apply (forallb_In plainb r v Pr). exact (nth_error_In r c N).
Qed.

Lemma den_distinct_plain rows : Forall prow rows -> Forall prow (den_distinct rows).
Proof. rewrite !Forall_forall. intros P r H. apply (distinct_from_in row_eqb) in H. apply P, H. Qed.

Lemma firstn_forall {A} (P : A -> Prop) n l : Forall P l -> Forall P (firstn n l).
Proof. intro H. revert n. induction H; intros [|n]; simpl; constructor; auto. Qed.

(* ------------------------------------------------------------------ ORDER BY / LIMIT *)
Lemma mapM_length {A B} (f : A -> outcome B) l ys : mapM f l = Ok ys -> length ys = length l.
Proof. intro H. apply mapM_ok in H. induction H; simpl; auto. Qed.

Lemma eval_okey_plain s ob r it : forallb (fun kd : expr * bool => plain_expr (fst kd)) ob = true -> prow r ->
  eval_okey s ob r = Ok it -> plain_oitem (length ob) it /\ snd it = r.
Proof.
  intros Po Pr H. unfold eval_okey in H. destruct (mapM _ ob) as [k| |] eqn:M; simpl in H; inv H. simpl.
  split; [|reflexivity]. split; [exact (mapM_length _ _ _ M)|]. split; [|exact Pr].
  rewrite forallb_forall in Po.
  assert (F : Forall (fun dv : dval => plainb (snd dv) = true) k).
  { eapply mapM_forall with (P := fun kd : expr * bool => plain_expr (fst kd) = true); [|apply Forall_forall; exact Po|exact M].
    intros [e d] [d' v] Pe E. simpl in *. destruct (eval s e r) eqn:EV; simpl in E; inv E. exact (eval_plain s e r v Pr Pe EV). }
  rewrite forallb_forall. rewrite Forall_forall in F. exact F.
Qed.

Lemma okeys_plain s ob rows its : forallb (fun kd : expr * bool => plain_expr (fst kd)) ob = true -> Forall prow rows ->
  mapM (eval_okey s ob) rows = Ok its -> Forall (plain_oitem (length ob)) its /\ Forall (fun it : oitem => prow (snd it)) its.
Proof.
  intros Po P M. split.
  - eapply mapM_forall; [|exact P|exact M]. intros r it Pr E. apply (eval_okey_plain s ob r it Po Pr E).
  - eapply mapM_forall; [|exact P|exact M]. intros r it Pr E. destruct (eval_okey_plain s ob r it Po Pr E) as [_ ->]. exact Pr.
Qed.

Lemma ost_sorted_eq n its : Forall (plain_oitem n) its -> expand (cbuild oitem_cmp its) = isort oitem_cmp its.
Proof. intro P. apply (expand_cbuild oitem_cmp oitem_laws (plain_oitem n) (oitem_eq n)). exact P. Qed.

Lemma order_limit_eq s ob lim rows : ob <> [] -> opt_all (fun n => 0 <=? n) lim = true ->
  forallb (fun kd : expr * bool => plain_expr (fst kd)) ob = true -> Forall prow rows ->
  obind (mapM (eval_okey s ob) rows) (ost_node lim) = obind (den_order s ob rows) (den_limit lim).
Proof.
  intros NE Hl Po P. unfold den_order. destruct ob as [|kd ob']; [congruence|].
  destruct (mapM _ rows) as [its| |] eqn:M; simpl; try reflexivity.
  destruct (okeys_plain s _ rows its Po P M) as [PI _].
  unfold ost_node, den_limit. rewrite (ost_sorted_eq _ its PI).
  destruct lim as [n|]; [|reflexivity]. simpl in Hl.
  destruct (Z.eqb_spec n 0) as [->|ne]; [reflexivity|]. destruct (n <? 0); reflexivity.
Qed.

Lemma den_order_plain s ob rows rows' : forallb (fun kd : expr * bool => plain_expr (fst kd)) ob = true ->
  Forall prow rows -> den_order s ob rows = Ok rows' -> Forall prow rows'.
Proof.
  intros Po P H. unfold den_order in H. destruct ob as [|kd ob']; [inv H; exact P|].
  destruct (mapM _ rows) as [its| |] eqn:M; simpl in H; inv H.
  destruct (okeys_plain s _ rows its Po P M) as [_ PS].
  apply Forall_forall. intros r Hr. apply in_map_iff in Hr. destruct Hr as [it [<- Hit]].
  rewrite Forall_forall in PS. apply PS. apply (isort_in oitem_cmp). exact Hit.
Qed.

Lemma den_limit_plain lim rows rows' : Forall prow rows -> den_limit lim rows = Ok rows' -> Forall prow rows'.
Proof.
  intros P H. unfold den_limit in H. destruct lim as [n|]; [|inv H; exact P].
  destruct (n <? 0); inv H. apply firstn_forall. exact P.
Qed.

(* ------------------------------------------------------------------ the main theorem *)
Scheme query_mut := Induction for query Sort Prop
  with source_mut := Induction for source Sort Prop.
Combined Scheme query_source_ind from query_mut, source_mut.

Lemma single_star_eq items : single_star items = true -> items = [IStar].
Proof. destruct items as [|[| | |] [|]]; simpl; try discriminate. reflexivity. Qed.

Lemma aggs_of_plain items : forallb plain_item items = true -> forallb (fun a : aggcall => plain_expr (snd a)) (aggs_of items) = true.
Proof.
  induction items as [|i t IH]; simpl; [reflexivity|]. intro H. apply andb_true_iff in H. destruct H as [Hi Ht].
  unfold aggs_of in *. simpl. destruct i; simpl; auto. simpl in Hi. rewrite Hi. simpl. auto.
Qed.

(* the Map of Variables over the GroupBy node reads the columns group_cols says, when every name resolves to
   its column *)
Lemma list_eqb_eq {A} (eqb : A -> A -> bool) : (forall a b, eqb a b = true -> a = b) ->
  forall l l', list_eqb eqb l l' = true -> l = l'.
Proof.
  intros E. induction l as [|x t IH]; intros [|y t'] H; simpl in H; try discriminate; [reflexivity|].
  apply andb_true_iff in H. destruct H as [H1 H2]. f_equal; auto.
Qed.
Lemma name_eqb_eq a b : name_eqb a b = true -> a = b.
Proof. apply list_eqb_eq. intros x y. apply Z.eqb_eq. Qed.
Lemma field_eqb_eq a b : field_eqb a b = true -> a = b.
Proof.
  destruct a as [qa na], b as [qb nb]. unfold field_eqb. simpl. intro H. apply andb_true_iff in H. destruct H as [H1 H2].
  apply name_eqb_eq in H2. subst. f_equal. destruct qa, qb; simpl in H1; try discriminate; [|reflexivity].
  apply name_eqb_eq in H1. subst. reflexivity.
Qed.
Lemma schema_eqb_eq a b : schema_eqb a b = true -> a = b.
Proof. apply list_eqb_eq. exact field_eqb_eq. Qed.

Lemma var_items_project s names : forall cols r, resolves_to s names cols = true ->
  eval_items s (map (fun n => IExpr (ECol None n) None) names) r = project cols r.
Proof.
  unfold eval_items, project.
  induction names as [|n t IH]; intros [|c cs] r H; simpl in H; try discriminate; [reflexivity|].
  apply andb_true_iff in H. destruct H as [H1 H2]. specialize (IH cs r H2).
  simpl. destruct (resolve s None n) as [i| |]; try discriminate. apply Nat.eqb_eq in H1. subst i. simpl.
  destruct (nth_error r c); simpl; [|reflexivity].
  destruct (mapM (fun i : item => eval_item s i r) (map (fun n0 => IExpr (ECol None n0) None) t)) as [vs| |];
    destruct (mapM (fun c0 => match nth_error r c0 with Some v0 => Ok v0 | None => Panic p_index end) cs) as [ws| |];
    simpl in *; try discriminate; try reflexivity; inv IH; reflexivity.
Qed.

Lemma mapM_ext {A B} (f g : A -> outcome B) l : (forall x, f x = g x) -> mapM f l = mapM g l.
Proof. intro H. induction l as [|x t IH]; simpl; [reflexivity|]. rewrite H, IH. reflexivity. Qed.

Lemma obind_assoc {A B C} (x : outcome A) (f : A -> outcome B) (g : B -> outcome C) :
  obind (obind x f) g = obind x (fun a => obind (f a) g).
Proof. destruct x; reflexivity. Qed.

Definition sel_plan (pinned pn : bool) (items : list item) (gb : list expr) (p1 : plan) : plan :=
  if grouping pinned items gb then PGroupMap gb (aggs_of items) (group_info pn items gb) p1
  else if single_star items then p1 else PMap items p1.

Lemma plan_of_q_unfold pinned pn dist items from wh gb ob lim :
  plan_of_q pinned pn (Q dist items from wh gb ob lim) =
  let p1 := match wh with Some e => PFilter e (plan_of_src pinned pn from) | None => plan_of_src pinned pn from end in
  let p3 := if dist then PDistinct (sel_plan pinned pn items gb p1) else sel_plan pinned pn items gb p1 in
  match ob, lim with [], None => p3 | _, _ => POrderLimit ob lim p3 end.
Proof. reflexivity. Qed.

Lemma den_q_unfold tables ctes dist items from wh gb ob lim :
  den_q tables ctes (Q dist items from wh gb ob lim) =
      obind (den_src tables ctes from) (fun src =>
      obind (filter_rows (rsch src) wh (rrows src)) (fun rows =>
      obind (sel_den (rsch src) items gb rows) (fun r1 =>
      obind (den_order (rsch r1) ob (if dist then den_distinct (rrows r1) else rrows r1)) (fun rows3 =>
      obind (den_limit lim rows3) (fun rows4 =>
      Ok (mkrel (rsch r1) rows4)))))).
Proof. reflexivity. Qed.

Lemma den_src_table tables ctes t alias :
  den_src tables ctes (STable t alias) =
  match lookup t tables with Some r => Ok (mkrel (qualify_table alias (rsch r)) (rrows r)) | None => Err e_unknown end.
Proof. reflexivity. Qed.
Lemma den_src_sub tables ctes q alias :
  den_src tables ctes (SSub q alias) = obind (den_q tables ctes q) (fun r => Ok (mkrel (requalify alias (rsch r)) (rrows r))).
Proof. reflexivity. Qed.
Lemma den_src_cte tables ctes n :
  den_src tables ctes (SCte n) = match lookup n ctes with Some r => Ok r | None => Err e_unknown end.
Proof. reflexivity. Qed.

Section Main.
  Variable tables : db.
  Hypothesis Pdb : plain_db tables = true.

  Definition good_ctes (ctes : list (name * rel)) : Prop := Forall (fun nr : name * rel => Forall prow (rrows (snd nr))) ctes.

  Lemma lookup_plain {l : list (name * rel)} n r :
    Forall (fun nr : name * rel => Forall prow (rrows (snd nr))) l -> lookup n l = Some r -> Forall prow (rrows r).
  Proof.
    induction l as [|[k v] t IH]; simpl; [discriminate|]. intros F H. inv F.
    destruct (name_eqb n k); [inv H; assumption|auto].
  Qed.

  Lemma tables_plain : Forall (fun nr : name * rel => Forall prow (rrows (snd nr))) tables.
  Proof.
    unfold plain_db in Pdb. rewrite forallb_forall in Pdb. apply Forall_forall. intros nr H.
    specialize (Pdb nr H). unfold plain_rel in Pdb. apply prows_iff. exact Pdb.
  Qed.

  Lemma sel_den_plain items gb s rows r1 : forallb plain_item items = true -> forallb plain_expr gb = true ->
    Forall prow rows -> sel_den s items gb rows = Ok r1 -> Forall prow (rrows r1).
  Proof.
    intros Pi Pg P H. unfold sel_den in H. destruct (grouping false items gb).
    - unfold group_sel_den in H. destruct (group_info false items gb) as [gi| |]; simpl in H; try discriminate.
      destruct (mapM _ rows) as [kl| |] eqn:M; simpl in H; try discriminate.
      assert (PK : Forall (fun kr : keyed => plain_vals (fst kr) /\ plain_vals (snd kr)) kl).
      { eapply mapM_forall; [|exact P|exact M]. intros r kr Pr E.
        exact (eval_keyed_plain s gb (aggs_of items) r kr Pg (aggs_of_plain items Pi) Pr E). }
      destruct (mapM (project (gi_cols gi)) _) as [rows1| |] eqn:M2; simpl in H; inv H. simpl.
      eapply mapM_forall; [|exact (den_group_plain (aggs_of items) kl PK)|exact M2].
      intros r r' Pr E. exact (project_plain (gi_cols gi) r r' Pr E).
    - destruct (single_star items); [inv H; exact P|].
      unfold map_sel in H. destruct (out_schema false s items); simpl in H; try discriminate.
      destruct (mapM _ rows) as [rows1| |] eqn:M; simpl in H; inv H. simpl.
      eapply mapM_forall; [|exact P|exact M]. intros r r' Pr E. exact (eval_items_plain s items r r' Pi Pr E).
  Qed.

  Lemma stage2 ctes p1 items gb : forallb plain_item items = true -> forallb plain_expr gb = true ->
    (if grouping false items gb then group_names_ok items gb else true) = true ->
    (forall r1, run_plan tables false ctes p1 = Ok r1 -> Forall prow (rrows r1)) ->
    run_plan tables false ctes (sel_plan false false items gb p1) =
    obind (run_plan tables false ctes p1) (fun r1 => sel_den (rsch r1) items gb (rrows r1)).
  Proof.
    intros Pi Pg NOK P1. unfold sel_plan, sel_den. destruct (grouping false items gb) eqn:G.
    - simpl. destruct (run_plan tables false ctes p1) as [r1| |] eqn:E; simpl; try reflexivity.
      unfold group_sel_den. unfold group_names_ok in NOK.
      destruct (group_info false items gb) as [gi| |] eqn:GI; simpl; try reflexivity.
      destruct (mapM _ (rrows r1)) as [kl| |] eqn:M; simpl; try reflexivity.
      assert (PK : plain_keyed kl).
      { eapply mapM_forall; [|exact (P1 r1 eq_refl)|exact M]. intros r kr Pr EK.
        exact (proj2 (eval_keyed_plain (rsch r1) gb (aggs_of items) r kr Pg (aggs_of_plain items Pi) Pr EK)). }
      rewrite (group_node_correct _ kl PK). simpl.
      apply andb_true_iff in NOK. destruct NOK as [RES SCH].
      unfold map_sel. destruct (out_schema false (group_schema gi) (var_items gi)) as [outs| |]; try discriminate.
      apply schema_eqb_eq in SCH. subst outs. simpl.
      rewrite (mapM_ext _ (project (gi_cols gi))); [reflexivity|].
      intro r. apply var_items_project. exact RES.
    - destruct (single_star items) eqn:SS.
      + destruct (run_plan tables false ctes p1) as [[? ?]| |]; reflexivity.
      + reflexivity.
  Qed.

  Theorem main :
    (forall q ctes, good_ctes ctes -> frag_q q = true ->
       run_plan tables false ctes (plan_of_q false false q) = den_q tables ctes q /\
       forall r, den_q tables ctes q = Ok r -> Forall prow (rrows r)) /\
    (forall s ctes, good_ctes ctes -> frag_src s = true ->
       run_plan tables false ctes (plan_of_src false false s) = den_src tables ctes s /\
       forall r, den_src tables ctes s = Ok r -> Forall prow (rrows r)).
  Proof.
    apply query_source_ind.
    - (* Q *)
      intros dist items from IHs wh gb ob lim ctes G F. simpl in F.
      repeat rewrite andb_true_iff in F. destruct F as [[[[[[[Fn Fi] Fs] Fw] Fg] Fo] Fl] _].
      destruct (IHs ctes G Fs) as [IH1 IH2]. clear IHs.
      rewrite plan_of_q_unfold, den_q_unfold. cbv zeta.
      set (p0 := plan_of_src false false from) in *.
      set (p1 := match wh with Some e => PFilter e p0 | None => p0 end).
      (* stage 1: source and WHERE *)
      assert (S1 : run_plan tables false ctes p1 =
                   obind (den_src tables ctes from) (fun src =>
                   obind (filter_rows (rsch src) wh (rrows src)) (fun rows => Ok (mkrel (rsch src) rows)))).
      { unfold p1. destruct wh as [e|]; simpl; rewrite IH1; destruct (den_src tables ctes from) as [src| |]; simpl; try reflexivity.
        - rewrite filter_node_eq. reflexivity.
        - destruct src; reflexivity. }
      assert (P1 : forall r1, run_plan tables false ctes p1 = Ok r1 -> Forall prow (rrows r1)).
      { intros r1 H. rewrite S1 in H. destruct (den_src tables ctes from) as [src| |] eqn:E; simpl in H; try discriminate.
        destruct (filter_rows (rsch src) wh (rrows src)) as [rows| |] eqn:FR; simpl in H; inv H. simpl.
        exact (filter_rows_plain _ _ _ _ (IH2 src eq_refl) FR). }
      (* stage 2: select list / grouping *)
      pose proof (stage2 ctes p1 items gb Fi Fg Fn P1) as S2.
      set (p2 := sel_plan false false items gb p1) in *.
      set (p3 := if dist then PDistinct p2 else p2).
      assert (S3 : run_plan tables false ctes p3 =
                   obind (run_plan tables false ctes p2) (fun r => Ok (mkrel (rsch r) (if dist then den_distinct (rrows r) else rrows r)))).
      { unfold p3. destruct dist; simpl.
        - destruct (run_plan tables false ctes p2); simpl; try reflexivity. rewrite distinct_node_eq. reflexivity.
        - destruct (run_plan tables false ctes p2) as [[? ?]| |]; reflexivity. }
      (* stage 4: ORDER BY / LIMIT *)
      set (F4 := fun r : rel =>
                   match ob with
                   | [] => match lim with Some n => Ok (mkrel (rsch r) (limit_node n (rrows r))) | None => Ok r end
                   | _ => obind (mapM (eval_okey (rsch r) ob) (rrows r)) (fun its =>
                          obind (ost_node lim its) (fun rows => Ok (mkrel (rsch r) rows)))
                   end).
      assert (S4 : run_plan tables false ctes (match ob, lim with [], None => p3 | _, _ => POrderLimit ob lim p3 end) =
                   obind (run_plan tables false ctes p3) F4).
      { unfold F4. destruct ob; [destruct lim|]; simpl; try reflexivity.
        destruct (run_plan tables false ctes p3) as [[? ?]| |]; reflexivity. }
      rewrite S4, S3, S2, S1. clear S4 S3 S2 P1 S1.
      (* the relational side, stage by stage *)
      destruct (den_src tables ctes from) as [src| |] eqn:ES; simpl; [|split; [reflexivity|discriminate]..].
      destruct (filter_rows (rsch src) wh (rrows src)) as [rows| |] eqn:FR; simpl; [|split; [reflexivity|discriminate]..].
      assert (PR : Forall prow rows) by exact (filter_rows_plain _ _ _ _ (IH2 src eq_refl) FR).
      destruct (sel_den (rsch src) items gb rows) as [r1| |] eqn:EB; simpl; [|split; [reflexivity|discriminate]..].
      assert (PR1 : Forall prow (rrows r1)) by exact (sel_den_plain items gb (rsch src) rows r1 Fi Fg PR EB).
      set (outs := rsch r1).
      set (rows2 := if dist then den_distinct (rrows r1) else rrows r1).
      assert (PR2 : Forall prow rows2) by (unfold rows2; destruct dist; [apply den_distinct_plain|]; exact PR1).
      assert (FIN : F4 (mkrel outs rows2) =
                    obind (den_order outs ob rows2) (fun rows3 => obind (den_limit lim rows3) (fun rows4 => Ok (mkrel outs rows4)))).
      { unfold F4. destruct ob as [|kd ob'].
        - destruct lim as [n|]; simpl; [|reflexivity].
          simpl in Fl. rewrite limit_node_eq by lia. destruct (Z.ltb_spec n 0); [lia|]. reflexivity.
        - cbn [rsch rrows].
          pose proof (order_limit_eq outs (kd :: ob') lim rows2 ltac:(discriminate) Fl Fo PR2) as OL.
          rewrite <- (obind_assoc (den_order outs (kd :: ob') rows2)), <- OL, obind_assoc. reflexivity. }
      split; [exact FIN|].
      intros r H.
      destruct (den_order outs ob rows2) as [rows3| |] eqn:EO; simpl in H; try discriminate.
      destruct (den_limit lim rows3) as [rows4| |] eqn:EL; simpl in H; inv H. simpl.
      exact (den_limit_plain lim rows3 rows4 (den_order_plain outs ob rows2 rows3 Fo PR2 EO) EL).
    - (* STable *)
      intros t alias ctes G _. split; [reflexivity|]. intros r. rewrite den_src_table.
      destruct (lookup t tables) as [r0|] eqn:L; intro H; inv H. simpl. exact (lookup_plain t r0 tables_plain L).
    - (* SSub *)
      intros q IH alias ctes G F. simpl in F. destruct (IH ctes G F) as [IH1 IH2]. split.
      + rewrite den_src_sub, <- IH1. reflexivity.
      + intros r. rewrite den_src_sub. destruct (den_q tables ctes q) as [r0| |] eqn:E; simpl; intro H; inv H. simpl. exact (IH2 r0 eq_refl).
    - (* SCte *)
      intros n ctes G _. split; [reflexivity|]. intros r. rewrite den_src_cte.
      destruct (lookup n ctes) as [r0|] eqn:L; intro H; inv H. exact (lookup_plain n r G L).
  Qed.

  Lemma ctes_main defs : forall ctes, good_ctes ctes -> forallb (fun nq : name * query => frag_q (snd nq)) defs = true ->
    exec_ctes false false tables ctes defs = den_ctes tables ctes defs /\
    forall c, den_ctes tables ctes defs = Ok c -> good_ctes c.
  Proof.
    induction defs as [|[n q] t IH]; intros ctes G F; simpl in *; [split; [reflexivity|intros c H; inv H; exact G]|].
    apply andb_true_iff in F. destruct F as [Fq Ft].
    destruct (proj1 main q ctes G Fq) as [M1 M2]. rewrite M1.
    destruct (den_q tables ctes q) as [r| |] eqn:E; simpl; [|split; [reflexivity|discriminate]..].
    apply IH; [|exact Ft]. constructor; [exact (M2 r eq_refl)|exact G].
  Qed.

  Theorem exec_top_eq_den_top t : in_fragment t = true -> exec_top tables t = den_top tables t.
  Proof.
    intro F. unfold in_fragment in F. apply andb_true_iff in F. destruct F as [Fc Fm].
    unfold exec_top, exec_top_gen, den_top.
    destruct (ctes_main (fst t) [] (Forall_nil _) Fc) as [C1 C2]. rewrite C1.
    destruct (den_ctes tables [] (fst t)) as [ctes| |] eqn:E; simpl; try reflexivity.
    exact (proj1 (proj1 main (snd t) ctes (C2 ctes eq_refl) Fm)).
  Qed.
End Main.

(* ------------------------------------------------------------------ statements used by Properties/C01.v, C03.v *)
Lemma value_eqb_refl : forall v, value_eqb v v = true.
Proof.
  induction v using value_ind'; simpl; try apply Z.eqb_refl; try reflexivity.
  - apply Bool.eqb_reflx.
  - induction s; simpl; [reflexivity|]. rewrite Z.eqb_refl. assumption.
  - induction H; simpl; [reflexivity|]. rewrite H. assumption.
  - induction H; simpl; [reflexivity|]. rewrite H. assumption.
  - induction H; simpl; [reflexivity|]. rewrite H. assumption.
Qed.

Lemma rows_eqb_refl rows : rows_eqb rows rows = true.
Proof.
  unfold rows_eqb. induction rows as [|r t IH]; simpl; [reflexivity|]. rewrite IH, andb_true_r.
  induction r as [|v r IHr]; simpl; [reflexivity|]. rewrite value_eqb_refl. assumption.
Qed.

Lemma bag_rows_eqb_refl rows : bag_rows_eqb rows rows = true.
Proof. unfold bag_rows_eqb. apply forallb_forall. intros. apply Z.eqb_refl. Qed.

Lemma result_equivb_refl o x : result_equivb o x x = true.
Proof. destruct x; simpl; [destruct o; [apply rows_eqb_refl|apply bag_rows_eqb_refl]|reflexivity|apply Z.eqb_refl]. Qed.

Theorem select_equiv tables t : in_fragment t = true -> plain_db tables = true ->
  result_equiv (has_order_by t) (exec_top tables t) (den_top tables t).
Proof. intros F P. unfold result_equiv. rewrite (exec_top_eq_den_top tables P t F). apply result_equivb_refl. Qed.

(* the support *)
Theorem den_distinct_spec rows :
  (forall r, In r (den_distinct rows) -> In r rows) /\
  (forall r, In r rows -> row_in r (den_distinct rows) = true) /\
  pairwise_distinct row_eqb (den_distinct rows).
Proof.
  split; [|split].
  - intros r H. apply (distinct_from_in row_eqb) in H. tauto.
  - intros r H. pose proof (distinct_from_covers row_eqb row_eqb_refl [] rows r H) as C. simpl in C.
    exact C.
  - apply (distinct_from_nodup row_eqb).
Qed.

(* ORDER BY: a permutation of the rows, ascending under (keys with their directions, then the row) *)
Theorem den_order_textbook its :
  Permutation its (isort oitem_cmp its) /\ sorted oitem_cmp (isort oitem_cmp its).
Proof. split; [apply isort_perm|apply (isort_sorted oitem_cmp oitem_laws (fun _ => False)); intros a b []]. Qed.

Theorem array_agg_ascending vs :
  Permutation vs (sort_vals vs) /\ sorted vcompare (sort_vals vs).
Proof. split; [apply isort_perm|apply (isort_sorted vcompare vcompare_laws (fun _ => False)); intros a b []]. Qed.

Theorem group_keys_spec aggs (kl : list keyed) :
  den_group aggs kl = map (fun k => k ++ aggs_den aggs 0 (filter (fun kr => row_eqb (fst kr) k) kl)) (den_distinct (map fst kl)) /\
  (forall kr, In kr kl -> row_in (fst kr) (den_distinct (map fst kl)) = true) /\
  (forall k, In k (den_distinct (map fst kl)) -> In k (map fst kl)) /\
  pairwise_distinct row_eqb (den_distinct (map fst kl)).
Proof.
  split; [reflexivity|]. destruct (den_distinct_spec (map fst kl)) as [A [B C]].
  split; [|split; assumption]. intros kr H. apply B. apply in_map. exact H.
Qed.

Theorem set_size_spec aggs g :
  g_sizes (fold_left (fun it kr => gadd it (snd kr)) g (ginit aggs)) = sizes_den (length aggs) 0 g.
Proof. exact (set_size_correct aggs g). Qed.

Theorem group_state_spec aggs l :
  fold_left (group_step aggs) l [] =
  map (fun k => (k, gstate aggs (filter (same_key k) l))) (den_distinct (map fst l)).
Proof. exact (group_fold_nil aggs l). Qed.

(* witnesses about the pinned tree *)
Definition wit_table : db :=
  [([116], mkrel [(None, [97]); (None, [98])] [[VInt 1; VInt 10]; [VInt 1; VNull]; [VNull; VInt 5]; [VNull; VInt 7]; [VInt 2; VInt 3]])].
(* SELECT a AS k FROM t GROUP BY a *)
Definition wit_group_noagg : top :=
  ([], Q false [IExpr (ECol None [97]) (Some [107])] (STable [116] [116]) None [ECol None [97]] [] None).
(* SELECT a AS k, count( * ) AS c, sum(b) AS s, avg(b) AS v, array_agg(b) AS l FROM t GROUP BY a ORDER BY k DESC *)
Definition wit_group : top :=
  ([], Q false [IExpr (ECol None [97]) (Some [107]); IAgg ACount false (ELit (VBool true)) (Some [99]); IAgg ASum false (ECol None [98]) (Some [115]);
                IAgg AAvg false (ECol None [98]) (Some [118]); IAgg AArr false (ECol None [98]) (Some [108])]
         (STable [116] [116]) None [ECol None [97]] [(ECol None [107], true)] None).

Lemma pinned_group_by_ignored :
  in_fragment wit_group_noagg = true /\ plain_db wit_table = true /\
  result_equivb false (exec_top_pinned wit_table wit_group_noagg) (den_top wit_table wit_group_noagg) = false /\
  exec_top wit_table wit_group_noagg = Ok (mkrel [(None, [107])] [[VInt 1]; [VNull]; [VInt 2]]).
Proof. repeat split; vm_compute; reflexivity. Qed.

Lemma wit_group_result :
  in_fragment wit_group = true /\ plain_db wit_table = true /\ is_group_query wit_group = true /\
  den_top wit_table wit_group =
  Ok (mkrel [(None, [107]); (None, [99]); (None, [115]); (None, [118]); (None, [108])]
        [[VInt 2; VInt 1; VInt 3; VInt 3; VList [VInt 3]];
         [VInt 1; VInt 2; VInt 10; VInt 10; VList [VInt 10]];
         [VNull; VInt 2; VInt 12; VInt 6; VList [VInt 5; VInt 7]]]).
Proof. repeat split; vm_compute; reflexivity. Qed.

Lemma pinned_native_line : native_line_pinned [39; 37; 100; 39] <> native_line [39; 37; 100; 39].
Proof. vm_compute. discriminate. Qed.

Lemma native_line_exact text : native_line text = text ++ [10].
Proof. reflexivity. Qed.

(* ------------------------------------------------------------------ the unique-name rule *)
Lemma name_eqb_refl a : name_eqb a a = true.
Proof. unfold name_eqb. induction a; simpl; [reflexivity|]. rewrite Z.eqb_refl. assumption. Qed.
Lemma field_eqb_refl f : field_eqb f f = true.
Proof. destruct f as [[q|] n]; unfold field_eqb; simpl; rewrite ?name_eqb_refl; reflexivity. Qed.
Lemma field_eqb_neq a b : a <> b -> field_eqb a b = false.
Proof. intro H. destruct (field_eqb a b) eqn:E; [|reflexivity]. apply field_eqb_eq in E. contradiction. Qed.

Lemma cnt_get_set c f n g : cnt_get (cnt_set c f n) g = if field_eqb f g then Some n else cnt_get c g.
Proof.
  induction c as [|[k m] t IH]; simpl.
  - reflexivity.
  - destruct (field_eqb k f) eqn:E; simpl.
    + apply field_eqb_eq in E. subst k. destruct (field_eqb f g); reflexivity.
    + destruct (field_eqb k g) eqn:E2; [|exact IH].
      apply field_eqb_eq in E2. subst k. rewrite field_eqb_neq; [reflexivity|].
      intro H. subst. rewrite field_eqb_refl in E. discriminate.
Qed.

Definition used (c : counter) (f : field) : Prop := cnt_get c f <> None.

Lemma uniq_fuel_spec fuel : forall c f f' c', uniq_fuel fuel c f = Ok (f', c') ->
  ~ used c f' /\ used c' f' /\ (forall g, used c g -> used c' g).
Proof.
  induction fuel as [|fuel IH]; intros c f f' c' H; simpl in H; [discriminate|].
  destruct (cnt_get c f) as [n|] eqn:G.
  - destruct (IH _ _ _ _ H) as [A [B C]]. split; [|split].
    + intro U. apply A. unfold used in *. rewrite cnt_get_set. destruct (field_eqb f f'); [discriminate|exact U].
    + exact B.
    + intros g U. apply C. unfold used in *. rewrite cnt_get_set. destruct (field_eqb f g); [discriminate|exact U].
  - inv H. split; [|split].
    + unfold used. rewrite G. auto.
    + unfold used. rewrite cnt_get_set, field_eqb_refl. discriminate.
    + intros g U. unfold used in *. rewrite cnt_get_set. destruct (field_eqb f' g); [discriminate|exact U].
Qed.

(* getUniqueName / the existingFields loop give pairwise different names, none of which was used before *)
Theorem uniq_all_distinct l : forall c names, uniq_all false c l = Ok names ->
  NoDup names /\ forall f, In f names -> ~ used c f.
Proof.
  induction l as [|f t IH]; intros c names H; [simpl in H; inv H; split; [constructor|intros ? []]|].
  cbn [uniq_all uniq] in H.
  destruct (uniq_fuel (S (length c)) c f) as [[f' c']| |] eqn:U; cbn [obind fst snd] in H; try discriminate.
  destruct (uniq_all false c' t) as [r| |] eqn:R; cbn [obind] in H; inv H.
  destruct (uniq_fuel_spec _ _ _ _ _ U) as [A [B C]]. destruct (IH _ _ R) as [ND NU]. split.
  - constructor; [|exact ND]. intro I. exact (NU _ I B).
  - intros g [<-|I]; [exact A|]. intro Ug. exact (NU _ I (C _ Ug)).
Qed.

Theorem out_schema_distinct src items outs : out_schema false src items = Ok outs -> NoDup outs.
Proof.
  unfold out_schema. destruct (map_candidates src items 0); simpl; try discriminate. intro H.
  exact (proj1 (uniq_all_distinct _ _ _ H)).
Qed.

(* the code before the fixes repeats a name *)
Lemma uniq_pinned_repeats : uniq_all true [] [(None, [120]); (None, [120]); (None, [120])] =
  Ok [(None, [120]); (None, [120; 95; 49]); (None, [120; 95; 49])].
Proof. vm_compute. reflexivity. Qed.

(* SELECT count(b) AS c, sum(b) AS c, max(b) AS c FROM t GROUP BY a *)
Definition wit_triple_group : top :=
  ([], Q false [IAgg ACount false (ECol None [98]) (Some [99]); IAgg ASum false (ECol None [98]) (Some [99]);
                IAgg AMax false (ECol None [98]) (Some [99])]
         (STable [116] [116]) None [ECol None [97]] [] None).
(* SELECT a AS x, b AS x, a AS x FROM t *)
Definition wit_triple_map : top :=
  ([], Q false [IExpr (ECol None [97]) (Some [120]); IExpr (ECol None [98]) (Some [120]); IExpr (ECol None [97]) (Some [120])]
         (STable [116] [116]) None [] [] None).
(* SELECT a, count(b), sum(b) AS count_b, t.a + 1 ... GROUP BY a  and  SELECT a, t.a, a + 1, t.*, b AS a FROM t *)
Definition wit_names_group : top :=
  ([], Q false [IExpr (ECol None [97]) None; IAgg ACount false (ECol None [98]) None;
                IAgg ASum false (ECol None [98]) (Some [99; 111; 117; 110; 116; 95; 98]); IAgg ACount false (ELit (VBool true)) None]
         (STable [116] [116]) None [ECol None [97]] [] None).
Definition wit_names_map : top :=
  ([], Q false [IExpr (ECol None [97]) None; IExpr (ECol (Some [116]) [97]) None; IExpr (EBin BAdd (ECol None [97]) (ELit (VInt 1))) None;
                IQStar [116]; IExpr (ECol None [98]) (Some [97])]
         (STable [116] [116]) None [] [] None).

Lemma pinned_triple_group :
  in_fragment wit_triple_group = true /\ plain_db wit_table = true /\
  result_equivb false (exec_top_pinned_names wit_table wit_triple_group) (den_top wit_table wit_triple_group) = false /\
  exists r, exec_top wit_table wit_triple_group = Ok r /\
            printed_names (rsch r) = [[99]; [99; 95; 49]; [99; 95; 50]].
Proof. repeat split; try (vm_compute; reflexivity). eexists. split; vm_compute; reflexivity. Qed.

Lemma pinned_triple_map :
  in_fragment wit_triple_map = true /\ plain_db wit_table = true /\
  (exists r, exec_top_pinned_names wit_table wit_triple_map = Ok r /\ ~ NoDup (rsch r)) /\
  (exists r, exec_top wit_table wit_triple_map = Ok r /\ printed_names (rsch r) = [[120]; [120; 95; 49]; [120; 95; 50]]).
Proof.
  repeat split; try (vm_compute; reflexivity).
  - eexists. split; [vm_compute; reflexivity|]. intro N. inv N. inv H2. apply H3. left. reflexivity.
  - eexists. split; vm_compute; reflexivity.
Qed.

Lemma wit_names_results :
  in_fragment wit_names_group = true /\ in_fragment wit_names_map = true /\
  (exists r, den_top wit_table wit_names_group = Ok r /\
     printed_names (rsch r) = [[97]; [99; 111; 117; 110; 116; 95; 98]; [99; 111; 117; 110; 116; 95; 98; 95; 49]; [99; 111; 117; 110; 116]]) /\
  (exists r, den_top wit_table wit_names_map = Ok r /\
     printed_names (rsch r) = [[116; 46; 97]; [97; 95; 49]; [99; 111; 108; 95; 50]; [97; 95; 50]; [98]; [97]]).
Proof. repeat split; try (vm_compute; reflexivity); eexists; split; vm_compute; reflexivity. Qed.

(* SELECT key_1, count( * ) AS c FROM (SELECT a AS k, a + 1, b AS v FROM t GROUP BY a, a + 1, b) x GROUP BY key_1, v *)
Definition wit_key_name : top :=
  ([], Q false [IExpr (ECol None [107; 101; 121; 95; 49]) None; IAgg ACount false (ELit (VBool true)) (Some [99])]
         (SSub (Q false [IExpr (ECol None [97]) (Some [107]); IExpr (EBin BAdd (ECol None [97]) (ELit (VInt 1))) None;
                         IExpr (ECol None [98]) (Some [118])]
                  (STable [116] [116]) None [ECol None [97]; EBin BAdd (ECol None [97]) (ELit (VInt 1)); ECol None [98]] [] None) [120])
         None [ECol None [107; 101; 121; 95; 49]; ECol None [118]] [] None).

Lemma pinned_key_name :
  in_fragment wit_key_name = true /\ plain_db wit_table = true /\
  result_equivb false (exec_top_pinned_names wit_table wit_key_name) (den_top wit_table wit_key_name) = false /\
  exec_top wit_table wit_key_name = den_top wit_table wit_key_name /\
  exists r, den_top wit_table wit_key_name = Ok r /\ length (rrows r) = 5%nat.
Proof. repeat split; try (vm_compute; reflexivity). eexists. split; vm_compute; reflexivity. Qed.
