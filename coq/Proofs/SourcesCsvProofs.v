(* Proofs/SourcesCsvProofs.v — C24, CSV: every value produced matches the inferred column type or the row
   is an error; the previewed rows themselves are never errors; the pinned code's three silent conversions. *)
From Octo Require Import SourcesCsv.
From Coq Require Import Arith.

(* ---- membership in the sorted alternatives -------------------------------------------------------- *)
Lemma existsb_insert_sorted : forall q p l,
  existsb (Z.eqb q) (insert_sorted p l) = (q =? p) || existsb (Z.eqb q) l.
Proof.
  induction l; simpl; auto.
  destruct (p <? a); simpl; auto. rewrite IHl. destruct (q =? a), (q =? p); auto.
Qed.

Lemma existsb_sort_ids : forall q l, existsb (Z.eqb q) (sort_ids l) = existsb (Z.eqb q) l.
Proof.
  induction l; simpl; auto. rewrite existsb_insert_sorted, IHl. auto.
Qed.

Lemma existsb_app_single : forall q l p, existsb (Z.eqb q) (l ++ [p]) = existsb (Z.eqb q) l || (q =? p).
Proof. intros. rewrite existsb_app. simpl. rewrite orb_false_r. auto. Qed.

Lemma is_prim_prim_is : forall t p q, is_prim t p = true -> prim_is q t = true -> q = p.
Proof.
  destruct t; simpl; intros.
  - apply Z.eqb_eq in H, H0. congruence.
  - apply existsb_exists in H0 as [x [Hin Hx]]. apply Z.eqb_eq in Hx. subst x.
    rewrite forallb_forall in H. apply H in Hin. apply Z.eqb_eq in Hin. auto.
Qed.

(* TypeSum(t, p) accepts exactly what t accepts, and p *)
Lemma prim_is_type_sum : forall q t p, prim_is q (type_sum_prim t p) = prim_is q t || (q =? p).
Proof.
  intros. unfold type_sum_prim.
  destruct (is_prim t p) eqn:E1.
  - simpl. destruct (prim_is q t) eqn:E2; auto. rewrite (is_prim_prim_is _ _ _ E1 E2). rewrite Z.eqb_refl. auto.
  - destruct (prim_is p t) eqn:E2.
    + destruct (q =? p) eqn:E3. apply Z.eqb_eq in E3. subst. rewrite E2. auto. rewrite orb_false_r. auto.
    + destruct t; unfold prim_is.
      * rewrite existsb_sort_ids. simpl. rewrite orb_false_r. reflexivity.
      * rewrite existsb_sort_ids. apply existsb_app_single.
Qed.

(* ---- soundness of the executed cascade ------------------------------------------------------------- *)
Lemma first_some_some : forall {A} (a b : option A) v, first_some a b = Some v -> a = Some v \/ (a = None /\ b = Some v).
Proof. destruct a; simpl; intros; auto. Qed.

Theorem exec_cell_sound : forall t c v, exec_cell t c = Ok v -> has_ftype v t = true.
Proof.
  intros t c v. unfold exec_cell, exec_cell_gen, has_ftype.
  destruct (is_nil (ctext c)).
  - destruct (prim_is t_null t) eqn:E; simpl; intros H; inversion H; subst. exact E.
  - match goal with |- match ?x with _ => _ end = _ -> _ => destruct x as [w|] eqn:E end.
    + intros H; inversion H; subst w. clear H.
      apply first_some_some in E as [E|[_ E]].
      { destruct (prim_is t_int t) eqn:P; try discriminate.
        destruct (first_some (ff_int (ctext c)) (strconv_int (ctext c))); inversion E; subst. exact P. }
      apply first_some_some in E as [E|[_ E]].
      { destruct (prim_is t_float t) eqn:P; try discriminate.
        destruct (first_some (cfloat_f c) (cfloat_s c)); inversion E; subst. exact P. }
      apply first_some_some in E as [E|[_ E]].
      { destruct (prim_is t_bool t) eqn:P; try discriminate.
        destruct (parse_bool (ctext c)); inversion E; subst. exact P. }
      { destruct (prim_is t_time t) eqn:P; try discriminate.
        destruct (ctime c); inversion E; subst. exact P. }
    + destruct (prim_is t_str t) eqn:P; simpl; intros H; inversion H; subst. exact P.
Qed.

Definition row_result_ok (tys : list fty) (o : outcome (list value)) : Prop :=
  match o with
  | Ok vs => Forall2 (fun v t => has_ftype v t = true) vs tys
  | Err _ => True
  | Panic _ => False
  end.

Theorem exec_row_sound : forall tys r, row_result_ok tys (exec_row tys r).
Proof.
  unfold exec_row. induction tys as [|t ts IH]; destruct r as [|c cs]; simpl; auto.
  destruct (exec_cell_gen true t c) eqn:E; simpl; auto.
  - specialize (IH cs). destruct (exec_cells true ts cs); simpl in *; auto.
    constructor; auto. apply (exec_cell_sound t c); auto.
  - unfold exec_cell_gen in E.
    destruct (is_nil (ctext c)). destruct (true && negb (prim_is t_null t)); discriminate.
    match type of E with match ?x with _ => _ end = _ => destruct x end; try discriminate.
    destruct (true && negb (prim_is t_str t)); discriminate.
Qed.

(* the whole file, rows beyond the preview included: the schema is whatever the inference returned *)
Theorem csv_values_match_schema : forall ncols rows tys,
  infer_csv ncols rows = Ok tys -> forall r, In r rows -> row_result_ok tys (exec_row tys r).
Proof. intros. apply exec_row_sound. Qed.

(* ---- the previewed rows are never errors ----------------------------------------------------------- *)
(* a column type covers a cell when it accepts the kind the inference saw, or the cell is an integer text
   and the column is (also) Float *)
Definition covered (t : fty) (c : cell) : bool :=
  prim_is (kid (cell_kind c)) t ||
  (match cell_kind c with KInt => prim_is t_float t | _ => false end).

Ltac crush_cascade t c :=
  destruct (prim_is t_int t), (prim_is t_float t), (prim_is t_bool t), (prim_is t_time t);
  destruct (ff_int (ctext c)), (cfloat_f c); simpl; eauto.

Lemma covered_exec_ok : forall t c, cell_wf c = true -> covered t c = true -> exists v, exec_cell t c = Ok v.
Proof.
  intros t c Hwf Hcov. unfold exec_cell, exec_cell_gen. unfold covered, cell_kind, cell_wf in *.
  destruct (is_nil (ctext c)) eqn:En.
  - simpl in Hcov. rewrite orb_false_r in Hcov. rewrite Hcov. simpl. eauto.
  - destruct (strconv_int (ctext c)) as [iv|] eqn:Ei.
    + (* integer text *)
      destruct (cfloat_s c) as [fv|] eqn:Ef; try discriminate. simpl in Hcov.
      destruct (prim_is t_int t) eqn:Pi.
      * simpl. destruct (ff_int (ctext c)); simpl; eauto.
      * simpl in Hcov. rewrite Hcov. simpl. destruct (cfloat_f c); simpl; eauto.
    + destruct (cfloat_s c) as [fv|] eqn:Ef.
      * simpl in Hcov. rewrite orb_false_r in Hcov. unfold kid in Hcov. rewrite Hcov. rewrite ?Ei, ?Ef, ?Eb, ?Et. simpl. crush_cascade t c.
      * destruct (parse_bool (ctext c)) as [bv|] eqn:Eb.
        -- simpl in Hcov. rewrite orb_false_r in Hcov. unfold kid in Hcov. rewrite Hcov. rewrite ?Ei, ?Ef, ?Eb, ?Et. simpl. crush_cascade t c.
        -- destruct (ctime c) as [tv|] eqn:Et.
           ++ simpl in Hcov. rewrite orb_false_r in Hcov. unfold kid in Hcov. rewrite Hcov. rewrite ?Ei, ?Ef, ?Eb, ?Et. simpl. crush_cascade t c.
           ++ simpl in Hcov. rewrite orb_false_r in Hcov. unfold kid in Hcov. rewrite Hcov. rewrite ?Ei, ?Ef, ?Eb, ?Et. simpl. crush_cascade t c.
Qed.

Local Arguments prim_is : simpl never.
Local Arguments type_sum_prim : simpl never.
Local Arguments equals_prim : simpl never.

Lemma prim_is_refl : forall p, prim_is p (FPrim p) = true.
Proof. intros. unfold prim_is. apply Z.eqb_refl. Qed.

Lemma prim_is_sum_new : forall t p, prim_is p (type_sum_prim t p) = true.
Proof. intros. rewrite prim_is_type_sum, Z.eqb_refl. apply orb_true_r. Qed.

(* inference covers the cell it has just seen *)
Lemma infer_cell_covers_new : forall st c, covered (snd (infer_cell st c)) c = true.
Proof.
  intros [filled t] c. unfold infer_cell, covered.
  destruct (cell_kind c) eqn:K; destruct filled; cbn [negb snd kid];
    try (rewrite prim_is_refl; reflexivity);
    try (rewrite prim_is_sum_new; reflexivity).
  - destruct (equals_prim t t_null) eqn:E; cbn [negb snd].
    + unfold equals_prim in E. apply andb_true_iff in E as [_ E]. rewrite E. auto.
    + rewrite prim_is_sum_new. auto.
  - destruct (equals_prim t t_float) eqn:E; cbn [negb snd].
    + unfold equals_prim in E. apply andb_true_iff in E as [_ E]. rewrite E. apply orb_true_r.
    + rewrite prim_is_sum_new. auto.
  - destruct (equals_prim t t_int); cbn [snd]. rewrite prim_is_refl; reflexivity. rewrite prim_is_sum_new; reflexivity.
Qed.

(* and keeps covering the cells seen before *)
Lemma infer_cell_covers_old : forall filled t c c0,
  covered t c0 = true -> filled = true -> covered (snd (infer_cell (filled, t) c)) c0 = true.
Proof.
  intros filled t c c0 H Hf. subst filled. unfold infer_cell.
  assert (Hsum : forall p, covered (type_sum_prim t p) c0 = true).
  { intros p. unfold covered in *. apply orb_true_iff in H as [H|H].
    - rewrite prim_is_type_sum, H. auto.
    - destruct (cell_kind c0); try discriminate. rewrite (prim_is_type_sum t_float), H. simpl. apply orb_true_r. }
  destruct (cell_kind c) eqn:K; simpl; auto.
  - destruct (equals_prim t t_null); simpl; auto.
  - destruct (equals_prim t t_float); simpl; auto.
  - destruct (equals_prim t t_int) eqn:E; simpl; auto.
    (* the column was exactly Int: everything seen so far is an integer text, which Float covers *)
    unfold equals_prim in E. apply andb_true_iff in E as [E _].
    unfold covered in *. apply orb_true_iff in H as [H|H].
    + pose proof (is_prim_prim_is _ _ _ E H) as Hk.
      destruct (cell_kind c0); simpl in Hk; try discriminate. simpl. reflexivity.
    + destruct (cell_kind c0); try discriminate. pose proof (is_prim_prim_is _ _ _ E H). discriminate.
Qed.

Definition row_covered (sts : list colst) (r : list cell) : Prop :=
  Forall2 (fun st c => fst st = true /\ covered (snd st) c = true) sts r.

Lemma zip_infer_covers_new : forall sts r, length r = length sts -> row_covered (zip_with infer_cell sts r) r.
Proof.
  induction sts; destruct r; simpl; intros; try discriminate; constructor.
  - split. destruct a as [f t]. unfold infer_cell. destruct (cell_kind c); destruct f; simpl; auto;
      try (destruct (negb (equals_prim t _)); auto); try (destruct (equals_prim t _); auto).
    apply infer_cell_covers_new.
  - apply IHsts. lia.
Qed.

Lemma infer_cell_filled : forall st c, fst (infer_cell st c) = true.
Proof.
  intros [f t] c. unfold infer_cell. destruct (cell_kind c); destruct f; simpl; auto;
    try (destruct (negb (equals_prim t _)); auto); try (destruct (equals_prim t _); auto).
Qed.

Lemma zip_infer_covers_old : forall sts r r0, length r = length sts -> row_covered sts r0 ->
  row_covered (zip_with infer_cell sts r) r0.
Proof.
  induction sts; destruct r; simpl; intros r0 Hl H; try discriminate.
  - inversion H; subst. constructor.
  - inversion H as [|st c0 ? ? [Hf Hc] Hrest]; subst. constructor.
    + split. apply infer_cell_filled. destruct a as [f t]. simpl in *. apply infer_cell_covers_old; auto.
    + apply IHsts; auto.
Qed.

Lemma zip_with_length : forall sts r, length r = length sts -> length (zip_with infer_cell sts r) = length sts.
Proof. induction sts; destruct r; simpl; intros; try discriminate; auto. Qed.

Lemma infer_rows_covers : forall rows sts out seen,
  (forall r0, In r0 seen -> row_covered sts r0) ->
  infer_rows sts rows = Ok out ->
  forall r0, In r0 (seen ++ rows) -> row_covered out r0.
Proof.
  induction rows as [|r rows IH]; simpl; intros sts out seen Hseen H r0 Hin.
  - inversion H; subst. rewrite app_nil_r in Hin. auto.
  - destruct (length r =? length sts)%nat eqn:El; try discriminate. apply Nat.eqb_eq in El.
    apply (IH _ _ (seen ++ [r]) ) with (r0 := r0) in H; auto.
    + intros x Hx. apply in_app_or in Hx as [Hx|[Hx|[]]].
      * apply zip_infer_covers_old; auto.
      * subst x. apply zip_infer_covers_new; auto.
    + rewrite <- app_assoc. simpl. auto.
Qed.

Lemma row_covered_exec : forall sts r, Forall (fun c => cell_wf c = true) r -> row_covered sts r ->
  exists vs, exec_row (map snd sts) r = Ok vs.
Proof.
  unfold exec_row. induction sts; intros r Hwf H; inversion H as [|st c0 ? ? [_ Hc] Hrest]; subst; simpl. eauto.
  inversion Hwf as [|? ? Hw1 Hw2]; subst.
  destruct (covered_exec_ok _ _ Hw1 Hc) as [v Hv]. unfold exec_cell in Hv. rewrite Hv.
  destruct (IHsts _ Hw2 Hrest) as [vs Hvs]. rewrite Hvs. eauto.
Qed.

(* every row of the preview is produced (not an error), with values matching the inferred types *)
Theorem csv_preview_rows_ok : forall ncols rows tys,
  infer_csv ncols rows = Ok tys ->
  forall r, In r (firstn 100 rows) -> Forall (fun c => cell_wf c = true) r ->
  exists vs, exec_row tys r = Ok vs /\ Forall2 (fun v t => has_ftype v t = true) vs tys.
Proof.
  intros ncols rows tys H r Hin Hwf. unfold infer_csv in H.
  destruct (infer_rows (repeat colst0 ncols) (firstn 100 rows)) as [sts| |] eqn:E; inversion H; subst.
  pose proof (infer_rows_covers _ _ _ [] ltac:(simpl; tauto) E r Hin) as Hc.
  destruct (row_covered_exec _ _ Hwf Hc) as [vs Hvs]. exists vs. split; auto.
  pose proof (exec_row_sound (map snd sts) r) as Hs. rewrite Hvs in Hs. exact Hs.
Qed.

(* ---- the integer parsers --------------------------------------------------------------------------- *)
Lemma digits_val_acc_nonneg : forall s acc v, 0 <= acc -> digits_val s acc = Some v -> acc <= v.
Proof.
  induction s; simpl; intros acc v Ha H. inversion H; lia.
  destruct (is_digit a) eqn:D; try discriminate. unfold is_digit in D. apply andb_true_iff in D as [D1 D2].
  apply Z.leb_le in D1, D2. apply IHs in H; lia.
Qed.

Lemma pow10_18 : 10 ^ 18 < two63.
Proof. vm_compute. reflexivity. Qed.

Lemma ff_loop_spec : forall s i d j dd rest,
  (i <= 18)%nat -> 0 <= d < 10 ^ Z.of_nat i ->
  ff_loop s i d = FStop j dd rest ->
  (i <= j <= 18)%nat /\ 0 <= dd < 10 ^ Z.of_nat j /\
  (rest = [] -> digits_val s d = Some dd) /\ (j = i -> rest = s /\ dd = d) /\ length s = (j - i + length rest)%nat.
Proof.
  induction s as [|c s IH]; simpl; intros i d j dd rest Hi Hd H.
  - inversion H; subst. repeat split; simpl; auto; try lia.
  - destruct (is_digit c) eqn:D.
    + destruct (18 <? S i)%nat eqn:E; try discriminate. apply Nat.ltb_ge in E.
      unfold is_digit in D. apply andb_true_iff in D as [D1 D2]. apply Z.leb_le in D1, D2.
      assert (Hd' : 0 <= d * 10 + (c - 48) < 10 ^ Z.of_nat (S i)).
      { rewrite Nat2Z.inj_succ, Z.pow_succ_r by lia. lia. }
      assert (Hw : wrap64 (d * 10 + (c - 48)) = d * 10 + (c - 48)).
      { unfold wrap64. assert (10 ^ Z.of_nat (S i) <= 10 ^ 18) by (apply Z.pow_le_mono_r; lia).
        pose proof pow10_18. rewrite Z.mod_small; unfold two64, two63 in *; lia. }
      rewrite Hw in H. apply IH in H; auto. destruct H as [A [B [C [E2 F]]]].
      repeat split; try lia; auto.
    + inversion H; subst. repeat split; simpl; auto; try lia. intros; discriminate.
Qed.

(* fastfloat.ParseInt64 accepts only texts strconv.ParseInt accepts, with the same value *)
Theorem ff_int_sub_strconv : forall s v, ff_int s = Some v -> strconv_int s = Some v.
Proof.
  intros s v. unfold ff_int. destruct s as [|c r]; try discriminate.
  destruct (c =? 45) eqn:Em.
  - (* leading '-' *)
    simpl andb. destruct (is_nil r) eqn:En; try discriminate.
    destruct (ff_loop r 1 0) as [|j dd rest] eqn:EL; auto.
    destruct (j <=? 1)%nat eqn:Ej; try discriminate. destruct (is_nil rest) eqn:Er; try discriminate.
    simpl. intros H; inversion H; subst v; clear H.
    destruct rest; try discriminate.
    apply ff_loop_spec in EL; [| lia | simpl; lia ].
    destruct EL as [A [B [C _]]]. specialize (C eq_refl).
    unfold strconv_int. replace (c =? 43) with false by (apply Z.eqb_eq in Em; subst; reflexivity). rewrite Em.
    destruct r; try discriminate. rewrite C.
    assert (dd < two63). { assert (10 ^ Z.of_nat j <= 10 ^ 18) by (apply Z.pow_le_mono_r; lia). pose proof pow10_18. lia. }
    replace (dd <=? two63) with true by (symmetry; apply Z.leb_le; lia).
    f_equal. unfold wrap64. rewrite Z.mod_small; unfold two64, two63 in *; lia.
  - simpl andb. cbv iota.
    destruct (ff_loop (c :: r) 0 0) as [|j dd rest] eqn:EL; auto.
    destruct (j <=? 0)%nat eqn:Ej; try discriminate. destruct (is_nil rest) eqn:Er; try discriminate.
    simpl. intros H; inversion H; subst v; clear H.
    destruct rest; try discriminate.
    assert (Hd : is_digit c = true).
    { simpl in EL. destruct (is_digit c); auto. inversion EL. }
    apply ff_loop_spec in EL; [| lia | simpl; lia ].
    destruct EL as [A [B [C _]]]. specialize (C eq_refl).
    unfold strconv_int.
    replace (c =? 43) with false by (unfold is_digit in Hd; apply andb_true_iff in Hd as [D1 D2]; apply Z.leb_le in D1, D2; symmetry; apply Z.eqb_neq; lia).
    rewrite Em. rewrite C.
    assert (dd < two63). { assert (10 ^ Z.of_nat j <= 10 ^ 18) by (apply Z.pow_le_mono_r; lia). pose proof pow10_18. lia. }
    replace (dd <? two63) with true by (symmetry; apply Z.ltb_lt; lia). reflexivity.
Qed.

(* ---- the pinned code ------------------------------------------------------------------------------- *)
Definition cell_of_text (s : bytes) : cell := mkcell s None None None.
Definition txt_1 : bytes := [49].
Definition txt_abc : bytes := [97;98;99].
Definition txt_plus5 : bytes := [43;53].

(* a non-numeric cell after row 100 in an Int column silently becomes a String value *)
Theorem csv_pinned_late_string_refuted :
  exists rows tys r vs, infer_csv 1 rows = Ok tys /\ In r rows /\
    exec_row_pinned tys r = Ok vs /\ all2 has_ftype vs tys = false.
Proof.
  exists (repeat [mkcell txt_1 (Some 4607182418800017408) (Some 4607182418800017408) None] 100 ++ [[cell_of_text txt_abc]]),
         [FPrim t_int], [cell_of_text txt_abc], [VStr txt_abc].
  split. vm_compute. reflexivity. split. apply in_or_app. right. simpl. auto.
  split; vm_compute; reflexivity.
Qed.

(* an empty cell after row 100 in a non-nullable column becomes NULL *)
Theorem csv_pinned_late_null_refuted :
  exists rows tys r vs, infer_csv 1 rows = Ok tys /\ In r rows /\
    exec_row_pinned tys r = Ok vs /\ all2 has_ftype vs tys = false.
Proof.
  exists (repeat [mkcell txt_1 (Some 4607182418800017408) (Some 4607182418800017408) None] 100 ++ [[cell_of_text []]]),
         [FPrim t_int], [cell_of_text []], [VNull].
  split. vm_compute. reflexivity. split. apply in_or_app. right. simpl. auto.
  split; vm_compute; reflexivity.
Qed.

(* "+5" is an Int for the inference (strconv) and not for the execution (fastfloat): a String in an Int
   column inside the preview *)
Theorem csv_pinned_plus5_refuted :
  exists rows tys r vs, infer_csv 1 rows = Ok tys /\ In r (firstn 100 rows) /\ Forall (fun c => cell_wf c = true) r /\
    exec_row_pinned tys r = Ok vs /\ all2 has_ftype vs tys = false.
Proof.
  exists [[mkcell txt_plus5 (Some 4617315517961601024) None None]], [FPrim t_int],
         [mkcell txt_plus5 (Some 4617315517961601024) None None], [VStr txt_plus5].
  split. vm_compute. reflexivity. split. simpl. auto. split. repeat constructor.
  split; vm_compute; reflexivity.
Qed.

Theorem parsers_disagree_on_plus5 : strconv_int txt_plus5 = Some 5 /\ ff_int txt_plus5 = None.
Proof. split; vm_compute; reflexivity. Qed.
