(* Proofs/SourcesJsonFlatProofs.v — C24, JSON: for files whose values are scalars (null, number, boolean,
   string / RFC3339 time) the rows the schema was inferred from are never errors. *)
From Octo Require Import SourcesJson SourcesCsvProofs SourcesJsonProofs SourcesScanProofs.
From Coq Require Import Arith.

Local Arguments prim_is : simpl never.
Local Arguments type_sum_prim : simpl never.

Definition covered_by (t : fty) (ov : option jval) : Prop :=
  match ov with
  | Some v => exists p, scalar_kind v = Some p /\ prim_is p t = true
  | None => prim_is t_null t = true
  end.

Lemma covered_mono : forall t ov p, covered_by t ov -> covered_by (type_sum_prim t p) ov.
Proof.
  intros t [v|] p H; simpl in *.
  - destruct H as [q [H1 H2]]. exists q. split; auto. rewrite prim_is_type_sum, H2. auto.
  - rewrite prim_is_type_sum, H. auto.
Qed.

(* ---- execution on flat types ---- *)
Lemma scalar_fits_prim : forall v p, scalar_kind v = Some p ->
  exists x, get_value true (jty_of_prim p) (Some v) = Ok (x, true).
Proof.
  intros v p H. destruct v as [| b | b | s [tm|] d | l | fs]; simpl in H; inversion H; subst; vm_compute; eauto.
Qed.

Lemma union_accepts : forall v p alts, scalar_kind v = Some p -> existsb (Z.eqb p) alts = true ->
  exists x, get_value true (JUnion (map jty_of_prim alts)) (Some v) = Ok (x, true).
Proof.
  intros v p alts Hk. induction alts as [|a r IH]; intros H; simpl in H. discriminate.
  cbn [get_value map].
  destruct (get_value_total (jty_of_prim a) (Some v)) as [x [ok E]].
  destruct (p =? a) eqn:Epa.
  - apply Z.eqb_eq in Epa. subst a. destruct (scalar_fits_prim v p Hk) as [y Hy]. rewrite Hy. eauto.
  - simpl in H. rewrite E. destruct ok. eauto. apply IH in H. cbn [get_value] in H. exact H.
Qed.

Lemma covered_exec : forall t ov, covered_by t ov -> exists x, get_value true (jty_of_fty t) ov = Ok (x, true).
Proof.
  intros t [v|] H; simpl in H.
  - destruct H as [p [H1 H2]]. destruct t as [q|alts]; unfold prim_is in H2; simpl jty_of_fty.
    + apply Z.eqb_eq in H2. subst q. apply scalar_fits_prim; auto.
    + eapply union_accepts; eauto.
  - assert (E : get_value true (jty_of_fty t) None = Ok (VNull, null_is (jty_of_fty t))) by (destruct (jty_of_fty t); reflexivity).
    rewrite E. exists VNull. f_equal. f_equal.
    destruct t as [q|alts]; unfold prim_is in H; simpl jty_of_fty.
    + apply Z.eqb_eq in H. subst q. reflexivity.
    + clear E. apply existsb_exists in H as [x [Hin Hx]]. apply Z.eqb_eq in Hx. subst x.
      cbn [null_is]. induction alts as [|a r IH]; simpl in Hin. contradiction.
      cbn [map]. destruct Hin as [->|Hin]. reflexivity. rewrite IH; auto. apply orb_true_r.
Qed.

(* ---- the association list of fields ---- *)
Lemma beq_refl : forall k, bytes_eqb k k = true.
Proof. intros. apply bytes_eqb_eq. auto. Qed.
Lemma beq_neq : forall a b, a <> b -> bytes_eqb a b = false.
Proof. intros a b H. destruct (bytes_eqb a b) eqn:E; auto. apply bytes_eqb_eq in E. contradiction. Qed.

Lemma get_set_same : forall fs k t, fields_get (fields_set fs k t) k = Some t.
Proof.
  induction fs as [|[k' t'] r IH]; intros k t; simpl. rewrite beq_refl. auto.
  destruct (bytes_eqb k' k) eqn:E; simpl; rewrite E; auto.
Qed.

Lemma get_set_other : forall fs k t k2, k2 <> k -> fields_get (fields_set fs k t) k2 = fields_get fs k2.
Proof.
  induction fs as [|[k' t'] r IH]; intros k t k2 H; simpl. rewrite beq_neq; auto.
  destruct (bytes_eqb k' k) eqn:E; simpl.
  - apply bytes_eqb_eq in E. subst k'. rewrite beq_neq; auto.
  - destruct (bytes_eqb k' k2); auto.
Qed.

Lemma get_none_notin : forall fs k, fields_get fs k = None -> ~ In k (map fst fs).
Proof.
  induction fs as [|[k' t'] r IH]; simpl; intros k H. tauto.
  destruct (bytes_eqb k' k) eqn:E; try discriminate. intros [Hk|Hk].
  subst. rewrite beq_refl in E. discriminate. eapply IH; eauto.
Qed.

Lemma set_keys : forall fs k t, map fst (fields_set fs k t) = map fst fs \/
  (fields_get fs k = None /\ map fst (fields_set fs k t) = map fst fs ++ [k]).
Proof.
  induction fs as [|[k' t'] r IH]; intros k t; simpl. right; auto.
  destruct (bytes_eqb k' k) eqn:E; simpl. left; auto.
  destruct (IH k t) as [H|[H1 H2]]. left; f_equal; auto. right. split; auto. f_equal; auto.
Qed.

Lemma nodup_snoc : forall (l : list bytes) k, NoDup l -> ~ In k l -> NoDup (l ++ [k]).
Proof.
  induction l as [|a l IH]; simpl; intros k H Hk. constructor. intros []. constructor.
  inversion H; subst. constructor.
  - intros Hin. apply in_app_or in Hin as [Hin|[Hin|[]]]. contradiction. subst. apply Hk. auto.
  - apply IH; auto.
Qed.

Lemma set_nodup : forall fs k t, NoDup (map fst fs) -> NoDup (map fst (fields_set fs k t)).
Proof.
  intros fs k t H. destruct (set_keys fs k t) as [E|[E1 E2]]. rewrite E; auto.
  rewrite E2. apply nodup_snoc; auto. apply get_none_notin; auto.
Qed.

Lemma nodup_in_get : forall fs k t, NoDup (map fst fs) -> In (k, t) fs -> fields_get fs k = Some t.
Proof.
  induction fs as [|[k' t'] r IH]; simpl; intros k t Hnd Hin. contradiction.
  inversion Hnd; subst. destruct Hin as [Hin|Hin].
  - inversion Hin; subst. rewrite beq_refl. auto.
  - destruct (bytes_eqb k' k) eqn:E. apply bytes_eqb_eq in E. subst. exfalso. apply H1. apply (in_map fst) in Hin. auto.
    apply IH; auto.
Qed.

Lemma obj_get_app : forall a k v k2, obj_get (a ++ [(k, v)]) k2 =
  match obj_get a k2 with Some x => Some x | None => if bytes_eqb k k2 then Some v else None end.
Proof.
  induction a as [|[k' v'] r IH]; intros; simpl. auto.
  destruct (bytes_eqb k' k2); auto.
Qed.

(* ---- the inference invariant ---- *)
Definition row := list (bytes * jval).

Record finv (fs : jfields) (seen : list row) : Prop := mkfinv {
  f_nd : NoDup (map fst fs);
  f_keys : forall r0 k v, In r0 seen -> obj_get r0 k = Some v -> fields_get fs k <> None;
  f_cov : forall r0 k t, In r0 seen -> fields_get fs k = Some t -> covered_by t (obj_get r0 k)
}.

Definition jinv (fs : jfields) (done : row) : Prop :=
  forall k v, obj_get done k = Some v -> exists t, fields_get fs k = Some t /\ covered_by t (Some v).

Lemma visit_row_inv : forall todo first_row fs seen done fs',
  (first_row = true -> seen = []) ->
  finv fs seen -> jinv fs done ->
  visit_row true first_row fs todo = Ok fs' ->
  finv fs' seen /\ jinv fs' (done ++ todo).
Proof.
  induction todo as [|[k v] todo IH]; intros first_row fs seen done fs' Hfirst Hinv Hj H; simpl in H.
  - inversion H; subst. rewrite app_nil_r. auto.
  - destruct (scalar_kind v) as [p|] eqn:Ek; try discriminate.
    assert (Hstep : exists tnew, visit_row true first_row (fields_set fs k tnew) todo = Ok fs' /\ prim_is p tnew = true /\
              match fields_get fs k with
              | Some told => tnew = type_sum_prim told p
              | None => first_row = false -> prim_is t_null tnew = true
              end).
    { destruct (fields_get fs k) as [told|].
      - eexists. split. exact H. split. apply prim_is_sum_new. reflexivity.
      - eexists. split. exact H. destruct first_row; simpl.
        + split. apply prim_is_refl. intros; discriminate.
        + split. rewrite prim_is_type_sum, prim_is_refl. auto. intros _. rewrite prim_is_type_sum. apply orb_true_r. }
    clear H. destruct Hstep as [tnew [H [Hp Hshape]]].
    replace (done ++ (k, v) :: todo) with ((done ++ [(k, v)]) ++ todo) by (rewrite <- app_assoc; reflexivity).
    destruct Hinv as [Hnd Hkeys Hcov].
    eapply IH; eauto.
    + constructor.
      * apply set_nodup; auto.
      * intros r0 k2 v2 Hin Hg. destruct (list_eq_dec Z.eq_dec k2 k) as [->|Hne].
        rewrite get_set_same. discriminate. rewrite get_set_other; eauto.
      * intros r0 k2 t Hin Hg. destruct (list_eq_dec Z.eq_dec k2 k) as [->|Hne].
        -- rewrite get_set_same in Hg. inversion Hg; subst t.
           destruct (fields_get fs k) as [told|] eqn:Eg.
           ++ subst tnew. apply covered_mono. eapply Hcov; eauto.
           ++ destruct first_row. rewrite (Hfirst eq_refl) in Hin. contradiction.
              destruct (obj_get r0 k) eqn:Eo. exfalso. eapply Hkeys; eauto.
              simpl. apply Hshape; auto.
        -- rewrite get_set_other in Hg; eauto.
    + intros k2 v2 Hg. rewrite obj_get_app in Hg. destruct (obj_get done k2) as [x|] eqn:Ed.
      * inversion Hg; subst x. destruct (Hj k2 v2 Ed) as [t [Ht Hc]].
        destruct (list_eq_dec Z.eq_dec k2 k) as [->|Hne].
        -- exists tnew. rewrite get_set_same. split; auto. rewrite Ht in Hshape. subst tnew. apply covered_mono; auto.
        -- exists t. rewrite get_set_other; auto.
      * destruct (bytes_eqb k k2) eqn:E; try discriminate. apply bytes_eqb_eq in E. subst k2. inversion Hg; subst v2.
        exists tnew. rewrite get_set_same. split; auto. simpl. eauto.
Qed.

Lemma close_row_get : forall fs obj k, fields_get (close_row true fs obj) k =
  match fields_get fs k with
  | Some t => Some (match obj_get obj k with Some _ => t | None => type_sum_prim t t_null end)
  | None => None
  end.
Proof.
  induction fs as [|[k' t'] r IH]; intros obj k; simpl. auto.
  destruct (obj_get obj k') eqn:Eo; simpl; destruct (bytes_eqb k' k) eqn:E; auto.
  - apply bytes_eqb_eq in E. subst. rewrite Eo. auto.
  - apply IH.
  - apply bytes_eqb_eq in E. subst. rewrite Eo. auto.
  - apply IH.
Qed.

Lemma close_row_keys : forall fs obj, map fst (close_row true fs obj) = map fst fs.
Proof. intros. simpl. rewrite map_map. apply map_ext. intros [k t]. simpl. destruct (obj_get obj k); auto. Qed.

Lemma close_row_inv : forall fs seen r, finv fs seen -> jinv fs r -> finv (close_row true fs r) (seen ++ [r]).
Proof.
  intros fs seen r [Hnd Hkeys Hcov] Hj. constructor.
  - rewrite close_row_keys. auto.
  - intros r0 k v Hin Hg. rewrite close_row_get. apply in_app_or in Hin as [Hin|[Hin|[]]].
    + destruct (fields_get fs k) eqn:E. discriminate. exfalso. eapply Hkeys; eauto.
    + subst r0. destruct (Hj k v Hg) as [t [Ht _]]. rewrite Ht. discriminate.
  - intros r0 k t Hin Hg. rewrite close_row_get in Hg. destruct (fields_get fs k) as [t0|] eqn:E; try discriminate.
    inversion Hg; subst t. clear Hg. apply in_app_or in Hin as [Hin|[Hin|[]]].
    + destruct (obj_get r k). eapply Hcov; eauto. apply covered_mono. eapply Hcov; eauto.
    + subst r0. destruct (obj_get r k) as [v|] eqn:Eo.
      * destruct (Hj k v Eo) as [t [Ht Hc]]. congruence.
      * simpl. rewrite prim_is_type_sum. apply orb_true_r.
Qed.

Lemma infer_rows_inv : forall rows first_row fs seen fs',
  (first_row = true -> seen = [] /\ fs = []) -> finv fs seen ->
  infer_json_rows true first_row fs rows = Ok fs' -> finv fs' (seen ++ rows).
Proof.
  induction rows as [|r rows IH]; intros first_row fs seen fs' Hfirst Hinv H; simpl in H.
  - inversion H; subst. rewrite app_nil_r. auto.
  - destruct (visit_row true first_row fs r) as [fs1| |] eqn:E; try discriminate.
    destruct (visit_row_inv r first_row fs seen [] fs1) as [H1 H2]; auto.
    intros Hf. apply Hfirst; auto. intros k v Hk. discriminate.
    simpl in H2. apply (close_row_inv _ _ _ H1) in H2.
    apply (IH false (close_row true fs1 r) (seen ++ [r])) in H; auto. rewrite <- app_assoc in H. exact H. intros; discriminate.
Qed.

Lemma exec_row_covered : forall fs r,
  (forall k t, In (k, t) fs -> covered_by t (obj_get r k)) ->
  exists vs, exec_json_row true (jschema fs) r = Ok vs.
Proof.
  unfold jschema. induction fs as [|[k t] fs IH]; intros r H; cbn [map exec_json_row fst snd]. eauto.
  destruct (covered_exec t (obj_get r k) (H k t (or_introl eq_refl))) as [x Hx]. rewrite Hx. cbn [negb andb].
  destruct (IH r) as [vs Hvs]. intros k2 t2 Hin. apply H. right; auto.
  rewrite Hvs. eauto.
Qed.

(* for scalar-valued files: the rows the schema was inferred from are produced, none is an error *)
Theorem json_flat_preview_rows_ok : forall rows fs,
  infer_json true rows = Ok fs -> forall r, In r (firstn 100 rows) ->
  exists vs, exec_json_row true (jschema fs) r = Ok vs.
Proof.
  intros rows fs H r Hin. unfold infer_json in H.
  assert (Hinv : finv fs ([] ++ firstn 100 rows)).
  { eapply infer_rows_inv; eauto. constructor; simpl; try constructor; intros; contradiction. }
  simpl in Hinv. destruct Hinv as [Hnd Hkeys Hcov].
  apply exec_row_covered. intros k t Hkt. eapply Hcov; eauto. apply nodup_in_get; auto.
Qed.
