(* Proofs/CompareLaws.v — Value.Compare is a total preorder; equal values have equal hash feeds. *)
From Coq Require Import Znumtheory.
From Octo Require Import Values ValueInd.

(* The bundle of laws of a three-valued comparator, stated for one fixed left operand so that it
   can serve as an induction hypothesis on that operand. *)
Record cmp_laws {A} (cmp : A -> A -> Z) (x : A) : Prop := {
  cl_range : forall b, cmp x b = -1 \/ cmp x b = 0 \/ cmp x b = 1;
  cl_refl  : cmp x x = 0;
  cl_anti  : forall b, cmp b x = - cmp x b;
  cl_congl : forall b c, cmp x b = 0 -> cmp x c = cmp b c;
  cl_congr : forall b c, cmp b c = 0 -> cmp x b = cmp x c;
  cl_trans : forall b c, cmp x b = -1 -> cmp b c = -1 -> cmp x c = -1
}.

Ltac zcmp_tac :=
  unfold zcmp in *;
  repeat match goal with
  | |- context [?a <? ?b] => destruct (Z.ltb_spec a b)
  | H : context [?a <? ?b] |- _ => destruct (Z.ltb_spec a b)
  end; try lia.

Lemma zcmp_laws : forall x, cmp_laws zcmp x.
Proof. intro x. split; intros; zcmp_tac. Qed.

Lemma bcompare_laws : forall x, cmp_laws bcompare x.
Proof.
  intro x. split; intros; destruct x; try destruct b; try destruct c; cbv in *; try lia; auto.
Qed.

Lemma fcompare_laws : forall x, cmp_laws fcompare x.
Proof.
  intro x. pose proof (zcmp_laws (f_key x)) as Z.
  split; intros; unfold fcompare in *.
  - destruct (f_is_nan x), (f_is_nan b); try lia. apply Z.
  - destruct (f_is_nan x); try lia. apply Z.
  - destruct (f_is_nan x), (f_is_nan b); try lia. apply Z.
  - destruct (f_is_nan x), (f_is_nan b), (f_is_nan c); try lia; try discriminate.
    apply (cl_congl _ _ Z); assumption.
  - destruct (f_is_nan x), (f_is_nan b), (f_is_nan c); try lia; try discriminate.
    apply (cl_congr _ _ Z); assumption.
  - destruct (f_is_nan x), (f_is_nan b), (f_is_nan c); try lia; try discriminate.
    apply (cl_trans _ _ Z) with (b := f_key b); assumption.
Qed.

Section Lex.
  Context {A : Type} (cmp : A -> A -> Z).

  Lemma lex_cons : forall x xs y ys,
    lex_cmp cmp (x :: xs) (y :: ys) = if cmp x y =? 0 then lex_cmp cmp xs ys else cmp x y.
  Proof. reflexivity. Qed.

  Lemma lex_nil_laws : cmp_laws (lex_cmp cmp) [].
  Proof.
    split; intros.
    - destruct b; simpl; lia.
    - reflexivity.
    - destruct b; simpl; lia.
    - destruct b; simpl in *; [reflexivity | lia].
    - destruct b as [|y ys], c as [|z zs]; simpl in *; try lia.
    - destruct c as [|z zs]; [|reflexivity]. destruct b; simpl in *; lia.
  Qed.

  Lemma lex_laws : forall la, Forall (cmp_laws cmp) la -> cmp_laws (lex_cmp cmp) la.
  Proof.
    induction 1 as [|x xs Hx Hxs IH]; [apply lex_nil_laws|].
    destruct Hx as [xr xrefl xa xcl xcr xt]. destruct IH as [ir irefl ia icl icr it].
    split; intros.
    - destruct b as [|y ys]; [simpl; lia|]. rewrite lex_cons.
      destruct (Z.eqb_spec (cmp x y) 0); [apply ir | apply xr].
    - rewrite lex_cons, xrefl. simpl. apply irefl.
    - destruct b as [|y ys]; [simpl; lia|]. rewrite !lex_cons, (xa y).
      destruct (Z.eqb_spec (cmp x y) 0) as [e|ne].
      + rewrite e. simpl. apply ia.
      + destruct (Z.eqb_spec (- cmp x y) 0); lia.
    - destruct b as [|y ys]; [simpl in *; lia|]. rewrite lex_cons in H.
      destruct (Z.eqb_spec (cmp x y) 0) as [e|ne]; [|lia].
      destruct c as [|z zs]; [reflexivity|]. rewrite !lex_cons.
      rewrite (xcl y z e). destruct (cmp y z =? 0); [apply icl; assumption | reflexivity].
    - destruct b as [|y ys], c as [|z zs]; try reflexivity.
      + simpl in H. lia.
      + simpl in H. lia.
      + rewrite lex_cons in H. rewrite !lex_cons.
        destruct (Z.eqb_spec (cmp y z) 0) as [e|ne]; [|lia].
        rewrite (xcr y z e). destruct (cmp x z =? 0); [apply icr; assumption | reflexivity].
    - destruct b as [|y ys]; [simpl in *; lia|].
      destruct c as [|z zs]; [simpl in *; lia|].
      rewrite lex_cons in *.
      destruct (Z.eqb_spec (cmp x y) 0) as [exy|nxy];
      destruct (Z.eqb_spec (cmp y z) 0) as [eyz|nyz].
      + rewrite (xcl y z exy), eyz. simpl. apply it with (b := ys); assumption.
      + rewrite (xcl y z exy). destruct (Z.eqb_spec (cmp y z) 0); [lia|assumption].
      + rewrite <- (xcr y z eyz). destruct (Z.eqb_spec (cmp x y) 0); [lia|assumption].
      + rewrite (xt y z H H0). reflexivity.
  Qed.
End Lex.

Lemma bytes_cmp_laws : forall x, cmp_laws bytes_cmp x.
Proof. intro x. apply lex_laws. apply Forall_forall. intros; apply zcmp_laws. Qed.

(* ---- Value.Compare ---- *)

Lemma tid_range : forall v, 0 <= tid v <= 9.
Proof. destruct v; simpl; lia. Qed.

Lemma vcompare_tid_ne : forall a b, tid a <> tid b ->
  vcompare a b = if tid a <? tid b then -1 else 1.
Proof.
  intros a b H. destruct a, b; try reflexivity; exfalso; apply H; reflexivity.
Qed.

Ltac tid_solve :=
  match goal with
  | |- context [vcompare ?a ?b] =>
      rewrite (vcompare_tid_ne a b) by (simpl; lia); simpl
  | H : context [vcompare ?a ?b] |- _ =>
      rewrite (vcompare_tid_ne a b) in H by (simpl; lia); simpl in H
  end.

Lemma vc_null : vcompare VNull VNull = 0. Proof. reflexivity. Qed.
Lemma vc_int x y : vcompare (VInt x) (VInt y) = zcmp x y. Proof. reflexivity. Qed.
Lemma vc_float x y : vcompare (VFloat x) (VFloat y) = fcompare x y. Proof. reflexivity. Qed.
Lemma vc_bool x y : vcompare (VBool x) (VBool y) = bcompare x y. Proof. reflexivity. Qed.
Lemma vc_str x y : vcompare (VStr x) (VStr y) = bytes_cmp x y. Proof. reflexivity. Qed.
Lemma vc_time x lx y ly : vcompare (VTime x lx) (VTime y ly) = zcmp x y. Proof. reflexivity. Qed.
Lemma vc_dur x y : vcompare (VDur x) (VDur y) = zcmp x y. Proof. reflexivity. Qed.
Lemma vc_list x y : vcompare (VList x) (VList y) = lex_cmp vcompare x y. Proof. reflexivity. Qed.
Lemma vc_struct x y : vcompare (VStruct x) (VStruct y) = lex_cmp vcompare x y. Proof. reflexivity. Qed.
Lemma vc_tuple x y : vcompare (VTuple x) (VTuple y) = lex_cmp vcompare x y. Proof. reflexivity. Qed.

Ltac vc_same :=
  rewrite ?vc_null, ?vc_int, ?vc_float, ?vc_bool, ?vc_str, ?vc_time, ?vc_dur, ?vc_list, ?vc_struct, ?vc_tuple in *.

Ltac use_laws L :=
  first [ apply (cl_range _ _ L) | apply (cl_refl _ _ L) | apply (cl_anti _ _ L)
        | apply (cl_congl _ _ L); assumption | apply (cl_congr _ _ L); assumption
        | eapply (cl_trans _ _ L); eassumption ].

Theorem vcompare_laws : forall a, cmp_laws vcompare a.
Proof.
  induction a as [ | x | x | x | x | x lx | x | l IH | l IH | l IH ] using value_ind'.
  all: split; [intros vb | | intros vb | intros vb vc Hb | intros vb vc Hbc | intros vb vc Hab Hbc].
  all: try (destruct vb; try (repeat tid_solve; lia)).
  all: try (destruct vc; try (repeat tid_solve; try lia; try reflexivity)).
  all: vc_same; try lia.
  all: try use_laws (zcmp_laws x).
  all: try use_laws (fcompare_laws x).
  all: try use_laws (bcompare_laws x).
  all: try use_laws (bytes_cmp_laws x).
  all: try use_laws (lex_laws vcompare l IH).
Qed.

Lemma vcompare_refl a : vcompare a a = 0.
Proof. apply (cl_refl _ _ (vcompare_laws a)). Qed.
Lemma vcompare_antisym a b : vcompare b a = - vcompare a b.
Proof. apply (cl_anti _ _ (vcompare_laws a)). Qed.
Lemma vcompare_range a b : vcompare a b = -1 \/ vcompare a b = 0 \/ vcompare a b = 1.
Proof. apply (cl_range _ _ (vcompare_laws a)). Qed.
Lemma vcompare_eq_cong a b c : vcompare a b = 0 -> vcompare a c = vcompare b c.
Proof. apply (cl_congl _ _ (vcompare_laws a)). Qed.
Lemma vcompare_eq_cong_r a b c : vcompare b c = 0 -> vcompare a b = vcompare a c.
Proof. apply (cl_congr _ _ (vcompare_laws a)). Qed.
Lemma vcompare_lt_trans a b c : vcompare a b = -1 -> vcompare b c = -1 -> vcompare a c = -1.
Proof. apply (cl_trans _ _ (vcompare_laws a)). Qed.

Lemma vcompare_trans a b c : vcompare a b <= 0 -> vcompare b c <= 0 -> vcompare a c <= 0.
Proof.
  intros H1 H2.
  destruct (vcompare_range a b) as [E1|[E1|E1]]; try lia;
  destruct (vcompare_range b c) as [E2|[E2|E2]]; try lia.
  - rewrite (vcompare_lt_trans a b c E1 E2). lia.
  - rewrite <- (vcompare_eq_cong_r a b c E2). lia.
  - rewrite (vcompare_eq_cong a b c E1). lia.
  - rewrite (vcompare_eq_cong a b c E1). lia.
Qed.

Lemma vcompare_total a b : vcompare a b <= 0 \/ vcompare b a <= 0.
Proof. rewrite (vcompare_antisym a b). destruct (vcompare_range a b) as [E|[E|E]]; lia. Qed.

(* rows (slices of values) *)
Lemma row_laws : forall r, cmp_laws (lex_cmp vcompare) r.
Proof. intro r. apply lex_laws. apply Forall_forall. intros; apply vcompare_laws. Qed.

Lemma row_eqb_refl r : row_eqb r r = true.
Proof. unfold row_eqb. rewrite (cl_refl _ _ (row_laws r)). reflexivity. Qed.
Lemma row_eqb_sym a b : row_eqb a b = row_eqb b a.
Proof. unfold row_eqb. rewrite (cl_anti _ _ (row_laws b) a).
  destruct (cl_range _ _ (row_laws b) a) as [E|[E|E]]; rewrite E; reflexivity. Qed.
Lemma row_eqb_trans a b c : row_eqb a b = true -> row_eqb b c = true -> row_eqb a c = true.
Proof. unfold row_eqb. rewrite !Z.eqb_eq. intros H1 H2.
  rewrite (cl_congl _ _ (row_laws a) b c H1). exact H2. Qed.
Lemma row_eqb_cong a b c : row_eqb a b = true -> row_eqb a c = row_eqb b c.
Proof. unfold row_eqb. rewrite Z.eqb_eq. intro H. rewrite (cl_congl _ _ (row_laws a) b c H). reflexivity. Qed.

(* ---- hashing ---- *)

Ltac Zify.zify_post_hook ::= Z.div_mod_to_equations.

Lemma f_bits_split x :
  x mod two64 = (if two63 <=? x mod two64 then two63 else 0) + x mod two63.
Proof.
  assert (D : x mod two63 = (x mod two64) mod two63).
  { apply Zmod_div_mod; try reflexivity. exists 2. reflexivity. }
  rewrite D. pose proof (Z.mod_pos_bound x two64 eq_refl) as B. set (r := x mod two64) in *.
  unfold two63, two64 in *. destruct (Z.leb_spec 9223372036854775808 r); lia.
Qed.

Lemma fcompare_hash_bits x y : fcompare x y = 0 -> f_hash_bits x = f_hash_bits y.
Proof.
  unfold fcompare, f_hash_bits. destruct (f_is_nan x) eqn:Nx, (f_is_nan y) eqn:Ny; try lia; try reflexivity.
  intro H. assert (K : f_key x = f_key y) by (revert H; zcmp_tac).
  clear H Nx Ny. revert K. unfold f_key, f_neg, f_mag.
  pose proof (f_bits_split x) as Sx. pose proof (f_bits_split y) as Sy.
  pose proof (Z.mod_pos_bound x two63 eq_refl). pose proof (Z.mod_pos_bound y two63 eq_refl).
  destruct (two63 <=? x mod two64); destruct (two63 <=? y mod two64);
  destruct (Z.eqb_spec (x mod two63) 0); destruct (Z.eqb_spec (y mod two63) 0); intro K;
  try reflexivity; unfold two63 in *; lia.
Qed.

Lemma enc_flat_map_eq : forall la lb,
  Forall (fun a => forall b, vcompare a b = 0 -> enc a = enc b) la ->
  lex_cmp vcompare la lb = 0 -> flat_map enc la = flat_map enc lb.
Proof.
  induction la as [|x xs IH]; intros lb HF H.
  - destruct lb; simpl in *; [reflexivity | lia].
  - destruct lb as [|y ys]; [simpl in H; lia|]. rewrite lex_cons in H.
    inversion HF as [|? ? Hx Hxs]; subst.
    destruct (Z.eqb_spec (vcompare x y) 0) as [e|ne]; [|lia].
    simpl. rewrite (Hx y e), (IH ys Hxs H). reflexivity.
Qed.

Lemma bytes_cmp_eq : forall x y, bytes_cmp x y = 0 -> x = y.
Proof.
  unfold bytes_cmp. induction x as [|c cs IHc]; intros [|d ds] H; try (simpl in H; lia); try reflexivity.
  rewrite lex_cons in H. destruct (Z.eqb_spec (zcmp c d) 0) as [e|ne]; [|lia].
  f_equal; [revert e; zcmp_tac | apply IHc; exact H].
Qed.

Theorem vcompare_enc : forall a b, vcompare a b = 0 -> enc a = enc b.
Proof.
  induction a as [ | x | x | x | x | x lx | x | l IH | l IH | l IH ] using value_ind';
  intros vb H; destruct vb; try (tid_solve; lia); vc_same; try reflexivity.
  - match type of H with zcmp ?p ?q = 0 => assert (p = q) by (revert H; zcmp_tac) end; subst; reflexivity.
  - unfold enc; simpl. rewrite (fcompare_hash_bits _ _ H). reflexivity.
  - destruct x, b; cbv in H; try lia; reflexivity.
  - rewrite (bytes_cmp_eq _ _ H). reflexivity.
  - match type of H with zcmp ?p ?q = 0 => assert (p = q) by (revert H; zcmp_tac) end; subst; reflexivity.
  - match type of H with zcmp ?p ?q = 0 => assert (p = q) by (revert H; zcmp_tac) end; subst; reflexivity.
  - change (enc (VList l)) with (flat_map enc l). change (enc (VList l0)) with (flat_map enc l0).
    apply enc_flat_map_eq; assumption.
Qed.

Theorem rows_enc : forall ka kb, lex_cmp vcompare ka kb = 0 -> enc_many ka = enc_many kb.
Proof.
  intros ka kb H. unfold enc_many. apply enc_flat_map_eq; [|exact H].
  apply Forall_forall. intros a _ b. apply vcompare_enc.
Qed.

Theorem vequal_spec : forall a b, (a <> VNull \/ b <> VNull) -> (vequal a b = true <-> vcompare a b = 0).
Proof.
  intros a b H. unfold vequal. destruct a, b; try apply Z.eqb_eq.
  destruct H as [H|H]; congruence.
Qed.

(* the hashmap equality closure and the tree comparator induce the same equivalence on equal-length keys *)
Theorem slices_eq_iff : forall k1 k2, length k1 = length k2 ->
  (slices_eq k1 k2 = true <-> (slices_less k1 k2 = false /\ slices_less k2 k1 = false)).
Proof.
  induction k1 as [|x xs IH]; intros [|y ys] L; simpl in L; try discriminate.
  - simpl. tauto.
  - simpl. rewrite (vcompare_antisym x y).
    destruct (vcompare_range x y) as [E|[E|E]]; rewrite E; simpl.
    + split; [discriminate | intros [? ?]; discriminate].
    + rewrite (IH ys) by lia. tauto.
    + split; [discriminate | intros [? ?]; discriminate].
Qed.

Lemma slices_eq_row_eqb : forall k1 k2, length k1 = length k2 -> slices_eq k1 k2 = row_eqb k1 k2.
Proof.
  unfold row_eqb. induction k1 as [|x xs IH]; intros [|y ys] L; simpl in L; try discriminate; try reflexivity.
  rewrite lex_cons. simpl. destruct (Z.eqb_spec (vcompare x y) 0) as [e|ne]; simpl.
  - apply IH; lia.
  - symmetry. apply Z.eqb_neq. exact ne.
Qed.

(* ---- the pinned tree: Compare with NaN is not transitive, +0/-0 compare equal and hash apart ---- *)
Definition f_one : Z := 4607182418800017408.   (* 1.0 *)
Definition f_two : Z := 4611686018427387904.   (* 2.0 *)
Definition f_negzero : Z := 9223372036854775808.

Lemma pinned_compare_not_transitive :
  exists a b c, vcompare_pinned a b <= 0 /\ vcompare_pinned b c <= 0 /\ ~ vcompare_pinned a c <= 0.
Proof. exists (VFloat f_two), (VFloat f_canon_nan), (VFloat f_one). vm_compute. repeat split; congruence. Qed.

Lemma pinned_hash_disagrees :
  exists a b, vcompare_pinned a b = 0 /\ enc_pinned a <> enc_pinned b.
Proof. exists (VFloat 0), (VFloat f_negzero). vm_compute. split; [reflexivity | discriminate]. Qed.

Lemma row_eqb_cong_r a b c : row_eqb b c = true -> row_eqb a b = row_eqb a c.
Proof. unfold row_eqb. rewrite Z.eqb_eq. intro H. rewrite (cl_congr _ _ (row_laws a) b c H). reflexivity. Qed.
