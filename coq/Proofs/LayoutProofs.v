(* Proofs/LayoutProofs.v — the layout fixer (calculateMapping + fixLayout) against the by-name specification
   [reshape], for nested structs, lists, tuples and unions (property C13, theorem C13_layout). *)
From Octo Require Import NumFns NumFnsProofs.

(* ---------- small list / outcome helpers ---------- *)
Lemma nth_apply_some : forall {A B} (f : A -> outcome B) l k x, nth_error l k = Some x -> nth_apply f l k = f x.
Proof.
  induction l as [|y l IH]; intros k x H; destruct k; simpl in *; try discriminate.
  - inversion H; subst. reflexivity.
  - apply IH. assumption.
Qed.

Lemma omap_list_Forall2 : forall {A B} (f : A -> outcome B) l l',
  Forall2 (fun x y => f x = Ok y) l l' -> omap_list f l = Ok l'.
Proof. induction 1; simpl; [reflexivity|]. rewrite H, IHForall2. reflexivity. Qed.

Lemma omap_list_map : forall {A B} (f : A -> outcome B) (g : A -> B) l,
  Forall (fun x => f x = Ok (g x)) l -> omap_list f l = Ok (map g l).
Proof. induction 1; simpl; [reflexivity|]. rewrite H, IHForall. reflexivity. Qed.

(* fixLayout's struct loop as omap_list *)
Definition entry_fn (fields : list value) (p : Z * lmap) : outcome value :=
  if fst p =? -1 then Ok VNull
  else if fst p <? 0 then Panic P_index
  else nth_apply (fix_layout (snd p)) fields (Z.to_nat (fst p)).

Lemma fix_layout_struct_eq : forall st li tu fields,
  fix_layout (LMap (Some st) li tu) (VStruct fields) =
  obind (omap_list (entry_fn fields) st) (fun l => Ok (VStruct l)).
Proof.
  intros st li tu fields. unfold fix_layout at 1. cbn [fix_layout_gen]. f_equal.
  induction st as [|[i mi] st IH]; [reflexivity|].
  cbn [omap_list]. rewrite <- IH. reflexivity.
Qed.

(* ---------- by-name lookup against sourceIndices ---------- *)
Lemma find_field_index : forall name fs vs k found acc,
  length fs = length vs -> found < k ->
  let r := last_index_of name fs k found in
  (r = found /\ find_field name fs vs acc = acc) \/
  (k <= r /\ exists n t fv, nth_error fs (Z.to_nat (r - k)) = Some (n, t) /\
                            nth_error vs (Z.to_nat (r - k)) = Some fv /\
                            find_field name fs vs acc = Some (t, fv)).
Proof.
  induction fs as [|[n t] fs IH]; intros vs k found acc Hl Hf; destruct vs as [|v vs]; simpl in Hl; try discriminate.
  - left. split; reflexivity.
  - cbn [last_index_of find_field].
    specialize (IH vs (k + 1) (if list_eqb Z.eqb n name then k else found)
                   (if list_eqb Z.eqb n name then Some (t, v) else acc) ltac:(lia)).
    destruct (list_eqb Z.eqb n name) eqn:E.
    + destruct (IH ltac:(lia)) as [[R F]|[R (n' & t' & fv & A & B & C)]].
      * right. split; [cbv zeta in R; lia|]. exists n, t, v. cbv zeta in R. rewrite R.
        replace (k - k) with 0 by lia. simpl. repeat split. assumption.
      * right. split; [lia|]. exists n', t', fv.
        replace (Z.to_nat (last_index_of name fs (k + 1) k - k)) with (S (Z.to_nat (last_index_of name fs (k + 1) k - (k + 1)))) by lia.
        simpl. repeat split; assumption.
    + destruct (IH ltac:(lia)) as [[R F]|[R (n' & t' & fv & A & B & C)]].
      * left. split; assumption.
      * right. split; [lia|]. exists n', t', fv.
        replace (Z.to_nat (last_index_of name fs (k + 1) found - k)) with (S (Z.to_nat (last_index_of name fs (k + 1) found - (k + 1)))) by lia.
        simpl. repeat split; assumption.
Qed.

Lemma find_field_by_index : forall name sfs vals, length sfs = length vals ->
  let i := field_index name sfs in
  (i = -1 /\ find_field name sfs vals None = None) \/
  (0 <= i /\ exists n t fv, nth_error sfs (Z.to_nat i) = Some (n, t) /\ nth_error vals (Z.to_nat i) = Some fv /\
                            find_field name sfs vals None = Some (t, fv)).
Proof.
  intros name sfs vals H. unfold field_index.
  destruct (find_field_index name sfs vals 0 (-1) None H ltac:(lia)) as [[R F]|[R (n & t & fv & A & B & C)]].
  - left. split; assumption.
  - right. split; [assumption|]. exists n, t, fv. rewrite Z.sub_0_r in A, B. repeat split; assumption.
Qed.

(* ---------- branches of a mapping ---------- *)
Definition pure (k : Z) (m : lmap) : Prop :=
  let '(LMap st li tu) := m in (k <> 8 -> st = None) /\ (k <> 7 -> li = None) /\ (k <> 9 -> tu = None).

Definition same_branch (k : Z) (m m' : lmap) : Prop :=
  let '(LMap st li tu) := m in let '(LMap st' li' tu') := m' in
  (k = 8 -> st = st') /\ (k = 7 -> li = li') /\ (k = 9 -> tu = tu').

Lemma fix_layout_same_branch : forall v m m', same_branch (tid v) m m' -> fix_layout m v = fix_layout m' v.
Proof.
  intros v [st li tu] [st' li' tu'] (A & B & C). destruct v; try reflexivity; simpl in *.
  - rewrite (B eq_refl). reflexivity.
  - rewrite (A eq_refl). reflexivity.
  - rewrite (C eq_refl). reflexivity.
Qed.

Lemma same_branch_refl : forall k m, same_branch k m m.
Proof. intros k [st li tu]. repeat split. Qed.

Lemma same_branch_trans : forall k a b c, same_branch k a b -> same_branch k b c -> same_branch k a c.
Proof.
  intros k [s1 l1 t1] [s2 l2 t2] [s3 l3 t3] (A & B & C) (A' & B' & C'). repeat split; intro E;
  [rewrite (A E); apply A'|rewrite (B E); apply B'|rewrite (C E); apply C']; assumption.
Qed.

(* merging a mapping that is pure for another kind leaves the k-branch alone *)
Lemma merge_pure_other : forall k k' acc m, pure k' m -> k' <> k -> same_branch k (merge_mappings acc m) acc.
Proof.
  intros k k' [s l t] [s' l' t'] (A & B & C) N. simpl. repeat split; intro E; subst k.
  - rewrite (A N). reflexivity.
  - rewrite (B N). reflexivity.
  - rewrite (C N). reflexivity.
Qed.

Lemma merge_into_empty_branch : forall k acc m, same_branch k acc lmap_empty -> same_branch k (merge_mappings acc m) m.
Proof.
  intros k [s l t] [s' l' t'] (A & B & C). simpl. repeat split; intro E.
  - rewrite (A E). destruct s'; reflexivity.
  - rewrite (B E). destruct l'; reflexivity.
  - rewrite (C E). destruct t'; reflexivity.
Qed.

Section Fold.
  Variable c : lty -> outcome lmap.
  Variable k : Z.
  Let step := fun (acc : outcome lmap) (a : lty) => obind acc (fun m => obind (c a) (fun m' => Ok (merge_mappings m m'))).

  Definition other_alt (a : lty) : Prop := exists m k', c a = Ok m /\ pure k' m /\ k' <> k.

  Lemma fold_no_k : forall alts acc, Forall other_alt alts ->
    exists M, fold_left step alts (Ok acc) = Ok M /\ same_branch k M acc.
  Proof.
    induction alts as [|a alts IH]; intros acc H.
    - exists acc. split; [reflexivity|apply same_branch_refl].
    - inversion H as [|? ? (m & k' & Hc & Hp & Hk) Hr]; subst. cbn [fold_left]. unfold step at 2. cbn [obind]. rewrite Hc. cbn [obind].
      destruct (IH (merge_mappings acc m) Hr) as (M & HM & HS). exists M. split; [exact HM|].
      eapply same_branch_trans; [exact HS|]. eapply merge_pure_other; eassumption.
  Qed.

  Lemma fold_with_k : forall pre a post m acc,
    Forall other_alt pre -> Forall other_alt post -> c a = Ok m -> same_branch k acc lmap_empty ->
    exists M, fold_left step (pre ++ a :: post) (Ok acc) = Ok M /\ same_branch k M m.
  Proof.
    intros pre a post m acc Hpre Hpost Hc Hacc. rewrite fold_left_app.
    destruct (fold_no_k pre acc Hpre) as (M1 & H1 & S1). rewrite H1. cbn [fold_left]. unfold step at 2. cbn [obind]. rewrite Hc. cbn [obind].
    destruct (fold_no_k post (merge_mappings M1 m) Hpost) as (M2 & H2 & S2). exists M2. split; [exact H2|].
    eapply same_branch_trans; [exact S2|]. apply merge_into_empty_branch.
    eapply same_branch_trans; eassumption.
  Qed.

  Lemma fold_all_ok : forall alts acc, Forall (fun a => exists m, c a = Ok m) alts ->
    exists M, fold_left step alts (Ok acc) = Ok M.
  Proof.
    induction alts as [|a alts IH]; intros acc H; [exists acc; reflexivity|].
    inversion H as [|? ? (m & Hc) Hr]; subst. cbn [fold_left]. unfold step at 2. cbn [obind]. rewrite Hc. cbn [obind]. apply IH. assumption.
  Qed.
End Fold.

Lemma unique_split : forall {A} (p : A -> bool) l a,
  length (filter p l) = 1%nat -> find p l = Some a ->
  exists pre post, l = pre ++ a :: post /\ Forall (fun x => p x = false) (pre ++ post).
Proof.
  induction l as [|x l IH]; intros a Hc Hf; simpl in *; [discriminate|].
  destruct (p x) eqn:E.
  - inversion Hf; subst. exists [], l. split; [reflexivity|]. simpl in *.
    assert (Hn : filter p l = []) by (destruct (filter p l); [reflexivity|discriminate]).
    apply Forall_forall. intros y Hy. destruct (p y) eqn:Ey; [|reflexivity].
    assert (In y (filter p l)) by (apply filter_In; split; assumption). rewrite Hn in H. contradiction.
  - destruct (IH a Hc Hf) as (pre & post & Hl & Hall). exists (x :: pre), post. split; [simpl; rewrite Hl; reflexivity|].
    simpl. constructor; assumption.
Qed.

(* ---------- calculateMapping succeeds on covered types, with a mapping that is pure for the source's kind ---------- *)
Lemma pure_empty : forall k, pure k lmap_empty.
Proof. intro k. repeat split. Qed.

Lemma find_alt_id : forall id alts a, find_alt id alts = Some a -> lty_id a = id.
Proof. intros id alts a H. apply find_some in H. destruct H as [_ H]. apply Z.eqb_eq in H. exact H. Qed.

Lemma resolves_same_id : forall a src, lty_id a = lty_id src -> resolves a src = true.
Proof. intros a src H. unfold resolves. rewrite H, Z.eqb_refl. apply orb_true_r. Qed.

Definition calc_ok (n : nat) (tgt src : lty) : Prop :=
  exists m, calc_mapping n tgt src = Ok m /\ (is_union src = false -> resolves tgt src = true -> pure (lty_id src) m).

Lemma tuple_calc_exists : forall n,
  (forall tgt src, tcovers n tgt src = true -> calc_ok n tgt src) ->
  forall tes ses, forallb2p (tcovers n) tes ses = true ->
  exists ms, omap2_list (fun s t => calc_mapping n t s) (firstn (length ses) tes) ses = Ok ms.
Proof.
  intros n IH. induction tes as [|t tes IHt]; intros ses H.
  - rewrite firstn_nil. exists []. reflexivity.
  - destruct ses as [|s ses]; [exists []; reflexivity|].
    cbn [forallb2p] in H. apply andb_prop in H. destruct H as [H1 H2].
    destruct (IH t s H1) as (m & Hm & _). destruct (IHt ses H2) as (ms & Hms).
    exists (m :: ms). cbn [length firstn omap2_list]. rewrite Hm. cbn [obind]. rewrite Hms. reflexivity.
Qed.

Lemma calc_exists_pure : forall n tgt src, tcovers n tgt src = true -> calc_ok n tgt src.
Proof.
  induction n as [|n IH]; intros tgt src H; [discriminate|].
  assert (UNION_T : forall talts, is_union src = false ->
            match find_alt (lty_id src) talts with Some a => tcovers n a src | None => false end = true ->
            exists m, match find_alt (lty_id src) talts with Some a => calc_mapping n a src | None => Panic P_nil end = Ok m /\
                      (is_union src = false -> resolves (TUnion talts) src = true -> pure (lty_id src) m)).
  { intros talts Hnu Hc. destruct (find_alt (lty_id src) talts) as [a|] eqn:F; [|discriminate].
    destruct (IH a src Hc) as (m & Hm & Hp). exists m. split; [exact Hm|]. intros _ _.
    apply Hp; [assumption|]. apply resolves_same_id. eapply find_alt_id; eassumption. }
  destruct src as [id'|sfs|sel|ses|alts].
  - (* source primitive *)
    destruct tgt as [id|tfs|tel|tes|talts]; cbn [tcovers] in H; try discriminate.
    + exists lmap_empty. split; [reflexivity|]. intros _ _. apply pure_empty.
    + apply (UNION_T talts eq_refl H).
  - (* source struct *)
    destruct tgt as [id|tfs|tel|tes|talts]; cbn [tcovers] in H; try discriminate.
    + unfold calc_ok, calc_mapping. cbn [calc_mapping_gen].
      match goal with |- context[omap_list ?F tfs] => assert (E : exists l, omap_list F tfs = Ok l) end.
      { induction tfs as [|tf tfs IHt]; [exists []; reflexivity|].
        cbn [forallb] in H. apply andb_prop in H. destruct H as [H1 H2]. destruct (IHt H2) as (l & Hl).
        cbn [omap_list]. rewrite Hl. unfold field_index in H1. cbv zeta in *.
        destruct (last_index_of (fst tf) sfs 0 (-1) =? -1) eqn:Ei; [eexists; reflexivity|].
        simpl orb in H1. destruct (nth_error sfs (Z.to_nat (last_index_of (fst tf) sfs 0 (-1)))) as [sf|] eqn:En; [|discriminate].
        destruct (IH _ _ H1) as (m & Hm & _). rewrite (nth_apply_some _ _ _ _ En).
        unfold calc_mapping in Hm. rewrite Hm. eexists; reflexivity. }
      destruct E as (l & Hl). exists (LMap (Some l) None None). split.
      * rewrite Hl. reflexivity.
      * intros _ _. simpl. repeat split; intro N; try reflexivity; contradiction.
    + apply (UNION_T talts eq_refl H).
  - (* source list *)
    destruct tgt as [id|tfs|tel|tes|talts]; cbn [tcovers] in H; try discriminate.
    + destruct tel as [te|], sel as [se|]; try discriminate.
      * destruct (IH _ _ H) as (m & Hm & _). exists (LMap None (Some m) None). split.
        -- unfold calc_mapping in *. cbn [calc_mapping_gen]. rewrite Hm. reflexivity.
        -- intros _ _. simpl. repeat split; intro N; try reflexivity; contradiction.
      * exists lmap_empty. split; [reflexivity|intros _ _; apply pure_empty].
      * exists lmap_empty. split; [reflexivity|intros _ _; apply pure_empty].
    + apply (UNION_T talts eq_refl H).
  - (* source tuple *)
    destruct tgt as [id|tfs|tel|tes|talts]; cbn [tcovers] in H; try discriminate.
    + apply andb_prop in H. destruct H as [_ H].
      destruct (tuple_calc_exists n IH tes ses H) as (ms & Hms).
      exists (LMap None None (Some (ms ++ repeat lmap_empty (length tes - length ses)))). split.
      * unfold calc_mapping in *. cbn [calc_mapping_gen]. rewrite Hms. reflexivity.
      * intros _ _. simpl. repeat split; intro N; try reflexivity; contradiction.
    + apply (UNION_T talts eq_refl H).
  - (* source union *)
    cbn [tcovers] in H.
    assert (A : Forall (fun a => exists m, calc_mapping n tgt a = Ok m) alts).
    { apply Forall_forall. intros a Ha. rewrite forallb_forall in H. specialize (H a Ha).
      apply andb_prop in H. destruct H as [_ H]. destruct (IH _ _ H) as (m & Hm & _). exists m. exact Hm. }
    destruct (fold_all_ok (calc_mapping n tgt) alts lmap_empty A) as (M & HM).
    exists M. split; [|intro; discriminate].
    unfold calc_mapping in *. cbn [calc_mapping_gen]. exact HM.
Qed.

(* ---------- the main theorem ---------- *)
Definition layout_ok (n : nat) (tgt src : lty) (v : value) : Prop :=
  exists m, calc_mapping n tgt src = Ok m /\ fix_layout m v = Ok (reshape n tgt src v).

Lemma fix_layout_list_cons : forall st em tu x xs,
  fix_layout (LMap st (Some em) tu) (VList (x :: xs)) = obind (omap_list (fix_layout em) (x :: xs)) (fun l => Ok (VList l)).
Proof. reflexivity. Qed.

Lemma fix_layout_tuple_some : forall st li ems vals,
  fix_layout (LMap st li (Some ems)) (VTuple vals) =
  obind (omap2_list fix_layout vals ems) (fun l => Ok (VTuple (l ++ repeat VNull (length ems - length vals)))).
Proof. reflexivity. Qed.

Lemma tuple_layout : forall n,
  (forall tgt src v, tcovers n tgt src = true -> vfits n tgt src v = true -> layout_ok n tgt src v) ->
  forall tes ses vals, length vals = length ses -> (length ses <= length tes)%nat ->
  forallb2p (tcovers n) tes ses = true -> forallb3p (vfits n) tes ses vals = true ->
  exists ms, omap2_list (fun s t => calc_mapping n t s) (firstn (length ses) tes) ses = Ok ms /\
             length ms = length ses /\
             forall extra, omap2_list fix_layout vals (ms ++ extra) = Ok (zip3 (reshape n) tes ses vals).
Proof.
  intros n IH. induction tes as [|t tes IHt]; intros ses vals Hl Hle Hc Hv.
  - destruct ses; [|simpl in Hle; lia]. destruct vals; [|discriminate]. exists []. repeat split.
  - destruct ses as [|s ses].
    + destruct vals; [|discriminate]. exists []. repeat split.
    + destruct vals as [|x vals]; [discriminate|].
      cbn [forallb2p] in Hc. cbn [forallb3p] in Hv. apply andb_prop in Hc, Hv. destruct Hc as [Hc1 Hc2], Hv as [Hv1 Hv2].
      destruct (IH t s x Hc1 Hv1) as (m & Hm & Hf).
      destruct (IHt ses vals ltac:(simpl in Hl; lia) ltac:(simpl in Hle; lia) Hc2 Hv2) as (ms & Hms & Hlen & Hfix).
      exists (m :: ms). split; [|split].
      * cbn [length firstn omap2_list]. rewrite Hm. cbn [obind]. rewrite Hms. reflexivity.
      * simpl. rewrite Hlen. reflexivity.
      * intro extra. cbn [app omap2_list zip3]. rewrite Hf. cbn [obind]. rewrite Hfix. reflexivity.
Qed.

Theorem layout_full : forall n tgt src v,
  tcovers n tgt src = true -> vfits n tgt src v = true -> layout_ok n tgt src v.
Proof.
  induction n as [|n IH]; intros tgt src v Hc Hv; [discriminate|].
  assert (UNION_T : forall talts, is_union src = false ->
            match find_alt (lty_id src) talts with Some a => tcovers n a src | None => false end = true ->
            match find_alt (lty_id src) talts with Some a => vfits n a src v | None => false end = true ->
            exists m, match find_alt (lty_id src) talts with Some a => calc_mapping n a src | None => Panic P_nil end = Ok m /\
                      fix_layout m v = Ok (match find_alt (lty_id src) talts with Some a => reshape n a src v | None => v end)).
  { intros talts _ Hc' Hv'. destruct (find_alt (lty_id src) talts) as [a|]; [|discriminate]. apply IH; assumption. }
  destruct src as [id'|sfs|sel|ses|alts].
  - (* source primitive *)
    destruct tgt as [id|tfs|tel|tes|talts]; cbn [tcovers] in Hc; cbn [vfits] in Hv; try discriminate.
    + apply andb_prop in Hv. destruct Hv as [Hs _]. exists lmap_empty. split; [reflexivity|].
      cbn [reshape]. apply fix_layout_scalar. assumption.
    + apply (UNION_T talts eq_refl Hc Hv).
  - (* source struct *)
    destruct tgt as [id|tfs|tel|tes|talts]; cbn [tcovers] in Hc; cbn [vfits] in Hv; try discriminate.
    + destruct v as [| | | | | | | |vals|]; try discriminate.
      apply andb_prop in Hv. destruct Hv as [Hlen Hv]. apply Nat.eqb_eq in Hlen.
      unfold layout_ok, calc_mapping. cbn [calc_mapping_gen reshape].
      match goal with |- context[omap_list ?F tfs] =>
        assert (E : exists l, omap_list F tfs = Ok l /\
                    omap_list (entry_fn vals) l =
                    Ok (map (fun tf : list Z * lty =>
                               match find_field (fst tf) sfs vals None with
                               | Some (st, fv) => reshape n (snd tf) st fv
                               | None => VNull
                               end) tfs)) end.
      { induction tfs as [|tf tfs IHt]; [exists []; split; reflexivity|].
        cbn [forallb] in Hc, Hv. apply andb_prop in Hc, Hv. destruct Hc as [Hc1 Hc2], Hv as [Hv1 Hv2].
        destruct (IHt Hc2 Hv2) as (l & Hl & Hl2). cbn [omap_list map]. rewrite Hl.
        cbv zeta in Hc1, Hv1.
        destruct (find_field_by_index (fst tf) sfs vals Hlen) as [[Ei Ef]|[Ei (nm & t & fv & En & Env & Ef)]];
          unfold field_index in *; cbv zeta in *; rewrite Ef.
        - rewrite Ei. cbn [Z.eqb obind]. eexists. split; [reflexivity|]. cbn [omap_list]. unfold entry_fn at 1. cbn [fst].
          cbn [Z.eqb obind]. rewrite Hl2. reflexivity.
        - destruct (Z.eqb_spec (last_index_of (fst tf) sfs 0 (-1)) (-1)) as [?|Hne]; [lia|].
          simpl orb in Hc1, Hv1. rewrite En in Hc1, Hv1. rewrite Env in Hv1. cbn [snd] in Hc1, Hv1.
          destruct (IH _ _ _ Hc1 Hv1) as (m & Hm & Hf).
          rewrite (nth_apply_some _ _ _ _ En). cbn [snd]. unfold calc_mapping in Hm. rewrite Hm. cbn [obind].
          eexists. split; [reflexivity|]. cbn [omap_list]. unfold entry_fn at 1. cbn [fst snd].
          destruct (Z.eqb_spec (last_index_of (fst tf) sfs 0 (-1)) (-1)) as [?|_]; [lia|].
          destruct (Z.ltb_spec (last_index_of (fst tf) sfs 0 (-1)) 0) as [?|_]; [lia|].
          rewrite (nth_apply_some _ _ _ _ Env). rewrite Hf. cbn [obind]. rewrite Hl2. reflexivity. }
      destruct E as (l & Hl & Hl2). exists (LMap (Some l) None None). split; [rewrite Hl; reflexivity|].
      rewrite fix_layout_struct_eq. rewrite Hl2. reflexivity.
    + apply (UNION_T talts eq_refl Hc Hv).
  - (* source list *)
    destruct tgt as [id|tfs|tel|tes|talts]; cbn [tcovers] in Hc; cbn [vfits] in Hv; try discriminate.
    + destruct v as [| | | | | | |vals| |]; try discriminate.
      destruct tel as [te|], sel as [se|]; try discriminate.
      * destruct (calc_exists_pure _ _ _ Hc) as (m0 & Hm0 & _).
        exists (LMap None (Some m0) None). split.
        -- unfold calc_mapping in *. cbn [calc_mapping_gen]. rewrite Hm0. reflexivity.
        -- cbn [reshape]. destruct vals as [|x xs]; [reflexivity|].
           rewrite fix_layout_list_cons.
           rewrite (omap_list_map _ (reshape n te se)); [reflexivity|].
           apply Forall_forall. intros y Hy. rewrite forallb_forall in Hv.
           destruct (IH _ _ _ Hc (Hv y Hy)) as (m & Hm & Hf). rewrite Hm0 in Hm. inversion Hm; subst. exact Hf.
      * destruct vals; [|discriminate]. exists lmap_empty. split; reflexivity.
      * destruct vals; [|discriminate]. exists lmap_empty. split; reflexivity.
    + apply (UNION_T talts eq_refl Hc Hv).
  - (* source tuple *)
    destruct tgt as [id|tfs|tel|tes|talts]; cbn [tcovers] in Hc; cbn [vfits] in Hv; try discriminate.
    + destruct v as [| | | | | | | | |vals]; try discriminate.
      apply andb_prop in Hc, Hv. destruct Hc as [Hle Hc], Hv as [Hlen Hv].
      apply Nat.leb_le in Hle. apply Nat.eqb_eq in Hlen.
      destruct (tuple_layout n IH tes ses vals Hlen Hle Hc Hv) as (ms & Hms & Hl & Hfix).
      exists (LMap None None (Some (ms ++ repeat lmap_empty (length tes - length ses)))). split.
      * unfold calc_mapping in *. cbn [calc_mapping_gen]. rewrite Hms. reflexivity.
      * rewrite fix_layout_tuple_some. rewrite Hfix. cbn [obind reshape]. do 3 f_equal.
        rewrite app_length, repeat_length. f_equal. lia.
    + apply (UNION_T talts eq_refl Hc Hv).
  - (* source union *)
    cbn [tcovers] in Hc. cbn [vfits] in Hv. apply andb_prop in Hv. destruct Hv as [Hcount Hv].
    apply Nat.eqb_eq in Hcount.
    destruct (find_alt (tid v) alts) as [a|] eqn:F; [|discriminate].
    apply andb_prop in Hv. destruct Hv as [Hnu Hv].
    destruct (unique_split _ _ _ Hcount F) as (pre & post & Hsplit & Hothers).
    rewrite forallb_forall in Hc.
    assert (Ha : In a alts) by (rewrite Hsplit; apply in_or_app; right; left; reflexivity).
    pose proof (Hc a Ha) as Hca. apply andb_prop in Hca. destruct Hca as [_ Hca].
    destruct (IH _ _ _ Hca Hv) as (mv & Hmv & Hfv).
    assert (Hoth : forall x, In x (pre ++ post) -> other_alt (calc_mapping n tgt) (tid v) x).
    { intros x Hx. assert (In x alts).
      { rewrite Hsplit. apply in_app_or in Hx. apply in_or_app. destruct Hx; [left|right; right]; assumption. }
      pose proof (Hc x H) as Hx'. apply andb_prop in Hx'. destruct Hx' as [Hx' Hx3]. apply andb_prop in Hx'. destruct Hx' as [Hx1 Hx2].
      destruct (calc_exists_pure _ _ _ Hx3) as (m & Hm & Hp). exists m, (lty_id x). split; [exact Hm|]. split.
      - apply Hp; [destruct (is_union x); [discriminate|reflexivity]|assumption].
      - rewrite Forall_forall in Hothers. specialize (Hothers x Hx). apply Z.eqb_neq in Hothers. exact Hothers. }
    assert (Hpre : Forall (other_alt (calc_mapping n tgt) (tid v)) pre)
      by (apply Forall_forall; intros x Hx; apply Hoth; apply in_or_app; left; assumption).
    assert (Hpost : Forall (other_alt (calc_mapping n tgt) (tid v)) post)
      by (apply Forall_forall; intros x Hx; apply Hoth; apply in_or_app; right; assumption).
    destruct (fold_with_k (calc_mapping n tgt) (tid v) pre a post mv lmap_empty Hpre Hpost Hmv (same_branch_refl _ _)) as (M & HM & HS).
    exists M. split.
    + unfold calc_mapping in *. cbn [calc_mapping_gen]. rewrite Hsplit. exact HM.
    + cbn [reshape]. rewrite F. rewrite (fix_layout_same_branch v M mv HS). exact Hfv.
Qed.

(* ---------- at the COALESCE entry point ---------- *)
Lemma omap_calc_all : forall n tgt srcs, Forall (fun s => tcovers n tgt s = true) srcs ->
  exists maps, omap_list (calc_mapping n tgt) srcs = Ok maps /\ Forall2 (fun s m => calc_mapping n tgt s = Ok m) srcs maps.
Proof.
  induction 1 as [|s srcs Hs _ IH]; [exists []; split; [reflexivity|constructor]|].
  destruct IH as (maps & Hm & Hf). destruct (calc_exists_pure _ _ _ Hs) as (m & Hc & _).
  exists (m :: maps). split; [cbn [omap_list]; rewrite Hc; cbn [obind]; rewrite Hm; reflexivity|constructor; assumption].
Qed.

Lemma Forall2_nth_error : forall {A B} (P : A -> B -> Prop) la lb k a,
  Forall2 P la lb -> nth_error la k = Some a -> exists b, nth_error lb k = Some b /\ P a b.
Proof.
  intros A B P la lb k a H. revert k. induction H; intros k Hk; destruct k; simpl in *; try discriminate.
  - inversion Hk; subst. eexists; split; [reflexivity|assumption].
  - apply IHForall2. assumption.
Qed.

Theorem coalesce_typed_layout : forall tgt srcs nulls v post src,
  Forall (fun s => tcovers mapping_fuel tgt s = true) srcs ->
  Forall (fun a => a = AVal VNull) nulls -> v <> VNull ->
  nth_error srcs (length nulls) = Some src -> vfits mapping_fuel tgt src v = true ->
  coalesce_typed tgt srcs (nulls ++ AVal v :: post) =
    (Ok (reshape mapping_fuel tgt src v), Z.of_nat (length nulls) + 1).
Proof.
  intros tgt srcs nulls v post src Hs Hn Hv Hk Hf.
  destruct (omap_calc_all _ _ _ Hs) as (maps & Hm & Hf2).
  unfold coalesce_typed, coalesce_typed_gen. rewrite Hm.
  rewrite coalesce_gen_first by assumption.
  destruct (Forall2_nth_error _ _ _ _ _ Hf2 Hk) as (m & Hnm & Hcm). rewrite Hnm.
  rewrite Forall_forall in Hs. pose proof (Hs src (nth_error_In _ _ Hk)) as Hc.
  destruct (layout_full _ _ _ _ Hc Hf) as (m' & Hm' & Hfix). rewrite Hcm in Hm'. inversion Hm'; subst.
  rewrite Hfix. f_equal.
Qed.
