(* Proofs/TypesWfProofs.v — TypeSum keeps types in normal form (wf_ty); with "upper bound" and "least" this gives
   commutativity up to Equals for normal-form types outside the finding's class. *)
From Coq Require Import Sorted.
From Octo Require Import Types TypesClash TypesIsProofs TypesSumFuel TypesTransProofs TypesSumProofs TypesSumProofs2 TypesInterProofs.

Definition wf_alt (t : ty) : Prop := wf_ty t = true /\ is_union t = false /\ is_any t = false.

Lemma strong_ascending : forall l, StronglySorted Z.lt l -> ascending l = true.
Proof.
  induction 1 as [|x l S IH F]; [reflexivity|]. destruct l as [|y l]; [reflexivity|].
  change (ascending (x :: y :: l)) with ((x <? y) && ascending (y :: l)). rewrite IH. inversion F; subst. rewrite (proj2 (Z.ltb_lt x y)) by assumption. reflexivity.
Qed.

Lemma wf_union_intro : forall C, (2 <= length C)%nat -> (forall c, In c C -> wf_alt c) -> StronglySorted Z.lt (map tyid C) ->
  wf_ty (TUnion C) = true.
Proof.
  intros C L H S. simpl. rewrite (strong_ascending _ S), andb_true_r.
  replace (2 <=? Z.of_nat (length C)) with true by (symmetry; apply Z.leb_le; lia). simpl.
  apply andb_true_iff. split; apply forallb_forall; intros c Hc; destruct (H c Hc) as [W [U A]]; [exact W|].
  rewrite U. simpl. destruct c; try reflexivity. discriminate A.
Qed.

Lemma wf_union_elim : forall C, wf_ty (TUnion C) = true ->
  (2 <= length C)%nat /\ (forall c, In c C -> wf_alt c) /\ StronglySorted Z.lt (map tyid C).
Proof.
  intros C H. destruct (wf_union_parts C H) as [P S]. split; [|split; [|exact S]].
  - simpl in H. repeat (apply andb_true_iff in H; destruct H as [H ?]). apply Z.leb_le in H. lia.
  - intros c Hc. destruct (P c Hc) as [W [U A]]. repeat split; assumption.
Qed.

(* insertion by TypeID into a list sorted by TypeID *)
Lemma insert_sorted_in : forall x l, map tyid (insert_by_tid x l) = 
  (fix ins (l : list Z) := match l with [] => [tyid x] | y :: ys => if tyid x <? y then tyid x :: l else y :: ins ys end) (map tyid l).
Proof. induction l as [|y l IH]; [reflexivity|]. simpl. destruct (tyid x <? tyid y); simpl; [reflexivity|]. rewrite IH. reflexivity. Qed.

Lemma insert_sorted : forall x l, StronglySorted Z.lt (map tyid l) -> ~ In (tyid x) (map tyid l) ->
  StronglySorted Z.lt (map tyid (insert_by_tid x l)).
Proof.
  induction l as [|y l IH]; intros S N; [repeat constructor|]. simpl in *. inversion S as [|? ? S' F]; subst.
  destruct (Z.ltb_spec (tyid x) (tyid y)).
  - simpl. constructor; [exact S|]. constructor; [assumption|]. rewrite Forall_forall in *. intros z Hz. specialize (F z Hz). lia.
  - simpl. constructor; [apply IH; [exact S' | intro; apply N; right; assumption]|].
    apply Forall_forall. intros z Hz. apply in_map_iff in Hz. destruct Hz as [t [Et Ht]]. subst z.
    apply insert_by_tid_in in Ht. destruct Ht as [Ht|Ht].
    + subst. assert (tyid x <> tyid y) by (intro; apply N; left; congruence). lia.
    + rewrite Forall_forall in F. apply F. apply in_map. exact Ht.
Qed.

Lemma insert_append_sorted : forall x l, (forall y, In y l -> tyid y <= tyid x) -> insert_by_tid x l = l ++ [x].
Proof.
  induction l as [|y l IH]; intro H; [reflexivity|]. simpl.
  destruct (Z.ltb_spec (tyid x) (tyid y)); [specialize (H y (or_introl eq_refl)); lia|].
  rewrite IH; [reflexivity|]. intros z Hz. apply H. right. exact Hz.
Qed.

Lemma sort_sorted_id_acc : forall l acc, StronglySorted Z.lt (map tyid (acc ++ l)) ->
  fold_left (fun acc x => insert_by_tid x acc) l acc = acc ++ l.
Proof.
  induction l as [|x l IH]; intros acc S; [rewrite app_nil_r; reflexivity|]. simpl.
  rewrite insert_append_sorted.
  - replace (acc ++ x :: l) with ((acc ++ [x]) ++ l) by (rewrite <- app_assoc; reflexivity). apply IH.
    rewrite <- app_assoc. exact S.
  - intros y Hy. rewrite map_app in S. simpl in S.
    clear IH. induction acc as [|a acc IHa]; [destruct Hy|]. simpl in S. inversion S as [|? ? S' F]; subst.
    destruct Hy as [Hy|Hy]; [subst; rewrite Forall_forall in F; specialize (F (tyid x)); 
      assert (In (tyid x) (map tyid acc ++ tyid x :: map tyid l)) by (apply in_or_app; right; left; reflexivity); specialize (F H); lia
      | apply IHa; assumption].
Qed.
Lemma sort_sorted_id : forall l, StronglySorted Z.lt (map tyid l) -> sort_by_tid l = l.
Proof. intros l S. unfold sort_by_tid. apply (sort_sorted_id_acc l [] S). Qed.

Lemma sort_append_one : forall l b, StronglySorted Z.lt (map tyid l) -> sort_by_tid (l ++ [b]) = insert_by_tid b l.
Proof.
  intros l b S. unfold sort_by_tid. rewrite fold_left_app. simpl.
  change (fold_left (fun acc x => insert_by_tid x acc) l []) with (sort_by_tid l). rewrite (sort_sorted_id l S). reflexivity.
Qed.

Lemma insert_length : forall x l, length (insert_by_tid x l) = S (length l).
Proof. induction l as [|y l IH]; [reflexivity|]. simpl. destruct (tyid x <? tyid y); simpl; [reflexivity|]. rewrite IH. reflexivity. Qed.

Lemma tid_flags : forall r a, tyid r = tyid a -> is_union a = false -> is_any a = false -> is_union r = false /\ is_any r = false.
Proof. intros r a T U A. destruct r, a; simpl in *; try discriminate; split; reflexivity. Qed.

Lemma rule9_wf : forall a b, wf_alt a -> wf_alt b -> tyid a <> tyid b -> wf_ty (TUnion (sort_by_tid [a; b])) = true.
Proof.
  intros a b Ha Hb N. unfold sort_by_tid. simpl. destruct (Z.ltb_spec (tyid b) (tyid a)).
  - apply wf_union_intro; [simpl; lia | intros c [Hc|[Hc|[]]]; subst; assumption | simpl; repeat constructor; lia].
  - apply wf_union_intro; [simpl; lia | intros c [Hc|[Hc|[]]]; subst; assumption | simpl; repeat constructor; lia].
Qed.

Lemma outcome_all_forall : forall {A} (P : A -> Prop) (l : list (outcome A)) xs,
  outcome_all l = Ok xs -> (forall o x, In o l -> o = Ok x -> P x) -> Forall P xs.
Proof.
  induction l as [|o l IH]; intros xs H HP; simpl in H.
  - inversion H; subst. constructor.
  - destruct o as [x| |]; simpl in H; try discriminate H.
    destruct (outcome_all l) as [xs'| |] eqn:E; simpl in H; try discriminate H. inversion H; subst.
    constructor; [apply (HP (Ok x) x); [left; reflexivity | reflexivity] | apply IH; [reflexivity | intros o y Ho; apply HP; right; exact Ho]].
Qed.

Lemma lookup_last_wf : forall n fs x, lookup_last n fs = Some x -> forallb (fun f => wf_ty (snd f)) fs = true -> wf_ty x = true.
Proof.
  induction fs as [|[m t] fs IH]; intros x H W; simpl in H; [discriminate|]. simpl in W. apply andb_true_iff in W. destruct W as [Wt Wf].
  destruct (lookup_last n fs) eqn:E.
  - inversion H; subst. apply IH; [reflexivity | exact Wf].
  - destruct (bytes_eqb m n); inversion H; subst. exact Wt.
Qed.

Section LevelWf.
  Variable rec : ty -> ty -> outcome ty.
  Hypothesis Hrec : forall x y r, wf_ty x = true -> wf_ty y = true -> rec x y = Ok r -> wf_ty r = true.

  Lemma struct_merge_wf : forall f1 f2 r, wf_ty (TStruct f1) = true -> wf_ty (TStruct f2) = true ->
    struct_merge rec f1 f2 = Ok r -> wf_ty r = true.
  Proof.
    intros f1 f2 r W1 W2 H. unfold struct_merge in H. simpl in W1, W2.
    match type of H with obind (outcome_all ?l) _ = _ => destruct (outcome_all l) as [fs| |] eqn:E end; simpl in H; try discriminate H.
    inversion H; subst. simpl.
    pose proof (outcome_all_forall (fun nt : list Z * ty => wf_ty (snd nt) = true) _ fs E) as F.
    apply forallb_forall. rewrite Forall_forall in F. apply F. clear F E H.
    intros o x Ho Ex. apply in_map_iff in Ho. destruct Ho as [n [Eo _]]. subst o.
    destruct (lookup_last n f1) as [u|] eqn:L1; destruct (lookup_last n f2) as [v|] eqn:L2; try discriminate Ex.
    - destruct (rec u v) as [s| |] eqn:Es; simpl in Ex; try discriminate Ex. inversion Ex; subst. simpl.
      apply (Hrec u v s (lookup_last_wf _ _ _ L1 W1) (lookup_last_wf _ _ _ L2 W2) Es).
    - destruct (rec u TNull) as [s| |] eqn:Es; simpl in Ex; try discriminate Ex. inversion Ex; subst. simpl.
      apply (Hrec u TNull s (lookup_last_wf _ _ _ L1 W1) eq_refl Es).
    - destruct (rec v TNull) as [s| |] eqn:Es; simpl in Ex; try discriminate Ex. inversion Ex; subst. simpl.
      apply (Hrec v TNull s (lookup_last_wf _ _ _ L2 W2) eq_refl Es).
  Qed.

  Lemma tuple_merge_wf : forall l1 l2 es, forallb wf_ty l1 = true -> forallb wf_ty l2 = true ->
    tuple_merge rec l1 l2 = Ok es -> forallb wf_ty es = true.
  Proof.
    induction l1 as [|x l1 IH]; intros l2 es W1 W2 H; simpl in H; [inversion H; reflexivity|].
    simpl in W1. apply andb_true_iff in W1. destruct W1 as [Wx W1].
    destruct l2 as [|y l2].
    - destruct (rec x TNull) as [s| |] eqn:Es; simpl in H; try discriminate H.
      destruct (tuple_merge rec l1 []) as [r| |] eqn:Et; simpl in H; try discriminate H. inversion H; subst.
      simpl. rewrite (Hrec x TNull s Wx eq_refl Es). apply (IH [] r W1 eq_refl Et).
    - simpl in W2. apply andb_true_iff in W2. destruct W2 as [Wy W2].
      destruct (rec x y) as [s| |] eqn:Es; simpl in H; try discriminate H.
      destruct (tuple_merge rec l1 l2) as [r| |] eqn:Et; simpl in H; try discriminate H. inversion H; subst.
      simpl. rewrite (Hrec x y s Wx Wy Es). apply (IH l2 r W1 W2 Et).
  Qed.

  Lemma sum_flat_wf : forall a b r, wf_ty a = true -> wf_ty b = true -> is_union a = false -> is_union b = false ->
    sum_flat rec a b = Ok r -> wf_ty r = true /\ (tyid a = tyid b -> tyid r = tyid a).
  Proof.
    intros a b r Wa Wb Ua Ub H. unfold sum_flat in H.
    destruct (is_rel a b) eqn:Eab; cbv beta iota delta [is_Is] in H;
      try (inversion H; subst; split; [exact Wb | intro T; symmetry; exact T]).
    all: destruct (is_rel b a) eqn:Eba; cbv beta iota delta [is_Is] in H;
      try (inversion H; subst; split; [exact Wa | reflexivity]).
    all: destruct a as [ | | | | | | |[x|]|f1|l1|alts1| ]; try discriminate Ua;
         destruct b as [ | | | | | | |[y|]|f2|l2|alts2| ]; try discriminate Ub;
         try (rewrite is_rel_any in Eab; discriminate Eab); try (rewrite is_rel_any in Eba; discriminate Eba);
         try (simpl in Eab; discriminate Eab);
         try (inversion H; subst; split;
              [apply rule9_wf; [repeat split; assumption | repeat split; assumption | simpl; discriminate]
              | intro T; simpl in T; discriminate T]);
         try (inversion H; subst; split; [assumption | reflexivity]).
    all: match type of H with
         | context [struct_merge] => split; [apply (struct_merge_wf f1 f2 r Wa Wb H) | intros _; unfold struct_merge in H;
             match type of H with obind ?o _ = _ => destruct o; simpl in H; try discriminate H end; inversion H; reflexivity]
         | context [tuple_merge] =>
             simpl in Wa, Wb;
             destruct (length l2 <? length l1)%nat;
             [ destruct (tuple_merge rec l1 l2) as [es| |] eqn:Et; simpl in H; try discriminate H; inversion H; subst;
               split; [simpl; apply (tuple_merge_wf l1 l2 es Wa Wb Et) | reflexivity]
             | destruct (tuple_merge rec l2 l1) as [es| |] eqn:Et; simpl in H; try discriminate H; inversion H; subst;
               split; [simpl; apply (tuple_merge_wf l2 l1 es Wb Wa Et) | reflexivity] ]
         | _ => destruct (rec x y) as [s| |] eqn:Es; simpl in H; try discriminate H; inversion H; subst;
                split; [simpl; apply (Hrec x y s Wa Wb Es) | reflexivity]
         end.
  Qed.

  Lemma replace_first_wf : forall alts b l, (forall a, In a alts -> wf_alt a) -> wf_alt b ->
    replace_first_tid rec alts b = Some (Ok l) ->
    (forall c, In c l -> wf_alt c) /\ map tyid l = map tyid alts.
  Proof.
    induction alts as [|a alts IH]; intros b l Ha Hb H; simpl in H; [discriminate|].
    destruct (Z.eqb_spec (tyid a) (tyid b)) as [T|T].
    - destruct (sum_flat rec a b) as [s| |] eqn:E; simpl in H; try discriminate H. inversion H; subst.
      destruct (Ha a (or_introl eq_refl)) as [Wa [Ua Aa]]. destruct Hb as [Wb [Ub Ab]].
      destruct (sum_flat_wf a b s Wa Wb Ua Ub E) as [Ws Ts]. specialize (Ts T).
      destruct (tid_flags s a Ts Ua Aa) as [Us As]. split.
      + intros c [Hc|Hc]; [subst; repeat split; assumption | apply Ha; right; exact Hc].
      + simpl. rewrite Ts. reflexivity.
    - destruct (replace_first_tid rec alts b) as [o|] eqn:E; [|discriminate].
      destruct o as [l'| |]; simpl in H; try discriminate H. inversion H; subst.
      destruct (IH b l' (fun x Hx => Ha x (or_intror Hx)) Hb E) as [I1 I2]. split.
      + intros c [Hc|Hc]; [subst; apply Ha; left; reflexivity | apply I1; exact Hc].
      + simpl. rewrite I2. reflexivity.
  Qed.

  Lemma replace_first_none : forall alts b, replace_first_tid rec alts b = None -> ~ In (tyid b) (map tyid alts).
  Proof.
    induction alts as [|a alts IH]; intros b H; simpl; [tauto|]. simpl in H.
    destruct (Z.eqb_spec (tyid a) (tyid b)) as [T|T]; [discriminate|].
    destruct (replace_first_tid rec alts b) eqn:E; [discriminate|]. intros [X|X]; [congruence | apply (IH b E X)].
  Qed.

  Lemma sum_union_single_wf : forall alts b r, wf_ty (TUnion alts) = true -> wf_alt b ->
    sum_union_single rec alts b = Ok r -> wf_ty r = true.
  Proof.
    intros alts b r W Hb H. destruct (wf_union_elim alts W) as [L [P S]]. unfold sum_union_single in H.
    destruct (replace_first_tid rec alts b) as [o|] eqn:E.
    - destruct o as [l| |]; simpl in H; try discriminate H. inversion H; subst.
      destruct (replace_first_wf alts b l P Hb E) as [I1 I2].
      apply wf_union_intro; [|exact I1|rewrite I2; exact S].
      rewrite <- (map_length tyid l), I2, map_length. exact L.
    - inversion H; subst. rewrite (sort_append_one alts b S).
      apply wf_union_intro.
      + rewrite insert_length. lia.
      + intros c Hc. apply insert_by_tid_in in Hc. destruct Hc as [Hc|Hc]; [subst; exact Hb | apply P; exact Hc].
      + apply insert_sorted; [exact S | apply (replace_first_none alts b E)].
  Qed.

  Lemma type_sum_level_wf : forall b a r, wf_ty a = true -> wf_ty b = true ->
    type_sum_level rec a b = Ok r -> wf_ty r = true.
  Proof.
    induction b as [ | | | | | | | |e IHe|fs IH|es IH|alts2 IH| ] using ty_ind'; intros a r Wa Wb H;
      rewrite type_sum_level_eq in H;
      (match type of H with context [is_Is (is_rel a ?b)] => destruct (is_rel a b) eqn:Eab; destruct (is_rel b a) eqn:Eba end;
       cbv beta iota delta [is_Is] in H;
       try (inversion H; subst; exact Wb);
       try (inversion H; subst; exact Wa)).
    all: destruct a as [ | | | | | | | e1 | fs1 | es1 | alts1 | ];
      try (rewrite is_rel_any in Eab; discriminate Eab); try (rewrite is_rel_any in Eba; discriminate Eba);
      try (apply (proj1 (sum_flat_wf _ _ r Wa Wb eq_refl eq_refl H)));
      try (apply (sum_union_single_wf _ _ r Wa (conj Wb (conj eq_refl eq_refl)) H));
      try (apply (sum_union_single_wf _ _ r Wb (conj Wa (conj eq_refl eq_refl)) H)).
    (* both unions *)
    all: assert (G : forall l o r, (forall x, In x l -> In x alts2) -> wf_ty o = true ->
          (fix fold (l : list ty) (out : outcome ty) : outcome ty :=
             match l with [] => out | bk :: rest => fold rest (obind out (fun o => type_sum_level rec o bk)) end) l (Ok o) = Ok r ->
          wf_ty r = true);
      [ induction l as [|bk l IHl]; intros o r0 Hl Wo Hf;
        [ inversion Hf; subst; exact Wo
        | simpl in Hf; destruct (type_sum_level rec o bk) as [o'| |] eqn:Eo;
          [ rewrite Forall_forall in IH;
            apply (IHl o' r0 (fun x Hx => Hl x (or_intror Hx))
                       (IH bk (Hl bk (or_introl eq_refl)) o o' Wo (proj1 (proj1 (proj2 (wf_union_elim alts2 Wb)) bk (Hl bk (or_introl eq_refl)))) Eo) Hf)
          | exfalso; revert Hf; apply fold_not_ok; intros; discriminate
          | exfalso; revert Hf; apply fold_not_ok; intros; discriminate ] ]
      | apply (G alts2 (TUnion alts1) r (fun x Hx => Hx) Wa H) ].
  Qed.
End LevelWf.

Theorem type_sum_wf : forall f a b r, wf_ty a = true -> wf_ty b = true -> type_sum f a b = Ok r -> wf_ty r = true.
Proof.
  induction f as [|f IH]; intros a b r Wa Wb H; [discriminate H|].
  simpl in H. apply (type_sum_level_wf (type_sum f) IH b a r Wa Wb H).
Qed.

(* TypeSum keeps normal forms *)
Theorem tsum_wf : forall a b s, wf_ty a = true -> wf_ty b = true -> tsum a b = Ok s -> wf_ty s = true.
Proof. intros a b s Wa Wb H. apply (type_sum_wf _ a b s Wa Wb H). Qed.

(* commutativity up to Equals: both sums are least upper bounds *)
Theorem sum_comm : forall a b, wf_ty a = true -> wf_ty b = true -> sum_clash a b = false -> sum_clash b a = false ->
  exists s1 s2, tsum a b = Ok s1 /\ tsum b a = Ok s2 /\ ty_equals s1 s2 = true.
Proof.
  intros a b Wa Wb C1 C2.
  destruct (sum_upper a b C1) as [s1 [E1 [A1 B1]]]. destruct (sum_upper b a C2) as [s2 [E2 [B2 A2]]].
  exists s1, s2. split; [exact E1 | split; [exact E2|]].
  unfold ty_equals.
  rewrite (sum_least a b s2 s1 (tsum_wf b a s2 Wb Wa E2) C1 E1 A2 B2).
  rewrite (sum_least b a s1 s2 (tsum_wf a b s1 Wa Wb E1) C2 E2 B1 A1). reflexivity.
Qed.
