(* Proofs/PruneGroupBy.v — the removal step of RemoveUnusedGroupByNonKeyFields: dropping an unused aggregate of a
   GroupBy drops exactly its column; with Proofs/PruneProofs.v this completes the step theorem for all three rules. *)
From Octo Require Import Plan Optimizer PlanLemmas OptimizerProofs GenOptimizer PruneProofs.

Lemma group_insert_map keq (g : list value -> list value) k a acc :
  group_insert keq k (g a) (map (fun km => (fst km, map g (snd km))) acc) =
  map (fun km => (fst km, map g (snd km))) (group_insert keq k a acc).
Proof.
  induction acc as [|[k' ms] acc IH]; simpl; [reflexivity|].
  destruct (keq k k'); simpl; [rewrite map_app; reflexivity | rewrite IH; reflexivity].
Qed.
Lemma group_rows_map keq (g : list value -> list value) l :
  group_rows keq (map (fun ka => (fst ka, g (snd ka))) l) =
  map (fun km => (fst km, map g (snd km))) (group_rows keq l).
Proof.
  unfold group_rows.
  change (@nil (list value * list (list value))) with (map (fun km : list value * list (list value) => (fst km, map g (snd km))) []) at 1.
  generalize (@nil (list value * list (list value))).
  induction l as [|ka l IH]; intros acc; simpl; [reflexivity|].
  rewrite group_insert_map. apply IH.
Qed.

Lemma nth_remove_nth {A} (d : A) ai : forall (m : list A) j,
  nth j (remove_nth ai m) d = nth (if (j <? ai)%nat then j else S j) m d.
Proof.
  induction ai as [|ai IH]; intros [|x m] j; simpl; try (destruct j; reflexivity).
  - destruct (j <? S ai)%nat; destruct j; reflexivity.
  - destruct j as [|j]; [reflexivity|]. rewrite IH.
    change (S j <? S ai)%nat with (j <? ai)%nat. destruct (j <? ai)%nat; reflexivity.
Qed.

Lemma combine_seq_shift {A B} (P : nat -> A -> B) l : forall o,
  map (fun ia => P (S (fst ia)) (snd ia)) (combine (seq o (length l)) l) =
  map (fun ia => P (fst ia) (snd ia)) (combine (seq (S o) (length l)) l).
Proof. induction l as [|a l IH]; intros o; simpl; [reflexivity|]. rewrite IH. reflexivity. Qed.

Lemma combine_seq_ge {A} (l : list A) o j a : In (j, a) (combine (seq o (length l)) l) -> (o <= j)%nat.
Proof. intros H. apply in_combine_l in H. apply in_seq in H. lia. Qed.

Lemma agg_remove {A B} (P : nat -> A -> B) : forall (ag : list A) o ai,
  map (fun ia => P (if (fst ia <? o + ai)%nat then fst ia else S (fst ia)) (snd ia))
      (combine (seq o (length (remove_nth ai ag))) (remove_nth ai ag)) =
  remove_nth ai (map (fun ia => P (fst ia) (snd ia)) (combine (seq o (length ag)) ag)).
Proof.
  induction ag as [|a ag IH]; intros o ai.
  - destruct ai; reflexivity.
  - destruct ai as [|ai]; simpl.
    + rewrite <- combine_seq_shift. apply map_ext_in. intros [j b] Hin. simpl.
      apply combine_seq_ge in Hin. replace (j <? o + 0)%nat with false; [reflexivity|].
      symmetry. apply Nat.ltb_ge. lia.
    + replace (o <? o + S ai)%nat with true by (symmetry; apply Nat.ltb_lt; lia). f_equal.
      rewrite <- IH. apply map_ext. intros [j b]. simpl. replace (S (o + ai))%nat with (o + S ai)%nat by lia. reflexivity.
Qed.

Lemma nth_error_firstn_In {A} (l : list A) x : forall i n, nth_error l i = Some x -> (i < n)%nat -> In x (firstn n l).
Proof.
  induction l as [|y l IH]; intros [|i] [|n] H Hlt; simpl in *; try discriminate; try lia.
  - inversion H. left; reflexivity.
  - right. eapply IH; eauto. lia.
Qed.

Section GroupByPrune.
  Variable db : name -> name -> list (name * name) -> list (name -> value).
  Variable fn_sem : name -> list value -> value.
  Variable assert_sem : name -> value -> value.
  Variable cast_sem : Z -> value -> value.
  Variable other_sem : Z -> name -> list value -> value.
  Variable agg_sem : name -> list value -> value.
  Variable key_eqb : list value -> list value -> bool.
  Variable distinct_sel : list row -> list nat.
  Variable ost_sel : list (list value) -> list Z -> option value -> list nat.
  Variable tvf_sem : name -> list (name * value) -> list (name * name) -> option (schema * list row) -> list row.

  Notation evals := (evals fn_sem assert_sem cast_sem other_sem).
  Notation den := (den_plan db fn_sem assert_sem cast_sem other_sem agg_sem key_eqb distinct_sel ost_sel tvf_sem).
  Notation claim := (claim db fn_sem assert_sem cast_sem other_sem agg_sem key_eqb distinct_sel ost_sel tvf_sem).

  Lemma group_out_remove ag ai k (ms : list (list value)) : 
    group_out agg_sem (remove_nth ai ag) (k, map (remove_nth ai) ms) =
    remove_nth (length k + ai) (group_out agg_sem ag (k, ms)).
  Proof.
    unfold group_out. simpl. rewrite remove_nth_app_r. f_equal.
    rewrite <- (agg_remove (fun j a => agg_sem a (map (fun m => nth j m VNull) ms)) ag 0 ai).
    apply map_ext. intros [j a]. simpl. f_equal. rewrite map_map. apply map_ext. intros m. apply nth_remove_nth.
  Qed.

  Lemma claim_groupby_remove f s ks ag aa ke tg x i :
    last_index f (sf s) = Some i ->
    shapeb (PGroupBy s ks ag aa ke tg x) = true -> okb KGb f (PGroupBy s ks ag aa ke tg x) = true -> claim KGb f x ->
    claim KGb f (PGroupBy s ks ag aa ke tg x).
  Proof.
    intros E Hs Hok Hx. destruct (okb_head _ _ _ Hok) as [Hnd Hu]. unfold fields_of in Hnd. simpl in Hnd.
    pose proof (claim_fields _ _ _ _ _ _ _ _ _ _ _ _ _ Hx) as Hfx. destruct Hx as [X1 [X2 X3]].
    assert (Sx : shapeb x = true) by (clear - Hs; simpl in Hs; rewrite !andb_true_iff in Hs; tauto).
    assert (S1 : Nat.eqb (length (sf s)) (length ks + length ag) = true) by (clear - Hs; simpl in Hs; rewrite !andb_true_iff in Hs; tauto).
    assert (S2 : Nat.eqb (length ag) (length aa) = true) by (clear - Hs; simpl in Hs; rewrite !andb_true_iff in Hs; tauto).
    apply Nat.eqb_eq in S1. apply Nat.eqb_eq in S2.
    assert (Hokx : okb KGb f x = true) by (clear - Hok; simpl in Hok; rewrite !andb_true_iff in Hok; tauto).
    assert (Hkey : negb (mem f (firstn (length ks) (sf s))) = true) by (clear - Hok; simpl in Hok; rewrite !andb_true_iff in Hok; tauto).
    apply negb_true_iff, mem_false in Hkey.
    destruct (okb_head _ _ _ Hokx) as [Hndx _].
    pose proof (node_uses_exprs _ _ _ Hu) as Hp. simpl in Hp.
    pose proof (last_index_lt _ _ _ E) as Hi. pose proof (last_index_nth _ _ _ E) as Hn.
    assert (Hge : (length ks <= i)%nat).
    { destruct (le_lt_dec (length ks) i) as [H|H]; [exact H|]. exfalso. apply Hkey. eapply nth_error_firstn_In; eauto. }
    set (ai := (i - length ks)%nat). assert (Hai : (ai < length ag)%nat) by (unfold ai; lia).
    assert (Hst : stepF KGb f (PGroupBy s ks ag aa ke tg x) =
                  PGroupBy (prune_schema f s) ks (remove_nth ai ag) (remove_nth ai aa) ke tg (stepF KGb f x)).
    { simpl stepF. unfold local. simpl. rewrite E. rewrite rfp1_eq. simpl.
      rewrite (schema_remove_prune _ _ _ E), prune_schema_idem by exact Hnd. reflexivity. }
    unfold PruneProofs.claim. rewrite Hst. clear Hst. repeat split.
    - simpl. rewrite X1, andb_true_r. rewrite prune_schema_sf. unfold prune_fs. rewrite E.
      pose proof (remove_nth_length_lt i (sf s) Hi). pose proof (remove_nth_length_lt ai ag Hai).
      pose proof (remove_nth_length_lt ai aa ltac:(lia)).
      apply andb_true_iff. split; apply Nat.eqb_eq; lia.
    - intros env env' Ha. change (fields_of (PGroupBy s ks ag aa ke tg x)) with (sf s).
      simpl. rewrite Hfx, (X3 env env' Ha), map_map.
      assert (Ekeyed : map (fun r => (evals ks ((prune_fs f (fields_of x), prune_row f (fields_of x) r) :: env'),
                                       evals (remove_nth ai aa) ((prune_fs f (fields_of x), prune_row f (fields_of x) r) :: env')))
                           (den x env) =
                       map (fun ka => (fst ka, remove_nth ai (snd ka)))
                           (map (fun r => (evals ks ((fields_of x, r) :: env), evals aa ((fields_of x, r) :: env))) (den x env))).
      { rewrite map_map. apply map_ext_in. intros r Hr. simpl.
        assert (Lr : length (fields_of x) = length r) by (symmetry; eapply den_rows_len; eauto).
        rewrite !(evals_pruned _ _ _ _ f _ (fields_of x) r env env'); auto.
        - unfold Plan.evals. rewrite remove_nth_map. reflexivity.
        - intros e He. apply Hp. apply in_or_app. left. eapply remove_nth_In; eauto.
        - intros e He. apply Hp. apply in_or_app. right; exact He. }
      rewrite Ekeyed, group_rows_map, !map_map. apply map_ext_in. intros [k ms] Hk. simpl fst. simpl snd.
      rewrite group_out_remove. unfold prune_row. rewrite E.
      assert (Lk : length k = length ks).
      { eapply (group_rows_keys_len key_eqb (length ks)) in Hk; [exact Hk|].
        intros ka Hka. apply in_map_iff in Hka. destruct Hka as [r [<- _]]. simpl. unfold Plan.evals. apply map_length. }
      rewrite Lk. unfold ai. replace (length ks + (i - length ks))%nat with i by lia. reflexivity.
  Qed.

  Ltac child_shape Hs := clear - Hs; simpl in Hs; rewrite ?andb_true_iff in Hs; tauto.

  (* one removal step of RemoveUnusedGroupByNonKeyFields *)
  Lemma stepF_claim_gb f : forall p, shapeb p = true -> okb KGb f p = true -> claim KGb f p.
  Proof.
    induction p; intros Hs Hok.
    - apply claim_datasource; assumption.
    - apply claim_distinct; auto. apply IHp; [child_shape Hs | child_shape Hok].
    - apply claim_filter; auto. apply IHp; [child_shape Hs | child_shape Hok].
    - assert (Hx : claim KGb f p) by (apply IHp; [child_shape Hs | child_shape Hok]).
      destruct (last_index f (sf s)) as [i|] eqn:E.
      + eapply claim_groupby_remove; eauto.
      + apply claim_groupby_keep; auto. apply last_index_none. exact E.
    - apply claim_stream_join; auto; [apply IHp1 | apply IHp2]; try child_shape Hs; child_shape Hok.
    - apply claim_lookup_join; auto; [apply IHp1 | apply IHp2]; try child_shape Hs; child_shape Hok.
    - apply claim_map; auto. apply IHp; [child_shape Hs | child_shape Hok].
    - apply claim_unnest; auto. apply IHp; [child_shape Hs | child_shape Hok].
    - apply claim_ost; auto. apply IHp; [child_shape Hs | child_shape Hok].
    - apply claim_tvf; assumption.
    - exfalso. simpl in Hok. rewrite !andb_false_r in Hok. discriminate.
  Qed.

  Theorem remove_step_sound_gb f p : shapeb p = true -> okb KGb f p = true -> ~ In f (fields_of p) ->
    shapeb (step KGb f p) = true /\ schema_of (step KGb f p) = schema_of p /\
    forall env, den (step KGb f p) env = den p env.
  Proof.
    intros Hs Hok Hroot. rewrite step_stepF. destruct (stepF_claim_gb f p Hs Hok) as [C1 [C2 C3]].
    repeat split; [exact C1 | rewrite C2; apply prune_schema_notin; exact Hroot |].
    intros env. rewrite (C3 env env (agree_refl f env)). apply map_prune_id. exact Hroot.
  Qed.
End GroupByPrune.
