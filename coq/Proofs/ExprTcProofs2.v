(* Proofs/ExprTcProofs2.v — the typechecker model only produces locally well-typed physical expressions:
   tc al table env e = TcOk pe -> pwt env pe = true   (for both behaviours of TypeIntersection), given the
   per-row obligations of the descriptor table.  With pwt_sound this closes C08_expr. *)
From Octo Require Import Expr ExprProofs ExprTc ExprTcProofs.

(* ---------- kind sets ---------- *)
Lemma ksubset_refl a : ksubset a a = true.
Proof. unfold ksubset. apply forallb_forall. intros k Hk. apply kmem_true. exact Hk. Qed.

Lemma ksubset_intro a b : (forall k, In k a -> In k b) -> ksubset a b = true.
Proof. intros H. unfold ksubset. apply forallb_forall. intros k Hk. apply kmem_true. apply H. exact Hk. Qed.

Lemma ksubset_elim a b k : ksubset a b = true -> In k a -> In k b.
Proof. intros H Hk. apply kmem_true. eapply ksubset_mem; [exact H|apply kmem_true; exact Hk]. Qed.

Lemma sty_sub_refl t : sty_sub t t = true.
Proof. destruct t as [|ks]; [reflexivity|]. unfold sty_sub, is_rel. rewrite ksubset_refl. reflexivity. Qed.

Lemma sty_sub_set a b : sty_sub (STSet a) (STSet b) = ksubset a b.
Proof. unfold sty_sub, is_rel. destruct (ksubset a b); [reflexivity|]. destruct (kmeets a b); reflexivity. Qed.

Lemma sty_sub_any_r a : sty_sub a STAny = true.
Proof. destruct a; reflexivity. Qed.

Lemma sty_sub_any_l t : sty_sub STAny t = true -> t = STAny.
Proof. destruct t; [reflexivity|discriminate]. Qed.

Lemma sty_sub_trans a b c : sty_sub a b = true -> sty_sub b c = true -> sty_sub a c = true.
Proof.
  destruct c as [|kc]; [intros; apply sty_sub_any_r|].
  destruct b as [|kb]; [intros _ H; discriminate H|].
  destruct a as [|ka]; [intros H; discriminate H|].
  rewrite !sty_sub_set. intros H1 H2. apply ksubset_intro. intros k Hk.
  eapply ksubset_elim; [exact H2|]. eapply ksubset_elim; [exact H1|exact Hk].
Qed.

Lemma is_rel_is_sub a b : is_rel a b = Is -> sty_sub a b = true.
Proof. intros H. unfold sty_sub. rewrite H. reflexivity. Qed.

Lemma trel_eqb_is r : trel_eqb r Is = true -> r = Is.
Proof. destruct r; try discriminate; reflexivity. Qed.
Lemma trel_eqb_maybe r : trel_eqb r Maybe = true -> r = Maybe.
Proof. destruct r; try discriminate; reflexivity. Qed.

(* ---------- TypeSum ---------- *)
Lemma type_sum_sub_l t1 t2 : sty_sub t1 (type_sum t1 t2) = true.
Proof.
  unfold type_sum.
  destruct (trel_eqb (is_rel t1 t2) Is) eqn:E1; [exact E1|].
  destruct (trel_eqb (is_rel t2 t1) Is) eqn:E2; [apply sty_sub_refl|].
  destruct t1 as [|a]; destruct t2 as [|b]; try reflexivity; try discriminate.
  rewrite sty_sub_set. apply ksubset_intro. intros k Hk. unfold kunion. apply in_or_app. left. exact Hk.
Qed.

Lemma type_sum_sub_r t1 t2 : sty_sub t2 (type_sum t1 t2) = true.
Proof.
  unfold type_sum.
  destruct (trel_eqb (is_rel t1 t2) Is) eqn:E1; [apply sty_sub_refl|].
  destruct (trel_eqb (is_rel t2 t1) Is) eqn:E2; [exact E2|].
  destruct t1 as [|a]; destruct t2 as [|b]; try reflexivity; try discriminate.
  rewrite sty_sub_set. apply ksubset_intro. intros k Hk. unfold kunion. apply in_or_app.
  destruct (kmem k a) eqn:Ka; [left; apply kmem_true; exact Ka|].
  right. apply filter_In. split; [exact Hk|]. rewrite Ka. reflexivity.
Qed.

Lemma type_sum_set a b : exists c, type_sum (STSet a) (STSet b) = STSet c.
Proof.
  unfold type_sum. destruct (trel_eqb _ Is); [eexists; reflexivity|].
  destruct (trel_eqb _ Is); eexists; reflexivity.
Qed.

(* ---------- TypeIntersection, both behaviours ---------- *)
Lemma fold_max_ge_init : forall l init, init <= fold_left Z.max l init.
Proof. induction l as [|x xs IH]; intros init; simpl; [lia|]. specialize (IH (Z.max init x)). lia. Qed.

Lemma kmax_ge_all : forall l init k, In k l -> k <= fold_left Z.max l init.
Proof.
  induction l as [|x xs IH]; intros init k H; [destruct H|]. simpl. destruct H as [->|H].
  - pose proof (fold_max_ge_init xs (Z.max init k)). lia.
  - apply IH. exact H.
Qed.

Lemma fold_max_in : forall l init, fold_left Z.max l init = init \/ In (fold_left Z.max l init) l.
Proof.
  induction l as [|x xs IH]; intros init; simpl; [left; reflexivity|].
  destruct (IH (Z.max init x)) as [H|H].
  - rewrite H. destruct (Z.max_spec init x) as [[_ E]|[_ E]]; rewrite E; [right; left; reflexivity|left; reflexivity].
  - right. right. exact H.
Qed.

(* the largest TypeID of a non-empty list of non-negative TypeIDs is one of them *)
Lemma kmax_in l : l <> [] -> forallb (fun k => 0 <=? k) l = true -> In (kmax l) l.
Proof.
  intros Hne Hpos. unfold kmax. destruct (fold_max_in l 0) as [H|H]; [|exact H].
  destruct l as [|x xs]; [contradiction|].
  rewrite forallb_forall in Hpos.
  assert (Hx : 0 <= x) by (apply Z.leb_le; apply Hpos; left; reflexivity).
  pose proof (kmax_ge_all (x :: xs) 0 x (or_introl eq_refl)) as Hge. rewrite H in Hge.
  assert (x = 0) by lia. subst x. rewrite H. left. reflexivity.
Qed.

Definition nonneg (l : list Z) : bool := forallb (fun k => 0 <=? k) l.

Lemma inter_set al o ks t : type_inter al (STSet o) (STSet ks) = Some t -> exists c, t = STSet c.
Proof.
  unfold type_inter, type_inter_pinned, type_inter_exact.
  destruct al; destruct (kinter o ks); try discriminate; intros H; inversion H; eexists; reflexivity.
Qed.

(* what the assertion lets through is in the type the typechecker gives the assertion *)
Lemma inter_assert_sub al o ks t :
  type_inter al (STSet o) (STSet ks) = Some t -> assert_sub (STSet ks) o t = true.
Proof.
  unfold type_inter, type_inter_pinned, type_inter_exact, assert_sub, kinds_in.
  intros H. apply forallb_forall. intros k Hk. unfold kinter in Hk. apply filter_In in Hk. destruct Hk as [Hks Ho].
  assert (Hin : In k (kinter o ks)).
  { unfold kinter. apply filter_In. split; [apply kmem_true; exact Ho|apply kmem_true; exact Hks]. }
  destruct al; destruct (kinter o ks) as [|c0 cs] eqn:E; try discriminate H; inversion H; subst t;
    unfold has_kind; apply kmem_true.
  - unfold kunion. apply in_or_app. left. exact Hin.
  - exact Hin.
Qed.

(* the asserted type stays within the target *)
Lemma inter_sub_target al o ks t :
  o <> [] -> nonneg o = true ->
  type_inter al (STSet o) (STSet ks) = Some t -> sty_sub t (STSet o) = true.
Proof.
  intros Hne Hpos. unfold type_inter, type_inter_pinned, type_inter_exact. intros H.
  assert (Hsub : forall k, In k (kinter o ks) -> In k o) by (intros k Hk; unfold kinter in Hk; apply filter_In in Hk; tauto).
  destruct al; destruct (kinter o ks) as [|c0 cs] eqn:E; try discriminate H; inversion H; subst t;
    rewrite sty_sub_set; apply ksubset_intro; intros k Hk.
  - unfold kunion in Hk. apply in_app_or in Hk. destruct Hk as [Hk|Hk]; [apply Hsub; exact Hk|].
    apply filter_In in Hk. destruct Hk as [[<-|[]] _]. apply kmax_in; assumption.
  - apply Hsub. exact Hk.
Qed.

(* ---------- TypecheckExpression ---------- *)
Lemma expect_pwt al env o p l :
  o <> [] -> nonneg o = true ->
  expect al (STSet o) (TcOk p) = TcOk l -> pwt env p = true ->
  pwt env l = true /\ sty_sub (ptype l) (STSet o) = true.
Proof.
  intros Hne Hpos H W. unfold expect, tbind in H.
  destruct (ptype p) as [|ks] eqn:Pp.
  - discriminate H.
  - destruct (is_rel (STSet ks) (STSet o)) eqn:R; try discriminate H.
    + (* Maybe *)
      destruct (type_inter al (STSet o) (STSet ks)) as [t|] eqn:I; [|discriminate H]. inversion H; subst l. clear H.
      simpl. rewrite W, Pp. simpl. split.
      * apply (inter_assert_sub al o ks t I).
      * apply (inter_sub_target al o ks t Hne Hpos I).
    + inversion H; subst l. split; [exact W|rewrite Pp; apply is_rel_is_sub; exact R].
Qed.

Lemma tbind_ok {A B} (r : tcres A) (f : A -> tcres B) b : tbind r f = TcOk b -> exists a, r = TcOk a /\ f a = TcOk b.
Proof. destruct r; simpl; try discriminate. intros H. eexists; split; [reflexivity|exact H]. Qed.

Lemma and_or_pwt env l r :
  pwt env l = true -> pwt env r = true ->
  sty_sub (ptype l) bool_null = true -> sty_sub (ptype r) bool_null = true ->
  forallb (pwt env) [l; r] && forallb (fun a => sty_sub (ptype a) bool_null) [l; r] &&
  has_kind K_BOOL (and_or_type l r) &&
  (if existsb (fun a => allows_null (ptype a)) [l; r] then has_kind K_NULL (and_or_type l r) else true) = true.
Proof.
  intros Wl Wr Sl Sr. simpl. rewrite Wl, Wr, Sl, Sr. simpl. unfold and_or_type.
  rewrite orb_false_r. destruct (allows_null (ptype l) || allows_null (ptype r)); reflexivity.
Qed.

(* ---------- shapes ---------- *)
Definition is_set (t : sty) : Prop := exists ks, t = STSet ks.

Lemma maybe_is_set x dt : is_rel x dt = Maybe -> is_set x /\ is_set dt.
Proof.
  destruct dt as [|o]; [discriminate|]. destruct x as [|ks]; [discriminate|]. intros _. split; eexists; reflexivity.
Qed.

Lemma nn_is_set T : is_set (non_nullable T) -> is_set T.
Proof.
  destruct T as [|ks].
  - intros H. destruct H as [k H]. discriminate H.
  - intros _. eexists. reflexivity.
Qed.

Lemma scalar_nonneg ks : forallb k_scalar ks = true -> nonneg ks = true.
Proof.
  unfold nonneg. rewrite !forallb_forall. intros H k Hk. specialize (H k Hk). unfold k_scalar in H.
  apply andb_prop in H. tauto.
Qed.

Lemma sty_scalar_set ks : sty_scalar (STSet ks) = true -> ks <> [] /\ nonneg ks = true.
Proof.
  simpl. intros H. apply andb_prop in H. destruct H as [H1 H2]. split; [|apply scalar_nonneg; exact H1].
  destruct ks; [discriminate H2|discriminate].
Qed.

(* lower bound of TypeSum *)
Lemma type_sum_kinds t1 t2 k : has_kind k (type_sum t1 t2) = true -> has_kind k t1 = true \/ has_kind k t2 = true.
Proof.
  unfold type_sum.
  destruct (trel_eqb (is_rel t1 t2) Is); [right; assumption|].
  destruct (trel_eqb (is_rel t2 t1) Is); [left; assumption|].
  destruct t1 as [|a]; destruct t2 as [|b]; try (left; reflexivity); try (right; reflexivity).
  simpl. intros H. apply kmem_true in H. unfold kunion in H. apply in_app_or in H. destruct H as [H|H].
  - left. apply kmem_true. exact H.
  - right. apply filter_In in H. apply kmem_true. tauto.
Qed.

Lemma target_ok (strict : bool) o c :
  o <> [] -> nonneg o = true -> (if strict then type_sum (STSet o) null_t else STSet o) = STSet c ->
  c <> [] /\ nonneg c = true /\ (forall k, In k c -> In k o \/ k = K_NULL).
Proof.
  intros Hne Hpos H. destruct strict.
  - assert (Hk : forall k, In k c -> In k o \/ k = K_NULL).
    { intros k Hk. assert (HK : has_kind k (type_sum (STSet o) null_t) = true) by (rewrite H; apply kmem_true; exact Hk).
      apply type_sum_kinds in HK. destruct HK as [HK|HK]; simpl in HK.
      - left. apply kmem_true. exact HK.
      - right. rewrite orb_false_r in HK. apply Z.eqb_eq in HK. exact HK. }
    split; [|split; [|exact Hk]].
    + intros ->. pose proof (type_sum_sub_r (STSet o) null_t) as S. rewrite H in S. unfold null_t in S.
      rewrite sty_sub_set in S. discriminate S.
    + unfold nonneg. apply forallb_forall. intros k Hin. destruct (Hk k Hin) as [Ho| ->].
      * unfold nonneg in Hpos. rewrite forallb_forall in Hpos. apply Hpos. exact Ho.
      * reflexivity.
  - inversion H; subst c. split; [exact Hne|split; [exact Hpos|]]. intros k Hk. left. exact Hk.
Qed.

(* ---------- wrap_maybe ---------- *)
Lemma wrap_maybe_ok al env strict : forall ats decl args args',
  wrap_maybe al strict ats decl args = Some args' ->
  Forall (fun a => pwt env a = true) args ->
  Forall2 (fun a at_ => is_set at_ -> is_set (ptype a)) args ats ->
  Forall (fun dt => sty_scalar dt = true) decl ->
  length args' = length args /\
  Forall (fun a => pwt env a = true) args' /\
  Forall2 (fun a' a => is_set (ptype a) -> is_set (ptype a')) args' args.
Proof.
  induction ats as [|at_ ats IH]; intros decl args args' H W K D.
  - simpl in H. inversion H; subst. split; [reflexivity|split; [exact W|]].
    clear. induction args'; constructor; auto.
  - destruct decl as [|dt decl'].
    { simpl in H. inversion H; subst. split; [reflexivity|split; [exact W|]]. clear. induction args'; constructor; auto. }
    destruct args as [|a args0].
    { simpl in H. inversion H; subst. split; [reflexivity|split; [constructor|constructor]]. }
    simpl in H. inversion W as [|? ? Wa W0]; subst. inversion K as [|? ? ? ? Ka K0]; subst.
    inversion D as [|? ? Dd D0]; subst.
    destruct (wrap_maybe al strict ats decl' args0) as [rest|] eqn:E; [|discriminate H].
    destruct (IH decl' args0 rest E W0 K0 D0) as [L [Wr Kr]].
    destruct (trel_eqb (is_rel at_ dt) Maybe) eqn:R.
    + apply trel_eqb_maybe in R. destruct (maybe_is_set _ _ R) as [Sat [o Sdt]]. subst dt.
      destruct (Ka Sat) as [ks Pa].
      destruct (sty_scalar_set o Dd) as [Hne Hpos].
      destruct (type_inter al (if strict then type_sum (STSet o) null_t else STSet o) (ptype a)) as [t|] eqn:I; [|discriminate H].
      inversion H; subst args'. clear H.
      assert (Ht : exists c, (if strict then type_sum (STSet o) null_t else STSet o) = STSet c).
      { destruct strict; [apply type_sum_set|eexists; reflexivity]. }
      destruct Ht as [c Hc]. rewrite Hc in I. rewrite Pa in I.
      split; [simpl; rewrite L; reflexivity|]. split.
      * constructor; [|exact Wr]. simpl. rewrite Wa, Hc, Pa. simpl. apply (inter_assert_sub al c ks t I).
      * constructor; [|exact Kr]. intros _. simpl. apply (inter_set al c ks t I).
    + inversion H; subst args'. split; [simpl; rewrite L; reflexivity|]. split; constructor; auto.
Qed.

(* ---------- facts about bodies ---------- *)
Lemma typefn_kinds_nil_or_args d : tfkind_eqb (fd_typefn d) TFNone = false ->
  body_result_kinds (body_of no_oracle d) = Some [] \/ (1 <= body_min_args (body_of no_oracle d))%nat.
Proof.
  intros H. unfold body_of, args_are. rewrite H. simpl. repeat rewrite andb_false_r. simpl.
  repeat match goal with
         | |- context [if ?c then _ else _] => destruct c; simpl; try (right; lia); try (left; reflexivity)
         end.
Qed.

Lemma ident_min_args b : body_result_kinds b = None -> body_min_args b = 1%nat.
Proof. destruct b; simpl; try discriminate; reflexivity. Qed.

(* a TypeFn descriptor never has an identity body (those are chosen by declared argument types) *)
Lemma typefn_body_kinds d : tfkind_eqb (fd_typefn d) TFNone = false -> exists ks, body_result_kinds (body_of no_oracle d) = Some ks.
Proof.
  intros H. unfold body_of, args_are. rewrite H. simpl. repeat rewrite andb_false_r. simpl.
  repeat match goal with
         | |- context [if ?c then _ else _] => destruct c; simpl; try (eexists; reflexivity)
         end.
Qed.

Lemma nullable_wrap_null d args t :
  (if fd_strict d && existsb (fun a => allows_null (ptype a)) args then has_kind K_NULL (nullable_wrap d args t) else true) = true.
Proof.
  unfold nullable_wrap. destruct (fd_strict d && existsb (fun a => allows_null (ptype a)) args); [|reflexivity].
  apply type_sum_upper_r. reflexivity.
Qed.

Lemma filter_nonnull_nn ks k :
  In k (filter (fun k => negb (k =? K_NULL)) ks) -> has_kind k (non_nullable (STSet ks)) = true.
Proof.
  intros H. pose proof H as H0. apply filter_In in H. destruct H as [Hk Hn].
  destruct ks as [|k1 [|k2 r]].
  - destruct Hk.
  - unfold non_nullable, has_kind. apply kmem_true. exact Hk.
  - unfold non_nullable, has_kind. apply kmem_true. exact H0.
Qed.

(* ---------- the exact pass ---------- *)
Lemma exact_call_ok d args t :
  row_ok2 d = true ->
  exact_match d (map ptype args) (map non_nullable (map ptype args)) = Some t ->
  call_out_ok d args (nullable_wrap d args t) = true.
Proof.
  intros R E. apply andb_prop in R. destruct R as [R _]. unfold row_output_ok in R.
  unfold call_out_ok. rewrite nullable_wrap_null. simpl. apply orb_true_intro. right.
  assert (Et : t = fd_out d).
  { unfold exact_match in E. destruct (fd_typefn d).
    - destruct (negb _); [discriminate E|]. destruct (forallb _ _); inversion E; reflexivity.
    - destruct (if fd_strict d then _ else _) as [|a [|b [|]]]; try discriminate E. destruct (sty_eqb a b); inversion E; reflexivity.
    - discriminate E.
    - discriminate E. }
  subst t.
  destruct (body_result_kinds (body_of no_oracle d)) as [ks|] eqn:Bk.
  - eapply kinds_in_upper; [|exact R]. intros k. apply nullable_wrap_upper.
  - (* identity body: one declared argument a0, a0 within the OutputType *)
    destruct (tfkind_eqb (fd_typefn d) TFNone) eqn:Tf.
    2:{ destruct (typefn_body_kinds d Tf) as [ks Hks]. rewrite Hks in Bk. discriminate Bk. }
    destruct (fd_args d) as [|a0 [|]] eqn:Fa; try discriminate R.
    unfold exact_match in E. destruct (fd_typefn d); try discriminate Tf. rewrite Fa in E.
    destruct args as [|a [|a1 rest]]; simpl in E; try (destruct (fd_strict d); discriminate E).
    assert (Hrel : is_rel (if fd_strict d then non_nullable (ptype a) else ptype a) a0 = Is).
    { destruct (fd_strict d); simpl in E; rewrite andb_true_r in E;
        destruct (trel_eqb _ Is) eqn:Q; try discriminate E; apply trel_eqb_is; exact Q. }
    apply is_rel_is_sub in Hrel.
    destruct (ptype a) as [|ks] eqn:Pa.
    + assert (a0 = STAny) by (destruct (fd_strict d); apply sty_sub_any_l; exact Hrel). subst a0.
      apply sty_sub_any_l in R. rewrite R. unfold nullable_wrap. destruct (_ && _); reflexivity.
    + unfold kinds_in. apply forallb_forall. intros k Hk. apply nullable_wrap_upper.
      eapply sty_sub_kind; [exact R|]. eapply sty_sub_kind; [exact Hrel|].
      destruct (fd_strict d).
      * apply filter_nonnull_nn. exact Hk.
      * apply kmem_true. exact Hk.
Qed.

Lemma exact_fold_some : forall descs ats nn acc d t,
  fold_left (fun acc d => match exact_match d ats nn with Some t => Some (d, t) | None => acc end) descs acc = Some (d, t) ->
  acc = Some (d, t) \/ (In d descs /\ exact_match d ats nn = Some t).
Proof.
  induction descs as [|x xs IH]; intros ats nn acc d t H; simpl in H; [left; exact H|].
  destruct (IH _ _ _ _ _ H) as [Ha|[Hin He]].
  - destruct (exact_match x ats nn) eqn:Ex.
    + inversion Ha; subst. right. split; [left; reflexivity|exact Ex].
    + left. exact Ha.
  - right. split; [right; exact Hin|exact He].
Qed.

Lemma exact_fold_acc_none : forall xs ats nn acc,
  fold_left (fun acc d => match exact_match d ats nn with Some t => Some (d, t) | None => acc end) xs acc = None -> acc = None.
Proof.
  induction xs as [|y ys IH]; intros ats nn acc H; simpl in H; [exact H|].
  apply IH in H. destruct (exact_match y ats nn); [discriminate H|exact H].
Qed.

Lemma exact_fold_none : forall descs ats nn acc,
  fold_left (fun acc d => match exact_match d ats nn with Some t => Some (d, t) | None => acc end) descs acc = None ->
  forall d, In d descs -> exact_match d ats nn = None.
Proof.
  induction descs as [|x xs IH]; intros ats nn acc H d Hin; [destruct Hin|]. simpl in H.
  destruct Hin as [->|Hin].
  - apply exact_fold_acc_none in H. destruct (exact_match d ats nn); [discriminate H|reflexivity].
  - eapply IH; eassumption.
Qed.

(* ---------- the Maybe pass ---------- *)
Definition Kshape (args : list pexpr) (otys : list sty) : Prop :=
  Forall2 (fun a T => is_set T -> is_set (ptype a)) args otys.

Lemma Kshape_nn args otys : Kshape args otys -> Forall2 (fun a at_ => is_set at_ -> is_set (ptype a)) args (map non_nullable otys).
Proof. intros K. induction K; simpl; constructor; auto. intros S. apply H. apply nn_is_set. exact S. Qed.

Lemma Kshape_trans args' args otys :
  Forall2 (fun a' a => is_set (ptype a) -> is_set (ptype a')) args' args -> Kshape args otys -> Kshape args' otys.
Proof.
  intros F. revert otys. induction F as [|a' a l' l Hh F IH]; intros otys K; inversion K as [|? T ? ? Hk K0]; subst; constructor.
  - intros S. apply Hh. apply Hk. exact S.
  - apply IH. exact K0.
Qed.

Lemma identity_maybe_ok al d a0 a t target :
  fd_args d = [a0] -> sty_scalar a0 = true -> sty_sub a0 (fd_out d) = true ->
  tfkind_eqb (fd_typefn d) TFNone = true ->
  body_result_kinds (body_of no_oracle d) = None ->
  target = (if fd_strict d then type_sum a0 null_t else a0) ->
  is_set a0 -> is_set (ptype a) ->
  type_inter al target (ptype a) = Some t ->
  call_out_ok d [PAssert t target a] (nullable_wrap d [PAssert t target a] (maybe_out d)) = true.
Proof.
  intros Fa Sc Sub Tf Bk Ht [o ->] [ks Pa] I.
  unfold call_out_ok. rewrite nullable_wrap_null. simpl andb. rewrite Bk.
  rewrite (ident_min_args _ Bk). simpl orb.
  destruct (sty_scalar_set o Sc) as [Hne Hpos].
  assert (Hc : exists c, target = STSet c) by (subst target; destruct (fd_strict d); [apply type_sum_set|eexists; reflexivity]).
  destruct Hc as [c Hc]. rewrite Hc, Pa in I.
  destruct (inter_set al c ks t I) as [ct ->]. cbn [ptype].
  assert (Hto : (if fd_strict d then type_sum (STSet o) null_t else STSet o) = STSet c) by (rewrite <- Ht; exact Hc).
  destruct (target_ok (fd_strict d) o c Hne Hpos Hto) as [Cne [Cpos Ck]].
  pose proof (inter_sub_target al c ks (STSet ct) Cne Cpos I) as Hsub. rewrite sty_sub_set in Hsub.
  unfold maybe_out. destruct (fd_typefn d); try discriminate Tf.
  unfold kinds_in. apply forallb_forall. intros k Hk. apply nullable_wrap_upper.
  eapply sty_sub_kind; [exact Sub|]. simpl. apply kmem_true.
  destruct (fd_strict d).
  - apply filter_In in Hk. destruct Hk as [Hk Hn].
    destruct (Ck k (ksubset_elim _ _ _ Hsub Hk)) as [Ho| ->]; [exact Ho|discriminate Hn].
  - destruct (Ck k (ksubset_elim _ _ _ Hsub Hk)) as [Ho|Hz]; [exact Ho|].
    (* not strict: the target is a0 itself *) inversion Hto; subst c. eapply ksubset_elim; [exact Hsub|exact Hk].
Qed.

Definition MInv (env : list sty) (otys : list sty) (st : list pexpr * option fdesc) : Prop :=
  length (fst st) = length otys /\
  Forall (fun a => pwt env a = true) (fst st) /\
  Kshape (fst st) otys /\
  (forall d, snd st = Some d -> call_out_ok d (fst st) (nullable_wrap d (fst st) (maybe_out d)) = true).

Lemma combine_forall_is : forall (ats decl : list sty),
  length ats = length decl ->
  existsb (fun p => trel_eqb (is_rel (fst p) (snd p)) Isnt) (combine ats decl) = false ->
  forallb (fun p => trel_eqb (is_rel (fst p) (snd p)) Is) (combine ats decl) = false ->
  exists i at_ dt, nth_error ats i = Some at_ /\ nth_error decl i = Some dt /\ is_rel at_ dt = Maybe.
Proof.
  induction ats as [|a ats IH]; intros decl L E F; destruct decl as [|d decl]; try discriminate L; simpl in *.
  - discriminate F.
  - apply orb_false_elim in E. destruct E as [E1 E2].
    destruct (is_rel a d) eqn:R; try discriminate E1.
    + exists 0%nat, a, d. repeat split; assumption.
    + simpl in F. injection L as L. destruct (IH decl L E2 F) as [i [x [y [H1 [H2 H3]]]]].
      exists (S i), x, y. repeat split; assumption.
Qed.

Lemma maybe_step_ok al env otys d st st' :
  row_ok2 d = true ->
  exact_match d otys (map non_nullable otys) = None ->
  MInv env otys st ->
  maybe_step al otys (map non_nullable otys) (TcOk st) d = TcOk st' ->
  MInv env otys st'.
Proof.
  intros R NoEx [L [W [K Hf]]] H. destruct st as [args found]. simpl in L, W, K, Hf.
  unfold maybe_step, tbind in H.
  set (ats := if fd_strict d then map non_nullable otys else otys) in *.
  destruct (negb (Nat.eqb (length ats) (length (maybe_args d)))) eqn:Len.
  { inversion H; subst st'. repeat split; assumption. }
  destruct (existsb _ (combine ats (maybe_args d))) eqn:Ex.
  { inversion H; subst st'. repeat split; assumption. }
  destruct (wrap_maybe al (fd_strict d) ats (maybe_args d) args) as [args'|] eqn:Wm; [|discriminate H].
  inversion H; subst st'. clear H.
  apply negb_false_iff in Len. apply Nat.eqb_eq in Len.
  assert (Lats : length ats = length otys) by (unfold ats; destruct (fd_strict d); [rewrite map_length|]; reflexivity).
  assert (Kats : Forall2 (fun a at_ => is_set at_ -> is_set (ptype a)) args ats).
  { unfold ats. destruct (fd_strict d); [apply Kshape_nn; exact K|exact K]. }
  apply andb_prop in R. destruct R as [Rout Rargs].
  assert (Dsc : Forall (fun dt => sty_scalar dt = true) (maybe_args d)).
  { apply Forall_forall. intros dt Hin. unfold maybe_args in Hin. destruct (fd_typefn d); try destruct Hin.
    rewrite forallb_forall in Rargs. apply Rargs. exact Hin. }
  destruct (wrap_maybe_ok al env (fd_strict d) ats (maybe_args d) args args' Wm W Kats Dsc) as [L' [W' K']].
  unfold MInv. simpl. split; [rewrite L'; exact L|]. split; [exact W'|]. split; [eapply Kshape_trans; eassumption|].
  intros d0 Hd0. inversion Hd0; subst d0. clear Hd0.
  (* the call typed with d's OutputType over the wrapped arguments *)
  destruct (tfkind_eqb (fd_typefn d) TFNone) eqn:Tf.
  2:{ (* a TypeFn descriptor only gets here with no arguments at all *)
    assert (Ma : maybe_args d = []) by (unfold maybe_args; destruct (fd_typefn d); try reflexivity; discriminate Tf).
    rewrite Ma in Len. simpl in Len.
    assert (args' = []). { destruct args' as [|x xs]; [reflexivity|]. exfalso. simpl in L'. lia. }
    subst args'. unfold call_out_ok. rewrite nullable_wrap_null. simpl andb.
    destruct (typefn_kinds_nil_or_args d Tf) as [Hk|Hk].
    - rewrite Hk. simpl. apply orb_true_r.
    - apply orb_true_intro. left. apply Nat.ltb_lt. simpl. lia. }
  assert (Mo : maybe_out d = fd_out d) by (unfold maybe_out; destruct (fd_typefn d); try reflexivity; discriminate Tf).
  assert (Ma : maybe_args d = fd_args d) by (unfold maybe_args; destruct (fd_typefn d); try reflexivity; discriminate Tf).
  destruct (body_result_kinds (body_of no_oracle d)) as [ks|] eqn:Bk.
  - unfold call_out_ok. rewrite nullable_wrap_null. simpl andb. rewrite Bk. apply orb_true_intro. right.
    rewrite Mo. unfold row_output_ok in Rout. rewrite Bk in Rout.
    eapply kinds_in_upper; [|exact Rout]. intros k. apply nullable_wrap_upper.
  - (* identity body *)
    unfold row_output_ok in Rout. rewrite Bk in Rout.
    destruct (fd_args d) as [|a0 [|]] eqn:Fa; try discriminate Rout.
    rewrite Ma in *. simpl in Len.
    destruct ats as [|at0 [|]] eqn:Eats; try discriminate Len.
    destruct args as [|a [|]]; try (exfalso; simpl in L, Lats; lia).
    simpl in Ex. rewrite orb_false_r in Ex.
    (* the only position is Maybe: Is would have matched in the first loop *)
    assert (Rel : is_rel at0 a0 = Maybe).
    { destruct (is_rel at0 a0) eqn:Q; [discriminate Ex|reflexivity|]. exfalso.
      unfold exact_match in NoEx. destruct (fd_typefn d); try discriminate Tf. rewrite Fa in NoEx.
      fold ats in NoEx. rewrite Eats in NoEx. simpl in NoEx. rewrite Q in NoEx. discriminate NoEx. }
    simpl in Wm. rewrite Rel in Wm. simpl in Wm.
    destruct (type_inter al (if fd_strict d then type_sum a0 null_t else a0) (ptype a)) as [t|] eqn:I; [|discriminate Wm].
    inversion Wm; subst args'. clear Wm.
    destruct (maybe_is_set _ _ Rel) as [Sat Sa0].
    inversion Kats as [|? ? ? ? Ka _]; subst.
    simpl in Rargs. rewrite andb_true_r in Rargs.
    eapply identity_maybe_ok; try eassumption; try reflexivity. apply Ka. exact Sat.
Qed.

Lemma maybe_fold_ok al env otys : forall descs st r,
  (forall d, In d descs -> row_ok2 d = true /\ exact_match d otys (map non_nullable otys) = None) ->
  MInv env otys st ->
  fold_left (maybe_step al otys (map non_nullable otys)) descs (TcOk st) = TcOk r ->
  MInv env otys r.
Proof.
  induction descs as [|d ds IH]; intros st r Hd I H; cbn [fold_left] in H.
  - inversion H; subst. exact I.
  - destruct (maybe_step al otys (map non_nullable otys) (TcOk st) d) as [st1|w|] eqn:S.
    + eapply IH; [intros d0 Hin; apply Hd; right; exact Hin| |exact H].
      destruct (Hd d (or_introl eq_refl)) as [R N]. eapply maybe_step_ok; eassumption.
    + exfalso. clear -H. induction ds as [|x xs IHx]; cbn [fold_left] in H; [discriminate H|]. apply IHx. exact H.
    + exfalso. clear -H. induction ds as [|x xs IHx]; cbn [fold_left] in H; [discriminate H|]. apply IHx. exact H.
Qed.

Definition table_ok (table : list fdesc) : Prop := forall d, In d table -> row_ok2 d = true.

Lemma descs_named_in table n d : In d (descs_named table n) -> In d table.
Proof. unfold descs_named. intros H. apply filter_In in H. tauto. Qed.

Lemma Kshape_self args : Kshape args (map ptype args).
Proof. unfold Kshape. induction args; simpl; constructor; auto. Qed.

Lemma tc_call_pwt al env table n args pe :
  table_ok table -> Forall (fun a => pwt env a = true) args ->
  tc_call al table n args = TcOk pe -> pwt env pe = true.
Proof.
  intros T W H. unfold tc_call in H.
  destruct (negb (forallb desc_supported (descs_named table n)) || negb (forallb sty_scalar (map ptype args))); [discriminate H|].
  destruct (fold_left _ (descs_named table n) None) as [[d t]|] eqn:Ex.
  - inversion H; subst pe. clear H.
    destruct (exact_fold_some _ _ _ _ _ _ Ex) as [Hn|[Hin He]]; [discriminate Hn|].
    simpl. apply andb_true_intro. split; [apply forallb_forall; rewrite Forall_forall in W; exact W|].
    apply exact_call_ok; [apply T; eapply descs_named_in; exact Hin|exact He].
  - destruct (fold_left (maybe_step al _ _) (descs_named table n) (TcOk (args, None))) as [[args' [d|]]|w|] eqn:Mf;
      try discriminate H.
    inversion H; subst pe. clear H.
    assert (I0 : MInv env (map ptype args) (args, None)).
    { unfold MInv. simpl. split; [rewrite map_length; reflexivity|]. split; [exact W|]. split; [apply Kshape_self|].
      intros d0 Hd0. discriminate Hd0. }
    assert (Hd : forall d0, In d0 (descs_named table n) ->
                 row_ok2 d0 = true /\ exact_match d0 (map ptype args) (map non_nullable (map ptype args)) = None).
    { intros d0 Hin. split; [apply T; eapply descs_named_in; exact Hin|]. eapply exact_fold_none; eassumption. }
    destruct (maybe_fold_ok al env (map ptype args) _ _ _ Hd I0 Mf) as [_ [W' [_ Hf]]]. simpl in W', Hf.
    simpl. apply andb_true_intro. split; [apply forallb_forall; rewrite Forall_forall in W'; exact W'|].
    apply Hf. reflexivity.
Qed.

(* ---------- induction over logical expressions ---------- *)
Section LexprInd.
  Variable P : lexpr -> Prop.
  Hypothesis HConst : forall v, P (LConst v).
  Hypothesis HVar : forall i, P (LVar i).
  Hypothesis HAnd : forall a b, P a -> P b -> P (LAnd a b).
  Hypothesis HOr : forall a b, P a -> P b -> P (LOr a b).
  Hypothesis HCall : forall n args, Forall P args -> P (LCall n args).
  Hypothesis HCoalesce : forall args, Forall P args -> P (LCoalesce args).
  Hypothesis HCast : forall a t, P a -> P (LCast a t).

  Fixpoint lexpr_ind' (e : lexpr) : P e :=
    let go := fix go (l : list lexpr) : Forall P l :=
      match l with
      | [] => Forall_nil P
      | x :: xs => Forall_cons x (lexpr_ind' x) (go xs)
      end in
    match e with
    | LConst v => HConst v
    | LVar i => HVar i
    | LAnd a b => HAnd a b (lexpr_ind' a) (lexpr_ind' b)
    | LOr a b => HOr a b (lexpr_ind' a) (lexpr_ind' b)
    | LCall n args => HCall n args (go args)
    | LCoalesce args => HCoalesce args (go args)
    | LCast a t => HCast a t (lexpr_ind' a)
    end.
End LexprInd.

Lemma tc_list_pwt env (tc1 : lexpr -> tcres pexpr) : forall l ps,
  Forall (fun e => forall pe, tc1 e = TcOk pe -> pwt env pe = true) l ->
  tc_list tc1 l = TcOk ps -> Forall (fun a => pwt env a = true) ps.
Proof.
  induction l as [|x xs IH]; intros ps F H; simpl in H.
  - inversion H; constructor.
  - inversion F as [|? ? Fx Fxs]; subst.
    apply tbind_ok in H. destruct H as [p [Hp H]]. apply tbind_ok in H. destruct H as [ps' [Hps H]].
    inversion H; subst. constructor; [apply Fx; exact Hp|apply IH; assumption].
Qed.

Lemma fold_type_sum_upper : forall rest t0,
  sty_sub t0 (fold_left (fun t q => type_sum t (ptype q)) rest t0) = true /\
  Forall (fun q => sty_sub (ptype q) (fold_left (fun t q => type_sum t (ptype q)) rest t0) = true) rest.
Proof.
  induction rest as [|q qs IH]; intros t0; simpl.
  - split; [apply sty_sub_refl|constructor].
  - destruct (IH (type_sum t0 (ptype q))) as [A B]. split.
    + eapply sty_sub_trans; [apply type_sum_sub_l|exact A].
    + constructor; [eapply sty_sub_trans; [apply type_sum_sub_r|exact A]|exact B].
Qed.

Lemma bool_null_ok : [K_NULL; K_BOOL] <> [] /\ nonneg [K_NULL; K_BOOL] = true.
Proof. split; [discriminate|reflexivity]. Qed.

Theorem tc_pwt al table env : table_ok table ->
  forall e pe, tc al table env e = TcOk pe -> pwt env pe = true.
Proof.
  intros T. induction e as [v|i|a b IHa IHb|a b IHa IHb|n args IH|args IH|a g IHa] using lexpr_ind'; intros pe H; simpl in H.
  - destruct (value_scalar v); [|discriminate H]. inversion H; subst. simpl. rewrite Z.eqb_refl. reflexivity.
  - destruct (nth_error env i) as [t|] eqn:E; [|discriminate H]. destruct (sty_scalar t); [|discriminate H].
    inversion H; subst. simpl. rewrite E. apply sty_sub_refl.
  - apply tbind_ok in H. destruct H as [l [Hl H]]. apply tbind_ok in H. destruct H as [r [Hr H]]. inversion H; subst pe.
    destruct (tc al table env a) as [pa| |] eqn:Ea; try discriminate Hl.
    destruct (tc al table env b) as [pb| |] eqn:Eb; try discriminate Hr.
    destruct bool_null_ok as [N1 N2].
    destruct (expect_pwt al env _ pa l N1 N2 Hl (IHa pa eq_refl)) as [Wl Sl].
    destruct (expect_pwt al env _ pb r N1 N2 Hr (IHb pb eq_refl)) as [Wr Sr].
    cbn [pwt]. apply and_or_pwt; assumption.
  - apply tbind_ok in H. destruct H as [l [Hl H]]. apply tbind_ok in H. destruct H as [r [Hr H]]. inversion H; subst pe.
    destruct (tc al table env a) as [pa| |] eqn:Ea; try discriminate Hl.
    destruct (tc al table env b) as [pb| |] eqn:Eb; try discriminate Hr.
    destruct bool_null_ok as [N1 N2].
    destruct (expect_pwt al env _ pa l N1 N2 Hl (IHa pa eq_refl)) as [Wl Sl].
    destruct (expect_pwt al env _ pb r N1 N2 Hr (IHb pb eq_refl)) as [Wr Sr].
    cbn [pwt]. apply and_or_pwt; assumption.
  - apply tbind_ok in H. destruct H as [ps [Hps H]].
    eapply tc_call_pwt; [exact T| |exact H]. eapply tc_list_pwt; eassumption.
  - destruct args as [|a0 args0]; [discriminate H|].
    apply tbind_ok in H. destruct H as [ps [Hps H]].
    pose proof (tc_list_pwt env _ _ _ IH Hps) as W.
    destruct ps as [|p rest]; [discriminate H|]. inversion H; subst pe. clear H.
    destruct (fold_type_sum_upper rest (ptype p)) as [A B].
    set (t := fold_left (fun t q => type_sum t (ptype q)) rest (ptype p)) in *.
    cbn [pwt]. apply andb_true_intro. split; [apply andb_true_intro; split|].
    + apply forallb_forall. rewrite Forall_forall in W. exact W.
    + apply forallb_forall. intros q [<-|Hq]; [exact A|]. rewrite Forall_forall in B. apply B. exact Hq.
    + destruct (existsb (fun a => negb (allows_null (ptype a))) (p :: rest)) eqn:Ex; [apply orb_true_r|].
      rewrite orb_false_r. simpl in Ex. apply orb_false_elim in Ex. destruct Ex as [Ep _].
      apply negb_false_iff in Ep. rewrite <- has_kind_null_allows in Ep. eapply sty_sub_kind; [exact A|exact Ep].
  - apply tbind_ok in H. destruct H as [p [Hp H]].
    destruct (negb (k_scalar g)); [discriminate H|].
    destruct (ptype p) as [|[|k1 [|k2 ks]]]; try discriminate H.
    match type of H with context [if ?c then _ else _] => destruct c end; [|discriminate H]. inversion H; subst pe. cbn [pwt].
    rewrite (IHa p Hp). simpl andb. apply andb_true_intro. split.
    + apply type_sum_upper_r. reflexivity.
    + apply type_sum_upper_l. unfold has_kind. apply kmem_true. left. reflexivity.
Qed.
