(* Proofs/LimitNestedProofs.v — a nested ORDER BY ... LIMIT shown as a table prints a top-n (as a set) of the input. *)
From Octo Require Import Operators LimitOrder CompareLaws ChangelogLemmas OperatorsProofs LimitOrderProofs LimitPruneProofs LimitOracleProofs.

Theorem order_limit_nested_table_set n0 ks n inp rows noretr : key_congruent ks -> ks <> [] -> 0 <= n ->
  arity_is n0 (records inp) -> valid_changelog (records inp) = true -> represents rows (records inp) ->
  (noretr = true -> insert_only (records inp) = true) ->
  exists out, printed BatchTable true ks (Some n) noretr inp = Ok out /\ is_top_n_set ks n rows out.
Proof.
  intros Hk NE Hn Ha V R Hi.
  destruct (order_limit_nested_table_full n0 ks n inp rows noretr Hk Hn Ha V R Hi NE) as [inner [out [_ [T [E Same]]]]].
  exists out. split; [exact E|].
  apply (is_top_n_set_same_bag ks n rows (rows_of inner) out Hk); [intro x; symmetry; apply Same | apply is_top_n_is_set; exact T].
Qed.
