(* Proofs/TriggerSpecProofs3.v — C17/C18 for the group-by: before end of stream the node creates no late
   rows when it groups by the event time. *)
From Octo Require Import GroupBy TriggerProofs GroupByProofs TriggerSpecProofs TriggerSpecProofs2 CompareLaws ChangelogLemmas.
From Coq Require Import Sorting.Sorted.

(* well-timedness of a stream, as in C18 (Model/Buffer.v states the same for its own event type) *)
Definition wm_le (last : option Z) (w : Z) : bool := match last with None => true | Some l => l <=? w end.
Definition not_late (last : option Z) (r : rec) : bool :=
  (et r =? zero_ns) || match last with None => true | Some l => l <? et r end.
Fixpoint well_timed_from (last : option Z) (es : list event) : bool :=
  match es with
  | [] => true
  | WM w :: rest => wm_le last w && well_timed_from (Some w) rest
  | Rec r :: rest => not_late last r && well_timed_from last rest
  end.

Lemma well_timed_rows last rows rest :
  (forall x, In (Rec x) rows -> not_late last x = true) -> watermarks rows = [] ->
  well_timed_from last (rows ++ rest) = well_timed_from last rest.
Proof.
  induction rows as [|e rows IH]; intros H W; [reflexivity|]. destruct e as [x|w]; [|discriminate].
  simpl. rewrite (H x (or_introl eq_refl)). simpl. apply IH; [intros y Hy; apply H; right; exact Hy | exact W].
Qed.

(* ---------- the trigger states between two polls ---------- *)
Definition t_quiet (nk : nat) (t : tstate) : Prop :=
  match t with
  | SCount _ _ _ fire => fire = []
  | SWm _ tks _ wm => forall e, In e tks -> wm < wk_ns (fst e) /\ length (snd (fst e)) = nk
  | SEos _ _ => True
  end.

Lemma fold_del_gone idx (ks : list gkey) (tks : list (wkey * unit)) e : wf_tks idx tks ->
  In e (fold_left (fun m k0 => m_del wless (key_time idx k0, k0) m) ks tks) -> In (snd (fst e)) ks -> False.
Proof.
  intros W He Hk. pose proof (fold_del_incl idx ks tks e He) as Hin.
  unfold wf_tks in W. rewrite Forall_forall in W. specialize (W e Hin).
  assert (M : m_mem wless (key_time idx (snd (fst e)), snd (fst e))
                (fold_left (fun m k0 => m_del wless (key_time idx k0, k0) m) ks tks) = true).
  { unfold m_mem. apply existsb_exists. exists e. split; [exact He|]. rewrite weq_spec. simpl.
    unfold wk_ns in *. simpl. rewrite <- W, Z.eqb_refl. apply geq_refl. }
  rewrite mem_fold_del in M. apply andb_true_iff in M. destruct M as [M _]. apply negb_true_iff in M.
  assert (existsb (geq (snd (fst e))) ks = true) by (apply existsb_exists; exists (snd (fst e)); split; [exact Hk | apply geq_refl]).
  congruence.
Qed.

Lemma quiet_poll nk t o t' : t_ok t -> t_is_eos t = false ->
  (match t with SWm _ tks _ _ => forall e, In e tks -> length (snd (fst e)) = nk | _ => True end) ->
  t_poll wless t = (o, t') -> t_quiet nk t'.
Proof.
  destruct t as [n counts eos fire | idx tks eos wm | keys eos]; simpl; intros OK E L H; inversion H; subst; simpl; auto.
  destruct OK as [S W]. intros e He. split; [|apply L; apply (fold_del_incl _ _ _ _ He)].
  destruct (Z.ltb_spec wm (wk_ns (fst e))) as [Hlt|Hge]; [exact Hlt|]. exfalso.
  apply (fold_del_gone idx _ tks e W He). apply in_map_iff. exists e. split; [reflexivity|].
  apply take_while_sorted; [exact S | apply (fold_del_incl _ _ _ _ He) | exact Hge].
Qed.

(* a record step polls only the record's own key *)
Lemma polled_rec nk k t k0 : t_quiet nk t -> t_is_eos t = false -> In k0 (fst (t_poll wless (t_key wless k t))) -> geq k k0 = true.
Proof.
  destruct t as [n counts eos fire | idx tks eos wm | keys eos]; simpl; intros Q E H; subst.
  - destruct (m_get slices_less k counts) as [[sk c]|] eqn:G.
    + assert (SK : geq k sk = true) by (apply (get_some slices_less) in G; exact (proj2 G)).
      destruct ((c + 1) mod two64 =? n); simpl in H; [|destruct H].
      destruct H as [H|[]]. subst. exact SK.
    + destruct ((0 + 1) mod two64 =? n); simpl in H; [|destruct H].
      destruct H as [H|[]]. subst. apply geq_refl.
  - apply in_map_iff in H. destruct H as [e [Ek He]]. subst k0. apply take_while_in in He. destruct He as [He P].
    apply (in_put wless) in He. destruct He as [He|[He _]]; [subst; simpl; apply geq_refl|].
    exfalso. apply negb_true_iff, Z.ltb_ge in P. destruct (Q e He) as [Q1 _]. lia.
  - destruct H.
Qed.

(* a watermark step polls only keys of the watermark trigger, with times in (previous watermark, W] *)
Lemma polled_wm nk w t k0 : t_quiet nk t -> t_ok t -> t_is_eos t = false -> In k0 (fst (t_poll wless (t_wm w t))) ->
  exists idx tks wm, t = SWm idx tks false wm /\ wm < fst (key_time idx k0) <= w /\ length k0 = nk.
Proof.
  destruct t as [n counts eos fire | idx tks eos wm | keys eos]; simpl; intros Q OK E H; subst.
  - rewrite app_nil_r in H. destruct H.
  - exists idx, tks, wm. split; [reflexivity|]. apply in_map_iff in H. destruct H as [e [Ek He]]. subst k0.
    apply take_while_in in He. destruct He as [He P]. apply negb_true_iff, Z.ltb_ge in P.
    destruct (Q e He) as [Q1 Q2]. destruct OK as [_ W]. unfold wf_tks in W. rewrite Forall_forall in W.
    cbv beta. unfold wkey in *. rewrite <- (W e He). auto.
  - destruct H.
Qed.

Section NoLate.
  Variable ST : Type.
  Variable rinit : ST.
  Variable radd : bool -> list value -> ST -> ST.
  Variable rout : ST -> list value.
  Variable nk : nat.
  Variable idx : nat.
  Hypothesis idx_in_key : (idx < nk)%nat.
  Notation kti := (Some idx).

  Notation keyf := (keyf nk).
  Notation aggs_upd := (aggs_upd ST rinit radd nk).
  Notation emit_key := (emit_key ST rout kti).
  Notation emit_keys := (emit_keys ST rout kti).
  Notation ctg_step := (ctg_step ST rinit radd rout wless nk kti).
  Notation ctg_run_from := (ctg_run_from ST rinit radd rout wless nk kti).
  Notation ctg_init := (ctg_init ST kti).
  Notation st_trigs := (st_trigs ST).

  (* the event time the code gives the rows of key k at current time cur: min(cur, k's time component) *)
  Lemma emit_key_time aggs cur sent k sent' o x : length k = nk -> emit_key aggs cur sent k = (sent', o) -> In (Rec x) o ->
    et x = cur \/ (et x = fst (key_time idx k) /\ et x < cur).
  Proof.
    intros L H Hx. unfold GroupBy.emit_key, out_row in H.
    assert (NT : forall a : list value * item ST,
               new_time kti cur (Some (k ++ rout (fst (snd a)))) = cur \/
               (new_time kti cur (Some (k ++ rout (fst (snd a)))) = fst (key_time idx k) /\ new_time kti cur (Some (k ++ rout (fst (snd a)))) < cur)).
    { intro a. unfold new_time, key_time. rewrite nth_error_app1 by lia.
      destruct (nth_error k idx) as [v|] eqn:N; [|apply nth_error_None in N; lia].
      destruct (Z.ltb_spec (fst (vtime v)) cur); auto. }
    destruct (m_get slices_less k aggs) as [a|]; destruct (m_get slices_less k sent) as [e|]; inversion H; subst; clear H; simpl in Hx.
    - destruct Hx as [Hx|[Hx|[]]]; inversion Hx; subst; simpl; apply NT.
    - destruct Hx as [Hx|[]]; inversion Hx; subst; simpl; apply NT.
    - destruct Hx as [Hx|[]]; inversion Hx; subst; simpl. left. reflexivity.
    - destruct Hx.
  Qed.

  Lemma emit_keys_time aggs cur : forall ks sent sent' o x, (forall k, In k ks -> length k = nk) ->
    emit_keys aggs cur sent ks = (sent', o) -> In (Rec x) o ->
    exists k, In k ks /\ (et x = cur \/ (et x = fst (key_time idx k) /\ et x < cur)).
  Proof.
    induction ks as [|k r IH]; simpl; intros sent sent' o x L H Hx.
    - inversion H; subst. destruct Hx.
    - destruct (emit_key aggs cur sent k) as [s1 o1] eqn:E1. destruct (emit_keys aggs cur s1 r) as [s2 o2] eqn:E2.
      inversion H; subst; clear H. apply in_app_or in Hx. destruct Hx as [Hx|Hx].
      + exists k. split; [left; reflexivity | apply (emit_key_time _ _ _ _ _ _ x (L k (or_introl eq_refl)) E1 Hx)].
      + destruct (IH _ _ _ x (fun k' Hk' => L k' (or_intror Hk')) E2 Hx) as [k' [H1 H2]]. exists k'. split; [right; exact H1 | exact H2].
  Qed.

  (* invariant between steps; [last] = the last watermark forwarded so far *)
  Definition nl_inv (trigs : list tkind) (last : option Z) (s : gst ST) : Prop :=
    ts_good kti trigs (st_trigs s) /\ Forall (t_quiet nk) (st_trigs s) /\
    Forall (t_wm_is (match last with Some l => l | None => zero_ns end)) (st_trigs s).

  Lemma shape_not_eos kd t : t_shape kti kd t -> t_is_eos t = false.
  Proof. destruct kd, t; simpl; try contradiction; destruct eos; auto; contradiction. Qed.

  (* quietness after the poll of a step, for the whole list *)
  Lemma quiet_after trigs ts1 ks ts' : Forall2 (t_shape kti) trigs ts1 -> Forall t_ok ts1 ->
    Forall (fun t => match t with SWm _ tks _ _ => forall e, In e tks -> length (snd (fst e)) = nk | _ => True end) ts1 ->
    mt_poll wless ts1 = (ks, ts') -> Forall (t_quiet nk) ts'.
  Proof.
    intros SH OK LN P. pose proof (mt_poll_spec _ _ _ P) as F2. clear P. revert trigs SH OK LN.
    induction F2 as [|t t' l l' [o [Pt _]] _ IH]; intros trigs SH OK LN; [constructor|].
    inversion SH as [|kd ? tr ? Sk Sr]; subst. inversion OK; subst. inversion LN; subst.
    constructor; [|apply (IH tr); assumption].
    apply (quiet_poll nk t o t'); auto. apply (shape_not_eos kd t Sk).
  Qed.

  Definition keyed (r : rec) : Prop := et r = fst (key_time idx (keyf r)) /\ (nk <= length (vals r))%nat.

  Lemma key_len r : (nk <= length (vals r))%nat -> length (keyf r) = nk.
  Proof. intro H. unfold GroupBy.keyf. rewrite firstn_length. lia. Qed.

  Lemma lens_after_key k ts : length k = nk -> Forall (t_quiet nk) ts ->
    Forall (fun t => match t with SWm _ tks _ _ => forall e, In e tks -> length (snd (fst e)) = nk | _ => True end) (mt_key wless k ts).
  Proof.
    intros L Q. unfold mt_key. apply Forall_forall. intros t' Ht'. apply in_map_iff in Ht'. destruct Ht' as [t [E Ht]]. subst t'.
    rewrite Forall_forall in Q. specialize (Q t Ht). destruct t as [n counts eos fire | i tks eos wm | keys eos]; simpl; auto.
    - destruct (m_get slices_less k counts) as [[sk c0]|]; match goal with |- context [if ?b then _ else _] => destruct b end; exact I.
    - intros e He. apply (in_put wless) in He. destruct He as [He|[He _]]; [rewrite He; exact L | apply (Q e He)].
  Qed.
  Lemma lens_after_wm w ts : Forall (t_quiet nk) ts ->
    Forall (fun t => match t with SWm _ tks _ _ => forall e, In e tks -> length (snd (fst e)) = nk | _ => True end) (mt_wm w ts).
  Proof.
    intros Q. unfold mt_wm. apply Forall_forall. intros t' Ht'. apply in_map_iff in Ht'. destruct Ht' as [t [E Ht]]. subst t'.
    rewrite Forall_forall in Q. specialize (Q t Ht). destruct t as [n counts eos fire | i tks eos wm | keys eos]; simpl; auto.
    intros e He. apply (Q e He).
  Qed.

  (* one step keeps the invariant and emits no late row *)
  Lemma nl_step trigs last s e s' o : nl_inv trigs last s -> ctg_step s e = (s', o) ->
    match e with
    | Rec r => keyed r -> not_late last r = true ->
               nl_inv trigs last s' /\ watermarks o = [] /\ forall x, In (Rec x) o -> not_late last x = true
    | WM w => wm_le last w = true ->
              nl_inv trigs (Some w) s' /\ exists rows, o = rows ++ [WM w] /\ watermarks rows = [] /\
                                                       forall x, In (Rec x) rows -> not_late last x = true
    end.
  Proof.
    intros [[SH OK] [Q WI]] H. destruct s as [[aggs sent] ts]. unfold GroupByProofs.st_trigs in *. simpl in *.
    destruct e as [r|w].
    - intros [KT KL] NLr. pose proof (key_len r KL) as LK.
      destruct (mt_poll wless (mt_key wless (keyf r) ts)) as [ks ts'] eqn:P.
      destruct (emit_keys (aggs_upd r aggs) (et r) sent ks) as [sent' o'] eqn:E. inversion H; subst; clear H. simpl.
      assert (SH1 : Forall2 (t_shape kti) trigs (mt_key wless (keyf r) ts)) by (unfold mt_key; apply F2_map; auto; intros a b; apply shape_key).
      assert (OK1 : Forall t_ok (mt_key wless (keyf r) ts)) by (unfold mt_key; apply F_map; auto; apply t_key_ok).
      assert (POLLED : forall k0, In k0 ks -> geq (keyf r) k0 = true).
      { intros k0 Hk0. destruct (mt_poll_from _ _ _ k0 P Hk0) as [t1 [Ht1 Pk]].
        unfold mt_key in Ht1. apply in_map_iff in Ht1. destruct Ht1 as [t [E1 Ht]]. subst t1.
        rewrite Forall_forall in Q. destruct (F2_in_r_shape kti trigs ts t SH Ht) as [kd Sk].
        apply (polled_rec nk (keyf r) t k0 (Q t Ht) (shape_not_eos kd t Sk) Pk). }
      split; [|split].
      + split; [apply (good_poll kti trigs _ _ _ P); split; assumption|]. split.
        * apply (quiet_after trigs _ _ _ SH1 OK1 (lens_after_key _ _ LK Q) P).
        * apply (F_poll _ (wm_is_poll _) _ _ _ P). unfold mt_key. apply F_map; [apply wm_is_key | exact WI].
      + pose proof (emit_keys_no_wm ST rout kti (aggs_upd r aggs) (et r) ks sent) as NW. rewrite E in NW. exact NW.
      + intros x Hx.
        assert (LKS : forall k, In k ks -> length k = nk).
        { intros k Hk. specialize (POLLED k Hk). rewrite geq_row_eqb in POLLED. apply row_eqb_length in POLLED. lia. }
        destruct (emit_keys_time _ _ _ _ _ _ x LKS E Hx) as [k0 [Hk0 T]].
        assert (TK : fst (key_time idx k0) = et r).
        { rewrite KT. symmetry. apply key_time_cong. apply POLLED. exact Hk0. }
        assert (EX : et x = et r) by (destruct T as [T|[T1 T2]]; [exact T | lia]).
        unfold not_late in *. rewrite EX. exact NLr.
    - intros WL.
      destruct (mt_poll wless (mt_wm w ts)) as [ks ts'] eqn:P.
      destruct (emit_keys aggs w sent ks) as [sent' o'] eqn:E. inversion H; subst; clear H. simpl.
      assert (SH1 : Forall2 (t_shape kti) trigs (mt_wm w ts)) by (unfold mt_wm; apply F2_map; auto; intros a b; apply shape_wm).
      assert (OK1 : Forall t_ok (mt_wm w ts)) by (unfold mt_wm; apply F_map; auto; apply t_wm_ok).
      assert (POLLED : forall k0, In k0 ks -> (match last with Some l => l | None => zero_ns end) < fst (key_time idx k0) <= w /\ length k0 = nk).
      { intros k0 Hk0. destruct (mt_poll_from _ _ _ k0 P Hk0) as [t1 [Ht1 Pk]].
        unfold mt_wm in Ht1. apply in_map_iff in Ht1. destruct Ht1 as [t [E1 Ht]]. subst t1.
        rewrite Forall_forall in Q, OK, WI. destruct (F2_in_r_shape kti trigs ts t SH Ht) as [kd Sk].
        destruct (polled_wm nk w t k0 (Q t Ht) (OK t Ht) (shape_not_eos kd t Sk) Pk) as [i [tks [wm [Et [B L]]]]].
        subst t. specialize (WI _ Ht). simpl in WI. subst wm.
        destruct kd; simpl in Sk; try contradiction. subst i. auto. }
      split.
      + split; [apply (good_poll kti trigs _ _ _ P); split; assumption|]. split.
        * apply (quiet_after trigs _ _ _ SH1 OK1 (lens_after_wm w _ Q) P).
        * apply (F_poll _ (wm_is_poll w) _ _ _ P). unfold mt_wm.
          clear -WI. induction WI; simpl; constructor; [eapply wm_is_set; eassumption | assumption].
      + exists o'. split; [reflexivity|]. split.
        * pose proof (emit_keys_no_wm ST rout kti aggs w ks sent) as NW. rewrite E in NW. exact NW.
        * intros x Hx. destruct (emit_keys_time _ _ _ _ _ _ x (fun k Hk => proj2 (POLLED k Hk)) E Hx) as [k0 [Hk0 T]].
          destruct (POLLED k0 Hk0) as [[B1 B2] _].
          unfold not_late. destruct last as [l|]; [|apply orb_true_r].
          apply orb_true_iff. right. apply Z.ltb_lt. destruct T as [T|[T1 T2]]; lia.
  Qed.

  Definition all_keyed (es : list event) : Prop := forall r, In r (records es) -> keyed r.

  Theorem no_late_rows_from trigs : forall es last s s' o, nl_inv trigs last s -> all_keyed es ->
    well_timed_from last es = true -> ctg_run_from s es = (s', o) -> well_timed_from last o = true.
  Proof.
    induction es as [|e rest IH]; intros last s s' o I K WT R.
    - simpl in R. inversion R; subst. reflexivity.
    - cbn [GroupBy.ctg_run_from] in R. destruct (ctg_step s e) as [s1 o1] eqn:S1.
      destruct (ctg_run_from s1 rest) as [s2 o2] eqn:S2. inversion R; subst; clear R.
      assert (K' : all_keyed rest).
      { intros r Hr. apply K. change (e :: rest) with ([e] ++ rest). rewrite records_app. apply in_or_app. right. exact Hr. }
      pose proof (nl_step trigs last s e s1 o1 I S1) as ST1. destruct e as [r|w]; simpl in WT; apply andb_true_iff in WT; destruct WT as [W1 W2].
      + destruct (ST1 (K r (or_introl eq_refl)) W1) as [I1 [NW NL]].
        rewrite (well_timed_rows last o1 o2 NL NW). apply (IH last s1 s' o2 I1 K' W2 S2).
      + destruct (ST1 W1) as [I1 [rows [Eo [NW NL]]]]. subst o1. rewrite <- app_assoc.
        rewrite (well_timed_rows last rows _ NL NW). simpl. rewrite W1. simpl.
        apply (IH (Some w) s1 s' o2 I1 K' W2 S2).
  Qed.

  (* C17_no_late_rows: for every trigger configuration, every well-timed delivered stream whose records are
     grouped by their event time (the key's time component is the record's event time), everything the node
     emits before end of stream is well-timed: forwarded watermarks in order, no row with a non-zero event
     time at or below a watermark already forwarded. *)
  Theorem no_late_rows trigs es s o : all_keyed es -> well_timed_from None es = true ->
    ctg_run_from (ctg_init trigs) es = (s, o) -> well_timed_from None o = true.
  Proof.
    intros K WT R. apply (no_late_rows_from trigs es None (ctg_init trigs) s o); auto.
    split; [apply good_init|]. unfold GroupByProofs.st_trigs, GroupBy.ctg_init, mt_init. simpl. split.
    - apply Forall_forall. intros t Ht. apply in_map_iff in Ht. destruct Ht as [k [E _]]. subst. destruct k; simpl; auto. intros e [].
    - apply Forall_forall. intros t Ht. apply in_map_iff in Ht. destruct Ht as [k [E _]]. subst. destruct k; simpl; auto.
  Qed.
End NoLate.
