(* Proofs/ExprTableProofs.v — facts about the GENERATED descriptor table (Gen/GenFunctions.v), decided by
   computation over the table the code declares today; and the C11 theorems specialised to it. *)
From Octo Require Import Expr ExprProofs GenFunctions.
Local Open Scope string_scope.

Definition cmp_names : list string := ["="; "!="; "<"; "<="; ">"; ">="].
Definition is_cmp_name (d : fdesc) : bool := existsb (String.eqb (fd_name d)) cmp_names.

Definition body_eqb_not (b : body) : bool := match b with BNot => true | _ => false end.
Definition body_eqb_isnull (b : body) : bool := match b with BIsNull => true | _ => false end.
Definition body_eqb_isnotnull (b : body) : bool := match b with BIsNotNull => true | _ => false end.

(* every descriptor named "not" is strict and has the modelled body; likewise the others *)
Definition row_ok (d : fdesc) : bool :=
  (if name_is d "not" then fd_strict d && body_eqb_not (body_of no_oracle d) else true) &&
  (if name_is d "is null" then negb (fd_strict d) && body_eqb_isnull (body_of no_oracle d) else true) &&
  (if name_is d "is not null" then negb (fd_strict d) && body_eqb_isnotnull (body_of no_oracle d) else true) &&
  (if is_cmp_name d then fd_strict d && is_cmp_body (body_of no_oracle d) else true).

Lemma table_rows_ok : forallb row_ok function_table = true.
Proof. vm_compute. reflexivity. Qed.

(* the table has each of these functions (otherwise the statements below would be vacuous) *)
Lemma table_has_them :
  forallb (fun n => existsb (fun d => String.eqb (fd_name d) n) function_table)
          ("not" :: "is null" :: "is not null" :: cmp_names) = true.
Proof. vm_compute. reflexivity. Qed.

Lemma row_ok_in d : In d function_table -> row_ok d = true.
Proof. intros H. pose proof table_rows_ok as T. rewrite forallb_forall in T. apply T; assumption. Qed.

Lemma name_is_eq d s : fd_name d = s -> name_is d s = true.
Proof. intros <-. unfold name_is. apply String.eqb_refl. Qed.

Lemma tbl_not orc d : In d function_table -> fd_name d = "not" -> fd_strict d = true /\ body_of orc d = BNot.
Proof.
  intros Hin Hn. pose proof (row_ok_in d Hin) as R. unfold row_ok in R.
  rewrite (name_is_eq d _ Hn) in R.
  apply andb_prop in R. destruct R as [R _]. apply andb_prop in R. destruct R as [R _].
  apply andb_prop in R. destruct R as [R _]. apply andb_prop in R. destruct R as [R1 R2].
  split; [assumption|]. apply body_of_concrete; [|intros ks n f; discriminate]. destruct (body_of no_oracle d); try discriminate R2; reflexivity.
Qed.

Lemma tbl_is_null orc d : In d function_table -> fd_name d = "is null" -> fd_strict d = false /\ body_of orc d = BIsNull.
Proof.
  intros Hin Hn. pose proof (row_ok_in d Hin) as R. unfold row_ok in R.
  rewrite (name_is_eq d _ Hn) in R.
  apply andb_prop in R. destruct R as [R _]. apply andb_prop in R. destruct R as [R _].
  apply andb_prop in R. destruct R as [_ R]. apply andb_prop in R. destruct R as [R1 R2].
  split; [destruct (fd_strict d); [discriminate R1|reflexivity]|]. apply body_of_concrete; [|intros ks n f; discriminate]. destruct (body_of no_oracle d); try discriminate R2; reflexivity.
Qed.

Lemma tbl_is_not_null orc d : In d function_table -> fd_name d = "is not null" -> fd_strict d = false /\ body_of orc d = BIsNotNull.
Proof.
  intros Hin Hn. pose proof (row_ok_in d Hin) as R. unfold row_ok in R.
  rewrite (name_is_eq d _ Hn) in R.
  apply andb_prop in R. destruct R as [R _]. apply andb_prop in R. destruct R as [_ R].
  apply andb_prop in R. destruct R as [R1 R2].
  split; [destruct (fd_strict d); [discriminate R1|reflexivity]|]. apply body_of_concrete; [|intros ks n f; discriminate]. destruct (body_of no_oracle d); try discriminate R2; reflexivity.
Qed.

Lemma tbl_cmp orc d : In d function_table -> In (fd_name d) cmp_names -> fd_strict d = true /\ is_cmp_body (body_of orc d) = true.
Proof.
  intros Hin Hn. pose proof (row_ok_in d Hin) as R. unfold row_ok in R.
  assert (C : is_cmp_name d = true).
  { unfold is_cmp_name. apply existsb_exists. exists (fd_name d). split; [assumption|apply String.eqb_refl]. }
  rewrite C in R. apply andb_prop in R. destruct R as [_ R]. apply andb_prop in R. destruct R as [R1 R2].
  split; [exact R1|].
  destruct (body_of no_oracle d) eqn:B; try discriminate R2;
    rewrite (body_of_concrete orc d _ B); try reflexivity; intros ks0 n0 f0; discriminate.
Qed.

(* ---- the C11 statements over the table ---- *)
Theorem table_not_kleene orc t d ctx a v :
  In d function_table -> fd_name d = "not" ->
  peval orc ctx a = Ok v -> is_tv v = true -> has_type v (ptype a) = true ->
  peval orc ctx (PCall t d [a]) = Ok (tv_val (k_not (to_tv v))).
Proof. intros Hin Hn. destruct (tbl_not orc d Hin Hn). apply not_kleene; assumption. Qed.

Theorem table_strict_null orc t d ctx args vs :
  In d function_table -> fd_strict d = true ->
  pevals orc ctx args = Ok vs -> Forall2 (fun v a => has_type v (ptype a) = true) vs args -> In VNull vs ->
  peval orc ctx (PCall t d args) = Ok VNull.
Proof. intros _. apply strict_null. Qed.

Theorem table_cmp_null orc t d ctx args vs :
  In d function_table -> In (fd_name d) cmp_names ->
  pevals orc ctx args = Ok vs -> Forall2 (fun v a => has_type v (ptype a) = true) vs args -> In VNull vs ->
  peval orc ctx (PCall t d args) = Ok VNull.
Proof. intros Hin Hn. destruct (tbl_cmp orc d Hin Hn). apply strict_null; assumption. Qed.

Theorem table_cmp_non_null orc t d ctx a b x y :
  In d function_table -> In (fd_name d) cmp_names ->
  pevals orc ctx [a; b] = Ok [x; y] -> is_null x = false -> is_null y = false ->
  exists r, peval orc ctx (PCall t d [a; b]) = Ok (VBool r).
Proof. intros Hin Hn. destruct (tbl_cmp orc d Hin Hn). apply cmp_non_null; assumption. Qed.

Theorem table_is_null orc t d ctx a v :
  In d function_table -> fd_name d = "is null" -> peval orc ctx a = Ok v ->
  peval orc ctx (PCall t d [a]) = Ok (VBool (is_null v)).
Proof. intros Hin Hn. destruct (tbl_is_null orc d Hin Hn). apply is_null_total; assumption. Qed.

Theorem table_is_not_null orc t d ctx a v :
  In d function_table -> fd_name d = "is not null" -> peval orc ctx a = Ok v ->
  peval orc ctx (PCall t d [a]) = Ok (VBool (negb (is_null v))).
Proof. intros Hin Hn. destruct (tbl_is_not_null orc d Hin Hn). apply is_not_null_total; assumption. Qed.
