(* Proofs/ValueInd.v — induction principle for the nested inductive [value]. *)
From Octo Require Import Values.

Section ValueInd.
  Variable P : value -> Prop.
  Hypothesis HNull : P VNull.
  Hypothesis HInt : forall z, P (VInt z).
  Hypothesis HFloat : forall b, P (VFloat b).
  Hypothesis HBool : forall b, P (VBool b).
  Hypothesis HStr : forall s, P (VStr s).
  Hypothesis HTime : forall ns loc, P (VTime ns loc).
  Hypothesis HDur : forall z, P (VDur z).
  Hypothesis HList : forall l, Forall P l -> P (VList l).
  Hypothesis HStruct : forall l, Forall P l -> P (VStruct l).
  Hypothesis HTuple : forall l, Forall P l -> P (VTuple l).

  Fixpoint value_ind' (v : value) : P v :=
    let go := fix go (l : list value) : Forall P l :=
      match l with
      | [] => Forall_nil P
      | x :: xs => Forall_cons x (value_ind' x) (go xs)
      end in
    match v with
    | VNull => HNull
    | VInt z => HInt z
    | VFloat b => HFloat b
    | VBool b => HBool b
    | VStr s => HStr s
    | VTime ns loc => HTime ns loc
    | VDur z => HDur z
    | VList l => HList l (go l)
    | VStruct l => HStruct l (go l)
    | VTuple l => HTuple l (go l)
    end.
End ValueInd.
