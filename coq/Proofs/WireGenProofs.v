(* Proofs/WireGenProofs.v — facts about the GENERATED descriptor table (Gen/GenWireFunctions.v, rewritten from
   functions.FunctionMap() on every run).  They are re-checked against what the code declares today. *)
From Octo Require Import Wire WireProofs GenWireFunctions.

(* one obligation per generated row: every earlier descriptor of the same name that passes the four checks of the
   descriptor loop against the stripped row is a TypeFn descriptor with incompatible guards, the row passes the
   checks against itself, its guards cannot index out of range; names are unique *)
Lemma gen_table_ok : table_ok gen_wire_functions = true.
Proof. vm_compute. reflexivity. Qed.

Lemma gen_repopulate : forall name ds i d ats,
  lookup_name gen_wire_functions name = Some ds -> nth_error ds i = Some d -> host_accepts d ats ->
  repopulate gen_wire_functions name (strip d) ats = Ok (Some i, true).
Proof. exact (repopulate_finds_same gen_wire_functions gen_table_ok). Qed.

Lemma gen_predicate : forall e, well_resolved gen_wire_functions e ->
  repop_expr gen_wire_functions (strip_expr e) = Ok (e, true).
Proof. exact (repop_expr_roundtrip gen_wire_functions gen_table_ok). Qed.

Lemma gen_predicate_eval : forall (A : Type) (eval : wexpr -> A) e e' ok,
  well_resolved gen_wire_functions e -> repop_expr gen_wire_functions (strip_expr e) = Ok (e', ok) ->
  ok = true /\ eval e' = eval e.
Proof. intros A eval e e' ok H H1. rewrite (gen_predicate e H) in H1. inversion H1. subst. auto. Qed.

Lemma gen_sound : forall name recv ats i ok,
  repopulate gen_wire_functions name recv ats = Ok (Some i, ok) ->
  ok = true /\ exists ds d, lookup_name gen_wire_functions name = Some ds /\ nth_error ds i = Some d /\
                            sig_match d recv = true /\ host_accepts d ats.
Proof.
  intros name recv ats i ok H. unfold repopulate in H.
  destruct (lookup_name gen_wire_functions name) as [ds|] eqn:El; [|discriminate].
  destruct (repop_find ds recv ats 0) as [[j|]| |] eqn:Ef; try discriminate; simpl in H; inversion H; subst.
  split; [reflexivity|].
  destruct (repop_find_sound _ _ _ _ _ Ef) as [d [A [_ [C D]]]]. rewrite Nat.sub_0_r in A. eauto 8.
Qed.

(* the four names whose later TypeFn descriptors the pinned rule cannot reach: in, not in, len (x2) *)
Definition name_in : list Z := [105; 110].
Definition name_len : list Z := [108; 101; 110].

Lemma pinned_resolves_in_tuple_to_in_list :
  exists name ds i d ats,
    lookup_name gen_wire_functions name = Some ds /\ nth_error ds i = Some d /\ host_accepts d ats /\
    exists j, repopulate_pinned gen_wire_functions name (strip d) = (Some j, true) /\ j <> i.
Proof.
  exists name_in. eexists. exists 1%nat. eexists. exists [WInt; WTuple [WInt; WInt; WInt]].
  split; [vm_compute; reflexivity|]. split; [vm_compute; reflexivity|]. split; [vm_compute; reflexivity|].
  exists 0%nat. split; [vm_compute; reflexivity|discriminate].
Qed.

Lemma pinned_accepts_unknown_signature :
  exists name ds sg,
    lookup_name gen_wire_functions name = Some ds /\ (forall d, In d ds -> sig_match d sg = false) /\
    repopulate_pinned gen_wire_functions name sg = (None, true).
Proof.
  exists name_len. eexists. exists (mkwsig [WDur] WInt true).
  split; [vm_compute; reflexivity|]. split; [|vm_compute; reflexivity].
  intros d Hd. vm_compute in Hd. repeat (destruct Hd as [<-|Hd]; [vm_compute; reflexivity|]). destruct Hd.
Qed.

(* x IN (1, 2, 3) as the host resolves it *)
Definition sample_in_tuple : wexpr :=
  XCall WBool name_in (mkwsig [] WNull true) (Some 1%nat)
        [XConst WInt (VInt 1); XConst (WTuple [WInt; WInt; WInt]) (VTuple [VInt 1; VInt 2; VInt 3])].

Lemma sample_in_tuple_well_resolved : well_resolved gen_wire_functions sample_in_tuple.
Proof.
  unfold sample_in_tuple.
  change (mkwsig [] WNull true) with (strip (mkwdesc [] WNull (Some [CLen 2; CTid 1 9]) true)).
  eapply WR_call.
  - vm_compute. reflexivity.
  - vm_compute. reflexivity.
  - vm_compute. reflexivity.
  - repeat constructor.
Qed.

Lemma pinned_predicate_changes :
  exists e, well_resolved gen_wire_functions e /\
            repop_expr_pinned gen_wire_functions (strip_expr e) <> Ok (e, true).
Proof.
  exists sample_in_tuple. split; [exact sample_in_tuple_well_resolved|]. vm_compute. discriminate.
Qed.
