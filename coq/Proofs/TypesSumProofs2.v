(* Proofs/TypesSumProofs2.v — TypeSum is an upper bound whenever its computation meets no struct merge with
   different / unsorted field-name lists and no tuple merge of different arities (sum_clash = false). *)
From Coq Require Import Sorted.
From Octo Require Import CompareLaws Types TypesClash TypesIsProofs TypesSumFuel TypesTransProofs TypesSumProofs.

(* ---- field names: strictly ascending lists ---- *)
Definition SortedLt (l : list (list Z)) : Prop := StronglySorted (fun a b => bytes_lt a b = true) l.

Lemma bytes_lt_trans : forall a b c, bytes_lt a b = true -> bytes_lt b c = true -> bytes_lt a c = true.
Proof.
  unfold bytes_lt. intros a b c H1 H2. apply Z.eqb_eq in H1. apply Z.eqb_eq in H2. apply Z.eqb_eq.
  apply (cl_trans _ _ (bytes_cmp_laws a) b c H1 H2).
Qed.
Lemma bytes_lt_irrefl : forall a, bytes_lt a a = false.
Proof. intro a. unfold bytes_lt. rewrite (cl_refl _ _ (bytes_cmp_laws a)). reflexivity. Qed.
Lemma bytes_lt_gt : forall a b, bytes_lt a b = true -> bytes_cmp b a = 1.
Proof. unfold bytes_lt. intros a b H. apply Z.eqb_eq in H. rewrite (cl_anti _ _ (bytes_cmp_laws a) b), H. reflexivity. Qed.
Lemma bytes_lt_neqb : forall a b, bytes_lt a b = true -> bytes_eqb b a = false.
Proof.
  intros a b H. destruct (bytes_eqb b a) eqn:E; [|reflexivity]. apply bytes_eqb_eq in E. subst.
  rewrite bytes_lt_irrefl in H. discriminate.
Qed.

Lemma ascending_sorted : forall l, names_ascending l = true -> SortedLt l.
Proof.
  induction l as [|x l IH]; intro H; [constructor|]. destruct l as [|y l]; [constructor; constructor|].
  simpl in H. apply andb_true_iff in H. destruct H as [Hxy Hr]. specialize (IH Hr).
  constructor; [exact IH|]. constructor; [exact Hxy|].
  inversion IH as [|? ? _ Fy]; subst. rewrite Forall_forall in *. intros z Hz. apply (bytes_lt_trans x y z Hxy). apply Fy. exact Hz.
Qed.

Lemma insert_name_append : forall n l, (forall m, In m l -> bytes_lt m n = true) -> insert_name n l = l ++ [n].
Proof.
  induction l as [|m l IH]; intro H; [reflexivity|]. simpl.
  rewrite (bytes_lt_gt m n (H m (or_introl eq_refl))). simpl. rewrite IH; [reflexivity|]. intros k Hk. apply H. right. exact Hk.
Qed.
Lemma insert_name_present : forall n l, SortedLt l -> In n l -> insert_name n l = l.
Proof.
  induction l as [|m l IH]; intros S H; [destruct H|]. inversion S as [|? ? Sl Fm]; subst. simpl. destruct H as [H|H].
  - subst. rewrite (cl_refl _ _ (bytes_cmp_laws n)). reflexivity.
  - rewrite Forall_forall in Fm. rewrite (bytes_lt_gt m n (Fm n H)). simpl. rewrite (IH Sl H). reflexivity.
Qed.
Lemma fold_insert_build : forall N, SortedLt N -> forall pre, (forall p n, In p pre -> In n N -> bytes_lt p n = true) ->
  fold_left (fun acc n => insert_name n acc) N pre = pre ++ N.
Proof.
  induction 1 as [|n N SN IH Fn]; intros pre H; [rewrite app_nil_r; reflexivity|]. simpl.
  rewrite insert_name_append by (intros m Hm; apply (H m n Hm); left; reflexivity).
  rewrite IH; [rewrite <- app_assoc; reflexivity|].
  intros p k Hp Hk. apply in_app_or in Hp. destruct Hp as [Hp|[Hp|[]]]; [apply (H p k Hp); right; exact Hk|].
  subst. rewrite Forall_forall in Fn. apply Fn. exact Hk.
Qed.
Lemma fold_insert_again : forall L, SortedLt L -> forall N, (forall n, In n N -> In n L) ->
  fold_left (fun acc n => insert_name n acc) N L = L.
Proof.
  intros L S. induction N as [|n N IH]; intro H; [reflexivity|]. simpl.
  rewrite insert_name_present; [apply IH; intros k Hk; apply H; right; exact Hk | exact S | apply H; left; reflexivity].
Qed.

Lemma merged_names_same : forall f1 f2, map fst f1 = map fst f2 -> SortedLt (map fst f1) -> merged_names f1 f2 = map fst f1.
Proof.
  intros f1 f2 E S. unfold merged_names. rewrite <- E, fold_left_app.
  rewrite (fold_insert_build (map fst f1) S []) by (intros p n []). simpl.
  apply fold_insert_again; [exact S | auto].
Qed.

Lemma lookup_last_notin : forall n fs, (forall m, In m (map fst fs) -> bytes_eqb m n = false) -> lookup_last n fs = None.
Proof.
  induction fs as [|[m t] fs IH]; intro H; [reflexivity|]. simpl. rewrite IH by (intros k Hk; apply H; right; exact Hk).
  rewrite (H m (or_introl eq_refl)). reflexivity.
Qed.
Lemma lookup_last_head : forall n x r, SortedLt (n :: map fst r) -> lookup_last n ((n, x) :: r) = Some x.
Proof.
  intros n x r S. inversion S as [|? ? _ F]; subst. simpl. rewrite lookup_last_notin.
  - rewrite bytes_eqb_refl. reflexivity.
  - intros m Hm. rewrite Forall_forall in F. apply bytes_lt_neqb. apply F. exact Hm.
Qed.
Lemma lookup_last_tail : forall n' n x r, In n' (map fst r) -> lookup_last n' ((n, x) :: r) = lookup_last n' r.
Proof.
  intros n' n x r H. simpl. destruct (lookup_last n' r) eqn:E; [reflexivity|]. exfalso. apply (lookup_last_in n' r H E).
Qed.

Section Aligned.
  Variable rec : ty -> ty -> outcome ty.

  Definition field_sum (f1 f2 : list (list Z * ty)) (n : list Z) : outcome (list Z * ty) :=
    match lookup_last n f1, lookup_last n f2 with
    | Some x, Some y => obind (rec x y) (fun s => Ok (n, s))
    | Some x, None => obind (rec x TNull) (fun s => Ok (n, s))
    | None, Some y => obind (rec y TNull) (fun s => Ok (n, s))
    | None, None => Panic 1
    end.
  Fixpoint zip_fields (f1 f2 : list (list Z * ty)) : list (outcome (list Z * ty)) :=
    match f1, f2 with
    | (n, x) :: r1, (_, y) :: r2 => obind (rec x y) (fun s => Ok (n, s)) :: zip_fields r1 r2
    | _, _ => []
    end.

  Lemma fields_aligned : forall f1 f2, map fst f1 = map fst f2 -> SortedLt (map fst f1) ->
    map (field_sum f1 f2) (map fst f1) = zip_fields f1 f2.
  Proof.
    induction f1 as [|[n x] r1 IH]; intros [|[m y] r2] E S; simpl in E; try discriminate; [reflexivity|].
    inversion E; subst m. simpl in S. simpl map. simpl zip_fields. f_equal.
    - unfold field_sum. rewrite (lookup_last_head n x r1 S). rewrite H1 in S. rewrite (lookup_last_head n y r2 S). reflexivity.
    - inversion S as [|? ? S' _]; subst. rewrite <- (IH r2 H1 S'). apply map_ext_in. intros n' Hn'. unfold field_sum.
      rewrite (lookup_last_tail n' n x r1 Hn'). rewrite H1 in Hn'. rewrite (lookup_last_tail n' n y r2 Hn'). reflexivity.
  Qed.

  Lemma struct_merge_aligned : forall f1 f2, struct_shapes_ok f1 f2 = true ->
    struct_merge rec f1 f2 = obind (outcome_all (zip_fields f1 f2)) (fun fs => Ok (TStruct fs)).
  Proof.
    intros f1 f2 H. unfold struct_shapes_ok in H. apply andb_true_iff in H. destruct H as [E A].
    assert (E' : map fst f1 = map fst f2).
    { clear A. revert E. generalize (map fst f1) (map fst f2). induction l as [|a l IH]; intros [|b l'] H; simpl in H; try discriminate; [reflexivity|].
      apply andb_true_iff in H. destruct H as [H1 H2]. apply bytes_eqb_eq in H1. subst. f_equal. apply IH. exact H2. }
    pose proof (ascending_sorted _ A) as S. unfold struct_merge.
    rewrite (merged_names_same f1 f2 E' S). change (fun n => match lookup_last n f1 with | Some x => _ | None => _ end) with (field_sum f1 f2).
    rewrite (fields_aligned f1 f2 E' S). reflexivity.
  Qed.
End Aligned.

Lemma shapes_ok_names : forall f1 f2, struct_shapes_ok f1 f2 = true -> map fst f1 = map fst f2.
Proof.
  intros f1 f2 H. unfold struct_shapes_ok in H. apply andb_true_iff in H. destruct H as [E _]. revert E.
  generalize (map fst f1) (map fst f2). induction l as [|p l IH]; intros [|q l'] Hq; simpl in Hq; try discriminate; [reflexivity|].
  apply andb_true_iff in Hq. destruct Hq as [Q1 Q2]. apply bytes_eqb_eq in Q1. subst. f_equal. apply IH. exact Q2.
Qed.

Definition upper2 (a b r : ty) : Prop := is_rel a r = Is /\ is_rel b r = Is.

Lemma upper2_union_of : forall a b l, (forall x, In x l <-> x = a \/ x = b) -> upper2 a b (TUnion l).
Proof.
  intros a b l H. split.
  - apply (is_in_union a l a); [apply H; auto | apply is_refl].
  - apply (is_in_union b l b); [apply H; auto | apply is_refl].
Qed.

Section LevelUp2.
  Variable rec : ty -> ty -> outcome ty.
  Variable recc : ty -> ty -> bool.
  Hypothesis Hrec : forall x y r, rec x y = Ok r -> recc x y = false -> upper2 x y r.

  Lemma zip_fields_up : forall f1 f2 fs, map fst f1 = map fst f2 ->
    outcome_all (zip_fields rec f1 f2) = Ok fs -> fields_clash recc f1 f2 = false ->
    fields_rel f1 fs = Is /\ fields_rel f2 fs = Is.
  Proof.
    induction f1 as [|[n x] r1 IH]; intros [|[m y] r2] fs E H C; simpl in E; try discriminate.
    - simpl in H. inversion H; subst. split; reflexivity.
    - injection E as En Er. subst m. simpl in H, C. apply orb_false_iff in C. destruct C as [C1 C2].
      destruct (rec x y) as [s| |] eqn:Es; simpl in H; try discriminate H.
      destruct (outcome_all (zip_fields rec r1 r2)) as [fs'| |] eqn:Ef; simpl in H; try discriminate H. inversion H; subst.
      destruct (Hrec x y s Es C1) as [R1 R2]. destruct (IH r2 fs' Er Ef C2) as [I1 I2].
      simpl. rewrite bytes_eqb_refl, R1, R2. simpl. split; assumption.
  Qed.

  Lemma tuple_merge_up : forall l2 l1 es, length l1 = length l2 ->
    tuple_merge rec l2 l1 = Ok es -> elems_clash recc l2 l1 = false ->
    elems_rel l1 es = Is /\ elems_rel l2 es = Is.
  Proof.
    induction l2 as [|y l2 IH]; intros [|x l1] es L H C; simpl in L; try discriminate.
    - simpl in H. inversion H; subst. split; reflexivity.
    - simpl in H, C. apply orb_false_iff in C. destruct C as [C1 C2].
      destruct (rec y x) as [s| |] eqn:Es; simpl in H; try discriminate H.
      destruct (tuple_merge rec l2 l1) as [es'| |] eqn:Et; simpl in H; try discriminate H. inversion H; subst.
      destruct (Hrec y x s Es C1) as [H1 H2]. destruct (IH l1 es' ltac:(lia) Et C2) as [I1 I2].
      simpl. rewrite H1, H2. simpl. split; assumption.
  Qed.

  Lemma sum_flat_up2 : forall a b r, sum_flat rec a b = Ok r -> clash_flat recc a b = false -> upper2 a b r.
  Proof.
    intros a b r H C. unfold sum_flat in H. unfold clash_flat in C.
    destruct (is_rel a b) eqn:Eab; cbv beta iota delta [is_Is] in H, C;
      try (inversion H; subst; split; [exact Eab | apply is_refl]).
    all: destruct (is_rel b a) eqn:Eba; cbv beta iota delta [is_Is] in H, C;
      try (inversion H; subst; split; [apply is_refl | exact Eba]).
    all: destruct a as [ | | | | | | |[x|]|f1|l1|alts1| ], b as [ | | | | | | |[y|]|f2|l2|alts2| ];
      try (inversion H; subst; apply upper2_union_of; intro z; rewrite sort_in; simpl; intuition);
      try (inversion H; subst; split; first [apply is_refl | reflexivity]).
    all: try (destruct (rec x y) as [s| |] eqn:E; simpl in H; try discriminate H; inversion H; subst;
              destruct (Hrec x y s E C) as [H1 H2]; split; simpl; [rewrite H1 | rewrite H2]; reflexivity).
    all: apply orb_false_iff in C; destruct C as [C1 C2]; apply negb_false_iff in C1.
    all: match goal with
         | |- upper2 (TStruct _) _ _ =>
             rewrite (struct_merge_aligned rec f1 f2 C1) in H;
             destruct (outcome_all (zip_fields rec f1 f2)) as [fs| |] eqn:Ef; simpl in H; try discriminate H; inversion H; subst;
             destruct (zip_fields_up f1 f2 fs (shapes_ok_names f1 f2 C1) Ef C2) as [I1 I2]; split; rewrite is_rel_struct; assumption
         | |- upper2 (TTuple _) _ _ =>
             apply Nat.eqb_eq in C1; rewrite C1, Nat.ltb_irrefl in H;
             destruct (tuple_merge rec l2 l1) as [es| |] eqn:Et; simpl in H; try discriminate H; inversion H; subst;
             destruct (tuple_merge_up l2 l1 es C1 Et C2) as [I1 I2]; split; rewrite is_rel_tuple; assumption
         end.
  Qed.

  Lemma replace_first_up2 : forall alts b l,
    replace_first_tid rec alts b = Some (Ok l) -> clash_first_tid recc alts b = false ->
    (forall a, In a alts -> exists a', In a' l /\ is_rel a a' = Is) /\
    (exists b', In b' l /\ is_rel b b' = Is).
  Proof.
    induction alts as [|a alts IH]; intros b l H C; simpl in H, C; [discriminate|].
    destruct (tyid a =? tyid b).
    - destruct (sum_flat rec a b) as [s| |] eqn:E; simpl in H; try discriminate H. inversion H; subst.
      destruct (sum_flat_up2 a b s E C) as [H1 H2]. split.
      + intros a0 [Ha|Ha]; [subst; exists s; split; [left; reflexivity | exact H1] | exists a0; split; [right; exact Ha | apply is_refl]].
      + exists s. split; [left; reflexivity | exact H2].
    - destruct (replace_first_tid rec alts b) as [o|] eqn:E; [|discriminate].
      destruct o as [l'| |]; simpl in H; try discriminate H. inversion H; subst.
      destruct (IH b l' E C) as [S2 [b' [Hb' Eb']]]. split.
      + intros a0 [Ha|Ha]; [subst; exists a0; split; [left; reflexivity | apply is_refl]|].
        destruct (S2 a0 Ha) as [a' [Ha' Ea']]. exists a'. split; [right; exact Ha' | exact Ea'].
      + exists b'. split; [right; exact Hb' | exact Eb'].
  Qed.

  Lemma sum_union_single_up2 : forall alts b r,
    sum_union_single rec alts b = Ok r -> clash_first_tid recc alts b = false -> upper2 (TUnion alts) b r.
  Proof.
    intros alts b r H C. unfold sum_union_single in H.
    destruct (replace_first_tid rec alts b) as [o|] eqn:E.
    - destruct o as [l| |]; simpl in H; try discriminate H. inversion H; subst.
      destruct (replace_first_up2 alts b l E C) as [S2 [b' [Hb' Eb']]]. split.
      + apply is_rel_union_l_Is. intros a Ha. destruct (S2 a Ha) as [a' [Ha' Ea']]. apply (is_in_union a l a' Ha' Ea').
      + apply (is_in_union b l b' Hb' Eb').
    - inversion H; subst. split.
      + apply is_rel_union_l_Is. intros a Ha. apply (is_in_union a _ a); [apply (proj2 (sort_in _ _)); apply in_or_app; left; exact Ha | apply is_refl].
      + apply (is_in_union b _ b); [apply (proj2 (sort_in _ _)); apply in_or_app; right; left; reflexivity | apply is_refl].
  Qed.

  Lemma clash_level_eq : forall a b,
    clash_level rec recc a b =
    if is_Is (is_rel a b) then false else if is_Is (is_rel b a) then false
    else match b with
         | TUnion alts2 =>
             match a with
             | TUnion alts1 =>
                 (fix fold (l : list ty) (out : outcome ty) : bool :=
                    match l with
                    | [] => false
                    | bk :: rest => match out with
                                    | Ok o => clash_level rec recc o bk || fold rest (type_sum_level rec o bk)
                                    | _ => true
                                    end
                    end) alts2 (Ok (TUnion alts1))
             | _ => clash_first_tid recc alts2 a
             end
         | _ => match a with TUnion alts1 => clash_first_tid recc alts1 b | _ => clash_flat recc a b end
         end.
  Proof. intros a b. destruct b; reflexivity. Qed.

  Lemma type_sum_level_up2 : forall b a r,
    type_sum_level rec a b = Ok r -> clash_level rec recc a b = false -> upper2 a b r.
  Proof.
    induction b as [ | | | | | | | |e IHe|fs IH|es IH|alts2 IH| ] using ty_ind'; intros a r H C;
      rewrite type_sum_level_eq in H; rewrite clash_level_eq in C;
      (match type of H with context [is_Is (is_rel a ?b)] => destruct (is_rel a b) eqn:Eab; destruct (is_rel b a) eqn:Eba end;
       cbv beta iota delta [is_Is] in H, C;
       try (inversion H; subst; split; [exact Eab | apply is_refl]);
       try (inversion H; subst; split; [apply is_refl | exact Eba])).
    all: destruct a as [ | | | | | | | e1 | fs1 | es1 | alts1 | ];
      try (apply sum_flat_up2; assumption);
      try (apply sum_union_single_up2; assumption);
      try (destruct (sum_union_single_up2 alts2 _ r H C) as [H1 H2]; split; assumption).
    (* both unions *)
    all: assert (G : forall l o r, (forall x, In x l -> In x alts2) ->
          (fix fold (l : list ty) (out : outcome ty) : outcome ty :=
             match l with [] => out | bk :: rest => fold rest (obind out (fun o => type_sum_level rec o bk)) end) l (Ok o) = Ok r ->
          (fix fold (l : list ty) (out : outcome ty) : bool :=
             match l with
             | [] => false
             | bk :: rest => match out with
                             | Ok o => clash_level rec recc o bk || fold rest (type_sum_level rec o bk)
                             | _ => true
                             end
             end) l (Ok o) = false ->
          is_rel o r = Is /\ (forall x, In x l -> is_rel x r = Is));
      [ induction l as [|bk l IHl]; intros o r0 Hl Hf Cf;
        [ inversion Hf; subst; split; [apply is_refl | intros x []]
        | simpl in Hf; apply orb_false_iff in Cf; destruct Cf as [Cf1 Cf2];
          destruct (type_sum_level rec o bk) as [o'| |] eqn:Eo;
          [ rewrite Forall_forall in IH;
            destruct (IH bk (Hl bk (or_introl eq_refl)) o o' Eo Cf1) as [H1 H2];
            destruct (IHl o' r0 (fun x Hx => Hl x (or_intror Hx)) Hf Cf2) as [H3 H4];
            split; [apply (is_trans o o' r0 H1 H3) | intros x [Hx|Hx]; [subst; apply (is_trans x o' r0 H2 H3) | apply H4; exact Hx]]
          | exfalso; revert Hf; apply fold_not_ok; intros; discriminate
          | exfalso; revert Hf; apply fold_not_ok; intros; discriminate ] ]
      | destruct (G alts2 (TUnion alts1) r (fun x Hx => Hx) H C) as [H1 H2];
        split; [exact H1 | apply is_rel_union_l_Is; exact H2] ].
  Qed.
End LevelUp2.

Theorem sum_upper_noclash_gen : forall f a b r, type_sum f a b = Ok r -> sum_clash_f f a b = false -> upper2 a b r.
Proof.
  induction f as [|f IH]; intros a b r H C; [discriminate H|].
  simpl in H, C. apply (type_sum_level_up2 (type_sum f) (sum_clash_f f) IH b a r H C).
Qed.

(* TypeSum(a,b) is an upper bound of a and b for every pair of types outside the finding's class *)
Theorem sum_upper : forall a b, sum_clash a b = false ->
  exists s, tsum a b = Ok s /\ is_rel a s = Is /\ is_rel b s = Is.
Proof.
  intros a b C. destruct (sum_fuel_enough a b) as [s [E _]]. exists s. split; [exact E|].
  apply (sum_upper_noclash_gen _ a b s E C).
Qed.
