(* Proofs/StringFnsProofs.v — lemmas for C12 (Model/Strings.v, Model/StringFns.v). *)
From Octo Require Import StringFns GenLike.
Open Scope Z_scope.

(* =========================== LIKE =========================== *)

Definition omap {A B} (f : A -> B) (o : outcome A) : outcome B :=
  match o with Ok a => Ok (f a) | Err e => Err e | Panic x => Panic x end.

Section Like.
  Variable ne : Z -> bool.
  Hypothesis ne_escapable : forall c, ne c = true -> escapable c = true.
  Hypothesis meta_ne : forall c, is_meta c = true -> c <> 92 -> ne c = true.

  (* what the loop writes for one token of the pattern *)
  Definition emit (t : ltok) : list Z :=
    match t with
    | LAny => [46]
    | LAll => [46; 42]
    | LLit c => if c =? 92 then [92; 92]
                else if (c =? 95) || (c =? 37) then [c]
                else if ne c then [92; c] else [c]
    end.

  Lemma like_loop_parse : forall p esc,
    like_loop ne esc p = omap (fun l => flat_map emit l ++ [36]) (like_parse esc p).
  Proof.
    induction p as [|r t IH]; intros esc; simpl.
    - destruct esc; reflexivity.
    - destruct esc.
      + destruct (r =? 95) eqn:E1; simpl.
        { rewrite IH. destruct (like_parse false t); simpl; try reflexivity.
          apply Z.eqb_eq in E1; subst r. reflexivity. }
        destruct (r =? 37) eqn:E2; simpl.
        { rewrite IH. destruct (like_parse false t); simpl; try reflexivity.
          apply Z.eqb_eq in E2; subst r. reflexivity. }
        destruct (r =? 92) eqn:E3; simpl.
        { rewrite IH. destruct (like_parse false t); simpl; try reflexivity.
          rewrite E3. apply Z.eqb_eq in E3; subst r. reflexivity. }
        reflexivity.
      + destruct (r =? 92) eqn:E3; [apply IH|].
        destruct (r =? 95) eqn:E1.
        { rewrite IH. destruct (like_parse false t); reflexivity. }
        destruct (r =? 37) eqn:E2.
        { rewrite IH. destruct (like_parse false t); reflexivity. }
        destruct (ne r) eqn:En; rewrite IH; destruct (like_parse false t); simpl; try reflexivity;
          rewrite E3, E1, E2, En; reflexivity.
  Qed.

  Definition ktoks (t : ltok) : list rtok :=
    match t with LAny => [KDot] | LAll => [KDot; KStar] | LLit c => [KLit c] end.

  Lemma not_meta_plain : forall c rest, is_meta c = false ->
    re_tokenise (c :: rest) = fmap (cons (KLit c)) (re_tokenise rest).
  Proof.
    intros c rest H. unfold is_meta, go_regexp_meta in H. simpl in H.
    repeat (apply orb_false_iff in H; destruct H as [? H]).
    simpl. unfold is_meta, go_regexp_meta. simpl.
    repeat match goal with E : (c =? _) = false |- _ => rewrite E; clear E end.
    reflexivity.
  Qed.

  Lemma tokenise_emit : forall t rest,
    re_tokenise (emit t ++ rest) = fmap (app (ktoks t)) (re_tokenise rest).
  Proof.
    intros [| |c] rest.
    - simpl. destruct (re_tokenise rest); reflexivity.
    - simpl. destruct (re_tokenise rest); reflexivity.
    - unfold emit. destruct (c =? 92) eqn:E3.
      { apply Z.eqb_eq in E3; subst c. simpl. destruct (re_tokenise rest); reflexivity. }
      destruct ((c =? 95) || (c =? 37)) eqn:E12.
      { apply orb_true_iff in E12. destruct E12 as [E|E]; apply Z.eqb_eq in E; subst c; simpl;
          destruct (re_tokenise rest); reflexivity. }
      destruct (ne c) eqn:En.
      + apply ne_escapable in En.
        change ([92; c] ++ rest) with (92 :: c :: rest).
        simpl. rewrite En. destruct (re_tokenise rest); reflexivity.
      + assert (Hm : is_meta c = false).
        { destruct (is_meta c) eqn:Hm; [|reflexivity].
          rewrite meta_ne in En; [discriminate|exact Hm|]. intro; subst c. discriminate. }
        change ([c] ++ rest) with (c :: rest). rewrite (not_meta_plain _ _ Hm).
        destruct (re_tokenise rest); reflexivity.
  Qed.

  Lemma tokenise_body : forall l,
    re_tokenise (flat_map emit l ++ [36]) = FOk (flat_map ktoks l ++ [KEol]).
  Proof.
    induction l as [|t l IH]; [reflexivity|].
    simpl. rewrite <- app_assoc, tokenise_emit, IH. simpl. rewrite <- app_assoc. reflexivity.
  Qed.

  Definition litems (t : ltok) : list item :=
    match t with LAny => [IChar CDot] | LAll => [IStar CDot] | LLit c => [IChar (CLit c)] end.

  Definition hd_not_star (ts : list rtok) : Prop := match ts with KStar :: _ => False | _ => True end.

  Lemma hd_body : forall l, hd_not_star (flat_map ktoks l ++ [KEol]).
  Proof. intros [|[| |c] l]; simpl; exact I. Qed.

  Lemma items_body : forall l,
    re_items (flat_map ktoks l ++ [KEol]) = FOk [flat_map litems l ++ [IEol]].
  Proof.
    induction l as [|t l IH]; [reflexivity|].
    pose proof (hd_body l) as Hh.
    destruct t as [| |c]; simpl; simpl in IH;
      destruct (flat_map ktoks l ++ [KEol]) as [|[] r] eqn:E; simpl in Hh; try contradiction;
      try (rewrite IH; reflexivity).
  Qed.

  Definition fl_s : re_flags := mk_flags true false.

  Lemma compile_like : forall l,
    re_compile (like_opening ++ flat_map emit l ++ [36]) =
    FOk (mk_regex fl_s [IBol :: flat_map litems l ++ [IEol]]).
  Proof.
    intros l. unfold re_compile, like_opening. simpl app.
    change (re_split_flags (40 :: 63 :: 115 :: 41 :: 94 :: flat_map emit l ++ [36]))
      with (fl_s, 94 :: flat_map emit l ++ [36]).
    cbv iota beta.
    change (re_tokenise (94 :: flat_map emit l ++ [36]))
      with (fmap (cons KBol) (re_tokenise (flat_map emit l ++ [36]))).
    rewrite tokenise_body. simpl fmap.
    pose proof (hd_body l) as Hh. pose proof (items_body l) as Hi.
    simpl. destruct (flat_map ktoks l ++ [KEol]) as [|[] r] eqn:E; simpl in Hh; try contradiction;
      rewrite Hi; reflexivity.
  Qed.

  Lemma seq_match_like : forall l b s,
    seq_match fl_s (flat_map litems l ++ [IEol]) b s = like_match l s.
  Proof.
    induction l as [|t l IH]; intros b s.
    - simpl. destruct s; reflexivity.
    - destruct t as [| |c]; simpl.
      + destruct s as [|x s']; [reflexivity|]. apply IH.
      + revert b. induction s as [|x s' IHs]; intros b.
        * rewrite IH. reflexivity.
        * rewrite IH. simpl. f_equal. apply IHs.
      + destruct s as [|x s']; [reflexivity|]. rewrite IH. reflexivity.
  Qed.

  Lemma search_bol_false : forall fl r s, re_search_from (mk_regex fl [IBol :: r]) false s = false.
  Proof. induction s as [|x s IH]; simpl; [reflexivity|]. exact IH. Qed.

  Lemma search_like : forall l s,
    re_search (mk_regex fl_s [IBol :: flat_map litems l ++ [IEol]]) s = like_match l s.
  Proof.
    intros l s. unfold re_search. destruct s as [|x s']; simpl.
    - rewrite (seq_match_like l true []). destruct (like_match l []); reflexivity.
    - rewrite search_bol_false. rewrite (seq_match_like l true (x :: s')).
      destruct (like_match l (x :: s')); reflexivity.
  Qed.

  Lemma like_impl_gen_spec : forall s p, like_impl_gen ne like_opening s p = like_spec s p.
  Proof.
    intros s p. unfold like_impl_gen, like_spec. rewrite like_loop_parse.
    destruct (like_parse false (decode p)) as [l|e|x]; [|reflexivity|reflexivity].
    unfold omap, obind, frag_match. rewrite compile_like.
    change (fold_modelled (mk_regex fl_s [IBol :: flat_map litems l ++ [IEol]]) (decode s)) with true.
    cbv iota. unfold frag_outcome. rewrite search_like. reflexivity.
  Qed.
End Like.

(* the two facts about the generated needsEscaping set, by computation on the set *)
Lemma gen_set_escapable : forallb escapable needs_escaping_set = true.
Proof. vm_compute. reflexivity. Qed.
Lemma gen_set_covers_meta : forallb (fun m => (m =? 92) || needs_escaping m) go_regexp_meta = true.
Proof. vm_compute. reflexivity. Qed.

Lemma existsb_eqb_In : forall c l, existsb (Z.eqb c) l = true <-> In c l.
Proof.
  intros c l. rewrite existsb_exists. split.
  - intros [x [Hin E]]. apply Z.eqb_eq in E. subst. exact Hin.
  - intros H. exists c. split; [exact H|apply Z.eqb_refl].
Qed.

Lemma ne_gen_escapable : forall c, needs_escaping c = true -> escapable c = true.
Proof.
  intros c H. apply existsb_eqb_In in H.
  exact (proj1 (forallb_forall _ _) gen_set_escapable c H).
Qed.
Lemma meta_ne_gen : forall c, is_meta c = true -> c <> 92 -> needs_escaping c = true.
Proof.
  intros c H Hc. apply existsb_eqb_In in H.
  pose proof (proj1 (forallb_forall _ _) gen_set_covers_meta c H) as Hx. simpl in Hx.
  apply orb_true_iff in Hx. destruct Hx as [E|E]; [apply Z.eqb_eq in E; contradiction|exact E].
Qed.

Theorem like_impl_is_spec : forall s p, like_impl s p = like_spec s p.
Proof. exact (like_impl_gen_spec needs_escaping ne_gen_escapable meta_ne_gen). Qed.

Theorem like_escapes : forall c, In c go_regexp_meta -> c <> 92 -> In c needs_escaping_set.
Proof.
  intros c H Hc. apply existsb_eqb_In. apply meta_ne_gen; [apply existsb_eqb_In; exact H|exact Hc].
Qed.
Theorem like_escapes_legal : forall c, In c needs_escaping_set -> escapable c = true.
Proof. intros c H. apply ne_gen_escapable. apply existsb_eqb_In. exact H. Qed.

(* like_match is the declarative relation *)
Lemma like_skip_sound : forall l s,
  (fix skip (s : list Z) : bool := like_match l s || match s with _ :: s' => skip s' | [] => false end) s = true ->
  exists run s0, s = run ++ s0 /\ like_match l s0 = true.
Proof.
  intros l. induction s as [|x s IH]; intros H.
  - exists [], []. split; [reflexivity|]. apply orb_true_iff in H. destruct H as [H|H]; [exact H|discriminate].
  - apply orb_true_iff in H. destruct H as [H|H].
    + exists [], (x :: s). split; [reflexivity|exact H].
    + destruct (IH H) as [run [s0 [E Hm]]]. exists (x :: run), s0. split; [simpl; f_equal; exact E|exact Hm].
Qed.
Lemma like_skip_complete : forall l run s0, like_match l s0 = true ->
  (fix skip (s : list Z) : bool := like_match l s || match s with _ :: s' => skip s' | [] => false end) (run ++ s0) = true.
Proof.
  intros l run s0 H. induction run as [|x run IH]; simpl.
  - destruct s0; rewrite H; reflexivity.
  - rewrite IH. apply orb_true_r.
Qed.

Theorem like_match_iff : forall l s, like_match l s = true <-> LikeMatches l s.
Proof.
  split.
  - revert s. induction l as [|t l IH]; intros s H.
    + destruct s; [constructor|discriminate].
    + destruct t as [| |c]; simpl in H.
      * destruct s as [|x s]; [discriminate|]. constructor. apply IH. exact H.
      * apply like_skip_sound in H. destruct H as [run [s0 [E Hm]]]. subst s. constructor. apply IH. exact Hm.
      * destruct s as [|x s]; [discriminate|]. apply andb_true_iff in H. destruct H as [E H].
        apply Z.eqb_eq in E. subst x. constructor. apply IH. exact H.
  - intros H. induction H; simpl.
    + reflexivity.
    + exact IHLikeMatches.
    + rewrite Z.eqb_refl. exact IHLikeMatches.
    + apply like_skip_complete. exact IHLikeMatches.
Qed.

(* pinned tree: three witnesses *)
Lemma like_pinned_bar : like_impl_pinned [97; 120] [97; 124; 98] <> like_spec [97; 120] [97; 124; 98].
Proof. vm_compute. discriminate. Qed.
Lemma like_pinned_star : like_impl_pinned [97; 42; 98] [97; 42; 98] <> like_spec [97; 42; 98] [97; 42; 98].
Proof. vm_compute. discriminate. Qed.
Lemma like_pinned_newline : like_impl_pinned [10] [95] <> like_spec [10] [95].
Proof. vm_compute. discriminate. Qed.
Lemma like_pinned_set : In 42 go_regexp_meta /\ 42 <> 92 /\ ~ In 42 needs_escaping_set_pinned.
Proof.
  split; [vm_compute; tauto|]. split; [discriminate|].
  intros H. apply existsb_eqb_In in H. vm_compute in H. discriminate.
Qed.

(* =========================== reverse =========================== *)
Lemma set_nth_repeat : forall m x y tl, set_nth m x (repeat y (S m) ++ tl) = Some (repeat y m ++ x :: tl).
Proof.
  induction m as [|m IH]; intros x y tl; [reflexivity|].
  simpl. simpl in IH. rewrite IH. reflexivity.
Qed.

Lemma fill_reversed_rev : forall todo done n, n = (length done + length todo)%nat ->
  fill_reversed n (enumerate_from (length done) todo) (repeat 0 (length todo) ++ rev done) = Ok (rev (done ++ todo)).
Proof.
  induction todo as [|x t IH]; intros done n Hn.
  - simpl. rewrite app_nil_r. reflexivity.
  - cbn [enumerate_from fill_reversed].
    assert (Hle : (n <=? length done)%nat = false) by (apply Nat.leb_gt; simpl in Hn; lia).
    rewrite Hle.
    assert (Hi : (n - length done - 1)%nat = length t) by (simpl in Hn; lia).
    rewrite Hi. change (repeat 0 (length (x :: t))) with (repeat 0 (S (length t))). rewrite set_nth_repeat.
    specialize (IH (done ++ [x]) n).
    rewrite app_length in IH. simpl in IH. rewrite Nat.add_1_r in IH.
    rewrite rev_unit in IH. rewrite <- app_assoc in IH. simpl in IH.
    apply IH. simpl in Hn. lia.
Qed.

Theorem reverse_impl_is_spec : forall s, reverse_impl s = Ok (encode (rev (decode s))).
Proof.
  intros s. unfold reverse_impl.
  pose proof (fill_reversed_rev (decode s) [] (length (decode s)) eq_refl) as H.
  simpl in H. rewrite app_nil_r in H. rewrite H. reflexivity.
Qed.

Lemma reverse_pinned_wrong : reverse_pinned [97; 195; 169] <> reverse_spec [97; 195; 169].
Proof. vm_compute. discriminate. Qed.

(* =========================== substr =========================== *)
Lemma wrap64_id : forall z, in_int64 z -> wrap64 z = z.
Proof.
  intros z [H1 H2]. unfold wrap64. rewrite Z.mod_small; unfold two63, two64 in *; lia.
Qed.

Lemma ztake_firstn : forall l n, ztake n l = firstn (Z.to_nat n) l.
Proof.
  induction l as [|x t IH]; intros n; simpl.
  - destruct (Z.to_nat n); reflexivity.
  - destruct (Z.leb_spec n 0).
    + replace (Z.to_nat n) with 0%nat by lia. reflexivity.
    + rewrite IH. replace (Z.to_nat n) with (S (Z.to_nat (n - 1))) by lia. reflexivity.
Qed.
Lemma zdrop_skipn : forall l n, zdrop n l = skipn (Z.to_nat n) l.
Proof.
  induction l as [|x t IH]; intros n; simpl.
  - destruct (Z.to_nat n); reflexivity.
  - destruct (Z.leb_spec n 0).
    + replace (Z.to_nat n) with 0%nat by lia. reflexivity.
    + rewrite IH. replace (Z.to_nat n) with (S (Z.to_nat (n - 1))) by lia. reflexivity.
Qed.

Lemma go_slice_ok : forall s lo hi, 0 <= lo -> lo <= hi -> hi <= blen s ->
  go_slice s lo hi = Ok (firstn (Z.to_nat (hi - lo)) (skipn (Z.to_nat lo) s)).
Proof.
  intros s lo hi H1 H2 H3. unfold go_slice.
  rewrite (proj2 (Z.leb_le _ _) H1), (proj2 (Z.leb_le _ _) H2), (proj2 (Z.leb_le _ _) H3). reflexivity.
Qed.

Lemma substr3_ok : forall s i n, blen s <= max_int64 -> in_int64 i -> in_int64 n -> 0 <= i -> 0 <= n ->
  substr3_impl s i n = Ok (firstn (Z.to_nat n) (skipn (Z.to_nat i) s)).
Proof.
  intros s i n Hs Hi Hn H0i H0n. unfold substr3_impl.
  rewrite (proj2 (Z.ltb_ge _ _) H0i), (proj2 (Z.ltb_ge _ _) H0n).
  unfold blen in *. unfold in_int64, max_int64, two63 in *.
  destruct (Z.leb_spec (Z.of_nat (length s)) i) as [Hle|Hlt].
  - rewrite skipn_all2 by lia. rewrite firstn_nil. reflexivity.
  - rewrite (wrap64_id (Z.of_nat (length s) - i)) by (unfold in_int64, two63; lia).
    destruct (Z.ltb_spec n (Z.of_nat (length s) - i)) as [Hn1|Hn1].
    + rewrite wrap64_id by (unfold in_int64, two63; lia).
      rewrite go_slice_ok by (unfold blen; lia). repeat f_equal. lia.
    + rewrite go_slice_ok by (unfold blen; lia).
      assert (Hlen : length (skipn (Z.to_nat i) s) = Z.to_nat (Z.of_nat (length s) - i)) by (rewrite skipn_length; lia).
      rewrite <- Hlen. rewrite firstn_all. rewrite firstn_all2; [reflexivity|]. rewrite Hlen. lia.
Qed.

Lemma substr3_no_panic : forall s i n x, blen s <= max_int64 -> in_int64 i -> in_int64 n -> substr3_impl s i n <> Panic x.
Proof.
  intros s i n x Hs Hi Hn. destruct (Z.ltb_spec i 0) as [H|H].
  - unfold substr3_impl. rewrite (proj2 (Z.ltb_lt _ _) H). discriminate.
  - destruct (Z.ltb_spec n 0) as [H'|H'].
    + unfold substr3_impl. rewrite (proj2 (Z.ltb_ge _ _) H), (proj2 (Z.ltb_lt _ _) H'). discriminate.
    + rewrite substr3_ok by assumption. discriminate.
Qed.

Lemma substr2_ok : forall s i, 0 <= i -> substr2_impl s i = Ok (skipn (Z.to_nat i) s).
Proof.
  intros s i H0i. unfold substr2_impl. rewrite (proj2 (Z.ltb_ge _ _) H0i). unfold blen.
  destruct (Z.leb_spec (Z.of_nat (length s)) i) as [Hle|Hlt].
  - rewrite skipn_all2 by lia. reflexivity.
  - rewrite go_slice_ok by (unfold blen; lia).
    rewrite firstn_all2; [reflexivity|]. rewrite skipn_length. lia.
Qed.
Lemma substr2_no_panic : forall s i x, substr2_impl s i <> Panic x.
Proof.
  intros s i x. destruct (Z.ltb_spec i 0) as [H|H].
  - unfold substr2_impl. rewrite (proj2 (Z.ltb_lt _ _) H). discriminate.
  - rewrite substr2_ok by assumption. discriminate.
Qed.

Lemma substr_pinned_panics :
  substr2_pinned [97; 98; 99] (-1) = Panic p_slice_bounds /\
  substr3_pinned [97; 98; 99] 1 (-2) = Panic p_slice_bounds /\
  substr3_pinned [97; 98; 99] 1 max_int64 = Panic p_slice_bounds.
Proof. vm_compute. repeat split. Qed.

(* =========================== position (strings.Index) =========================== *)
Lemma is_prefix_iff : forall t s, is_prefix t s = true <-> exists r, s = t ++ r.
Proof.
  induction t as [|a t IH]; intros s; simpl.
  - split; [intros _; exists s; reflexivity|reflexivity].
  - destruct s as [|b s].
    + split; [discriminate|intros [r H]; discriminate].
    + rewrite andb_true_iff, Z.eqb_eq, IH. split.
      * intros [E [r H]]. subst. exists r. reflexivity.
      * intros [r H]. injection H as E H. split; [symmetry; exact E|exists r; exact H].
Qed.

(* an occurrence of t in s at byte offset i *)
Definition occurs_at (t s : list Z) (i : nat) : Prop := exists pre post, s = pre ++ t ++ post /\ length pre = i.

Lemma occurs_at_0 : forall t s, occurs_at t s 0 <-> is_prefix t s = true.
Proof.
  intros t s. rewrite is_prefix_iff. split.
  - intros [pre [post [E L]]]. destruct pre; [|discriminate]. exists post. exact E.
  - intros [r E]. exists [], r. split; [exact E|reflexivity].
Qed.
Lemma occurs_at_S : forall t b s i, occurs_at t (b :: s) (S i) <-> occurs_at t s i.
Proof.
  intros t b s i. split.
  - intros [pre [post [E L]]]. destruct pre as [|p pre]; [discriminate|].
    injection E as E1 E2. injection L as L. exists pre, post. split; assumption.
  - intros [pre [post [E L]]]. exists (b :: pre), post. subst. split; reflexivity.
Qed.

Lemma index_of_some : forall t s i, index_of t s = Some i ->
  occurs_at t s i /\ forall j, occurs_at t s j -> (i <= j)%nat.
Proof.
  intros t. induction s as [|b s IH]; intros i H.
  - simpl in H. destruct (is_prefix t []) eqn:E; [|discriminate]. injection H as <-.
    split; [apply occurs_at_0; exact E|intros; lia].
  - simpl in H. destruct (is_prefix t (b :: s)) eqn:E.
    + injection H as <-. split; [apply occurs_at_0; exact E|intros; lia].
    + destruct (index_of t s) as [i'|] eqn:E'; [|discriminate]. injection H as <-.
      destruct (IH i' eq_refl) as [Ho Hmin]. split; [apply occurs_at_S; exact Ho|].
      intros [|j] Hj.
      * apply occurs_at_0 in Hj. congruence.
      * pose proof (Hmin j (proj1 (occurs_at_S t b s j) Hj)). lia.
Qed.
Lemma index_of_none : forall t s, index_of t s = None -> forall j, ~ occurs_at t s j.
Proof.
  intros t. induction s as [|b s IH]; intros H j Hj.
  - simpl in H. destruct (is_prefix t []) eqn:E; [discriminate|].
    destruct Hj as [pre [post [E' L]]]. destruct pre; [|discriminate]. destruct t; [discriminate|discriminate].
  - simpl in H. destruct (is_prefix t (b :: s)) eqn:E; [discriminate|].
    destruct (index_of t s) eqn:E'; [discriminate|].
    destruct j as [|j]; [apply occurs_at_0 in Hj; congruence|].
    exact (IH eq_refl j (proj1 (occurs_at_S t b s j) Hj)).
Qed.

Theorem position_spec : forall s t,
  (exists i, position_impl s t = Ok (Some (Z.of_nat i)) /\ occurs_at t s i /\ forall j, occurs_at t s j -> (i <= j)%nat) \/
  (position_impl s t = Ok None /\ forall j, ~ occurs_at t s j).
Proof.
  intros s t. unfold position_impl. destruct (index_of t s) as [i|] eqn:E.
  - left. exists i. split; [reflexivity|]. apply index_of_some. exact E.
  - right. split; [reflexivity|]. apply index_of_none. exact E.
Qed.

(* =========================== replace =========================== *)
Lemma replace_all_nonempty : forall s old new, old <> [] ->
  replace_all s old new = replace_loop (S (length s)) s old new.
Proof. intros s [|o1 o] new H; [contradiction|reflexivity]. Qed.

Section Replace.
  Variables old new : list Z.
  Hypothesis old_nonempty : old <> [].

  Lemma scan_skip : forall k t, replace_scan old new k t = replace_scan old new 0 (skipn k t).
  Proof.
    induction k as [|k IH]; intros t; [reflexivity|].
    destruct t as [|b t]; [reflexivity|]. simpl. apply IH.
  Qed.

  Lemma scan_none : forall s, index_of old s = None -> replace_scan old new 0 s = s.
  Proof.
    induction s as [|b s IH]; intros H; [reflexivity|].
    simpl in H. simpl. destruct (is_prefix old (b :: s)); [discriminate|].
    destruct (index_of old s); [discriminate|]. rewrite IH; reflexivity.
  Qed.

  Lemma scan_some : forall s i, index_of old s = Some i ->
    replace_scan old new 0 s = firstn i s ++ new ++ replace_scan old new 0 (skipn (i + length old) s).
  Proof.
    induction s as [|b s IH]; intros i H.
    - simpl in H. destruct old as [|o1 o]; [contradiction|]. simpl in H. discriminate.
    - simpl in H. simpl replace_scan. destruct (is_prefix old (b :: s)) eqn:E.
      + injection H as <-. simpl firstn. rewrite scan_skip.
        destruct old as [|o1 o]; [contradiction|]. reflexivity.
      + destruct (index_of old s) as [i'|] eqn:E'; [|discriminate]. injection H as <-.
        rewrite (IH i' eq_refl). reflexivity.
  Qed.

  Lemma index_of_some_length : forall s i, index_of old s = Some i -> (length s >= 1)%nat.
  Proof.
    intros s i H. destruct s; [|simpl; lia].
    simpl in H. destruct old; [contradiction|]. simpl in H. discriminate.
  Qed.

  Lemma replace_loop_scan : forall fuel s, (length s < fuel)%nat ->
    replace_loop fuel s old new = Some (replace_scan old new 0 s).
  Proof.
    induction fuel as [|f IH]; intros s Hf; [lia|].
    simpl. destruct (index_of old s) as [i|] eqn:E.
    - rewrite IH.
      + rewrite (scan_some s i E). reflexivity.
      + rewrite skipn_length. pose proof (index_of_some_length s i E).
        destruct old; [contradiction|]. simpl. lia.
    - rewrite scan_none by exact E. reflexivity.
  Qed.

  Lemma replace_impl_scan : forall s, replace_impl s old new = Ok (replace_spec s old new).
  Proof.
    intros s. unfold replace_impl, replace_spec.
    rewrite replace_all_nonempty by exact old_nonempty.
    rewrite replace_loop_scan by lia. reflexivity.
  Qed.
End Replace.

(* what the scan computes, stated without the scan: no occurrence -> unchanged; first occurrence at i ->
   prefix, new, and the replacement of what follows the occurrence *)
Theorem replace_spec_unfold : forall s old new, old <> [] ->
  (index_of old s = None -> replace_spec s old new = s) /\
  (forall i, index_of old s = Some i ->
     replace_spec s old new = firstn i s ++ new ++ replace_spec (skipn (i + length old) s) old new).
Proof.
  intros s old new H. split; [apply scan_none|intros i; apply scan_some; exact H].
Qed.

(* =========================== upper / lower on ASCII =========================== *)
Lemma case_ascii : forall s, forallb is_ascii s = true ->
  upper_impl s = Some (map ascii_upper s) /\ lower_impl s = Some (map ascii_lower s).
Proof. intros s H. unfold upper_impl, lower_impl. rewrite H. split; reflexivity. Qed.

Lemma ascii_upper_spec : forall b,
  (97 <= b <= 122 -> ascii_upper b = b - 32) /\ (~ 97 <= b <= 122 -> ascii_upper b = b).
Proof.
  intros b. unfold ascii_upper, in_range. split; intros H.
  - rewrite (proj2 (Z.leb_le _ _) (proj1 H)), (proj2 (Z.leb_le _ _) (proj2 H)). reflexivity.
  - destruct (Z.leb_spec 97 b); destruct (Z.leb_spec b 122); simpl; try reflexivity. lia.
Qed.
Lemma ascii_lower_spec : forall b,
  (65 <= b <= 90 -> ascii_lower b = b + 32) /\ (~ 65 <= b <= 90 -> ascii_lower b = b).
Proof.
  intros b. unfold ascii_lower, in_range. split; intros H.
  - rewrite (proj2 (Z.leb_le _ _) (proj1 H)), (proj2 (Z.leb_le _ _) (proj2 H)). reflexivity.
  - destruct (Z.leb_spec 65 b); destruct (Z.leb_spec b 90); simpl; try reflexivity. lia.
Qed.

(* =========================== ~* =========================== *)
Lemma tilde_ci_refines : forall gm s p, tilde_ci_impl gm s p = gm (flag_i ++ p) s.
Proof. reflexivity. Qed.
Lemma tilde_ci_pinned_wrong :
  tilde_ci_pinned frag_go_match [65] [92; 83] <> frag_go_match (flag_i ++ [92; 83]) [65].
Proof. vm_compute. discriminate. Qed.

(* =========================== UTF-8 codec =========================== *)
Lemma in_range_true : forall a b x, in_range a b x = true -> a <= x <= b.
Proof. intros a b x H. unfold in_range in H. apply andb_true_iff in H. destruct H as [H1 H2]. apply Z.leb_le in H1, H2. lia. Qed.
Lemma in_range_intro : forall a b x, a <= x <= b -> in_range a b x = true.
Proof. intros a b x [H1 H2]. unfold in_range. apply andb_true_iff. split; apply Z.leb_le; assumption. Qed.
Lemma in_range_false : forall a b x, x < a \/ b < x -> in_range a b x = false.
Proof. intros a b x H. unfold in_range. apply andb_false_iff. destruct H; [left|right]; apply Z.leb_gt; assumption. Qed.

Ltac ir :=
  repeat match goal with
  | |- context [in_range ?a ?b ?x] =>
      first [ rewrite (in_range_intro a b x) by lia | rewrite (in_range_false a b x) by lia ]
  end.

Lemma decode_rune_encode : forall r rest, valid_rune r = true ->
  decode_rune (encode_rune r ++ rest) = (r, length (encode_rune r)).
Proof.
  intros r rest Hv. unfold valid_rune in Hv.
  assert (Hc : 0 <= r <= 127 \/ 128 <= r <= 2047 \/ (2048 <= r <= 55295 \/ 57344 <= r <= 65535) \/ 65536 <= r <= 1114111).
  { apply orb_true_iff in Hv. destruct Hv as [H|H]; apply in_range_true in H; lia. }
  clear Hv. unfold encode_rune.
  replace (r / 262144) with (r / 64 / 64 / 64) by (rewrite !Z.div_div by lia; reflexivity).
  replace (r / 4096) with (r / 64 / 64) by (rewrite !Z.div_div by lia; reflexivity).
  pose proof (Z.div_mod r 64 ltac:(lia)) as D1. pose proof (Z.mod_pos_bound r 64 ltac:(lia)) as B1.
  remember (r / 64) as q1. remember (r mod 64) as m1. clear Heqm1.
  pose proof (Z.div_mod q1 64 ltac:(lia)) as D2. pose proof (Z.mod_pos_bound q1 64 ltac:(lia)) as B2.
  remember (q1 / 64) as q2. remember (q1 mod 64) as m2. clear Heqm2.
  pose proof (Z.div_mod q2 64 ltac:(lia)) as D3. pose proof (Z.mod_pos_bound q2 64 ltac:(lia)) as B3.
  remember (q2 / 64) as q3. remember (q2 mod 64) as m3. clear Heqm3 Heqq3 Heqq2 Heqq1.
  destruct Hc as [H|[H|[H|H]]].
  - ir. cbn [app length]. unfold decode_rune. ir. reflexivity.
  - ir. cbn [app length]. unfold decode_rune, is_cont. cbv beta iota zeta. ir. cbv iota. f_equal. lia.
  - destruct H as [H|H]; ir; cbn [orb]; cbv iota; cbn [app length]; unfold decode_rune, is_cont; cbv beta iota zeta; ir; cbv iota;
    destruct (Z.eqb_spec (224 + q2) 224); destruct (Z.eqb_spec (224 + q2) 237); cbv iota; ir; cbn [andb]; cbv iota; f_equal; lia.
  - ir. cbn [orb]. cbv iota. cbn [app length]. unfold decode_rune, is_cont. cbv beta iota zeta. ir. cbv iota.
    destruct (Z.eqb_spec (240 + q3) 240); destruct (Z.eqb_spec (240 + q3) 244); cbv iota; ir; cbn [andb]; cbv iota; f_equal; lia.
Qed.

Lemma encode_rune_nonempty : forall r, encode_rune r <> [].
Proof. intros r. unfold encode_rune. repeat match goal with |- context [if ?c then _ else _] => destruct c end; discriminate. Qed.

Lemma range_from_skip : forall l1 l2 off,
  range_from (length l1) off (l1 ++ l2) = range_from 0 (off + length l1) l2.
Proof.
  induction l1 as [|a l1 IH]; intros l2 off; simpl.
  - rewrite Nat.add_0_r. reflexivity.
  - rewrite IH. rewrite Nat.add_succ_r. reflexivity.
Qed.

Definition rune_of (x : nat * Z * nat) : Z := snd (fst x).

Lemma range_encode_rune : forall r rest off, valid_rune r = true ->
  range_from 0 off (encode_rune r ++ rest) =
  (off, r, length (encode_rune r)) :: range_from 0 (off + length (encode_rune r)) rest.
Proof.
  intros r rest off Hv. pose proof (decode_rune_encode r rest Hv) as Hd.
  destruct (encode_rune r) as [|b0 t] eqn:E; [exfalso; exact (encode_rune_nonempty r E)|].
  change ((b0 :: t) ++ rest) with (b0 :: (t ++ rest)) in *.
  cbn [range_from]. rewrite Hd. cbn [length Nat.pred]. rewrite range_from_skip.
  rewrite Nat.add_succ_r. reflexivity.
Qed.

Lemma decode_encode_from : forall rs off, forallb valid_rune rs = true ->
  map (fun x => snd (fst x)) (range_from 0 off (encode rs)) = rs.
Proof.
  induction rs as [|r rs IH]; intros off H; [reflexivity|].
  simpl in H. apply andb_true_iff in H. destruct H as [Hr Hrs].
  unfold encode. cbn [flat_map]. fold (encode rs).
  rewrite range_encode_rune by exact Hr. cbn [map fst snd]. rewrite IH by exact Hrs. reflexivity.
Qed.

Theorem decode_encode : forall rs, forallb valid_rune rs = true -> decode (encode rs) = rs.
Proof. intros rs H. unfold decode, range_str. apply decode_encode_from. exact H. Qed.

(* every rune the decoder yields is a Unicode scalar value (U+FFFD for anything malformed) *)
Lemma valid_rune_intro : forall v, 0 <= v <= 55295 \/ 57344 <= v <= 1114111 -> valid_rune v = true.
Proof.
  intros v H. unfold valid_rune. apply orb_true_iff. destruct H; [left|right]; apply in_range_intro; assumption.
Qed.

Lemma decode_rune_valid : forall s, valid_rune (fst (decode_rune s)) = true.
Proof.
  intros s. unfold decode_rune. destruct s as [|b0 t]; [reflexivity|].
  destruct (in_range 0 127 b0) eqn:E0.
  { apply in_range_true in E0. apply valid_rune_intro. simpl. lia. }
  destruct (in_range 194 223 b0) eqn:E1.
  { apply in_range_true in E1. destruct t as [|b1 t]; [reflexivity|].
    unfold is_cont. destruct (in_range 128 191 b1) eqn:C1; [|reflexivity].
    apply in_range_true in C1. apply valid_rune_intro. simpl. lia. }
  destruct (in_range 224 239 b0) eqn:E2.
  { apply in_range_true in E2. destruct t as [|b1 [|b2 t]]; try reflexivity.
    cbv zeta. unfold is_cont.
    destruct (in_range (if b0 =? 224 then 160 else 128) (if b0 =? 237 then 159 else 191) b1) eqn:C1; [|reflexivity].
    destruct (in_range 128 191 b2) eqn:C2; [|reflexivity].
    apply in_range_true in C1, C2. apply valid_rune_intro. cbn [andb fst].
    destruct (Z.eqb_spec b0 224); destruct (Z.eqb_spec b0 237); lia. }
  destruct (in_range 240 244 b0) eqn:E3; [|reflexivity].
  apply in_range_true in E3. destruct t as [|b1 [|b2 [|b3 t]]]; try reflexivity.
  cbv zeta. unfold is_cont.
  destruct (in_range (if b0 =? 240 then 144 else 128) (if b0 =? 244 then 143 else 191) b1) eqn:C1; [|reflexivity].
  destruct (in_range 128 191 b2) eqn:C2; [|reflexivity].
  destruct (in_range 128 191 b3) eqn:C3; [|reflexivity].
  apply in_range_true in C1, C2, C3. apply valid_rune_intro. cbn [andb fst].
  destruct (Z.eqb_spec b0 240); destruct (Z.eqb_spec b0 244); lia.
Qed.

Lemma range_from_valid : forall s skip off, forallb (fun x => valid_rune (snd (fst x))) (range_from skip off s) = true.
Proof.
  induction s as [|b t IH]; intros skip off; [reflexivity|].
  cbn [range_from]. destruct skip as [|k]; [|apply IH].
  pose proof (decode_rune_valid (b :: t)) as Hv. destruct (decode_rune (b :: t)) as [r w].
  cbn [forallb fst snd]. simpl in Hv. rewrite Hv. apply IH.
Qed.

Lemma decode_valid : forall s, forallb valid_rune (decode s) = true.
Proof.
  intros s. unfold decode, range_str. rewrite forallb_forall. intros r Hr.
  apply in_map_iff in Hr. destruct Hr as [x [<- Hx]].
  exact (proj1 (forallb_forall _ _) (range_from_valid s 0%nat 0%nat) x Hx).
Qed.

(* reversing changes the order of the characters and nothing else: decoding the result gives the reversed runes *)
Theorem reverse_runes : forall s out, reverse_impl s = Ok out -> decode out = rev (decode s).
Proof.
  intros s out H. rewrite reverse_impl_is_spec in H. injection H as <-.
  apply decode_encode. rewrite forallb_forall. intros r Hr. apply in_rev in Hr.
  exact (proj1 (forallb_forall _ _) (decode_valid s) r Hr).
Qed.
