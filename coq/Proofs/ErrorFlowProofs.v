(* Proofs/ErrorFlowProofs.v — C06: no operator between a runtime failure and the top of the plan swallows it. *)
From Octo Require Import ErrorFlow.

(* honest: if a failure came into existence during the call, the call returns a failure.
   quiet: the call returns an error only when a failure came into existence (it never stops the stream
   for another reason, such as a LIMIT sentinel). *)
Definition HQr (b : bool) (r : res) (g : bool) : Prop :=
  (g = true -> is_fail r = true) /\ (b = true -> r <> None -> g = true).
Definition HQ (b : bool) {S} (x : R S) : Prop := HQr b (rres x) (rgen x).
Definition HQp (b : bool) {S} (p : pfn S) : Prop := forall s r, HQ b (p s r).
Definition HQm (b : bool) {S} (m : mfn S) : Prop := forall s w, HQ b (m s w).
Definition node_ok (b : bool) (n : node) : Prop :=
  forall S (p : pfn S) (m : mfn S) s, HQp b p -> HQm b m -> HQ b (n S p m s).
(* always fails: under a consumer that never stops the stream by itself, Run returns a failure *)
Definition AF (n : node) : Prop :=
  forall S (p : pfn S) (m : mfn S) s, HQp true p -> HQm true m -> is_fail (rres (n S p m s)) = true.

Ltac hq := unfold HQ, HQr, rres, rgen, rst in *; simpl in *.
Ltac crush :=
  repeat match goal with
  | |- _ /\ _ => split
  | |- _ -> _ => intro
  | H : _ /\ _ |- _ => destruct H
  | H : ?g || ?h = true |- _ => apply orb_true_iff in H; destruct H
  end; try congruence; try discriminate; auto.

Lemma HQ_ret : forall b S (s : S), HQ b (ret s).
Proof. intros; hq; crush. Qed.
Lemma HQ_fail_EFail : forall b S (s : S) e, HQ b (fail_with s (EFail e)).
Proof. intros; hq; crush. Qed.
Lemma HQ_fail_EPanic : forall b S (s : S) e, HQ b (fail_with s (EPanic e)).
Proof. intros; hq; crush. Qed.
Lemma HQ_weaken : forall b S (x : R S), HQ b x -> HQ false x.
Proof. intros b S x [H _]; split; auto; discriminate. Qed.

Lemma HQ_mapst : forall b S T (f : S -> T) (x : R S), HQ b x -> HQ b (mapst f x).
Proof. intros. destruct x as [[s r] g]. exact H. Qed.

Lemma HQ_bindR : forall b S (x : R S) k, HQ b x -> (forall s, HQ b (k s)) -> HQ b (bindR x k).
Proof.
  intros b S [[s r] g] k Hx Hk. unfold bindR. simpl rres at 1. destruct r as [e|].
  - exact Hx.
  - specialize (Hk s). cbn [rst rres rgen fst snd]. destruct (k s) as [[s2 r2] g2]. hq.
    destruct Hx as [Hx1 Hx2], Hk as [Hk1 Hk2]. split.
    + intro H. apply orb_true_iff in H. destruct H as [H|H].
      * apply Hx1 in H. discriminate.
      * auto.
    + intros Hb Hr. rewrite (Hk2 Hb Hr). apply orb_true_r.
Qed.

Lemma HQ_on_eval : forall b S A (s : S) (o : outcome A) k, (forall a, HQ b (k a)) -> HQ b (on_eval s o k).
Proof. intros. destruct o; simpl; auto using HQ_fail_EFail, HQ_fail_EPanic. Qed.

Lemma HQ_produce_all : forall b S (p : pfn S) rs s, HQp b p -> HQ b (produce_all p s rs).
Proof.
  intros b S p rs. induction rs as [|r rs IH]; intros s Hp; simpl.
  - apply HQ_ret.
  - apply HQ_bindR; auto.
Qed.

Lemma HQ_send_all : forall b S (p : pfn S) (m : mfn S) es s, HQp b p -> HQm b m -> HQ b (send_all p m s es).
Proof.
  intros b S p m es. induction es as [|[r|w] es IH]; intros s Hp Hm; simpl.
  - apply HQ_ret.
  - apply HQ_bindR; auto.
  - apply HQ_bindR; auto.
Qed.

(* results assembled as (state, f result, ghost) *)
Lemma HQ_triple : forall b S T (x : R S) (t : T), HQ b x -> HQ b (t, rres x, rgen x).
Proof. intros. exact H. Qed.

(* `if err != nil { return err }; <produce rows>` after the source ran *)
Lemma HQ_then_produce : forall b S T (x : R T) (s0 : S) (p : pfn S) (rows : list rec) (f : T -> S),
  HQ b x -> HQp b p ->
  HQ b (match rres x with
        | Some _ => (f (rst x), rres x, rgen x)
        | None => let y := produce_all p (f (rst x)) rows in (rst y, rres y, rgen x || rgen y)
        end).
Proof.
  intros b S T [[t r] g] s0 p rows f Hx Hp. cbn [rst rres rgen fst snd]. destruct r as [e|].
  - exact Hx.
  - pose proof (HQ_produce_all b S p rows (f t) Hp) as Hy.
    destruct (produce_all p (f t) rows) as [[s2 r2] g2]. hq.
    destruct Hx as [Hx1 Hx2], Hy as [Hy1 Hy2]. split.
    + intro H. apply orb_true_iff in H. destruct H as [H|H]; auto. apply Hx1 in H. discriminate.
    + intros Hb Hr. rewrite (Hy2 Hb Hr). apply orb_true_r.
Qed.

(* ---- scripted source ---- *)
Lemma script_ok : forall b evs fl, node_ok b (run_script evs fl).
Proof.
  intros b evs fl S p m. induction evs as [|[r|w] evs IH]; intros s Hp Hm; simpl.
  - destruct fl; [apply HQ_fail_EFail | apply HQ_ret].
  - apply HQ_bindR; auto.
  - apply HQ_bindR; auto.
Qed.

Lemma AF_bindR : forall S (x : R S) k,
  HQ true x -> (forall s, is_fail (rres (k s)) = true) -> is_fail (rres (bindR x k)) = true.
Proof.
  intros S [[s r] g] k Hx Hk. unfold bindR. simpl rres at 1. destruct r as [e|].
  - hq. destruct Hx as [H1 H2]. apply H1. apply H2; congruence.
  - simpl. apply Hk.
Qed.

Lemma script_AF : forall evs e, AF (run_script evs (Some e)).
Proof.
  intros evs e S p m. induction evs as [|[r|w] evs IH]; intros s Hp Hm; simpl.
  - reflexivity.
  - apply AF_bindR; auto.
  - apply AF_bindR; auto.
Qed.

(* ---- per-operator callbacks ---- *)
Lemma filter_cb_ok : forall b S pred (p : pfn S), HQp b p -> HQp b (filter_cb pred p).
Proof.
  intros b S pred p Hp s r. unfold filter_cb. apply HQ_on_eval. intros v.
  destruct v; try apply HQ_ret. destruct b0; [apply Hp | apply HQ_ret].
Qed.
Lemma map_cb_ok : forall b S es (p : pfn S), HQp b p -> HQp b (map_cb es p).
Proof. intros b S es p Hp s r. unfold map_cb. apply HQ_on_eval. intros; apply Hp. Qed.
Lemma drop_meta_ok : forall b S, HQm b (@drop_meta S).
Proof. intros b S s w. apply HQ_ret. Qed.
Lemma lift_m_ok : forall b S T (m : mfn S), HQm b m -> HQm b (@lift_m S T m).
Proof. intros b S T m Hm st w. unfold lift_m. apply HQ_mapst. apply Hm. Qed.

Lemma distinct_cb_ok : forall b S (p : pfn S), HQp b p -> HQp b (distinct_cb p).
Proof.
  intros b S p Hp [s d] r. unfold distinct_cb.
  destruct (0 <? _).
  - destruct (negb (retr r) && _).
    + apply HQ_bindR; [apply HQ_mapst; apply Hp | intros; apply HQ_ret].
    + apply HQ_ret.
  - apply HQ_bindR; [apply HQ_mapst; apply Hp | intros; apply HQ_ret].
Qed.

Lemma unnest_cb_ok : forall b S idx (p : pfn S), HQp b p -> HQp b (unnest_cb idx p).
Proof.
  intros b S idx p Hp s r. unfold unnest_cb. destruct (nth_error (vals r) idx) as [v|].
  - destruct v; try apply HQ_ret. apply HQ_produce_all; auto.
  - apply HQ_fail_EPanic.
Qed.

Lemma buffer_cb_ok : forall b S (p : pfn S), HQp b p -> HQp b (buffer_cb p).
Proof.
  intros b S p Hp [s bf] r. unfold buffer_cb. destruct (et r =? zero_ns).
  - apply HQ_mapst, Hp.
  - apply HQ_ret.
Qed.
Lemma buffer_meta_ok : forall b S (p : pfn S) (m : mfn S), HQp b p -> HQm b m -> HQm b (buffer_meta p m).
Proof.
  intros b S p m Hp Hm [s bf] w. unfold buffer_meta. apply HQ_bindR.
  - apply HQ_mapst, HQ_produce_all; auto.
  - intros. apply HQ_mapst, Hm.
Qed.

Lemma ost_cb_ok : forall b S keys dirs limit noretr, HQp b (@ost_cb S keys dirs limit noretr).
Proof. intros b S keys dirs limit noretr st r. unfold ost_cb. apply HQ_on_eval. intros; apply HQ_ret. Qed.

Lemma sgb_cb_ok : forall b S g, HQp b (@sgb_cb S g).
Proof. intros b S g sh r. unfold sgb_cb. apply HQ_on_eval. intros; apply HQ_ret. Qed.

Lemma cgb_cb_ok : forall b S g (p : pfn S), HQp b p -> HQp b (cgb_cb g p).
Proof.
  intros b S g p Hp sh r. unfold cgb_cb. apply HQ_on_eval. intros _.
  apply HQ_mapst, HQ_produce_all; auto.
Qed.
Lemma cgb_meta_ok : forall b S g (p : pfn S) (m : mfn S), HQp b p -> HQm b m -> HQm b (cgb_meta g p m).
Proof.
  intros b S g p m Hp Hm sh w. unfold cgb_meta. apply HQ_bindR.
  - apply HQ_mapst, HQ_produce_all; auto.
  - intros. apply HQ_mapst, Hm.
Qed.

(* the limit callback is honest; it is not quiet (it stops the stream with the sentinel) *)
Lemma limit_cb_honest : forall S id k (p : pfn S), HQp false p -> HQp false (limit_cb id k p).
Proof.
  intros S id k p Hp [s i] r. unfold limit_cb. apply HQ_bindR.
  - apply HQ_mapst, Hp.
  - intros si1. destruct (i + 1 =? k).
    + hq. crush.
    + apply HQ_ret.
Qed.

(* ---- per-operator nodes: honesty (b = false) for every operator, quietness (b = true) for all but Limit ---- *)
Lemma filter_ok : forall b pred src, node_ok b src -> node_ok b (filter_node pred src).
Proof. intros b pred src H S p m s Hp Hm. apply H; auto using filter_cb_ok. Qed.
Lemma map_ok : forall b es src, node_ok b src -> node_ok b (map_node es src).
Proof. intros b es src H S p m s Hp Hm. apply H; auto using map_cb_ok. Qed.
Lemma unnest_ok : forall b idx src, node_ok b src -> node_ok b (unnest_node idx src).
Proof. intros b idx src H S p m s Hp Hm. apply H; auto using unnest_cb_ok. Qed.

Lemma distinct_ok : forall b src, node_ok b src -> node_ok b (distinct_node false src).
Proof.
  intros b src H S p m s Hp Hm. unfold distinct_node.
  apply HQ_triple. apply H; auto using distinct_cb_ok, drop_meta_ok.
Qed.

Lemma limit_honest : forall id lim src, node_ok false src -> node_ok false (limit_node id lim src).
Proof.
  intros id lim src H S p m s Hp Hm. unfold limit_node. apply HQ_on_eval. intros v.
  destruct (int_of v =? 0); [apply HQ_ret|].
  pose proof (H _ (limit_cb id (int_of v) p) (lift_m m) (s, 0)
                (limit_cb_honest _ _ _ _ Hp) (lift_m_ok _ _ _ _ Hm)) as Hx.
  destruct (src _ _ _ _) as [[st r] g]. hq. destruct Hx as [Hx _]. split; [|discriminate].
  intro Hg. specialize (Hx Hg). destruct r as [[id'|e|e]|]; simpl in *; try discriminate; auto.
Qed.

Lemma buffer_ok : forall b src, node_ok b src -> node_ok b (buffer_node src).
Proof.
  intros b src H S p m s Hp Hm. unfold buffer_node.
  apply (HQ_then_produce b S _ _ s p _ fst); auto.
  apply H; auto using buffer_cb_ok, buffer_meta_ok.
Qed.

Lemma sgb_ok : forall b g src, node_ok b src -> node_ok b (sgb_node g src).
Proof.
  intros b g src H S p m s Hp Hm. unfold sgb_node.
  apply (HQ_then_produce b S _ _ s p _ fst); auto.
  apply H; auto using sgb_cb_ok, lift_m_ok.
Qed.

Lemma cgb_ok : forall b g src, node_ok b src -> node_ok b (cgb_node g src).
Proof.
  intros b g src H S p m s Hp Hm. unfold cgb_node.
  apply (HQ_then_produce b S _ _ s p _ fst); auto.
  apply (buffer_ok b src H); auto using cgb_cb_ok, cgb_meta_ok.
Qed.

Lemma ost_ok : forall b keys dirs lim noretr src, node_ok b src -> node_ok b (ost_node false keys dirs lim noretr src).
Proof.
  intros b keys dirs lim noretr src H S p m s Hp Hm. unfold ost_node.
  assert (Hgo : forall limit,
    HQ b (let x := src (S * list oitem)%type (ost_cb keys dirs limit noretr) drop_meta (s, []) in
          match rres x with
          | Some _ => (fst (rst x), rres x, rgen x)
          | None => let y := produce_all p (fst (rst x)) (ost_rows limit 0 (snd (rst x))) in
                    (rst y, rres y, rgen x || rgen y)
          end)).
  { intros limit. apply (HQ_then_produce b S _ _ s p _ fst); auto.
    apply H; auto using ost_cb_ok, drop_meta_ok. }
  destruct lim as [l|].
  - apply HQ_on_eval. intros v. destruct (int_of v =? 0); [apply HQ_ret|].
    destruct (int_of v <? 0); [apply HQ_fail_EFail|]. apply Hgo.
  - apply Hgo.
Qed.

Lemma lookup_ok : forall b src joined, node_ok b src -> (forall a, node_ok b (joined a)) -> node_ok b (lookup_node src joined).
Proof.
  intros b src joined H Hj S p m s Hp Hm. unfold lookup_node. apply H; auto.
  intros s1 a. apply Hj; auto. intros s2 r. apply Hp.
Qed.

Lemma join_consume_ok : forall b S j (p : pfn S) (m : mfn S) ms h s,
  HQp b p -> HQm b m ->
  (b = true -> forall e', In (JErr e') (map snd ms) -> is_fail (Some e') = true) ->
  HQ b (join_consume j p m h ms s).
Proof.
  intros b S j p m ms. induction ms as [|[side [ev|e]] ms IH]; intros h s Hp Hm Hall; simpl.
  - apply HQ_send_all; auto.
  - apply HQ_on_eval. intros out. apply HQ_bindR; auto using HQ_send_all.
    intros s1. apply IH; auto. intros Hb e' Hin. apply Hall; simpl; auto.
  - hq. split; auto; try (intros Hb _; apply (Hall Hb e); simpl; auto).
Qed.

Lemma side_msgs_errors_fail : forall n, node_ok true n -> forall e, In (JErr e) (side_msgs n) -> is_fail (Some e) = true.
Proof.
  intros n Hn e Hin. unfold side_msgs in Hin. apply in_app_or in Hin. destruct Hin as [Hin|Hin].
  - apply in_map_iff in Hin. destruct Hin as [x [Hx _]]. discriminate.
  - pose proof (Hn _ rec_p rec_m [] (fun s r => HQ_ret true _ _) (fun s w => HQ_ret true _ _)) as H.
    destruct (n (list event) rec_p rec_m []) as [[st r] g]. hq. destruct H as [H1 H2].
    destruct r as [e0|]; simpl in Hin; [|contradiction]. destruct Hin as [Hin|[]]. inversion Hin; subst.
    apply H1, H2; congruence.
Qed.

Lemma merge_by_In : forall sched lq rq x, In x (map snd (merge_by sched lq rq)) <-> In x lq \/ In x rq.
Proof.
  induction sched as [|b sched IH]; intros lq rq x; simpl.
  - rewrite map_app, !map_map. simpl. rewrite !map_id. rewrite in_app_iff. tauto.
  - destruct b.
    + destruct lq as [|y lq]; simpl.
      * rewrite map_map. simpl. rewrite map_id. tauto.
      * rewrite IH. tauto.
    + destruct rq as [|y rq]; simpl.
      * rewrite map_map. simpl. rewrite map_id. tauto.
      * rewrite IH. tauto.
Qed.

Lemma join_ok : forall b j sched l r, node_ok b l -> node_ok b r -> node_ok b (join_node j sched l r).
Proof.
  intros b j sched l r Hl Hr S p m s Hp Hm. unfold join_node. apply join_consume_ok; auto.
  intros Hb e' Hin. subst b. apply merge_by_In in Hin. destruct Hin; eauto using side_msgs_errors_fail.
Qed.

(* ---- every plan of the fixed code is honest ---- *)
Theorem plan_honest : forall pl, node_ok false (run false pl).
Proof.
  induction pl; simpl.
  - apply script_ok.
  - apply filter_ok; auto.
  - apply map_ok; auto.
  - apply distinct_ok; auto.
  - apply ost_ok; auto.
  - apply limit_honest; auto.
  - apply unnest_ok; auto.
  - apply sgb_ok; auto.
  - apply cgb_ok; auto.
  - apply buffer_ok; auto.
  - apply lookup_ok; auto.
  - apply join_ok; auto.
  - apply join_ok; auto.
Qed.

Lemma rec_p_ok : forall b, HQp b rec_p.
Proof. intros b s r. apply HQ_ret. Qed.
Lemma rec_m_ok : forall b, HQm b rec_m.
Proof. intros b s r. apply HQ_ret. Qed.

Theorem run_top_honest : forall pl, rgen (run_top false pl) = true -> is_fail (rres (run_top false pl)) = true.
Proof. intros pl. apply (plan_honest pl _ rec_p rec_m [] (rec_p_ok false) (rec_m_ok false)). Qed.

Theorem ok_means_nothing_failed : forall pl out, run_outcome false pl = Ok out -> rgen (run_top false pl) = false.
Proof.
  intros pl out H. unfold run_outcome in H. pose proof (run_top_honest pl) as Hh.
  destruct (rgen (run_top false pl)); auto. specialize (Hh eq_refl).
  destruct (rres (run_top false pl)) as [[| |]|]; simpl in *; discriminate.
Qed.

(* ---- plans without a cut (no Limit node, no ORDER BY ... LIMIT 0): quiet, and failing whenever a source fails ---- *)
Definition ost_runs_source (lim : option (outcome value)) : Prop :=
  match lim with Some (Ok v) => int_of v <> 0 | _ => True end.
Fixpoint cut_free (pl : plan) : Prop :=
  match pl with
  | PScript _ _ => True
  | PFilter _ src | PMap _ src | PDistinct src | PUnnest _ src | PSimpleGB _ src | PCustomGB _ src | PBuffer src => cut_free src
  | POst _ _ lim _ src => ost_runs_source lim /\ cut_free src
  | PLimit _ _ _ => False
  | PLookup src joined => cut_free src /\ forall a, cut_free (joined a)
  | PStreamJoin _ _ l r | POuterJoin _ _ l r => cut_free l /\ cut_free r
  end.
(* a source below certainly fails (failures of expressions and of the joined side of a lookup join come on top) *)
Fixpoint source_fails (pl : plan) : Prop :=
  match pl with
  | PScript _ fl => fl <> None
  | PFilter _ src | PMap _ src | PDistinct src | PUnnest _ src | PSimpleGB _ src | PCustomGB _ src | PBuffer src
  | POst _ _ _ _ src | PLimit _ _ src | PLookup src _ => source_fails src
  | PStreamJoin _ _ l r | POuterJoin _ _ l r => source_fails l \/ source_fails r
  end.

Theorem plan_quiet : forall pl, cut_free pl -> node_ok true (run false pl).
Proof.
  induction pl; simpl; intros Hc.
  - apply script_ok.
  - apply filter_ok; auto.
  - apply map_ok; auto.
  - apply distinct_ok; auto.
  - apply ost_ok; tauto.
  - contradiction.
  - apply unnest_ok; auto.
  - apply sgb_ok; auto.
  - apply cgb_ok; auto.
  - apply buffer_ok; auto.
  - destruct Hc. apply lookup_ok; auto.
  - destruct Hc. apply join_ok; auto.
  - destruct Hc. apply join_ok; auto.
Qed.

Lemma AF_then_produce : forall S T (x : R T) (p : pfn S) (rows : list rec) (f : T -> S),
  is_fail (rres x) = true ->
  is_fail (rres (match rres x with
        | Some _ => (f (rst x), rres x, rgen x)
        | None => let y := produce_all p (f (rst x)) rows in (rst y, rres y, rgen x || rgen y)
        end)) = true.
Proof. intros S T [[t r] g] p rows f H. simpl in *. destruct r; [exact H | discriminate]. Qed.

Lemma filter_AF : forall pred src, AF src -> AF (filter_node pred src).
Proof. intros pred src H S p m s Hp Hm. apply H; auto using filter_cb_ok. Qed.
Lemma map_AF : forall es src, AF src -> AF (map_node es src).
Proof. intros es src H S p m s Hp Hm. apply H; auto using map_cb_ok. Qed.
Lemma unnest_AF : forall idx src, AF src -> AF (unnest_node idx src).
Proof. intros idx src H S p m s Hp Hm. apply H; auto using unnest_cb_ok. Qed.
Lemma distinct_AF : forall src, AF src -> AF (distinct_node false src).
Proof. intros src H S p m s Hp Hm. unfold distinct_node. apply H; auto using distinct_cb_ok, drop_meta_ok. Qed.
Lemma buffer_AF : forall src, AF src -> AF (buffer_node src).
Proof.
  intros src H S p m s Hp Hm. unfold buffer_node. apply (AF_then_produce S _ _ p _ fst).
  apply H; auto using buffer_cb_ok, buffer_meta_ok.
Qed.
Lemma sgb_AF : forall g src, AF src -> AF (sgb_node g src).
Proof.
  intros g src H S p m s Hp Hm. unfold sgb_node. apply (AF_then_produce S _ _ p _ fst).
  apply H; auto using sgb_cb_ok, lift_m_ok.
Qed.
Lemma cgb_AF : forall g src, AF src -> AF (cgb_node g src).
Proof.
  intros g src H S p m s Hp Hm. unfold cgb_node. apply (AF_then_produce S _ _ p _ fst).
  apply (buffer_AF src H); auto using cgb_cb_ok, cgb_meta_ok.
Qed.
Lemma ost_AF : forall keys dirs lim noretr src, ost_runs_source lim -> AF src -> AF (ost_node false keys dirs lim noretr src).
Proof.
  intros keys dirs lim noretr src Hl H S p m s Hp Hm. unfold ost_node.
  assert (Hgo : forall limit,
    is_fail (rres (let x := src (S * list oitem)%type (ost_cb keys dirs limit noretr) drop_meta (s, []) in
          match rres x with
          | Some _ => (fst (rst x), rres x, rgen x)
          | None => let y := produce_all p (fst (rst x)) (ost_rows limit 0 (snd (rst x))) in
                    (rst y, rres y, rgen x || rgen y)
          end)) = true).
  { intros limit. apply (AF_then_produce S _ _ p _ fst). apply H; auto using ost_cb_ok, drop_meta_ok. }
  destruct lim as [[v|e|e]|]; simpl; auto.
  simpl in Hl. destruct (int_of v =? 0) eqn:E; [apply Z.eqb_eq in E; contradiction|].
  destruct (int_of v <? 0); [reflexivity | apply Hgo].
Qed.
Lemma lookup_AF : forall src joined, AF src -> (forall a, node_ok true (joined a)) -> AF (lookup_node src joined).
Proof.
  intros src joined H Hj S p m s Hp Hm. unfold lookup_node. apply H; auto.
  intros s1 a. apply Hj; auto. intros s2 r. apply Hp.
Qed.

Lemma join_consume_AF : forall S j (p : pfn S) (m : mfn S) ms h s e,
  HQp true p -> HQm true m ->
  (forall e', In (JErr e') (map snd ms) -> is_fail (Some e') = true) ->
  In (JErr e) (map snd ms) ->
  is_fail (rres (join_consume j p m h ms s)) = true.
Proof.
  intros S j p m ms. induction ms as [|[side [ev|e']] ms IH]; intros h s e Hp Hm Hall Hin; simpl in *.
  - contradiction.
  - destruct Hin as [Hin|Hin]; [discriminate|].
    destruct (jp_proc j (h ++ [(side, ev)])) as [out|x|x]; simpl; auto.
    apply AF_bindR; [apply HQ_send_all; auto|]. intros s1. eapply IH; eauto.
  - apply (Hall e'). auto.
Qed.

Lemma side_msgs_AF : forall n, AF n -> exists e, In (JErr e) (side_msgs n).
Proof.
  intros n Hn. pose proof (Hn _ rec_p rec_m [] (fun s r => HQ_ret true _ _) (fun s w => HQ_ret true _ _)) as H.
  unfold side_msgs. destruct (rres (n (list event) rec_p rec_m [])) as [e|]; [|discriminate].
  exists e. apply in_or_app. right. left. reflexivity.
Qed.

Lemma join_AF : forall j sched l r, node_ok true l -> node_ok true r -> AF l \/ AF r -> AF (join_node j sched l r).
Proof.
  intros j sched l r Hl Hr Hf S p m s Hp Hm. unfold join_node.
  assert (Hall : forall e', In (JErr e') (map snd (merge_by sched (side_msgs l) (side_msgs r))) -> is_fail (Some e') = true).
  { intros e' Hin. apply merge_by_In in Hin. destruct Hin; eauto using side_msgs_errors_fail. }
  destruct Hf as [Hf|Hf]; apply side_msgs_AF in Hf; destruct Hf as [e He];
    apply (join_consume_AF S j p m _ [] s e); auto; apply merge_by_In; auto.
Qed.

Theorem plan_fails : forall pl, cut_free pl -> source_fails pl -> AF (run false pl).
Proof.
  induction pl; simpl; intros Hc Hf.
  - destruct fl; [apply script_AF | congruence].
  - apply filter_AF; auto.
  - apply map_AF; auto.
  - apply distinct_AF; auto.
  - destruct Hc. apply ost_AF; auto.
  - contradiction.
  - apply unnest_AF; auto.
  - apply sgb_AF; auto.
  - apply cgb_AF; auto.
  - apply buffer_AF; auto.
  - destruct Hc. apply lookup_AF; auto using plan_quiet.
  - destruct Hc. apply join_AF; auto using plan_quiet. tauto.
  - destruct Hc. apply join_AF; auto using plan_quiet. tauto.
Qed.

Theorem run_top_fails : forall pl, cut_free pl -> source_fails pl -> is_fail (rres (run_top false pl)) = true.
Proof. intros pl Hc Hf. apply (plan_fails pl Hc Hf _ rec_p rec_m [] (rec_p_ok true) (rec_m_ok true)). Qed.

(* an expression that fails on a record that reaches it: the operator's callback reports a fresh failure *)
Lemma filter_expr_error : forall S pred (p : pfn S) s r e, pred r = Err e -> filter_cb pred p s r = fail_with s (EFail e).
Proof. intros. unfold filter_cb. rewrite H. reflexivity. Qed.
Lemma map_expr_error : forall S es (p : pfn S) s r e, eval_all es r = Err e -> map_cb es p s r = fail_with s (EFail e).
Proof. intros. unfold map_cb. rewrite H. reflexivity. Qed.
Lemma ost_expr_error : forall S keys dirs limit noretr (st : S * list oitem) r e,
  eval_all keys r = Err e -> ost_cb keys dirs limit noretr st r = fail_with st (EFail e).
Proof. intros. unfold ost_cb. rewrite H. reflexivity. Qed.
Lemma sgb_expr_error : forall S g (sh : S * list rec) r e, sgb_eval g r = Err e -> sgb_cb g sh r = fail_with sh (EFail e).
Proof. intros. unfold sgb_cb. rewrite H. reflexivity. Qed.
Lemma cgb_expr_error : forall S g (p : pfn S) sh r e, cgb_eval g r = Err e -> cgb_cb g p sh r = fail_with sh (EFail e).
Proof. intros. unfold cgb_cb. rewrite H. reflexivity. Qed.

(* a filter whose predicate fails on the first record of the script, under any cut-free-or-not operators above: the ghost is raised *)
Lemma script_first_record_fired : forall pred r evs fl,
  (exists e, pred r = Err e) ->
  rgen (run_top false (PFilter pred (PScript (Rec r :: evs) fl))) = true.
Proof. intros pred r evs fl [e He]. unfold run_top. simpl. unfold filter_node. simpl. unfold bindR, filter_cb. rewrite He. reflexivity. Qed.

(* ---- Limit: exactly when the failure is reached ---- *)
Fixpoint count_recs (evs : list event) : Z :=
  match evs with [] => 0 | Rec _ :: rest => 1 + count_recs rest | WM _ :: rest => count_recs rest end.
Lemma count_recs_nonneg : forall evs, 0 <= count_recs evs.
Proof. induction evs as [|[r|w] evs IH]; cbn [count_recs]; lia. Qed.

Lemma count_recs_app : forall a b, count_recs (a ++ b) = count_recs a + count_recs b.
Proof. induction a as [|[x|x] a IHa]; intros; cbn [count_recs app]; try rewrite IHa; lia. Qed.

Lemma limit_cb_rec : forall id k out i r,
  limit_cb id k rec_p (out, i) r =
  if i + 1 =? k then (out ++ [Rec r], i + 1, Some (ELimit id), false) else (out ++ [Rec r], i + 1, None, false).
Proof.
  intros. unfold limit_cb, rec_p, ret, bindR, mapst. cbn [rres rst rgen fst snd].
  destruct (i + 1 =? k); reflexivity.
Qed.
Lemma lift_rec_m : forall (out : list event) (i w : Z), lift_m rec_m (out, i) w = (out ++ [WM w], i, None, false).
Proof. reflexivity. Qed.

Lemma limit_script_reached : forall evs e id k i out,
  i + count_recs evs < k ->
  let x := run_script evs (Some e) (list event * Z)%type (limit_cb id k rec_p) (lift_m rec_m) (out, i) in
  rres x = Some (EFail e) /\ rgen x = true.
Proof.
  induction evs as [|[r|w] evs IH]; intros e id k i out Hlt; cbn [run_script count_recs] in *.
  - split; reflexivity.
  - pose proof (count_recs_nonneg evs). rewrite limit_cb_rec.
    destruct (i + 1 =? k) eqn:E; [apply Z.eqb_eq in E; lia|].
    unfold bindR. cbn [rres rst rgen fst snd].
    destruct (IH e id k (i + 1) (out ++ [Rec r])) as [H1 H2]; [lia|].
    cbv zeta in H1, H2. rewrite H1, H2. split; reflexivity.
  - rewrite lift_rec_m. unfold bindR. cbn [rres rst rgen fst snd].
    destruct (IH e id k i (out ++ [WM w])) as [H1 H2]; [lia|].
    cbv zeta in H1, H2. rewrite H1, H2. split; reflexivity.
Qed.

Theorem limit_failure_reached : forall id k evs e,
  count_recs evs < k ->
  rres (run_top false (PLimit id (Ok (VInt k)) (PScript evs (Some e)))) = Some (EFail e).
Proof.
  intros id k evs e H. unfold run_top. cbn [run]. unfold limit_node. cbn [on_eval int_of].
  pose proof (count_recs_nonneg evs) as Hn.
  destruct (k =? 0) eqn:Ek; [apply Z.eqb_eq in Ek; lia|].
  destruct (limit_script_reached evs e id k 0 []) as [H1 H2]; [lia|].
  cbv zeta in H1, H2. unfold rres at 1. cbn [fst snd]. rewrite H1. reflexivity.
Qed.

Lemma limit_script_cut : forall evs fl id k i out,
  i < k -> k <= i + count_recs evs ->
  let x := run_script evs fl (list event * Z)%type (limit_cb id k rec_p) (lift_m rec_m) (out, i) in
  rres x = Some (ELimit id) /\ rgen x = false /\ count_recs (fst (rst x)) = count_recs out + (k - i).
Proof.
  induction evs as [|[r|w] evs IH]; intros fl id k i out Hi Hk; cbn [run_script count_recs] in *.
  - lia.
  - rewrite limit_cb_rec. destruct (i + 1 =? k) eqn:E.
    + apply Z.eqb_eq in E. unfold bindR. cbn [rres rst rgen fst snd]. repeat split.
      rewrite count_recs_app. cbn [count_recs]. lia.
    + apply Z.eqb_neq in E. unfold bindR. cbn [rres rst rgen fst snd].
      destruct (IH fl id k (i + 1) (out ++ [Rec r])) as [H1 [H2 H3]]; [lia|lia|].
      cbv zeta in H1, H2, H3. rewrite H1, H2. repeat split.
      rewrite H3, count_recs_app. cbn [count_recs]. lia.
  - rewrite lift_rec_m. unfold bindR. cbn [rres rst rgen fst snd].
    destruct (IH fl id k i (out ++ [WM w])) as [H1 [H2 H3]]; [lia|lia|].
    cbv zeta in H1, H2, H3. rewrite H1, H2. repeat split.
    rewrite H3, count_recs_app. cbn [count_recs]. lia.
Qed.

Theorem limit_failure_cut_off : forall id k evs fl,
  0 < k -> k <= count_recs evs ->
  let x := run_top false (PLimit id (Ok (VInt k)) (PScript evs fl)) in
  rres x = None /\ rgen x = false /\ count_recs (rst x) = k.
Proof.
  intros id k evs fl H0 H. unfold run_top. cbn [run]. unfold limit_node. cbn [on_eval int_of].
  destruct (k =? 0) eqn:Ek; [apply Z.eqb_eq in Ek; lia|].
  destruct (limit_script_cut evs fl id k 0 []) as [H1 [H2 H3]]; [lia|lia|].
  cbv zeta in *.
  set (x := run_script evs fl (list event * Z)%type (limit_cb id k rec_p) (lift_m rec_m) ([], 0)) in *.
  unfold rres at 1. unfold rgen at 1. unfold rst at 1. cbn [fst snd]. rewrite H1, H2.
  cbn [swallow_own]. rewrite Z.eqb_refl. repeat split. unfold rst at 1. cbn [fst snd]. rewrite H3. cbn [count_recs]. lia.
Qed.

(* Limit swallows its own sentinel and nothing else *)
Lemma swallow_own_spec : forall id r,
  swallow_own id r = match r with Some (ELimit id') => if id' =? id then None else r | _ => r end.
Proof. reflexivity. Qed.
Lemma swallow_own_keeps_failures : forall id r, is_fail r = true -> swallow_own id r = r.
Proof. intros id [[| |]|]; simpl; intros; try discriminate; reflexivity. Qed.
Lemma swallow_own_keeps_foreign : forall id id', id' <> id -> swallow_own id (Some (ELimit id')) = Some (ELimit id').
Proof. intros. simpl. destruct (id' =? id) eqn:E; auto. apply Z.eqb_eq in E. contradiction. Qed.

(* ---- subquery expressions ---- *)
Lemma qe_cb_ok : forall b multi, HQp b (qe_cb multi).
Proof.
  intros b multi acc r. unfold qe_cb. destruct (retr r); [apply HQ_fail_EFail|].
  destruct multi; [apply HQ_ret|]. destruct (vals r); [apply HQ_fail_EPanic | apply HQ_ret].
Qed.

Theorem query_expr_honest : forall multi sub, node_ok false sub ->
  query_expr_gen multi sub = true -> is_ok (query_expr false multi sub) = false.
Proof.
  intros multi sub Hs Hg. unfold query_expr, query_expr_gen in *.
  pose proof (Hs _ (qe_cb multi) drop_meta [] (qe_cb_ok false multi) (drop_meta_ok false _)) as H.
  destruct (sub (list value) (qe_cb multi) drop_meta []) as [[st r] g]. hq. destruct H as [H _].
  specialize (H Hg). destruct r as [[| |]|]; simpl in *; try discriminate; reflexivity.
Qed.

Theorem query_expr_returns_error : forall multi (sub : node) e,
  rres (sub (list value) (qe_cb multi) drop_meta []) = Some (EFail e) -> query_expr false multi sub = Err e.
Proof. intros multi sub e H. unfold query_expr. rewrite H. reflexivity. Qed.

Theorem query_expr_fails_with_source : forall multi pl, cut_free pl -> source_fails pl ->
  is_ok (query_expr false multi (run false pl)) = false.
Proof.
  intros multi pl Hc Hf. unfold query_expr.
  pose proof (plan_fails pl Hc Hf _ (qe_cb multi) drop_meta [] (qe_cb_ok true multi) (drop_meta_ok true _)) as H.
  destruct (rres (run false pl (list value) (qe_cb multi) drop_meta [])) as [[| |]|]; simpl in *; try discriminate; reflexivity.
Qed.

(* ---- the eager sink ---- *)
Lemma sink_p_ok : forall b wr, HQp b (sink_p false wr).
Proof. intros b wr out r. unfold sink_p. destruct (wr r); [apply HQ_fail_EFail | apply HQ_ret]. Qed.
Theorem eager_sink_honest : forall wr pl,
  rgen (eager_sink false wr (run false pl)) = true -> is_fail (rres (eager_sink false wr (run false pl))) = true.
Proof. intros wr pl. apply (plan_honest pl _ (sink_p false wr) drop_meta [] (sink_p_ok false wr) (drop_meta_ok false _)). Qed.
Theorem eager_sink_write_error : forall wr evs r e,
  wr r = Some e -> In (Rec r) evs ->
  is_fail (rres (eager_sink false wr (run_script evs None))) = true.
Proof.
  intros wr evs r e Hw. unfold eager_sink. generalize (@nil rec).
  induction evs as [|[x|w] evs IH]; intros out Hin; simpl in *.
  - contradiction.
  - unfold bindR at 1.
    assert (Hs : sink_p false wr out x = match wr x with Some e => fail_with out (EFail e) | None => ret (out ++ [x]) end) by reflexivity.
    rewrite Hs. destruct (wr x) eqn:E.
    + reflexivity.
    + cbn [rres rst rgen ret fst snd]. destruct Hin as [Hin|Hin]; [inversion Hin; subst; congruence|]. apply IH; auto.
  - destruct Hin as [Hin|Hin]; [discriminate|]. unfold bindR at 1. simpl. apply IH; auto.
Qed.

(* ---- the pinned code ---- *)
Definition row1 (z : Z) : event := Rec (mkrec [VInt z] false zero_ns).

Lemma pinned_distinct_swallows :
  let pl := PDistinct (PScript [row1 1; row1 2] (Some 7)) in
  source_fails pl /\ cut_free pl /\ run_outcome true pl = Ok [row1 1; row1 2] /\ rgen (run_top true pl) = true.
Proof. vm_compute. repeat split; congruence. Qed.

Lemma pinned_distinct_swallows_expression_error :
  let pl := PDistinct (PMap [ev (CFailIf 0 (VInt 2))] (PScript [row1 1; row1 2; row1 3] None)) in
  run_outcome true pl = Ok [row1 1] /\ rgen (run_top true pl) = true.
Proof. vm_compute. repeat split; congruence. Qed.

Lemma pinned_ost_swallows :
  let pl := POst [ev (CCol 0)] [1] None true (PScript [row1 2; row1 1] (Some 7)) in
  source_fails pl /\ cut_free pl /\ run_outcome true pl = Ok [row1 1; row1 2] /\ rgen (run_top true pl) = true.
Proof. vm_compute. repeat split; congruence. Qed.

Lemma pinned_query_expr_swallows :
  let sub := PScript [row1 1] (Some 7) in
  source_fails sub /\ query_expr true false (run true sub) = Ok (VList [VInt 1]) /\ query_expr_gen false (run true sub) = true.
Proof. vm_compute. repeat split; congruence. Qed.

Lemma pinned_json_write_swallows :
  let wr := fun r : rec => if row_eqb (vals r) [VInt 2] then Some 9 else None in
  let x := eager_sink true wr (run_script [row1 1; row1 2] None) in
  rres x = None /\ sink_write_failed wr (rst x) = true.
Proof. vm_compute. split; reflexivity. Qed.

(* the fixed code on the same inputs *)
Lemma fixed_on_witnesses :
  run_outcome false (PDistinct (PScript [row1 1; row1 2] (Some 7))) = Err 7 /\
  run_outcome false (PDistinct (PMap [ev (CFailIf 0 (VInt 2))] (PScript [row1 1; row1 2; row1 3] None))) = Err 1 /\
  run_outcome false (POst [ev (CCol 0)] [1] None true (PScript [row1 2; row1 1] (Some 7))) = Err 7 /\
  query_expr false false (run false (PScript [row1 1] (Some 7))) = Err 7.
Proof. vm_compute. repeat split; reflexivity. Qed.

(* stacks: a list of unary operators applied above a leaf, topmost first *)
Inductive unop :=
| UFilter (pred : evalfn) | UMap (es : list evalfn) | UDistinct
| UOst (keys : list evalfn) (dirs : list Z) (lim : option (outcome value)) (noretr : bool)
| ULimit (id : Z) (lim : outcome value) | UUnnest (idx : nat) | USimpleGB (g : sgb) | UCustomGB (g : cgb) | UBuffer
| ULookup (joined : rec -> plan).
Definition apply_unop (u : unop) (src : plan) : plan :=
  match u with
  | UFilter pred => PFilter pred src | UMap es => PMap es src | UDistinct => PDistinct src
  | UOst keys dirs lim noretr => POst keys dirs lim noretr src
  | ULimit id lim => PLimit id lim src | UUnnest idx => PUnnest idx src
  | USimpleGB g => PSimpleGB g src | UCustomGB g => PCustomGB g src | UBuffer => PBuffer src
  | ULookup joined => PLookup src joined
  end.
Definition stack (ops : list unop) (leaf : plan) : plan := fold_right apply_unop leaf ops.
Definition unop_cut_free (u : unop) : Prop :=
  match u with
  | ULimit _ _ => False
  | UOst _ _ lim _ => ost_runs_source lim
  | ULookup joined => forall a, cut_free (joined a)
  | _ => True
  end.

Lemma stack_source_fails : forall ops leaf, source_fails leaf -> source_fails (stack ops leaf).
Proof. induction ops as [|u ops IH]; intros; simpl; auto. destruct u; simpl; auto. Qed.
Lemma stack_cut_free : forall ops leaf, Forall unop_cut_free ops -> cut_free leaf -> cut_free (stack ops leaf).
Proof.
  induction ops as [|u ops IH]; intros leaf Hf Hl; simpl; auto.
  inversion Hf; subst. specialize (IH leaf H2 Hl). destruct u; simpl in *; auto; try contradiction.
Qed.

Theorem stack_above_failing_source : forall ops evs e,
  Forall unop_cut_free ops ->
  is_fail (rres (run_top false (stack ops (PScript evs (Some e))))) = true.
Proof.
  intros. apply run_top_fails.
  - apply stack_cut_free; simpl; auto.
  - apply stack_source_fails. simpl. congruence.
Qed.

Theorem stack_honest : forall ops leaf,
  rgen (run_top false (stack ops leaf)) = true -> is_fail (rres (run_top false (stack ops leaf))) = true.
Proof. intros. apply run_top_honest; auto. Qed.
