(* Proofs/PlanLemmas.v — lemmas about Model/Plan.v: expression induction, evaluation depends only on the
   variables of an expression, Kleene AND keeps exactly the rows on which every conjunct is TRUE, name lookup in
   concatenated records, rows of a well-shaped plan have the width of its schema. *)
From Octo Require Import Plan Optimizer.

(* ---- lists ---- *)
Lemma flat_map_ext_in {A B} (f g : A -> list B) l :
  (forall x, In x l -> f x = g x) -> flat_map f l = flat_map g l.
Proof. induction l as [|a l IH]; simpl; intros H; [reflexivity|]. rewrite (H a), IH; auto. Qed.

Lemma filter_flat_map {A B} (q : B -> bool) (f : A -> list B) l :
  filter q (flat_map f l) = flat_map (fun x => filter q (f x)) l.
Proof. induction l as [|a l IH]; simpl; [reflexivity|]. rewrite filter_app, IH. reflexivity. Qed.

Lemma flat_map_filter {A B} (a : A -> bool) (f : A -> list B) l :
  flat_map f (filter a l) = flat_map (fun x => if a x then f x else []) l.
Proof. induction l as [|x l IH]; simpl; [reflexivity|]. destruct (a x); simpl; rewrite IH; reflexivity. Qed.

Lemma filter_filter {A} (p q : A -> bool) l : filter p (filter q l) = filter (fun x => q x && p x) l.
Proof. induction l as [|x l IH]; simpl; [reflexivity|]. destruct (q x); simpl; [destruct (p x)|]; rewrite IH; reflexivity. Qed.

Lemma filter_map_comm {A B} (q : B -> bool) (f : A -> B) l : filter q (map f l) = map f (filter (fun x => q (f x)) l).
Proof. induction l as [|x l IH]; simpl; [reflexivity|]. destruct (q (f x)); simpl; rewrite IH; reflexivity. Qed.

Lemma filter_true {A} (q : A -> bool) l : (forall x, In x l -> q x = true) -> filter q l = l.
Proof. induction l as [|x l IH]; simpl; intros H; [reflexivity|]. rewrite (H x), IH; auto. Qed.

Lemma forallb_flat_map {A B} (q : B -> bool) (f : A -> list B) l :
  forallb q (flat_map f l) = forallb (fun x => forallb q (f x)) l.
Proof. induction l as [|x l IH]; simpl; [reflexivity|]. rewrite forallb_app, IH. reflexivity. Qed.

Lemma forallb_map' {A B} (q : B -> bool) (f : A -> B) l : forallb q (map f l) = forallb (fun x => q (f x)) l.
Proof. induction l as [|x l IH]; simpl; [reflexivity|]. rewrite IH. reflexivity. Qed.

Lemma forallb_ext_in {A} (p q : A -> bool) l : (forall x, In x l -> p x = q x) -> forallb p l = forallb q l.
Proof. induction l as [|x l IH]; simpl; intros H; [reflexivity|]. rewrite (H x), IH; auto. Qed.

Lemma combine_app' {A B} (a b : list A) (c d : list B) :
  length a = length c -> combine (a ++ b) (c ++ d) = combine a c ++ combine b d.
Proof.
  revert c; induction a as [|x a IH]; intros [|y c] H; simpl in *; try discriminate; [reflexivity|].
  rewrite IH; auto.
Qed.

(* ---- names ---- *)
Lemma name_eqb_refl n : name_eqb n n = true. Proof. apply String.eqb_refl. Qed.
Lemma name_eqb_eq a b : name_eqb a b = true <-> a = b. Proof. apply String.eqb_eq. Qed.
Lemma name_eqb_neq a b : name_eqb a b = false <-> a <> b. Proof. apply String.eqb_neq. Qed.

Lemma mem_In n l : mem n l = true <-> In n l.
Proof.
  unfold mem. rewrite existsb_exists. split.
  - intros [x [Hx He]]. apply name_eqb_eq in He. subst. exact Hx.
  - intros H. exists n. split; [exact H | apply name_eqb_refl].
Qed.
Lemma mem_false n l : mem n l = false <-> ~ In n l.
Proof.
  rewrite <- mem_In. destruct (mem n l); split; intro H.
  - discriminate. - exfalso. apply H. reflexivity. - intro H'. discriminate. - reflexivity.
Qed.

Lemma list_eqb_name_eq a b : list_eqb name_eqb a b = true -> a = b.
Proof.
  revert b; induction a as [|x a IH]; intros [|y b]; simpl; intros H; try discriminate; [reflexivity|].
  apply andb_true_iff in H. destruct H as [H1 H2]. apply name_eqb_eq in H1. subst. f_equal. auto.
Qed.
Lemma list_eqb_name_refl a : list_eqb name_eqb a a = true.
Proof. induction a; simpl; [reflexivity|]. rewrite name_eqb_refl. exact IHa. Qed.
Lemma schema_eqb_eq a b : schema_eqb a b = true -> a = b.
Proof.
  destruct a, b. unfold schema_eqb. simpl. intros H. apply andb_true_iff in H. destruct H as [H1 H2].
  apply list_eqb_name_eq in H1. apply Z.eqb_eq in H2. subst. reflexivity.
Qed.
Lemma schema_eqb_refl a : schema_eqb a a = true.
Proof. unfold schema_eqb. rewrite list_eqb_name_refl, Z.eqb_refl. reflexivity. Qed.

Lemma assoc_app n l1 l2 :
  assoc n (l1 ++ l2) = match assoc n l1 with Some v => Some v | None => assoc n l2 end.
Proof. induction l1 as [|[k v] l1 IH]; simpl; [reflexivity|]. destruct (name_eqb n k); auto. Qed.

Lemma assoc_combine_none n fs vs : ~ In n fs -> assoc n (combine fs vs) = None.
Proof.
  revert vs; induction fs as [|f fs IH]; intros vs H; simpl; [reflexivity|].
  destruct vs as [|v vs]; [reflexivity|]. simpl.
  destruct (name_eqb n f) eqn:E. { apply name_eqb_eq in E. subst. exfalso. apply H. left; reflexivity. }
  apply IH. intros Hin. apply H. right; exact Hin.
Qed.
Lemma assoc_combine_some_in n fs vs v : assoc n (combine fs vs) = Some v -> In n fs.
Proof.
  intros H. destruct (in_dec string_dec n fs) as [Hi|Hn]; [exact Hi|].
  rewrite assoc_combine_none in H by exact Hn. discriminate.
Qed.

(* a variable that is not a field of the right record is looked up in the left record, then outside *)
Lemma lookup_app_left n lf rf (lr rr : row) env :
  length lf = length lr -> ~ In n rf -> lookup n ((lf ++ rf, lr ++ rr) :: env) = lookup n ((lf, lr) :: env).
Proof.
  intros Hl Hn. simpl. rewrite combine_app' by exact Hl. rewrite assoc_app.
  destruct (assoc n (combine lf lr)); [reflexivity|]. rewrite assoc_combine_none by exact Hn. reflexivity.
Qed.
Lemma lookup_app_right n lf rf (lr rr : row) env :
  length lf = length lr -> ~ In n lf -> lookup n ((lf ++ rf, lr ++ rr) :: env) = lookup n ((rf, rr) :: env).
Proof.
  intros Hl Hn. simpl. rewrite combine_app' by exact Hl. rewrite assoc_app.
  rewrite assoc_combine_none by exact Hn. reflexivity.
Qed.
(* lookup join: the joined side sees its own record first and the source record one level up; with disjoint
   field names that is the concatenated record *)
Lemma lookup_app_nested n sfs jf (sr jr : row) env :
  length sfs = length sr -> (forall x, In x sfs -> ~ In x jf) ->
  lookup n ((sfs ++ jf, sr ++ jr) :: env) = lookup n ((jf, jr) :: (sfs, sr) :: env).
Proof.
  intros Hl Hd. simpl. rewrite combine_app' by exact Hl. rewrite assoc_app.
  destruct (assoc n (combine sfs sr)) eqn:E.
  - apply assoc_combine_some_in in E as Hin. rewrite assoc_combine_none by (apply Hd; exact Hin). reflexivity.
  - destruct (assoc n (combine jf jr)); reflexivity.
Qed.

(* ---- induction over expressions (nested through list) ---- *)
Section ExprInd.
  Variable P : expr -> Prop.
  Hypothesis Hvar : forall n l, P (EVar n l).
  Hypothesis Hconst : forall v, P (EConst v).
  Hypothesis Hcall : forall f args, Forall P args -> P (ECall f args).
  Hypothesis Hand : forall args, Forall P args -> P (EAnd args).
  Hypothesis Hor : forall args, Forall P args -> P (EOr args).
  Hypothesis Hassert : forall t e, P e -> P (EAssert t e).
  Hypothesis Hcast : forall t e, P e -> P (ECast t e).
  Hypothesis Hother : forall k t args, Forall P args -> P (EOther k t args).
  Fixpoint expr_ind' (e : expr) : P e :=
    let fix go (l : list expr) : Forall P l :=
      match l with
      | [] => Forall_nil P
      | x :: t => Forall_cons x (expr_ind' x) (go t)
      end in
    match e with
    | EVar n l => Hvar n l
    | EConst v => Hconst v
    | ECall f args => Hcall f args (go args)
    | EAnd args => Hand args (go args)
    | EOr args => Hor args (go args)
    | EAssert t e' => Hassert t e' (expr_ind' e')
    | ECast t e' => Hcast t e' (expr_ind' e')
    | EOther k t args => Hother k t args (go args)
    end.
End ExprInd.

Lemma map_ext_Forall {A B} (f g : A -> B) l : Forall (fun x => f x = g x) l -> map f l = map g l.
Proof. induction 1; simpl; [reflexivity|]. congruence. Qed.

(* ---- Kleene AND: TRUE exactly when every argument is TRUE ---- *)
Lemma truthy_and_fold b vs : truthy (and_fold b vs) = negb b && forallb truthy vs.
Proof.
  revert b; induction vs as [|v vs IH]; intros b; simpl.
  - destruct b; reflexivity.
  - destruct v as [| | |[|]| | | | | |]; simpl; try (rewrite andb_false_r; reflexivity).
    + rewrite IH. simpl. rewrite andb_false_r. reflexivity.
    + apply IH.
Qed.

(* ---- group-by ---- *)
Lemma group_insert_keys_len keq n k a acc :
  length k = n -> (forall g, In g acc -> length (fst g) = n) ->
  forall g, In g (group_insert keq k a acc) -> length (fst g) = n.
Proof.
  intros Hk. induction acc as [|[k' ms] acc IH]; simpl; intros Hacc g Hg.
  - destruct Hg as [<-|[]]. exact Hk.
  - destruct (keq k k').
    + destruct Hg as [<-|Hg]; [apply (Hacc (k', ms)); left; reflexivity | apply Hacc; right; exact Hg].
    + destruct Hg as [<-|Hg]; [apply (Hacc (k', ms)); left; reflexivity|].
      apply IH; [|exact Hg]. intros g2 Hg2. apply Hacc. right; exact Hg2.
Qed.
Lemma group_fold_keys_len keq n (l : list (list value * list value)) :
  (forall ka, In ka l -> length (fst ka) = n) ->
  forall acc, (forall g, In g acc -> length (fst g) = n) ->
  forall g, In g (fold_left (fun gs ka => group_insert keq (fst ka) (snd ka) gs) l acc) -> length (fst g) = n.
Proof.
  induction l as [|ka l IH]; intros Hl acc Hacc g Hg; simpl in Hg; [auto|].
  refine (IH _ _ _ g Hg).
  - intros ka' Hka'. apply Hl. right; exact Hka'.
  - apply group_insert_keys_len; [apply Hl; left; reflexivity | exact Hacc].
Qed.
Lemma group_rows_keys_len keq n l :
  (forall ka, In ka l -> length (fst ka) = n) -> forall g, In g (group_rows keq l) -> length (fst g) = n.
Proof. intros Hl g Hg. eapply group_fold_keys_len; [exact Hl | | exact Hg]. intros g0 []. Qed.

Section Sem.
  Variable db : name -> name -> list (name * name) -> list (name -> value).
  Variable fn_sem : name -> list value -> value.
  Variable assert_sem : name -> value -> value.
  Variable cast_sem : Z -> value -> value.
  Variable other_sem : Z -> name -> list value -> value.
  Variable agg_sem : name -> list value -> value.
  Variable key_eqb : list value -> list value -> bool.
  Variable distinct_sel : list row -> list nat.
  Variable ost_sel : list (list value) -> list Z -> option value -> list nat.
  Variable tvf_sem : name -> list (name * value) -> list (name * name) -> option (schema * list row) -> list row.

  Notation eval := (eval fn_sem assert_sem cast_sem other_sem).
  Notation evals := (evals fn_sem assert_sem cast_sem other_sem).
  Notation keep := (keep fn_sem assert_sem cast_sem other_sem).
  Notation den_gen := (den_gen db fn_sem assert_sem cast_sem other_sem agg_sem key_eqb distinct_sel ost_sel tvf_sem).

  Lemma truthy_eval_and ps env : truthy (eval (EAnd ps) env) = forallb (fun p => truthy (eval p env)) ps.
  Proof. simpl. rewrite truthy_and_fold. simpl. rewrite forallb_map'. reflexivity. Qed.

  (* SplitByAnd keeps the truth of the predicate *)
  Lemma split_truthy e env : forallb (fun p => truthy (eval p env)) (split_by_and e) = truthy (eval e env).
  Proof.
    induction e using expr_ind'; try (simpl; rewrite andb_true_r; reflexivity).
    rewrite truthy_eval_and. simpl split_by_and. rewrite forallb_flat_map.
    induction H as [|x l Hx Hl IH]; simpl; [reflexivity|]. rewrite Hx, IH. reflexivity.
  Qed.

  (* evaluation reads the environment only through the variables of the expression *)
  Lemma eval_ext e : forall env1 env2,
    (forall n, In n (expr_vars e) -> lookup n env1 = lookup n env2) -> eval e env1 = eval e env2.
  Proof.
    assert (Hargs : forall args env1 env2, Forall (fun e => forall env1 env2,
        (forall n, In n (expr_vars e) -> lookup n env1 = lookup n env2) -> eval e env1 = eval e env2) args ->
      (forall n, In n (flat_map expr_vars args) -> lookup n env1 = lookup n env2) ->
      map (fun a => eval a env1) args = map (fun a => eval a env2) args).
    { intros args env1 env2 HF Hv. induction HF as [|x l Hx Hl IH]; simpl; [reflexivity|].
      simpl in Hv. f_equal.
      - apply Hx. intros n Hn. apply Hv. apply in_or_app. left; exact Hn.
      - apply IH. intros n Hn. apply Hv. apply in_or_app. right; exact Hn. }
    induction e using expr_ind'; intros env1 env2 Hv; simpl in *.
    - apply Hv. left; reflexivity.
    - reflexivity.
    - rewrite (Hargs args env1 env2 H Hv). reflexivity.
    - rewrite (Hargs args env1 env2 H Hv). reflexivity.
    - rewrite (Hargs args env1 env2 H Hv). reflexivity.
    - rewrite (IHe env1 env2 Hv). reflexivity.
    - rewrite (IHe env1 env2 Hv). reflexivity.
    - rewrite (Hargs args env1 env2 H Hv). reflexivity.
  Qed.

  Lemma evals_ext es env1 env2 :
    (forall n, In n (flat_map expr_vars es) -> lookup n env1 = lookup n env2) -> evals es env1 = evals es env2.
  Proof.
    intros Hv. unfold Plan.evals. apply map_ext_in. intros e He. apply eval_ext.
    intros n Hn. apply Hv. apply in_flat_map. exists e. split; assumption.
  Qed.

  (* IsLevel0 is not read by Materialize *)
  Lemma eval_set_nonlevel0 fs e env : eval (set_nonlevel0 fs e) env = eval e env.
  Proof.
    induction e using expr_ind'; simpl;
      try reflexivity;
      try (rewrite map_map; rewrite (map_ext_Forall _ (fun a => eval a env) args); [reflexivity|exact H]).
    - destruct (mem n fs); reflexivity.
    - rewrite IHe; reflexivity.
    - rewrite IHe; reflexivity.
  Qed.

  Lemma select_In {A} (idxs : list nat) (l : list A) x : In x (select idxs l) -> In x l.
  Proof.
    unfold select. rewrite in_flat_map. intros [i [_ H]].
    destruct (nth_error l i) eqn:E; simpl in H; [|contradiction].
    destruct H as [H|[]]. subst. eapply nth_error_In; eauto.
  Qed.

  Lemma replace_nth_length {A} i (x : A) l : length (replace_nth i x l) = length l.
  Proof. revert i; induction l as [|h t IH]; intros [|i]; simpl; auto. Qed.

  (* rows have the width of the schema *)
  Lemma den_rows_len km p : shapeb p = true -> forall env r, In r (den_gen km p env) -> length r = length (fields_of p).
  Proof.
    induction p; simpl; intros Hs env r0 Hin; unfold fields_of in *; simpl in *.
    - apply filter_In in Hin. destruct Hin as [Hin _]. apply in_map_iff in Hin. destruct Hin as [rec [<- _]].
      apply map_length.
    - apply andb_true_iff in Hs. destruct Hs as [Hs1 Hs2]. apply schema_eqb_eq in Hs1. subst s.
      apply select_In in Hin. eauto.
    - apply andb_true_iff in Hs. destruct Hs as [Hs1 Hs2]. apply schema_eqb_eq in Hs1. subst s.
      apply filter_In in Hin. destruct Hin as [Hin _]. eauto.
    - apply andb_true_iff in Hs. destruct Hs as [Hs Hs3]. apply andb_true_iff in Hs. destruct Hs as [Hs1 Hs2].
      apply Nat.eqb_eq in Hs1. apply Nat.eqb_eq in Hs2.
      apply in_map_iff in Hin. destruct Hin as [g [<- Hg]].
      unfold group_out. rewrite app_length, map_length, combine_length, seq_length, Nat.min_id.
      assert (Hk : length (fst g) = length keys).
      { eapply group_rows_keys_len; [|exact Hg]. intros ka Hka. apply in_map_iff in Hka.
        destruct Hka as [r [<- _]]. simpl. unfold Plan.evals. apply map_length. }
      rewrite Hk. symmetry. exact Hs1.
    - repeat (apply andb_true_iff in Hs; destruct Hs as [Hs ?]).
      apply list_eqb_name_eq in Hs. rewrite Hs.
      apply in_flat_map in Hin. destruct Hin as [lr [Hlr Hin]].
      apply in_flat_map in Hin. destruct Hin as [rr [Hrr Hin]].
      destruct (forallb2' _ _ _); [|contradiction]. destruct Hin as [<-|[]].
      rewrite !app_length. erewrite IHp1, IHp2; eauto.
    - repeat (apply andb_true_iff in Hs; destruct Hs as [Hs ?]).
      apply list_eqb_name_eq in Hs. rewrite Hs.
      apply in_flat_map in Hin. destruct Hin as [sr [Hsr Hin]].
      apply in_map_iff in Hin. destruct Hin as [jr [<- Hjr]].
      rewrite !app_length. erewrite IHp1, IHp2; eauto.
    - apply andb_true_iff in Hs. destruct Hs as [Hs1 Hs2]. apply Nat.eqb_eq in Hs1.
      apply in_map_iff in Hin. destruct Hin as [r1 [<- _]]. unfold Plan.evals. rewrite map_length. symmetry; exact Hs1.
    - repeat (apply andb_true_iff in Hs; destruct Hs as [Hs ?]).
      apply list_eqb_name_eq in Hs. rewrite Hs.
      destruct (index_of field (sf s)); [|contradiction].
      apply in_flat_map in Hin. destruct Hin as [r1 [Hr1 Hin]].
      unfold unnest_row in Hin. destruct (nth_error r1 n) as [[]|]; try contradiction.
      apply in_map_iff in Hin. destruct Hin as [x [<- _]]. rewrite replace_nth_length. eauto.
    - apply andb_true_iff in Hs. destruct Hs as [Hs1 Hs2]. apply schema_eqb_eq in Hs1. subst s.
      apply select_In in Hin. eauto.
    - apply filter_In in Hin. destruct Hin as [_ Hl]. apply Nat.eqb_eq in Hl. exact Hl.
    - apply filter_In in Hin. destruct Hin as [_ Hl]. apply Nat.eqb_eq in Hl. exact Hl.
  Qed.
End Sem.
