(* Proofs/NumFnsProofs.v — lemmas about Model/NumFns.v (property C13). *)
From Coq Require Import SpecFloat.
From Octo Require Import NumFns.

(* ---------------- wrap64 ---------------- *)
Lemma wrap64_range : forall z, in_int64 (wrap64 z).
Proof.
  intros z. unfold in_int64, wrap64.
  pose proof (Z.mod_pos_bound (z + two63) two64 ltac:(reflexivity)). unfold two63, two64 in *. lia.
Qed.

Lemma wrap64_id : forall z, in_int64 z -> wrap64 z = z.
Proof.
  intros z H. unfold in_int64, wrap64 in *. rewrite Z.mod_small; unfold two63, two64 in *; lia.
Qed.

Lemma wrap64_cong : forall z, exists k, wrap64 z = z + k * two64.
Proof.
  intros z. unfold wrap64. exists (- ((z + two63) / two64)).
  pose proof (Z.div_mod (z + two63) two64 ltac:(discriminate)). lia.
Qed.

Lemma wrap64_add_l : forall a b, wrap64 (wrap64 a + b) = wrap64 (a + b).
Proof.
  intros a b. unfold wrap64.
  replace ((a + two63) mod two64 - two63 + b + two63) with ((a + two63) mod two64 + b) by lia.
  rewrite Z.add_mod_idemp_l by discriminate. f_equal. f_equal. lia.
Qed.

Lemma wrap64_sub_r : forall a b, wrap64 (wrap64 (a + b) - b) = wrap64 a.
Proof.
  intros a b. replace (wrap64 (a + b) - b) with (wrap64 (a + b) + (- b)) by lia.
  rewrite wrap64_add_l. f_equal. lia.
Qed.

(* ---------------- Int / Duration ---------------- *)
Lemma int_ring : forall a b,
  (int_add a b = wrap64 (a + b) /\ in_int64 (int_add a b) /\ (in_int64 (a + b) -> int_add a b = a + b)) /\
  (int_sub a b = wrap64 (a - b) /\ in_int64 (int_sub a b) /\ (in_int64 (a - b) -> int_sub a b = a - b)) /\
  (int_mul a b = wrap64 (a * b) /\ in_int64 (int_mul a b) /\ (in_int64 (a * b) -> int_mul a b = a * b)) /\
  (int_neg a = wrap64 (- a) /\ in_int64 (int_neg a) /\ (in_int64 (- a) -> int_neg a = - a)).
Proof.
  intros a b. unfold int_add, int_sub, int_mul, int_neg.
  repeat split; try apply wrap64_range; apply wrap64_id.
Qed.

Lemma quot_range : forall a b, in_int64 a -> b <> 0 -> ~ (a = min_int64 /\ b = -1) -> in_int64 b -> in_int64 (Z.quot a b).
Proof.
  intros a b Ha Hb Hx Hbr. unfold in_int64, min_int64, two63 in *.
  assert (Habs : Z.abs (Z.quot a b) <= Z.abs a).
  { rewrite <- Z.quot_abs by assumption.
    rewrite Z.quot_div_nonneg by lia.
    apply Z.div_le_upper_bound; [lia|]. nia. }
  destruct (Z.eq_dec a (-9223372036854775808)) as [E|E].
  - subst a. assert (b <> -1) by tauto.
    destruct (Z.eq_dec b 1) as [->|]. { rewrite Z.quot_1_r. lia. }
    assert (Z.abs (Z.quot (-9223372036854775808) b) <= 9223372036854775808 / 2).
    { rewrite <- Z.quot_abs by assumption. rewrite Z.quot_div_nonneg by lia.
      change (Z.abs (-9223372036854775808)) with 9223372036854775808.
      apply Z.div_le_compat_l; lia. }
    change (9223372036854775808 / 2) with 4611686018427387904 in *. lia.
  - lia.
Qed.

Lemma int_div_spec : forall a b, b <> 0 -> int_div a b = Ok (wrap64 (Z.quot a b)).
Proof. intros a b H. unfold int_div. destruct (b =? 0) eqn:E; [apply Z.eqb_eq in E; contradiction|reflexivity]. Qed.

Lemma int_div_exact : forall a b, in_int64 a -> in_int64 b -> b <> 0 -> ~ (a = min_int64 /\ b = -1) ->
  int_div a b = Ok (Z.quot a b).
Proof. intros. rewrite int_div_spec by assumption. f_equal. apply wrap64_id. apply quot_range; assumption. Qed.

Lemma int_div_min_neg1 : int_div min_int64 (-1) = Ok min_int64.
Proof. reflexivity. Qed.

Lemma int_div_zero : forall a, int_div a 0 = Err E_div_zero.
Proof. reflexivity. Qed.

Lemma int_div_never_panics : forall a b, is_panic (int_div a b) = false.
Proof. intros. unfold int_div. destruct (b =? 0); reflexivity. Qed.

Lemma int_div_pinned_panics : exists a, int_div_pinned a 0 = Panic P_div_zero.
Proof. exists 1. reflexivity. Qed.

Lemma int_abs_spec : forall a, in_int64 a -> int_abs a = wrap64 (Z.abs a).
Proof.
  intros a H. unfold int_abs. destruct (0 <? a) eqn:E.
  - apply Z.ltb_lt in E. rewrite Z.abs_eq by lia. symmetry. apply wrap64_id. assumption.
  - apply Z.ltb_ge in E. f_equal. lia.
Qed.

Lemma int_abs_exact : forall a, in_int64 a -> a <> min_int64 -> int_abs a = Z.abs a.
Proof.
  intros a H N. rewrite int_abs_spec by assumption. apply wrap64_id.
  unfold in_int64, min_int64, two63 in *. lia.
Qed.

Lemma int_abs_min : int_abs min_int64 = min_int64.
Proof. reflexivity. Qed.

(* ---------------- Time ---------------- *)
Lemma time_from_unix_exact : forall x, in_int64 x -> in_int64 (x + unix_to_internal) -> time_from_unix x = x * e9.
Proof.
  intros x H1 H2. unfold time_from_unix, time_unix, t_make.
  change (0 / e9) with 0. change (0 mod e9) with 0. rewrite !Z.add_0_r.
  rewrite (wrap64_id x) by assumption. rewrite wrap64_id by assumption. lia.
Qed.

Lemma unix_round_trip : forall x, in_int64 x -> time_to_unix (time_from_unix x) = x.
Proof.
  intros x H. unfold time_to_unix, time_from_unix, time_unix, t_make, t_ext.
  change (0 / e9) with 0. change (0 mod e9) with 0. rewrite !Z.add_0_r.
  rewrite Z.div_mul by discriminate.
  replace (wrap64 (wrap64 x + unix_to_internal) - unix_to_internal + unix_to_internal - unix_to_internal)
    with (wrap64 (wrap64 x + unix_to_internal) - unix_to_internal) by lia.
  rewrite wrap64_add_l. rewrite wrap64_sub_r. apply wrap64_id. assumption.
Qed.

Lemma time_to_unix_floor : forall t, in_int64 (t / e9) -> time_to_unix t = t / e9.
Proof.
  intros t H. unfold time_to_unix, t_ext.
  replace (t / e9 + unix_to_internal - unix_to_internal) with (t / e9) by lia. apply wrap64_id. assumption.
Qed.

Lemma time_add_exact : forall ns d,
  in_int64 (t_ext ns + d / e9 + 1) -> in_int64 (t_ext ns + d / e9 - 1) ->
  time_add ns d = ns + d.
Proof.
  intros ns d H1 H2. unfold time_add, t_nsec.
  pose proof (Z.quot_rem' d e9) as Hq.
  pose proof (Z.rem_bound_abs d e9 ltac:(discriminate)) as Hr.
  pose proof (Z.div_mod d e9 ltac:(discriminate)) as Hd.
  pose proof (Z.mod_pos_bound d e9 ltac:(reflexivity)) as Hdm.
  pose proof (Z.div_mod ns e9 ltac:(discriminate)) as Hn.
  pose proof (Z.mod_pos_bound ns e9 ltac:(reflexivity)) as Hnm.
  assert (Hsgn : 0 <= d -> 0 <= Z.rem d e9) by (intro; apply Z.rem_nonneg; [discriminate|assumption]).
  assert (Hsgn2 : d <= 0 -> Z.rem d e9 <= 0) by (intro; apply Z.rem_nonpos; [discriminate|assumption]).
  unfold t_ext, in_int64 in *. unfold e9, two63, unix_to_internal in *.
  set (q := Z.quot d 1000000000) in *. set (r := Z.rem d 1000000000) in *.
  set (dq := d / 1000000000) in *. set (dm := d mod 1000000000) in *.
  set (nq := ns / 1000000000) in *. set (nm := ns mod 1000000000) in *.
  assert (Hqd : q = dq \/ q = dq + 1) by lia.
  assert (Hsat : forall k, dq - 1 <= k <= dq + 1 ->
            sat_add_sec (nq + 62135596800) k = nq + 62135596800 + k).
  { intros k Hk. unfold sat_add_sec. rewrite wrap64_id by (unfold in_int64, two63; lia).
    destruct (0 <? k) eqn:E1; destruct (nq + 62135596800 <? nq + 62135596800 + k) eqn:E2; simpl; try reflexivity;
      [apply Z.ltb_lt in E1; apply Z.ltb_ge in E2; lia | apply Z.ltb_ge in E1; apply Z.ltb_lt in E2; lia]. }
  destruct (1000000000 <=? nm + r) eqn:C1.
  - apply Z.leb_le in C1. unfold t_make, unix_to_internal, e9. rewrite Hsat by lia. lia.
  - apply Z.leb_gt in C1. destruct (nm + r <? 0) eqn:C2.
    + apply Z.ltb_lt in C2. unfold t_make, unix_to_internal, e9. rewrite Hsat by lia. lia.
    + apply Z.ltb_ge in C2. unfold t_make, unix_to_internal, e9. rewrite Hsat by lia. lia.
Qed.

(* ---------------- int(String) ---------------- *)
Lemma is_digit_bounds : forall c, is_digit c = true -> 0 <= c - 48 <= 9.
Proof. intros c H. unfold is_digit in H. apply andb_prop in H. destruct H as [A B]. apply Z.leb_le in A, B. lia. Qed.

Lemma digits_value_ge : forall s acc, 0 <= acc -> forallb is_digit s = true -> acc <= digits_value acc s.
Proof.
  induction s as [|c s IH]; intros acc H D; simpl in *; [lia|].
  apply andb_prop in D. destruct D as [D1 D2]. pose proof (is_digit_bounds c D1).
  specialize (IH (acc * 10 + (c - 48)) ltac:(lia) D2). lia.
Qed.

Lemma pu_loop_digits : forall s n, 0 <= n < two64 -> forallb is_digit s = true ->
  pu_loop s n = if digits_value n s <? two64 then Ok (digits_value n s) else Err PE_range.
Proof.
  induction s as [|c s IH]; intros n Hn D; simpl in *.
  - destruct (n <? two64) eqn:E; [reflexivity|apply Z.ltb_ge in E; lia].
  - apply andb_prop in D. destruct D as [D1 D2]. rewrite D1. pose proof (is_digit_bounds c D1) as Hd.
    unfold pu_cutoff, pu_max, two64 in *.
    destruct (1844674407370955162 <=? n) eqn:C.
    + apply Z.leb_le in C.
      pose proof (digits_value_ge s (n * 10 + (c - 48)) ltac:(lia) D2).
      destruct (digits_value (n * 10 + (c - 48)) s <? 18446744073709551616) eqn:E; [apply Z.ltb_lt in E; lia|reflexivity].
    + apply Z.leb_gt in C.
      destruct (n * 10 + (c - 48) <? 18446744073709551616) eqn:F.
      * apply Z.ltb_lt in F. rewrite Z.mod_small by lia.
        destruct (n * 10 + (c - 48) <? n * 10) eqn:G; [apply Z.ltb_lt in G; lia|].
        destruct (18446744073709551616 - 1 <? n * 10 + (c - 48)) eqn:G2; [apply Z.ltb_lt in G2; lia|].
        simpl. apply IH; [lia|assumption].
      * apply Z.ltb_ge in F.
        replace ((n * 10 + (c - 48)) mod 18446744073709551616) with (n * 10 + (c - 48) - 18446744073709551616).
        2:{ symmetry. rewrite <- (Z.mod_small (n * 10 + (c - 48) - 18446744073709551616) 18446744073709551616) by lia.
            replace (n * 10 + (c - 48) - 18446744073709551616) with (n * 10 + (c - 48) + (-1) * 18446744073709551616) by lia.
            rewrite Z.mod_add by discriminate. reflexivity. }
        destruct (n * 10 + (c - 48) - 18446744073709551616 <? n * 10) eqn:G; [|apply Z.ltb_ge in G; lia].
        simpl.
        pose proof (digits_value_ge s (n * 10 + (c - 48)) ltac:(lia) D2).
        destruct (digits_value (n * 10 + (c - 48)) s <? 18446744073709551616) eqn:E; [apply Z.ltb_lt in E; lia|reflexivity].
Qed.

Lemma pu_loop_nondigit : forall s n, forallb is_digit s = false -> exists e, pu_loop s n = Err e.
Proof.
  induction s as [|c s IH]; intros n D; simpl in *; [discriminate|].
  destruct (is_digit c) eqn:Dc; simpl in D.
  - destruct (pu_cutoff <=? n); [eexists; reflexivity|].
    destruct ((((n * 10 + (c - 48)) mod two64 <? n * 10) || (pu_max <? (n * 10 + (c - 48)) mod two64))%bool); [eexists; reflexivity|].
    apply IH. assumption.
  - eexists; reflexivity.
Qed.

(* ParseUint on a non-empty body, against the mathematical reading *)
Lemma parse_uint_digits : forall body, body <> [] -> forallb is_digit body = true ->
  parse_uint body = if digits_value 0 body <? two64 then Ok (digits_value 0 body) else Err PE_range.
Proof.
  intros body Hne D. destruct body as [|c r]; [contradiction|]. unfold parse_uint.
  apply pu_loop_digits; [unfold two64; lia|assumption].
Qed.
Lemma parse_uint_nondigit : forall body, forallb is_digit body = false -> exists e, parse_uint body = Err e.
Proof.
  intros body D. destruct body as [|c r]; [discriminate|]. unfold parse_uint. apply pu_loop_nondigit. assumption.
Qed.

Lemma parse_body : forall (neg : bool) body,
  match (match body with
         | [] => Err PE_syntax
         | _ => obind (parse_uint body) (fun un =>
                  if negb neg && (two63 <=? un) then Err PE_range
                  else if neg && (two63 <? un) then Err PE_range
                  else Ok (if neg then wrap64 (- un) else un))
         end) with
  | Ok z => VInt z | _ => VNull end
  =
  match (match body with
         | [] => None
         | _ => if forallb is_digit body then
                  let v := digits_value 0 body in
                  let z := if neg then - v else v in
                  if in_int64b z then Some z else None
                else None
         end) with
  | Some z => VInt z | None => VNull end.
Proof.
  intros neg body. destruct body as [|c r]; [reflexivity|].
  destruct (forallb is_digit (c :: r)) eqn:D.
  - rewrite (parse_uint_digits (c :: r) ltac:(discriminate) D). pose proof (digits_value_ge (c :: r) 0 ltac:(lia) D) as Hge.
    set (v := digits_value 0 (c :: r)) in *. cbv zeta. unfold in_int64b.
    remember (- two63) as m63 eqn:Hm.
    destruct (Z.ltb_spec v two64) as [E|E]; simpl obind.
    + destruct neg; simpl negb; simpl andb.
      * destruct (Z.ltb_spec two63 v) as [F|F].
        -- destruct (Z.leb_spec m63 (- v)) as [G|G]; [subst m63; lia|reflexivity].
        -- rewrite wrap64_id by (unfold in_int64, two63 in *; lia).
           destruct (Z.leb_spec m63 (- v)) as [G|G]; [|subst m63; lia].
           destruct (Z.ltb_spec (- v) two63) as [G2|G2]; [reflexivity|unfold two63 in *; lia].
      * destruct (Z.leb_spec two63 v) as [F|F].
        -- destruct (Z.ltb_spec v two63) as [G2|G2]; [lia|]. rewrite andb_false_r. reflexivity.
        -- destruct (Z.leb_spec m63 v) as [G|G]; [|subst m63; unfold two63 in *; lia].
           destruct (Z.ltb_spec v two63) as [G2|G2]; [reflexivity|lia].
    + assert (two63 < two64) by reflexivity.
      destruct neg.
      * destruct (Z.leb_spec m63 (- v)) as [G|G]; [subst m63; lia|reflexivity].
      * destruct (Z.ltb_spec v two63) as [G2|G2]; [lia|]. rewrite andb_false_r. reflexivity.
  - destruct (parse_uint_nondigit (c :: r) D) as [e He]. rewrite He. reflexivity.
Qed.

Lemma int_of_string_spec : forall s,
  int_of_string s = match parse_decimal_int64 s with Some z => VInt z | None => VNull end.
Proof.
  intros s. unfold int_of_string, parse_int, parse_decimal_int64.
  destruct s as [|c r]; [reflexivity|].
  destruct (c =? 43) eqn:E1.
  - simpl orb. cbv iota. apply Z.eqb_eq in E1. subst c. change (43 =? 45) with false.
    pose proof (parse_body false r) as P. destruct r; exact P.
  - destruct (c =? 45) eqn:E2.
    + simpl orb. cbv iota. pose proof (parse_body true r) as P. destruct r; exact P.
    + simpl orb. cbv iota. pose proof (parse_body false (c :: r)) as P. exact P.
Qed.

(* ---------------- IN / NOT IN / [] ---------------- *)
Lemma in_loop_spec : forall x l, in_loop x l = existsb (vequal x) l.
Proof. induction l as [|y l IH]; simpl; [reflexivity|]. destruct (vequal x y); simpl; auto. Qed.

Lemma not_in_loop_spec : forall x l, not_in_loop x l = negb (existsb (vequal x) l).
Proof. induction l as [|y l IH]; simpl; [reflexivity|]. destruct (vequal x y); simpl; auto. Qed.

Lemma vequal_null_l : forall y, vequal VNull y = false.
Proof. destruct y; reflexivity. Qed.

Lemma in_loop_null : forall l, in_loop VNull l = false.
Proof. induction l as [|y l IH]; [reflexivity|]. cbn [in_loop]. rewrite vequal_null_l. assumption. Qed.

Lemma index_fn_spec : forall l i,
  index_fn l i = Ok (if (0 <=? i) && (i <? Z.of_nat (length l)) then nth (Z.to_nat i) l VNull else VNull).
Proof.
  intros l i. unfold index_fn.
  destruct (i <? 0) eqn:A.
  - apply Z.ltb_lt in A. simpl. destruct (0 <=? i) eqn:B; [apply Z.leb_le in B; lia|reflexivity].
  - apply Z.ltb_ge in A. simpl. destruct (0 <=? i) eqn:B; [|apply Z.leb_gt in B; lia]. simpl.
    destruct (Z.of_nat (length l) <=? i) eqn:C.
    + apply Z.leb_le in C. destruct (i <? Z.of_nat (length l)) eqn:D; [apply Z.ltb_lt in D; lia|reflexivity].
    + apply Z.leb_gt in C. destruct (i <? Z.of_nat (length l)) eqn:D; [|apply Z.ltb_ge in D; lia].
      rewrite (nth_error_nth' l VNull) by lia. reflexivity.
Qed.

Lemma index_pinned_panics : exists l i, index_pinned l i = Panic P_index.
Proof. exists [VInt 1], (-1). reflexivity. Qed.

(* ---------------- String * Int ---------------- *)
Lemma repeat_bytes_concat : forall s n, repeat_bytes s n = concat (repeat s n).
Proof. induction n; simpl; [reflexivity|]. rewrite IHn. reflexivity. Qed.

Lemma str_repeat_spec : forall s n,
  str_repeat s n =
    if n <? 0 then Err E_neg_repeat
    else if max_int64 <? Z.of_nat (length s) * n then Err E_repeat_overflow
    else Ok (concat (repeat s (Z.to_nat n))).
Proof.
  intros s n. unfold str_repeat.
  destruct (Z.ltb_spec n 0) as [Hn|Hn]; [reflexivity|].
  set (len := Z.of_nat (length s)). assert (Hlen : 0 <= len) by (unfold len; lia).
  assert (Hov : ((0 <? len) && (max_int64 / len <? n))%bool = (max_int64 <? len * n)).
  { destruct (Z.ltb_spec 0 len) as [L|L]; simpl.
    - destruct (Z.ltb_spec (max_int64 / len) n) as [A|A]; destruct (Z.ltb_spec max_int64 (len * n)) as [B|B]; try reflexivity.
      + exfalso. pose proof (Z.mul_succ_div_gt max_int64 len L). nia.
      + exfalso. pose proof (Z.mul_div_le max_int64 len L). nia.
    - assert (E0 : len = 0) by lia. destruct (Z.ltb_spec max_int64 (len * n)) as [B|B]; [|reflexivity].
      rewrite E0 in B. unfold max_int64 in B. lia. }
  rewrite Hov. destruct (Z.ltb_spec max_int64 (len * n)) as [B|B]; [reflexivity|].
  unfold go_repeat.
  destruct (Z.eqb_spec n 0) as [->|N0]; [reflexivity|].
  destruct (Z.eqb_spec n 1) as [->|N1]; [simpl; rewrite app_nil_r; reflexivity|].
  destruct (Z.ltb_spec n 0) as [?|_]; [lia|].
  fold len. destruct (Z.ltb_spec max_int64 (len * n)) as [?|_]; [lia|].
  destruct s as [|c s]; [|rewrite repeat_bytes_concat; reflexivity].
  f_equal. clear. induction (Z.to_nat n); simpl; auto.
Qed.

Lemma str_repeat_never_panics : forall s n, is_panic (str_repeat s n) = false.
Proof.
  intros. rewrite str_repeat_spec. destruct (n <? 0); [reflexivity|].
  destruct (max_int64 <? Z.of_nat (length s) * n); reflexivity.
Qed.

Lemma str_repeat_pinned_panics : exists s n, str_repeat_pinned s n = Panic P_neg_repeat.
Proof. exists [97], (-1). reflexivity. Qed.

(* ---------------- COALESCE ---------------- *)
Lemma coalesce_gen_first : forall fixl nulls v post maps n,
  v <> VNull -> Forall (fun a => a = AVal VNull) nulls ->
  coalesce_gen fixl (nulls ++ AVal v :: post) maps n =
    (match nth_error maps (length nulls) with Some m => fixl m v | None => Panic P_index end,
     n + Z.of_nat (length nulls) + 1).
Proof.
  intros fixl nulls v post. induction nulls as [|a nulls IH]; intros maps n Hv Hn.
  - simpl. destruct v; try contradiction; destruct maps; simpl; f_equal; lia.
  - inversion Hn; subst. cbn [app coalesce_gen]. rewrite IH by assumption.
    destruct maps; cbn [tl length nth_error]; [destruct (length nulls)|]; f_equal; lia.
Qed.

Lemma coalesce_gen_all_null : forall fixl nulls maps n,
  Forall (fun a => a = AVal VNull) nulls ->
  coalesce_gen fixl nulls maps n = (Ok VNull, n + Z.of_nat (length nulls)).
Proof.
  intros fixl nulls. induction nulls as [|a nulls IH]; intros maps n Hn.
  - simpl. f_equal. lia.
  - inversion Hn; subst. cbn [coalesce_gen]. rewrite IH by assumption. cbn [length]. f_equal. lia.
Qed.

Lemma coalesce_gen_error : forall fixl nulls post maps n,
  Forall (fun a => a = AVal VNull) nulls ->
  coalesce_gen fixl (nulls ++ AErr :: post) maps n = (Err E_arg, n + Z.of_nat (length nulls) + 1).
Proof.
  intros fixl nulls post. induction nulls as [|a nulls IH]; intros maps n Hn.
  - simpl. f_equal. lia.
  - inversion Hn; subst. cbn [app coalesce_gen]. rewrite IH by assumption. cbn [length]. f_equal. lia.
Qed.

Lemma fix_layout_scalar : forall listbug pad m v, is_scalar v = true -> fix_layout_gen listbug pad m v = Ok v.
Proof. intros listbug pad m v H. destruct v; try discriminate; reflexivity. Qed.

Lemma fix_layout_pinned_tuple_panics : forall m v vs, is_panic (fix_layout_pinned m (VTuple (v :: vs))) = true.
Proof. intros [st li [ems|]] v vs; reflexivity. Qed.

(* ---------------- floor / ceil / trunc on the decoded value ---------------- *)
Lemma floor_bracket : forall s m e, e < 0 ->
  sf_floor_int s m e * 2 ^ (- e) <= signed_m s m < (sf_floor_int s m e + 1) * 2 ^ (- e).
Proof.
  intros s m e He. unfold sf_floor_int. destruct (Z.leb_spec 0 e) as [?|_]; [lia|].
  assert (P : 0 < 2 ^ (- e)) by (apply Z.pow_pos_nonneg; lia).
  pose proof (Z.mul_div_le (signed_m s m) _ P). pose proof (Z.mul_succ_div_gt (signed_m s m) _ P). lia.
Qed.

Lemma ceil_bracket : forall s m e, e < 0 ->
  (sf_ceil_int s m e - 1) * 2 ^ (- e) < signed_m s m <= sf_ceil_int s m e * 2 ^ (- e).
Proof.
  intros s m e He. unfold sf_ceil_int. destruct (Z.leb_spec 0 e) as [?|_]; [lia|].
  assert (P : 0 < 2 ^ (- e)) by (apply Z.pow_pos_nonneg; lia).
  pose proof (Z.mul_div_le (- signed_m s m) _ P). pose proof (Z.mul_succ_div_gt (- signed_m s m) _ P). lia.
Qed.

Lemma floor_ceil_integral : forall s m e, 0 <= e ->
  sf_floor_int s m e = signed_m s m * 2 ^ e /\ sf_ceil_int s m e = signed_m s m * 2 ^ e.
Proof. intros s m e He. unfold sf_floor_int, sf_ceil_int. destruct (Z.leb_spec 0 e); [split; reflexivity|lia]. Qed.

(* ---------------- the layout fixer on structs whose selected fields are scalars ---------------- *)
Lemma nth_apply_nth : forall {A B} (f : A -> outcome B) l k d, (k < length l)%nat -> nth_apply f l k = f (nth k l d).
Proof. induction l; intros k d H; simpl in *; [lia|]. destruct k; [reflexivity|]. apply IHl. lia. Qed.

Definition flat_entry (fields : list value) (p : Z * lmap) : Prop :=
  fst p = -1 \/ (0 <= fst p < Z.of_nat (length fields) /\ is_scalar (nth (Z.to_nat (fst p)) fields VNull) = true).

Definition pick_field (fields : list value) (p : Z * lmap) : value :=
  if fst p =? -1 then VNull else nth (Z.to_nat (fst p)) fields VNull.

Lemma fix_layout_flat_struct : forall st li tu fields, Forall (flat_entry fields) st ->
  fix_layout (LMap (Some st) li tu) (VStruct fields) = Ok (VStruct (map (pick_field fields) st)).
Proof.
  intros st li tu fields H. unfold fix_layout. cbn [fix_layout_gen].
  match goal with |- obind (?F st) _ = _ =>
    assert (HF : forall st', Forall (flat_entry fields) st' -> F st' = Ok (map (pick_field fields) st')) end.
  { induction st' as [|[i mi] st' IH]; intro H'; [reflexivity|].
    inversion H' as [|? ? Hp Hr]; subst. rewrite IH by assumption. unfold pick_field at 1. cbn [fst map].
    destruct Hp as [E|[R S]]; cbn [fst] in *.
    - subst i. reflexivity.
    - destruct (Z.eqb_spec i (-1)) as [?|_]; [lia|]. destruct (Z.ltb_spec i 0) as [?|_]; [lia|].
      rewrite (nth_apply_nth _ fields (Z.to_nat i) VNull) by lia.
      rewrite fix_layout_scalar by assumption. unfold pick_field. cbn [fst].
      destruct (Z.eqb_spec i (-1)) as [?|_]; [lia|]. reflexivity. }
  rewrite HF by assumption. reflexivity.
Qed.

(* calculateMapping on two struct types whose common fields are primitive *)
Lemma last_index_of_range : forall name fs i found,
  (found = -1 \/ 0 <= found < i) -> 0 <= i ->
  let r := last_index_of name fs i found in r = -1 \/ 0 <= r < i + Z.of_nat (length fs).
Proof.
  induction fs as [|[n t] fs IH]; intros i found Hf Hi; simpl.
  - destruct Hf; [left|right]; lia.
  - specialize (IH (i + 1) (if list_eqb Z.eqb n name then i else found)).
    destruct (list_eqb Z.eqb n name); (destruct IH as [E|E]; [lia|lia|left; exact E|right; lia]).
Qed.
