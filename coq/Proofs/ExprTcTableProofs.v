(* Proofs/ExprTcTableProofs.v — C08 over the GENERATED descriptor table: one obligation per row. *)
From Octo Require Import Expr ExprProofs ExprTc ExprTcProofs ExprTcProofs2 GenFunctions.

(* every row whose body is modelled declares an OutputType that allows everything the body can return *)
Lemma table_outputs_ok : forallb (fun d => implb (desc_claimed d) (row_output_ok d)) function_table = true.
Proof. vm_compute. reflexivity. Qed.

Lemma table_row_ok d : In d function_table -> desc_modelled d = true -> row_output_ok d = true.
Proof.
  intros Hin M. pose proof table_outputs_ok as T. rewrite forallb_forall in T. specialize (T d Hin).
  unfold desc_claimed in T. rewrite M in T. exact T.
Qed.

(* how many rows are claimed / not modelled is data of the run, not a theorem; the claimed ones are listed by
   [filter desc_claimed function_table] *)

Theorem table_call_sound orc env ctx d args ks :
  In d function_table -> desc_modelled d = true -> body_result_kinds (body_of no_oracle d) = Some ks ->
  ctx_conforms ctx env = true -> forallb (pwt env) args = true ->
  forall v, peval orc ctx (PCall (nullable_wrap d args (fd_out d)) d args) = Ok v ->
            has_type v (nullable_wrap d args (fd_out d)) = true.
Proof.
  intros Hin M Bk Hc W. apply (call_sound orc env ctx d args ks Hc (table_row_ok d Hin M) M Bk W).
Qed.

(* a strict modelled descriptor whose declared OutputType does not allow NULL never returns NULL on non-NULL
   arguments of any types: "functions whose declared result is non-nullable never return NULL" *)
Theorem table_non_nullable_result orc ctx d args vs v t :
  In d function_table -> desc_modelled d = true ->
  has_kind K_NULL (fd_out d) = false ->
  pevals orc ctx args = Ok vs -> Forall (fun x => is_null x = false) vs ->
  peval orc ctx (PCall t d args) = Ok v -> is_null v = false.
Proof.
  intros Hin M Hn He F Hv.
  rewrite (call_no_null orc t d ctx args vs He F) in Hv.
  destruct (apply_body (body_of orc d) vs) as [r|e|p] eqn:Ab; try discriminate Hv.
  2:{ destruct (e =? E_NOT_MODELLED); discriminate Hv. }
  inversion Hv; subst r. pose proof (table_row_ok d Hin M) as R. unfold row_output_ok in R.
  destruct (body_result_kinds (body_of no_oracle d)) as [ks|] eqn:Bk; rewrite <- (body_kinds_orc orc) in Bk.
  - pose proof (body_kinds_sound _ _ _ _ Bk Ab) as K. pose proof (kinds_in_mem _ _ _ R K) as HK.
    destruct v; try reflexivity. simpl in HK. unfold K_NULL in Hn. rewrite HK in Hn. discriminate Hn.
  - destruct (body_ident_sound _ _ _ Bk Ab) as [rest ->]. inversion F; subst. assumption.
Qed.

(* ---------- the typechecker over the generated table ---------- *)
Lemma table_rows_ok2 : forallb row_ok2 function_table = true.
Proof. vm_compute. reflexivity. Qed.

Lemma function_table_ok : table_ok function_table.
Proof. intros d Hin. pose proof table_rows_ok2 as T. rewrite forallb_forall in T. apply T. exact Hin. Qed.

(* everything the typechecker model accepts is sound, for either behaviour of TypeIntersection *)
Theorem table_tc_sound orc al env e pe ctx v :
  tc al function_table env e = TcOk pe -> ctx_conforms ctx env = true ->
  peval orc ctx pe = Ok v -> has_type v (ptype pe) = true.
Proof.
  intros H Hc Hv. exact (pwt_sound orc env ctx Hc pe (tc_pwt al function_table env function_table_ok e pe H) v Hv).
Qed.

Theorem table_tc_pwt al env e pe : tc al function_table env e = TcOk pe -> pwt env pe = true.
Proof. apply tc_pwt. exact function_table_ok. Qed.
