(* Proofs/JoinsBase.v — association-list trees, event-time buffers and the bag algebra of the join. *)
From Coq Require Import Permutation.
From Octo Require Import Joins CompareLaws ChangelogLemmas.

(* ---- rows ---- *)
Lemma row_eqb_length a b : row_eqb a b = true -> length a = length b.
Proof.
  unfold row_eqb. revert b. induction a as [|x xs IH]; intros [|y ys] H; simpl in *; try reflexivity; try discriminate.
  destruct (Z.eqb_spec (vcompare x y) 0) as [e|ne].
  - f_equal. apply IH. exact H.
  - apply Z.eqb_eq in H. contradiction.
Qed.

Lemma row_eqb_cons x xs y ys : row_eqb (x :: xs) (y :: ys) = (vcompare x y =? 0) && row_eqb xs ys.
Proof.
  unfold row_eqb. rewrite lex_cons. destruct (Z.eqb_spec (vcompare x y) 0) as [e|ne]; simpl; [reflexivity|].
  apply Z.eqb_neq. exact ne.
Qed.

Lemma row_eqb_nil_l y : row_eqb [] y = match y with [] => true | _ => false end.
Proof. destruct y; reflexivity. Qed.
Lemma row_eqb_nil_r x : row_eqb x [] = match x with [] => true | _ => false end.
Proof. destruct x; reflexivity. Qed.

(* a concatenation equals a row iff the row splits accordingly *)
Lemma row_eqb_app a b x :
  row_eqb (a ++ b) x = (length a <=? length x)%nat && row_eqb a (firstn (length a) x) && row_eqb b (skipn (length a) x).
Proof.
  revert x. induction a as [|h t IH]; intro x.
  - simpl. reflexivity.
  - destruct x as [|y x'].
    + simpl. reflexivity.
    + cbn [app length firstn skipn]. rewrite !row_eqb_cons, IH.
      change (S (length t) <=? S (length x'))%nat with (length t <=? length x')%nat.
      destruct (vcompare h y =? 0); simpl; [reflexivity|].
      rewrite Bool.andb_false_r. reflexivity.
Qed.

Lemma row_eqb_app_l n a b x : length a = n ->
  row_eqb (a ++ b) x = (n <=? length x)%nat && row_eqb a (firstn n x) && row_eqb b (skipn n x).
Proof. intro H. subst n. apply row_eqb_app. Qed.

Lemma vcompare_zero_tid a b : vcompare a b = 0 -> tid a = tid b.
Proof.
  intro H. destruct (Z.eq_dec (tid a) (tid b)) as [e|ne]; [exact e|].
  rewrite (vcompare_tid_ne a b ne) in H. destruct (tid a <? tid b); discriminate.
Qed.

Definition is_null (v : value) : bool := match v with VNull => true | _ => false end.
Lemma is_null_cong a b : vcompare a b = 0 -> is_null a = is_null b.
Proof. intro H. apply vcompare_zero_tid in H. destruct a, b; simpl in *; try reflexivity; discriminate. Qed.

Lemma has_null_cong a b : row_eqb a b = true -> has_null a = has_null b.
Proof.
  revert b. induction a as [|x xs IH]; intros [|y ys] H; try reflexivity; try discriminate.
  rewrite row_eqb_cons in H. apply andb_prop in H. destruct H as [H1 H2].
  apply Z.eqb_eq in H1. unfold has_null in *. simpl.
  change (match x with VNull => true | _ => false end) with (is_null x).
  change (match y with VNull => true | _ => false end) with (is_null y).
  rewrite (is_null_cong x y H1), (IH ys H2). reflexivity.
Qed.

Definition key_respects (kf : list value -> list value) : Prop :=
  forall a b, row_eqb a b = true -> row_eqb (kf a) (kf b) = true.

Lemma nth_cong a b i : row_eqb a b = true -> vcompare (nth i a VNull) (nth i b VNull) = 0.
Proof.
  revert b i. induction a as [|x xs IH]; intros [|y ys] i H; try discriminate.
  - destruct i; reflexivity.
  - rewrite row_eqb_cons in H. apply andb_prop in H. destruct H as [H1 H2]. apply Z.eqb_eq in H1.
    destruct i; simpl; [exact H1 | apply IH; exact H2].
Qed.

Lemma proj_respects cols : key_respects (proj cols).
Proof.
  intros a b H. unfold proj. induction cols as [|c cs IH]; [reflexivity|].
  simpl. rewrite row_eqb_cons, IH, (nth_cong a b c H). reflexivity.
Qed.

Lemma row_eqb_false_l a b c : row_eqb a b = true -> row_eqb a c = false -> row_eqb b c = false.
Proof. intros H1 H2. rewrite <- (row_eqb_cong a b c H1). exact H2. Qed.

(* ---- association lists ---- *)
Section AListLemmas.
  Context {V : Type}.
  Implicit Types m : @alist V.

  Fixpoint nodupk (ks : list (list value)) : Prop :=
    match ks with
    | [] => True
    | k :: ks' => (forall k', In k' ks' -> row_eqb k k' = false) /\ nodupk ks'
    end.

  Fixpoint asum (w : list value -> V -> Z) m : Z :=
    match m with [] => 0 | (k, v) :: m' => w k v + asum w m' end.

  Definition w_respects (w : list value -> V -> Z) : Prop :=
    forall k k' v, row_eqb k k' = true -> w k v = w k' v.

  Lemma afind_none k m : afind k m = None -> forall k' v', In (k', v') m -> row_eqb k k' = false.
  Proof.
    induction m as [|[k0 v0] m' IH]; simpl; intros H k' v' Hin; [contradiction|].
    destruct (row_eqb k k0) eqn:E; [discriminate|].
    destruct Hin as [Hin|Hin]; [inversion Hin; subst; exact E | eapply IH; eauto].
  Qed.

  Lemma afind_some k m v : afind k m = Some v -> exists k', In (k', v) m /\ row_eqb k k' = true.
  Proof.
    induction m as [|[k0 v0] m' IH]; simpl; intro H; [discriminate|].
    destruct (row_eqb k k0) eqn:E.
    - inversion H; subst. exists k0. split; [left; reflexivity | exact E].
    - destruct (IH H) as [k' [Hin Hk]]. exists k'. split; [right; exact Hin | exact Hk].
  Qed.

  Lemma asum_ainsert w k v m : asum w (ainsert k v m) = w k v + asum w m.
  Proof.
    induction m as [|[k0 v0] m' IH]; simpl; [reflexivity|].
    destruct (slices_less k k0); simpl; [reflexivity | rewrite IH; lia].
  Qed.

  Lemma In_ainsert k v m e : In e (ainsert k v m) <-> e = (k, v) \/ In e m.
  Proof.
    induction m as [|[k0 v0] m' IH]; simpl.
    - split; intros [H|H]; auto; contradiction.
    - destruct (slices_less k k0); simpl.
      + split; intros [H|H]; auto.
      + rewrite IH. split; intros H; tauto || (destruct H as [H|[H|H]]; auto).
  Qed.

  Lemma keys_ainsert k v m k' : In k' (map fst (ainsert k v m)) <-> k' = k \/ In k' (map fst m).
  Proof.
    rewrite !in_map_iff. split.
    - intros [[a b] [E Hin]]. simpl in E. subst a. apply In_ainsert in Hin. destruct Hin as [Hin|Hin].
      + inversion Hin; subst. left; reflexivity.
      + right. exists (k', b). split; [reflexivity | exact Hin].
    - intros [E|[[a b] [E Hin]]].
      + subst. exists (k, v). split; [reflexivity | apply In_ainsert; left; reflexivity].
      + simpl in E. subst a. exists (k', b). split; [reflexivity | apply In_ainsert; right; exact Hin].
  Qed.

  Lemma nodupk_ainsert k v m :
    (forall k', In k' (map fst m) -> row_eqb k k' = false) -> nodupk (map fst m) -> nodupk (map fst (ainsert k v m)).
  Proof.
    induction m as [|[k0 v0] m' IH]; simpl; intros Hk Hn.
    - split; [intros ? []| exact I].
    - destruct Hn as [Hn1 Hn2]. destruct (slices_less k k0); simpl.
      + split; [|split; assumption]. intros k' [E|Hin]; apply Hk; auto.
      + split.
        * intros k' Hin. apply keys_ainsert in Hin. destruct Hin as [E|Hin].
          -- subst. rewrite row_eqb_sym. apply Hk. left; reflexivity.
          -- apply Hn1. exact Hin.
        * apply IH; [|exact Hn2]. intros k' Hin. apply Hk. right; exact Hin.
  Qed.

  Lemma keys_areplace k v m : map fst (areplace k v m) = map fst m.
  Proof.
    induction m as [|[k0 v0] m' IH]; simpl; [reflexivity|].
    destruct (row_eqb k k0); simpl; [reflexivity | rewrite IH; reflexivity].
  Qed.

  Lemma asum_areplace w k v v0 m : w_respects w -> afind k m = Some v0 ->
    asum w (areplace k v m) = asum w m - w k v0 + w k v.
  Proof.
    intros Hw. induction m as [|[k0 v1] m' IH]; simpl; intro H; [discriminate|].
    destruct (row_eqb k k0) eqn:E.
    - inversion H; subst. simpl. rewrite !(Hw k k0) by exact E. lia.
    - simpl. rewrite (IH H). lia.
  Qed.

  Lemma In_areplace k v m k1 v1 : In (k1, v1) (areplace k v m) ->
    In (k1, v1) m \/ (v1 = v /\ row_eqb k k1 = true /\ exists v0, In (k1, v0) m).
  Proof.
    induction m as [|[k0 v0] m' IH]; simpl; intro H; [contradiction|].
    destruct (row_eqb k k0) eqn:E; simpl in H.
    - destruct H as [H|H]; [inversion H; subst; right; split; [reflexivity | split; [exact E | exists v0; left; reflexivity]] | left; right; exact H].
    - destruct H as [H|H]; [left; left; exact H|].
      destruct (IH H) as [H'|[H1 [H3 [v2 H2]]]]; [left; right; exact H' | right; split; [exact H1 | split; [exact H3 | exists v2; right; exact H2]]].
  Qed.

  Lemma asum_aremove w k v0 m : w_respects w -> afind k m = Some v0 ->
    asum w (aremove k m) = asum w m - w k v0.
  Proof.
    intros Hw. induction m as [|[k0 v1] m' IH]; simpl; intro H; [discriminate|].
    destruct (row_eqb k k0) eqn:E.
    - inversion H; subst. rewrite !(Hw k k0) by exact E. lia.
    - simpl. rewrite (IH H). lia.
  Qed.

  Lemma In_aremove k m e : In e (aremove k m) -> In e m.
  Proof.
    induction m as [|[k0 v0] m' IH]; simpl; intro H; [contradiction|].
    destruct (row_eqb k k0); [right; exact H|]. destruct H as [H|H]; [left; exact H | right; apply IH; exact H].
  Qed.

  Lemma nodupk_aremove k m : nodupk (map fst m) -> nodupk (map fst (aremove k m)).
  Proof.
    induction m as [|[k0 v0] m' IH]; simpl; intro H; [exact I|]. destruct H as [H1 H2].
    destruct (row_eqb k k0); [exact H2|]. simpl. split; [|apply IH; exact H2].
    intros k' Hin. apply H1. apply in_map_iff in Hin. destruct Hin as [[a b] [E Hin]].
    apply In_aremove in Hin. apply in_map_iff. exists (a, b). split; assumption.
  Qed.

  (* after removing the entry found for k, no key equivalent to k is left *)
  Lemma afind_aremove k m : nodupk (map fst m) -> afind k (aremove k m) = None.
  Proof.
    induction m as [|[k0 v0] m' IH]; simpl; intro H; [reflexivity|]. destruct H as [H1 H2].
    destruct (row_eqb k k0) eqn:E.
    - destruct (afind k m') eqn:F; [|reflexivity].
      destruct (afind_some _ _ _ F) as [k' [Hin Hk]].
      assert (row_eqb k0 k' = false) as C by (apply H1; apply in_map_iff; exists (k', v); split; [reflexivity | exact Hin]).
      rewrite <- (row_eqb_cong k k0 k' E) in C. congruence.
    - simpl. rewrite E. apply IH. exact H2.
  Qed.

  Lemma asum_zero w m : (forall k v, In (k, v) m -> w k v = 0) -> asum w m = 0.
  Proof.
    induction m as [|[k0 v0] m' IH]; simpl; intro H; [reflexivity|].
    rewrite (H k0 v0) by (left; reflexivity). rewrite IH; [reflexivity|]. intros; apply H; right; assumption.
  Qed.

  (* when only the entries equivalent to k count, the sum is the entry found *)
  Lemma asum_unique w k m : w_respects w -> nodupk (map fst m) ->
    (forall k' v', In (k', v') m -> row_eqb k k' = false -> w k' v' = 0) ->
    asum w m = match afind k m with Some v => w k v | None => 0 end.
  Proof.
    intros Hw. induction m as [|[k0 v0] m' IH]; simpl; intros Hn Hz; [reflexivity|]. destruct Hn as [Hn1 Hn2].
    destruct (row_eqb k k0) eqn:E.
    - rewrite (Hw k k0 v0 E). rewrite asum_zero; [lia|].
      intros k' v' Hin. apply Hz; [right; exact Hin|].
      assert (row_eqb k0 k' = false) as C by (apply Hn1; apply in_map_iff; exists (k', v'); split; [reflexivity | exact Hin]).
      rewrite (row_eqb_cong k k0 k' E). exact C.
    - rewrite (Hz k0 v0) by (auto; left; reflexivity). rewrite IH; [lia | exact Hn2 |].
      intros; apply Hz; [right; assumption | assumption].
  Qed.
End AListLemmas.

(* ---- sub-item trees: record values -> event times ---- *)
Definition inner_w (y : list value) (row : list value) (ets : list Z) : Z :=
  if row_eqb row y then Z.of_nat (length ets) else 0.
Definition inner_bag (s : inner) (y : list value) : Z := asum (inner_w y) s.

Lemma inner_w_respects y : w_respects (inner_w y).
Proof. intros k k' v H. unfold inner_w. rewrite (row_eqb_cong k k' y H). reflexivity. Qed.

Definition inner_wf (P : list value -> Prop) (s : inner) : Prop :=
  nodupk (map fst s) /\ forall row ets, In (row, ets) s -> ets <> [] /\ P row.

Lemma cons1 (r : rec) y : consolidate [r] y = if row_eqb (vals r) y then sign r else 0.
Proof. simpl. lia. Qed.

Lemma inner_update_spec P r s s' : inner_wf P s -> P (vals r) -> inner_update r s = Ok s' ->
  inner_wf P s' /\ forall y, inner_bag s' y = inner_bag s y + consolidate [r] y.
Proof.
  intros [Hn Hs] HP. unfold inner_update.
  assert (Hrep : forall ets0 ets1, afind (vals r) s = Some ets0 -> ets1 <> [] ->
            inner_wf P (areplace (vals r) ets1 s) /\
            forall y, inner_bag (areplace (vals r) ets1 s) y = inner_bag s y - inner_w y (vals r) ets0 + inner_w y (vals r) ets1).
  { intros ets0 ets1 F Hne. split.
    - split; [rewrite keys_areplace; exact Hn|]. intros row ets Hin. apply In_areplace in Hin.
      destruct Hin as [Hin|[E [_ [v0 Hin]]]]; [apply Hs; exact Hin|]. subst. split; [exact Hne | exact (proj2 (Hs _ _ Hin))].
    - intro y. unfold inner_bag. apply (asum_areplace _ _ _ _ _ (inner_w_respects y) F). }
  destruct (afind (vals r) s) as [ets|] eqn:F.
  - destruct (retr r) eqn:Rt.
    + destruct ets as [|t0 [|t1 ets']]; intro H; inversion H; subst; clear H.
      * split.
        -- split; [apply nodupk_aremove; exact Hn|]. intros row ets Hin. apply Hs. eapply In_aremove; eauto.
        -- intro y. unfold inner_bag. rewrite (asum_aremove _ _ _ _ (inner_w_respects y) F), cons1.
           unfold inner_w, sign. rewrite Rt. simpl. destruct (row_eqb (vals r) y); lia.
      * destruct (Hrep _ (t1 :: ets') eq_refl) as [W B]; [discriminate|]. split; [exact W|].
        intro y. rewrite B, cons1. unfold inner_w, sign. rewrite Rt. cbn [length].
        destruct (row_eqb (vals r) y); lia.
    + intro H; inversion H; subst; clear H.
      destruct (Hrep _ (ets ++ [et r]) eq_refl) as [W B]; [destruct ets; discriminate|]. split; [exact W|].
      intro y. rewrite B, cons1. unfold inner_w, sign. rewrite Rt, app_length. cbn [length].
      destruct (row_eqb (vals r) y); lia.
  - destruct (retr r) eqn:Rt; intro H; inversion H; subst; clear H. split.
    + split.
      * apply nodupk_ainsert; [|exact Hn]. intros k' Hin. apply in_map_iff in Hin. destruct Hin as [[a b] [E Hin]].
        simpl in E; subst a. eapply afind_none; eauto.
      * intros row ets Hin. apply In_ainsert in Hin. destruct Hin as [E|Hin]; [inversion E; subst; split; [discriminate | exact HP] | apply Hs; exact Hin].
    + intro y. unfold inner_bag. rewrite asum_ainsert, cons1. unfold inner_w, sign. rewrite Rt. simpl.
      destruct (row_eqb (vals r) y); lia.
Qed.

Lemma inner_bag_zero s y : (forall row ets, In (row, ets) s -> row_eqb row y = false) -> inner_bag s y = 0.
Proof.
  intro H. unfold inner_bag. apply asum_zero. intros k v Hin. unfold inner_w. rewrite (H k v Hin). reflexivity.
Qed.

Lemma inner_bag_nonneg s y : 0 <= inner_bag s y.
Proof.
  unfold inner_bag. induction s as [|[k v] s' IH]; simpl; [lia|]. unfold inner_w at 1. destruct (row_eqb k y); lia.
Qed.

(* ---- key trees ---- *)
Definition tree_bag (t : tree) (y : list value) : Z := asum (fun _ s => inner_bag s y) t.

Lemma tree_w_respects y : w_respects (fun (_ : list value) (s : inner) => inner_bag s y).
Proof. intros k k' v _. reflexivity. Qed.

Section Tree.
  Variable kf : list value -> list value.
  Variable P : list value -> Prop.
  Hypothesis kf_resp : key_respects kf.

  Definition rowP (k row : list value) : Prop := row_eqb (kf row) k = true /\ P row.
  Definition tree_wf (t : tree) : Prop :=
    nodupk (map fst t) /\ forall k s, In (k, s) t -> s <> [] /\ inner_wf (rowP k) s.

  Lemma tree_wf_nil : tree_wf [].
  Proof. split; [exact I | intros ? ? []]. Qed.

  Lemma inner_wf_nil Q : inner_wf Q [].
  Proof. split; [exact I | intros ? ? []]. Qed.

  Lemma inner_wf_key_cong k k' s : row_eqb k k' = true -> inner_wf (rowP k) s -> inner_wf (rowP k') s.
  Proof.
    intros Hk [Hn Hs]. split; [exact Hn|]. intros row ets Hin. destruct (Hs _ _ Hin) as [Hne [H1 H2]].
    split; [exact Hne|]. split; [|exact H2]. eapply row_eqb_trans; eauto.
  Qed.

  Lemma tree_update_spec k r t t' fl : tree_wf t -> row_eqb (kf (vals r)) k = true -> P (vals r) ->
    tree_update k r t = Ok (t', fl) ->
    tree_wf t' /\ forall y, tree_bag t' y = tree_bag t y + consolidate [r] y.
  Proof.
    intros [Hn Hs] Hk HP. unfold tree_update. destruct (afind k t) as [s|] eqn:F.
    - destruct (afind_some _ _ _ F) as [k' [Hin Hkk]]. destruct (Hs _ _ Hin) as [Hne Hw].
      assert (Hw' : inner_wf (rowP k) s) by (apply (inner_wf_key_cong k' k); [rewrite row_eqb_sym; exact Hkk | exact Hw]).
      destruct (inner_update r s) as [s'| |] eqn:U; cbn [obind]; try discriminate.
      destruct (inner_update_spec (rowP k) r s s' Hw' (conj Hk HP) U) as [W B].
      destruct s' as [|e s'']; intro H; inversion H; subst; clear H.
      + split.
        * split; [apply nodupk_aremove; exact Hn|]. intros k0 s0 Hin0. apply Hs. eapply In_aremove; eauto.
        * intro y. unfold tree_bag. rewrite (asum_aremove _ _ _ _ (tree_w_respects y) F).
          specialize (B y). change (inner_bag [] y) with 0 in B. cbv beta. lia.
      + split.
        * split; [rewrite keys_areplace; exact Hn|]. intros k0 s0 Hin0. apply In_areplace in Hin0.
          destruct Hin0 as [Hin0|[E [Hk0 [v0 Hin0]]]]; [apply Hs; exact Hin0|]. subst s0. split; [discriminate|].
          apply (inner_wf_key_cong k k0); assumption.
        * intro y. unfold tree_bag. rewrite (asum_areplace _ _ _ _ _ (tree_w_respects y) F). specialize (B y). cbv beta. lia.
    - destruct (inner_update r []) as [s'| |] eqn:U; cbn [obind]; try discriminate.
      destruct (inner_update_spec (rowP k) r [] s' (inner_wf_nil _) (conj Hk HP) U) as [W B].
      destruct s' as [|e s'']; intro H; inversion H; subst; clear H.
      + split; [split; assumption|]. intro y. specialize (B y). change (inner_bag [] y) with 0 in B. lia.
      + split.
        * split.
          -- apply nodupk_ainsert; [|exact Hn]. intros k' Hin. apply in_map_iff in Hin. destruct Hin as [[a b] [E Hin]].
             simpl in E; subst a. eapply afind_none; eauto.
          -- intros k0 s0 Hin0. apply In_ainsert in Hin0. destruct Hin0 as [E|Hin0]; [inversion E; subst; split; [discriminate | exact W] | apply Hs; exact Hin0].
        * intro y. unfold tree_bag. rewrite asum_ainsert. specialize (B y). change (inner_bag [] y) with 0 in B.
          fold (tree_bag t y). lia.
  Qed.

  Lemma tree_lookup_spec k t y : tree_wf t ->
    inner_bag (tree_lookup k t) y = if row_eqb (kf y) k then tree_bag t y else 0.
  Proof.
    intros [Hn Hs]. unfold tree_lookup.
    destruct (row_eqb (kf y) k) eqn:E.
    - unfold tree_bag. rewrite (asum_unique _ k t (tree_w_respects y) Hn).
      + destruct (afind k t); reflexivity.
      + intros k' s' Hin Hk. apply inner_bag_zero. intros row ets Hin'.
        destruct (Hs _ _ Hin) as [_ [_ Hr]]. destruct (Hr _ _ Hin') as [_ [Hrk _]].
        destruct (row_eqb row y) eqn:Ry; [|reflexivity]. exfalso.
        assert (row_eqb (kf row) (kf y) = true) as A by (apply kf_resp; exact Ry).
        assert (row_eqb k k' = true); [|congruence].
        apply (row_eqb_trans k (kf y) k'); [rewrite row_eqb_sym; exact E|].
        apply (row_eqb_trans (kf y) (kf row) k'); [rewrite row_eqb_sym; exact A | exact Hrk].
    - destruct (afind k t) as [s|] eqn:F; [|reflexivity].
      destruct (afind_some _ _ _ F) as [k' [Hin Hkk]]. apply inner_bag_zero. intros row ets Hin'.
      destruct (Hs _ _ Hin) as [_ [_ Hr]]. destruct (Hr _ _ Hin') as [_ [Hrk _]].
      destruct (row_eqb row y) eqn:Ry; [|reflexivity]. exfalso.
      assert (row_eqb (kf row) (kf y) = true) as A by (apply kf_resp; exact Ry).
      assert (row_eqb (kf y) k = true); [|congruence].
      apply (row_eqb_trans (kf y) (kf row) k); [rewrite row_eqb_sym; exact A|].
      apply (row_eqb_trans (kf row) k' k); [exact Hrk | rewrite row_eqb_sym; exact Hkk].
  Qed.

  Lemma tree_lookup_rows k t row ets : tree_wf t -> In (row, ets) (tree_lookup k t) -> P row.
  Proof.
    intros [Hn Hs] Hin. unfold tree_lookup in Hin. destruct (afind k t) as [s|] eqn:F; [|contradiction].
    destruct (afind_some _ _ _ F) as [k' [Hin' _]]. destruct (Hs _ _ Hin') as [_ [_ Hr]].
    exact (proj2 (proj2 (Hr _ _ Hin))).
  Qed.
End Tree.

(* ---- the join on consolidated bags ---- *)
Section BagJoin.
  Variables kl kr : list value -> list value.
  Variable nl : nat.
  Hypothesis kl_resp : key_respects kl.
  Hypothesis kr_resp : key_respects kr.
  Notation bj := (bag_join kl kr nl).

  Lemma bag_join_add_l A A' B x : bj (fun y => A y + A' y) B x = bj A B x + bj A' B x.
  Proof. unfold bag_join. destruct (_ && _); lia. Qed.
  Lemma bag_join_add_r A B B' x : bj A (fun y => B y + B' y) x = bj A B x + bj A B' x.
  Proof. unfold bag_join. destruct (_ && _); lia. Qed.

  Lemma key_match_null_l a b : has_null a = true -> key_match a b = false.
  Proof. intro H. unfold key_match. rewrite H. reflexivity. Qed.

  Lemma bag_join_ext A A' B B' x :
    (forall y, has_null (kl y) = false -> A y = A' y) -> (forall y, has_null (kr y) = false -> B y = B' y) ->
    bj A B x = bj A' B' x.
  Proof.
    intros HA HB. unfold bag_join. destruct (nl <=? length x)%nat; simpl; [|reflexivity].
    unfold key_match. destruct (has_null (kl (firstn nl x))) eqn:E1; simpl; [reflexivity|].
    destruct (has_null (kr (skipn nl x))) eqn:E2; simpl; [reflexivity|].
    destruct (row_eqb _ _); [|reflexivity]. rewrite (HA _ E1), (HB _ E2). reflexivity.
  Qed.

  Lemma key_match_cong a a' b b' : row_eqb a a' = true -> row_eqb b b' = true -> key_match a b = key_match a' b'.
  Proof.
    intros Ha Hb. unfold key_match. rewrite (has_null_cong a a' Ha), (has_null_cong b b' Hb).
    rewrite (row_eqb_cong a a' b Ha), (row_eqb_cong_r a' b b' Hb). reflexivity.
  Qed.

  (* what one receiveRecord on the left emits: the record against the sub-items found under its key *)
  Lemma emit_left r subs x : length (vals r) = nl ->
    consolidate (emit_matches SL r subs) x =
      if (nl <=? length x)%nat && row_eqb (vals r) (firstn nl x) then sign r * inner_bag subs (skipn nl x) else 0.
  Proof.
    intro Hl. unfold emit_matches, inner_bag.
    induction subs as [|[row ets] subs IH]; [simpl; destruct (_ && _); lia|].
    cbn [flat_map asum fst snd]. rewrite consolidate_app, IH. clear IH. change (glue SL (vals r) row) with (vals r ++ row).
    assert (forall ets0, consolidate (map (fun t => mkrec (vals r ++ row) (retr r) (later (et r) t)) ets0) x =
              (if row_eqb (vals r ++ row) x then sign r else 0) * Z.of_nat (length ets0)) as E.
    { induction ets0 as [|t ts IHt]; [simpl; lia|]. cbn [map consolidate vals length]. rewrite IHt.
      unfold sign at 1. cbn [retr]. fold (sign r). destruct (row_eqb (vals r ++ row) x); lia. }
    rewrite E, (row_eqb_app_l nl _ _ _ Hl). unfold inner_w.
    destruct (nl <=? length x)%nat; simpl; [|lia].
    destruct (row_eqb (vals r) (firstn nl x)); simpl; [|lia].
    destruct (row_eqb row (skipn nl x)); lia.
  Qed.

  Lemma emit_right r subs x : (forall row ets, In (row, ets) subs -> length row = nl) ->
    consolidate (emit_matches SR r subs) x =
      if (nl <=? length x)%nat && row_eqb (vals r) (skipn nl x) then sign r * inner_bag subs (firstn nl x) else 0.
  Proof.
    intro Hl. unfold emit_matches, inner_bag.
    induction subs as [|[row ets] subs IH]; [simpl; destruct (_ && _); lia|].
    cbn [flat_map asum fst snd]. rewrite consolidate_app, IH by (intros; eapply Hl; right; eauto). clear IH. change (glue SR (vals r) row) with (row ++ vals r).
    assert (forall ets0, consolidate (map (fun t => mkrec (row ++ vals r) (retr r) (later (et r) t)) ets0) x =
              (if row_eqb (row ++ vals r) x then sign r else 0) * Z.of_nat (length ets0)) as E.
    { induction ets0 as [|t ts IHt]; [simpl; lia|]. cbn [map consolidate vals length]. rewrite IHt.
      unfold sign at 1. cbn [retr]. fold (sign r). destruct (row_eqb (row ++ vals r) x); lia. }
    rewrite E, (row_eqb_app_l nl row _ _ (Hl row ets (or_introl eq_refl))). unfold inner_w.
    destruct (nl <=? length x)%nat; simpl; [|lia].
    destruct (row_eqb row (firstn nl x)); simpl; destruct (row_eqb (vals r) (skipn nl x)); lia.
  Qed.
End BagJoin.

(* ---- event-time buffers ---- *)
Fixpoint buf_sorted_from (lo : Z) (b : buf) : Prop :=
  match b with
  | [] => True
  | (t, rs) :: b' => lo < t /\ rs <> [] /\ (forall r, In r rs -> et r = t) /\ buf_sorted_from t b'
  end.
Definition buf_ok (b : buf) : Prop := exists lo, buf_sorted_from lo b.

Lemma buf_sorted_weaken lo lo' b : lo' <= lo -> buf_sorted_from lo b -> buf_sorted_from lo' b.
Proof. destruct b as [|[t rs] b']; simpl; [auto|]. intros H [H1 H2]. split; [lia | exact H2]. Qed.

Lemma buf_add_sorted r b lo : lo < et r -> buf_sorted_from lo b -> buf_sorted_from lo (buf_add r b).
Proof.
  revert lo. induction b as [|[t rs] b' IH]; intros lo Hlo Hb.
  - simpl. repeat split; auto; try discriminate. intros r0 [E|[]]; subst; reflexivity.
  - destruct Hb as [H1 [H2 [H3 H4]]]. cbn [buf_add]. destruct (Z.ltb_spec (et r) t).
    + simpl. repeat split; auto; try discriminate. intros r0 [E|[]]; subst; reflexivity.
    + destruct (Z.ltb_spec t (et r)).
      * simpl. repeat split; auto.
      * assert (et r = t) by lia. simpl. repeat split; auto.
        -- destruct rs; discriminate.
        -- intros r0 Hin. apply in_app_or in Hin. destruct Hin as [Hin|[E|[]]]; [apply H3; exact Hin | subst; reflexivity].
Qed.

Lemma buf_add_ok r b : buf_ok b -> buf_ok (buf_add r b).
Proof.
  intros [lo H]. exists (Z.min lo (et r - 1)). apply buf_add_sorted; [lia|].
  eapply buf_sorted_weaken; [|exact H]. lia.
Qed.

Lemma buf_add_perm r b : Permutation (buf_recs (buf_add r b)) (r :: buf_recs b).
Proof.
  induction b as [|[t rs] b' IH]; [simpl; apply Permutation_refl|].
  cbn [buf_add]. destruct (et r <? t); [simpl; apply Permutation_refl|]. destruct (t <? et r).
  - unfold buf_recs in *. cbn [flat_map snd]. eapply Permutation_trans; [apply Permutation_app_head; exact IH|].
    apply Permutation_sym. apply Permutation_middle.
  - unfold buf_recs. cbn [flat_map snd]. rewrite <- app_assoc. simpl.
    apply Permutation_sym. apply Permutation_middle.
Qed.

Lemma buf_emit_spec w b lo out rest : buf_sorted_from lo b -> buf_emit w b = (out, rest) ->
  buf_recs b = out ++ buf_recs rest /\ (forall r, In r out -> et r <= w) /\
  (forall r, In r (buf_recs rest) -> w < et r) /\ buf_ok rest /\
  ((forall r, In r (buf_recs b) -> et r <= w) -> rest = []).
Proof.
  revert lo out rest. induction b as [|[t rs] b' IH]; intros lo out rest Hb H.
  - simpl in H. inversion H; subst. repeat split; auto; try (intros ? []). exists 0. exact I.
  - destruct Hb as [H1 [H2 [H3 H4]]]. cbn [buf_emit] in H. destruct (Z.ltb_spec w t).
    + inversion H; subst. repeat split; auto; try (intros ? []).
      * (* everything left is above w *)
        assert (forall lo0 b0, buf_sorted_from lo0 b0 -> forall r, In r (buf_recs b0) -> lo0 < et r) as Above.
        { clear. intros lo0 b0. revert lo0. induction b0 as [|[t0 rs0] b0' IHb]; intros lo0 Hs r Hin; [contradiction|].
          destruct Hs as [S1 [S2 [S3 S4]]]. unfold buf_recs in Hin. cbn [flat_map snd] in Hin. apply in_app_or in Hin.
          destruct Hin as [Hin|Hin]; [rewrite (S3 _ Hin); exact S1|]. specialize (IHb _ S4 r Hin). lia. }
        intros r Hin. unfold buf_recs in Hin. cbn [flat_map snd] in Hin. apply in_app_or in Hin.
        destruct Hin as [Hin|Hin]; [rewrite (H3 _ Hin); exact H0|]. specialize (Above _ _ H4 r Hin). lia.
      * exists lo. simpl. auto.
      * intro Hall. exfalso. destruct rs as [|r0 rs']; [congruence|].
        assert (et r0 <= w) by (apply Hall; unfold buf_recs; simpl; left; reflexivity).
        rewrite (H3 r0 (or_introl eq_refl)) in H5. lia.
    + destruct (buf_emit w b') as [out' rest'] eqn:E. inversion H; subst.
      destruct (IH _ _ _ H4 eq_refl) as [I1 [I2 [I3 [I4 I5]]]]. repeat split; auto.
      * unfold buf_recs in *. cbn [flat_map snd]. rewrite I1, app_assoc. reflexivity.
      * intros r Hin. apply in_app_or in Hin. destruct Hin as [Hin|Hin]; [rewrite (H3 _ Hin); exact H0 | apply I2; exact Hin].
      * intro Hall. apply I5. intros r Hin. apply Hall. unfold buf_recs. cbn [flat_map snd]. apply in_or_app. right. exact Hin.
Qed.
