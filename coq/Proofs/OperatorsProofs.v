(* Proofs/OperatorsProofs.v — proofs about Model/Operators.v (properties C15 and C05).
   Sections: bags and weighted sums; validity; linear operators (Filter, Map, Unnest, LookupJoin);
   Distinct; Limit; the counted tree of OrderSensitiveTransform / batch.OutputPrinter. *)
From Coq Require Import Sorted.
From Octo Require Import Operators CompareLaws ChangelogLemmas.

(* ===== part A ===== *)

(* ---------- bags ---------- *)
Definition bag_eq (a b : list rec) : Prop := forall x, consolidate a x = consolidate b x.
Definition represents (rows : list row) (l : list rec) : Prop := forall x, count_rows rows x = consolidate l x.
Definition nonneg (l : list rec) : Prop := forall x, 0 <= consolidate l x.
Definition Valid (l : list rec) : Prop := forall n x, 0 <= consolidate (firstn n l) x.
Definition congruent (w : row -> Z) : Prop := forall x y, row_eqb x y = true -> w x = w y.

Fixpoint wsum (w : row -> Z) (l : list rec) : Z :=
  match l with [] => 0 | r :: rs => sign r * w (vals r) + wsum w rs end.

Definition not_class (x : row) (r : rec) : bool := negb (row_eqb (vals r) x).

Lemma wsum_split w x l : congruent w ->
  wsum w l = w x * consolidate l x + wsum w (filter (not_class x) l).
Proof.
  intro Hw. induction l as [|r rs IH]; simpl; [lia|].
  unfold not_class at 1. destruct (row_eqb (vals r) x) eqn:E; simpl.
  - rewrite (Hw _ _ E). rewrite IH. lia.
  - rewrite IH. lia.
Qed.

Lemma consolidate_not_class x l y :
  consolidate (filter (not_class x) l) y = if row_eqb x y then 0 else consolidate l y.
Proof.
  induction l as [|r rs IH]; simpl; [destruct (row_eqb x y); reflexivity|].
  unfold not_class at 1. destruct (row_eqb (vals r) x) eqn:E; simpl.
  - rewrite IH. rewrite (row_eqb_cong _ _ y E). destruct (row_eqb x y); lia.
  - rewrite IH. destruct (row_eqb x y) eqn:Exy; [|reflexivity].
    rewrite <- (row_eqb_cong_r (vals r) x y Exy), E. reflexivity.
Qed.

Lemma filter_length_le {A} (f : A -> bool) l : (length (filter f l) <= length l)%nat.
Proof. induction l; simpl; [lia|]. destruct (f a); simpl; lia. Qed.

Lemma bag_eq_wsum_n w : congruent w -> forall n a b, (length a + length b <= n)%nat -> bag_eq a b -> wsum w a = wsum w b.
Proof.
  intros Hw n. induction n as [|n IH]; intros a b L H.
  - destruct a, b; simpl in L; solve [reflexivity | lia].
  - assert (step : forall x, (length (filter (not_class x) a) + length (filter (not_class x) b) <= n)%nat -> wsum w a = wsum w b).
    { intros x Lx. rewrite (wsum_split w x a Hw), (wsum_split w x b Hw), (H x). f_equal.
      apply IH; [exact Lx|]. intro y. rewrite !consolidate_not_class. destruct (row_eqb x y); [reflexivity | apply H]. }
    destruct a as [|r a'].
    + destruct b as [|r b']; [reflexivity|]. apply (step (vals r)). simpl. unfold not_class at 1. rewrite row_eqb_refl. simpl.
      pose proof (filter_length_le (not_class (vals r)) b'). simpl in L. lia.
    + apply (step (vals r)). simpl. unfold not_class at 1. rewrite row_eqb_refl. simpl.
      pose proof (filter_length_le (not_class (vals r)) a'). pose proof (filter_length_le (not_class (vals r)) b). simpl in L. lia.
Qed.

Lemma bag_eq_wsum w a b : congruent w -> bag_eq a b -> wsum w a = wsum w b.
Proof. intros Hw H. apply (bag_eq_wsum_n w Hw (length a + length b)); auto. Qed.

(* ---------- dedup / expand ---------- *)
Lemma zsum_filter_keep {A} (h : A -> Z) f l : (forall y, In y l -> f y = false -> h y = 0) -> zsum (map h (filter f l)) = zsum (map h l).
Proof.
  induction l as [|a l IH]; intro H; simpl; [reflexivity|].
  destruct (f a) eqn:E; simpl; rewrite IH by (intros; apply H; simpl; auto); [reflexivity|].
  rewrite (H a); simpl; auto.
Qed.
Lemma zsum_zero {A} (h : A -> Z) l : (forall y, In y l -> h y = 0) -> zsum (map h l) = 0.
Proof. induction l as [|a l IH]; intro H; simpl; [reflexivity|]. rewrite IH, (H a); simpl; auto. intros; apply H; simpl; auto. Qed.

Lemma in_dedup x l : In x (dedup l) -> In x l.
Proof.
  revert x. induction l as [|a l IH]; simpl; intros x H; [exact H|].
  destruct H as [H|H]; [auto|]. apply filter_In in H. right. apply IH. apply H.
Qed.

Lemma sum_dedup (g : row -> Z) x D : congruent g ->
  zsum (map (fun y => if row_eqb y x then g y else 0) (dedup D)) = if existsb (fun y => row_eqb y x) D then g x else 0.
Proof.
  intro Hg. induction D as [|d D IH]; simpl; [reflexivity|].
  destruct (row_eqb d x) eqn:E; simpl.
  - rewrite (Hg _ _ E). rewrite zsum_zero; [lia|].
    intros y Hy. apply filter_In in Hy. destruct Hy as [_ Hy].
    destruct (row_eqb y x) eqn:Eyx; [|reflexivity].
    rewrite (row_eqb_cong_r d y x Eyx), E in Hy. discriminate.
  - rewrite zsum_filter_keep; [exact IH|].
    intros y _ Hy. apply negb_false_iff in Hy.
    destruct (row_eqb y x) eqn:Eyx; [|reflexivity].
    rewrite (row_eqb_cong _ _ x Hy), Eyx in E. discriminate.
Qed.

Lemma consolidate_ins_repeat y k x : consolidate (map ins (repeat y k)) x = if row_eqb y x then Z.of_nat k else 0.
Proof.
  induction k as [|k IH]; [destruct (row_eqb y x); reflexivity|].
  change (repeat y (S k)) with (y :: repeat y k). cbn [map consolidate]. rewrite IH.
  unfold sign, ins; cbn [retr vals]. rewrite Nat2Z.inj_succ. clear IH. destruct (row_eqb y x); lia.
Qed.

Lemma consolidate_flat_map {A} (f : A -> list rec) l x : consolidate (flat_map f l) x = zsum (map (fun a => consolidate (f a) x) l).
Proof. induction l as [|a l IH]; simpl; [reflexivity|]. rewrite consolidate_app, IH. reflexivity. Qed.

Lemma map_flat_map {A B C} (h : B -> C) (f : A -> list B) l : map h (flat_map f l) = flat_map (fun a => map h (f a)) l.
Proof. induction l as [|a l IH]; simpl; [reflexivity|]. rewrite map_app, IH. reflexivity. Qed.

Lemma existsb_class_zero l x : existsb (fun y => row_eqb y x) (map vals l) = false -> consolidate l x = 0.
Proof.
  intro H. apply consolidate_zero. intros r Hr. destruct (row_eqb (vals r) x) eqn:E; [|reflexivity].
  assert (existsb (fun y => row_eqb y x) (map vals l) = true); [|congruence].
  apply existsb_exists. exists (vals r). split; [apply in_map; exact Hr | exact E].
Qed.

Lemma expand_represents l : nonneg l -> represents (expand l) l.
Proof.
  intros Hn x. unfold count_rows, expand. rewrite map_flat_map, consolidate_flat_map.
  rewrite (map_ext _ (fun y => if row_eqb y x then Z.of_nat (Z.to_nat (consolidate l y)) else 0)) by (intro; apply consolidate_ins_repeat).
  rewrite (sum_dedup (fun y => Z.of_nat (Z.to_nat (consolidate l y)))).
  - destruct (existsb (fun y => row_eqb y x) (map vals l)) eqn:E.
    + pose proof (Hn x). lia.
    + symmetry. apply existsb_class_zero. exact E.
  - intros a b Hab. rewrite (consolidate_cong l a b Hab). reflexivity.
Qed.

Lemma wsum_ins w rows : wsum w (map ins rows) = zsum (map w rows).
Proof. induction rows as [|a l IH]; [reflexivity|]. cbn [map wsum zsum]. rewrite IH. unfold sign, ins; cbn [retr vals]. lia. Qed.

Lemma zsum_nonneg {A} (h : A -> Z) l : (forall a, 0 <= h a) -> 0 <= zsum (map h l).
Proof. intro H. induction l; simpl; [lia|]. pose proof (H a). lia. Qed.

Lemma represents_bag_eq rows l : represents rows l -> bag_eq l (map ins rows).
Proof. intros H x. symmetry. apply H. Qed.

Lemma wsum_nonneg w l : congruent w -> (forall x, 0 <= w x) -> nonneg l -> 0 <= wsum w l.
Proof.
  intros Hw Hp Hn. rewrite (bag_eq_wsum w l (map ins (expand l)) Hw (represents_bag_eq _ _ (expand_represents l Hn))).
  rewrite wsum_ins. apply zsum_nonneg. exact Hp.
Qed.

(* ---------- validity ---------- *)
Lemma consolidate_snoc l r x : consolidate (l ++ [r]) x = consolidate l x + (if row_eqb (vals r) x then sign r else 0).
Proof. rewrite consolidate_app. simpl. lia. Qed.

Lemma valid_from_spec : forall l seen, nonneg seen ->
  (valid_from seen l = true <-> forall n x, 0 <= consolidate (seen ++ firstn n l) x).
Proof.
  induction l as [|r l IH]; intros seen Hs; simpl.
  - split; [|reflexivity]. intros _ n x. rewrite firstn_nil, app_nil_r. apply Hs.
  - rewrite andb_true_iff, Z.leb_le. split.
    + intros [H1 H2] n x. destruct n as [|n]; [simpl; rewrite app_nil_r; apply Hs|].
      simpl. replace (seen ++ r :: firstn n l) with ((seen ++ [r]) ++ firstn n l) by (rewrite <- app_assoc; reflexivity).
      apply IH; [|exact H2]. intro y. rewrite consolidate_snoc.
      destruct (row_eqb (vals r) y) eqn:E.
      * rewrite <- (consolidate_cong seen _ _ E). rewrite consolidate_snoc, row_eqb_refl in H1. exact H1.
      * pose proof (Hs y). lia.
    + intro H. assert (Hn : nonneg (seen ++ [r])) by (intro y; apply (H 1%nat y)).
      split; [apply Hn|]. apply IH; [exact Hn|]. intros n x.
      rewrite <- app_assoc. apply (H (S n) x).
Qed.

Lemma valid_iff l : valid_changelog l = true <-> Valid l.
Proof. unfold valid_changelog, Valid. apply (valid_from_spec l []). intro x. simpl. lia. Qed.

Lemma Valid_nonneg l : Valid l -> nonneg l.
Proof. intros H x. specialize (H (length l) x). rewrite firstn_all in H. exact H. Qed.

Lemma Valid_firstn l k : Valid l -> Valid (firstn k l).
Proof. intros H n x. rewrite firstn_firstn. apply H. Qed.

(* ===== part B ===== *)

Lemma records_map_Rec' {A} (f : A -> rec) l : records (map (fun y => Rec (f y)) l) = map f l.
Proof. induction l as [|a l IH]; [reflexivity|]. cbn [map records flat_map app]. fold (records (map (fun y => Rec (f y)) l)). rewrite IH. reflexivity. Qed.

(* ---------- linear operators: one block of output records per input record ---------- *)
Section Linear.
  Variable G : row -> list rec.        (* what an inserted row x contributes *)
  Definition blk (r : rec) : list rec := map (fun j => mkrec (vals j) (xorb (retr r) (retr j)) (et r)) (G (vals r)).
  Definition lin_out (l : list rec) : list rec := flat_map blk l.
  Definition G_congruent : Prop := forall x y o, row_eqb x y = true -> consolidate (G x) o = consolidate (G y) o.
  Definition G_inserts : Prop := forall x j, In j (G x) -> retr j = false.

  Lemma blk_consolidate r o : consolidate (blk r) o = sign r * consolidate (G (vals r)) o.
  Proof.
    unfold blk. induction (G (vals r)) as [|j js IH]; [simpl; lia|].
    cbn [map consolidate vals]. rewrite IH. unfold sign; cbn [retr]. destruct (retr r), (retr j), (row_eqb (vals j) o); cbn [xorb]; lia.
  Qed.

  Lemma lin_consolidate l o : consolidate (lin_out l) o = wsum (fun x => consolidate (G x) o) l.
  Proof.
    unfold lin_out. induction l as [|r l IH]; [reflexivity|].
    cbn [flat_map wsum]. rewrite consolidate_app, blk_consolidate, IH. reflexivity.
  Qed.

  Lemma lin_out_app a b : lin_out (a ++ b) = lin_out a ++ lin_out b.
  Proof. apply flat_map_app. Qed.

  Lemma batch_consolidate rows o : consolidate (flat_map G rows) o = wsum (fun x => consolidate (G x) o) (map ins rows).
  Proof. rewrite wsum_ins. apply consolidate_flat_map. Qed.

  Theorem lin_batch rows l : G_congruent -> represents rows l -> bag_eq (lin_out l) (flat_map G rows).
  Proof.
    intros Hc Hr o. rewrite lin_consolidate, batch_consolidate.
    apply bag_eq_wsum; [|apply represents_bag_eq; exact Hr].
    intros x y Hxy. apply Hc. exact Hxy.
  Qed.

  Lemma uniform_sign (b : list rec) s o : (forall j, In j b -> retr j = s) ->
    if s then consolidate b o <= 0 else 0 <= consolidate b o.
  Proof.
    induction b as [|j b IH]; intro H; [destruct s; simpl; lia|].
    cbn [consolidate]. assert (Hj := H j (or_introl eq_refl)).
    assert (IH' := IH (fun k Hk => H k (or_intror Hk))). unfold sign. rewrite Hj.
    destruct s, (row_eqb (vals j) o); lia.
  Qed.

  Lemma partial_block (b : list rec) s n o : (forall j, In j b -> retr j = s) ->
    if s then consolidate b o <= consolidate (firstn n b) o else 0 <= consolidate (firstn n b) o.
  Proof.
    intro H.
    assert (E : consolidate b o = consolidate (firstn n b) o + consolidate (skipn n b) o) by (rewrite <- consolidate_app, firstn_skipn; reflexivity).
    assert (H1 : forall j, In j (firstn n b) -> retr j = s).
    { intros j Hj. apply H. rewrite <- (firstn_skipn n b). apply in_or_app. left. exact Hj. }
    assert (H2 : forall j, In j (skipn n b) -> retr j = s).
    { intros j Hj. apply H. rewrite <- (firstn_skipn n b). apply in_or_app. right. exact Hj. }
    pose proof (uniform_sign _ s o H1). pose proof (uniform_sign _ s o H2).
    destruct s; [lia | assumption].
  Qed.

  Lemma blk_signs r : G_inserts -> forall j, In j (blk r) -> retr j = retr r.
  Proof.
    intros Hi j Hj. unfold blk in Hj. apply in_map_iff in Hj. destruct Hj as [k [Hk Hin]]. subst j. cbn [retr].
    rewrite (Hi _ _ Hin). destruct (retr r); reflexivity.
  Qed.

  Lemma lin_valid_from : G_congruent -> G_inserts -> forall l pre,
    (forall n x, 0 <= consolidate (pre ++ firstn n l) x) ->
    forall n o, 0 <= consolidate (lin_out pre ++ firstn n (lin_out l)) o.
  Proof.
    intros Hc Hi. 
    assert (Hw : forall o, congruent (fun x => consolidate (G x) o)) by (intros o x y Hxy; apply Hc; exact Hxy).
    assert (Hp : forall o x, 0 <= consolidate (G x) o).
    { intros o x. apply (uniform_sign (G x) false o). intros j Hj. apply (Hi x j Hj). }
    assert (base : forall pre o, nonneg pre -> 0 <= consolidate (lin_out pre) o).
    { intros pre o Hn. rewrite lin_consolidate. apply wsum_nonneg; [apply Hw | apply Hp | exact Hn]. }
    induction l as [|r l IH]; intros pre H n o.
    - cbn [lin_out flat_map]. rewrite firstn_nil, app_nil_r. apply base. intro x. specialize (H 0%nat x). rewrite app_nil_r in H. exact H.
    - assert (Hpre : nonneg pre) by (intro x; specialize (H 0%nat x); rewrite app_nil_r in H; exact H).
      assert (Hpre1 : nonneg (pre ++ [r])) by (intro x; apply (H 1%nat x)).
      change (lin_out (r :: l)) with (blk r ++ lin_out l). rewrite firstn_app.
      destruct (Nat.le_gt_cases n (length (blk r))) as [Le|Gt].
      + replace (n - length (blk r))%nat with 0%nat by lia. rewrite firstn_O, app_nil_r, consolidate_app.
        pose proof (partial_block (blk r) (retr r) n o (blk_signs r Hi)) as P.
        pose proof (base pre o Hpre) as B0. pose proof (base (pre ++ [r]) o Hpre1) as B1.
        rewrite lin_out_app, consolidate_app in B1. cbn [lin_out flat_map] in B1. rewrite app_nil_r in B1.
        destruct (retr r); lia.
      + rewrite firstn_all2 by lia. rewrite app_assoc.
        replace (lin_out pre ++ blk r) with (lin_out (pre ++ [r])) by (rewrite lin_out_app; cbn [lin_out flat_map]; rewrite app_nil_r; reflexivity).
        apply IH. intros m x. rewrite <- app_assoc. apply (H (S m) x).
  Qed.

  Theorem lin_valid l : G_congruent -> G_inserts -> Valid l -> Valid (lin_out l).
  Proof. intros Hc Hi Hv n o. apply (lin_valid_from Hc Hi l [] Hv n o). Qed.
End Linear.

(* ---------- the four linear nodes are instances ---------- *)
Definition G_filter (p : row -> value) (x : row) : list rec := if passes p x then [ins x] else [].
Definition G_map (fs : list (row -> value)) (x : row) : list rec := [ins (map_row fs x)].
Definition G_unnest (i : nat) (x : row) : list rec := map ins (unnest_row i x).
Definition G_lookup (joined : row -> list event) (x : row) : list rec :=
  map (fun j => mkrec (x ++ vals j) (retr j) zero_ns) (records (joined x)).

Lemma rec_eta r : mkrec (vals r) (retr r) (et r) = r. Proof. destruct r; reflexivity. Qed.
Lemma xorb_false_r' b : xorb b false = b. Proof. destruct b; reflexivity. Qed.

Lemma records_flat_map (f : event -> list event) inp : records (flat_map f inp) = flat_map (fun e => records (f e)) inp.
Proof. induction inp as [|e inp IH]; [reflexivity|]. cbn [flat_map]. rewrite records_app, IH. reflexivity. Qed.

Lemma flat_map_records (f : event -> list rec) (g : rec -> list rec) inp :
  (forall r, f (Rec r) = g r) -> (forall w, f (WM w) = []) -> flat_map f inp = flat_map g (records inp).
Proof.
  intros H1 H2. induction inp as [|e inp IH]; [reflexivity|]. destruct e as [r|w]; cbn [flat_map records app].
  - change (records (Rec r :: inp)) with (r :: records inp). cbn [flat_map]. rewrite H1, IH. reflexivity.
  - rewrite H2, IH. reflexivity.
Qed.

Lemma run_filter_lin p inp : records (run_filter p inp) = lin_out (G_filter p) (records inp).
Proof.
  unfold run_filter, lin_out. rewrite records_flat_map. apply flat_map_records; [|reflexivity].
  intro r. unfold blk, G_filter. cbn [filter_step]. destruct (passes p (vals r)); [|reflexivity].
  cbn [map records flat_map app ins vals retr]. rewrite xorb_false_r', rec_eta. reflexivity.
Qed.
Lemma run_map_lin fs inp : records (run_map fs inp) = lin_out (G_map fs) (records inp).
Proof.
  unfold run_map, lin_out. rewrite records_flat_map. apply flat_map_records; [|reflexivity].
  intro r. unfold blk, G_map. cbn [map_step map records flat_map app ins vals retr]. rewrite xorb_false_r'. reflexivity.
Qed.
Lemma run_unnest_lin i inp : records (run_unnest i inp) = lin_out (G_unnest i) (records inp).
Proof.
  unfold run_unnest, lin_out. rewrite records_flat_map. apply flat_map_records; [|reflexivity].
  intro r. unfold blk, G_unnest. cbn [unnest_step]. rewrite records_map_Rec', map_map. apply map_ext. intro y.
  cbn [ins vals retr]. rewrite xorb_false_r'. reflexivity.
Qed.
Lemma run_lookup_lin joined inp : records (run_lookup joined inp) = lin_out (G_lookup joined) (records inp).
Proof.
  unfold run_lookup, lin_out. rewrite records_flat_map. apply flat_map_records; [|reflexivity].
  intro r. unfold blk, G_lookup. cbn [lookup_step]. rewrite map_map. cbn [vals retr].
  unfold records. induction (joined (vals r)) as [|[j|w] js IH]; simpl; [reflexivity | rewrite IH; reflexivity | exact IH].
Qed.

(* ===== part C ===== *)

(* ---------- congruence hypotheses on the expressions ---------- *)
Definition pred_congruent (p : row -> value) : Prop := forall x y, row_eqb x y = true -> passes p x = passes p y.
Definition map_congruent (fs : list (row -> value)) : Prop :=
  forall x y, row_eqb x y = true -> row_eqb (map_row fs x) (map_row fs y) = true.
Definition joined_congruent (joined : row -> list event) : Prop :=
  forall x y o, row_eqb x y = true -> consolidate (records (joined x)) o = consolidate (records (joined y)) o.
Definition joined_inserts (joined : row -> list event) : Prop :=
  forall x j, In j (records (joined x)) -> retr j = false.

Lemma consolidate_ins1 x o : consolidate [ins x] o = if row_eqb x o then 1 else 0.
Proof. cbn [consolidate ins vals]. unfold sign; cbn [retr]. destruct (row_eqb x o); reflexivity. Qed.

(* filter *)
Lemma G_filter_congruent p : pred_congruent p -> G_congruent (G_filter p).
Proof.
  intros Hp x y o Hxy. unfold G_filter. rewrite (Hp x y Hxy). destruct (passes p y); [|reflexivity].
  rewrite !consolidate_ins1, (row_eqb_cong x y o Hxy). reflexivity.
Qed.
Lemma G_filter_inserts p : G_inserts (G_filter p).
Proof. intros x j. unfold G_filter. destruct (passes p x); simpl; [intros [<-|[]]; reflexivity | tauto]. Qed.
Lemma bag_filter_flat p rows : flat_map (G_filter p) rows = bag_filter p rows.
Proof. unfold bag_filter, G_filter. induction rows as [|x l IH]; [reflexivity|]. cbn [flat_map filter]. destruct (passes p x); cbn [map app]; rewrite IH; reflexivity. Qed.

(* map *)
Lemma G_map_congruent fs : map_congruent fs -> G_congruent (G_map fs).
Proof. intros Hf x y o Hxy. unfold G_map. rewrite !consolidate_ins1, (row_eqb_cong _ _ o (Hf x y Hxy)). reflexivity. Qed.
Lemma G_map_inserts fs : G_inserts (G_map fs).
Proof. intros x j. unfold G_map. simpl. intros [<-|[]]; reflexivity. Qed.
Lemma bag_map_flat fs rows : flat_map (G_map fs) rows = bag_map fs rows.
Proof. unfold bag_map, G_map. induction rows as [|x l IH]; [reflexivity|]. cbn [flat_map map app]. rewrite IH. reflexivity. Qed.

(* unnest *)
Definition veq (a b : value) : Prop := vcompare a b = 0.
Lemma row_eqb_Forall2 x y : row_eqb x y = true <-> Forall2 veq x y.
Proof.
  unfold row_eqb. revert y. induction x as [|a x IH]; intros [|b y]; simpl; try (split; [discriminate | intro H; inversion H]).
  - split; [constructor | reflexivity].
  - fold (lex_cmp vcompare x y). destruct (Z.eqb_spec (vcompare a b) 0) as [e|ne].
    + rewrite IH. split; [intro H; constructor; assumption | intro H; inversion H; assumption].
    + split.
      * intro H. apply Z.eqb_eq in H. contradiction.
      * intro H. inversion H; subst. contradiction.
Qed.

Lemma Forall2_nth x y i : Forall2 veq x y -> veq (nth i x VNull) (nth i y VNull).
Proof.
  intro H. revert i. induction H; intro i; destruct i; simpl; try apply vcompare_refl; auto.
Qed.
Lemma Forall2_firstn {A} (R : A -> A -> Prop) x y i : Forall2 R x y -> Forall2 R (firstn i x) (firstn i y).
Proof. intro H. revert i. induction H; intro i; destruct i; simpl; constructor; auto. Qed.
Lemma Forall2_skipn {A} (R : A -> A -> Prop) x y i : Forall2 R x y -> Forall2 R (skipn i x) (skipn i y).
Proof. intro H. revert i. induction H; intro i; destruct i; simpl; try constructor; auto. Qed.

Lemma list_field_veq a b : veq a b -> Forall2 veq (list_field a) (list_field b).
Proof.
  unfold veq. intro H.
  destruct a, b; simpl; try constructor;
    try (exfalso; match type of H with vcompare ?u ?v = 0 => rewrite (vcompare_tid_ne u v) in H by (simpl; lia); simpl in H; discriminate end).
  rewrite vc_list in H. apply row_eqb_Forall2. unfold row_eqb. rewrite H. reflexivity.
Qed.

Definition rows_equiv : list row -> list row -> Prop := Forall2 (fun a b => row_eqb a b = true).
Lemma consolidate_rows_equiv X Y o : rows_equiv X Y -> consolidate (map ins X) o = consolidate (map ins Y) o.
Proof.
  induction 1 as [|a b X Y Hab _ IH]; [reflexivity|]. cbn [map consolidate ins vals]. rewrite IH, (row_eqb_cong a b o Hab). reflexivity.
Qed.

Lemma unnest_row_equiv i x y : row_eqb x y = true -> rows_equiv (unnest_row i x) (unnest_row i y).
Proof.
  intro H. apply row_eqb_Forall2 in H. unfold unnest_row, rows_equiv.
  pose proof (list_field_veq _ _ (Forall2_nth x y i H)) as L.
  induction L as [|a b la lb Hab _ IH]; [constructor|]. cbn [map]. constructor; [|exact IH].
  apply row_eqb_Forall2. apply Forall2_app; [apply Forall2_firstn; exact H|].
  constructor; [exact Hab | apply Forall2_skipn; exact H].
Qed.

Lemma G_unnest_congruent i : G_congruent (G_unnest i).
Proof. intros x y o Hxy. unfold G_unnest. apply consolidate_rows_equiv. apply unnest_row_equiv. exact Hxy. Qed.
Lemma G_unnest_inserts i : G_inserts (G_unnest i).
Proof. intros x j Hj. unfold G_unnest in Hj. apply in_map_iff in Hj. destruct Hj as [k [<- _]]. reflexivity. Qed.
Lemma bag_unnest_flat i rows : flat_map (G_unnest i) rows = bag_unnest i rows.
Proof. unfold bag_unnest, G_unnest. rewrite map_flat_map. reflexivity. Qed.

(* lookup join *)
Lemma row_eqb_app x v o : row_eqb (x ++ v) o = row_eqb x (firstn (length x) o) && row_eqb v (skipn (length x) o).
Proof.
  unfold row_eqb. revert o. induction x as [|a x IH]; intro o.
  - simpl. reflexivity.
  - destruct o as [|b o]; [reflexivity|]. cbn [app length firstn skipn]. rewrite !lex_cons.
    destruct (Z.eqb_spec (vcompare a b) 0) as [e|ne]; [apply IH|].
    destruct (Z.eqb_spec (vcompare a b) 0); [contradiction | reflexivity].
Qed.
Lemma row_eqb_length x y : row_eqb x y = true -> length x = length y.
Proof. intro H. apply row_eqb_Forall2 in H. induction H; simpl; congruence. Qed.

Lemma G_lookup_consolidate joined x o :
  consolidate (G_lookup joined x) o =
  if row_eqb x (firstn (length x) o) then consolidate (records (joined x)) (skipn (length x) o) else 0.
Proof.
  unfold G_lookup. induction (records (joined x)) as [|j js IH]; [destruct (row_eqb x _); reflexivity|].
  cbn [map consolidate vals]. rewrite IH, row_eqb_app. unfold sign; cbn [retr].
  destruct (row_eqb x (firstn (length x) o)); cbn [andb]; [reflexivity | lia].
Qed.
Lemma G_lookup_congruent joined : joined_congruent joined -> G_congruent (G_lookup joined).
Proof.
  intros Hj x y o Hxy. rewrite !G_lookup_consolidate, <- (row_eqb_length x y Hxy), (row_eqb_cong x y _ Hxy).
  destruct (row_eqb y _); [apply Hj; exact Hxy | reflexivity].
Qed.
Lemma G_lookup_inserts joined : joined_inserts joined -> G_inserts (G_lookup joined).
Proof. intros Hj x j H. unfold G_lookup in H. apply in_map_iff in H. destruct H as [k [<- Hk]]. cbn [retr]. apply (Hj x k Hk). Qed.

(* ---------- the per-node theorems ---------- *)
Ltac lin_valid_tac L C I := intros; apply valid_iff; rewrite L; apply lin_valid; [apply C; assumption | apply I; try assumption | apply valid_iff; assumption].

Theorem filter_valid p inp : pred_congruent p -> valid_changelog (records inp) = true -> valid_changelog (records (run_filter p inp)) = true.
Proof. lin_valid_tac run_filter_lin G_filter_congruent G_filter_inserts. Qed.
Theorem filter_batch p inp rows : pred_congruent p -> represents rows (records inp) -> bag_eq (records (run_filter p inp)) (bag_filter p rows).
Proof. intros Hp Hr. rewrite run_filter_lin, <- bag_filter_flat. apply lin_batch; [apply G_filter_congruent; exact Hp | exact Hr]. Qed.

Theorem map_valid fs inp : map_congruent fs -> valid_changelog (records inp) = true -> valid_changelog (records (run_map fs inp)) = true.
Proof. lin_valid_tac run_map_lin G_map_congruent G_map_inserts. Qed.
Theorem map_batch fs inp rows : map_congruent fs -> represents rows (records inp) -> bag_eq (records (run_map fs inp)) (bag_map fs rows).
Proof. intros Hp Hr. rewrite run_map_lin, <- bag_map_flat. apply lin_batch; [apply G_map_congruent; exact Hp | exact Hr]. Qed.

Theorem unnest_valid i inp : valid_changelog (records inp) = true -> valid_changelog (records (run_unnest i inp)) = true.
Proof. intros. apply valid_iff. rewrite run_unnest_lin. apply lin_valid; [apply G_unnest_congruent | apply G_unnest_inserts | apply valid_iff; assumption]. Qed.
Theorem unnest_batch i inp rows : represents rows (records inp) -> bag_eq (records (run_unnest i inp)) (bag_unnest i rows).
Proof. intros Hr. rewrite run_unnest_lin, <- bag_unnest_flat. apply lin_batch; [apply G_unnest_congruent | exact Hr]. Qed.

Theorem lookup_valid joined inp : joined_congruent joined -> joined_inserts joined ->
  valid_changelog (records inp) = true -> valid_changelog (records (run_lookup joined inp)) = true.
Proof. intros. apply valid_iff. rewrite run_lookup_lin. apply lin_valid; [apply G_lookup_congruent; assumption | apply G_lookup_inserts; assumption | apply valid_iff; assumption]. Qed.
Theorem lookup_batch joined inp rows : joined_congruent joined -> represents rows (records inp) ->
  bag_eq (records (run_lookup joined inp)) (bag_lookup joined rows).
Proof. intros Hp Hr. rewrite run_lookup_lin. apply (lin_batch (G_lookup joined)); [apply G_lookup_congruent; exact Hp | exact Hr]. Qed.

(* ===== part D ===== *)

(* ---------- Distinct ---------- *)
Definition arity_is (n : nat) (l : list rec) : Prop := forall r, In r l -> length (vals r) = n.

Lemma dkey_eq_spec x k : length k = length x -> dkey_eq x k = row_eqb k x.
Proof.
  intro L. unfold dkey_eq. rewrite (slices_eq_row_eqb k x L).
  destruct (row_eqb k x) eqn:E; [|apply andb_false_r].
  unfold row_eqb in E. apply Z.eqb_eq in E. unfold vhash_many. rewrite (rows_enc k x E), Z.eqb_refl. reflexivity.
Qed.

Definition keys_ok (n : nat) (st : dstate) : Prop := forall k c, In (k, c) st -> length k = n /\ 0 < c.
Lemma keys_ok_cons n k c st : keys_ok n ((k, c) :: st) <-> (length k = n /\ 0 < c) /\ keys_ok n st.
Proof.
  unfold keys_ok. split.
  - intro H. split; [apply H; left; reflexivity | intros; apply H; right; assumption].
  - intros [H1 H2] k' c' [E|I]; [inversion E; subst; exact H1 | apply H2; exact I].
Qed.

Fixpoint uniq (st : dstate) : Prop :=
  match st with [] => True | (k, _) :: rest => dget rest k = None /\ uniq rest end.

Section DistinctState.
  Variable n : nat.
  Implicit Types (st : dstate) (x y : row).

  Ltac keq := repeat match goal with
    | H : keys_ok n ((_, _) :: _) |- _ => apply keys_ok_cons in H; destruct H as [[? ?] ?]
    end.

  Lemma dget_dput st x c y : keys_ok n st -> length x = n -> length y = n ->
    dget (dput st x c) y = if row_eqb x y then Some c else dget st y.
  Proof.
    intros K Lx Ly. induction st as [|[k c0] rest IH]; cbn [dput dget].
    - rewrite dkey_eq_spec by congruence. reflexivity.
    - keq. rewrite !(dkey_eq_spec _ k) by congruence. destruct (row_eqb k x) eqn:Ekx; cbn [dget]; rewrite !(dkey_eq_spec _ k) by congruence.
      + rewrite (row_eqb_cong k x y Ekx). destruct (row_eqb x y); reflexivity.
      + rewrite IH by assumption. destruct (row_eqb k y) eqn:Eky; [|reflexivity].
        destruct (row_eqb x y) eqn:Exy; [|reflexivity].
        rewrite (row_eqb_cong_r k x y Exy), Eky in Ekx. discriminate.
  Qed.

  Lemma dget_dset st x c y : keys_ok n st -> length x = n -> length y = n ->
    dget (dset st x c) y = if row_eqb x y then (match dget st x with Some _ => Some c | None => None end) else dget st y.
  Proof.
    intros K Lx Ly. induction st as [|[k c0] rest IH]; cbn [dset dget].
    - destruct (row_eqb x y); reflexivity.
    - keq. rewrite !(dkey_eq_spec _ k) by congruence. destruct (row_eqb k x) eqn:Ekx; cbn [dget]; rewrite !(dkey_eq_spec _ k) by congruence.
      + rewrite (row_eqb_cong k x y Ekx). destruct (row_eqb x y); reflexivity.
      + rewrite IH by assumption. destruct (row_eqb k y) eqn:Eky; [|reflexivity].
        destruct (row_eqb x y) eqn:Exy; [|reflexivity].
        rewrite (row_eqb_cong_r k x y Exy), Eky in Ekx. discriminate.
  Qed.

  Lemma dget_dremove st x y : keys_ok n st -> uniq st -> length x = n -> length y = n ->
    dget (dremove st x) y = if row_eqb x y then None else dget st y.
  Proof.
    intros K U Lx Ly. induction st as [|[k c0] rest IH]; cbn [dremove dget].
    - destruct (row_eqb x y); reflexivity.
    - keq. destruct U as [U1 U2]. rewrite !(dkey_eq_spec _ k) by congruence. destruct (row_eqb k x) eqn:Ekx; cbn [dget]; rewrite ?(dkey_eq_spec _ k) by congruence.
      + rewrite (row_eqb_cong k x y Ekx). destruct (row_eqb x y) eqn:Exy; [|reflexivity].
        (* y is equivalent to k, and k does not occur in rest *)
        clear IH. revert U1. induction rest as [|[k' c'] rest' IHr]; [reflexivity|]. keq. cbn [dget].
        rewrite !(dkey_eq_spec _ k') by congruence.
        assert (Eky : row_eqb k y = true) by (rewrite (row_eqb_cong k x y Ekx); exact Exy).
        rewrite (row_eqb_cong_r k' k y Eky). destruct (row_eqb k' y); [discriminate|]. apply IHr; assumption || (destruct U2; assumption).
      + rewrite IH by assumption. destruct (row_eqb k y) eqn:Eky; [|reflexivity].
        destruct (row_eqb x y) eqn:Exy; [|reflexivity].
        rewrite (row_eqb_cong_r k x y Exy), Eky in Ekx. discriminate.
  Qed.

  Lemma keys_ok_dput st x c : keys_ok n st -> length x = n -> 0 < c -> keys_ok n (dput st x c).
  Proof.
    intros K Lx Hc. induction st as [|[k c0] rest IH]; cbn [dput].
    - apply keys_ok_cons. split; [auto | intros ? ? []].
    - keq. destruct (dkey_eq x k); apply keys_ok_cons; auto.
  Qed.
  Lemma keys_ok_dset st x c : keys_ok n st -> 0 < c -> keys_ok n (dset st x c).
  Proof.
    intros K Hc. induction st as [|[k c0] rest IH]; cbn [dset]; [exact K|].
    keq. destruct (dkey_eq x k); apply keys_ok_cons; auto.
  Qed.
  Lemma keys_ok_dremove st x : keys_ok n st -> keys_ok n (dremove st x).
  Proof.
    intros K. induction st as [|[k c0] rest IH]; cbn [dremove]; [exact K|].
    keq. destruct (dkey_eq x k); [assumption | apply keys_ok_cons; auto].
  Qed.

  Lemma uniq_dput st x c : keys_ok n st -> length x = n -> uniq st -> uniq (dput st x c).
  Proof.
    intros K Lx U. induction st as [|[k c0] rest IH]; cbn [dput]; [simpl; auto|].
    keq. destruct U as [U1 U2]. destruct (dkey_eq x k) eqn:E; cbn [uniq]; [auto|]. split; [|auto].
    rewrite dget_dput by (assumption || congruence). rewrite dkey_eq_spec in E by congruence.
    rewrite row_eqb_sym, E. exact U1.
  Qed.
  Lemma uniq_dset st x c : keys_ok n st -> length x = n -> uniq st -> uniq (dset st x c).
  Proof.
    intros K Lx U. induction st as [|[k c0] rest IH]; cbn [dset]; [simpl; auto|].
    keq. destruct U as [U1 U2]. destruct (dkey_eq x k) eqn:E; cbn [uniq]; [auto|]. split; [|auto].
    rewrite dget_dset by (assumption || congruence). rewrite dkey_eq_spec in E by congruence.
    rewrite row_eqb_sym, E. exact U1.
  Qed.
  Lemma uniq_dremove st x : keys_ok n st -> length x = n -> uniq st -> uniq (dremove st x).
  Proof.
    intros K Lx U. induction st as [|[k c0] rest IH]; cbn [dremove]; [simpl; auto|].
    keq. destruct U as [U1 U2]. destruct (dkey_eq x k) eqn:E; cbn [uniq]; [auto|]. split; [|auto].
    rewrite dget_dremove by (assumption || congruence). rewrite dkey_eq_spec in E by congruence.
    rewrite row_eqb_sym, E. exact U1.
  Qed.
End DistinctState.

(* ===== part D2 ===== *)

Definition ind (c : Z) : Z := if 0 <? c then 1 else 0.
Definition dcount (st : dstate) (x : row) : Z := match dget st x with Some c => c | None => 0 end.

Definition DInv (n : nat) (st : dstate) (pre : list rec) : Prop :=
  keys_ok n st /\ uniq st /\ forall x, length x = n -> dcount st x = consolidate pre x.

Lemma dget_pos n st x c : keys_ok n st -> dget st x = Some c -> 0 < c.
Proof.
  intros K. induction st as [|[k c0] rest IH]; cbn [dget]; [discriminate|].
  apply keys_ok_cons in K. destruct K as [[_ P] K]. destruct (dkey_eq x k); [intro E; inversion E; subst; exact P | apply IH; exact K].
Qed.

Lemma distinct_step_inv n st pre r :
  DInv n st pre -> length (vals r) = n -> nonneg pre -> nonneg (pre ++ [r]) ->
  DInv n (fst (distinct_step st r)) (pre ++ [r]) /\
  forall y, length y = n ->
    consolidate (records (snd (distinct_step st r))) y = ind (consolidate (pre ++ [r]) y) - ind (consolidate pre y).
Proof.
  intros [K [U C]] Lr Np Np1.
  pose proof (C (vals r) Lr) as Cx. pose proof (Np (vals r)) as Mx. pose proof (Np1 (vals r)) as Mx1.
  rewrite consolidate_snoc, row_eqb_refl in Mx1.
  unfold distinct_step. fold (dcount st (vals r)). rewrite Cx. set (m := consolidate pre (vals r)) in *.
  assert (Hy : forall y, length y = n -> row_eqb (vals r) y = true -> consolidate pre y = m)
    by (intros y _ E; unfold m; symmetry; apply consolidate_cong; exact E).
  assert (Present : 0 < m -> exists c, dget st (vals r) = Some c).
  { intro P. unfold dcount in Cx. destruct (dget st (vals r)) as [c|]; [eauto | lia]. }
  unfold sign in Mx1. clearbody m.
  destruct (retr r) eqn:Er; cbn [negb andb].
  - (* retraction *)
    destruct (Z.ltb_spec 0 (m - 1)) as [P|P]; cbn [fst snd].
    + split.
      * split; [apply keys_ok_dset; assumption|]. split; [apply (uniq_dset n); assumption|].
        intros y Ly. unfold dcount. rewrite (dget_dset n) by assumption. rewrite consolidate_snoc. unfold sign. rewrite Er. cbv iota.
        destruct (row_eqb (vals r) y) eqn:E.
        -- destruct (Present ltac:(lia)) as [c ->]. cbv beta iota. rewrite (Hy y Ly E). lia.
        -- fold (dcount st y). rewrite (C y Ly). lia.
      * intros y Ly. cbn [records flat_map consolidate]. rewrite consolidate_snoc. unfold sign. rewrite Er. cbv iota.
        destruct (row_eqb (vals r) y) eqn:E; [rewrite (Hy y Ly E); unfold ind; destruct (Z.ltb_spec 0 (m + -1)), (Z.ltb_spec 0 m); lia | rewrite !Z.add_0_r; lia].
    + assert (m = 1) by lia. split.
      * split; [apply keys_ok_dremove; assumption|]. split; [apply (uniq_dremove n); assumption|].
        intros y Ly. unfold dcount. rewrite (dget_dremove n) by assumption. rewrite consolidate_snoc. unfold sign. rewrite Er. cbv iota.
        destruct (row_eqb (vals r) y) eqn:E.
        -- cbv beta iota. rewrite (Hy y Ly E). lia.
        -- fold (dcount st y). rewrite (C y Ly). lia.
      * intros y Ly. cbn [records flat_map app consolidate]. rewrite consolidate_snoc. unfold sign. rewrite Er. cbv iota.
        destruct (row_eqb (vals r) y) eqn:E; [rewrite (Hy y Ly E); replace m with 1 by lia; unfold ind; simpl; lia | rewrite !Z.add_0_r; lia].
  - (* insertion *)
    destruct (Z.ltb_spec 0 (m + 1)) as [P|P]; [|lia].
    destruct (Z.eqb_spec (m + 1) 1) as [E1|E1]; cbn [fst snd].
    + assert (m = 0) by lia. split.
      * split; [apply keys_ok_dput; (assumption || lia)|]. split; [apply (uniq_dput n); assumption|].
        intros y Ly. unfold dcount. rewrite (dget_dput n) by assumption. rewrite consolidate_snoc. unfold sign. rewrite Er. cbv iota.
        destruct (row_eqb (vals r) y) eqn:E.
        -- cbv beta iota. rewrite (Hy y Ly E). lia.
        -- fold (dcount st y). rewrite (C y Ly). lia.
      * intros y Ly. cbn [records flat_map app consolidate]. rewrite consolidate_snoc. unfold sign. rewrite Er. cbv iota.
        destruct (row_eqb (vals r) y) eqn:E; [rewrite (Hy y Ly E); unfold ind; replace m with 0 by lia; simpl; lia | rewrite !Z.add_0_r; lia].
    + split.
      * split; [apply keys_ok_dset; (assumption || lia)|]. split; [apply (uniq_dset n); assumption|].
        intros y Ly. unfold dcount. rewrite (dget_dset n) by assumption. rewrite consolidate_snoc. unfold sign. rewrite Er. cbv iota.
        destruct (row_eqb (vals r) y) eqn:E.
        -- destruct (Present ltac:(lia)) as [c ->]. cbv beta iota. rewrite (Hy y Ly E). lia.
        -- fold (dcount st y). rewrite (C y Ly). lia.
      * intros y Ly. cbn [records flat_map consolidate]. rewrite consolidate_snoc. unfold sign. rewrite Er. cbv iota.
        destruct (row_eqb (vals r) y) eqn:E; [rewrite (Hy y Ly E); unfold ind; destruct (Z.ltb_spec 0 (m + 1)), (Z.ltb_spec 0 m); lia | rewrite !Z.add_0_r; lia].
Qed.

(* ===== part D3 ===== *)

Lemma arity_other_zero n l y : arity_is n l -> length y <> n -> consolidate l y = 0.
Proof.
  intros Ha Ly. apply consolidate_zero. intros r Hr. destruct (row_eqb (vals r) y) eqn:E; [|reflexivity].
  apply row_eqb_length in E. rewrite (Ha r Hr) in E. congruence.
Qed.

Lemma distinct_from_spec n : forall inp st pre,
  DInv n st pre -> arity_is n (records inp) ->
  (forall k x, 0 <= consolidate (pre ++ firstn k (records inp)) x) ->
  forall y, length y = n ->
  consolidate (records (distinct_from st inp)) y = ind (consolidate (pre ++ records inp) y) - ind (consolidate pre y).
Proof.
  induction inp as [|[r|w] inp IH]; intros st pre I Ha V y Ly.
  - cbn [distinct_from records flat_map consolidate]. rewrite app_nil_r. lia.
  - change (records (Rec r :: inp)) with (r :: records inp) in *.
    cbn [distinct_from]. destruct (distinct_step st r) as [st' out] eqn:Es.
    assert (Np : nonneg pre) by (intro x; specialize (V 0%nat x); rewrite app_nil_r in V; exact V).
    assert (Np1 : nonneg (pre ++ [r])) by (intro x; apply (V 1%nat x)).
    destruct (distinct_step_inv n st pre r I (Ha r (or_introl eq_refl)) Np Np1) as [I' O]. rewrite Es in I', O. cbn [fst snd] in I', O.
    rewrite records_app, consolidate_app, (O y Ly).
    rewrite (IH st' (pre ++ [r]) I'); [| intros r' Hr'; apply Ha; right; exact Hr' | | exact Ly].
    + rewrite <- app_assoc. cbn [app]. lia.
    + intros k x. rewrite <- app_assoc. apply (V (S k) x).
  - change (records (WM w :: inp)) with (records inp) in *. cbn [distinct_from]. apply IH; assumption.
Qed.

Lemma DInv_init n : DInv n [] [].
Proof. split; [intros ? ? []|]. split; [exact I|]. intros; reflexivity. Qed.

Theorem distinct_consolidate n inp : arity_is n (records inp) -> valid_changelog (records inp) = true ->
  forall y, consolidate (records (run_distinct inp)) y = ind (consolidate (records inp) y).
Proof.
  intros Ha V y. apply valid_iff in V.
  destruct (Nat.eq_dec (length y) n) as [Ly|Ly].
  - unfold run_distinct. rewrite (distinct_from_spec n inp [] [] (DInv_init n) Ha V y Ly). cbn [app consolidate]. unfold ind at 2. simpl. lia.
  - rewrite (arity_other_zero n _ y Ha Ly). unfold ind. simpl.
    apply consolidate_zero. intros r Hr. destruct (row_eqb (vals r) y) eqn:E; [|reflexivity].
    exfalso. apply Ly. apply row_eqb_length in E. rewrite <- E.
    (* every emitted record is an input record *)
    assert (Sub : forall inp st, forall r, In r (records (distinct_from st inp)) -> In r (records inp)).
    { clear. induction inp as [|[r0|w] inp IH]; intros st r H; cbn [distinct_from] in H; [exact H | | apply (IH st r H)].
      destruct (distinct_step st r0) as [st' out] eqn:Es. rewrite records_app in H. apply in_app_or in H.
      change (records (Rec r0 :: inp)) with (r0 :: records inp). destruct H as [H|H]; [|right; apply (IH st' r H)].
      unfold distinct_step in Es. destruct (0 <? _); [destruct (_ && _)|]; inversion Es; subst out; simpl in H; try tauto; destruct H as [->|[]]; left; reflexivity. }
    apply Ha. apply (Sub inp [] r Hr).
Qed.

(* DISTINCT in batch: the support *)
Lemma count_dedup rows y : count_rows (dedup rows) y = ind (count_rows rows y).
Proof.
  unfold count_rows.
  assert (E1 : forall l, consolidate (map ins l) y = zsum (map (fun x => if row_eqb x y then 1 else 0) l)).
  { induction l as [|a l IH]; [reflexivity|]. cbn [map consolidate zsum ins vals]. rewrite IH. unfold sign; cbn [retr]. reflexivity. }
  rewrite E1, (sum_dedup (fun _ => 1) y rows) by (intros ? ? ?; reflexivity). rewrite E1.
  unfold ind. induction rows as [|a l IH]; [reflexivity|]. cbn [existsb map zsum].
  assert (0 <= zsum (map (fun x => if row_eqb x y then 1 else 0) l)) by (apply zsum_nonneg; intro x; destruct (row_eqb x y); lia).
  destruct (row_eqb a y); cbn [orb].
  - destruct (Z.ltb_spec 0 (1 + zsum (map (fun x => if row_eqb x y then 1 else 0) l))); [reflexivity | lia].
  - rewrite IH. reflexivity.
Qed.

Theorem distinct_batch n inp rows : arity_is n (records inp) -> valid_changelog (records inp) = true ->
  represents rows (records inp) -> bag_eq (records (run_distinct inp)) (bag_support rows).
Proof.
  intros Ha V R y. rewrite (distinct_consolidate n inp Ha V y). unfold bag_support.
  fold (count_rows (dedup rows) y). rewrite count_dedup, (R y). reflexivity.
Qed.

(* every prefix of the output is the output for a prefix of the input *)
Lemma distinct_prefix : forall inp st k, exists m,
  firstn k (records (distinct_from st inp)) = records (distinct_from st (firstn m inp)).
Proof.
  induction inp as [|[r|w] inp IH]; intros st k.
  - exists 0%nat. destruct k; reflexivity.
  - destruct k as [|k]; [exists 0%nat; reflexivity|].
    cbn [distinct_from]. destruct (distinct_step st r) as [st' out] eqn:Es.
    assert (Ho : out = [] \/ out = [Rec r]).
    { unfold distinct_step in Es. destruct (0 <? _); [destruct (_ && _)|]; inversion Es; auto. }
    destruct Ho as [-> | ->].
    + destruct (IH st' (S k)) as [m Hm]. exists (S m). cbn [firstn distinct_from]. rewrite Es. exact Hm.
    + destruct (IH st' k) as [m Hm]. exists (S m). cbn [firstn distinct_from]. rewrite Es.
      cbn [app records flat_map firstn]. fold (records (distinct_from st' inp)). fold (records (distinct_from st' (firstn m inp))).
      cbn [firstn]. rewrite Hm. reflexivity.
  - destruct (IH st k) as [m Hm]. exists (S m). cbn [firstn distinct_from]. exact Hm.
Qed.

Lemma records_firstn : forall inp m, exists k, records (firstn m inp) = firstn k (records inp).
Proof.
  induction inp as [|[r|w] inp IH]; intro m.
  - exists 0%nat. destruct m; reflexivity.
  - destruct m as [|m]; [exists 0%nat; reflexivity|]. destruct (IH m) as [k Hk]. exists (S k).
    cbn [firstn]. change (records (Rec r :: firstn m inp)) with (r :: records (firstn m inp)). rewrite Hk. reflexivity.
  - destruct m as [|m]; [exists 0%nat; reflexivity|]. destruct (IH m) as [k Hk]. exists k. exact Hk.
Qed.

Theorem distinct_valid n inp : arity_is n (records inp) -> valid_changelog (records inp) = true ->
  valid_changelog (records (run_distinct inp)) = true.
Proof.
  intros Ha V. apply valid_iff. intros k y. unfold run_distinct.
  destruct (distinct_prefix inp [] k) as [m ->]. fold (run_distinct (firstn m inp)).
  destruct (records_firstn inp m) as [j Hj].
  rewrite (distinct_consolidate n (firstn m inp)).
  - unfold ind. destruct (0 <? _); lia.
  - rewrite Hj. intros r Hr. apply Ha. rewrite <- (firstn_skipn j (records inp)). apply in_or_app. left. exact Hr.
  - rewrite Hj. apply valid_iff. apply Valid_firstn. apply valid_iff. exact V.
Qed.

(* ===== part E ===== *)

(* ---------- LIMIT: Props of C05 ---------- *)
Definition sub_bag (out rows : list row) : Prop := forall x, count_rows out x <= count_rows rows x.
Definition is_limit_of (n : Z) (rows out : list row) : Prop :=
  sub_bag out rows /\ Z.of_nat (length out) = Z.min n (Z.of_nat (length rows)).

Lemma count_rows_nonneg l x : 0 <= count_rows l x.
Proof. unfold count_rows. induction l as [|a l IH]; [simpl; lia|]. cbn [map consolidate]. change (sign (ins a)) with 1. change (vals (ins a)) with a. destruct (row_eqb a x); lia. Qed.
Lemma count_rows_app a b x : count_rows (a ++ b) x = count_rows a x + count_rows b x.
Proof. unfold count_rows. rewrite map_app. apply consolidate_app. Qed.
Lemma sub_bag_firstn k l : sub_bag (firstn k l) l.
Proof. intro x. rewrite <- (firstn_skipn k l) at 2. rewrite count_rows_app. pose proof (count_rows_nonneg (skipn k l) x). lia. Qed.

(* two lists that represent the same bag have the same length *)
Lemma length_wsum rows : Z.of_nat (length rows) = wsum (fun _ => 1) (map ins rows).
Proof. rewrite wsum_ins. induction rows as [|a l IH]; [reflexivity|]. cbn [length map zsum]. lia. Qed.
Lemma same_bag_length a b : (forall x, count_rows a x = count_rows b x) -> length a = length b.
Proof.
  intro H. apply Nat2Z.inj. rewrite !length_wsum. apply bag_eq_wsum; [intros ? ? ?; reflexivity | exact H].
Qed.
Lemma is_limit_of_same_bag n rows rows' out : (forall x, count_rows rows x = count_rows rows' x) ->
  is_limit_of n rows out -> is_limit_of n rows' out.
Proof. intros H [S L]. split; [intro x; rewrite <- H; apply S | rewrite <- (same_bag_length _ _ H); exact L]. Qed.

Lemma insert_only_represents l : insert_only l = true -> represents (map vals l) l.
Proof.
  intros H x. unfold count_rows. induction l as [|r l IH]; [reflexivity|].
  cbn [insert_only forallb] in H. apply andb_true_iff in H. destruct H as [Hr Hl].
  cbn [map consolidate ins vals]. rewrite (IH Hl). unfold sign; cbn [retr]. apply negb_true_iff in Hr. rewrite Hr. reflexivity.
Qed.

(* the Limit node forwards a prefix of its input *)
Lemma limit_go_prefix n : forall inp i, exists k, limit_go n i inp = firstn k inp.
Proof.
  induction inp as [|[r|w] inp IH]; intro i.
  - exists 0%nat. reflexivity.
  - cbn [limit_go]. destruct (i + 1 =? n); [exists 1%nat; reflexivity|]. destruct (IH (i + 1)) as [k Hk]. exists (S k). rewrite Hk. reflexivity.
  - cbn [limit_go]. destruct (IH i) as [k Hk]. exists (S k). rewrite Hk. reflexivity.
Qed.
Lemma run_limit_prefix n inp : exists k, run_limit n inp = firstn k inp.
Proof. unfold run_limit. destruct (n =? 0); [exists 0%nat; reflexivity | apply limit_go_prefix]. Qed.

Theorem limit_valid n inp : valid_changelog (records inp) = true -> valid_changelog (records (run_limit n inp)) = true.
Proof.
  intro V. destruct (run_limit_prefix n inp) as [k ->]. destruct (records_firstn inp k) as [j ->].
  apply valid_iff. apply Valid_firstn. apply valid_iff. exact V.
Qed.

Lemma limit_go_rows n : forall inp i, 0 <= i < n ->
  rows_of (limit_go n i inp) = firstn (Z.to_nat (n - i)) (rows_of inp).
Proof.
  unfold rows_of. induction inp as [|[r|w] inp IH]; intros i Hi.
  - rewrite firstn_nil. reflexivity.
  - cbn [limit_go]. replace (Z.to_nat (n - i)) with (S (Z.to_nat (n - (i + 1)))) by lia.
    change (records (Rec r :: ?l)) with (r :: records l). cbn [map firstn].
    destruct (Z.eqb_spec (i + 1) n) as [E|E].
    + replace (n - (i + 1)) with 0 by lia. reflexivity.
    + rewrite IH by lia. reflexivity.
  - cbn [limit_go]. change (records (WM w :: ?l)) with (records l). apply IH. exact Hi.
Qed.
Theorem run_limit_rows n inp : 0 <= n -> rows_of (run_limit n inp) = firstn (Z.to_nat n) (rows_of inp).
Proof.
  intro Hn. unfold run_limit. destruct (Z.eqb_spec n 0) as [->|E]; [reflexivity|].
  rewrite limit_go_rows by lia. rewrite Z.sub_0_r. reflexivity.
Qed.

Lemma firstn_is_limit_of n l : 0 <= n -> is_limit_of n l (firstn (Z.to_nat n) l).
Proof. intro Hn. split; [apply sub_bag_firstn | rewrite firstn_length; lia]. Qed.

Theorem limit_node_is_limit_of n inp rows : 0 <= n -> insert_only (records inp) = true ->
  represents rows (records inp) -> is_limit_of n rows (rows_of (run_limit n inp)).
Proof.
  intros Hn Hi R. rewrite run_limit_rows by exact Hn.
  apply (is_limit_of_same_bag n (rows_of inp)); [|apply firstn_is_limit_of; exact Hn].
  intro x. rewrite (R x). apply (insert_only_represents _ Hi).
Qed.

(* the pinned node returns every row for LIMIT 0 *)
Lemma limit_pinned_refuted : exists inp, valid_changelog (records inp) = true /\ insert_only (records inp) = true /\
  ~ is_limit_of 0 (rows_of inp) (rows_of (run_limit_pinned 0 inp)).
Proof.
  exists [Rec (ins [VInt 1]); Rec (ins [VInt 2])]. split; [reflexivity|]. split; [reflexivity|].
  intros [_ L]. vm_compute in L. discriminate.
Qed.

(* ===== part F ===== *)

(* ---------- the order of the counted tree ---------- *)
Definition key_congruent (ks : okeys) : Prop :=
  forall k, In k ks -> forall x y, row_eqb x y = true -> vcompare (snd k x) (snd k y) = 0.

Lemma dcmp_laws : forall a, cmp_laws dcmp a.
Proof.
  intro a. split; intros.
  - destruct a, b; simpl; try lia; apply vcompare_range.
  - destruct a; simpl; apply vcompare_refl.
  - destruct a, b; simpl; try lia; apply vcompare_antisym.
  - destruct a, b, c; simpl in *; try lia; try discriminate.
    + apply vcompare_eq_cong; assumption.
    + symmetry. apply vcompare_eq_cong_r. assumption.
  - destruct a, b, c; simpl in *; try lia; try discriminate.
    + apply vcompare_eq_cong_r; assumption.
    + symmetry. apply vcompare_eq_cong. assumption.
  - destruct a, b, c; simpl in *; try lia; try discriminate.
    + eapply vcompare_lt_trans; eassumption.
    + eapply vcompare_lt_trans; eassumption.
Qed.

Lemma cmp_laws_comap {A B} (cmp : B -> B -> Z) (f : A -> B) : (forall b, cmp_laws cmp b) ->
  forall a, cmp_laws (fun x y => cmp (f x) (f y)) a.
Proof.
  intros H a. destruct (H (f a)) as [r rf an cl cr tr].
  split; intros; [apply r | apply rf | apply an | apply cl; assumption | apply cr; assumption | eapply tr; eassumption].
Qed.

Lemma item_cmp_laws ks : forall a, cmp_laws (item_cmp ks) a.
Proof.
  apply (cmp_laws_comap (lex_cmp dcmp) (skey ks)). intro b. apply lex_laws. apply Forall_forall. intros; apply dcmp_laws.
Qed.

Lemma lex_cmp_app {A} (c : A -> A -> Z) : forall p p' s s', length p = length p' ->
  lex_cmp c (p ++ s) (p' ++ s') = if lex_cmp c p p' =? 0 then lex_cmp c s s' else lex_cmp c p p'.
Proof.
  induction p as [|a p IH]; intros [|b p'] s s' L; simpl in L; try discriminate; [reflexivity|].
  cbn [app]. rewrite !lex_cons. destruct (c a b =? 0) eqn:E; [apply IH; lia|]. rewrite E. reflexivity.
Qed.
Lemma lex_Asc : forall a b, lex_cmp dcmp (map Asc a) (map Asc b) = lex_cmp vcompare a b.
Proof. induction a as [|x a IH]; intros [|y b]; try reflexivity. cbn [map]. rewrite !lex_cons, IH. reflexivity. Qed.

Lemma okey_cong ks x y : key_congruent ks -> row_eqb x y = true -> lex_cmp dcmp (okey ks x) (okey ks y) = 0.
Proof.
  intros Hk Hxy. unfold okey. induction ks as [|k ks IH]; [reflexivity|]. cbn [map]. rewrite lex_cons.
  assert (E : vcompare (snd k x) (snd k y) = 0) by (apply (Hk k (or_introl eq_refl)); exact Hxy).
  assert (E' : vcompare (snd k y) (snd k x) = 0) by (rewrite vcompare_antisym, E; reflexivity).
  replace (dcmp _ _) with 0 by (destruct (fst k); simpl; congruence).
  simpl. apply IH. intros k' Hk'. apply Hk. right. exact Hk'.
Qed.

Lemma item_cmp_unfold ks a b :
  item_cmp ks a b = if lex_cmp dcmp (okey ks a) (okey ks b) =? 0 then lex_cmp vcompare a b else lex_cmp dcmp (okey ks a) (okey ks b).
Proof. unfold item_cmp, skey. rewrite lex_cmp_app by (unfold okey; rewrite !map_length; reflexivity). rewrite lex_Asc. reflexivity. Qed.

Lemma item_cmp_zero ks a b : key_congruent ks -> (item_cmp ks a b = 0 <-> row_eqb a b = true).
Proof.
  intro Hk. rewrite item_cmp_unfold. unfold row_eqb. split.
  - destruct (Z.eqb_spec (lex_cmp dcmp (okey ks a) (okey ks b)) 0); [intro H; rewrite H; reflexivity | contradiction].
  - intro H. rewrite (okey_cong ks a b Hk H). simpl. apply Z.eqb_eq. exact H.
Qed.

Lemma item_eqv_spec ks a b : key_congruent ks -> item_eqv ks a b = row_eqb a b.
Proof.
  intro Hk. unfold item_eqv, item_less. rewrite (cl_anti _ _ (item_cmp_laws ks a) b).
  destruct (row_eqb a b) eqn:E.
  - apply (item_cmp_zero ks a b Hk) in E. rewrite E. reflexivity.
  - assert (N : item_cmp ks a b <> 0) by (intro Z0; apply (item_cmp_zero ks a b Hk) in Z0; congruence).
    destruct (cl_range _ _ (item_cmp_laws ks a) b) as [R|[R|R]]; rewrite R in *; try reflexivity. contradiction.
Qed.

Lemma item_less_key_le ks a b : item_cmp ks a b = -1 -> key_le ks a b = true.
Proof.
  rewrite item_cmp_unfold. unfold key_le. destruct (Z.eqb_spec (lex_cmp dcmp (okey ks a) (okey ks b)) 0) as [e|ne].
  - intros _. rewrite e. reflexivity.
  - intro H. rewrite H. reflexivity.
Qed.
Lemma key_le_refl ks a : key_le ks a a = true.
Proof. unfold key_le. rewrite (cl_refl _ _ (lex_laws dcmp (okey ks a) ltac:(apply Forall_forall; intros; apply dcmp_laws))). reflexivity. Qed.
Lemma key_le_trans ks a b c : key_le ks a b = true -> key_le ks b c = true -> key_le ks a c = true.
Proof.
  unfold key_le. rewrite !Z.leb_le.
  pose proof (fun l => lex_laws dcmp l ltac:(apply Forall_forall; intros; apply dcmp_laws)) as L.
  set (A := okey ks a). set (B := okey ks b). set (C := okey ks c). intros H1 H2.
  destruct (cl_range _ _ (L A) B) as [E1|[E1|E1]]; try lia;
  destruct (cl_range _ _ (L B) C) as [E2|[E2|E2]]; try lia.
  - rewrite (cl_trans _ _ (L A) B C E1 E2). lia.
  - rewrite <- (cl_congr _ _ (L A) B C E2). lia.
  - rewrite (cl_congl _ _ (L A) B C E1). lia.
  - rewrite (cl_congl _ _ (L A) B C E1). lia.
Qed.

(* ---------- the tree operations are the association-list operations of Distinct, plus sorted insertion ---------- *)
Section TreeState.
  Variables (n : nat) (ks : okeys).
  Hypothesis Hk : key_congruent ks.

  Lemma eqv_dkey k x : length k = n -> length x = n -> item_eqv ks k x = dkey_eq x k.
  Proof. intros. rewrite item_eqv_spec, dkey_eq_spec by (assumption || congruence). reflexivity. Qed.

  Lemma tget_dget t x : keys_ok n t -> length x = n -> tget ks t x = dget t x.
  Proof.
    intros K L. induction t as [|[k c] rest IH]; [reflexivity|]. apply keys_ok_cons in K. destruct K as [[Lk _] K].
    cbn [tget dget]. rewrite eqv_dkey, IH by assumption. reflexivity.
  Qed.
  Lemma tset_dset t x c : keys_ok n t -> length x = n -> tset ks t x c = dset t x c.
  Proof.
    intros K L. induction t as [|[k c0] rest IH]; [reflexivity|]. apply keys_ok_cons in K. destruct K as [[Lk _] K].
    cbn [tset dset]. rewrite eqv_dkey, IH by assumption. reflexivity.
  Qed.
  Lemma tdelete_dremove t x : keys_ok n t -> length x = n -> tdelete ks t x = dremove t x.
  Proof.
    intros K L. induction t as [|[k c0] rest IH]; [reflexivity|]. apply keys_ok_cons in K. destruct K as [[Lk _] K].
    cbn [tdelete dremove]. rewrite eqv_dkey, IH by assumption. reflexivity.
  Qed.

  Lemma dget_tinsert t x c y : keys_ok n t -> length x = n -> length y = n -> dget t x = None ->
    dget (tinsert ks t x c) y = if row_eqb x y then Some c else dget t y.
  Proof.
    intros K Lx Ly. induction t as [|[k c0] rest IH]; intro Nx; cbn [tinsert dget].
    - rewrite dkey_eq_spec by congruence. reflexivity.
    - apply keys_ok_cons in K. destruct K as [[Lk _] K]. cbn [dget] in Nx.
      rewrite dkey_eq_spec in Nx by congruence. destruct (row_eqb k x) eqn:Ekx; [discriminate|].
      destruct (item_less ks x k); cbn [dget]; rewrite !(dkey_eq_spec _ k) by congruence; rewrite ?(dkey_eq_spec y x) by congruence.
      + destruct (row_eqb x y); reflexivity.
      + rewrite IH by assumption. destruct (row_eqb k y) eqn:Eky; [|reflexivity].
        destruct (row_eqb x y) eqn:Exy; [|reflexivity].
        rewrite (row_eqb_cong_r k x y Exy), Eky in Ekx. discriminate.
  Qed.

  Lemma keys_ok_tinsert t x c : keys_ok n t -> length x = n -> 0 < c -> keys_ok n (tinsert ks t x c).
  Proof.
    intros K Lx Hc. induction t as [|[k c0] rest IH]; cbn [tinsert].
    - apply keys_ok_cons. split; [auto | intros ? ? []].
    - destruct (item_less ks x k).
      + apply keys_ok_cons. split; [auto | exact K].
      + apply keys_ok_cons in K. destruct K as [[Lk P] K]. apply keys_ok_cons. auto.
  Qed.

  Lemma uniq_tinsert t x c : keys_ok n t -> length x = n -> dget t x = None -> uniq t -> uniq (tinsert ks t x c).
  Proof.
    intros K Lx. induction t as [|[k c0] rest IH]; intros Nx U; cbn [tinsert]; [simpl; auto|].
    destruct (item_less ks x k); [cbn [uniq]; auto|].
    apply keys_ok_cons in K. destruct K as [[Lk P] K]. destruct U as [U1 U2]. cbn [dget] in Nx.
    rewrite dkey_eq_spec in Nx by congruence. destruct (row_eqb k x) eqn:Ekx; [discriminate|].
    cbn [uniq]. split; [|apply IH; assumption].
    rewrite dget_tinsert by assumption. rewrite row_eqb_sym, Ekx. exact U1.
  Qed.

  (* sortedness *)
  Definition tlt (a b : row * Z) : Prop := item_cmp ks (fst a) (fst b) = -1.
  Definition tsorted (t : tree) : Prop := StronglySorted tlt t.

  Lemma tsorted_dset t x c : tsorted t -> tsorted (dset t x c).
  Proof.
    intro S. induction S as [|[k c0] rest S IH F]; cbn [dset]; [constructor|].
    destruct (dkey_eq x k); constructor; auto.
    rewrite Forall_forall in *. intros e He.
    assert (exists e', In e' rest /\ fst e' = fst e) as [e' [I E]].
    { clear -He. induction rest as [|[k' c'] rest IHr]; [destruct He|]. cbn [dset] in He. destruct (dkey_eq x k').
      - destruct He as [<-|He]; [exists (k', c'); split; [left; reflexivity | reflexivity] | exists e; split; [right; assumption | reflexivity]].
      - destruct He as [<-|He]; [exists (k', c'); split; [left; reflexivity | reflexivity]|]. destruct (IHr He) as [e' [I E]]. exists e'. split; [right; assumption | assumption]. }
    unfold tlt. rewrite <- E. apply (F e' I).
  Qed.
  Lemma in_dremove t x e : In e (dremove t x) -> In e t.
  Proof. induction t as [|[k c0] rest IH]; cbn [dremove]; [auto|]. destruct (dkey_eq x k); [right; assumption|]. intros [<-|H]; [left; reflexivity | right; auto]. Qed.
  Lemma tsorted_dremove t x : tsorted t -> tsorted (dremove t x).
  Proof.
    intro S. induction S as [|[k c0] rest S IH F]; cbn [dremove]; [constructor|].
    destruct (dkey_eq x k); [exact S|]. constructor; [exact IH|].
    rewrite Forall_forall in *. intros e He. apply F. apply (in_dremove _ _ _ He).
  Qed.
  Lemma in_tinsert t x c e : In e (tinsert ks t x c) -> e = (x, c) \/ In e t.
  Proof.
    induction t as [|[k c0] rest IH]; cbn [tinsert]; [intros [<-|[]]; auto|].
    destruct (item_less ks x k); [intros [<-|H]; auto|]. intros [<-|H]; [right; left; reflexivity|]. destruct (IH H); auto. right. right. assumption.
  Qed.
  Lemma tsorted_tinsert t x c : keys_ok n t -> length x = n -> dget t x = None -> tsorted t -> tsorted (tinsert ks t x c).
  Proof.
    intros K Lx Nx S. induction S as [|[k c0] rest S IH F]; cbn [tinsert]; [repeat constructor|].
    apply keys_ok_cons in K. destruct K as [[Lk P] K]. cbn [dget] in Nx.
    rewrite dkey_eq_spec in Nx by congruence. destruct (row_eqb k x) eqn:Ekx; [discriminate|].
    unfold item_less. destruct (Z.eqb_spec (item_cmp ks x k) (-1)) as [Lt|NLt].
    - constructor; [constructor; assumption|]. constructor; [exact Lt|].
      rewrite Forall_forall in *. intros e He. unfold tlt. cbn [fst]. apply (cl_trans _ _ (item_cmp_laws ks x) k (fst e) Lt (F e He)).
    - constructor; [apply IH; assumption|].
      rewrite Forall_forall in *. intros e He. destruct (in_tinsert _ _ _ _ He) as [->|I]; [|apply F; exact I].
      unfold tlt. cbn [fst].
      assert (NZ : item_cmp ks k x <> 0) by (intro Z0; apply (item_cmp_zero ks k x Hk) in Z0; congruence).
      pose proof (cl_anti _ _ (item_cmp_laws ks k) x) as An.
      destruct (cl_range _ _ (item_cmp_laws ks k) x) as [R|[R|R]]; [exact R | contradiction | lia].
  Qed.
End TreeState.

(* ===== part F2 ===== *)

Definition TInv (n : nat) (ks : okeys) (t : tree) (pre : list rec) : Prop :=
  keys_ok n t /\ uniq t /\ tsorted ks t /\ forall x, length x = n -> dcount t x = consolidate pre x.

(* DeleteMax is not taken: no limit, or retractions are possible *)
Definition no_prune (limit : option Z) (noretr : bool) : Prop := limit = None \/ noretr = false.

Lemma tree_step_inv n ks limit noretr t pre r : key_congruent ks -> no_prune limit noretr ->
  TInv n ks t pre -> length (vals r) = n -> nonneg pre -> nonneg (pre ++ [r]) ->
  TInv n ks (fst (tree_step ks limit noretr t r)) (pre ++ [r]) /\
  snd (tree_step ks limit noretr t r) = consolidate (pre ++ [r]) (vals r).
Proof.
  intros Hk NP [K [U [S C]]] Lr Np Np1.
  pose proof (C (vals r) Lr) as Cx. pose proof (Np (vals r)) as Mx. pose proof (Np1 (vals r)) as Mx1.
  rewrite consolidate_snoc, row_eqb_refl in Mx1.
  unfold tree_step. rewrite (tget_dget n ks Hk t (vals r) K Lr).
  replace (match dget t (vals r) with Some c => c | None => 0 end) with (dcount t (vals r)) by reflexivity.
  rewrite Cx. set (m := consolidate pre (vals r)) in *.
  assert (Hy : forall y, row_eqb (vals r) y = true -> consolidate pre y = m)
    by (intros y E; unfold m; symmetry; apply consolidate_cong; exact E).
  assert (Ec : (if retr r then m - 1 else m + 1) = consolidate (pre ++ [r]) (vals r)).
  { rewrite consolidate_snoc, row_eqb_refl. unfold sign. fold m. destruct (retr r); lia. }
  unfold sign in Mx1. clearbody m.
  set (c := if retr r then m - 1 else m + 1) in *.
  assert (Hc : 0 <= c) by (unfold c; destruct (retr r); lia).
  assert (Hnew : forall y, consolidate (pre ++ [r]) y = if row_eqb (vals r) y then c else consolidate pre y).
  { intro y. rewrite consolidate_snoc. unfold sign, c. destruct (row_eqb (vals r) y) eqn:E; [rewrite (Hy y E); destruct (retr r); lia | lia]. }
  set (t1 := if 0 <? c then match dget t (vals r) with Some _ => tset ks t (vals r) c | None => tinsert ks t (vals r) c end else tdelete ks t (vals r)).
  assert (T1 : TInv n ks t1 (pre ++ [r])).
  { unfold t1. destruct (Z.ltb_spec 0 c) as [P|P].
    - destruct (dget t (vals r)) as [c0|] eqn:G.
      + rewrite (tset_dset n ks Hk) by assumption.
        split; [apply keys_ok_dset; assumption|]. split; [apply (uniq_dset n); assumption|]. split; [apply tsorted_dset; assumption|].
        intros y Ly. unfold dcount. rewrite (dget_dset n) by assumption. rewrite Hnew, G.
        destruct (row_eqb (vals r) y); [reflexivity | apply (C y Ly)].
      + split; [apply keys_ok_tinsert; assumption|]. split; [apply (uniq_tinsert n); assumption|]. split; [apply (tsorted_tinsert n); assumption|].
        intros y Ly. unfold dcount. rewrite (dget_tinsert n) by assumption. rewrite Hnew.
        destruct (row_eqb (vals r) y); [reflexivity | apply (C y Ly)].
    - rewrite (tdelete_dremove n ks Hk) by assumption.
      split; [apply keys_ok_dremove; assumption|]. split; [apply (uniq_dremove n); assumption|]. split; [apply tsorted_dremove; assumption|].
      intros y Ly. unfold dcount. rewrite (dget_dremove n) by assumption. rewrite Hnew.
      destruct (row_eqb (vals r) y); [lia | apply (C y Ly)]. }
  cbn [fst snd]. split; [|exact Ec]. fold t1.
  destruct NP as [-> | ->]; [exact T1|]. destruct limit; exact T1.
Qed.

Lemma TInv_init n ks : TInv n ks [] [].
Proof. split; [intros ? ? []|]. split; [exact I|]. split; [constructor|]. intros; reflexivity. Qed.

Lemma ost_tree_inv n ks limit noretr : key_congruent ks -> no_prune limit noretr -> forall inp t pre,
  TInv n ks t pre -> arity_is n (records inp) ->
  (forall k x, 0 <= consolidate (pre ++ firstn k (records inp)) x) ->
  TInv n ks (ost_tree ks limit noretr t inp) (pre ++ records inp).
Proof.
  intros Hk NP. induction inp as [|[r|w] inp IH]; intros t pre I Ha V.
  - cbn [ost_tree records flat_map]. rewrite app_nil_r. exact I.
  - change (records (Rec r :: inp)) with (r :: records inp) in *. cbn [ost_tree].
    assert (Np : nonneg pre) by (intro x; specialize (V 0%nat x); rewrite app_nil_r in V; exact V).
    assert (Np1 : nonneg (pre ++ [r])) by (intro x; apply (V 1%nat x)).
    destruct (tree_step_inv n ks limit noretr t pre r Hk NP I (Ha r (or_introl eq_refl)) Np Np1) as [I' _].
    replace (pre ++ r :: records inp) with ((pre ++ [r]) ++ records inp) by (rewrite <- app_assoc; reflexivity).
    apply IH; [exact I' | intros r' Hr'; apply Ha; right; exact Hr' |].
    intros k x. rewrite <- app_assoc. apply (V (S k) x).
  - change (records (WM w :: inp)) with (records inp) in *. cbn [ost_tree]. apply IH; assumption.
Qed.

(* the printer walks the same tree and never sees a negative count on a valid changelog *)
Lemma printer_tree_ost n ks limit noretr : key_congruent ks -> no_prune limit noretr -> forall inp t pre,
  TInv n ks t pre -> arity_is n (records inp) ->
  (forall k x, 0 <= consolidate (pre ++ firstn k (records inp)) x) ->
  printer_tree ks limit noretr t inp = Ok (ost_tree ks limit noretr t inp).
Proof.
  intros Hk NP. induction inp as [|[r|w] inp IH]; intros t pre I Ha V.
  - reflexivity.
  - change (records (Rec r :: inp)) with (r :: records inp) in *. cbn [ost_tree printer_tree].
    assert (Np : nonneg pre) by (intro x; specialize (V 0%nat x); rewrite app_nil_r in V; exact V).
    assert (Np1 : nonneg (pre ++ [r])) by (intro x; apply (V 1%nat x)).
    destruct (tree_step_inv n ks limit noretr t pre r Hk NP I (Ha r (or_introl eq_refl)) Np Np1) as [I' Ec].
    destruct (tree_step ks limit noretr t r) as [t' c]. cbn [fst snd] in *.
    destruct (Z.ltb_spec c 0) as [Neg|_]; [pose proof (Np1 (vals r)); lia|].
    apply (IH t' (pre ++ [r])); [exact I' | intros r' Hr'; apply Ha; right; exact Hr' |].
    intros k x. rewrite <- app_assoc. apply (V (S k) x).
  - change (records (WM w :: inp)) with (records inp) in *. cbn [ost_tree printer_tree]. apply IH with (pre := pre); assumption.
Qed.

(* what the tree holds: the consolidated input, in key order *)
Lemma dget_cong n t k y : keys_ok n t -> length k = n -> length y = n -> row_eqb k y = true -> dget t k = dget t y.
Proof.
  intros K Lk Ly E. induction t as [|[k' c] rest IH]; [reflexivity|]. apply keys_ok_cons in K. destruct K as [[Lk' _] K].
  cbn [dget]. rewrite !(dkey_eq_spec _ k') by congruence. rewrite (row_eqb_cong_r k' k y E), IH by assumption. reflexivity.
Qed.

Lemma count_rows_repeat k c y : count_rows (repeat k c) y = if row_eqb k y then Z.of_nat c else 0.
Proof. apply consolidate_ins_repeat. Qed.

Lemma count_expand_tree n t y : keys_ok n t -> uniq t -> length y = n -> count_rows (expand_tree t) y = dcount t y.
Proof.
  intros K U Ly. induction t as [|[k c] rest IH]; [reflexivity|]. apply keys_ok_cons in K. destruct K as [[Lk P] K]. destruct U as [U1 U2].
  unfold expand_tree. cbn [flat_map fst snd]. fold (expand_tree rest). rewrite count_rows_app, count_rows_repeat, (IH K U2).
  unfold dcount. cbn [dget]. rewrite dkey_eq_spec by congruence. destruct (row_eqb k y) eqn:E.
  - rewrite <- (dget_cong n rest k y K Lk Ly E), U1. lia.
  - lia.
Qed.

Lemma expand_tree_arity n t y : keys_ok n t -> In y (expand_tree t) -> length y = n.
Proof.
  intros K H. unfold expand_tree in H. apply in_flat_map in H. destruct H as [[k c] [I R]]. apply repeat_spec in R. subst y. apply (K k c I).
Qed.

Lemma count_rows_other n l y : (forall x, In x l -> length x = n) -> length y <> n -> count_rows l y = 0.
Proof.
  intros H Ly. unfold count_rows. apply consolidate_zero. intros r Hr. apply in_map_iff in Hr. destruct Hr as [x [<- Hx]]. cbn [ins vals].
  destruct (row_eqb x y) eqn:E; [|reflexivity]. apply row_eqb_length in E. rewrite (H x Hx) in E. congruence.
Qed.

Lemma TInv_represents n ks t l : arity_is n l -> TInv n ks t l -> represents (expand_tree t) l.
Proof.
  intros Ha [K [U [_ C]]] y. destruct (Nat.eq_dec (length y) n) as [Ly|Ly].
  - rewrite (count_expand_tree n t y K U Ly). apply C. exact Ly.
  - rewrite (arity_other_zero n l y Ha Ly). apply (count_rows_other n); [intros x Hx; apply (expand_tree_arity n t x K Hx) | exact Ly].
Qed.

Definition ksorted (ks : okeys) (l : list row) : Prop := StronglySorted (fun a b => key_le ks a b = true) l.

Lemma StronglySorted_app {A} (R : A -> A -> Prop) a b : StronglySorted R a -> StronglySorted R b ->
  (forall x y, In x a -> In y b -> R x y) -> StronglySorted R (a ++ b).
Proof.
  intros Sa Sb H. induction Sa as [|x a Sa IH F]; [exact Sb|]. cbn [app]. constructor.
  - apply IH. intros; apply H; [right|]; assumption.
  - apply Forall_app. split; [exact F|]. apply Forall_forall. intros y Hy. apply H; [left; reflexivity | exact Hy].
Qed.

Lemma ksorted_expand_tree ks t : tsorted ks t -> ksorted ks (expand_tree t).
Proof.
  intro S. induction S as [|[k c] rest S IH F]; [constructor|].
  unfold expand_tree. cbn [flat_map fst snd]. fold (expand_tree rest). apply StronglySorted_app; [|exact IH|].
  - induction (Z.to_nat c) as [|m IHm]; [constructor|]. cbn [repeat]. constructor; [exact IHm|].
    apply Forall_forall. intros y Hy. apply repeat_spec in Hy. subst y. apply key_le_refl.
  - intros x y Hx Hy. apply repeat_spec in Hx. subst x. unfold expand_tree in Hy. apply in_flat_map in Hy.
    destruct Hy as [[k' c'] [I R]]. apply repeat_spec in R. subst y. rewrite Forall_forall in F.
    apply item_less_key_le. apply (F (k', c') I).
Qed.

Lemma ksorted_sorted_by ks l : ksorted ks l -> sorted_by ks l = true.
Proof.
  intro S. induction S as [|x l S IH F]; [reflexivity|]. cbn [sorted_by]. destruct l as [|y l']; [reflexivity|].
  rewrite IH. rewrite Forall_forall in F. rewrite (F y (or_introl eq_refl)). reflexivity.
Qed.

(* ===== part F3 ===== *)

Definition is_top_n (ks : okeys) (n : Z) (rows out : list row) : Prop :=
  is_limit_of n rows out /\ sorted_by ks out = true /\
  exists rest, (forall x, count_rows out x + count_rows rest x = count_rows rows x) /\
               forall a b, In a out -> In b rest -> key_le ks a b = true.

Lemma take_upto_firstn n : 0 <= n -> forall l i, 0 <= i -> take_upto n i l = firstn (Z.to_nat (n - i)) l.
Proof.
  intros Hn. induction l as [|x l IH]; intros i Hi; cbn [take_upto]; [rewrite firstn_nil; reflexivity|].
  destruct (Z.leb_spec n i) as [Le|Gt].
  - replace (Z.to_nat (n - i)) with 0%nat by lia. reflexivity.
  - replace (Z.to_nat (n - i)) with (S (Z.to_nat (n - (i + 1)))) by lia. cbn [firstn]. rewrite IH by lia. reflexivity.
Qed.
Lemma take_eq_firstn n : 0 <= n -> forall l i, 0 <= i <= n -> take_eq n i l = firstn (Z.to_nat (n - i)) l.
Proof.
  intros Hn. induction l as [|x l IH]; intros i Hi; cbn [take_eq]; [rewrite firstn_nil; reflexivity|].
  destruct (Z.eqb_spec i n) as [E|NE].
  - replace (Z.to_nat (n - i)) with 0%nat by lia. reflexivity.
  - replace (Z.to_nat (n - i)) with (S (Z.to_nat (n - (i + 1)))) by lia. cbn [firstn]. rewrite IH by lia. reflexivity.
Qed.

Lemma ksorted_firstn ks l k : ksorted ks l -> ksorted ks (firstn k l).
Proof.
  intro S. revert k. induction S as [|x l S IH F]; intro k; destruct k; cbn [firstn]; try constructor.
  - apply IH.
  - rewrite Forall_forall in *. intros y Hy. apply F. rewrite <- (firstn_skipn k l). apply in_or_app. left. exact Hy.
Qed.
Lemma ksorted_split ks l k a b : ksorted ks l -> In a (firstn k l) -> In b (skipn k l) -> key_le ks a b = true.
Proof.
  intro S. revert k. induction S as [|x l S IH F]; intros k Ha Hb; destruct k; cbn [firstn skipn] in *; try contradiction.
  destruct Ha as [<-|Ha]; [|apply (IH k Ha Hb)].
  rewrite Forall_forall in F. apply F. rewrite <- (firstn_skipn k l). apply in_or_app. right. exact Hb.
Qed.

(* the first n rows of a key-sorted list that represents the same bag as [rows] are a top-n of [rows] *)
Lemma firstn_is_top_n ks n E rows : 0 <= n -> ksorted ks E -> (forall x, count_rows E x = count_rows rows x) ->
  is_top_n ks n rows (firstn (Z.to_nat n) E).
Proof.
  intros Hn S Same. split; [|split].
  - apply (is_limit_of_same_bag n E rows _ Same). apply firstn_is_limit_of. exact Hn.
  - apply ksorted_sorted_by. apply ksorted_firstn. exact S.
  - exists (skipn (Z.to_nat n) E). split.
    + intro x. rewrite <- count_rows_app, firstn_skipn. apply Same.
    + intros a b Ha Hb. apply (ksorted_split ks E (Z.to_nat n) a b S Ha Hb).
Qed.

Section OrderByTheorems.
  Variables (n0 : nat) (ks : okeys).
  Hypothesis Hk : key_congruent ks.

  Lemma final_tree limit noretr inp : no_prune limit noretr -> arity_is n0 (records inp) -> valid_changelog (records inp) = true ->
    TInv n0 ks (ost_tree ks limit noretr [] inp) (records inp).
  Proof.
    intros NP Ha V. apply valid_iff in V.
    apply (ost_tree_inv n0 ks limit noretr Hk NP inp [] [] (TInv_init n0 ks) Ha V).
  Qed.

  Lemma final_tree_rows limit noretr inp rows : no_prune limit noretr -> arity_is n0 (records inp) -> valid_changelog (records inp) = true ->
    represents rows (records inp) ->
    ksorted ks (expand_tree (ost_tree ks limit noretr [] inp)) /\
    forall x, count_rows (expand_tree (ost_tree ks limit noretr [] inp)) x = count_rows rows x.
  Proof.
    intros NP Ha V R. pose proof (final_tree limit noretr inp NP Ha V) as I. split.
    - apply ksorted_expand_tree. apply I.
    - intro x. rewrite (R x). apply (TInv_represents n0 ks _ _ Ha I).
  Qed.

  (* ORDER BY without LIMIT (property C15): insert-only, sorted, same bag *)
  Theorem ost_order_by noretr inp rows : arity_is n0 (records inp) -> valid_changelog (records inp) = true ->
    represents rows (records inp) ->
    exists out, run_ost ks None noretr inp = Ok out /\ insert_only (records out) = true /\
                sorted_by ks (map vals (records out)) = true /\ bag_eq (records out) (map ins rows).
  Proof.
    intros Ha V R. destruct (final_tree_rows None noretr inp rows (or_introl eq_refl) Ha V R) as [S Same].
    eexists. split; [reflexivity|]. cbn [ost_emit]. rewrite records_map_Rec'. split; [|split].
    - apply forallb_forall. intros r Hr. apply in_map_iff in Hr. destruct Hr as [x [<- _]]. reflexivity.
    - rewrite map_map. cbn [ins vals]. rewrite map_id. apply ksorted_sorted_by. exact S.
    - intro x. apply Same.
  Qed.

  (* ORDER BY ... LIMIT n in OrderSensitiveTransform, when DeleteMax pruning is off *)
  Theorem ost_top_n n inp rows : 0 <= n -> arity_is n0 (records inp) -> valid_changelog (records inp) = true ->
    represents rows (records inp) ->
    exists out, run_ost ks (Some n) false inp = Ok out /\ is_top_n ks n rows (rows_of out).
  Proof.
    intros Hn Ha V R. unfold run_ost, run_ost_gen. destruct (Z.eqb_spec n 0) as [->|NZ].
    - eexists. split; [reflexivity|]. cbn. split; [|split].
      + split; [intro x; apply count_rows_nonneg | simpl; lia].
      + reflexivity.
      + exists rows. split; [intro x; reflexivity | intros a b []].
    - destruct (Z.ltb_spec n 0) as [Neg|_]; [lia|].
      destruct (final_tree_rows (Some n) false inp rows (or_intror eq_refl) Ha V R) as [S Same].
      eexists. split; [reflexivity|]. unfold rows_of. rewrite records_map_Rec', map_map. cbn [ins vals]. rewrite map_id.
      cbn [ost_emit]. rewrite take_upto_firstn by lia. rewrite Z.sub_0_r. apply firstn_is_top_n; assumption.
  Qed.

  (* the batch printer: no panic on a valid changelog; prints the first n rows of the sorted expansion *)
  Theorem printer_top_n n inp rows : 0 <= n -> arity_is n0 (records inp) -> valid_changelog (records inp) = true ->
    represents rows (records inp) ->
    exists out, run_printer ks (Some n) false inp = Ok out /\ is_top_n ks n rows out.
  Proof.
    intros Hn Ha V R. unfold run_printer.
    rewrite (printer_tree_ost n0 ks (Some n) false Hk (or_intror eq_refl) inp [] [] (TInv_init n0 ks) Ha (proj1 (valid_iff _) V)).
    destruct (final_tree_rows (Some n) false inp rows (or_intror eq_refl) Ha V R) as [S Same].
    eexists. split; [reflexivity|]. cbn [printer_emit]. rewrite take_eq_firstn by lia. rewrite Z.sub_0_r. apply firstn_is_top_n; assumption.
  Qed.

  Theorem printer_all noretr inp rows : arity_is n0 (records inp) -> valid_changelog (records inp) = true ->
    represents rows (records inp) ->
    exists out, run_printer ks None noretr inp = Ok out /\ sorted_by ks out = true /\ forall x, count_rows out x = count_rows rows x.
  Proof.
    intros Ha V R. unfold run_printer.
    rewrite (printer_tree_ost n0 ks None noretr Hk (or_introl eq_refl) inp [] [] (TInv_init n0 ks) Ha (proj1 (valid_iff _) V)).
    destruct (final_tree_rows None noretr inp rows (or_introl eq_refl) Ha V R) as [S Same].
    eexists. split; [reflexivity|]. cbn [printer_emit]. split; [apply ksorted_sorted_by; exact S | exact Same].
  Qed.
End OrderByTheorems.

Lemma key_congruent_nil : key_congruent []. Proof. intros k []. Qed.

(* the pinned produceOrderByItems counted tree items *)
Lemma ost_pinned_refuted : exists ks inp, valid_changelog (records inp) = true /\ insert_only (records inp) = true /\
  exists out, run_ost_pinned ks (Some 1) true inp = Ok out /\ ~ is_limit_of 1 (rows_of inp) (rows_of out).
Proof.
  exists [(false, fun x => nth 0 x VNull)], [Rec (ins [VInt 2]); Rec (ins [VInt 2]); Rec (ins [VInt 1]); Rec (ins [VInt 1])].
  split; [reflexivity|]. split; [reflexivity|]. eexists. split; [vm_compute; reflexivity|].
  intros [_ L]. vm_compute in L. discriminate.
Qed.
