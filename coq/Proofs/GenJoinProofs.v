(* Proofs/GenJoinProofs.v — the run-level part of the join invariant (Appendix A.1), generic in receiveRecord:
   buffers, watermarks, phases and the induction over the interleaving, given a "core" invariant (trees + output)
   that every receiveRecord preserves.  Instantiated for OuterJoin in Proofs/OuterJoinProofs.v
   (the inner join has its own, earlier, copy in Proofs/JoinsProofs.v). *)
From Coq Require Import Permutation.
From Octo Require Import Joins CompareLaws ChangelogLemmas JoinsBase JoinsProofs.

Section Gen.
  Variable recv : recv_fn.
  Variable use_mark : bool.
  Variable arP : side -> list value -> Prop.
  Variable CoreInv : jstate -> list event -> (side -> list rec) -> Prop.
  Hypothesis CI_ext : forall st out P P', (forall s, P s = P' s) -> CoreInv st out P -> CoreInv st out P'.
  Hypothesis CI_frame : forall st st' out P,
    (forall s, tree_of s st' = tree_of s st) -> (forall s, tnil s st' = false -> tnil s st = false) ->
    CoreInv st out P -> CoreInv st' out P.
  Hypothesis CI_receive : forall s r flag st out P st' o,
    CoreInv st out P -> stopped st = false -> arP s (vals r) ->
    (flag = true -> tree_nil s st = true) -> tree_nil (other s) st = false ->
    receive recv s r flag st = (st', o) -> panicked st' = false ->
    (exists t', st' = set_tree s t' st) /\ Forall is_rec o /\
    CoreInv st' (out ++ o) (upd P s (P s ++ [r])).
  Hypothesis CI_out_wm : forall st out P w, CoreInv st out P -> CoreInv st (out ++ [WM w]) P.
  Hypothesis CI_init : CoreInv jinit [] (fun _ => []).

  Lemma receive_stopped s r flag st : stopped st = true -> receive recv s r flag st = (st, []).
  Proof. intro H. unfold receive. rewrite H. reflexivity. Qed.

  Lemma receive_all_stopped s flag rs st : stopped st = true -> receive_all recv s flag rs st = (st, []).
  Proof.
    revert st. induction rs as [|r rs IH]; intros st H; [reflexivity|].
    cbn [receive_all]. rewrite (receive_stopped _ _ _ _ H), (IH _ H). reflexivity.
  Qed.

  Lemma receive_phase s r flag st st' o : receive recv s r flag st = (st', o) ->
    stopped st' = false -> stopped st = false.
  Proof.
    intros H Hs. destruct (stopped st) eqn:E; [|reflexivity]. rewrite (receive_stopped _ _ _ _ E) in H.
    inversion H; subst. congruence.
  Qed.

  Lemma receive_all_spec s flag rs : forall st out P st' o,
    CoreInv st out P -> stopped st = false -> (forall r, In r rs -> arP s (vals r)) ->
    (flag = true -> tree_nil s st = true) -> tree_nil (other s) st = false ->
    receive_all recv s flag rs st = (st', o) -> panicked st' = false ->
    (exists t', st' = set_tree s t' st) /\ Forall is_rec o /\
    CoreInv st' (out ++ o) (upd P s (P s ++ rs)).
  Proof.
    induction rs as [|r rs IH]; intros st out P st' o HC Hst Har Hflag Hoth H Hp.
    - inversion H; subst. split; [exists (tree_of s st'); destruct s, st'; reflexivity|]. split; [constructor|].
      rewrite app_nil_r. apply (CI_ext st' out P); [|exact HC].
      intro s0. unfold upd. destruct (side_eqb s0 s) eqn:E; [apply side_eqb_eq in E; subst; rewrite app_nil_r|]; reflexivity.
    - cbn [receive_all] in H. destruct (receive recv s r flag st) as [st1 o1] eqn:R1.
      destruct (receive_all recv s flag rs st1) as [st2 o2] eqn:R2. inversion H; subst. clear H.
      assert (Hp1 : panicked st1 = false).
      { destruct (stopped st1) eqn:E1.
        - rewrite (receive_all_stopped _ _ _ _ E1) in R2. inversion R2; subst. exact Hp.
        - apply stopped_not_panicked. exact E1. }
      destruct (CI_receive s r flag st out P st1 o1 HC Hst (Har r (or_introl eq_refl)) Hflag Hoth R1 Hp1) as [[t1 E1] [F1 C1]].
      assert (Hst1 : stopped st1 = false) by (subst st1; rewrite stopped_set_tree; exact Hst).
      destruct (IH st1 (out ++ o1) _ st' o2 C1 Hst1) as [[t2 E2] [F2 C2]]; auto.
      + intros r0 Hin. apply Har. right. exact Hin.
      + subst st1. rewrite tree_nil_set_tree. exact Hflag.
      + subst st1. rewrite tree_nil_set_tree. exact Hoth.
      + split; [exists t2; subst; destruct s; reflexivity|]. split; [apply Forall_app; split; assumption|].
        rewrite app_assoc. refine (CI_ext st' _ _ _ _ C2).
        intro s0. unfold upd. destruct (side_eqb s0 s) eqn:E; [|reflexivity].
        rewrite side_eqb_refl, <- app_assoc. reflexivity.
  Qed.

  Lemma CoreInv_set_buf s b st out P : CoreInv st out P -> CoreInv (set_buf s b st) out P.
  Proof. apply CI_frame; intro s0; destruct s, s0; simpl; auto. Qed.

  Lemma flush_side_spec s w flag st out P st' o :
    CoreInv st out P -> stopped st = false -> buf_ok (buf_of s st) ->
    (forall r, In r (buf_recs (buf_of s st)) -> arP s (vals r)) ->
    (tree_nil (other s) st = false -> flag = true -> tree_nil s st = true) ->
    (tree_nil (other s) st = true -> buf_of s st = []) ->
    flush_side recv s w flag st = (st', o) -> panicked st' = false ->
    exists F t' b', st' = set_tree s t' (set_buf s b' st) /\
      buf_recs (buf_of s st) = F ++ buf_recs b' /\ buf_ok b' /\
      (forall r, In r F -> et r <= w) /\ (forall r, In r (buf_recs b') -> w < et r) /\
      ((forall r, In r (buf_recs (buf_of s st)) -> et r <= w) -> b' = []) /\
      Forall is_rec o /\ CoreInv st' (out ++ o) (upd P s (P s ++ F)).
  Proof.
    intros HC Hst [lo Hb] Har Hflag Hskip. unfold flush_side. destruct (tree_nil (other s) st) eqn:N.
    - intro H. inversion H; subst. intros _. exists [], (tree_of s st'), []. rewrite (Hskip eq_refl).
      split; [destruct s, st'; simpl in *; rewrite (Hskip eq_refl); reflexivity|].
      split; [reflexivity|]. split; [exists 0; exact I|]. split; [intros ? []|]. split; [intros ? []|].
      split; [reflexivity|]. split; [constructor|]. rewrite app_nil_r.
      apply (CI_ext st' out P); [|exact HC].
      intro s0. unfold upd. destruct (side_eqb s0 s) eqn:E; [apply side_eqb_eq in E; subst; rewrite app_nil_r|]; reflexivity.
    - destruct (buf_emit w (buf_of s st)) as [F rest] eqn:E. intros H Hp.
      destruct (buf_emit_spec w _ lo F rest Hb E) as [B1 [B2 [B3 [B4 B5]]]].
      destruct (receive_all_spec s flag F (set_buf s rest st) out P st' o) as [[t' Et] [Fo C]]; auto.
      + apply CoreInv_set_buf. exact HC.
      + destruct s; exact Hst.
      + intros r Hin. apply Har. rewrite B1. apply in_or_app. left. exact Hin.
      + intro Hf. replace (tree_nil s (set_buf s rest st)) with (tree_nil s st) by (destruct s; reflexivity). apply Hflag; auto.
      + replace (tree_nil (other s) (set_buf s rest st)) with (tree_nil (other s) st) by (destruct s; reflexivity). exact N.
      + exists F, t', rest. split; [exact Et|]. split; [exact B1|]. split; [exact B4|]. split; [exact B2|]. split; [exact B3|]. split; [exact B5|]. split; [exact Fo | exact C].
  Qed.

  Lemma process_spec w flag st out P st' o :
    CoreInv st out P -> stopped st = false -> (forall s, buf_ok (buf_of s st)) ->
    (forall s r, In r (buf_recs (buf_of s st)) -> arP s (vals r)) ->
    (flag = true -> exists op, phase st = OneOpen op true) ->
    (forall s, tree_nil (other s) st = true -> buf_of s st = []) ->
    process_up_to recv w flag st = (st', o) -> panicked st' = false ->
    exists F : side -> list rec, frame_eq st st' /\
      (forall s, buf_recs (buf_of s st) = F s ++ buf_recs (buf_of s st') /\ buf_ok (buf_of s st') /\
                 (forall r, In r (F s) -> et r <= w) /\ (forall r, In r (buf_recs (buf_of s st')) -> w < et r) /\
                 ((forall r, In r (buf_recs (buf_of s st)) -> et r <= w) -> buf_of s st' = [])) /\
      Forall is_rec o /\ CoreInv st' (out ++ o) (fun s => P s ++ F s).
  Proof.
    intros HC Hst Hb Har Hflag Hskip. unfold process_up_to.
    destruct (flush_side recv SL w flag st) as [st1 o1] eqn:F1.
    destruct (flush_side recv SR w flag st1) as [st2 o2] eqn:F2. intros H Hp. inversion H; subst. clear H.
    assert (Hf : forall s, tree_nil (other s) st = false -> flag = true -> tree_nil s st = true).
    { intros s N Ef. destruct (Hflag Ef) as [op Hop]. unfold tree_nil in *. rewrite Hop in *.
      destruct s, op; simpl in *; congruence. }
    assert (Hp1 : panicked st1 = false).
    { destruct (stopped st1) eqn:E1; [|apply stopped_not_panicked; exact E1].
      unfold flush_side in F2. destruct (tree_nil (other SR) st1); [inversion F2; subst; exact Hp|].
      destruct (buf_emit w (buf_of SR st1)) as [Fx restx]. rewrite receive_all_stopped in F2 by exact E1.
      inversion F2; subst. exact Hp. }
    destruct (flush_side_spec SL w flag st out P st1 o1 HC Hst (Hb SL) (Har SL) (Hf SL) (Hskip SL) F1 Hp1)
      as [FL [tl [bl [E1 [A1 [A2 [A3 [A4 [A5 [A6 C1]]]]]]]]]].
    assert (Hst1 : stopped st1 = false) by (subst st1; exact Hst).
    assert (Hnil1 : forall s, tree_nil s st1 = tree_nil s st) by (intro s; subst st1; reflexivity).
    destruct (flush_side_spec SR w flag st1 (out ++ o1) _ st' o2 C1 Hst1)
      as [FR [tr [br [E2 [R1 [R2 [R3 [R4 [R5 [R6 C2]]]]]]]]]]; auto.
    - subst st1. exact (Hb SR).
    - subst st1. exact (Har SR).
    - rewrite !Hnil1. apply Hf.
    - rewrite Hnil1. subst st1. exact (Hskip SR).
    - exists (fun s => match s with SL => FL | SR => FR end).
      split; [subst st' st1; repeat split|]. split.
      + intros [|].
        * subst st' st1. cbn [buf_of set_tree set_buf lbuf]. repeat split; auto.
        * subst st' st1. cbn [buf_of set_tree set_buf rbuf] in *. repeat split; auto.
      + split; [apply Forall_app; split; assumption|]. rewrite app_assoc.
        refine (CI_ext st' _ _ _ _ C2). intros [|]; reflexivity.
  Qed.

  (* ---- the full invariant (J1-J8) ---- *)

  Definition Inv (timed : Prop) (st : jstate) (out : list event) (Rc : side -> list rec) : Prop :=
    exists P,
      CoreInv st out P /\
      (forall s, buf_ok (buf_of s st)) /\
      (forall s, Permutation (P s ++ buf_recs (buf_of s st)) (Rc s)) /\
      (forall op, phase st = OneOpen op true -> buf_of (other op) st = []) /\
      (forall s r, In r (Rc s) -> arP s (vals r)) /\
      (phase st = Done -> forall s r, In r (buf_recs (buf_of s st)) -> max_wm < et r) /\
      live st /\
      (timed -> phase st <> Done -> TimeInv st P).

  Definition Rem (timed : Prop) (st : jstate) (rm : side -> list msg) : Prop :=
    (forall s, plain_script (rm s) = true) /\
    (forall s r, In r (msg_recs (rm s)) -> arP s (vals r)) /\
    (match phase st with Both => True | OneOpen op _ => rm (other op) = [] | _ => forall s, rm s = [] end) /\
    (timed -> match phase st with
              | Both => forall s, well_timed_from (wm_of s st) (rm s) = true
              | OneOpen op _ => well_timed_from (minwm st) (rm op) = true
              | _ => True
              end).

  Lemma arity_of_perm (P : side -> list rec) (B : side -> list rec) Rc :
    (forall s, Permutation (P s ++ B s) (Rc s)) -> (forall s r, In r (Rc s) -> arP s (vals r)) ->
    forall s r, In r (B s) -> arP s (vals r).
  Proof.
    intros Hp Ha s r Hin. apply Ha. eapply Permutation_in; [apply Hp|]. apply in_or_app. right. exact Hin.
  Qed.

  (* the part of the invariant that does not mention the watermark fields; [c] is the cut *)

  Definition PreInv (timed : Prop) (c : Z) (st : jstate) (out : list event) (Rc : side -> list rec) : Prop :=
    exists P,
      CoreInv st out P /\
      (forall s, buf_ok (buf_of s st)) /\
      (forall s, Permutation (P s ++ buf_recs (buf_of s st)) (Rc s)) /\
      (forall op, phase st = OneOpen op true -> buf_of (other op) st = []) /\
      (forall s r, In r (Rc s) -> arP s (vals r)) /\
      (timed -> (forall s r, In r (P s) -> le_cut c r = true) /\
                (forall s r, In r (buf_recs (buf_of s st)) -> le_cut c r = false)).

  Lemma Inv_Pre timed st out Rc : Inv timed st out Rc -> phase st <> Done -> PreInv timed (minwm st) st out Rc.
  Proof.
    intros [P [HC [Hb [Hperm [Hfl [Har [Hdone [Hlive Ht]]]]]]]] Hnd. exists P. repeat (split; [assumption|]).
    intro T. destruct (Ht T Hnd) as [T1 [T2 _]]. split; assumption.
  Qed.

  Lemma PreInv_untimed timed c st out Rc : PreInv timed c st out Rc -> PreInv False c st out Rc.
  Proof.
    intros [P [HC [Hb [Hperm [Hfl [Har Ht]]]]]]. exists P. repeat (split; [assumption|]). intros [].
  Qed.

  Lemma Pre_Inv_done timed c st out Rc :
    PreInv False c st out Rc -> phase st = Done ->
    (forall s r, In r (buf_recs (buf_of s st)) -> max_wm < et r) -> Inv timed st out Rc.
  Proof.
    intros [P [HC [Hb [Hperm [Hfl [Har Ht]]]]]] Hd Hdone. exists P. repeat (split; [assumption|]).
    split; [intros _; exact Hdone|]. split; [unfold live; rewrite Hd; exact I|]. intros _ Hnd. contradiction.
  Qed.

  Lemma Pre_Inv timed st out Rc :
    PreInv timed (minwm st) st out Rc -> live st ->
    (phase st = Done -> forall s r, In r (buf_recs (buf_of s st)) -> max_wm < et r) ->
    (timed -> phase st = Both -> minwm st <= lwm st /\ minwm st <= rwm st) ->
    Inv timed st out Rc.
  Proof.
    intros [P [HC [Hb [Hperm [Hfl [Har Ht]]]]]] Hlive Hdone H3. exists P. repeat (split; [assumption|]).
    intros T _. destruct (Ht T) as [T1 T2]. split; [exact T1|]. split; [exact T2 | exact (H3 T)].
  Qed.

  Lemma PreInv_frame timed c st st' out Rc :
    (forall s, tree_of s st' = tree_of s st) -> (forall s, buf_of s st' = buf_of s st) ->
    (forall s, tnil s st' = false -> tnil s st = false) ->
    (forall op, phase st' = OneOpen op true -> buf_of (other op) st' = []) ->
    PreInv timed c st out Rc -> PreInv timed c st' out Rc.
  Proof.
    intros Ht Hbf Hn Hfl' [P [HC [Hb [Hperm [Hfl [Har HT]]]]]]. exists P.
    split; [apply (CI_frame st st'); assumption|].
    split; [intro s; rewrite Hbf; apply Hb|]. split; [intro s; rewrite Hbf; apply Hperm|].
    split; [exact Hfl'|]. split; [exact Har|]. intro T. destruct (HT T) as [T1 T2]. split; [exact T1|].
    intros s r. rewrite Hbf. apply T2.
  Qed.

  Lemma PreInv_out_wm timed c st out Rc w : PreInv timed c st out Rc -> PreInv timed c st (out ++ [WM w]) Rc.
  Proof.
    intros [P [HC H]]. exists P. split; [apply CI_out_wm; exact HC | exact H].
  Qed.

  Lemma process_inv timed c st out Rc w flag st1 o1 :
    PreInv timed c st out Rc -> stopped st = false -> (flag = true -> exists op, phase st = OneOpen op true) ->
    (timed -> c <= w) ->
    process_up_to recv w flag st = (st1, o1) -> panicked st1 = false ->
    frame_eq st st1 /\ Forall is_rec o1 /\ PreInv timed w st1 (out ++ o1) Rc /\
    (forall s, buf_of s st = [] -> buf_of s st1 = []) /\
    (forall s r, In r (buf_recs (buf_of s st1)) -> w < et r).
  Proof.
    intros [P [HC [Hb [Hperm [Hfl [Har Ht]]]]]] Hst Hflag Hw Hproc Hp.
    destruct (process_spec w flag st out P st1 o1 HC Hst Hb) as [F [Hfr [HF [Ho C1]]]]; auto.
    - intros s r Hin. eapply (arity_of_perm P (fun s => buf_recs (buf_of s st))); eauto.
    - intros s N. unfold tree_nil in N. destruct (phase st) as [|op [|]| | |] eqn:Ph; try discriminate.
      apply side_eqb_eq in N. rewrite <- (other_other s), N. apply Hfl. reflexivity.
    - assert (Hkeep : forall s, buf_of s st = [] -> buf_of s st1 = []).
      { intros s E. destruct (HF s) as [_ [_ [_ [_ H5]]]]. apply H5. rewrite E. intros ? []. }
      split; [exact Hfr|]. split; [exact Ho|]. split; [|split; [exact Hkeep | intros s; apply (HF s)]].
      exists (fun s => P s ++ F s).
      split; [exact C1|]. split; [intro s; apply (HF s)|]. split.
      { intro s. destruct (HF s) as [E _]. rewrite <- app_assoc, <- E. apply Hperm. }
      split.
      { intros op Hop. apply Hkeep. apply Hfl. destruct Hfr as [Hph _]. rewrite <- Hph. exact Hop. }
      split; [exact Har|].
      intro T. destruct (Ht T) as [T1 T2]. split.
      + intros s r Hin. apply in_app_or in Hin. destruct Hin as [Hin|Hin].
        * apply (le_cut_mono c); [apply Hw; exact T | apply (T1 s); exact Hin].
        * destruct (HF s) as [_ [_ [H3 _]]]. unfold le_cut. apply Bool.orb_true_iff. right. apply Z.leb_le. apply H3. exact Hin.
      + intros s r Hin. apply le_cut_false. destruct (HF s) as [E [_ [_ [H4 _]]]]. split; [|apply H4; exact Hin].
        assert (In r (buf_recs (buf_of s st))) as Hin0 by (rewrite E; apply in_or_app; right; exact Hin).
        apply (proj1 (proj1 (le_cut_false _ _) (T2 s r Hin0))).
  Qed.

  Lemma Inv_Rc_ext timed st out Rc Rc' : (forall s, Rc s = Rc' s) -> Inv timed st out Rc -> Inv timed st out Rc'.
  Proof.
    intros E [P [HC [Hb [Hperm [Hfl [Har [Hdone [Hlive Ht]]]]]]]]. exists P.
    split; [exact HC|]. split; [exact Hb|]. split; [intro s; rewrite <- E; apply Hperm|]. split; [exact Hfl|].
    split; [intros s r; rewrite <- E; apply Har|]. split; [exact Hdone|]. split; assumption.
  Qed.

  Lemma on_record_inv timed s r flag st out Rc st' o :
    Inv timed st out Rc -> stopped st = false -> arP s (vals r) ->
    (flag = true -> tree_nil s st = true) -> tree_nil (other s) st = false ->
    (forall op f, phase st = OneOpen op f -> s = op) ->
    (timed -> et r = zero_ns \/ minwm st < et r) ->
    on_record recv s r flag st = (st', o) -> panicked st' = false ->
    Inv timed st' (out ++ o) (upd Rc s (Rc s ++ [r])) /\ frame_eq st st' /\ Forall is_rec o.
  Proof.
    intros [P [HC [Hb [Hperm [Hfl [Har [Hdone [Hlive Ht]]]]]]]] Hst Harr Hflag Hoth Hopen Hlate.
    assert (HarRc : forall s1 r0, In r0 (upd Rc s (Rc s ++ [r]) s1) -> arP s1 (vals r0)).
    { intros s1 r0. unfold upd. destruct (side_eqb s1 s) eqn:E; [|apply Har].
      apply side_eqb_eq in E. subst s1. intro Hin. apply in_app_or in Hin. destruct Hin as [Hin|[Hin|[]]]; [apply Har; exact Hin | subst; exact Harr]. }
    unfold on_record. destruct (Z.eqb_spec (et r) zero_ns) as [Ez|Enz].
    - intros H Hp. destruct (CI_receive s r flag st out P st' o HC Hst Harr Hflag Hoth H Hp) as [[t' Et] [Fo C]].
      split; [|split; [subst st'; destruct s; repeat split | exact Fo]].
      exists (upd P s (P s ++ [r])). split; [exact C|].
      split; [intro s0; subst st'; rewrite buf_of_set_tree; apply Hb|].
      split.
      { intro s0. subst st'. rewrite buf_of_set_tree. unfold upd. destruct (side_eqb s0 s) eqn:E; [|apply Hperm].
        apply side_eqb_eq in E. subst s0. apply perm_snoc. apply Hperm. }
      split; [intros op Hop; subst st'; rewrite buf_of_set_tree; apply Hfl; destruct s; exact Hop|].
      split; [exact HarRc|].
      split; [intro Hd; exfalso; subst st'; unfold stopped in Hst; destruct s; simpl in Hd; rewrite Hd in Hst; discriminate|].
      split; [subst st'; destruct s; exact Hlive|].
      intros T _. assert (Hnd : phase st <> Done) by (intro Hd; unfold stopped in Hst; rewrite Hd in Hst; discriminate).
      destruct (Ht T Hnd) as [T1 [T2 T3]]. subst st'. split; [|split].
      + intros s0 r0. replace (minwm (set_tree s t' st)) with (minwm st) by (destruct s; reflexivity).
        unfold upd. destruct (side_eqb s0 s) eqn:E; [|apply T1]. intro Hin. apply in_app_or in Hin.
        destruct Hin as [Hin|[Hin|[]]]; [apply side_eqb_eq in E; subst s0; apply (T1 s); exact Hin|].
        subst r0. unfold le_cut. rewrite Ez, Z.eqb_refl. reflexivity.
      + intros s0 r0. rewrite buf_of_set_tree. replace (minwm (set_tree s t' st)) with (minwm st) by (destruct s; reflexivity). apply T2.
      + destruct s; exact T3.
    - intros H Hp. inversion H; subst. clear H. rewrite app_nil_r.
      split; [|split; [destruct s; repeat split | constructor]].
      exists P. split; [apply CoreInv_set_buf; exact HC|].
      split.
      { intro s0. destruct (side_cases s s0) as [E|E]; subst s0.
        - rewrite buf_of_set_buf. apply buf_add_ok. apply Hb.
        - rewrite buf_of_set_buf_o. apply Hb. }
      split.
      { intro s0. destruct (side_cases s s0) as [E|E]; subst s0.
        - rewrite buf_of_set_buf, upd_same. eapply perm_buf; [apply Hperm | apply buf_add_perm].
        - rewrite buf_of_set_buf_o, upd_other. apply Hperm. }
      split.
      { intros op Hop. assert (phase st = OneOpen op true) as Hop' by (destruct s; exact Hop).
        rewrite (Hopen _ _ Hop'). rewrite buf_of_set_buf_o. apply Hfl. exact Hop'. }
      split; [exact HarRc|].
      split; [intro Hd; exfalso; unfold stopped in Hst; destruct s; simpl in Hd; rewrite Hd in Hst; discriminate|].
      split; [destruct s; exact Hlive|].
      intros T _. assert (Hnd : phase st <> Done) by (intro Hd; unfold stopped in Hst; rewrite Hd in Hst; discriminate).
      destruct (Ht T Hnd) as [T1 [T2 T3]]. split; [|split].
      + intros s0 r0. replace (minwm (set_buf s (buf_add r (buf_of s st)) st)) with (minwm st) by (destruct s; reflexivity). apply T1.
      + intros s0 r0. replace (minwm (set_buf s (buf_add r (buf_of s st)) st)) with (minwm st) by (destruct s; reflexivity).
        destruct (side_cases s s0) as [E|E]; subst s0.
        * rewrite buf_of_set_buf. intro Hin. apply (Permutation_in _ (buf_add_perm r _)) in Hin.
          destruct Hin as [Hin|Hin]; [|apply (T2 s); exact Hin]. subst r0. apply le_cut_false.
          split; [exact Enz|]. destruct (Hlate T) as [Z0|Z0]; [contradiction | exact Z0].
        * rewrite buf_of_set_buf_o. apply T2.
      + destruct s; exact T3.
  Qed.

  Lemma rem_arity_tail (rm : side -> list msg) s m rest :
    (forall s1 r, In r (msg_recs (rm s1)) -> arP s1 (vals r)) -> rm s = m :: rest ->
    forall s1 r, In r (msg_recs (upd rm s rest s1)) -> arP s1 (vals r).
  Proof.
    intros H E s1 r. unfold upd. destruct (side_eqb s1 s) eqn:Es; [|apply H].
    apply side_eqb_eq in Es. subst s1. intro Hin. apply H. rewrite E. unfold msg_recs. cbn [flat_map].
    apply in_or_app. right. exact Hin.
  Qed.

  Lemma step_inv timed st out Rc rm s m rest st' o :
    Inv timed st out Rc -> Rem timed st rm -> rm s = m :: rest ->
    jstep recv false use_mark st (s, m) = (st', o) -> panicked st' = false ->
    Inv timed st' (out ++ o) (upd Rc s (Rc s ++ msg_recs [m])) /\ Rem timed st' (upd rm s rest).
  Proof.
    intros HI [Rp [Ra [Rph Rt]]] Erm.
    assert (Hpl : plain_script (m :: rest) = true) by (rewrite <- Erm; apply Rp).
    assert (Rp' := rem_plain_tail rm s m rest Rp Erm).
    assert (Ra' := rem_arity_tail rm s m rest Ra Erm).
    assert (Hlive : live st) by (destruct HI as [P [_ [_ [_ [_ [_ [_ [L _]]]]]]]]; exact L).
    assert (HT3 : timed -> phase st = Both -> minwm st <= lwm st /\ minwm st <= rwm st).
    { intros T Hb. destruct HI as [P [_ [_ [_ [_ [_ [_ [_ Ht]]]]]]]]. apply (Ht T); [congruence | exact Hb]. }
    unfold jstep. destruct (phase st) as [|op flag| | |] eqn:Ph.
    - (* ---- both inputs open ---- *)
      assert (Hst : stopped st = false) by (unfold stopped; rewrite Ph; reflexivity).
      assert (Hnil : forall s0, tree_nil s0 st = false) by (intro s0; unfold tree_nil; rewrite Ph; reflexivity).
      assert (Htn : forall s0, tnil s0 st = false) by (intro s0; unfold tnil, tree_nil; rewrite Ph; reflexivity).
      destruct m as [r|w| |].
      + (* record *)
        intros H Hp. cbn [msg_recs flat_map app].
        destruct (on_record_inv timed s r false st out Rc st' o HI Hst) as [HI' [Hfr Ho]]; auto.
        * apply (Ra s). rewrite Erm. left. reflexivity.
        * discriminate.
        * intros op f Hop. congruence.
        * intro T. specialize (Rt T s). rewrite Erm in Rt. destruct (wt_rec _ _ _ Rt) as [[Z0|Z0] _]; [left; exact Z0 | right].
          destruct (HT3 T eq_refl). destruct s; simpl in Z0; lia.
        * split; [exact HI'|]. destruct Hfr as [Hph [Hl [Hr Hm]]].
          split; [exact Rp'|]. split; [exact Ra'|]. rewrite Hph, Ph. split; [exact I|].
          intros T s0. specialize (Rt T). replace (wm_of s0 st') with (wm_of s0 st) by (destruct s0; simpl; congruence).
          destruct (side_cases s s0) as [E|E]; subst s0; [rewrite upd_same | rewrite upd_other; apply Rt].
          specialize (Rt s). rewrite Erm in Rt. apply (wt_rec _ _ _ Rt).
      + (* watermark *)
        cbn [msg_recs flat_map app].
        assert (Hwt : timed -> wm_of s st <= w /\ well_timed_from w rest = true).
        { intro T. specialize (Rt T s). rewrite Erm in Rt. apply (wt_wm _ _ _ Rt). }
        set (st0 := set_wm s w st).
        assert (Hpre0 : forall x, PreInv timed (minwm st) (set_minwm x st0) out Rc).
        { intro x. apply (PreInv_frame timed (minwm st) st); try (intro s0; destruct s, s0; reflexivity).
          - intros s0 _. apply Htn.
          - intros op Hop. exfalso. assert (phase st = OneOpen op true) by (destruct s; exact Hop). congruence.
          - apply Inv_Pre; [exact HI | congruence]. }
        assert (Hrem' : forall st2, phase st2 = Both -> (forall s0, wm_of s0 st2 = wm_of s0 st0) -> Rem timed st2 (upd rm s rest)).
        { intros st2 Hph2 Hwm2. split; [exact Rp'|]. split; [exact Ra'|]. rewrite Hph2. split; [exact I|].
          intros T s0. rewrite Hwm2. destruct (side_cases s s0) as [E|E]; subst s0.
          - rewrite upd_same. replace (wm_of s st0) with w by (destruct s; reflexivity). apply (Hwt T).
          - rewrite upd_other. replace (wm_of (other s) st0) with (wm_of (other s) st) by (destruct s; reflexivity). apply (Rt T). }
        set (mn := if wm_of (other s) st0 <? wm_of s st0 then wm_of (other s) st0 else wm_of s st0).
        assert (Hmn : mn <= wm_of s st0 /\ mn <= wm_of (other s) st0).
        { unfold mn. destruct (Z.ltb_spec (wm_of (other s) st0) (wm_of s st0)); lia. }
        destruct (Z.ltb_spec (minwm st0) mn) as [Hadv|Hno].
        * destruct (process_up_to recv mn false (set_minwm mn st0)) as [st1 o1] eqn:Pr.
          assert (Hst0 : stopped (set_minwm mn st0) = false) by (unfold stopped; destruct s; simpl; rewrite Ph; reflexivity).
          assert (Hp1 : panicked st1 = false -> frame_eq (set_minwm mn st0) st1 /\ Forall is_rec o1 /\
                        PreInv timed mn st1 (out ++ o1) Rc /\ (forall s0, buf_of s0 (set_minwm mn st0) = [] -> buf_of s0 st1 = []) /\
                        (forall s0 r, In r (buf_recs (buf_of s0 st1)) -> mn < et r)).
          { intro Hp1. apply (process_inv timed (minwm st) (set_minwm mn st0) out Rc mn false st1 o1); auto.
            - discriminate.
            - intros _. replace (minwm st0) with (minwm st) in Hadv by (destruct s; reflexivity). lia. }
          destruct (stopped st1) eqn:St1.
          -- intros H Hp. inversion H; subst st' o. exfalso. destruct (Hp1 Hp) as [[Hph _] _].
             unfold stopped in St1. rewrite Hph in St1. destruct s; simpl in St1; rewrite Ph in St1; discriminate.
          -- intros H Hp. inversion H; subst st' o. clear H.
             destruct (Hp1 (stopped_not_panicked _ St1)) as [[Hph [Hl [Hr Hm]]] [Ho1 [Hpre1 _]]].
             assert (Hph1 : phase st1 = Both) by (rewrite Hph; destruct s; exact Ph).
             split.
             ++ apply (Inv_Rc_ext timed st1 _ Rc); [intro s0; symmetry; apply upd_nil|]. rewrite app_assoc.
                apply Pre_Inv.
                ** replace (minwm st1) with mn by (rewrite Hm; reflexivity). apply PreInv_out_wm. exact Hpre1.
                ** unfold live. rewrite Hph1. exact I.
                ** rewrite Hph1. discriminate.
                ** intros T _. rewrite Hm, Hl, Hr. cbn [minwm set_minwm lwm rwm]. destruct s; simpl in Hmn; simpl; lia.
             ++ apply Hrem'; [exact Hph1|]. intro s0. destruct s0; simpl; [rewrite Hl | rewrite Hr]; reflexivity.
        * intros H Hp. inversion H; subst st' o. clear H. rewrite app_nil_r. split.
          -- apply (Inv_Rc_ext timed st0 _ Rc); [intro s0; symmetry; apply upd_nil|].
             apply Pre_Inv.
             ++ replace (minwm st0) with (minwm st) by (destruct s; reflexivity).
                specialize (Hpre0 (minwm st)). replace (set_minwm (minwm st) st0) with st0 in Hpre0 by (destruct s, st; reflexivity). exact Hpre0.
             ++ unfold live. replace (phase st0) with (phase st) by (destruct s; reflexivity). rewrite Ph. exact I.
             ++ replace (phase st0) with (phase st) by (destruct s; reflexivity). rewrite Ph. discriminate.
             ++ intros T _. destruct (HT3 T eq_refl) as [A1 A2]. destruct (Hwt T) as [A3 _].
                destruct s; simpl in *; lia.
          -- apply Hrem'; [destruct s; exact Ph | reflexivity].
      + discriminate Hpl.
      + (* first close *)
        cbn [msg_recs flat_map app andb].
        assert (Hrest : rest = []) by (apply plain_close; exact Hpl).
        set (wo := wm_of (other s) st).
        destruct (process_up_to recv wo false (set_minwm wo st)) as [st1 o1] eqn:Pr.
        assert (Hst0 : stopped (set_minwm wo st) = false) by (unfold stopped; simpl; rewrite Ph; reflexivity).
        assert (Hp1 : panicked st1 = false -> frame_eq (set_minwm wo st) st1 /\ Forall is_rec o1 /\
                      PreInv timed wo st1 (out ++ o1) Rc /\ (forall s0, buf_of s0 (set_minwm wo st) = [] -> buf_of s0 st1 = []) /\
                      (forall s0 r, In r (buf_recs (buf_of s0 st1)) -> wo < et r)).
        { intro Hp1. apply (process_inv timed (minwm st) (set_minwm wo st) out Rc wo false st1 o1); auto.
          - apply (PreInv_frame timed (minwm st) st); try (intro s0; reflexivity).
            + intros s0 _. apply Htn.
            + intros op Hop. simpl in Hop. congruence.
            + apply Inv_Pre; [exact HI | congruence].
          - discriminate.
          - intro T. destruct (HT3 T eq_refl). unfold wo. destruct s; simpl; lia. }
        destruct (stopped st1) eqn:St1.
        * intros H Hp. inversion H; subst st' o. exfalso. destruct (Hp1 Hp) as [[Hph _] _].
          unfold stopped in St1. rewrite Hph in St1. simpl in St1. rewrite Ph in St1. discriminate.
        * intros H Hp. inversion H; subst st' o. clear H.
          destruct (Hp1 (stopped_not_panicked _ St1)) as [[Hph [Hl [Hr Hm]]] [Ho1 [Hpre1 _]]].
          assert (Hph1 : phase st1 = Both) by (rewrite Hph; exact Ph).
          set (fl := use_mark && buf_empty (buf_of s st1)).
          split.
          -- apply (Inv_Rc_ext timed _ _ Rc); [intro s0; symmetry; apply upd_nil|].
             apply Pre_Inv.
             ++ replace (minwm (set_phase (OneOpen (other s) fl) st1)) with wo by (simpl; rewrite Hm; reflexivity).
                apply (PreInv_frame timed wo st1); try (intro s0; reflexivity).
                ** intros s0 _. unfold tnil, tree_nil. rewrite Hph1. reflexivity.
                ** intros op Hop. simpl in Hop. inversion Hop; subst op. rewrite other_other.
                   replace (buf_of s (set_phase (OneOpen (other s) fl) st1)) with (buf_of s st1) by (destruct s; reflexivity).
                   unfold fl in H1. apply andb_prop in H1. destruct H1 as [_ H1]. destruct (buf_of s st1); [reflexivity | discriminate].
                ** exact Hpre1.
             ++ exact I.
             ++ simpl. discriminate.
             ++ intros _ Hb. simpl in Hb. discriminate.
          -- split; [exact Rp'|]. split; [exact Ra'|]. cbn [phase set_phase]. split.
             ++ rewrite other_other, upd_same. exact Hrest.
             ++ intro T. rewrite upd_other. cbn [minwm set_phase]. rewrite Hm. cbn [minwm set_minwm]. apply (Rt T).
    - (* ---- one input closed ---- *)
      assert (Hst : stopped st = false) by (unfold stopped; rewrite Ph; reflexivity).
      assert (Es : s = op).
      { destruct (side_cases op s) as [E|E]; [exact E|]. exfalso. rewrite E, Rph in Erm. discriminate. }
      subst s. rewrite side_eqb_refl.
      assert (Hnil_op : flag = true -> tree_nil op st = true).
      { intro E. subst flag. unfold tree_nil. rewrite Ph. apply side_eqb_refl. }
      assert (Hnil_cl : tree_nil (other op) st = false).
      { unfold tree_nil. rewrite Ph. destruct flag; [apply side_eqb_other | reflexivity]. }
      assert (Hnd : phase st <> Done) by congruence.
      destruct m as [r|w| |].
      + (* record *)
        intros H Hp. cbn [msg_recs flat_map app].
        destruct (on_record_inv timed op r flag st out Rc st' o HI Hst) as [HI' [Hfr Ho]]; auto.
        * apply (Ra op). rewrite Erm. left. reflexivity.
        * intros op' f Hop. congruence.
        * intro T. specialize (Rt T). rewrite Erm in Rt. apply (wt_rec _ _ _ Rt).
        * split; [exact HI'|]. destruct Hfr as [Hph [Hl [Hr Hm]]].
          split; [exact Rp'|]. split; [exact Ra'|]. rewrite Hph, Ph. split; [rewrite upd_other; exact Rph|].
          intros T. rewrite upd_same, Hm. specialize (Rt T). rewrite Erm in Rt. apply (wt_rec _ _ _ Rt).
      + (* watermark *)
        cbn [msg_recs flat_map app andb].
        destruct (process_up_to recv w flag st) as [st1 o1] eqn:Pr.
        assert (Hp1 : panicked st1 = false -> frame_eq st st1 /\ Forall is_rec o1 /\
                      PreInv timed w st1 (out ++ o1) Rc /\ (forall s0, buf_of s0 st = [] -> buf_of s0 st1 = []) /\
                      (forall s0 r, In r (buf_recs (buf_of s0 st1)) -> w < et r)).
        { intro Hp1. apply (process_inv timed (minwm st) st out Rc w flag st1 o1); auto.
          - apply Inv_Pre; assumption.
          - intro E. subst flag. exists op. exact Ph.
          - intro T. specialize (Rt T). rewrite Erm in Rt. apply (wt_wm _ _ _ Rt). }
        destruct (stopped st1) eqn:St1.
        * intros H Hp. inversion H; subst st' o. exfalso. destruct (Hp1 Hp) as [[Hph _] _].
          unfold stopped in St1. rewrite Hph, Ph in St1. discriminate.
        * intros H Hp. inversion H; subst st' o. clear H.
          destruct (Hp1 (stopped_not_panicked _ St1)) as [[Hph [Hl [Hr Hm]]] [Ho1 [Hpre1 [Hkeep _]]]].
          assert (Hph1 : phase st1 = OneOpen op flag) by (rewrite Hph; exact Ph).
          set (fl := flag || (use_mark && buf_empty (buf_of (other op) st1))).
          split.
          -- apply (Inv_Rc_ext timed _ _ Rc); [intro s0; symmetry; apply upd_nil|]. rewrite app_assoc.
             apply Pre_Inv.
             ++ cbn [minwm set_minwm]. apply PreInv_out_wm.
                apply (PreInv_frame timed w st1); try (intro s0; reflexivity).
                ** intros s0. unfold tnil, tree_nil. cbn [phase set_minwm set_phase]. rewrite Hph1. unfold fl.
                   destruct flag; cbn [orb]; [auto|]. intros _. reflexivity.
                ** intros op' Hop. cbn [phase set_minwm set_phase] in Hop. inversion Hop; subst op'.
                   change (buf_of (other op) (set_minwm w (set_phase (OneOpen op fl) st1))) with (buf_of (other op) st1).
                   unfold fl in H1. destruct flag; cbn [orb] in H1.
                   --- apply Hkeep. destruct HI as [P [_ [_ [_ [Hfl _]]]]]. apply Hfl. exact Ph.
                   --- apply andb_prop in H1. destruct H1 as [_ H1]. destruct (buf_of (other op) st1); [reflexivity | discriminate].
                ** exact Hpre1.
             ++ exact I.
             ++ cbn [phase set_minwm set_phase]. discriminate.
             ++ intros _ Hb. cbn [phase set_minwm set_phase] in Hb. discriminate.
          -- split; [exact Rp'|]. split; [exact Ra'|]. cbn [phase set_minwm set_phase minwm]. split.
             ++ rewrite upd_other. exact Rph.
             ++ intro T. rewrite upd_same. specialize (Rt T). rewrite Erm in Rt. apply (wt_wm _ _ _ Rt).
      + discriminate Hpl.
      + (* second close *)
        cbn [msg_recs flat_map app].
        assert (Hrest : rest = []) by (apply plain_close; exact Hpl).
        destruct (process_up_to recv max_wm flag st) as [st1 o1] eqn:Pr.
        assert (Hp1 : panicked st1 = false -> frame_eq st st1 /\ Forall is_rec o1 /\
                      PreInv False max_wm st1 (out ++ o1) Rc /\ (forall s0, buf_of s0 st = [] -> buf_of s0 st1 = []) /\
                      (forall s0 r, In r (buf_recs (buf_of s0 st1)) -> max_wm < et r)).
        { intro Hp1. apply (process_inv False (minwm st) st out Rc max_wm flag st1 o1); auto.
          - apply (PreInv_untimed timed). apply Inv_Pre; assumption.
          - intro E. subst flag. exists op. exact Ph.
          - intros []. }
        destruct (stopped st1) eqn:St1.
        * intros H Hp. inversion H; subst st' o. exfalso. destruct (Hp1 Hp) as [[Hph _] _].
          unfold stopped in St1. rewrite Hph, Ph in St1. discriminate.
        * intros H Hp. inversion H; subst st' o. clear H.
          destruct (Hp1 (stopped_not_panicked _ St1)) as [[Hph [Hl [Hr Hm]]] [Ho1 [Hpre1 [Hkeep Habove]]]].
          split.
          -- apply (Inv_Rc_ext timed _ _ Rc); [intro s0; symmetry; apply upd_nil|].
             apply (Pre_Inv_done timed max_wm); [|reflexivity|exact Habove].
             apply (PreInv_frame False max_wm st1); try (intro s0; reflexivity); [| |exact Hpre1].
             ++ intros s0 Hs0. cbn in Hs0. discriminate Hs0.
             ++ intros op' Hop. cbn [phase set_phase] in Hop. discriminate.
          -- split; [exact Rp'|]. split; [exact Ra'|]. cbn [phase set_phase]. split; [|intros _; exact I].
             intro s0. destruct (side_cases op s0) as [E|E]; subst s0; [rewrite upd_same; exact Hrest | rewrite upd_other; exact Rph].
    - exfalso. specialize (Rph s). rewrite Erm in Rph. discriminate.
    - exfalso. unfold live in Hlive. rewrite Ph in Hlive. exact Hlive.
    - exfalso. unfold live in Hlive. rewrite Ph in Hlive. exact Hlive.
  Qed.

  (* ---- runs ---- *)

  Lemma jstep_panicked st sm : panicked st = true -> jstep recv false use_mark st sm = (st, []).
  Proof. unfold panicked, jstep. destruct sm as [s m]. destruct (phase st); try discriminate. reflexivity. Qed.

  Lemma jrun_steps_panicked sigma : forall st, panicked st = true -> fst (jrun_steps recv false use_mark st sigma) = st.
  Proof.
    induction sigma as [|sm sigma IH]; intros st H; [reflexivity|].
    cbn [jrun_steps]. rewrite (jstep_panicked st sm H). specialize (IH st H).
    destruct (jrun_steps recv false use_mark st sigma). simpl in *. exact IH.
  Qed.

  Lemma run_inv (timed : Prop) l r sigma : interleave l r sigma ->
    forall st out Rc rm, rm SL = l -> rm SR = r -> Inv timed st out Rc -> Rem timed st rm ->
    forall st' os, jrun_steps recv false use_mark st sigma = (st', os) -> panicked st' = false ->
    Inv timed st' (out ++ concat os) (fun s => Rc s ++ msg_recs (rm s)).
  Proof.
    induction 1 as [|m l r sg Hil IH|m l r sg Hil IH]; intros st out Rc rm El Er HI HR st' os Hrun Hp.
    - inversion Hrun; subst. simpl. rewrite app_nil_r. apply (Inv_Rc_ext timed st' out Rc); [|exact HI].
      intros [|]; [rewrite El | rewrite Er]; simpl; rewrite app_nil_r; reflexivity.
    - cbn [jrun_steps] in Hrun. destruct (jstep recv false use_mark st (SL, m)) as [st1 o1] eqn:S1.
      destruct (jrun_steps recv false use_mark st1 sg) as [st2 os2] eqn:R2. inversion Hrun; subst st' os. clear Hrun.
      assert (Hp1 : panicked st1 = false).
      { destruct (panicked st1) eqn:E; [|reflexivity]. pose proof (jrun_steps_panicked sg st1 E) as F. rewrite R2 in F. simpl in F. congruence. }
      destruct (step_inv timed st out Rc rm SL m l st1 o1 HI HR El S1 Hp1) as [HI1 HR1].
      specialize (IH st1 (out ++ o1) _ (upd rm SL l) eq_refl Er HI1 HR1 st2 os2 R2 Hp).
      cbn [concat]. rewrite app_assoc. refine (Inv_Rc_ext timed _ _ _ _ _ IH).
      intros [|]; cbn [upd side_eqb]; [rewrite El, (msg_recs_cons m l), app_assoc; reflexivity | reflexivity].
    - cbn [jrun_steps] in Hrun. destruct (jstep recv false use_mark st (SR, m)) as [st1 o1] eqn:S1.
      destruct (jrun_steps recv false use_mark st1 sg) as [st2 os2] eqn:R2. inversion Hrun; subst st' os. clear Hrun.
      assert (Hp1 : panicked st1 = false).
      { destruct (panicked st1) eqn:E; [|reflexivity]. pose proof (jrun_steps_panicked sg st1 E) as F. rewrite R2 in F. simpl in F. congruence. }
      destruct (step_inv timed st out Rc rm SR m r st1 o1 HI HR Er S1 Hp1) as [HI1 HR1].
      specialize (IH st1 (out ++ o1) _ (upd rm SR r) El eq_refl HI1 HR1 st2 os2 R2 Hp).
      cbn [concat]. rewrite app_assoc. refine (Inv_Rc_ext timed _ _ _ _ _ IH).
      intros [|]; cbn [upd side_eqb]; [reflexivity | rewrite Er, (msg_recs_cons m r), app_assoc; reflexivity].
  Qed.

  Lemma Inv_init (timed : Prop) : Inv timed jinit [] (fun _ => []).
  Proof.
    exists (fun _ => []). split.
    - exact CI_init.
    - split; [intro s; exists 0; destruct s; exact I|]. split; [intro s; destruct s; apply Permutation_refl|].
      split; [intros op H; discriminate H|]. split; [intros s r []|]. split; [intro H; discriminate H|].
      split; [exact I|]. intros _ _. split; [intros s r []|]. split; [intros s r Hin; destruct s; destruct Hin|].
      intros _. simpl. lia.
  Qed.

  Definition scripts_ok (l r : list msg) : Prop :=
    plain_script l = true /\ plain_script r = true /\
    (forall x, In x (msg_recs l) -> arP SL (vals x)) /\ (forall x, In x (msg_recs r) -> arP SR (vals x)).

  Lemma run_from_init (timed : Prop) l r sigma st os :
    interleave l r sigma -> scripts_ok l r -> (timed -> scripts_timed l r) ->
    jrun_steps recv false use_mark jinit sigma = (st, os) -> panicked st = false ->
    Inv timed st (concat os) (fun s => match s with SL => msg_recs l | SR => msg_recs r end).
  Proof.
    intros Hil [Hl [Hr [Ha Ha']]] Ht Hrun Hp.
    pose (rm := fun s => match s with SL => l | SR => r end).
    assert (HR : Rem timed jinit rm).
    { split; [intros [|]; assumption|]. split; [intros [|]; assumption|]. split; [exact I|].
      intros T [|]; simpl; apply (Ht T). }
    pose proof (run_inv timed l r sigma Hil jinit [] (fun _ => []) rm eq_refl eq_refl (Inv_init timed) HR st os Hrun Hp) as H.
    refine (Inv_Rc_ext timed _ _ _ _ _ H). intros [|]; reflexivity.
  Qed.

  (* C19_final: at end of stream the consolidated output is the join of the complete inputs *)

  Lemma receive_is_rec s r flag st st' o : receive recv s r flag st = (st', o) -> Forall is_rec o.
  Proof.
    unfold receive. destruct (stopped st); [intro H; inversion H; constructor|].
    destruct (recv _ _ _ _ _) as [[t' ro]|e|site]; intro H; inversion H; subst; try constructor. apply Forall_is_rec_map.
  Qed.

  Lemma receive_all_is_rec s flag rs : forall st st' o, receive_all recv s flag rs st = (st', o) -> Forall is_rec o.
  Proof.
    induction rs as [|r rs IH]; intros st st' o H; [inversion H; constructor|].
    cbn [receive_all] in H. destruct (receive recv s r flag st) as [st1 o1] eqn:R1.
    destruct (receive_all recv s flag rs st1) as [st2 o2] eqn:R2. inversion H; subst.
    apply Forall_app. split; [eapply receive_is_rec; eauto | eapply IH; eauto].
  Qed.

  Lemma process_is_rec w flag st st' o : process_up_to recv w flag st = (st', o) -> Forall is_rec o.
  Proof.
    unfold process_up_to, flush_side. intro H.
    destruct (tree_nil (other SL) st).
    - destruct (tree_nil (other SR) st).
      + inversion H; constructor.
      + destruct (buf_emit w (buf_of SR st)) as [e2 r2]. destruct (receive_all recv SR flag e2 _) as [st2 o2] eqn:R2.
        inversion H; subst. simpl. eapply receive_all_is_rec; eauto.
    - destruct (buf_emit w (buf_of SL st)) as [e1 r1]. destruct (receive_all recv SL flag e1 _) as [st1 o1] eqn:R1.
      destruct (tree_nil (other SR) st1).
      + inversion H; subst. rewrite app_nil_r. eapply receive_all_is_rec; eauto.
      + destruct (buf_emit w (buf_of SR st1)) as [e2 r2]. destruct (receive_all recv SR flag e2 _) as [st2 o2] eqn:R2.
        inversion H; subst. apply Forall_app. split; eapply receive_all_is_rec; eauto.
  Qed.

  Lemma on_record_is_rec s r flag st st' o : on_record recv s r flag st = (st', o) -> Forall is_rec o.
  Proof.
    unfold on_record. destruct (et r =? zero_ns); [apply receive_is_rec | intro H; inversion H; constructor].
  Qed.

  (* a step whose emission ends with watermark W leaves the cut at W and the node running *)

  Lemma receive_all_minwm s0 fl rs : forall stx sty oy, receive_all recv s0 fl rs stx = (sty, oy) -> minwm sty = minwm stx.
  Proof.
    induction rs as [|r rs IH]; intros stx sty oy H; [inversion H; reflexivity|].
    cbn [receive_all] in H. destruct (receive recv s0 r fl stx) as [sta oa] eqn:Ra.
    destruct (receive_all recv s0 fl rs sta) as [stb ob] eqn:Rb. inversion H; subst.
    rewrite (IH _ _ _ Rb). unfold receive in Ra. destruct (stopped stx); [inversion Ra; reflexivity|].
    destruct (recv _ _ _ _ _) as [[t' ro]|e|site]; inversion Ra; subst; destruct s0; reflexivity.
  Qed.

  Lemma process_minwm w flag st st' o : process_up_to recv w flag st = (st', o) -> minwm st' = minwm st.
  Proof.
    unfold process_up_to, flush_side. intro H.
    destruct (tree_nil (other SL) st).
    - destruct (tree_nil (other SR) st).
      + inversion H; subst. reflexivity.
      + destruct (buf_emit _ _) as [e2 r2]. destruct (receive_all recv SR flag e2 _) as [st2 o2] eqn:R2.
        inversion H; subst. rewrite (receive_all_minwm _ _ _ _ _ _ R2). reflexivity.
    - destruct (buf_emit _ _) as [e1 r1]. destruct (receive_all recv SL flag e1 _) as [sta oa] eqn:R1.
      destruct (tree_nil (other SR) sta).
      + inversion H; subst. rewrite (receive_all_minwm _ _ _ _ _ _ R1). reflexivity.
      + destruct (buf_emit _ _) as [e2 r2]. destruct (receive_all recv SR flag e2 _) as [st2 o2] eqn:R2.
        inversion H; subst. rewrite (receive_all_minwm _ _ _ _ _ _ R2). cbn [minwm set_buf]. rewrite (receive_all_minwm _ _ _ _ _ _ R1). reflexivity.
  Qed.

  (* a step whose emission ends with watermark W leaves the cut at W and the node running *)

  Lemma jstep_wm_cut st sm st' o W : jstep recv false use_mark st sm = (st', o ++ [WM W]) ->
    minwm st' = W /\ stopped st' = false.
  Proof.
    destruct sm as [s m]. unfold jstep.
    assert (Hno : forall o0, Forall is_rec o0 -> o0 = o ++ [WM W] -> False).
    { intros o0 F E. exact (records_is_rec_last o0 o W F E). }
    assert (Hnil : forall (stx : jstate), (stx, @nil event) = (st', o ++ [WM W]) -> minwm st' = W /\ stopped st' = false).
    { intros stx H. injection H as _ E. destruct o; discriminate. }
    destruct (phase st) as [|op flag| | |] eqn:Ph; try apply Hnil.
    - destruct m as [r|w| |]; try apply Hnil.
      + intro H. exfalso. pose proof (on_record_is_rec _ _ _ _ _ _ H) as F. exact (Hno _ F eq_refl).
      + set (st0 := set_wm s w st). set (mn := if wm_of (other s) st0 <? wm_of s st0 then wm_of (other s) st0 else wm_of s st0).
        destruct (minwm st0 <? mn); try apply Hnil.
        destruct (process_up_to recv mn false (set_minwm mn st0)) as [st1 o1] eqn:Pr.
        pose proof (process_is_rec _ _ _ _ _ Pr) as F.
        destruct (stopped st1) eqn:St1; intro H; injection H as E1 E2.
        * exfalso. exact (Hno _ F E2).
        * apply app_inj_tail in E2. destruct E2 as [_ E]. inversion E; subst.
          split; [|exact St1]. rewrite (process_minwm _ _ _ _ _ Pr). reflexivity.
      + destruct (process_up_to recv (wm_of (other s) st) false _) as [st1 o1] eqn:Pr.
        pose proof (process_is_rec _ _ _ _ _ Pr) as F.
        destruct (stopped st1); intro H; injection H as E1 E2; exfalso; exact (Hno _ F E2).
    - destruct (side_eqb s op); try apply Hnil.
      destruct m as [r|w| |]; try apply Hnil.
      + intro H. exfalso. pose proof (on_record_is_rec _ _ _ _ _ _ H) as F. exact (Hno _ F eq_refl).
      + destruct (process_up_to recv w flag st) as [st1 o1] eqn:Pr.
        pose proof (process_is_rec _ _ _ _ _ Pr) as F.
        destruct (stopped st1) eqn:St1; intro H; injection H as E1 E2.
        * exfalso. exact (Hno _ F E2).
        * apply app_inj_tail in E2. destruct E2 as [_ E]. inversion E; subst. split; reflexivity.
      + destruct (process_up_to recv max_wm flag st) as [st1 o1] eqn:Pr.
        pose proof (process_is_rec _ _ _ _ _ Pr) as F.
        destruct (stopped st1); intro H; injection H as E1 E2; exfalso; exact (Hno _ F E2).
  Qed.

  Lemma jrun_steps_snoc sigma : forall st st1 os sm st2 o,
    jrun_steps recv false use_mark st sigma = (st1, os) -> jstep recv false use_mark st1 sm = (st2, o) ->
    jrun_steps recv false use_mark st (sigma ++ [sm]) = (st2, os ++ [o]).
  Proof.
    induction sigma as [|a sigma IH]; intros st st1 os sm st2 o H1 H2.
    - inversion H1; subst. simpl. rewrite H2. reflexivity.
    - cbn [jrun_steps app] in *. destruct (jstep recv false use_mark st a) as [sta oa].
      destruct (jrun_steps recv false use_mark sta sigma) as [stb ob] eqn:R. inversion H1; subst.
      rewrite (IH _ _ _ _ _ _ R H2). reflexivity.
  Qed.

End Gen.
