(* Proofs/FloatProofs.v — int(Float) and the exact re-encoding of integers as binary64 (property C13). *)
From Coq Require Import SpecFloat Zpower.
From Octo Require Import NumFns NumFnsProofs.

(* ---------- truncation toward zero ---------- *)
Lemma trunc_bracket : forall s m e, e < 0 ->
  let t := sf_trunc_int s m e in
  Z.abs t * 2 ^ (- e) <= Z.abs (signed_m s m) < (Z.abs t + 1) * 2 ^ (- e) /\ 0 <= t * signed_m s m.
Proof.
  intros s m e He t. unfold t, sf_trunc_int. destruct (Z.leb_spec 0 e) as [?|_]; [lia|].
  set (k := 2 ^ (- e)). assert (P : 0 < k) by (apply Z.pow_pos_nonneg; lia).
  split.
  - rewrite <- Z.quot_abs by lia. rewrite (Z.abs_eq k) by lia.
    rewrite Z.quot_div_nonneg by lia.
    pose proof (Z.mul_div_le (Z.abs (signed_m s m)) k P). pose proof (Z.mul_succ_div_gt (Z.abs (signed_m s m)) k P). lia.
  - destruct s; simpl signed_m.
    + change (Z.neg m) with (- Z.pos m). rewrite Z.quot_opp_l by lia.
      pose proof (Z.quot_pos (Z.pos m) k ltac:(lia) P). nia.
    + pose proof (Z.quot_pos (Z.pos m) k ltac:(lia) P). nia.
Qed.

Lemma f_to_int_finite : forall a s m e, b2sf a = S754_finite s m e -> in_int64 (sf_trunc_int s m e) ->
  f_to_int a = Some (sf_trunc_int s m e).
Proof.
  intros a s m e H R. unfold f_to_int. rewrite H. cbv zeta. unfold in_int64b.
  unfold in_int64 in R. destruct R as [R1 R2].
  apply Z.leb_le in R1. apply Z.ltb_lt in R2. rewrite R1, R2. reflexivity.
Qed.

Lemma f_to_int_zero : forall a s, b2sf a = S754_zero s -> f_to_int a = Some 0.
Proof. intros a s H. unfold f_to_int. rewrite H. reflexivity. Qed.

Lemma f_to_int_some_range : forall a z, f_to_int a = Some z -> in_int64 z.
Proof.
  intros a z H. unfold f_to_int in H. destruct (b2sf a) as [s|s| |s m e]; try discriminate.
  - inversion H; subst. unfold in_int64, two63. lia.
  - cbv zeta in H. destruct (in_int64b (sf_trunc_int s m e)) eqn:E; [|discriminate]. inversion H; subst.
    unfold in_int64b in E. apply andb_prop in E. destruct E as [A B]. apply Z.leb_le in A. apply Z.ltb_lt in B. split; assumption.
Qed.

(* ---------- integers below 2^53 are encoded exactly ---------- *)
Lemma binary_round_aux_exact : forall s mz ez,
  Zpos (digits2_pos mz) = 53 -> -1074 <= ez <= 971 ->
  binary_round_aux 53 1024 s (Zpos mz) ez loc_Exact = S754_finite s mz ez.
Proof.
  intros s mz ez Hd He. unfold binary_round_aux, shr_fexp. cbn [Zdigits2 shr_record_of_loc].
  rewrite Hd. unfold fexp, emin.
  replace (Z.max (53 + ez - 53) (3 - 1024 - 53) - ez) with 0 by lia.
  cbn [shr shr_m loc_of_shr_record round_nearest_even Zdigits2 shr_record_of_loc].
  rewrite Hd. replace (Z.max (53 + ez - 53) (3 - 1024 - 53) - ez) with 0 by lia.
  cbn [shr shr_m]. destruct (Zle_bool ez (1024 - 53)) eqn:E; [reflexivity|].
  apply Z.leb_gt in E. lia.
Qed.

Lemma digits2_shift : forall k p, digits2_pos (shift_pos k p) = (digits2_pos p + k)%positive.
Proof.
  intros k p. unfold shift_pos. induction k using Pos.peano_ind.
  - simpl. lia.
  - rewrite Pos.iter_succ. cbn [digits2_pos]. rewrite IHk. lia.
Qed.

Lemma shift_pos_value : forall k p, Zpos (shift_pos k p) = Zpos p * 2 ^ Zpos k.
Proof. intros k p. rewrite shift_pos_correct. rewrite Zpower_pos_nat, Zpower_nat_Z, positive_nat_Z. lia. Qed.

(* the value of a finite spec_float with a non-positive exponent, as an integer equation:  ±m = z·2^(-e) *)
Definition sf_is_int (f : spec_float) (z : Z) : Prop :=
  match f with
  | S754_zero _ => z = 0
  | S754_finite s m e => e <= 0 /\ signed_m s m = z * 2 ^ (- e) /\ Zpos (digits2_pos m) = 53 /\ -52 <= e
  | _ => False
  end.

Lemma binary_round_int_exact : forall s p, Zpos (digits2_pos p) <= 53 ->
  sf_is_int (binary_round 53 1024 s p 0) (signed_m s p).
Proof.
  intros s p Hd. unfold binary_round. unfold fexp at 1, emin. rewrite Z.add_0_r.
  assert (Hd0 : 0 < Zpos (digits2_pos p)) by lia.
  destruct (Z.eq_dec (Zpos (digits2_pos p)) 53) as [E|N].
  - rewrite E. change (sf_is_int (binary_round_aux 53 1024 s (Zpos p) 0 loc_Exact) (signed_m s p)).
    rewrite binary_round_aux_exact by (try assumption; lia).
    cbn [sf_is_int]. repeat split; try lia.
  - set (d := Zpos (digits2_pos p)) in *.
    replace (Z.max (d - 53) (3 - 1024 - 53)) with (Zneg (Z.to_pos (53 - d))).
    2:{ rewrite <- Pos2Z.opp_pos. rewrite Z2Pos.id by lia. lia. }
    unfold shl_align. rewrite Z.sub_0_r. cbv iota beta.
    rewrite binary_round_aux_exact.
    + cbn [sf_is_int]. assert (Hk : Zpos (Z.to_pos (53 - d)) = 53 - d) by (apply Z2Pos.id; lia).
      repeat split.
      * lia.
      * rewrite Pos2Z.opp_neg. destruct s; simpl signed_m.
        -- rewrite <- !Pos2Z.opp_pos. rewrite shift_pos_value. change (Z.pos_sub 53 (digits2_pos p)) with (53 - d). ring.
        -- apply shift_pos_value.
      * rewrite digits2_shift. rewrite Pos2Z.inj_add. fold d. lia.
      * rewrite <- Pos2Z.opp_pos. lia.
    + assert (Hk : Zpos (Z.to_pos (53 - d)) = 53 - d) by (apply Z2Pos.id; lia).
      rewrite digits2_shift. rewrite Pos2Z.inj_add. fold d. lia.
    + assert (Hk : Zpos (Z.to_pos (53 - d)) = 53 - d) by (apply Z2Pos.id; lia).
      rewrite <- Pos2Z.opp_pos. lia.
Qed.

Lemma digits2_size : forall p, digits2_pos p = Pos.size p.
Proof. induction p; simpl; congruence. Qed.

Lemma digits_le_53 : forall p, Zpos p < 2 ^ 53 -> Zpos (digits2_pos p) <= 53.
Proof.
  intros p H. rewrite digits2_size. destruct (Z.le_gt_cases (Zpos (Pos.size p)) 53) as [L|G]; [assumption|exfalso].
  pose proof (Pos.size_le p) as S.
  assert (2 ^ 54 <= 2 ^ Zpos (Pos.size p)) by (apply Z.pow_le_mono_r; lia).
  assert (Zpos (2 ^ Pos.size p) = 2 ^ Zpos (Pos.size p)) by (rewrite Pos2Z.inj_pow; reflexivity).
  assert (Zpos (2 ^ Pos.size p) <= Zpos p~0) by (apply Pos2Z.pos_le_pos; exact S).
  rewrite Pos2Z.inj_xO in *. lia.
Qed.

Lemma normalize_int_exact : forall z s, Z.abs z < 2 ^ 53 -> sf_is_int (binary_normalize 53 1024 z 0 s) z.
Proof.
  intros z s H. destruct z as [|q|q]; cbn [binary_normalize].
  - reflexivity.
  - apply (binary_round_int_exact false q). apply digits_le_53. exact H.
  - apply (binary_round_int_exact true q). apply digits_le_53. exact H.
Qed.

(* what b2sf decodes has a mantissa below 2^53 *)
Lemma b2sf_finite_bound : forall a s m e, b2sf a = S754_finite s m e -> Zpos m < 2 ^ 53.
Proof.
  intros a s m e H. unfold b2sf in H.
  set (b := a mod two64) in *.
  pose proof (Z.mod_pos_bound b two52 ltac:(reflexivity)) as Hm. unfold two52 in *.
  destruct ((b / 4503599627370496) mod 2048 =? 0).
  - destruct (b mod 4503599627370496) eqn:E; inversion H; subst. lia.
  - destruct ((b / 4503599627370496) mod 2048 =? 2047); [destruct (b mod 4503599627370496 =? 0); discriminate|].
    destruct (b mod 4503599627370496 + 4503599627370496) eqn:E; inversion H; subst. lia.
Qed.

Lemma floor_abs_le : forall s m e, e < 0 -> Z.abs (sf_floor_int s m e) <= Zpos m /\ Z.abs (sf_ceil_int s m e) <= Zpos m.
Proof.
  intros s m e He. unfold sf_floor_int, sf_ceil_int. destruct (Z.leb_spec 0 e) as [?|_]; [lia|].
  set (k := 2 ^ (- e)). assert (P : 2 <= k).
  { unfold k. replace (- e) with (1 + (- e - 1)) by lia. rewrite Z.pow_add_r by lia.
    pose proof (Z.pow_pos_nonneg 2 (- e - 1) ltac:(lia) ltac:(lia)). lia. }
  destruct s; simpl signed_m.
  - pose proof (Z.mul_div_le (Z.neg m) k ltac:(lia)). pose proof (Z.mul_succ_div_gt (Z.neg m) k ltac:(lia)).
    pose proof (Z.mul_div_le (- Z.neg m) k ltac:(lia)). pose proof (Z.mul_succ_div_gt (- Z.neg m) k ltac:(lia)).
    pose proof (Z.div_pos (- Z.neg m) k ltac:(lia) ltac:(lia)).
    assert (Z.neg m / k < 0) by (apply Z.div_lt_upper_bound; lia). split; nia.
  - pose proof (Z.mul_div_le (Z.pos m) k ltac:(lia)). pose proof (Z.div_pos (Z.pos m) k ltac:(lia) ltac:(lia)).
    pose proof (Z.mul_div_le (- Z.pos m) k ltac:(lia)). pose proof (Z.mul_succ_div_gt (- Z.pos m) k ltac:(lia)).
    assert (- Z.pos m / k < 0) by (apply Z.div_lt_upper_bound; lia). split; nia.
Qed.

(* floor and ceil: the float the model returns is the exact encoding of the bracketing integer *)
Theorem floor_ceil_encoding : forall a s m e, b2sf a = S754_finite s m e -> e < 0 ->
  (f_floor a = sf2b (binary_normalize 53 1024 (sf_floor_int s m e) 0 s) /\
   sf_is_int (binary_normalize 53 1024 (sf_floor_int s m e) 0 s) (sf_floor_int s m e)) /\
  (f_ceil a = sf2b (binary_normalize 53 1024 (sf_ceil_int s m e) 0 s) /\
   sf_is_int (binary_normalize 53 1024 (sf_ceil_int s m e) 0 s) (sf_ceil_int s m e)).
Proof.
  intros a s m e H He. pose proof (b2sf_finite_bound _ _ _ _ H) as Hb.
  destruct (floor_abs_le s m e He) as [F C].
  unfold f_floor, f_ceil. rewrite H. destruct (Z.leb_spec 0 e) as [?|_]; [lia|].
  split; (split; [reflexivity|apply normalize_int_exact; lia]).
Qed.

(* ---------- the codec gives back what it encoded (normal numbers and zeros) ---------- *)
Lemma digits53_bounds : forall p, Zpos (digits2_pos p) = 53 -> 2 ^ 52 <= Zpos p < 2 ^ 53.
Proof.
  intros p H. rewrite digits2_size in H. pose proof (Pos.size_le p) as L. pose proof (Pos.size_gt p) as G.
  assert (E : Pos.size p = 53%positive) by lia. rewrite E in *.
  apply Pos2Z.pos_le_pos in L. apply Pos2Z.pos_lt_pos in G. rewrite Pos2Z.inj_xO in L.
  change (Z.pos (2 ^ 53)) with (2 ^ 53) in *. change (2 ^ 53) with (2 * 2 ^ 52) in L. lia.
Qed.

Lemma codec_normal : forall s m e, Zpos (digits2_pos m) = 53 -> -1022 - 52 <= e <= 971 ->
  b2sf (sf2b (S754_finite s m e)) = S754_finite s m e.
Proof.
  intros s m e Hd He. pose proof (digits53_bounds m Hd) as Hm.
  change (2 ^ 52) with 4503599627370496 in Hm. change (2 ^ 53) with 9007199254740992 in Hm.
  unfold sf2b. unfold two52. destruct (Z.ltb_spec (Z.pos m) 4503599627370496) as [?|_]; [lia|].
  set (E := e + 1075). set (M := Z.pos m - 4503599627370496).
  assert (HE : 1 <= E <= 2046) by (unfold E; lia). assert (HM : 0 <= M < 4503599627370496) by (unfold M; lia).
  unfold b2sf. unfold two64, two63, two52, sign_bits.
  assert (Hbits : forall S, (S = 0 \/ S = 9223372036854775808) ->
     (S + E * 4503599627370496 + M) mod 18446744073709551616 = S + E * 4503599627370496 + M /\
     ((S + E * 4503599627370496 + M) / 4503599627370496) mod 2048 = E /\
     (S + E * 4503599627370496 + M) mod 4503599627370496 = M /\
     (9223372036854775808 <=? S + E * 4503599627370496 + M) = (S =? 9223372036854775808)).
  { intros S HS. split; [apply Z.mod_small; lia|]. split; [|split].
    - replace (S + E * 4503599627370496 + M) with (M + (S / 4503599627370496 + E) * 4503599627370496)
        by (destruct HS; subst S; [change (0 / 4503599627370496) with 0|change (9223372036854775808 / 4503599627370496) with 2048]; lia).
      rewrite Z.div_add by lia. rewrite (Z.div_small M) by lia. rewrite Z.add_0_l.
      destruct HS; subst S; [change (0 / 4503599627370496) with 0|change (9223372036854775808 / 4503599627370496) with 2048].
      + rewrite Z.add_0_l. apply Z.mod_small. lia.
      + replace (2048 + E) with (E + 1 * 2048) by lia. rewrite Z.mod_add by lia. apply Z.mod_small. lia.
    - replace (S + E * 4503599627370496 + M) with (M + (S / 4503599627370496 + E) * 4503599627370496)
        by (destruct HS; subst S; [change (0 / 4503599627370496) with 0|change (9223372036854775808 / 4503599627370496) with 2048]; lia).
      rewrite Z.mod_add by lia. apply Z.mod_small. lia.
    - destruct HS; subst S.
      + change (0 =? 9223372036854775808) with false. apply Z.leb_gt. lia.
      + rewrite Z.eqb_refl. apply Z.leb_le. lia. }
  destruct s; cbv iota; unfold two63.
  - destruct (Hbits 9223372036854775808 ltac:(right; reflexivity)) as (B1 & B2 & B3 & B4).
    rewrite B1, B2, B3, B4. rewrite ?Z.eqb_refl. change (0 =? 9223372036854775808) with false.
    destruct (Z.eqb_spec E 0) as [?|_]; [lia|]. destruct (Z.eqb_spec E 2047) as [?|_]; [lia|].
    unfold M. replace (Z.pos m - 4503599627370496 + 4503599627370496) with (Z.pos m) by lia.
    unfold E. f_equal. lia.
  - destruct (Hbits 0 ltac:(left; reflexivity)) as (B1 & B2 & B3 & B4).
    rewrite B1, B2, B3, B4. rewrite ?Z.eqb_refl. change (0 =? 9223372036854775808) with false.
    destruct (Z.eqb_spec E 0) as [?|_]; [lia|]. destruct (Z.eqb_spec E 2047) as [?|_]; [lia|].
    unfold M. replace (Z.pos m - 4503599627370496 + 4503599627370496) with (Z.pos m) by lia.
    unfold E. f_equal. lia.
Qed.

Lemma codec_zero : forall s, b2sf (sf2b (S754_zero s)) = S754_zero s.
Proof. destruct s; reflexivity. Qed.

(* decoding the float returned for an integer below 2^53 gives that integer back *)
Theorem int_encoding_round_trip : forall z s, Z.abs z < 2 ^ 53 ->
  sf_is_int (b2sf (sf2b (binary_normalize 53 1024 z 0 s))) z.
Proof.
  intros z s H. pose proof (normalize_int_exact z s H) as N.
  destruct (binary_normalize 53 1024 z 0 s) as [s'|s'| |s' m e]; try contradiction.
  - rewrite codec_zero. exact N.
  - destruct N as (A & B & C & D). rewrite codec_normal by (try assumption; lia). repeat split; assumption.
Qed.

Theorem floor_ceil_full : forall a s m e, b2sf a = S754_finite s m e ->
  (e < 0 ->
     (sf_floor_int s m e * 2 ^ (- e) <= signed_m s m < (sf_floor_int s m e + 1) * 2 ^ (- e) /\
      sf_is_int (b2sf (f_floor a)) (sf_floor_int s m e)) /\
     ((sf_ceil_int s m e - 1) * 2 ^ (- e) < signed_m s m <= sf_ceil_int s m e * 2 ^ (- e) /\
      sf_is_int (b2sf (f_ceil a)) (sf_ceil_int s m e))) /\
  (0 <= e -> f_floor a = a mod two64 /\ f_ceil a = a mod two64).
Proof.
  intros a s m e H. split.
  - intro He. pose proof (b2sf_finite_bound _ _ _ _ H) as Hb. destruct (floor_abs_le s m e He) as [F C].
    destruct (floor_ceil_encoding a s m e H He) as [[Ef _] [Ec _]].
    split; (split; [first [apply floor_bracket|apply ceil_bracket]; assumption|]).
    + rewrite Ef. apply int_encoding_round_trip. lia.
    + rewrite Ec. apply int_encoding_round_trip. lia.
  - intro He. unfold f_floor, f_ceil. rewrite H. destruct (Z.leb_spec 0 e); [split; reflexivity|lia].
Qed.
