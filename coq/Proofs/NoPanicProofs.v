(* Proofs/NoPanicProofs.v — C07: the repaired panic sites of Model/NoPanic.v never yield Panic; the pinned ones do. *)
From Octo Require Import NoPanic.

Lemma int_div_no_panic : forall a b, is_panic (int_div a b) = false.
Proof. intros. unfold int_div. destruct (b =? 0); reflexivity. Qed.
Lemma dur_div_no_panic : forall a b, is_panic (dur_div a b) = false.
Proof. intros. unfold dur_div. destruct (b =? 0); reflexivity. Qed.
Lemma repeat_no_panic : forall len count, is_panic (repeat_len len count) = false.
Proof. intros. unfold repeat_len. destruct (count <? 0); [reflexivity|]. destruct (max_int64 <? len * count); reflexivity. Qed.

Lemma go_slice_ok : forall len i j, 0 <= i -> i <= j -> j <= len -> go_slice len i j = Ok (i, j).
Proof.
  intros. unfold go_slice.
  replace (0 <=? i) with true by (symmetry; apply Z.leb_le; lia).
  replace (i <=? j) with true by (symmetry; apply Z.leb_le; lia).
  replace (j <=? len) with true by (symmetry; apply Z.leb_le; lia). reflexivity.
Qed.

Lemma substr2_no_panic : forall len start, is_panic (substr2 len start) = false.
Proof.
  intros. unfold substr2. destruct (start <? 0) eqn:E1; [reflexivity|].
  destruct (len <=? start) eqn:E2; [reflexivity|].
  apply Z.ltb_ge in E1. apply Z.leb_gt in E2. rewrite go_slice_ok by lia. reflexivity.
Qed.
Lemma substr3_no_panic : forall len start length, is_panic (substr3 len start length) = false.
Proof.
  intros. unfold substr3. destruct (start <? 0) eqn:E1; [reflexivity|].
  destruct (length <? 0) eqn:E2; [reflexivity|].
  destruct (len <=? start) eqn:E3; [reflexivity|].
  apply Z.ltb_ge in E1. apply Z.ltb_ge in E2. apply Z.leb_gt in E3.
  destruct (length <? len - start) eqn:E4.
  - apply Z.ltb_lt in E4. rewrite go_slice_ok by lia. reflexivity.
  - rewrite go_slice_ok by lia. reflexivity.
Qed.
(* the slice the repaired substr takes is the specified one: [start, min(start+length, len)) *)
Lemma substr3_result : forall len start length, 0 <= start -> 0 <= length -> start < len ->
  substr3 len start length = Ok (start, Z.min (start + length) len).
Proof.
  intros. unfold substr3.
  replace (start <? 0) with false by (symmetry; apply Z.ltb_ge; lia).
  replace (length <? 0) with false by (symmetry; apply Z.ltb_ge; lia).
  replace (len <=? start) with false by (symmetry; apply Z.leb_gt; lia).
  destruct (length <? len - start) eqn:E.
  - apply Z.ltb_lt in E. rewrite go_slice_ok by lia. f_equal. f_equal. lia.
  - apply Z.ltb_ge in E. rewrite go_slice_ok by lia. f_equal. f_equal. lia.
Qed.

Lemma list_index_no_panic : forall A (l : list A) i, is_panic (list_index l i) = false.
Proof.
  intros. unfold list_index.
  destruct (Z.of_nat (length l) <=? i) eqn:E1; [reflexivity|].
  destruct (i <? 0) eqn:E2; [reflexivity|]. simpl.
  apply Z.leb_gt in E1. apply Z.ltb_ge in E2.
  destruct (nth_error l (Z.to_nat i)) eqn:E3; [reflexivity|].
  apply nth_error_None in E3. lia.
Qed.

Lemma parse_aggregate_no_panic : forall args, is_panic (parse_aggregate args) = false.
Proof. intros [|[| |] rest]; reflexivity. Qed.

Lemma seq_outcomes_no_panic : forall A (l : list (outcome (list A))),
  Forall (fun o => is_panic o = false) l -> is_panic (seq_outcomes l) = false.
Proof.
  induction l as [|o l IH]; intros H; simpl; [reflexivity|].
  inversion H; subst. specialize (IH H3).
  destruct o; simpl in *; try reflexivity; try discriminate.
  destruct (seq_outcomes l); simpl in *; try reflexivity; discriminate.
Qed.

Lemma vars_used_no_panic : forall e, is_panic (vars_used e) = false.
Proof.
  fix IH 1. intros e.
  assert (Hl : forall args, Forall (fun o => is_panic o = false) (map vars_used args)).
  { induction args as [|a args IHa]; simpl; constructor; [apply IH | exact IHa]. }
  destruct e; simpl; try reflexivity; try apply IH; apply seq_outcomes_no_panic; apply Hl.
Qed.

Lemma csv_value_no_panic : forall v, is_panic (csv_value v) = false.
Proof. reflexivity. Qed.
Lemma round_down_no_panic : forall ns res, is_panic (round_down ns res) = false.
Proof. intros. unfold round_down. destruct (res =? 0); reflexivity. Qed.
Lemma truncate_no_panic : forall ns d, is_panic (truncate ns d) = false.
Proof. intros. unfold truncate. destruct (d <=? 0); reflexivity. Qed.

Lemma recover_no_panic : forall A (o : outcome A), is_panic (recover_typecheck o) = false.
Proof. intros A [a|e|s]; reflexivity. Qed.
Lemma tvf_typecheck_no_panic : forall args, is_panic (tvf_typecheck args) = false.
Proof. intros. apply recover_no_panic. Qed.

Lemma akind_eqb_eq : forall a b, akind_eqb a b = true -> a = b.
Proof. intros [| |] [| |]; simpl; congruence. Qed.

Lemma all_ok_read : forall args,
  forallb tvf_match args = true -> forallb tvf_consistent args = true ->
  all_ok (map tvf_read_one args) = Ok tt.
Proof.
  induction args as [|a args IH]; simpl; intros Hm Hc; [reflexivity|].
  apply andb_true_iff in Hm. destruct Hm as [Hm1 Hm2]. apply andb_true_iff in Hc. destruct Hc as [Hc1 Hc2].
  rewrite (IH Hm2 Hc2). unfold tvf_read_one, tvf_match, tvf_consistent in *.
  apply andb_true_iff in Hc1. destruct Hc1 as [Ha Hr].
  destruct (given a) as [k|]; [|reflexivity].
  apply akind_eqb_eq in Hm1. apply akind_eqb_eq in Hr. subst. rewrite Hr.
  destruct (read a); reflexivity.
Qed.

Lemma tvf_run_no_panic : forall args, forallb tvf_consistent args = true -> is_panic (tvf_run args) = false.
Proof.
  intros args Hc. unfold tvf_run, tvf_typecheck.
  destruct (forallb tvf_match args) eqn:Hm; [|reflexivity].
  destruct (all_ok (map tvf_assert_one args)) as [[]|e|s]; simpl; try reflexivity.
  rewrite (all_ok_read args Hm Hc). reflexivity.
Qed.

Lemma tvf_tables_consistent : forall a b c d,
  forallb tvf_consistent (tvf_range a b) = true /\ forallb tvf_consistent (tvf_max_diff a b c d) = true /\
  forallb tvf_consistent (tvf_tumble a b c d) = true /\ forallb tvf_consistent (tvf_poll a b) = true.
Proof. intros. repeat split; reflexivity. Qed.

Lemma limit_eval_no_panic : forall cols e, is_panic (limit_eval cols e) = false.
Proof. intros cols [[|v vs] b]; simpl; [destruct b|]; reflexivity. Qed.
(* and a limit that is accepted is a constant Int *)
Lemma limit_eval_ok : forall cols e b, limit_eval cols e = Ok b -> lvars e = [] /\ lint e = true.
Proof. intros cols [[|v vs] i] b; simpl; [destruct i|]; intros H; try discriminate. split; reflexivity. Qed.

Lemma get_value_no_panic : forall v t, is_panic (get_value false t v) = false.
Proof.
  fix IH 1. intros v t. destruct v as [l|]; destruct t as [[et|]|]; simpl; try reflexivity.
  - induction l as [|x rest IHl]; [reflexivity|].
    specialize (IH x et). destruct (get_value false et x); simpl in *; try reflexivity; try discriminate.
    match goal with |- is_panic (obind ?g _) = false => destruct g end; simpl in *; try reflexivity; discriminate.
  - destruct l; reflexivity.
Qed.

Lemma join_retract_no_panic : forall times, is_panic (join_retract times) = false.
Proof. intros [|t r]; reflexivity. Qed.
Lemma join_row_history_no_panic : forall ops times, is_panic (join_row_history false times ops) = false.
Proof.
  induction ops as [|[|] ops IH]; intros times; simpl; [reflexivity| |apply IH].
  destruct times; simpl; apply IH.
Qed.
(* the pinned join panics exactly when some prefix of the row's history has more retractions than insertions *)
Fixpoint balance_ok (n : nat) (ops : list bool) : bool :=
  match ops with
  | [] => true
  | false :: rest => balance_ok (S n) rest
  | true :: rest => match n with O => false | S n' => balance_ok n' rest end
  end.
Lemma join_row_history_pinned_spec : forall ops times,
  is_panic (join_row_history true times ops) = negb (balance_ok (length times) ops).
Proof.
  induction ops as [|[|] ops IH]; intros times; simpl.
  - reflexivity.
  - destruct times as [|t r]; simpl; [reflexivity | apply IH].
  - rewrite IH. rewrite app_length. simpl. rewrite Nat.add_1_r. reflexivity.
Qed.

Lemma coalesce_mapping_no_panic : forall n l, is_panic (coalesce_mapping n l) = false.
Proof. intros. unfold coalesce_mapping. destruct (forallb _ l); reflexivity. Qed.
Lemma repeat_alloc_no_panic : forall mem len count, is_panic (repeat_alloc mem len count) = false.
Proof.
  intros. unfold repeat_alloc. pose proof (repeat_no_panic len count) as H.
  destruct (repeat_len len count); simpl in *; try reflexivity; try discriminate. destruct (mem <? a); reflexivity.
Qed.

Lemma later_pinned_sites_panic :
  limit_eval_pinned [1; 2] (mklim [2] true) = Panic site_limit_no_record /\
  get_value true (JList None) (JArr [JScalar]) = Panic site_json_nil_element /\
  get_value true (JList (Some (JList None))) (JArr [JArr []; JArr [JScalar]]) = Panic site_json_nil_element /\
  join_row_history true [] [false; true; true] = Panic site_join_retraction /\
  coalesce_mapping_pinned 3%nat [2%nat; 3%nat] = Panic site_coalesce_tuple /\
  repeat_alloc_pinned 281474976710656 1 9223372036854775807 = Panic site_repeat_memory.
Proof. vm_compute. repeat split; reflexivity. Qed.

(* ---- pinned sites: each one panics on some input ---- *)
Lemma pinned_sites_panic :
  int_div_pinned 1 0 = Panic site_int_div /\
  dur_div_pinned 1000000000 0 = Panic site_dur_div /\
  repeat_pinned 1 (-1) = Panic site_repeat /\
  substr2_pinned 3 (-1) = Panic site_slice /\
  substr3_pinned 3 1 (-2) = Panic site_slice /\
  list_index_pinned [VInt 1] (-1) = Panic site_list_index /\
  parse_aggregate_pinned [] = Panic site_count_no_arg /\
  vars_used_pinned (XCall [XVar 1; XTuple [XConst; XConst]]) = Panic site_variables_used /\
  csv_value_pinned (VList [VInt 1]) = Panic site_csv_value /\
  round_down_pinned 5 0 = Panic site_resolution_zero /\
  tvf_run (tvf_poll_pinned (Some KTable) (Some KDesc)) = Panic site_poll_nil.
Proof. vm_compute. repeat split; reflexivity. Qed.
