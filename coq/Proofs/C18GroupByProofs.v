(* Proofs/C18GroupByProofs.v — C18's watermark clause on the group-by model of C16/C17 (Model/GroupBy.v, read
   only): whatever the aggregates, triggers and key layout, the node forwards exactly the watermarks it
   receives, in order — so they never go backwards when the input's do not. *)
From Octo Require Import GroupBy ChangelogLemmas.
From Octo Require Buffer BufferProofs.

Section Any.
  Variable ST : Type.
  Variable rinit : ST.
  Variable radd : bool -> list value -> ST -> ST.
  Variable rout : ST -> list value.
  Variable wl : wkey -> wkey -> bool.
  Variable nk : nat.
  Variable kti : option nat.

  Notation emit_key := (emit_key ST rout kti).
  Notation emit_keys := (emit_keys ST rout kti).
  Notation ctg_step := (ctg_step ST rinit radd rout wl nk kti).
  Notation ctg_run_from := (ctg_run_from ST rinit radd rout wl nk kti).

  Lemma emit_key_no_wm aggs cur sent k : watermarks (snd (emit_key aggs cur sent k)) = [].
  Proof.
    unfold GroupBy.emit_key. destruct (m_get slices_less k sent); destruct (out_row ST rout aggs k); cbn [snd];
      rewrite ?watermarks_app; reflexivity.
  Qed.

  Lemma emit_keys_no_wm aggs cur : forall ks sent, watermarks (snd (emit_keys aggs cur sent ks)) = [].
  Proof.
    induction ks as [|k ks IH]; intro sent; cbn [GroupBy.emit_keys]; [reflexivity|].
    pose proof (emit_key_no_wm aggs cur sent k) as H. destruct (emit_key aggs cur sent k) as [s1 o1]. cbn [snd] in H.
    specialize (IH s1). destruct (emit_keys aggs cur s1 ks) as [s2 o2]. cbn [snd] in *.
    rewrite watermarks_app, H, IH. reflexivity.
  Qed.

  Lemma ctg_step_wms s e : watermarks (snd (ctg_step s e)) = watermarks [e].
  Proof.
    destruct s as [[aggs sent] ts]. destruct e as [r|w]; cbn [GroupBy.ctg_step].
    - destruct (mt_poll wl (mt_key wl (keyf nk r) ts)) as [ks ts'].
      pose proof (emit_keys_no_wm (aggs_upd ST rinit radd nk r aggs) (et r) ks sent) as H.
      destruct (emit_keys (aggs_upd ST rinit radd nk r aggs) (et r) sent ks) as [sent' o]. cbn [snd] in *. exact H.
    - destruct (mt_poll wl (mt_wm w ts)) as [ks ts'].
      pose proof (emit_keys_no_wm aggs w ks sent) as H.
      destruct (emit_keys aggs w sent ks) as [sent' o]. cbn [snd] in *. rewrite watermarks_app, H. reflexivity.
  Qed.

  Lemma ctg_run_from_wms : forall es s, watermarks (snd (ctg_run_from s es)) = watermarks es.
  Proof.
    induction es as [|e es IH]; intro s; cbn [GroupBy.ctg_run_from]; [reflexivity|].
    pose proof (ctg_step_wms s e) as H. destruct (ctg_step s e) as [s1 o1]. cbn [snd] in H.
    specialize (IH s1). destruct (ctg_run_from s1 es) as [s2 o2]. cbn [snd] in *.
    rewrite watermarks_app, H, IH. change (e :: es) with ([e] ++ es). rewrite watermarks_app. reflexivity.
  Qed.

  Lemma ctg_run_wms trigs es : watermarks (ctg_run ST rinit radd rout wl nk kti trigs es) = watermarks es.
  Proof.
    unfold ctg_run. pose proof (ctg_run_from_wms es (ctg_init ST kti trigs)) as H.
    destruct (ctg_run_from (ctg_init ST kti trigs) es) as [s o]. cbn [snd] in H.
    rewrite watermarks_app, H. unfold ctg_finish. destruct s as [[aggs sent] ts].
    destruct (mt_poll wl (mt_eos ts)) as [ks ts'].
    pose proof (emit_keys_no_wm aggs max_wm ks sent) as F. destruct (emit_keys aggs max_wm sent ks) as [sent' o']. cbn [snd] in *.
    rewrite F, app_nil_r. reflexivity.
  Qed.
End Any.

(* the EventTimeBuffer in front of the custom-trigger group-by (C16's copy of the model) forwards every watermark *)
Lemma gb_buf_emit_recs w : forall b, watermarks (map Rec (fst (buf_emit w b))) = [].
Proof. intro b. apply watermarks_map_Rec. Qed.

Lemma gb_etb_run_from_wms : forall es b, watermarks (snd (etb_run_from b es)) = watermarks es.
Proof.
  induction es as [|e es IH]; intro b; cbn [etb_run_from]; [reflexivity|].
  destruct (etb_step b e) as [b1 o1] eqn:E1. specialize (IH b1). destruct (etb_run_from b1 es) as [b2 o2]. cbn [snd] in *.
  rewrite watermarks_app, IH. change (e :: es) with ([e] ++ es). rewrite watermarks_app. f_equal.
  destruct e as [r|w]; cbn [etb_step] in E1.
  - destruct (et r =? zero_ns); inversion E1; reflexivity.
  - destruct (buf_emit w b) as [o b']. inversion E1. rewrite watermarks_app, watermarks_map_Rec. reflexivity.
Qed.

Lemma gb_etb_run_finish_wms es : watermarks (etb_run_finish es) = watermarks es.
Proof.
  unfold etb_run_finish. pose proof (gb_etb_run_from_wms es []) as H. destruct (etb_run_from [] es) as [b o]. cbn [snd] in H.
  rewrite watermarks_app, H, watermarks_map_Rec, app_nil_r. reflexivity.
Qed.

Lemma sgb_run_wms ST rinit radd rout nk es : watermarks (sgb_run ST rinit radd rout nk es) = watermarks es.
Proof.
  unfold sgb_run. rewrite watermarks_app.
  assert (A : forall l, watermarks (map WM l) = l) by (induction l as [|x l IH]; [reflexivity|cbn; f_equal; exact IH]).
  rewrite A.
  assert (B : forall (l : list (gkey * (ST * Z))), watermarks (map (fun e => Rec (mkrec (fst e ++ rout (fst (snd e))) false zero_ns)) l) = []).
  { induction l as [|x l IH]; [reflexivity|exact IH]. }
  rewrite B, app_nil_r. reflexivity.
Qed.

(* both group-by nodes, every configuration *)
Theorem group_by_watermarks ST rinit radd rout wl nk kti trigs es :
  watermarks (gb_run ST rinit radd rout wl nk kti trigs es) = watermarks es.
Proof.
  unfold gb_run. destruct (is_simple trigs); [apply sgb_run_wms|].
  rewrite ctg_run_wms. apply gb_etb_run_finish_wms.
Qed.

Theorem group_by_monotone ST rinit radd rout wl nk kti trigs es :
  Buffer.monotone es = true -> Buffer.monotone (gb_run ST rinit radd rout wl nk kti trigs es) = true.
Proof.
  unfold Buffer.monotone. rewrite !BufferProofs.monotone_via_watermarks, group_by_watermarks. auto.
Qed.

Theorem run_group_by_monotone c es out :
  run_group_by c es = Ok out -> Buffer.monotone es = true -> Buffer.monotone out = true.
Proof.
  unfold run_group_by, gb_run_with. destruct (cfg_ok c); [|discriminate]. intros H. inversion H. apply group_by_monotone.
Qed.
