(* Proofs/ExprTcProofs.v — C08: a locally well-typed physical expression (pwt) evaluates, on a conforming
   variable context, to a value its static type allows (or fails); the typechecker model tc produces locally
   well-typed expressions. *)
From Octo Require Import Expr ExprProofs ExprTc.

(* ---------- induction principle for the nested inductive pexpr ---------- *)
Section PexprInd.
  Variable P : pexpr -> Prop.
  Hypothesis HConst : forall t v, P (PConst t v).
  Hypothesis HVar : forall t l i, P (PVar t l i).
  Hypothesis HCall : forall t d args, Forall P args -> P (PCall t d args).
  Hypothesis HAnd : forall t args, Forall P args -> P (PAnd t args).
  Hypothesis HOr : forall t args, Forall P args -> P (POr t args).
  Hypothesis HCoalesce : forall t args, Forall P args -> P (PCoalesce t args).
  Hypothesis HAssert : forall t g a, P a -> P (PAssert t g a).
  Hypothesis HCast : forall t g a, P a -> P (PCast t g a).

  Fixpoint pexpr_ind' (e : pexpr) : P e :=
    let go := fix go (l : list pexpr) : Forall P l :=
      match l with
      | [] => Forall_nil P
      | x :: xs => Forall_cons x (pexpr_ind' x) (go xs)
      end in
    match e with
    | PConst t v => HConst t v
    | PVar t l i => HVar t l i
    | PCall t d args => HCall t d args (go args)
    | PAnd t args => HAnd t args (go args)
    | POr t args => HOr t args (go args)
    | PCoalesce t args => HCoalesce t args (go args)
    | PAssert t g a => HAssert t g a (pexpr_ind' a)
    | PCast t g a => HCast t g a (pexpr_ind' a)
    end.
End PexprInd.

(* ---------- kinds ---------- *)
Lemma has_type_kind v t : has_type v t = has_kind (tid v) t.
Proof. destruct t; reflexivity. Qed.

Lemma kmem_true k ks : kmem k ks = true <-> In k ks.
Proof.
  unfold kmem. rewrite existsb_exists. split.
  - intros [x [Hin He]]. apply Z.eqb_eq in He. subst. assumption.
  - intros H. exists k. split; [assumption|apply Z.eqb_refl].
Qed.

Lemma ksubset_mem a b k : ksubset a b = true -> kmem k a = true -> kmem k b = true.
Proof.
  unfold ksubset. rewrite forallb_forall. intros H Hk. apply kmem_true in Hk. apply H. assumption.
Qed.

Lemma sty_sub_kind a t k : sty_sub a t = true -> has_kind k a = true -> has_kind k t = true.
Proof.
  unfold sty_sub, is_rel. destruct t as [|o]; [reflexivity|]. destruct a as [|ks]; [discriminate|].
  destruct (ksubset ks o) eqn:S; [|destruct (kmeets ks o); discriminate].
  intros _. simpl. apply ksubset_mem. assumption.
Qed.

Lemma sty_sub_type a t v : sty_sub a t = true -> has_type v a = true -> has_type v t = true.
Proof. rewrite !has_type_kind. apply sty_sub_kind. Qed.

Lemma kinds_in_mem ks t k : kinds_in ks t = true -> kmem k ks = true -> has_kind k t = true.
Proof.
  unfold kinds_in. rewrite forallb_forall. intros H Hk. apply kmem_true in Hk. apply H. assumption.
Qed.

Lemma has_kind_null_allows t : has_kind K_NULL t = allows_null t.
Proof.
  destruct t as [|ks]; [reflexivity|]. unfold allows_null, is_rel, ksubset, kmeets, has_kind. simpl.
  destruct (kmem K_NULL ks) eqn:E; simpl; reflexivity.
Qed.

Lemma null_value v : is_null v = true -> v = VNull.
Proof. destruct v; try discriminate; reflexivity. Qed.

Lemma tid_null v : tid v = K_NULL -> v = VNull.
Proof. destruct v; try discriminate; reflexivity. Qed.

(* ---------- bodies ---------- *)
Lemma arg1_ok vs k v : arg1 vs k = Ok v -> exists x rest, vs = x :: rest /\ k x = Ok v.
Proof. destruct vs as [|x rest]; simpl; [discriminate|]. intros H. exists x, rest. split; [reflexivity|exact H]. Qed.
Lemma arg2_ok vs k v : arg2 vs k = Ok v -> exists x y rest, vs = x :: y :: rest /\ k x y = Ok v.
Proof.
  destruct vs as [|x [|y rest]]; simpl; try discriminate. intros H. exists x, y, rest. split; [reflexivity|exact H].
Qed.

Lemma body_kinds_sound b ks vs v :
  body_result_kinds b = Some ks -> apply_body b vs = Ok v -> kmem (tid v) ks = true.
Proof.
  intros Hk Ha.
  destruct b; simpl in Hk; inversion Hk; subst; clear Hk; simpl in Ha;
    first [ apply arg2_ok in Ha; destruct Ha as [x [y [rest [-> Ha]]]]
          | apply arg1_ok in Ha; destruct Ha as [x [rest [-> Ha]]]
          | discriminate Ha
          | idtac ];
    try (inversion Ha; subst; reflexivity).
  - (* / Int *) destruct (vint y =? 0); try discriminate Ha; inversion Ha; subst; reflexivity.
  - (* abs *) destruct (vint x >? 0) eqn:E.
    + inversion Ha; subst. destruct v; simpl in E; try discriminate E; reflexivity.
    + inversion Ha; subst; reflexivity.
  - (* / Duration Int *) destruct (vint y =? 0); try discriminate Ha; inversion Ha; subst; reflexivity.
  - (* int(String) *) destruct (parse_int (vstr x)); inversion Ha; subst; reflexivity.
  - (* abstract body: the wrapper enforces the kinds *)
    destruct (Nat.ltb (length vs) nargs); [discriminate Ha|].
    destruct (f vs) as [r| |]; try discriminate Ha. match type of Ha with context [if ?c then _ else _] => destruct c eqn:K end; [|discriminate Ha].
    inversion Ha; subst. exact K.
Qed.

Lemma body_args_needed b vs v : apply_body b vs = Ok v -> (body_min_args b <= length vs)%nat.
Proof.
  intros Ha. destruct b; simpl in Ha;
    first [ apply arg2_ok in Ha; destruct Ha as [x [y [rest [-> Ha]]]]; simpl; lia
          | apply arg1_ok in Ha; destruct Ha as [x [rest [-> Ha]]]; simpl; lia
          | discriminate Ha
          | simpl; destruct (Nat.ltb (length vs) nargs) eqn:Q; [discriminate Ha|apply Nat.ltb_ge in Q; exact Q] ].
Qed.

Lemma body_ident_sound b vs v :
  body_result_kinds b = None -> apply_body b vs = Ok v -> exists rest, vs = v :: rest.
Proof.
  intros Hk Ha. destruct b; simpl in Hk; try discriminate Hk; simpl in Ha;
    apply arg1_ok in Ha; destruct Ha as [x [rest [-> Ha]]]; inversion Ha; subst; eexists; reflexivity.
Qed.

(* ---------- AND / OR ---------- *)
Lemma and_loop_typed ev l nullable : forall ne r,
  (forall x v, In x l -> ev x = Ok v -> is_tv v = true /\ (is_null v = true -> nullable = true)) ->
  and_loop ev l ne = Ok r ->
  is_tv r = true /\ (is_null r = true -> ne = true \/ nullable = true).
Proof.
  induction l as [|x xs IH]; simpl; intros ne r H Hr.
  - inversion Hr; subst. destruct ne; simpl; split; auto; discriminate.
  - destruct (ev x) as [v| |] eqn:Ex; try discriminate Hr. simpl in Hr.
    destruct (H x v (or_introl eq_refl) Ex) as [Htv Hn].
    assert (H' : forall x0 v0, In x0 xs -> ev x0 = Ok v0 -> is_tv v0 = true /\ (is_null v0 = true -> nullable = true))
      by (intros x0 v0 Hi He; apply (H x0 v0); [right; exact Hi|exact He]).
    destruct (is_null v) eqn:Nv.
    + destruct (IH true r H' Hr) as [A B]. split; [assumption|]. intros. right. apply Hn. reflexivity.
    + destruct (negb (vboolean v)) eqn:Bv.
      * inversion Hr; subst. split; [assumption|]. intros C. rewrite C in Nv. discriminate.
      * apply (IH ne r H' Hr).
Qed.

Lemma or_loop_typed ev l nullable : forall ne r,
  (forall x v, In x l -> ev x = Ok v -> is_tv v = true /\ (is_null v = true -> nullable = true)) ->
  or_loop ev l ne = Ok r ->
  is_tv r = true /\ (is_null r = true -> ne = true \/ nullable = true).
Proof.
  induction l as [|x xs IH]; simpl; intros ne r H Hr.
  - inversion Hr; subst. destruct ne; simpl; split; auto; discriminate.
  - destruct (ev x) as [v| |] eqn:Ex; try discriminate Hr. simpl in Hr.
    destruct (H x v (or_introl eq_refl) Ex) as [Htv Hn].
    assert (H' : forall x0 v0, In x0 xs -> ev x0 = Ok v0 -> is_tv v0 = true /\ (is_null v0 = true -> nullable = true))
      by (intros x0 v0 Hi He; apply (H x0 v0); [right; exact Hi|exact He]).
    destruct (vboolean v) eqn:Bv.
    + inversion Hr; subst. split; [assumption|]. intros C. destruct r; try discriminate C. discriminate Bv.
    + destruct (is_null v) eqn:Nv.
      * destruct (IH true r H' Hr) as [A B]. split; [assumption|]. intros. right. apply Hn. reflexivity.
      * apply (IH ne r H' Hr).
Qed.

Lemma is_tv_bool_null v t : is_tv v = true -> has_kind K_BOOL t = true ->
  (is_null v = true -> has_kind K_NULL t = true) -> has_type v t = true.
Proof.
  rewrite has_type_kind. destruct v; try discriminate; simpl; intros _ Hb Hn.
  - apply Hn. reflexivity.
  - exact Hb.
Qed.

Lemma has_type_bool_null_tv v : has_type v bool_null = true -> is_tv v = true.
Proof. destruct v; simpl; try discriminate; try reflexivity. destruct b; reflexivity. Qed.

(* ---------- COALESCE ---------- *)
Lemma fix_layout_same v r : fix_layout_scalar v = Ok r -> r = v.
Proof. destruct v; simpl; try (intros H; inversion H; reflexivity); destruct l; intros H; inversion H; reflexivity. Qed.

Lemma coalesce_loop_result ev l r :
  coalesce_loop ev l = Ok r ->
  (is_null r = false -> exists x, In x l /\ ev x = Ok r) /\
  (is_null r = true -> forall x, In x l -> ev x = Ok VNull).
Proof.
  induction l as [|x xs IH]; simpl; intros Hr.
  - inversion Hr; subst. split; [discriminate|]. intros _ x [].
  - destruct (ev x) as [v| |] eqn:Ex; try discriminate Hr. simpl in Hr.
    destruct (is_null v) eqn:Nv; simpl in Hr.
    + destruct (IH Hr) as [A B]. split.
      * intros N. destruct (A N) as [y [Hy Ey]]. exists y. split; [right; assumption|assumption].
      * intros N y [->|Hy]; [rewrite Ex; f_equal; apply null_value; assumption | apply B; assumption].
    + apply fix_layout_same in Hr. subst r. split.
      * intros _. exists x. split; [left; reflexivity|assumption].
      * intros N. rewrite N in Nv. discriminate.
Qed.

(* ---------- calls ---------- *)
Lemma null_check_true_allows : forall tys vs k,
  null_check vs (null_indices_from k tys) = Ok true -> existsb allows_null tys = true.
Proof.
  induction tys as [|t tys IH]; simpl; intros vs k H; [discriminate H|].
  destruct (allows_null t) eqn:A; [reflexivity|]. simpl. eapply IH; eassumption.
Qed.

Lemma evals_forall ev l vs :
  evals ev l = Ok vs -> Forall2 (fun x v => ev x = Ok v) l vs.
Proof.
  revert vs. induction l as [|x xs IH]; simpl; intros vs H.
  - inversion H; constructor.
  - destruct (ev x) as [v| |] eqn:Ex; try discriminate H. simpl in H.
    destruct (evals ev xs) as [vs'| |] eqn:Exs; try discriminate H. simpl in H. inversion H; subst.
    constructor; [assumption|apply IH; reflexivity].
Qed.

Lemma existsb_map' {A B} (f : A -> B) (p : B -> bool) l : existsb p (map f l) = existsb (fun x => p (f x)) l.
Proof. induction l; simpl; [reflexivity|rewrite IHl; reflexivity]. Qed.

(* ---------- the soundness theorem ---------- *)
Lemma row_conforms_nth : forall row env i t v,
  row_conforms row env = true -> nth_error env i = Some t -> nth_error row i = Some v -> has_type v t = true.
Proof.
  induction row as [|x xs IH]; intros env i t v H Ht Hv.
  - destruct i; discriminate Hv.
  - destruct env as [|t0 ts]; [discriminate H|]. simpl in H. apply andb_prop in H. destruct H as [H0 H1].
    destruct i; simpl in *.
    + inversion Ht; inversion Hv; subst. assumption.
    + eapply IH; eassumption.
Qed.

Definition sound (orc : oracle) (ctx : vctx) (e : pexpr) : Prop :=
  forall v, peval orc ctx e = Ok v -> has_type v (ptype e) = true.

Lemma Forall_sound_args orc env ctx args :
  Forall (fun e => pwt env e = true -> sound orc ctx e) args -> forallb (pwt env) args = true ->
  forall a, In a args -> sound orc ctx a.
Proof.
  intros F W a Hin. rewrite Forall_forall in F. rewrite forallb_forall in W. apply F; [assumption|apply W; assumption].
Qed.

Theorem pwt_sound orc env ctx : ctx_conforms ctx env = true -> forall e, pwt env e = true -> sound orc ctx e.
Proof.
  intros Hctx. induction e as [t cv|t l i|t d args H|t args H|t args H|t args H|t g e IHe|t g e IHe] using pexpr_ind'; intros W v Hv; unfold peval in Hv; simpl in *.
  - (* const *) inversion Hv; subst. assumption.
  - (* var *)
    apply andb_prop in W. destruct W as [Wl Wt]. apply Nat.eqb_eq in Wl. subst l.
    destruct (nth_error env i) as [t'|] eqn:Et; [|discriminate Wt].
    unfold lookup_var in Hv. destruct ctx as [|frame rest]; [discriminate Hctx|]. simpl in Hv, Hctx.
    destruct (nth_error frame i) as [x|] eqn:Ex; [|discriminate Hv]. inversion Hv; subst.
    eapply sty_sub_type; [eassumption|]. eapply row_conforms_nth; eassumption.
  - (* call *)
    apply andb_prop in W. destruct W as [Wargs Wout].
    pose proof (Forall_sound_args orc env ctx args H Wargs) as Hs.
    destruct (evals (eval ctx) (map (materialize orc) args)) as [vs| |] eqn:Ev; try discriminate Hv. simpl in Hv.
    destruct (null_check vs (null_check_indices d (map ptype args))) as [hit| |] eqn:Nc; try discriminate Hv.
    simpl in Hv. unfold call_out_ok in Wout. apply andb_prop in Wout. destruct Wout as [Wnull Wk].
    destruct hit.
    + (* null check fired *)
      inversion Hv; subst. rewrite has_type_kind. simpl.
      unfold null_check_indices in Nc. destruct (fd_strict d); [|discriminate Nc].
      apply null_check_true_allows in Nc. rewrite existsb_map' in Nc. simpl in Wnull. rewrite Nc in Wnull. exact Wnull.
    + destruct (apply_body (body_of orc d) vs) as [r|e|p] eqn:Ab; try discriminate Hv.
      2:{ destruct (e =? E_NOT_MODELLED); discriminate Hv. }
      inversion Hv; subst r. rewrite has_type_kind.
      apply orb_prop in Wk. destruct Wk as [Wshort|Wk].
      { exfalso. apply Nat.ltb_lt in Wshort. pose proof (body_args_needed _ _ _ Ab) as Hn. rewrite body_min_args_orc in Hn.
        apply evals_map_ok in Ev. rewrite map_length in Ev. lia. }
      destruct (body_result_kinds (body_of no_oracle d)) as [ks|] eqn:Bk; rewrite <- (body_kinds_orc orc) in Bk.
      * eapply kinds_in_mem; [eassumption|]. eapply body_kinds_sound; eassumption.
      * destruct (body_ident_sound _ _ _ Bk Ab) as [rest Evs]. subst vs.
        destruct args as [|a args']; [discriminate Ev|]. simpl in Ev.
        destruct (eval ctx (materialize orc a)) as [x| |] eqn:Ea; try discriminate Ev. simpl in Ev.
        destruct (evals (eval ctx) (map (materialize orc) args')) as [vs'| |]; try discriminate Ev. simpl in Ev.
        inversion Ev; subst x vs'. clear Ev.
        assert (Ha : has_type v (ptype a) = true) by (apply (Hs a (or_introl eq_refl)); exact Ea).
        destruct (ptype a) as [|ks] eqn:Pa.
        -- destruct t; [reflexivity|discriminate Wk].
        -- simpl in Ha. eapply kinds_in_mem; [eassumption|].
           destruct (fd_strict d) eqn:Sd; [|exact Ha].
           apply kmem_true. apply filter_In. split; [apply kmem_true; exact Ha|].
           (* a strict call whose first argument allows NULL checks it *)
           destruct (tid v =? K_NULL) eqn:Tn; [|reflexivity]. exfalso.
           apply Z.eqb_eq in Tn. apply tid_null in Tn. subst v.
           unfold null_check_indices in Nc. rewrite Sd in Nc. simpl in Nc. rewrite Pa in Nc.
           assert (A : allows_null (STSet ks) = true) by (rewrite <- has_kind_null_allows; exact Ha).
           rewrite A in Nc. simpl in Nc. discriminate Nc.
  - (* and *)
    apply andb_prop in W. destruct W as [W Wn]. apply andb_prop in W. destruct W as [W Wb].
    apply andb_prop in W. destruct W as [Wargs Wsub].
    pose proof (Forall_sound_args orc env ctx args H Wargs) as Hs.
    set (nullable := existsb (fun a => allows_null (ptype a)) args) in *.
    destruct (and_loop_typed (eval ctx) (map (materialize orc) args) nullable false v) as [A B]; [|exact Hv|].
    + intros x r Hin Er. apply in_map_iff in Hin. destruct Hin as [a [<- Hin]].
      pose proof (Hs a Hin r Er) as Ht. rewrite forallb_forall in Wsub.
      pose proof (sty_sub_type _ _ r (Wsub a Hin) Ht) as Hb. split; [apply has_type_bool_null_tv; exact Hb|].
      intros N. apply null_value in N. subst r. unfold nullable. apply existsb_exists. exists a. split; [exact Hin|].
      rewrite <- has_kind_null_allows. rewrite has_type_kind in Ht. exact Ht.
    + apply is_tv_bool_null; [exact A|exact Wb|]. intros N. destruct (B N) as [C|C]; [discriminate C|].
      rewrite C in Wn. exact Wn.
  - (* or *)
    apply andb_prop in W. destruct W as [W Wn]. apply andb_prop in W. destruct W as [W Wb].
    apply andb_prop in W. destruct W as [Wargs Wsub].
    pose proof (Forall_sound_args orc env ctx args H Wargs) as Hs.
    set (nullable := existsb (fun a => allows_null (ptype a)) args) in *.
    destruct (or_loop_typed (eval ctx) (map (materialize orc) args) nullable false v) as [A B]; [|exact Hv|].
    + intros x r Hin Er. apply in_map_iff in Hin. destruct Hin as [a [<- Hin]].
      pose proof (Hs a Hin r Er) as Ht. rewrite forallb_forall in Wsub.
      pose proof (sty_sub_type _ _ r (Wsub a Hin) Ht) as Hb. split; [apply has_type_bool_null_tv; exact Hb|].
      intros N. apply null_value in N. subst r. unfold nullable. apply existsb_exists. exists a. split; [exact Hin|].
      rewrite <- has_kind_null_allows. rewrite has_type_kind in Ht. exact Ht.
    + apply is_tv_bool_null; [exact A|exact Wb|]. intros N. destruct (B N) as [C|C]; [discriminate C|].
      rewrite C in Wn. exact Wn.
  - (* coalesce *)
    apply andb_prop in W. destruct W as [W Wn]. apply andb_prop in W. destruct W as [Wargs Wsub].
    pose proof (Forall_sound_args orc env ctx args H Wargs) as Hs.
    destruct (coalesce_loop_result _ _ _ Hv) as [A B]. rewrite forallb_forall in Wsub.
    destruct (is_null v) eqn:N.
    + apply null_value in N. subst v. rewrite has_type_kind. simpl.
      apply orb_prop in Wn. destruct Wn as [Wn|Wn]; [exact Wn|]. exfalso.
      apply existsb_exists in Wn. destruct Wn as [a [Hin Hna]].
      assert (Ea : peval orc ctx a = Ok VNull) by (apply (B eq_refl); apply in_map; exact Hin).
      pose proof (Hs a Hin VNull Ea) as Ht. rewrite has_type_kind in Ht. simpl in Ht.
      rewrite has_kind_null_allows in Ht. rewrite Ht in Hna. discriminate Hna.
    + destruct (A eq_refl) as [x [Hin Ex]]. apply in_map_iff in Hin. destruct Hin as [a [<- Hin]].
      eapply sty_sub_type; [apply Wsub; exact Hin|]. apply (Hs a Hin). exact Ex.
  - (* assert *)
    apply andb_prop in W. destruct W as [Wa Ws].
    destruct (eval ctx (materialize orc e)) as [x| |] eqn:Ee; try discriminate Hv. simpl in Hv.
    destruct (kmem (tid x) (expected_ids g)) eqn:M; [|discriminate Hv]. inversion Hv; subst x.
    pose proof (IHe Wa v Ee) as Ht. rewrite has_type_kind in *. unfold assert_sub in Ws.
    destruct (ptype e) as [|ks].
    + eapply kinds_in_mem; eassumption.
    + eapply kinds_in_mem; [eassumption|]. apply kmem_true. unfold kinter. apply filter_In.
      split; [apply kmem_true; exact Ht|exact M].
  - (* cast *)
    apply andb_prop in W. destruct W as [W Wid]. apply andb_prop in W. destruct W as [Wa Wn].
    destruct (eval ctx (materialize orc e)) as [x| |] eqn:Ee; try discriminate Hv. simpl in Hv.
    destruct (negb (tid x =? g)) eqn:Tg; inversion Hv; subst; rewrite has_type_kind.
    + exact Wn.
    + apply negb_false_iff in Tg. apply Z.eqb_eq in Tg. rewrite Tg. exact Wid.
Qed.

(* ---------- TypeSum is an upper bound (on kind sets) ---------- *)
Lemma type_sum_upper_l t1 t2 k : has_kind k t1 = true -> has_kind k (type_sum t1 t2) = true.
Proof.
  intros H. unfold type_sum.
  destruct (trel_eqb (is_rel t1 t2) Is) eqn:E1; [eapply sty_sub_kind; [exact E1|exact H]|].
  destruct (trel_eqb (is_rel t2 t1) Is) eqn:E2; [exact H|].
  destruct t1 as [|a]; destruct t2 as [|b]; try reflexivity.
  simpl in *. apply kmem_true. apply kmem_true in H. unfold kunion. apply in_or_app. left. exact H.
Qed.

Lemma type_sum_upper_r t1 t2 k : has_kind k t2 = true -> has_kind k (type_sum t1 t2) = true.
Proof.
  intros H. unfold type_sum.
  destruct (trel_eqb (is_rel t1 t2) Is) eqn:E1; [exact H|].
  destruct (trel_eqb (is_rel t2 t1) Is) eqn:E2; [eapply sty_sub_kind; [exact E2|exact H]|].
  destruct t1 as [|a]; destruct t2 as [|b]; try reflexivity.
  simpl in *. apply kmem_true. apply kmem_true in H. unfold kunion. apply in_or_app.
  destruct (kmem k a) eqn:Ka; [left; apply kmem_true; exact Ka|].
  right. apply filter_In. split; [exact H|]. rewrite Ka. reflexivity.
Qed.

Lemma nullable_wrap_upper d args t k : has_kind k t = true -> has_kind k (nullable_wrap d args t) = true.
Proof. intros H. unfold nullable_wrap. destruct (_ && _); [apply type_sum_upper_l; exact H|exact H]. Qed.

Lemma kinds_in_upper ks t t' :
  (forall k, has_kind k t = true -> has_kind k t' = true) -> kinds_in ks t = true -> kinds_in ks t' = true.
Proof. unfold kinds_in. rewrite !forallb_forall. intros U H k Hk. apply U. apply H. exact Hk. Qed.

(* ---------- a call typed the way FunctionExpression.Typecheck types it ---------- *)
(* the declared OutputType with the nullable wrap allows everything the (modelled, fixed-kind) body returns
   and the NULL a null check produces *)
Lemma call_typed_ok d args ks :
  row_output_ok d = true -> body_result_kinds (body_of no_oracle d) = Some ks ->
  call_out_ok d args (nullable_wrap d args (fd_out d)) = true.
Proof.
  intros R Bk. unfold call_out_ok. rewrite Bk. unfold row_output_ok in R. rewrite Bk in R.
  apply andb_true_intro. split.
  - unfold nullable_wrap. destruct (fd_strict d && existsb (fun a => allows_null (ptype a)) args); [|reflexivity].
    apply type_sum_upper_r. reflexivity.
  - apply orb_true_intro. right. eapply kinds_in_upper; [|exact R]. intros k. apply nullable_wrap_upper.
Qed.

Theorem call_sound orc env ctx d args ks :
  ctx_conforms ctx env = true ->
  row_output_ok d = true -> desc_modelled d = true -> body_result_kinds (body_of no_oracle d) = Some ks ->
  forallb (pwt env) args = true ->
  sound orc ctx (PCall (nullable_wrap d args (fd_out d)) d args).
Proof.
  intros Hc R M Bk W. apply (pwt_sound orc env ctx Hc). simpl. rewrite W. simpl.
  eapply call_typed_ok; eassumption.
Qed.

(* ---------- the pinned int(String) descriptor ---------- *)
Lemma pinned_int_of_string_unsound :
  exists vs v, Forall2 (fun x t => has_type x t = true) vs [STSet [K_STR]] /\
               Forall (fun x => is_null x = false) vs /\
               apply_body BIntOfStr vs = Ok v /\ has_type v (STSet [K_INT]) = false.
Proof.
  exists [VStr [120]], VNull. repeat split; try (repeat constructor; reflexivity); vm_compute; reflexivity.
Qed.
