(* Proofs/LimitOrderProofs.v — property C05 at the level of what gets printed (Model/LimitOrder.v). *)
From Coq Require Import Sorted.
From Octo Require Import Operators LimitOrder CompareLaws ChangelogLemmas OperatorsProofs.

(* ---- DeleteMax never fires when the source delivers at most n records (the Limit node below the printer) ---- *)
Lemma length_dset_like ks t x c : length (tset ks t x c) = length t.
Proof. induction t as [|[k c0] rest IH]; [reflexivity|]. cbn [tset]. destruct (item_eqv ks k x); cbn [length]; [reflexivity | rewrite IH; reflexivity]. Qed.
Lemma length_tinsert ks t x c : length (tinsert ks t x c) = S (length t).
Proof. induction t as [|[k c0] rest IH]; [reflexivity|]. cbn [tinsert]. destruct (item_less ks x k); cbn [length]; [reflexivity | rewrite IH; reflexivity]. Qed.
Lemma length_tdelete ks t x : (length (tdelete ks t x) <= length t)%nat.
Proof. induction t as [|[k c0] rest IH]; [simpl; lia|]. cbn [tdelete]. destruct (item_eqv ks k x); cbn [length]; lia. Qed.

Lemma tree_step_small ks n t r : Z.of_nat (S (length t)) <= n ->
  tree_step ks (Some n) true t r = tree_step ks (Some n) false t r /\
  (length (fst (tree_step ks (Some n) false t r)) <= S (length t))%nat.
Proof.
  intro H. unfold tree_step. cbn [andb].
  set (c := if retr r then _ else _).
  set (t1 := if 0 <? c then _ else _).
  assert (L : (length t1 <= S (length t))%nat).
  { unfold t1. destruct (0 <? c); [destruct (tget ks t (vals r))|].
    - rewrite length_dset_like. lia.
    - rewrite length_tinsert. lia.
    - pose proof (length_tdelete ks t (vals r)). lia. }
  cbn [fst]. split; [|exact L].
  destruct (Z.ltb_spec n (Z.of_nat (length t1))); [lia | reflexivity].
Qed.

Lemma printer_tree_small ks n : forall inp t, Z.of_nat (length t + length (records inp)) <= n ->
  printer_tree ks (Some n) true t inp = printer_tree ks (Some n) false t inp.
Proof.
  induction inp as [|[r|w] inp IH]; intros t H; [reflexivity | |].
  - change (records (Rec r :: inp)) with (r :: records inp) in H. cbn [length] in H. cbn [printer_tree].
    destruct (tree_step_small ks n t r ltac:(lia)) as [E L]. rewrite E.
    destruct (tree_step ks (Some n) false t r) as [t' c]. cbn [fst] in L.
    destruct (c <? 0); [reflexivity|]. apply IH. lia.
  - cbn [printer_tree]. apply IH. exact H.
Qed.

Lemma run_printer_small ks n inp : Z.of_nat (length (records inp)) <= n ->
  run_printer ks (Some n) true inp = run_printer ks (Some n) false inp.
Proof. intro H. unfold run_printer. rewrite printer_tree_small by (simpl; lia). reflexivity. Qed.

(* ---- small facts ---- *)
Lemma insert_only_Valid l : insert_only l = true -> valid_changelog l = true.
Proof.
  intro H. apply valid_iff. intros k x.
  assert (I : insert_only (firstn k l) = true).
  { unfold insert_only in *. rewrite forallb_forall in *. intros r Hr. apply H. rewrite <- (firstn_skipn k l). apply in_or_app. left. exact Hr. }
  rewrite <- (insert_only_represents _ I x). apply count_rows_nonneg.
Qed.

Lemma is_limit_of_out_same_bag n rows out out' : (forall x, count_rows out x = count_rows out' x) ->
  is_limit_of n rows out -> is_limit_of n rows out'.
Proof. intros H [S L]. split; [intro x; rewrite <- H; apply S | rewrite <- (same_bag_length _ _ H); exact L]. Qed.

Lemma is_limit_of_trans n rows mid out : 0 <= n -> is_limit_of n rows mid -> is_limit_of n mid out -> is_limit_of n rows out.
Proof. intros Hn [S1 L1] [S2 L2]. split; [intro x; specialize (S1 x); specialize (S2 x); lia | lia]. Qed.

Lemma records_prefix_facts inp k n0 : arity_is n0 (records inp) -> insert_only (records inp) = true ->
  arity_is n0 (records (firstn k inp)) /\ insert_only (records (firstn k inp)) = true.
Proof.
  intros Ha Hi. destruct (records_firstn inp k) as [j ->]. split.
  - intros r Hr. apply Ha. rewrite <- (firstn_skipn j (records inp)). apply in_or_app. left. exact Hr.
  - unfold insert_only in *. rewrite forallb_forall in *. intros r Hr. apply Hi. rewrite <- (firstn_skipn j (records inp)). apply in_or_app. left. exact Hr.
Qed.

Section C05.
  Variables (n0 : nat) (n : Z) (inp : list event) (rows : list row).
  Hypothesis Hn : 0 <= n.
  Hypothesis Ha : arity_is n0 (records inp).
  Hypothesis V : valid_changelog (records inp) = true.
  Hypothesis R : represents rows (records inp).

  (* LIMIT without ORDER BY, the eager rule: a good list of events, insert-only, same arity *)
  Lemma eager_limit noretr : (noretr = true -> insert_only (records inp) = true) ->
    exists ev, eager_choice [] (Some n) noretr inp = Ok ev /\ is_limit_of n rows (rows_of ev) /\
               insert_only (records ev) = true /\ arity_is n0 (records ev).
  Proof.
    intro Hi. unfold eager_choice. cbn [is_nil negb orb]. destruct noretr; cbn [negb].
    - specialize (Hi eq_refl). eexists. split; [reflexivity|]. split; [apply limit_node_is_limit_of; assumption|].
      destruct (run_limit_prefix n inp) as [k ->]. destruct (records_prefix_facts inp k n0 Ha Hi). auto.
    - unfold run_ost, run_ost_gen. destruct (Z.eqb_spec n 0) as [->|NZ].
      + eexists. split; [reflexivity|]. split; [|split; [reflexivity | intros r []]].
        split; [intro x; apply count_rows_nonneg | simpl; lia].
      + destruct (Z.ltb_spec n 0) as [Neg|_]; [lia|].
        destruct (final_tree_rows n0 [] key_congruent_nil (Some n) false inp rows (or_intror eq_refl) Ha V R) as [S Same].
        pose proof (final_tree n0 [] key_congruent_nil (Some n) false inp (or_intror eq_refl) Ha V) as [K _].
        eexists. split; [reflexivity|]. unfold rows_of. rewrite records_map_Rec', map_map. cbn [ins vals]. rewrite map_id.
        cbn [ost_emit]. rewrite take_upto_firstn by lia. rewrite Z.sub_0_r. split; [|split].
        * apply (firstn_is_top_n [] n _ rows Hn S Same).
        * apply forallb_forall. intros r Hr. apply in_map_iff in Hr. destruct Hr as [x [<- _]]. reflexivity.
        * intros r Hr. apply in_map_iff in Hr. destruct Hr as [x [<- Hx]]. cbn [ins vals].
          apply (expand_tree_arity n0 _ x K). rewrite <- (firstn_skipn (Z.to_nat n) (expand_tree _)). apply in_or_app. left. exact Hx.
  Qed.

  Theorem limit_printed mode nested noretr : (noretr = true -> insert_only (records inp) = true) ->
    exists out, printed mode nested [] (Some n) noretr inp = Ok out /\ is_limit_of n rows out.
  Proof.
    intro Hi. destruct (eager_limit noretr Hi) as [ev [Ee [Le [Ie Ae]]]].
    unfold printed. destruct nested.
    - rewrite Ee. cbn [obind].
      assert (T : exists out, run_printer [] None true ev = Ok out /\ is_limit_of n rows out).
      { destruct (printer_all n0 [] key_congruent_nil true ev (rows_of ev) Ae (insert_only_Valid _ Ie) (insert_only_represents _ Ie)) as [out [Eo [_ Same]]].
        exists out. split; [exact Eo|]. apply (is_limit_of_out_same_bag n rows (rows_of ev) out); [intro x; symmetry; apply Same | exact Le]. }
      destruct mode; [exact T | | |]; (eexists; split; [reflexivity | exact Le]).
    - assert (T : exists out, table_choice [] (Some n) noretr inp = Ok out /\ is_limit_of n rows out).
      { unfold table_choice. destruct (Z.ltb_spec n 0) as [Neg|_]; [lia|]. cbn [is_nil andb]. destruct noretr.
        - specialize (Hi eq_refl).
          pose proof (limit_node_is_limit_of n inp rows Hn Hi R) as L1.
          destruct (run_limit_prefix n inp) as [k Ek]. destruct (records_prefix_facts inp k n0 Ha Hi) as [Ak Ik]. rewrite <- Ek in Ak, Ik.
          assert (Len : Z.of_nat (length (records (run_limit n inp))) <= n).
          { destruct L1 as [_ L]. unfold rows_of in L. rewrite map_length in L. lia. }
          rewrite (run_printer_small [] n _ Len).
          destruct (printer_top_n n0 [] key_congruent_nil n (run_limit n inp) (rows_of (run_limit n inp)) Hn Ak (insert_only_Valid _ Ik) (insert_only_represents _ Ik)) as [out [Eo [Lo _]]].
          exists out. split; [exact Eo|]. apply (is_limit_of_trans n rows (rows_of (run_limit n inp)) out Hn L1 Lo).
        - destruct (printer_top_n n0 [] key_congruent_nil n inp rows Hn Ha V R) as [out [Eo [Lo _]]]. exists out. auto. }
      destruct mode; [exact T | | |]; (rewrite Ee; cbn [obind]; eexists; split; [reflexivity | exact Le]).
  Qed.
End C05.

(* ORDER BY ... LIMIT n when retractions are possible (no DeleteMax pruning) *)
Section C05Order.
  Variables (n0 : nat) (ks : okeys) (n : Z) (inp : list event) (rows : list row).
  Hypothesis Hk : key_congruent ks.
  Hypothesis Hn : 0 <= n.
  Hypothesis Ha : arity_is n0 (records inp).
  Hypothesis V : valid_changelog (records inp) = true.
  Hypothesis R : represents rows (records inp).
  Hypothesis NE : ks <> [].

  Lemma eager_order : exists ev, eager_choice ks (Some n) false inp = Ok ev /\ is_top_n ks n rows (rows_of ev) /\
                                 insert_only (records ev) = true /\ arity_is n0 (records ev).
  Proof.
    unfold eager_choice. replace (negb (is_nil ks) || negb false) with true by (destruct ks; reflexivity).
    destruct (ost_top_n n0 ks Hk n inp rows Hn Ha V R) as [ev [Ee Te]]. exists ev. split; [exact Ee|]. split; [exact Te|].
    unfold run_ost, run_ost_gen in Ee. destruct (n =? 0); [inversion Ee; split; [reflexivity | intros r []]|].
    destruct (n <? 0); [discriminate|]. inversion Ee. rewrite records_map_Rec'.
    pose proof (final_tree n0 ks Hk (Some n) false inp (or_intror eq_refl) Ha V) as [K _].
    cbn [ost_emit]. rewrite take_upto_firstn by lia. rewrite Z.sub_0_r. split.
    - apply forallb_forall. intros r Hr. apply in_map_iff in Hr. destruct Hr as [x [<- _]]. reflexivity.
    - intros r Hr. apply in_map_iff in Hr. destruct Hr as [x [<- Hx]]. cbn [ins vals].
      apply (expand_tree_arity n0 _ x K). rewrite <- (firstn_skipn (Z.to_nat n) (expand_tree _)). apply in_or_app. left. exact Hx.
  Qed.

  (* top level, every mode; nested in csv / json / stream_native *)
  Theorem order_limit_printed mode nested : (nested = true -> mode <> BatchTable) ->
    exists out, printed mode nested ks (Some n) false inp = Ok out /\ is_top_n ks n rows out.
  Proof.
    intro Hm. destruct eager_order as [ev [Ee [Te _]]]. unfold printed. destruct nested.
    - rewrite Ee. cbn [obind]. destruct mode; [exfalso; apply (Hm eq_refl); reflexivity | | |]; (eexists; split; [reflexivity | exact Te]).
    - destruct mode; [| rewrite Ee; cbn [obind]; eexists; split; [reflexivity | exact Te] ..].
      unfold table_choice. destruct (Z.ltb_spec n 0) as [Neg|_]; [lia|]. rewrite andb_false_r.
      apply (printer_top_n n0 ks Hk n inp rows Hn Ha V R).
  Qed.

  (* nested, shown as a table: exactly the rows the inner ORDER BY ... LIMIT selected (the table's own order is by values) *)
  Theorem order_limit_nested_table :
    exists inner out, eager_choice ks (Some n) false inp = Ok inner /\ is_top_n ks n rows (rows_of inner) /\
                      printed BatchTable true ks (Some n) false inp = Ok out /\ forall x, count_rows out x = count_rows (rows_of inner) x.
  Proof.
    destruct eager_order as [ev [Ee [Te [Ie Ae]]]]. exists ev.
    destruct (printer_all n0 [] key_congruent_nil true ev (rows_of ev) Ae (insert_only_Valid _ Ie) (insert_only_represents _ Ie)) as [out [Eo [_ Same]]].
    exists out. split; [exact Ee|]. split; [exact Te|]. split; [|exact Same].
    unfold printed. rewrite Ee. exact Eo.
  Qed.
End C05Order.

(* ---- the executable oracle is sound for the limit clause ---- *)
Lemma sub_bagb_sound out rows : sub_bagb out rows = true -> sub_bag out rows.
Proof.
  unfold sub_bagb. rewrite forallb_forall. intros H x.
  destruct (existsb (fun y => row_eqb y x) out) eqn:E.
  - apply existsb_exists in E. destruct E as [y [Hy Eyx]]. specialize (H y Hy). apply Z.leb_le in H.
    unfold count_rows in *. rewrite <- (consolidate_cong _ y x Eyx), <- (consolidate_cong (map ins rows) y x Eyx). exact H.
  - replace (count_rows out x) with 0; [apply count_rows_nonneg|]. symmetry. unfold count_rows. apply consolidate_zero.
    intros r Hr. apply in_map_iff in Hr. destruct Hr as [y [<- Hy]]. cbn [ins vals].
    destruct (row_eqb y x) eqn:Eyx; [|reflexivity].
    assert (existsb (fun y => row_eqb y x) out = true) by (apply existsb_exists; eauto). congruence.
Qed.
Theorem is_limit_ofb_sound n rows out : is_limit_ofb n rows out = true -> is_limit_of n rows out.
Proof. unfold is_limit_ofb. rewrite andb_true_iff, Z.eqb_eq. intros [S L]. split; [apply sub_bagb_sound; exact S | exact L]. Qed.

(* ---- the pinned tree ---- *)
Lemma pinned_limit0_printed_refuted : exists inp, insert_only (records inp) = true /\
  exists ev, eager_choice_pinned [] (Some 0) true inp = Ok ev /\ ~ is_limit_of 0 (rows_of inp) (rows_of ev).
Proof.
  exists [Rec (ins [VInt 1]); Rec (ins [VInt 2])]. split; [reflexivity|]. eexists. split; [reflexivity|].
  intros [_ L]. vm_compute in L. discriminate.
Qed.
Lemma pinned_order_limit_printed_refuted : exists ks inp, insert_only (records inp) = true /\
  exists ev, eager_choice_pinned ks (Some 1) true inp = Ok ev /\ ~ is_limit_of 1 (rows_of inp) (rows_of ev).
Proof.
  exists [(false, fun x => nth 0 x VNull)], [Rec (ins [VInt 2]); Rec (ins [VInt 2]); Rec (ins [VInt 1]); Rec (ins [VInt 1])].
  split; [reflexivity|]. eexists. split; [vm_compute; reflexivity|].
  intros [_ L]. vm_compute in L. discriminate.
Qed.

(* ===== the tie's expression shapes meet the hypotheses ===== *)

(* the expression shapes of the tie satisfy the congruence hypotheses of the theorems *)
Lemma veq_tid a b : vcompare a b = 0 -> tid a = tid b.
Proof.
  intro H. destruct (Z.eq_dec (tid a) (tid b)) as [E|NE]; [exact E|].
  rewrite (vcompare_tid_ne a b NE) in H. destruct (tid a <? tid b); discriminate.
Qed.
Lemma veq_is_null a b : vcompare a b = 0 -> is_null a = is_null b.
Proof. intro H. apply veq_tid in H. destruct a, b; simpl in *; try reflexivity; discriminate. Qed.
Lemma veq_int_field a b : vcompare a b = 0 -> int_field a = int_field b.
Proof.
  intro H. pose proof (veq_tid a b H) as T. destruct a, b; simpl in T; try discriminate; try reflexivity.
  cbn [int_field]. rewrite vc_int in H. unfold zcmp in H. destruct (z <? z0) eqn:E1; [discriminate|]. destruct (z0 <? z) eqn:E2; [discriminate|]. lia.
Qed.

Lemma eval_cong e x y : row_eqb x y = true -> vcompare (eval e x) (eval e y) = 0.
Proof.
  intro H. apply row_eqb_Forall2 in H. pose proof (fun i => Forall2_nth x y i H) as N. unfold veq in N.
  destruct e as [i|c|i c|i c]; cbn [eval].
  - apply N.
  - apply vcompare_refl.
  - rewrite (veq_is_null _ _ (N i)). destruct (is_null (nth i y VNull) || is_null c) eqn:E; [reflexivity|].
    rewrite vc_bool. apply orb_false_iff in E. destruct E as [E1 E2].
    assert (Q : vequal (nth i x VNull) c = vequal (nth i y VNull) c).
    { unfold vequal. rewrite (vcompare_eq_cong _ _ c (N i)).
      destruct (nth i x VNull) eqn:Ex, (nth i y VNull) eqn:Ey, c; try reflexivity; simpl in *; discriminate. }
    rewrite Q. destruct (vequal (nth i y VNull) c); reflexivity.
  - rewrite (veq_is_null _ _ (N i)). destruct (is_null (nth i y VNull)); [reflexivity|].
    rewrite (veq_int_field _ _ (N i)). apply vcompare_refl.
Qed.

Lemma eval_pred_congruent e : pred_congruent (eval e).
Proof.
  intros x y H. unfold passes. pose proof (eval_cong e x y H) as E. pose proof (veq_tid _ _ E) as T.
  destruct (eval e x), (eval e y); simpl in T; try discriminate; try reflexivity.
  rewrite vc_bool in E. destruct b, b0; try reflexivity; discriminate.
Qed.
Lemma eval_map_congruent es : map_congruent (map eval es).
Proof.
  intros x y H. apply row_eqb_Forall2. unfold map_row. rewrite !map_map.
  induction es as [|e es IH]; [constructor|]. cbn [map]. constructor; [apply eval_cong; exact H | exact IH].
Qed.
Lemma eval_key_congruent ks : key_congruent (okeys_of ks).
Proof.
  intros k Hk x y H. unfold okeys_of in Hk. apply in_map_iff in Hk. destruct Hk as [[d e] [<- _]]. cbn [snd]. apply eval_cong. exact H.
Qed.
Lemma run_filter_ext p q t : (forall j, passes p j = passes q j) -> run_filter p t = run_filter q t.
Proof. intro P. unfold run_filter. induction t as [|[r|w] t IH]; [reflexivity| |]; cbn [flat_map filter_step]; rewrite IH; [rewrite (P (vals r))|]; reflexivity. Qed.

Lemma table_joined_congruent table a b : joined_congruent (table_joined table a b).
Proof.
  intros x y o H. unfold table_joined.
  apply row_eqb_Forall2 in H. pose proof (Forall2_nth x y b H) as N. unfold veq in N.
  assert (P : forall j, passes (fun j => let u := nth a j VNull in let v := nth b x VNull in if is_null u || is_null v then VNull else VBool (vequal u v)) j =
                        passes (fun j => let u := nth a j VNull in let v := nth b y VNull in if is_null u || is_null v then VNull else VBool (vequal u v)) j).
  { intro j. unfold passes. cbv zeta. rewrite (veq_is_null _ _ N).
    destruct (is_null (nth a j VNull) || is_null (nth b y VNull)) eqn:E; [reflexivity|].
    apply orb_false_iff in E. destruct E as [E1 E2].
    assert (Q : vequal (nth a j VNull) (nth b x VNull) = vequal (nth a j VNull) (nth b y VNull)).
    { unfold vequal. rewrite (vcompare_eq_cong_r (nth a j VNull) _ _ N).
      pose proof (veq_is_null _ _ N) as Q0. rewrite E2 in Q0.
      destruct (nth a j VNull), (nth b x VNull), (nth b y VNull); try reflexivity; simpl in *; discriminate. }
    rewrite Q. reflexivity. }
  f_equal. f_equal. apply run_filter_ext. exact P.
Qed.
