(* Proofs/PluginsProofs.v — C28: the semver order is a total preorder on canonically written versions, the
   descending sort, discovery by directory name, start-up resolution and Install's pick. *)
From Octo Require Import Plugins.
From Coq Require Import Permutation Sorted.

(* ---------------- byte strings ---------------- *)
Lemma bytes_eqb_eq : forall a b, bytes_eqb a b = true <-> a = b.
Proof.
  induction a as [|x a IH]; destruct b as [|y b]; simpl; split; intro H; try reflexivity; try discriminate.
  - apply andb_true_iff in H. destruct H as [H1 H2]. apply Z.eqb_eq in H1. apply IH in H2. congruence.
  - inversion H; subst. rewrite Z.eqb_refl. simpl. apply IH. reflexivity.
Qed.
Lemma bytes_eqb_refl : forall a, bytes_eqb a a = true.
Proof. intro a. apply bytes_eqb_eq. reflexivity. Qed.
Lemma bytes_eqb_neq : forall a b, bytes_eqb a b = false <-> a <> b.
Proof.
  intros a b. split.
  - intros H E. apply bytes_eqb_eq in E. congruence.
  - intro H. destruct (bytes_eqb a b) eqn:E; [apply bytes_eqb_eq in E; contradiction | reflexivity].
Qed.
Lemma bytes_eqb_sym : forall a b, bytes_eqb a b = bytes_eqb b a.
Proof.
  intros a b. destruct (bytes_eqb a b) eqn:E.
  - apply bytes_eqb_eq in E. subst. symmetry. apply bytes_eqb_refl.
  - symmetry. apply bytes_eqb_neq. apply bytes_eqb_neq in E. congruence.
Qed.

Lemma bytes_ltb_irrefl : forall a, bytes_ltb a a = false.
Proof. induction a as [|x a IH]; simpl; [reflexivity|]. rewrite Z.ltb_irrefl. exact IH. Qed.

Lemma bytes_ltb_trans : forall a b c, bytes_ltb a b = true -> bytes_ltb b c = true -> bytes_ltb a c = true.
Proof.
  induction a as [|x a IH]; destruct b as [|y b]; destruct c as [|z c]; simpl; intros H1 H2; try discriminate; try reflexivity.
  destruct (Z.ltb_spec x y), (Z.ltb_spec y x), (Z.ltb_spec y z), (Z.ltb_spec z y), (Z.ltb_spec x z), (Z.ltb_spec z x);
    try reflexivity; try discriminate; try lia.
  eapply IH; eassumption.
Qed.

Lemma bytes_ltb_total : forall a b, a <> b -> bytes_ltb a b = true \/ bytes_ltb b a = true.
Proof.
  induction a as [|x a IH]; destruct b as [|y b]; simpl; intro H; try congruence; auto.
  destruct (Z.ltb_spec x y), (Z.ltb_spec y x); auto; try lia.
  assert (x = y) by lia. subst. apply IH. congruence.
Qed.

Lemma bytes_ltb_asym : forall a b, bytes_ltb a b = true -> bytes_ltb b a = false.
Proof.
  intros a b H. destruct (bytes_ltb b a) eqn:E; [|reflexivity].
  pose proof (bytes_ltb_trans _ _ _ H E) as T. rewrite bytes_ltb_irrefl in T. discriminate.
Qed.

(* ---------------- one prerelease identifier ---------------- *)
Definition canon (s : bytes) : Prop := canon_part s = true.

Lemma canon_nonempty : forall s, canon s -> s <> [].
Proof. intros s H E. subst. discriminate. Qed.

Lemma canon_inj : forall s o n, canon s -> canon o -> parse_uint s = Some n -> parse_uint o = Some n -> s = o.
Proof.
  unfold canon, canon_part. intros s o n Hs Ho Ps Po. rewrite Ps in Hs. rewrite Po in Ho.
  apply andb_true_iff in Hs. apply andb_true_iff in Ho. destruct Hs as [_ Hs]. destruct Ho as [_ Ho].
  apply bytes_eqb_eq in Hs. apply bytes_eqb_eq in Ho. congruence.
Qed.

Lemma part_range : forall s o, cmp_pre_part s o = -1 \/ cmp_pre_part s o = 0 \/ cmp_pre_part s o = 1.
Proof.
  intros s o. unfold cmp_pre_part. destruct (bytes_eqb s o); auto.
  destruct s; auto. destruct o; auto.
  destruct (parse_uint (z0 :: o)), (parse_uint (z :: s)); auto.
  - destruct (_ <? _); auto.
  - destruct (bytes_ltb _ _); auto.
Qed.

Lemma part_zero : forall s o, cmp_pre_part s o = 0 -> s = o.
Proof.
  intros s o. unfold cmp_pre_part. destruct (bytes_eqb s o) eqn:E; [intros _; apply bytes_eqb_eq; exact E|].
  destruct s; [discriminate|]. destruct o; [discriminate|].
  destruct (parse_uint (z0 :: o)), (parse_uint (z :: s)); try discriminate.
  - destruct (_ <? _); discriminate.
  - destruct (bytes_ltb _ _); discriminate.
Qed.

Lemma part_refl : forall s, cmp_pre_part s s = 0.
Proof. intro s. unfold cmp_pre_part. rewrite bytes_eqb_refl. reflexivity. Qed.

Lemma part_nil_r : forall s, s <> [] -> cmp_pre_part s [] = 1.
Proof. intros s H. destruct s; [congruence|]. reflexivity. Qed.
Lemma part_nil_l : forall s, s <> [] -> cmp_pre_part [] s = -1.
Proof. intros s H. destruct s; [congruence|]. reflexivity. Qed.

(* what "less" means, by kind *)
Lemma part_lt_cases : forall s o, s <> [] -> o <> [] -> s <> o ->
  cmp_pre_part s o =
    match parse_uint o, parse_uint s with
    | None, None => if bytes_ltb o s then 1 else -1
    | None, Some _ => -1
    | Some _, None => 1
    | Some oi, Some si => if oi <? si then 1 else -1
    end.
Proof.
  intros s o Hs Ho Hne. unfold cmp_pre_part. apply bytes_eqb_neq in Hne. rewrite Hne.
  destruct s; [congruence|]. destruct o; [congruence|]. reflexivity.
Qed.

Lemma part_antisym : forall s o, canon s -> canon o -> cmp_pre_part o s = - cmp_pre_part s o.
Proof.
  intros s o Cs Co. destruct (bytes_eqb s o) eqn:E.
  - apply bytes_eqb_eq in E. subst. rewrite part_refl. reflexivity.
  - apply bytes_eqb_neq in E.
    rewrite (part_lt_cases s o) by (auto using canon_nonempty).
    rewrite (part_lt_cases o s) by (auto using canon_nonempty).
    destruct (parse_uint o) as [oi|] eqn:Po, (parse_uint s) as [si|] eqn:Ps; try reflexivity.
    + destruct (Z.ltb_spec oi si), (Z.ltb_spec si oi); try reflexivity; try lia.
      assert (oi = si) by lia. subst. exfalso. apply E. eapply canon_inj; eauto.
    + destruct (bytes_ltb_total s o E) as [H|H].
      * rewrite H. rewrite (bytes_ltb_asym _ _ H). reflexivity.
      * rewrite H. rewrite (bytes_ltb_asym _ _ H). reflexivity.
Qed.

Lemma part_trans : forall a b c, canon a -> canon b -> canon c ->
  cmp_pre_part a b = -1 -> cmp_pre_part b c = -1 -> cmp_pre_part a c = -1.
Proof.
  intros a b c Ca Cb Cc H1 H2.
  assert (Nab : a <> b) by (intro; subst; rewrite part_refl in H1; discriminate).
  assert (Nbc : b <> c) by (intro; subst; rewrite part_refl in H2; discriminate).
  rewrite (part_lt_cases a b) in H1 by (auto using canon_nonempty).
  rewrite (part_lt_cases b c) in H2 by (auto using canon_nonempty).
  destruct (parse_uint a) as [ai|] eqn:Pa, (parse_uint b) as [bi|] eqn:Pb, (parse_uint c) as [ci|] eqn:Pc;
    try discriminate.
  - (* all numbers *)
    destruct (Z.ltb_spec bi ai); [discriminate|]. destruct (Z.ltb_spec ci bi); [discriminate|].
    assert (ai <> bi) by (intro; subst; apply Nab; eapply canon_inj; eauto).
    assert (bi <> ci) by (intro; subst; apply Nbc; eapply canon_inj; eauto).
    assert (Nac : a <> c) by (intro; subst; rewrite Pa in Pc; inversion Pc; lia).
    rewrite (part_lt_cases a c) by (auto using canon_nonempty). rewrite Pa, Pc.
    destruct (Z.ltb_spec ci ai); [lia|reflexivity].
  - assert (Nac : a <> c) by (intro; subst; congruence).
    rewrite (part_lt_cases a c) by (auto using canon_nonempty). rewrite Pa, Pc. reflexivity.
  - assert (Nac : a <> c) by (intro; subst; congruence).
    rewrite (part_lt_cases a c) by (auto using canon_nonempty). rewrite Pa, Pc. reflexivity.
  - (* all strings *)
    destruct (bytes_ltb b a) eqn:L1; [discriminate|]. destruct (bytes_ltb c b) eqn:L2; [discriminate|].
    destruct (bytes_ltb_total a b Nab) as [Lab|Lab]; [|congruence].
    destruct (bytes_ltb_total b c Nbc) as [Lbc|Lbc]; [|congruence].
    pose proof (bytes_ltb_trans _ _ _ Lab Lbc) as Lac.
    assert (Nac : a <> c) by (intro; subst; rewrite bytes_ltb_irrefl in Lac; discriminate).
    rewrite (part_lt_cases a c) by (auto using canon_nonempty). rewrite Pa, Pc.
    rewrite (bytes_ltb_asym _ _ Lac). reflexivity.
Qed.

(* ---------------- prerelease lists ---------------- *)
Definition canons (l : list bytes) : Prop := Forall canon l.

Lemma pre_nil_l : forall o, canons o -> o <> [] -> cmp_pre [] o = -1.
Proof.
  intros o C H. destruct o as [|y ys]; [congruence|]. inversion C; subst. simpl.
  rewrite part_nil_l by (auto using canon_nonempty). reflexivity.
Qed.
Lemma pre_nil_r : forall s, canons s -> s <> [] -> cmp_pre s [] = 1.
Proof.
  intros s C H. destruct s as [|x xs]; [congruence|]. inversion C; subst. simpl.
  rewrite part_nil_r by (auto using canon_nonempty). reflexivity.
Qed.

Lemma pre_cons : forall x xs y ys, cmp_pre (x :: xs) (y :: ys) =
  if cmp_pre_part x y =? 0 then cmp_pre xs ys else cmp_pre_part x y.
Proof. reflexivity. Qed.

Lemma pre_range : forall s o, canons s -> canons o -> cmp_pre s o = -1 \/ cmp_pre s o = 0 \/ cmp_pre s o = 1.
Proof.
  induction s as [|x xs IH]; intros o Cs Co.
  - destruct o; [simpl; auto|]. left. apply pre_nil_l; [assumption|discriminate].
  - destruct o as [|y ys]; [right; right; apply pre_nil_r; [assumption|discriminate]|].
    rewrite pre_cons. inversion Cs; inversion Co; subst.
    destruct (Z.eqb_spec (cmp_pre_part x y) 0); [apply IH; assumption|].
    destruct (part_range x y) as [H|[H|H]]; auto; try contradiction.
Qed.

Lemma pre_refl : forall s, cmp_pre s s = 0.
Proof. induction s as [|x xs IH]; [reflexivity|]. rewrite pre_cons, part_refl. simpl. exact IH. Qed.

Lemma pre_zero : forall s o, canons s -> canons o -> cmp_pre s o = 0 -> s = o.
Proof.
  induction s as [|x xs IH]; intros o Cs Co H.
  - destruct o; [reflexivity|]. rewrite pre_nil_l in H; [discriminate|assumption|discriminate].
  - destruct o as [|y ys]; [rewrite pre_nil_r in H; [discriminate|assumption|discriminate]|].
    rewrite pre_cons in H. inversion Cs; inversion Co; subst.
    destruct (Z.eqb_spec (cmp_pre_part x y) 0) as [E|E]; [|contradiction].
    apply part_zero in E. subst. f_equal. apply IH; assumption.
Qed.

Lemma pre_antisym : forall s o, canons s -> canons o -> cmp_pre o s = - cmp_pre s o.
Proof.
  induction s as [|x xs IH]; intros o Cs Co.
  - destruct o; [reflexivity|]. rewrite pre_nil_l, pre_nil_r; auto; try discriminate.
  - destruct o as [|y ys]; [rewrite pre_nil_l, pre_nil_r; auto; try discriminate|].
    rewrite !pre_cons. inversion Cs; inversion Co; subst.
    rewrite (part_antisym x y) by assumption.
    destruct (Z.eqb_spec (cmp_pre_part x y) 0) as [E|E].
    + rewrite E. simpl. apply IH; assumption.
    + destruct (Z.eqb_spec (- cmp_pre_part x y) 0); [lia|reflexivity].
Qed.

Lemma pre_trans : forall a b c, canons a -> canons b -> canons c ->
  cmp_pre a b = -1 -> cmp_pre b c = -1 -> cmp_pre a c = -1.
Proof.
  induction a as [|x xs IH]; intros b c Ca Cb Cc H1 H2.
  - destruct c; [|apply pre_nil_l; [assumption|discriminate]].
    destruct b; [simpl in H1; discriminate|]. rewrite pre_nil_r in H2; [discriminate|assumption|discriminate].
  - destruct b as [|y ys]; [rewrite pre_nil_r in H1; [discriminate|assumption|discriminate]|].
    destruct c as [|z zs]; [rewrite pre_nil_r in H2; [discriminate|assumption|discriminate]|].
    rewrite pre_cons in *. inversion Ca as [|? ? Cx Cxs]; inversion Cb as [|? ? Cy Cys]; inversion Cc as [|? ? Cz Czs]; subst.
    revert H1 H2.
    destruct (Z.eqb_spec (cmp_pre_part x y) 0) as [E1|E1];
    destruct (Z.eqb_spec (cmp_pre_part y z) 0) as [E2|E2]; intros H1 H2.
    + apply part_zero in E1. apply part_zero in E2. subst. rewrite part_refl. simpl. apply (IH ys zs); assumption.
    + apply part_zero in E1. subst. destruct (Z.eqb_spec (cmp_pre_part y z) 0); [contradiction|assumption].
    + apply part_zero in E2. subst. destruct (Z.eqb_spec (cmp_pre_part x z) 0); [contradiction|assumption].
    + pose proof (part_trans x y z Cx Cy Cz H1 H2) as T. rewrite T. reflexivity.
Qed.

(* ---------------- versions ---------------- *)
Definition canonv (v : version) : Prop := canon_version v = true.
Lemma canonv_canons : forall v, canonv v -> canons (vpre v).
Proof. intros v H. apply Forall_forall. intros x Hx. unfold canonv, canon_version in H. rewrite forallb_forall in H. apply H. exact Hx. Qed.

(* the prerelease stage of Compare *)
Definition cmp_pre_top (ps po : list bytes) : Z :=
  match ps, po with [], [] => 0 | [], _ => 1 | _, [] => -1 | _, _ => cmp_pre ps po end.

Lemma vcompare_unfold : forall v o, vcompare v o =
  if vmaj v <? vmaj o then -1 else if vmaj o <? vmaj v then 1 else
  if vmin v <? vmin o then -1 else if vmin o <? vmin v then 1 else
  if vpat v <? vpat o then -1 else if vpat o <? vpat v then 1 else cmp_pre_top (vpre v) (vpre o).
Proof. intros v o. unfold vcompare, cmp_pre_top. destruct (vpre v), (vpre o); reflexivity. Qed.

Lemma top_range : forall a b, canons a -> canons b -> cmp_pre_top a b = -1 \/ cmp_pre_top a b = 0 \/ cmp_pre_top a b = 1.
Proof. intros a b Ca Cb. destruct a, b; unfold cmp_pre_top; auto. apply pre_range; assumption. Qed.
Lemma top_refl : forall a, cmp_pre_top a a = 0.
Proof. destruct a; [reflexivity|]. apply pre_refl. Qed.
Lemma top_zero : forall a b, canons a -> canons b -> cmp_pre_top a b = 0 -> a = b.
Proof. intros a b Ca Cb H. destruct a, b; unfold cmp_pre_top in H; try discriminate; auto. apply pre_zero; assumption. Qed.
Lemma top_antisym : forall a b, canons a -> canons b -> cmp_pre_top b a = - cmp_pre_top a b.
Proof. intros a b Ca Cb. destruct a, b; try reflexivity. apply pre_antisym; assumption. Qed.
Lemma top_trans : forall a b c, canons a -> canons b -> canons c ->
  cmp_pre_top a b = -1 -> cmp_pre_top b c = -1 -> cmp_pre_top a c = -1.
Proof.
  intros a b c Ca Cb Cc H1 H2. destruct a, b, c; unfold cmp_pre_top in *; try discriminate; try reflexivity.
  eapply pre_trans; [| | | exact H1 | exact H2]; assumption.
Qed.

Lemma v_range : forall a b, canonv a -> canonv b -> vcompare a b = -1 \/ vcompare a b = 0 \/ vcompare a b = 1.
Proof.
  intros a b Ca Cb. rewrite vcompare_unfold.
  repeat (match goal with |- context [if ?c then _ else _] => destruct c end; auto).
  apply top_range; apply canonv_canons; assumption.
Qed.

Lemma v_refl : forall a, vcompare a a = 0.
Proof. intro a. rewrite vcompare_unfold. rewrite !Z.ltb_irrefl. apply top_refl. Qed.

Lemma v_antisym : forall a b, canonv a -> canonv b -> vcompare b a = - vcompare a b.
Proof.
  intros a b Ca Cb. rewrite !vcompare_unfold.
  destruct (Z.ltb_spec (vmaj a) (vmaj b)), (Z.ltb_spec (vmaj b) (vmaj a)); try reflexivity; try lia.
  destruct (Z.ltb_spec (vmin a) (vmin b)), (Z.ltb_spec (vmin b) (vmin a)); try reflexivity; try lia.
  destruct (Z.ltb_spec (vpat a) (vpat b)), (Z.ltb_spec (vpat b) (vpat a)); try reflexivity; try lia.
  apply top_antisym; apply canonv_canons; assumption.
Qed.

(* Compare = 0 exactly when everything but the build metadata coincides *)
Lemma v_zero : forall a b, canonv a -> canonv b -> vcompare a b = 0 ->
  vmaj a = vmaj b /\ vmin a = vmin b /\ vpat a = vpat b /\ vpre a = vpre b.
Proof.
  intros a b Ca Cb. rewrite vcompare_unfold.
  destruct (Z.ltb_spec (vmaj a) (vmaj b)), (Z.ltb_spec (vmaj b) (vmaj a)); try discriminate; try lia.
  destruct (Z.ltb_spec (vmin a) (vmin b)), (Z.ltb_spec (vmin b) (vmin a)); try discriminate; try lia.
  destruct (Z.ltb_spec (vpat a) (vpat b)), (Z.ltb_spec (vpat b) (vpat a)); try discriminate; try lia.
  intro HH. apply top_zero in HH; try (apply canonv_canons; assumption). repeat split; try lia. exact HH.
Qed.

Lemma v_cong_l : forall a b c, vmaj a = vmaj b -> vmin a = vmin b -> vpat a = vpat b -> vpre a = vpre b ->
  vcompare a c = vcompare b c.
Proof. intros a b c H1 H2 H3 H4. rewrite !vcompare_unfold. rewrite H1, H2, H3, H4. reflexivity. Qed.
Lemma v_cong_r : forall a b c, vmaj a = vmaj b -> vmin a = vmin b -> vpat a = vpat b -> vpre a = vpre b ->
  vcompare c a = vcompare c b.
Proof. intros a b c H1 H2 H3 H4. rewrite !vcompare_unfold. rewrite H1, H2, H3, H4. reflexivity. Qed.

Lemma v_trans_lt : forall a b c, canonv a -> canonv b -> canonv c ->
  vcompare a b = -1 -> vcompare b c = -1 -> vcompare a c = -1.
Proof.
  intros a b c Ca Cb Cc. rewrite !vcompare_unfold.
  destruct (Z.ltb_spec (vmaj a) (vmaj b)), (Z.ltb_spec (vmaj b) (vmaj a)),
           (Z.ltb_spec (vmaj b) (vmaj c)), (Z.ltb_spec (vmaj c) (vmaj b)),
           (Z.ltb_spec (vmaj a) (vmaj c)), (Z.ltb_spec (vmaj c) (vmaj a));
    try discriminate; try lia; try (intros; reflexivity).
  destruct (Z.ltb_spec (vmin a) (vmin b)), (Z.ltb_spec (vmin b) (vmin a)),
           (Z.ltb_spec (vmin b) (vmin c)), (Z.ltb_spec (vmin c) (vmin b)),
           (Z.ltb_spec (vmin a) (vmin c)), (Z.ltb_spec (vmin c) (vmin a));
    try discriminate; try lia; try (intros; reflexivity).
  destruct (Z.ltb_spec (vpat a) (vpat b)), (Z.ltb_spec (vpat b) (vpat a)),
           (Z.ltb_spec (vpat b) (vpat c)), (Z.ltb_spec (vpat c) (vpat b)),
           (Z.ltb_spec (vpat a) (vpat c)), (Z.ltb_spec (vpat c) (vpat a));
    try discriminate; try lia; try (intros; reflexivity).
  apply top_trans; apply canonv_canons; assumption.
Qed.

Lemma vle_refl : forall a, version_le a a.
Proof. intro a. unfold version_le. rewrite v_refl. lia. Qed.

Lemma vle_total : forall a b, canonv a -> canonv b -> version_le a b \/ version_le b a.
Proof. intros a b Ca Cb. unfold version_le. rewrite (v_antisym a b Ca Cb). lia. Qed.

Lemma vle_trans : forall a b c, canonv a -> canonv b -> canonv c ->
  version_le a b -> version_le b c -> version_le a c.
Proof.
  unfold version_le. intros a b c Ca Cb Cc H1 H2.
  destruct (v_range a b Ca Cb) as [E1|[E1|E1]]; [| |lia];
  destruct (v_range b c Cb Cc) as [E2|[E2|E2]]; try lia.
  - rewrite (v_trans_lt a b c); auto. lia.
  - destruct (v_zero b c Cb Cc E2) as (M1 & M2 & M3 & M4). rewrite <- (v_cong_r b c a M1 M2 M3 M4). lia.
  - destruct (v_zero a b Ca Cb E1) as (M1 & M2 & M3 & M4). rewrite (v_cong_l a b c M1 M2 M3 M4). lia.
  - destruct (v_zero a b Ca Cb E1) as (M1 & M2 & M3 & M4). rewrite (v_cong_l a b c M1 M2 M3 M4). lia.
Qed.

(* GreaterThan is the strict part of the preorder *)
Lemma vgt_strict : forall a b, canonv a -> canonv b ->
  (vgt a b = true <-> version_le b a /\ ~ version_le a b).
Proof.
  intros a b Ca Cb. unfold vgt, version_le. rewrite (v_antisym a b Ca Cb).
  destruct (v_range a b Ca Cb) as [E|[E|E]]; rewrite E; simpl; split; intro H; try discriminate; try lia; try reflexivity.
Qed.

Lemma semver_order : (forall a, version_le a a)
  /\ (forall a b, canonv a -> canonv b -> version_le a b \/ version_le b a)
  /\ (forall a b c, canonv a -> canonv b -> canonv c -> version_le a b -> version_le b c -> version_le a c)
  /\ (forall a b, canonv a -> canonv b -> (vgt a b = true <-> version_le b a /\ ~ version_le a b))
  /\ (forall a b, canonv a -> canonv b ->
        (vcompare a b = 0 <-> vmaj a = vmaj b /\ vmin a = vmin b /\ vpat a = vpat b /\ vpre a = vpre b)).
Proof.
  split; [exact vle_refl|]. split; [exact vle_total|]. split; [exact vle_trans|]. split; [exact vgt_strict|].
  intros a b Ca Cb. split; [apply v_zero; assumption|].
  intros (M1 & M2 & M3 & M4). rewrite (v_cong_l a b b M1 M2 M3 M4). apply v_refl.
Qed.

(* without the canonical-numerals hypothesis Masterminds' Compare is not transitive: "01" and "1" *)
Lemma order_needs_canonical : exists a b c,
  version_le a b /\ version_le b c /\ ~ version_le a c.
Proof.
  exists (mkV 1 0 0 [[49]; [52]] []), (mkV 1 0 0 [[48;49]; [53]] []), (mkV 1 0 0 [[49]; [51]] []).
  unfold version_le. vm_compute. repeat split; try discriminate. intro H. apply H. reflexivity.
Qed.

(* ---------------- the descending sort ---------------- *)
Lemma insert_perm : forall x l, Permutation (x :: l) (insert_desc x l).
Proof.
  induction l as [|y t IH]; simpl; [apply Permutation_refl|].
  destruct (vgt x y); [apply Permutation_refl|].
  eapply Permutation_trans; [apply perm_swap|]. apply perm_skip. exact IH.
Qed.
Lemma sort_perm : forall l, Permutation l (sort_desc l).
Proof.
  induction l as [|x t IH]; simpl; [constructor|].
  eapply Permutation_trans; [apply perm_skip; exact IH|]. apply insert_perm.
Qed.

Definition ge (a b : version) : Prop := version_le b a.
Definition all_canon (l : list version) : Prop := Forall canonv l.

Lemma all_canon_perm : forall l l', Permutation l l' -> all_canon l -> all_canon l'.
Proof. intros l l' P H. unfold all_canon in *. rewrite Forall_forall in *. intros x Hx. apply H. eapply Permutation_in; [apply Permutation_sym; exact P|exact Hx]. Qed.

Lemma insert_sorted : forall x l, canonv x -> all_canon l ->
  StronglySorted ge l -> StronglySorted ge (insert_desc x l).
Proof.
  induction l as [|y t IH]; intros Cx Cl S; simpl.
  - constructor; constructor.
  - inversion S as [|? ? St Hy]; subst. inversion Cl as [|? ? Cy Ct]; subst.
    destruct (vgt x y) eqn:G.
    + constructor; [exact S|]. apply (vgt_strict x y Cx Cy) in G. destruct G as [G _].
      constructor; [exact G|]. rewrite Forall_forall in *. intros w Hw. unfold ge in *.
      eapply vle_trans; [apply Ct; exact Hw|exact Cy|exact Cx|apply Hy; exact Hw|exact G].
    + constructor; [apply IH; assumption|].
      assert (Lxy : version_le x y).
      { unfold version_le. unfold vgt in G. destruct (v_range x y Cx Cy) as [E|[E|E]]; rewrite E in *; try lia; try discriminate. }
      rewrite Forall_forall in *. intros w Hw.
      apply (Permutation_in _ (Permutation_sym (insert_perm x t))) in Hw. destruct Hw as [Hw|Hw]; [subst; exact Lxy|apply Hy; exact Hw].
Qed.

Lemma sort_sorted : forall l, all_canon l -> StronglySorted ge (sort_desc l).
Proof.
  induction l as [|x t IH]; intro C; simpl; [constructor|].
  inversion C; subst. apply insert_sorted; auto.
  eapply all_canon_perm; [apply sort_perm|assumption].
Qed.

(* first match in a descending list = a maximum of the matching elements *)
Lemma find_sorted_max : forall (p : version -> bool) l, StronglySorted ge l ->
  match find p l with
  | Some v => In v l /\ p v = true /\ forall w, In w l -> p w = true -> version_le w v
  | None => forall w, In w l -> p w = false
  end.
Proof.
  induction l as [|x t IH]; intro S; simpl; [intros w []|].
  inversion S as [|? ? St Hx]; subst. destruct (p x) eqn:Px.
  - split; [left; reflexivity|]. split; [exact Px|]. intros w [Hw|Hw] _; [subst; apply vle_refl|].
    rewrite Forall_forall in Hx. apply Hx. exact Hw.
  - specialize (IH St). destruct (find p t) as [v|].
    + destruct IH as (I1 & I2 & I3). split; [right; exact I1|]. split; [exact I2|].
      intros w [Hw|Hw] Pw; [subst; congruence|apply I3; assumption].
    + intros w [Hw|Hw]; [subst; exact Px|apply IH; exact Hw].
Qed.

Lemma first_of_sorted_is_max : forall (p : version -> bool) l, all_canon l ->
  match find p (sort_desc l) with
  | Some v => In v l /\ p v = true /\ forall w, In w l -> p w = true -> version_le w v
  | None => forall w, In w l -> p w = false
  end.
Proof.
  intros p l C. pose proof (find_sorted_max p (sort_desc l) (sort_sorted l C)) as H.
  destruct (find p (sort_desc l)) as [v|].
  - destruct H as (I1 & I2 & I3). split; [eapply Permutation_in; [apply Permutation_sym; apply sort_perm|exact I1]|].
    split; [exact I2|]. intros w Hw. apply I3. eapply Permutation_in; [apply sort_perm|exact Hw].
  - intros w Hw. apply H. eapply Permutation_in; [apply sort_perm|exact Hw].
Qed.

(* ---------------- discovery ---------------- *)
Lemma plugin_name_dir_of : forall name, plugin_name (dir_of name) = name.
Proof. intro name. reflexivity. Qed.

Lemma parse_versions_ok : forall names, is_ok (parse_versions names) = true ->
  parse_versions names = Ok (parsed_or_nil names).
Proof. intros names H. unfold parsed_or_nil. destruct (parse_versions names); try discriminate. reflexivity. Qed.

Lemma parse_versions_notok : forall names, is_ok (parse_versions names) = false ->
  parse_versions names = Err e_bad_version.
Proof.
  induction names as [|n t IH]; simpl; intro H; [discriminate|].
  destruct (parse_version n); [|reflexivity].
  assert (X : parse_versions t = Err e_bad_version).
  { apply IH. destruct (parse_versions t); simpl in *; [discriminate|reflexivity|reflexivity]. }
  rewrite X. reflexivity.
Qed.

Definition md_of (e : bytes * bytes * list bytes) : plugin_md :=
  let '(repo, name, vs) := e in mkMD name repo (sort_desc (parsed_or_nil vs)).

Lemma list_plugins_ok : forall repo ps,
  forallb (fun '(_, vs) => is_ok (parse_versions vs)) ps = true ->
  list_plugins plugin_name repo (map (fun '(name, vs) => (dir_of name, vs)) ps)
  = Ok (map (fun '(name, vs) => md_of (repo, name, vs)) ps).
Proof.
  induction ps as [|[name vs] t IH]; simpl; intro H; [reflexivity|].
  apply andb_true_iff in H. destruct H as [H1 H2].
  rewrite (parse_versions_ok vs H1). simpl. rewrite (IH H2). simpl. reflexivity.
Qed.

Lemma list_plugins_bad : forall repo ps,
  forallb (fun '(_, vs) => is_ok (parse_versions vs)) ps = false ->
  list_plugins plugin_name repo (map (fun '(name, vs) => (dir_of name, vs)) ps) = Err e_bad_version.
Proof.
  induction ps as [|[name vs] t IH]; simpl; intro H; [discriminate|].
  destruct (is_ok (parse_versions vs)) eqn:E.
  - simpl in H. rewrite (parse_versions_ok vs E). simpl. rewrite (IH H). reflexivity.
  - rewrite (parse_versions_notok vs E). reflexivity.
Qed.

Local Arguments bytes_eqb : simpl never.

Lemma discover : forall it, no_staging it = true -> tree_parses it = true -> listed (dir_tree it) = Ok (map md_of (flat it)).
Proof.
  unfold listed, tree_parses, flat, no_staging.
  induction it as [|[repo ps] t IH]; simpl; intros NS H; [reflexivity|].
  apply andb_true_iff in H. destruct H as [H1 H2]. apply andb_true_iff in NS. destruct NS as [N1 N2].
  apply negb_true_iff in N1. rewrite N1.
  rewrite (list_plugins_ok repo ps H1). simpl. rewrite (IH N2 H2). simpl.
  rewrite map_app. rewrite map_map. f_equal. f_equal. apply map_ext. intros [name vs]. reflexivity.
Qed.

Lemma discover_bad : forall it, no_staging it = true -> tree_parses it = false -> listed (dir_tree it) = Err e_bad_version.
Proof.
  unfold listed, tree_parses, no_staging.
  induction it as [|[repo ps] t IH]; simpl; intros NS H; [discriminate|].
  apply andb_true_iff in NS. destruct NS as [N1 N2]. apply negb_true_iff in N1. rewrite N1.
  destruct (forallb (fun '(_, vs) => is_ok (parse_versions vs)) ps) eqn:E.
  - simpl in H. rewrite (list_plugins_ok repo ps E). simpl. rewrite (IH N2 H). reflexivity.
  - rewrite (list_plugins_bad repo ps E). reflexivity.
Qed.

Lemma discover_pinned_refuted : exists it,
  no_staging it = true /\ tree_parses it = true /\ listed_pinned (dir_tree it) <> Ok (map md_of (flat it)).
Proof.
  (* repository core, plugin "my-plugin", version 1.0.0: listed as "plugin" *)
  exists [([99;111;114;101], [([109;121;45;112;108;117;103;105;110], [[49;46;48;46;48]])])].
  split; [reflexivity|]. split; [reflexivity|]. vm_compute. intro H. inversion H.
Qed.

(* ---------------- resolution ---------------- *)
Definition ref_of (e : bytes * bytes * list bytes) : bytes * bytes := let '(repo, name, _) := e in (repo, name).

Lemma find_unique : forall {A} (p : A -> bool) l x,
  In x l -> p x = true -> (forall y, In y l -> p y = true -> y = x) -> find p l = Some x.
Proof.
  induction l as [|a t IH]; intros x Hin Px U; [destruct Hin|]. simpl.
  destruct (p a) eqn:Pa.
  - f_equal. apply U; [left; reflexivity|exact Pa].
  - destruct Hin as [E|Hin]; [subst; congruence|]. apply IH; auto. intros y Hy. apply U. right. exact Hy.
Qed.

Lemma nodup_map_inj : forall {A B} (f : A -> B) l x y,
  NoDup (map f l) -> In x l -> In y l -> f x = f y -> x = y.
Proof.
  induction l as [|a t IH]; intros x y ND Hx Hy E; [destruct Hx|].
  simpl in ND. inversion ND as [|? ? Hn ND']; subst.
  destruct Hx as [Hx|Hx], Hy as [Hy|Hy]; subst; auto.
  - exfalso. apply Hn. rewrite E. apply in_map. exact Hy.
  - exfalso. apply Hn. rewrite <- E. apply in_map. exact Hx.
Qed.

Lemma resolve_correct : forall it repo name vs c,
  no_staging it = true -> tree_parses it = true -> NoDup (map ref_of (flat it)) -> In (repo, name, vs) (flat it) ->
  all_canon (parsed_or_nil vs) ->
  forall l, listed (dir_tree it) = Ok l ->
  match resolve l name repo c with
  | Some v => In v (parsed_or_nil vs) /\ check c v = true /\
              forall w, In w (parsed_or_nil vs) -> check c w = true -> version_le w v
  | None => forall w, In w (parsed_or_nil vs) -> check c w = false
  end.
Proof.
  intros it repo name vs c NS TP ND Hin C l L. rewrite (discover it NS TP) in L. inversion L; subst l. clear L.
  unfold resolve.
  assert (F : find (ref_is name repo) (map md_of (flat it)) = Some (md_of (repo, name, vs))).
  { apply find_unique.
    - apply in_map. exact Hin.
    - unfold ref_is. simpl. rewrite !bytes_eqb_refl. reflexivity.
    - intros y Hy Py. apply in_map_iff in Hy. destruct Hy as ([[r n] vs'] & E & Hy). subst y.
      unfold ref_is in Py. simpl in Py. apply andb_true_iff in Py. destruct Py as [P1 P2].
      apply bytes_eqb_eq in P1. apply bytes_eqb_eq in P2. subst.
      assert (X : (repo, name, vs') = (repo, name, vs)) by (eapply (nodup_map_inj ref_of); eauto).
      rewrite X. reflexivity. }
  rewrite F. simpl. apply first_of_sorted_is_max. exact C.
Qed.

(* ---------------- Install's pick ---------------- *)
Definition pick_pred (c : option constraints) (v : version) : bool :=
  match c with Some cs => check cs v | None => is_nil (vpre v) end.

Lemma pick_correct : forall manifest c, all_canon manifest ->
  match pick manifest c with
  | Some v => In v manifest /\ pick_pred c v = true /\
              forall w, In w manifest -> pick_pred c w = true -> version_le w v
  | None => forall w, In w manifest -> pick_pred c w = false
  end.
Proof. intros manifest c C. apply (first_of_sorted_is_max (pick_pred c) manifest C). Qed.

(* the executable oracle used on the implementation's answers decides the same thing *)
Lemma max_spec_sound : forall p cands v, all_canon cands -> canonv v ->
  is_max_of p cands v = true ->
  p v = true /\ (exists w, In w cands /\ p w = true /\ vcompare w v = 0) /\
  forall w, In w cands -> p w = true -> version_le w v.
Proof.
  intros p cands v C Cv H. unfold is_max_of in H.
  apply andb_true_iff in H. destruct H as [H H3]. apply andb_true_iff in H. destruct H as [H1 H2].
  split; [exact H2|]. split.
  - apply existsb_exists in H1. destruct H1 as (w & Hw & E). apply filter_In in Hw. destruct Hw as [Hw Pw].
    exists w. repeat split; auto. unfold vequal in E. apply Z.eqb_eq. exact E.
  - intros w Hw Pw. rewrite forallb_forall in H3. specialize (H3 w). unfold vle in H3.
    apply Z.leb_le. apply H3. apply filter_In. split; assumption.
Qed.
