(* Proofs/BufferProofs.v — the event-time buffer, well-timedness of the pass-through nodes, of the table
   valued functions and of pipelines (Model/Buffer.v). *)
From Octo Require Import Buffer TVF ChangelogLemmas TVFProofs.
From Coq Require Import Sorted Permutation.
Local Arguments zero_ns : simpl never.
Local Arguments max_wm : simpl never.

(* ------------------------------------------------------------------ stable insertion sort by event time *)
Definition et_le (a b : rec) : Prop := et a <= et b.
Definition et_sorted (l : list rec) : Prop := StronglySorted et_le l.

Lemma et_insert_in r l x : In x (et_insert r l) <-> x = r \/ In x l.
Proof.
  induction l as [|y ys IH]; cbn [et_insert In]; [intuition congruence|].
  destruct (et r <? et y); cbn [In]; [intuition congruence|]. rewrite IH. tauto.
Qed.

Lemma et_insert_perm r l : Permutation (et_insert r l) (r :: l).
Proof.
  induction l as [|y ys IH]; cbn [et_insert]; [reflexivity|].
  destruct (et r <? et y); [reflexivity|]. rewrite IH. apply perm_swap.
Qed.

Lemma et_insert_sorted r l : et_sorted l -> et_sorted (et_insert r l).
Proof.
  unfold et_sorted. induction l as [|y ys IH]; intro H; cbn [et_insert].
  - constructor; constructor.
  - inversion H as [|? ? Hs Hf]; subst. destruct (Z.ltb_spec (et r) (et y)).
    + constructor; [assumption|]. constructor; [unfold et_le; lia|].
      eapply Forall_impl; [|exact Hf]. unfold et_le. intros; lia.
    + constructor; [apply IH; assumption|]. apply Forall_forall. intros x Hx.
      apply et_insert_in in Hx. destruct Hx as [->|Hx]; [unfold et_le; lia|].
      rewrite Forall_forall in Hf. apply Hf. exact Hx.
Qed.

(* insertion goes past a prefix that is not later, and stops in front of a list that is later *)
Lemma et_insert_app_le r a l : Forall (fun x => et x <= et r) a -> et_insert r (a ++ l) = a ++ et_insert r l.
Proof.
  induction a as [|y ys IH]; intro H; [reflexivity|]. inversion H; subst. cbn [app et_insert].
  destruct (Z.ltb_spec (et r) (et y)); [lia|]. rewrite IH by assumption. reflexivity.
Qed.
Lemma et_insert_front r l : Forall (fun x => et r < et x) l -> et_insert r l = r :: l.
Proof.
  destruct l as [|y ys]; intro H; [reflexivity|]. inversion H; subst. cbn [et_insert].
  destruct (Z.ltb_spec (et r) (et y)); [reflexivity|lia].
Qed.

Definition ins_all (l acc : list rec) : list rec := fold_left (fun acc r => et_insert r acc) l acc.

Lemma ins_all_perm l : forall acc, Permutation (ins_all l acc) (acc ++ l).
Proof.
  unfold ins_all. induction l as [|x xs IH]; intro acc; cbn [fold_left]; [rewrite app_nil_r; reflexivity|].
  rewrite IH, et_insert_perm. change (x :: acc) with ([x] ++ acc).
  rewrite (Permutation_app_comm [x] acc), <- app_assoc. reflexivity.
Qed.
Lemma ins_all_sorted l : forall acc, et_sorted acc -> et_sorted (ins_all l acc).
Proof.
  unfold ins_all. induction l as [|x xs IH]; intros acc H; cbn [fold_left]; [assumption|].
  apply IH. apply et_insert_sorted. assumption.
Qed.

Definition same_time (t : Z) (r : rec) : bool := et r =? t.

Lemma filter_none {A} (f : A -> bool) l : (forall x, In x l -> f x = false) -> filter f l = [].
Proof.
  induction l as [|z zs IH]; intro H; [reflexivity|]. cbn [filter].
  rewrite (H z (or_introl eq_refl)). apply IH. intros x Hx. apply H. right. exact Hx.
Qed.

Lemma et_insert_stable t r l :
  et_sorted l ->
  filter (same_time t) (et_insert r l) = filter (same_time t) l ++ (if same_time t r then [r] else []).
Proof.
  unfold et_sorted. induction l as [|y ys IH]; intro H; cbn [et_insert].
  - cbn [filter app]. destruct (same_time t r); reflexivity.
  - inversion H as [|? ? Hs Hf]; subst. destruct (Z.ltb_spec (et r) (et y)) as [L|L].
    + (* r goes in front of y: nothing from y on has r's time *)
      remember (y :: ys) as yl. cbn [filter]. destruct (same_time t r) eqn:E.
      * assert (Hn : filter (same_time t) yl = []).
        { apply filter_none. unfold same_time in *. apply Z.eqb_eq in E. subst yl.
          intros x [<-|Hx]; apply Z.eqb_neq; [lia|].
          rewrite Forall_forall in Hf. specialize (Hf x Hx). unfold et_le in Hf. lia. }
        rewrite Hn. reflexivity.
      * rewrite app_nil_r. reflexivity.
    + cbn [filter]. rewrite IH by assumption. destruct (same_time t y); reflexivity.
Qed.

Lemma ins_all_stable t l : forall acc,
  et_sorted acc -> filter (same_time t) (ins_all l acc) = filter (same_time t) acc ++ filter (same_time t) l.
Proof.
  unfold ins_all. induction l as [|x xs IH]; intros acc H; cbn [fold_left filter]; [rewrite app_nil_r; reflexivity|].
  rewrite IH by (apply et_insert_sorted; assumption). rewrite et_insert_stable by assumption.
  rewrite <- app_assoc. destruct (same_time t x); reflexivity.
Qed.

(* et_sort is the stable sort: a permutation, ordered, and records with equal times keep their order *)
Lemma et_sort_spec l :
  Permutation (et_sort l) l /\ et_sorted (et_sort l) /\
  forall t, filter (same_time t) (et_sort l) = filter (same_time t) l.
Proof.
  unfold et_sort. fold (ins_all l []). split; [|split].
  - apply (ins_all_perm l []).
  - apply ins_all_sorted. constructor.
  - intro t. apply (ins_all_stable t l []). constructor.
Qed.

(* ------------------------------------------------------------------ the buffer *)
Definition lo_lt (lo : option Z) (t : Z) : Prop := match lo with None => True | Some l => l < t end.

(* keys strictly increasing and above [lo]; a group holds records of its own instant; no zero time *)
Fixpoint buf_wf (lo : option Z) (b : buf) : Prop :=
  match b with
  | [] => True
  | (t, rs) :: rest => lo_lt lo t /\ t <> zero_ns /\ Forall (fun r => et r = t) rs /\ buf_wf (Some t) rest
  end.

Lemma buf_wf_weaken lo lo' b : (forall t, lo_lt lo t -> lo_lt lo' t) -> buf_wf lo b -> buf_wf lo' b.
Proof. destruct b as [|[t rs] rest]; cbn [buf_wf]; [tauto|]. intros H [H1 H2]. split; auto. Qed.

Lemma buf_wf_flatten lo b : buf_wf lo b -> Forall (fun r => lo_lt lo (et r) /\ et r <> zero_ns) (buf_flatten b).
Proof.
  revert lo. induction b as [|[t rs] rest IH]; intros lo H; cbn [buf_flatten flat_map snd]; [constructor|].
  destruct H as [H1 [H2 [H3 H4]]]. apply Forall_app. split.
  - eapply Forall_impl; [|exact H3]. cbn beta. intros r ->. auto.
  - fold (buf_flatten rest). eapply Forall_impl; [|apply (IH (Some t) H4)]. cbn beta. intros r [Hr Hz]. split; [|exact Hz].
    destruct lo as [l|]; cbn [lo_lt] in *; lia.
Qed.

Lemma buf_add_wf r : forall b lo, buf_wf lo b -> lo_lt lo (et r) -> et r <> zero_ns -> buf_wf lo (buf_add r b).
Proof.
  induction b as [|[t rs] rest IH]; intros lo H Hr Hz; cbn [buf_add buf_wf].
  - repeat split; auto.
  - destruct H as [H1 [H2 [H3 H4]]].
    destruct (Z.ltb_spec (et r) t) as [L|L].
    + cbn [buf_wf]. repeat split; auto.
    + destruct (Z.ltb_spec t (et r)) as [L2|L2]; cbn [buf_wf].
      * repeat split; auto; try (apply IH; cbn [lo_lt]; auto).
      * assert (et r = t) by lia. repeat split; auto; try (apply Forall_app; split; [assumption|]; constructor; auto).
Qed.

Lemma buf_add_flatten r : forall b lo, buf_wf lo b -> buf_flatten (buf_add r b) = et_insert r (buf_flatten b).
Proof.
  induction b as [|[t rs] rest IH]; intros lo H; cbn [buf_add]; [reflexivity|].
  destruct H as [H1 [H2 [H3 H4]]]. pose proof (buf_wf_flatten _ _ H4) as Hrest.
  cbn [buf_flatten flat_map snd]. fold (buf_flatten rest).
  destruct (Z.ltb_spec (et r) t) as [L|L].
  - cbn [buf_flatten flat_map snd app]. fold (buf_flatten rest).
    rewrite et_insert_front; [reflexivity|]. apply Forall_app. split.
    + eapply Forall_impl; [|exact H3]. cbn beta. intros x ->. exact L.
    + eapply Forall_impl; [|exact Hrest]. cbn beta. cbn [lo_lt]. intros x [Hx _]. lia.
  - destruct (Z.ltb_spec t (et r)) as [L2|L2]; cbn [buf_flatten flat_map snd]; fold (buf_flatten rest).
    + fold (buf_flatten (buf_add r rest)). rewrite (IH (Some t) H4).
      rewrite et_insert_app_le; [reflexivity|]. eapply Forall_impl; [|exact H3]. cbn beta. intros x ->. lia.
    + rewrite <- app_assoc. cbn [app].
      rewrite et_insert_app_le by (eapply Forall_impl; [|exact H3]; cbn beta; intros x ->; lia).
      rewrite et_insert_front; [reflexivity|].
      eapply Forall_impl; [|exact Hrest]. cbn beta. cbn [lo_lt]. intros x [Hx _]. lia.
Qed.

Lemma buf_add_perm r : forall b, Permutation (buf_flatten (buf_add r b)) (r :: buf_flatten b).
Proof.
  induction b as [|[t rs] rest IH]; cbn [buf_add]; [reflexivity|].
  destruct (et r <? t); [reflexivity|]. destruct (t <? et r); cbn [buf_flatten flat_map snd].
  - fold (buf_flatten (buf_add r rest)) (buf_flatten rest). rewrite IH. symmetry. apply Permutation_middle.
  - fold (buf_flatten rest). rewrite <- app_assoc. cbn [app]. symmetry. apply Permutation_middle.
Qed.

Lemma buf_emit_char w : forall b lo o b',
  buf_wf lo b -> buf_emit w b = (o, b') ->
  buf_flatten b = o ++ buf_flatten b' /\ Forall (fun r => et r <= w /\ lo_lt lo (et r) /\ et r <> zero_ns) o /\
  buf_wf (Some w) b' /\ buf_wf lo b'.
Proof.
  induction b as [|[t rs] rest IH]; intros lo o b' H E; cbn [buf_emit] in E.
  - inversion E; subst. repeat split; constructor.
  - destruct H as [H1 [H2 [H3 H4]]]. destruct (Z.ltb_spec w t) as [L|L].
    + inversion E; subst. split; [reflexivity|]. split; [constructor|]. split; cbn [buf_wf lo_lt]; auto.
    + destruct (buf_emit w rest) as [o2 b2] eqn:E2. inversion E; subst.
      destruct (IH (Some t) o2 b' H4 eq_refl) as [I1 [I2 [I3 I4]]].
      cbn [buf_flatten flat_map snd]. fold (buf_flatten rest). rewrite I1, app_assoc. split; [reflexivity|].
      split; [|split; [exact I3|]].
      * apply Forall_app. split.
        -- eapply Forall_impl; [|exact H3]. cbn beta. intros x ->. auto.
        -- eapply Forall_impl; [|exact I2]. cbn beta. cbn [lo_lt]. intros x [A [B C]]. repeat split; auto.
           destruct lo as [l|]; cbn [lo_lt] in *; lia.
      * eapply buf_wf_weaken; [|exact I4]. cbn [lo_lt]. intros t0 Ht0. destruct lo as [l|]; cbn [lo_lt] in *; lia.
Qed.

Lemma buf_emit_flatten w : forall b o b', buf_emit w b = (o, b') -> buf_flatten b = o ++ buf_flatten b'.
Proof.
  induction b as [|[t rs] rest IH]; intros o b' E; cbn [buf_emit] in E.
  - inversion E; reflexivity.
  - destruct (w <? t); [inversion E; reflexivity|].
    destruct (buf_emit w rest) as [o2 b2] eqn:E2. inversion E; subst.
    cbn [buf_flatten flat_map snd]. fold (buf_flatten rest). rewrite (IH o2 b' eq_refl), app_assoc. reflexivity.
Qed.

Lemma buf_emit_all w : forall b, Forall (fun r => et r <= w) (buf_flatten b) -> (forall t rs, In (t, rs) b -> exists r, In r rs /\ et r = t) ->
  buf_emit w b = (buf_flatten b, []).
Proof.
  induction b as [|[t rs] rest IH]; intros H Hne; [reflexivity|]. cbn [buf_emit].
  cbn [buf_flatten flat_map snd] in H. fold (buf_flatten rest) in H. apply Forall_app in H. destruct H as [Hrs Hrest].
  destruct (Hne t rs (or_introl eq_refl)) as [r [Hr Ht]].
  rewrite Forall_forall in Hrs. specialize (Hrs r Hr).
  destruct (Z.ltb_spec w t); [lia|].
  rewrite IH; [reflexivity | assumption | intros t0 rs0 Hin; apply Hne; right; exact Hin].
Qed.

(* every group is inhabited by a record of its instant *)
Definition buf_inh (b : buf) : Prop := forall t rs, In (t, rs) b -> exists r, In r rs /\ et r = t.
Lemma buf_add_inh r b : buf_inh b -> buf_inh (buf_add r b).
Proof.
  unfold buf_inh. induction b as [|[t rs] rest IH]; intros H t0 rs0 Hin; cbn [buf_add] in Hin.
  - destruct Hin as [E|[]]. inversion E; subst. exists r. split; [left; reflexivity|reflexivity].
  - destruct (Z.ltb_spec (et r) t).
    + destruct Hin as [E|Hin]; [inversion E; subst; exists r; split; [left; reflexivity|reflexivity]|]. apply H. exact Hin.
    + destruct (Z.ltb_spec t (et r)).
      * destruct Hin as [E|Hin]; [apply H; left; exact E|].
        apply IH; [|exact Hin]. intros t1 rs1 Hin1. apply H. right. exact Hin1.
      * destruct Hin as [E|Hin]; [|apply H; right; exact Hin]. inversion E; subst.
        exists r. split; [apply in_or_app; right; left; reflexivity|lia].
Qed.
Lemma buf_emit_inh w : forall b o b', buf_inh b -> buf_emit w b = (o, b') -> buf_inh b'.
Proof.
  induction b as [|[t rs] rest IH]; intros o b' H E; cbn [buf_emit] in E.
  - inversion E; subst. exact H.
  - destruct (w <? t); [inversion E; subst; exact H|].
    destruct (buf_emit w rest) as [o2 b2] eqn:E2. inversion E; subst.
    apply (IH o2 b'); [|reflexivity]. intros t1 rs1 H1. apply H. right. exact H1.
Qed.

(* ---- run lemmas ---- *)
Lemma etb_run_from_app a : forall b c,
  etb_run_from b (a ++ c) =
  let '(b1, o1) := etb_run_from b a in let '(b2, o2) := etb_run_from b1 c in (b2, o1 ++ o2).
Proof.
  induction a as [|e rest IH]; intros b c; cbn [app etb_run_from].
  - destruct (etb_run_from b c); reflexivity.
  - destruct (etb_step b e) as [b1 o1]. rewrite IH.
    destruct (etb_run_from b1 rest) as [b2 o2]. destruct (etb_run_from b2 c) as [b3 o3]. rewrite app_assoc. reflexivity.
Qed.

Lemma records_map_Rec_app l rest : records (map Rec l ++ rest) = l ++ records rest.
Proof. rewrite records_app, records_map_Rec. reflexivity. Qed.

(* (1) nothing is lost, nothing invented — any input *)
Lemma etb_perm : forall es b b' o,
  etb_run_from b es = (b', o) -> Permutation (records o ++ buf_flatten b') (buf_flatten b ++ records es).
Proof.
  induction es as [|e rest IH]; intros b b' o E; cbn [etb_run_from] in E.
  - inversion E; subst. cbn [records flat_map app]. rewrite app_nil_r. reflexivity.
  - destruct (etb_step b e) as [b1 o1] eqn:E1. destruct (etb_run_from b1 rest) as [b2 o2] eqn:E2. inversion E; subst.
    specialize (IH b1 b' o2 E2). rewrite records_app, <- app_assoc, IH.
    destruct e as [r|w]; cbn [etb_step] in E1.
    + destruct (et r =? zero_ns); inversion E1; subst; cbn [records flat_map app].
      * fold (records rest). apply Permutation_middle.
      * fold (records rest). rewrite buf_add_perm. cbn [app]. apply Permutation_middle.
    + destruct (buf_emit w b) as [ow bw] eqn:Ew. inversion E1; subst.
      rewrite (buf_emit_flatten w b ow b1 Ew). rewrite records_app, records_map_Rec. cbn [records flat_map app].
      fold (records rest). rewrite app_nil_r, <- app_assoc. reflexivity.
Qed.

Definition last_wm (lo : option Z) (es : list event) : option Z :=
  fold_left (fun acc e => match e with WM w => Some w | Rec _ => acc end) es lo.

Lemma last_wm_app lo a b : last_wm lo (a ++ b) = last_wm (last_wm lo a) b.
Proof. unfold last_wm. apply fold_left_app. Qed.
Lemma last_wm_recs lo l : last_wm lo (map Rec l) = lo.
Proof. induction l; [reflexivity|assumption]. Qed.

Lemma well_timed_app a : forall lo b,
  well_timed_from lo (a ++ b) = well_timed_from lo a && well_timed_from (last_wm lo a) b.
Proof.
  induction a as [|e rest IH]; intros lo b; [reflexivity|]. destruct e as [r|w]; cbn [app well_timed_from].
  - rewrite IH, andb_assoc. reflexivity.
  - rewrite IH, andb_assoc. reflexivity.
Qed.
Lemma well_timed_recs lo l : well_timed_from lo (map Rec l) = forallb (not_late lo) l.
Proof. induction l as [|x xs IH]; [reflexivity|]. cbn [map well_timed_from forallb]. rewrite IH. reflexivity. Qed.

Lemma wt_monotone es : forall lo, well_timed_from lo es = true -> monotone_opt lo es = true.
Proof.
  induction es as [|e rest IH]; intros lo H; [reflexivity|]. destruct e as [r|w]; cbn [well_timed_from monotone_opt] in *;
  apply andb_true_iff in H; destruct H as [H1 H2]; [apply IH; exact H2|]. rewrite H1. apply IH. exact H2.
Qed.

Fixpoint mono_list (lo : option Z) (ws : list Z) : bool :=
  match ws with [] => true | w :: r => wm_le lo w && mono_list (Some w) r end.
Lemma monotone_via_watermarks es : forall lo, monotone_opt lo es = mono_list lo (watermarks es).
Proof.
  induction es as [|e rest IH]; intro lo; [reflexivity|]. destruct e as [r|w]; cbn [monotone_opt watermarks flat_map app mono_list].
  - apply IH.
  - fold (watermarks rest). rewrite IH. reflexivity.
Qed.

(* (2) with no late input the buffer's output is well timed, and the timed records come out stably sorted *)
Lemma etb_run_inv : forall es b lo past,
  buf_wf lo b -> well_timed_from lo es = true ->
  Forall (fun r => match lo with None => False | Some l => et r <= l end) past ->
  forall b' o, etb_run_from b es = (b', o) ->
    buf_wf (last_wm lo es) b' /\
    well_timed_from lo o = true /\ last_wm lo o = last_wm lo es /\
    past ++ filter nonzero_time (records o) ++ buf_flatten b' =
      ins_all (filter nonzero_time (records es)) (past ++ buf_flatten b) /\
    Forall (fun r => match last_wm lo es with None => False | Some l => et r <= l end) (past ++ filter nonzero_time (records o)).
Proof.
  induction es as [|e rest IH]; intros b lo past Hwf Hwt Hpast b' o E; cbn [etb_run_from] in E.
  - inversion E; subst. cbn [last_wm fold_left records flat_map filter app ins_all]. rewrite app_nil_r.
    repeat split; auto.
  - destruct (etb_step b e) as [b1 o1] eqn:E1. destruct (etb_run_from b1 rest) as [b2 o2] eqn:E2. inversion E; subst.
    destruct e as [r|w]; cbn [well_timed_from] in Hwt; apply andb_true_iff in Hwt; destruct Hwt as [Hh Hwt]; cbn [etb_step] in E1.
    + destruct (Z.eqb_spec (et r) zero_ns) as [Ez|Ez]; inversion E1; subst.
      * (* zero event time: straight through *)
        destruct (IH b1 lo past Hwf Hwt Hpast b' o2 E2) as [I1 [I2 [I3 [I4 I5]]]].
        assert (Hnz : nonzero_time r = false) by (unfold nonzero_time; rewrite Ez, Z.eqb_refl; reflexivity).
        cbn [app records flat_map filter last_wm fold_left well_timed_from]. fold (records rest) (records o2).
        rewrite Hnz. fold (last_wm lo rest) (last_wm lo o2). rewrite Hh, I2. repeat split; auto.
      * assert (Hlt : lo_lt lo (et r)).
        { unfold not_late in Hh. destruct (Z.eqb_spec (et r) zero_ns); [contradiction|]. cbn [orb] in Hh.
          destruct lo as [l|]; cbn [lo_lt]; [apply Z.ltb_lt; exact Hh | exact I]. }
        assert (Hnz : nonzero_time r = true) by (unfold nonzero_time; apply negb_true_iff, Z.eqb_neq; exact Ez).
        destruct (IH (buf_add r b) lo past (buf_add_wf r b lo Hwf Hlt Ez) Hwt Hpast b' o2 E2) as [I1 [I2 [I3 [I4 I5]]]].
        cbn [app records flat_map filter last_wm fold_left]. fold (records rest) (records o2). rewrite Hnz.
        fold (last_wm lo rest) (last_wm lo o2). repeat split; auto.
        rewrite I4. rewrite (buf_add_flatten r b lo Hwf). unfold ins_all. cbn [fold_left].
        rewrite et_insert_app_le; [reflexivity|].
        eapply Forall_impl; [|exact Hpast]. cbn beta. intro x. destruct lo as [l|]; cbn [lo_lt] in *; [lia|tauto].
    + destruct (buf_emit w b) as [ow bw] eqn:Ew. inversion E1; subst.
      destruct (buf_emit_char w b lo ow b1 Hwf Ew) as [F1 [F2 [F3 F4]]].
      assert (Hpast' : Forall (fun r => match Some w with None => False | Some l => et r <= l end) (past ++ ow)).
      { apply Forall_app. split.
        - eapply Forall_impl; [|exact Hpast]. cbn beta. intro x. destruct lo as [l|]; [|tauto]. cbn [wm_le] in Hh. apply Z.leb_le in Hh. lia.
        - eapply Forall_impl; [|exact F2]. cbn beta. intros x [A _]. exact A. }
      destruct (IH b1 (Some w) (past ++ ow) F3 Hwt Hpast' b' o2 E2) as [I1 [I2 [I3 [I4 I5]]]].
      assert (Hnzow : filter nonzero_time ow = ow).
      { clear -F2. induction ow as [|x xs IHx]; [reflexivity|]. inversion F2 as [|? ? [_ [_ Hz]] Hr]; subst. cbn [filter].
        assert (nonzero_time x = true) as -> by (unfold nonzero_time; apply negb_true_iff, Z.eqb_neq; exact Hz).
        rewrite IHx by assumption. reflexivity. }
      cbn [last_wm fold_left]. fold (last_wm (Some w) rest). split; [exact I1|]. split; [|split; [|split]].
      * rewrite <- app_assoc. rewrite well_timed_app, well_timed_recs, last_wm_recs. cbn [app well_timed_from]. rewrite Hh, I2.
        assert (forallb (not_late lo) ow = true) as ->; [|reflexivity].
        apply forallb_forall. intros x Hx. rewrite Forall_forall in F2. destruct (F2 x Hx) as [_ [B _]].
        unfold not_late. destruct lo as [l|]; cbn [lo_lt] in B; [|apply orb_true_r].
        apply orb_true_iff. right. apply Z.ltb_lt. exact B.
      * rewrite <- app_assoc. unfold last_wm at 1. rewrite fold_left_app. fold (last_wm lo (map Rec ow)). rewrite last_wm_recs.
        cbn [app fold_left]. exact I3.
      * rewrite <- app_assoc, records_map_Rec_app. cbn [app records flat_map]. fold (records o2) (records rest).
        rewrite filter_app, Hnzow. rewrite <- !app_assoc in I4. rewrite <- !app_assoc. rewrite I4. rewrite F1. reflexivity.
      * rewrite <- app_assoc, records_map_Rec_app. cbn [app records flat_map]. fold (records o2).
        rewrite filter_app, Hnzow. rewrite app_assoc. exact I5.
Qed.

(* ---- invariants that need no assumption on the input ---- *)
Definition buf_nz (b : buf) : Prop := Forall (fun r => nonzero_time r = true) (buf_flatten b).

Lemma nonzero_time_iff r : nonzero_time r = true <-> et r <> zero_ns.
Proof. unfold nonzero_time. rewrite negb_true_iff, Z.eqb_neq. tauto. Qed.

Lemma etb_any_inv : forall es b b' o,
  buf_wf None b -> buf_inh b -> etb_run_from b es = (b', o) ->
  buf_wf None b' /\ buf_inh b' /\ watermarks o = watermarks es /\
  filter (fun r => negb (nonzero_time r)) (records o) = filter (fun r => negb (nonzero_time r)) (records es).
Proof.
  induction es as [|e rest IH]; intros b b' o Hwf Hinh E; cbn [etb_run_from] in E.
  - inversion E; subst. repeat split; auto.
  - destruct (etb_step b e) as [b1 o1] eqn:E1. destruct (etb_run_from b1 rest) as [b2 o2] eqn:E2. inversion E; subst.
    destruct e as [r|w]; cbn [etb_step] in E1.
    + destruct (Z.eqb_spec (et r) zero_ns) as [Ez|Ez]; inversion E1; subst.
      * destruct (IH b1 b' o2 Hwf Hinh E2) as [I1 [I2 [I3 I4]]]. repeat split; auto.
        cbn [app records flat_map filter]. fold (records o2) (records rest). rewrite I4. reflexivity.
      * destruct (IH (buf_add r b) b' o2 (buf_add_wf r b None Hwf I Ez) (buf_add_inh r b Hinh) E2) as [I1 [I2 [I3 I4]]].
        repeat split; auto. cbn [app records flat_map filter]. fold (records rest).
        assert (nonzero_time r = true) as -> by (apply nonzero_time_iff; exact Ez). exact I4.
    + destruct (buf_emit w b) as [ow bw] eqn:Ew. inversion E1; subst.
      destruct (buf_emit_char w b None ow b1 Hwf Ew) as [F1 [F2 [F3 F4]]].
      destruct (IH b1 b' o2 F4 (buf_emit_inh w b ow b1 Hinh Ew) E2) as [I1 [I2 [I3 I4]]].
      repeat split; auto.
      * rewrite <- app_assoc, watermarks_app, watermarks_map_Rec. cbn [app watermarks flat_map]. fold (watermarks o2) (watermarks rest).
        rewrite I3. reflexivity.
      * rewrite <- app_assoc, records_map_Rec_app. cbn [app records flat_map]. fold (records o2) (records rest).
        rewrite filter_app, I4.
        assert (filter (fun r => negb (nonzero_time r)) ow = []) as ->; [|reflexivity].
        apply filter_none. intros x Hx. rewrite Forall_forall in F2. destruct (F2 x Hx) as [_ [_ Hz]].
        apply nonzero_time_iff in Hz. rewrite Hz. reflexivity.
Qed.

Lemma wf_nil : buf_wf None [] /\ buf_inh []. Proof. split; [exact I | intros t rs []]. Qed.

Lemma input_ok_flatten inp b o :
  c18_input_ok inp = true -> etb_run_from [] inp = (b, o) -> buf_wf None b ->
  Forall (fun r => et r <= max_wm) (buf_flatten b).
Proof.
  intros Hok E Hwf. pose proof (etb_perm inp [] b o E) as P. cbn [buf_flatten flat_map app] in P.
  pose proof (buf_wf_flatten None b Hwf) as Hnz.
  apply Forall_forall. intros r Hr.
  assert (Hin : In r (records inp)). { eapply Permutation_in; [exact P|]. apply in_or_app. right. exact Hr. }
  unfold c18_input_ok in Hok. rewrite forallb_forall in Hok. specialize (Hok r Hin).
  rewrite Forall_forall in Hnz. destruct (Hnz r Hr) as [_ Hz].
  apply orb_true_iff in Hok. destruct Hok as [Hk|Hk]; [apply Z.eqb_eq in Hk; contradiction | apply Z.leb_le; exact Hk].
Qed.

Lemma etb_finish_char inp b o :
  c18_input_ok inp = true -> etb_run_from [] inp = (b, o) ->
  etb_run_finish inp = o ++ map Rec (buf_flatten b).
Proof.
  intros Hok E. destruct wf_nil as [W0 N0].
  destruct (etb_any_inv inp [] b o W0 N0 E) as [I1 [I2 _]].
  unfold etb_run_finish, etb_finish. rewrite E.
  rewrite (buf_emit_all max_wm b (input_ok_flatten inp b o Hok E I1) I2). reflexivity.
Qed.

(* every record exactly once, unchanged: any input whose event times do not exceed WatermarkMaxValue *)
Lemma buffer_perm inp : c18_input_ok inp = true -> Permutation (records (etb_run_finish inp)) (records inp).
Proof.
  intro Hok. destruct (etb_run_from [] inp) as [b o] eqn:E.
  rewrite (etb_finish_char inp b o Hok E), records_app, records_map_Rec.
  apply (etb_perm inp [] b o E).
Qed.

Lemma buffer_watermarks inp : watermarks (etb_run_finish inp) = watermarks inp.
Proof.
  destruct wf_nil as [W0 N0]. destruct (etb_run_from [] inp) as [b o] eqn:E.
  destruct (etb_any_inv inp [] b o W0 N0 E) as [_ [_ [I3 _]]].
  unfold etb_run_finish, etb_finish. rewrite E, watermarks_app, watermarks_map_Rec, app_nil_r. exact I3.
Qed.

(* records without an event time are handed on at once: their order is the input's *)
Lemma buffer_zero_time_order inp :
  filter (fun r => negb (nonzero_time r)) (records (etb_run_finish inp)) =
  filter (fun r => negb (nonzero_time r)) (records inp).
Proof.
  destruct wf_nil as [W0 N0]. destruct (etb_run_from [] inp) as [b o] eqn:E.
  destruct (etb_any_inv inp [] b o W0 N0 E) as [I1 [_ [_ I4]]].
  unfold etb_run_finish, etb_finish. rewrite E, records_app, records_map_Rec, filter_app, I4.
  destruct (buf_emit max_wm b) as [ow bw] eqn:Ew. cbn [fst].
  destruct (buf_emit_char max_wm b None ow bw I1 Ew) as [_ [F2 _]].
  assert (filter (fun r => negb (nonzero_time r)) ow = []) as ->; [|apply app_nil_r].
  apply filter_none. intros x Hx. rewrite Forall_forall in F2. destruct (F2 x Hx) as [_ [_ Hz]].
  apply nonzero_time_iff in Hz. rewrite Hz. reflexivity.
Qed.

Lemma etb_step_zero_time b r : et r = zero_ns -> etb_step b (Rec r) = (b, [Rec r]).
Proof. intro H. cbn [etb_step]. rewrite H, Z.eqb_refl. reflexivity. Qed.

(* event-time order, stable; and no late data created *)
Lemma buffer_sorted_stable inp :
  well_timed inp = true -> c18_input_ok inp = true ->
  filter nonzero_time (records (etb_run_finish inp)) = et_sort (filter nonzero_time (records inp)).
Proof.
  intros Hwt Hok. destruct (etb_run_from [] inp) as [b o] eqn:E.
  destruct (etb_run_inv inp [] None [] I Hwt (Forall_nil _) b o E) as [I1 [_ [_ [I4 _]]]].
  rewrite (etb_finish_char inp b o Hok E), records_app, records_map_Rec, filter_app.
  cbn [app buf_flatten flat_map] in I4. unfold et_sort. fold (ins_all (filter nonzero_time (records inp)) []). rewrite <- I4.
  f_equal. pose proof (buf_wf_flatten _ _ I1) as Hnz.
  clear -Hnz. induction (buf_flatten b) as [|x xs IHx]; [reflexivity|]. inversion Hnz as [|? ? [_ Hz] Hr]; subst.
  cbn [filter]. apply nonzero_time_iff in Hz. rewrite Hz, IHx by assumption. reflexivity.
Qed.

Lemma buffer_well_timed inp : well_timed inp = true -> well_timed (etb_run_finish inp) = true.
Proof.
  intro Hwt. destruct (etb_run_from [] inp) as [b o] eqn:E.
  destruct (etb_run_inv inp [] None [] I Hwt (Forall_nil _) b o E) as [I1 [I2 [I3 _]]].
  unfold well_timed, etb_run_finish, etb_finish. rewrite E, well_timed_app, I2, I3, well_timed_recs. cbn [andb].
  destruct (buf_emit max_wm b) as [ow bw] eqn:Ew. cbn [fst].
  destruct (buf_emit_char max_wm b _ ow bw I1 Ew) as [_ [F2 _]].
  apply forallb_forall. intros x Hx. rewrite Forall_forall in F2. destruct (F2 x Hx) as [_ [B _]].
  unfold not_late. destruct (last_wm None inp) as [l|]; cbn [lo_lt] in B; [|apply orb_true_r].
  apply orb_true_iff. right. apply Z.ltb_lt. exact B.
Qed.

(* ---- at a watermark: exactly the records it covers have left the buffer (any input with monotone watermarks) ---- *)
Definition le_opt (r : rec) (lo : option Z) : Prop := match lo with None => False | Some l => et r <= l end.

Lemma mono_last es : forall w, monotone_opt (Some w) es = true -> exists w', last_wm (Some w) es = Some w' /\ w <= w'.
Proof.
  induction es as [|e rest IH]; intros w H; [exists w; split; [reflexivity|lia]|].
  destruct e as [r|w2]; cbn [monotone_opt last_wm fold_left] in *.
  - apply IH. exact H.
  - apply andb_true_iff in H. destruct H as [H1 H2]. cbn [wm_le] in H1. apply Z.leb_le in H1.
    destruct (IH w2 H2) as [w' [A B]]. exists w'. split; [exact A|lia].
Qed.

Lemma etb_released : forall es b lo b' o,
  buf_wf None b -> monotone_opt lo es = true -> etb_run_from b es = (b', o) ->
  Forall (fun r => et r = zero_ns \/ le_opt r (last_wm lo es)) (records o).
Proof.
  induction es as [|e rest IH]; intros b lo b' o Hwf Hm E; cbn [etb_run_from] in E.
  - inversion E; subst. constructor.
  - destruct (etb_step b e) as [b1 o1] eqn:E1. destruct (etb_run_from b1 rest) as [b2 o2] eqn:E2. inversion E; subst.
    rewrite records_app. apply Forall_app.
    destruct e as [r|w]; cbn [etb_step monotone_opt] in *.
    + destruct (Z.eqb_spec (et r) zero_ns) as [Ez|Ez]; inversion E1; subst; cbn [last_wm fold_left]; fold (last_wm lo rest).
      * split; [constructor; [left; exact Ez|constructor] | apply (IH b1 lo b' o2 Hwf Hm E2)].
      * split; [constructor | apply (IH _ lo b' o2 (buf_add_wf r b None Hwf I Ez) Hm E2)].
    + apply andb_true_iff in Hm. destruct Hm as [Hh Hm].
      destruct (buf_emit w b) as [ow bw] eqn:Ew. inversion E1; subst.
      destruct (buf_emit_char w b None ow b1 Hwf Ew) as [F1 [F2 [F3 F4]]].
      cbn [last_wm fold_left]. fold (last_wm (Some w) rest).
      destruct (mono_last rest w Hm) as [w' [Hl Hle]].
      split; [|apply (IH b1 (Some w) b' o2 F4 Hm E2)].
      rewrite records_app, records_map_Rec. cbn [records flat_map app]. rewrite app_nil_r.
      eapply Forall_impl; [|exact F2]. cbn beta. intros x [A _]. right. rewrite Hl. cbn [le_opt]. lia.
Qed.

Lemma perm_filter_split (p : rec -> bool) a b l :
  Permutation (a ++ b) l -> Forall (fun r => p r = true) a -> Forall (fun r => p r = false) b ->
  Permutation a (filter p l).
Proof.
  intros P Ha Hb.
  assert (Pf : forall l1 l2 : list rec, Permutation l1 l2 -> Permutation (filter p l1) (filter p l2)).
  { induction 1; cbn [filter]; [constructor | destruct (p x); [constructor|]; assumption
                               | destruct (p x), (p y); try reflexivity; apply perm_swap
                               | etransitivity; eassumption]. }
  rewrite <- (Pf _ _ P), filter_app.
  assert (filter p b = []) as -> by (apply filter_none; rewrite Forall_forall in Hb; exact Hb).
  rewrite app_nil_r.
  assert (filter p a = a) as ->; [|reflexivity].
  clear -Ha. induction a as [|x xs IH]; [reflexivity|]. inversion Ha; subst. cbn [filter]. rewrite H1, IH by assumption. reflexivity.
Qed.

Lemma buffer_at_watermark pre W :
  monotone (pre ++ [WM W]) = true ->
  exists o, etb_run (pre ++ [WM W]) = o ++ [WM W] /\
            Permutation (records o) (filter (released_by W) (records pre)).
Proof.
  intro Hm. destruct wf_nil as [W0 N0]. unfold etb_run. rewrite etb_run_from_app.
  destruct (etb_run_from [] pre) as [b1 o1] eqn:E1. cbn [etb_run_from etb_step].
  destruct (buf_emit W b1) as [ow b2] eqn:Ew. cbn [snd]. rewrite app_nil_r.
  exists (o1 ++ map Rec ow). split; [rewrite app_assoc; reflexivity|].
  destruct (etb_any_inv pre [] b1 o1 W0 N0 E1) as [I1 _].
  destruct (buf_emit_char W b1 None ow b2 I1 Ew) as [F1 [F2 [F3 _]]].
  unfold monotone in Hm. rewrite monotone_via_watermarks, watermarks_app in Hm.
  assert (Hm1 : monotone_opt None pre = true /\ forall l, last_wm None pre = Some l -> l <= W).
  { clear -Hm. cbn [watermarks flat_map app] in Hm. revert Hm. generalize (@None Z). induction pre as [|e rest IH]; intros lo Hm.
    - split; [reflexivity|]. cbn [watermarks flat_map app mono_list last_wm fold_left] in *. intros l ->.
      rewrite andb_true_r in Hm. apply Z.leb_le. exact Hm.
    - destruct e as [r|w]; cbn [watermarks flat_map app monotone_opt last_wm fold_left] in *.
      + apply IH. exact Hm.
      + fold (watermarks rest) in Hm. cbn [mono_list] in Hm. apply andb_true_iff in Hm. destruct Hm as [H1 H2].
        destruct (IH (Some w) H2) as [A B]. split; [rewrite H1; exact A | exact B]. }
  destruct Hm1 as [Hmp Hlast].
  pose proof (etb_released pre [] None b1 o1 W0 Hmp E1) as R.
  pose proof (etb_perm pre [] b1 o1 E1) as P. cbn [buf_flatten flat_map app] in P. rewrite F1 in P.
  rewrite records_app, records_map_Rec. rewrite app_assoc in P.
  apply (perm_filter_split (released_by W) _ (buf_flatten b2) _ P).
  - apply Forall_app. split.
    + eapply Forall_impl; [|exact R]. cbn beta. intros x [Hz|Hl]; unfold released_by; apply orb_true_iff.
      * left. apply Z.eqb_eq. exact Hz.
      * right. destruct (last_wm None pre) as [l|] eqn:El; [|contradiction]. cbn [le_opt] in Hl. specialize (Hlast l eq_refl). apply Z.leb_le. lia.
    + eapply Forall_impl; [|exact F2]. cbn beta. intros x [A _]. unfold released_by. apply orb_true_iff. right. apply Z.leb_le. exact A.
  - eapply Forall_impl; [|apply (buf_wf_flatten _ _ F3)]. cbn beta. cbn [lo_lt]. intros x [A B]. unfold released_by.
    apply orb_false_iff. split; [apply Z.eqb_neq; exact B | apply Z.leb_gt; exact A].
Qed.

Lemma buffer_output_prefix pre W post :
  exists rest, etb_run_finish (pre ++ WM W :: post) = etb_run (pre ++ [WM W]) ++ rest.
Proof.
  unfold etb_run_finish, etb_run. rewrite !etb_run_from_app.
  destruct (etb_run_from [] pre) as [b1 o1]. cbn [etb_run_from etb_step].
  destruct (buf_emit W b1) as [ow b2]. destruct (etb_run_from b2 post) as [b3 o3]. cbn [snd].
  exists (o3 ++ etb_finish b3). rewrite app_nil_r, <- !app_assoc. reflexivity.
Qed.

(* ------------------------------------------------------------------ per-record nodes *)
Definition keeps_time (f : rec -> outcome (list rec)) : Prop :=
  forall r rs, f r = Ok rs -> Forall (fun r' => et r' = et r) rs.

Lemma per_record_wt f : keeps_time f -> forall es lo out,
  per_record f es = Ok out -> well_timed_from lo es = true -> well_timed_from lo out = true.
Proof.
  intro K. induction es as [|e rest IH]; intros lo out H Hwt; cbn [per_record] in H.
  - inversion H. reflexivity.
  - destruct e as [r|w]; cbn [well_timed_from] in Hwt; apply andb_true_iff in Hwt; destruct Hwt as [Hh Hwt].
    + destruct (f r) as [rs| |] eqn:Ef; try discriminate. cbn [obind] in H.
      destruct (per_record f rest) as [o| |] eqn:Ep; try discriminate. cbn [obind] in H. inversion H; subst out.
      rewrite well_timed_app, well_timed_recs, last_wm_recs, (IH lo o eq_refl Hwt), andb_true_r.
      apply forallb_forall. intros x Hx. pose proof (K r rs Ef) as F. rewrite Forall_forall in F.
      unfold not_late in *. rewrite (F x Hx). exact Hh.
    + destruct (per_record f rest) as [o| |] eqn:Ep; try discriminate. cbn [obind] in H. inversion H; subst out.
      cbn [well_timed_from]. rewrite Hh, (IH (Some w) o eq_refl Hwt). reflexivity.
Qed.

Lemma per_record_watermarks f : forall es out, per_record f es = Ok out -> watermarks out = watermarks es.
Proof.
  induction es as [|e rest IH]; intros out H; cbn [per_record] in H.
  - inversion H. reflexivity.
  - destruct e as [r|w].
    + destruct (f r) as [rs| |]; try discriminate. cbn [obind] in H.
      destruct (per_record f rest) as [o| |]; try discriminate. cbn [obind] in H. inversion H; subst out.
      rewrite watermarks_app, watermarks_map_Rec. cbn [app watermarks flat_map]. apply IH. reflexivity.
    + destruct (per_record f rest) as [o| |]; try discriminate. cbn [obind] in H. inversion H; subst out.
      cbn [watermarks flat_map app]. fold (watermarks o) (watermarks rest). rewrite (IH o eq_refl). reflexivity.
Qed.

Lemma filter_keeps idx : keeps_time (filter_rec idx).
Proof.
  intros r rs H. unfold filter_rec in H. destruct (nth_error (vals r) idx) as [[| | |[]| | | | | |]|]; inversion H; subst; repeat constructor.
Qed.
Lemma map_keeps idxs : keeps_time (map_rec idxs).
Proof.
  intros r rs H. unfold map_rec in H. destruct (project idxs (vals r)); try discriminate. cbn [obind] in H.
  inversion H; subst. repeat constructor.
Qed.
Lemma unnest_keeps idx : keeps_time (unnest_rec idx).
Proof.
  intros r rs H. unfold unnest_rec in H. destruct (nth_error (vals r) idx) as [v|]; try discriminate.
  destruct v; inversion H; subst; try constructor. apply Forall_forall. intros x Hx. apply in_map_iff in Hx.
  destruct Hx as [y [<- _]]. reflexivity.
Qed.

Definition tumble_as_list len off idx (r : rec) : outcome (list rec) :=
  obind (tumble_rec len off idx r) (fun r' => Ok [r']).
Lemma tumble_loop_per_record len off idx es : tumble_loop len off idx es = per_record (tumble_as_list len off idx) es.
Proof.
  induction es as [|e rest IH]; [reflexivity|]. destruct e as [r|w]; cbn [tumble_loop per_record]; rewrite IH; [|reflexivity].
  unfold tumble_as_list. destruct (tumble_rec len off idx r); reflexivity.
Qed.
Lemma tumble_keeps len off idx : keeps_time (tumble_as_list len off idx).
Proof.
  intros r rs H. unfold tumble_as_list, tumble_rec in H. destruct (time_at idx r); try discriminate.
  cbn [obind] in H. inversion H; subst. repeat constructor.
Qed.

(* ------------------------------------------------------------------ max_diff_watermark: well timed whatever comes in *)
Lemma mdw_loop_wt rnd md idx : forall es st lo out,
  (lo = None \/ (lo = Some (snd st) /\ snd st = fst st + wrap64 (- md))) ->
  mdw_loop rnd md idx st es = Ok out -> well_timed_from lo out = true.
Proof.
  induction es as [|e rest IH]; intros st lo out Hlo H; cbn [mdw_loop] in H.
  - inversion H. reflexivity.
  - destruct (mdw_step rnd md idx st e) as [[st' o1]| |] eqn:Es; try discriminate. cbn [obind fst snd] in H.
    destruct (mdw_loop rnd md idx st' rest) as [o2| |] eqn:El; try discriminate. cbn [obind] in H. inversion H; subst out.
    destruct e as [r|w]; cbn [mdw_step] in Es.
    + destruct (time_at idx r) as [[t loc]| |]; try discriminate. cbn [obind fst snd] in Es.
      destruct (rnd t) as [rounded| |]; try discriminate. cbn [obind] in Es.
      assert (Hkeep : well_timed_from lo (if snd st <? t then [Rec (set_et r t)] else []) = true).
      { destruct (Z.ltb_spec (snd st) t); [|reflexivity]. cbn [well_timed_from set_et]. rewrite andb_true_r.
        unfold not_late. cbn [et]. destruct Hlo as [->|[-> _]]; [apply orb_true_r|].
        apply orb_true_iff. right. apply Z.ltb_lt. assumption. }
      assert (Hlast : last_wm lo (if snd st <? t then [Rec (set_et r t)] else []) = lo) by (destruct (snd st <? t); reflexivity).
      destruct (Z.ltb_spec (fst st) rounded) as [L|L]; inversion Es; subst st' o1.
      * rewrite <- app_assoc, well_timed_app, Hkeep, Hlast. cbn [app well_timed_from andb].
        rewrite (IH (rounded, rounded + wrap64 (- md)) (Some (rounded + wrap64 (- md))) o2 (or_intror (conj eq_refl eq_refl)) El), andb_true_r.
        destruct Hlo as [->|[-> Hs]]; [reflexivity|]. cbn [wm_le]. apply Z.leb_le. lia.
      * rewrite well_timed_app, Hkeep, Hlast. cbn [andb]. apply (IH st lo o2 Hlo El).
    + inversion Es; subst st' o1. cbn [app]. apply (IH st lo o2 Hlo El).
Qed.

Lemma mdw_run_wt md res idx inp out : mdw_run md res idx inp = Ok out -> well_timed out = true.
Proof.
  unfold mdw_run. destruct (res <=? 0); [discriminate|]. apply mdw_loop_wt. left. reflexivity.
Qed.
Lemma mdw_run_pinned_wt md res idx inp out : mdw_run_pinned md res idx inp = Ok out -> well_timed out = true.
Proof. unfold mdw_run_pinned. apply mdw_loop_wt. left. reflexivity. Qed.

(* ------------------------------------------------------------------ poll *)
Lemma recs_at_wt lo n (l : list rec) :
  lo_lt lo n -> Forall (fun r => et r = n) l -> forallb (not_late lo) l = true.
Proof.
  intros Hl F. apply forallb_forall. intros x Hx. rewrite Forall_forall in F. unfold not_late. rewrite (F x Hx).
  destruct lo as [l0|]; [|apply orb_true_r]. apply orb_true_iff. right. apply Z.ltb_lt. exact Hl.
Qed.

Lemma round_wt lo n (A B : list rec) rest :
  lo_lt lo n -> Forall (fun r => et r = n) A -> Forall (fun r => et r = n) B ->
  well_timed_from lo ((map Rec A ++ map Rec B ++ [WM n]) ++ rest) = well_timed_from (Some n) rest.
Proof.
  intros Hl FA FB.
  rewrite <- !app_assoc. rewrite well_timed_app, well_timed_recs, last_wm_recs, (recs_at_wt lo n A Hl FA).
  rewrite well_timed_app, well_timed_recs, last_wm_recs, (recs_at_wt lo n B Hl FB).
  cbn [app well_timed_from andb].
  assert (wm_le lo n = true) as ->; [|reflexivity].
  destruct lo as [l0|]; [|reflexivity]. cbn [wm_le lo_lt] in *. apply Z.leb_le. lia.
Qed.

Lemma poll_spec_wt now loc : (forall k, now k < now (S k)) ->
  forall snaps k prev,
    well_timed_from (match k with O => None | S k' => Some (now k') end) (poll_spec_from now loc k prev snaps) = true.
Proof.
  intros Hc. induction snaps as [|cur rest IH]; intros k prev; cbn [poll_spec_from].
  - destruct k as [|k']; [reflexivity|].
    rewrite <- (map_map (fun row => mkrec (stamp (now k') loc row) true (now (S k'))) Rec), well_timed_recs.
    apply (recs_at_wt _ (now (S k'))); [cbn [lo_lt]; apply Hc|].
    apply Forall_forall. intros x Hx. apply in_map_iff in Hx. destruct Hx as [row [<- _]]. reflexivity.
  - unfold poll_round_spec.
    rewrite <- (map_map (fun row => mkrec (stamp (now k) loc row) false (now k)) Rec).
    assert (FB : Forall (fun r => et r = now k) (map (fun row => mkrec (stamp (now k) loc row) false (now k)) cur)).
    { apply Forall_forall. intros x Hx. apply in_map_iff in Hx. destruct Hx as [row [<- _]]. reflexivity. }
    destruct k as [|k'].
    + change (@nil event) with (map Rec []). rewrite (round_wt None (now 0%nat) [] _ _ I (Forall_nil _) FB).
      apply (IH 1%nat cur).
    + rewrite <- (map_map (fun row => mkrec (stamp (now k') loc row) true (now (S k'))) Rec).
      rewrite (round_wt (Some (now k')) (now (S k')) _ _ _ (Hc k')); [apply (IH (S (S k')) cur) | | exact FB].
      apply Forall_forall. intros x Hx. apply in_map_iff in Hx. destruct Hx as [row [<- _]]. reflexivity.
Qed.

Lemma poll_run_wt now loc srcs :
  (forall k, now k < now (S k)) -> zero_ns < now O -> forallb no_wms srcs = true ->
  well_timed (poll_run now loc srcs) = true.
Proof.
  intros Hc H0 Hs. rewrite poll_run_char; [apply (poll_spec_wt now loc Hc _ O []) | | exact Hs].
  intro k. assert (zero_ns < now k); [|lia]. induction k as [|k IH]; [exact H0 | specialize (Hc k); lia].
Qed.

(* ------------------------------------------------------------------ Limit, Distinct, OrderSensitiveTransform *)
Lemma limit_go_prefix n : forall inp i, exists rest, inp = Operators.limit_go n i inp ++ rest.
Proof.
  induction inp as [|e tl IH]; intro i; [exists []; reflexivity|]. destruct e as [r|w]; cbn [Operators.limit_go].
  - destruct (i + 1 =? n); [exists tl; reflexivity|]. destruct (IH (i + 1)) as [rest H]. exists rest. cbn [app]. rewrite <- H. reflexivity.
  - destruct (IH i) as [rest H]. exists rest. cbn [app]. rewrite <- H. reflexivity.
Qed.
Lemma run_limit_prefix n inp : exists rest, inp = Operators.run_limit n inp ++ rest.
Proof. unfold Operators.run_limit. destruct (n =? 0); [exists inp; reflexivity | apply limit_go_prefix]. Qed.

Lemma well_timed_prefix a b lo : well_timed_from lo (a ++ b) = true -> well_timed_from lo a = true.
Proof. rewrite well_timed_app. intro H. apply andb_true_iff in H. tauto. Qed.
Lemma monotone_prefix a b lo : monotone_opt lo (a ++ b) = true -> monotone_opt lo a = true.
Proof.
  revert lo. induction a as [|e tl IH]; intros lo H; [reflexivity|]. destruct e as [r|w]; cbn [app monotone_opt] in *.
  - apply IH. exact H.
  - apply andb_true_iff in H. destruct H as [H1 H2]. rewrite H1. apply IH. exact H2.
Qed.

(* a stream without watermarks is well timed whatever its records are *)
Lemma no_watermarks_well_timed es : watermarks es = [] -> well_timed es = true /\ monotone es = true.
Proof.
  unfold well_timed, monotone. induction es as [|e tl IH]; intro H; [split; reflexivity|]. destruct e as [r|w].
  - cbn [watermarks flat_map app] in H. destruct (IH H) as [A B]. cbn [well_timed_from monotone_opt]. rewrite A.
    split; [|exact B]. unfold not_late. rewrite orb_true_r. reflexivity.
  - cbn [watermarks flat_map app] in H. discriminate.
Qed.

Lemma distinct_from_no_watermarks : forall inp st, watermarks (Operators.distinct_from st inp) = [].
Proof.
  induction inp as [|e tl IH]; intro st; [reflexivity|]. destruct e as [r|w]; cbn [Operators.distinct_from]; [|apply IH].
  destruct (Operators.distinct_step st r) as [st' out] eqn:E. rewrite watermarks_app, IH, app_nil_r.
  unfold Operators.distinct_step in E.
  destruct (0 <? (if retr r then _ else _)); [destruct (negb (retr r) && _)|]; inversion E; reflexivity.
Qed.
Lemma distinct_from_records : forall inp st r, In r (records (Operators.distinct_from st inp)) -> In r (records inp).
Proof.
  induction inp as [|e tl IH]; intros st r H; [exact H|]. destruct e as [x|w]; cbn [Operators.distinct_from] in H.
  - destruct (Operators.distinct_step st x) as [st' out] eqn:E. rewrite records_app in H. apply in_app_or in H.
    cbn [records flat_map app In]. fold (records tl). destruct H as [H|H]; [|right; exact (IH st' r H)].
    unfold Operators.distinct_step in E.
    destruct (0 <? (if retr x then _ else _)); [destruct (negb (retr x) && _)|]; inversion E; subst out; cbn in H;
      try contradiction; destruct H as [H|[]]; left; exact H.
  - cbn [records flat_map app]. exact (IH st r H).
Qed.

Lemma run_ost_shape ks limit noretr inp out :
  Operators.run_ost ks limit noretr inp = Ok out ->
  watermarks out = [] /\ Forall (fun r => et r = zero_ns /\ retr r = false) (records out).
Proof.
  unfold Operators.run_ost, Operators.run_ost_gen. intro H.
  assert (G : forall rows, watermarks (map (fun x => Rec (Operators.ins x)) rows) = [] /\
                           Forall (fun r => et r = zero_ns /\ retr r = false) (records (map (fun x => Rec (Operators.ins x)) rows))).
  { induction rows as [|x xs [A B]]; [split; [reflexivity|constructor]|]. split; [exact A|].
    cbn [map records flat_map app]. constructor; [split; reflexivity | exact B]. }
  destruct limit as [n|].
  - destruct (n =? 0); [inversion H; split; [reflexivity|constructor]|]. destruct (n <? 0); [discriminate|].
    inversion H. apply G.
  - inversion H. apply G.
Qed.

(* ------------------------------------------------------------------ nodes and pipelines *)
Lemma run_node_wt n inp out : run_node n inp = Ok out -> well_timed inp = true -> well_timed out = true.
Proof.
  destruct n as [|idx|idxs|idx|len off idx|md res idx|n| |ks limit noretr]; cbn [run_node]; intros H Hwt.
  - inversion H; subst. apply buffer_well_timed. exact Hwt.
  - exact (per_record_wt _ (filter_keeps idx) inp None out H Hwt).
  - exact (per_record_wt _ (map_keeps idxs) inp None out H Hwt).
  - exact (per_record_wt _ (unnest_keeps idx) inp None out H Hwt).
  - unfold tumble_run in H. destruct (len <=? 0); [discriminate|]. rewrite tumble_loop_per_record in H.
    exact (per_record_wt _ (tumble_keeps len off idx) inp None out H Hwt).
  - exact (mdw_run_wt md res idx inp out H).
  - inversion H; subst. destruct (run_limit_prefix n inp) as [rest E]. unfold well_timed in *. rewrite E in Hwt.
    exact (well_timed_prefix _ _ _ Hwt).
  - inversion H; subst. apply no_watermarks_well_timed. apply distinct_from_no_watermarks.
  - apply no_watermarks_well_timed. exact (proj1 (run_ost_shape _ _ _ _ _ H)).
Qed.

Lemma run_node_monotone n inp out : run_node n inp = Ok out -> monotone inp = true -> monotone out = true.
Proof.
  unfold monotone. destruct n as [|idx|idxs|idx|len off idx|md res idx|n| |ks limit noretr]; cbn [run_node]; intros H Hm.
  - inversion H; subst. rewrite monotone_via_watermarks, buffer_watermarks, <- monotone_via_watermarks. exact Hm.
  - rewrite monotone_via_watermarks, (per_record_watermarks _ inp out H), <- monotone_via_watermarks. exact Hm.
  - rewrite monotone_via_watermarks, (per_record_watermarks _ inp out H), <- monotone_via_watermarks. exact Hm.
  - rewrite monotone_via_watermarks, (per_record_watermarks _ inp out H), <- monotone_via_watermarks. exact Hm.
  - unfold tumble_run in H. destruct (len <=? 0); [discriminate|]. rewrite tumble_loop_per_record in H.
    rewrite monotone_via_watermarks, (per_record_watermarks _ inp out H), <- monotone_via_watermarks. exact Hm.
  - apply wt_monotone. exact (mdw_run_wt md res idx inp out H).
  - inversion H; subst. destruct (run_limit_prefix n inp) as [rest E]. rewrite E in Hm. exact (monotone_prefix _ _ _ Hm).
  - inversion H; subst. apply no_watermarks_well_timed. apply distinct_from_no_watermarks.
  - apply no_watermarks_well_timed. exact (proj1 (run_ost_shape _ _ _ _ _ H)).
Qed.

(* composition: what holds for every node holds for every pipeline of them *)
Lemma run_pipeline_preserves (P : list event -> Prop) :
  (forall n inp out, run_node n inp = Ok out -> P inp -> P out) ->
  forall ns inp out, run_pipeline ns inp = Ok out -> P inp -> P out.
Proof.
  intro Hn. induction ns as [|n rest IH]; intros inp out H Hp; cbn [run_pipeline] in H.
  - inversion H; subst. exact Hp.
  - destruct (run_node n inp) as [mid| |] eqn:E; try discriminate. cbn [obind] in H.
    apply (IH mid out H). apply (Hn n inp mid E Hp).
Qed.

Lemma run_pipeline_wt ns inp out : run_pipeline ns inp = Ok out -> well_timed inp = true -> well_timed out = true.
Proof. apply (run_pipeline_preserves (fun es => well_timed es = true)). exact run_node_wt. Qed.
Lemma run_pipeline_monotone ns inp out : run_pipeline ns inp = Ok out -> monotone inp = true -> monotone out = true.
Proof. apply (run_pipeline_preserves (fun es => monotone es = true)). exact run_node_monotone. Qed.

Lemma run_pipeline_app a b inp : run_pipeline (a ++ b) inp = obind (run_pipeline a inp) (run_pipeline b).
Proof.
  revert inp. induction a as [|n rest IH]; intro inp; cbn [app run_pipeline obind]; [reflexivity|].
  destruct (run_node n inp); cbn [obind]; [apply IH | reflexivity | reflexivity].
Qed.

(* the pinned poll is not well timed, under the very clock hypothesis *)
Lemma poll_pinned_not_well_timed :
  exists now srcs, (forall k, now k < now (S k)) /\ zero_ns < now O /\ forallb no_wms srcs = true /\
                   well_timed (poll_run_pinned now 0 srcs) = false.
Proof.
  exists (fun k => 100 + Z.of_nat k), [[Rec (mkrec [VInt 7] false zero_ns)]; []].
  split; [intro k; lia|]. split; [unfold zero_ns; lia|]. split; vm_compute; reflexivity.
Qed.
