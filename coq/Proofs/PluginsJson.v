(* Proofs/PluginsJson.v — the flat JSON written by Install / AddRepository decodes again (C27). *)
From Octo Require Import Plugins PluginsProofs PluginsFs.
Local Arguments bytes_eqb : simpl never.

Definition safe_pair (e : bytes * bytes) : Prop := safe_str (fst e) = true /\ safe_str (snd e) = true.

Lemma span_safe_stop : forall s r, safe_str s = true -> span_safe (s ++ 34 :: r) = (s, 34 :: r).
Proof.
  induction s as [|c s IH]; intros r H; simpl in *; [reflexivity|].
  apply andb_true_iff in H. destruct H as [H1 H2]. rewrite H1. rewrite (IH r H2). reflexivity.
Qed.

Lemma parse_str_enc : forall s r, safe_str s = true -> parse_str (enc_str s ++ r) = Some (s, r).
Proof.
  intros s r H. unfold enc_str, parse_str. simpl. rewrite <- app_assoc. simpl. rewrite (span_safe_stop s r H). reflexivity.
Qed.

Lemma span_safe_safe : forall s a r, span_safe s = (a, r) -> safe_str a = true.
Proof.
  induction s as [|c s IH]; intros a r H; simpl in H; [inversion H; reflexivity|].
  destruct (safe_char c) eqn:E; [|inversion H; reflexivity].
  destruct (span_safe s) as [a' r'] eqn:E'. inversion H; subst. simpl. rewrite E. simpl. eapply IH. reflexivity.
Qed.

Lemma parse_str_safe : forall s a r, parse_str s = Some (a, r) -> safe_str a = true.
Proof.
  intros s a r H. unfold parse_str in H. destruct s as [|c s]; [discriminate|].
  destruct (c =? 34); [|discriminate]. destruct (span_safe s) as [a' r'] eqn:E'. destruct r' as [|x r']; [discriminate|].
  destruct (x =? 34); [|discriminate]. inversion H; subst. eapply span_safe_safe. exact E'.
Qed.

Lemma parse_pairs_S : forall n s, parse_pairs (Datatypes.S n) s =
  match parse_str s with
  | Some (k, c :: r) =>
      if c =? 58 then
        match parse_str r with
        | Some (v, c' :: r') =>
            if (c' =? 125) && is_nil r' then Some [(k, v)]
            else if c' =? 44 then match parse_pairs n r' with Some m => Some ((k, v) :: m) | None => None end
            else None
        | _ => None
        end
      else None
  | _ => None
  end.
Proof. reflexivity. Qed.

Lemma parse_pairs_enc : forall m fuel, m <> [] -> Forall safe_pair m -> (length m <= fuel)%nat ->
  parse_pairs fuel (enc_pairs m ++ [125]) = Some m.
Proof.
  induction m as [|[k v] t IH]; intros fuel Hne Hs Hf; [congruence|].
  inversion Hs as [|? ? [Sk Sv] Ht]; subst. simpl in Sk, Sv. destruct fuel as [|fuel]; [simpl in Hf; lia|].
  rewrite parse_pairs_S. destruct t as [|e t'].
  - change (enc_pairs [(k, v)]) with (enc_str k ++ 58 :: enc_str v).
    rewrite <- app_assoc. rewrite (parse_str_enc k _ Sk).
    change ((58 :: enc_str v) ++ [125]) with (58 :: (enc_str v ++ [125])). cbv beta iota. rewrite Z.eqb_refl.
    rewrite (parse_str_enc v [125] Sv). reflexivity.
  - change (enc_pairs ((k, v) :: e :: t')) with (enc_str k ++ 58 :: enc_str v ++ 44 :: enc_pairs (e :: t')).
    rewrite <- app_assoc. rewrite (parse_str_enc k _ Sk).
    change ((58 :: enc_str v ++ 44 :: enc_pairs (e :: t')) ++ [125]) with (58 :: ((enc_str v ++ 44 :: enc_pairs (e :: t')) ++ [125])).
    cbv beta iota. rewrite Z.eqb_refl.
    rewrite <- app_assoc. rewrite (parse_str_enc v _ Sv).
    change ((44 :: enc_pairs (e :: t')) ++ [125]) with (44 :: (enc_pairs (e :: t') ++ [125])). cbv beta iota.
    change (44 =? 125) with false. change (44 =? 44) with true. cbv beta iota. simpl andb.
    rewrite (IH fuel); [reflexivity|discriminate|exact Ht|simpl in *; lia].
Qed.

Lemma enc_pairs_len : forall m, (length m <= length (enc_pairs m))%nat.
Proof.
  induction m as [|[k v] t IH]; [simpl; lia|]. destruct t as [|e t'].
  - simpl. lia.
  - change (enc_pairs ((k, v) :: e :: t')) with (enc_str k ++ 58 :: enc_str v ++ 44 :: enc_pairs (e :: t')).
    assert (L : forall (a b : bytes), length (a ++ 58 :: b ++ 44 :: enc_pairs (e :: t')) = (length a + Datatypes.S (length b + Datatypes.S (length (enc_pairs (e :: t')))))%nat).
    { intros a b. rewrite app_length. simpl. rewrite app_length. simpl. reflexivity. }
    rewrite L. change (length ((k, v) :: e :: t')) with (Datatypes.S (length (e :: t'))). lia.
Qed.

Lemma json_roundtrip : forall m, Forall safe_pair m -> json_decode (json_encode m) = Some m.
Proof.
  intros m H. destruct m as [|[k v] t]; [reflexivity|].
  unfold json_encode, json_decode. rewrite Z.eqb_refl.
  assert (E : exists c c' r, enc_pairs ((k, v) :: t) ++ [125] = c :: c' :: r).
  { destruct t as [|[k' v'] t']; simpl; unfold enc_str; simpl; destruct k; simpl; eauto. }
  destruct E as (c & c' & r & E). rewrite E. rewrite <- E.
  apply parse_pairs_enc; [discriminate|exact H|].
  simpl length. rewrite app_length. pose proof (enc_pairs_len ((k, v) :: t)). simpl in *. lia.
Qed.

(* whatever decodes consists of safe strings *)
Lemma parse_pairs_safe : forall fuel s m, parse_pairs fuel s = Some m -> Forall safe_pair m.
Proof.
  induction fuel as [|n IH]; intros s m H; [discriminate|]. rewrite parse_pairs_S in H.
  destruct (parse_str s) as [[k r]|] eqn:Pk; [|discriminate]. destruct r as [|c r]; [discriminate|].
  destruct (c =? 58); [|discriminate]. destruct (parse_str r) as [[v r']|] eqn:Pv; [|discriminate].
  destruct r' as [|c' r']; [discriminate|].
  assert (SP : safe_pair (k, v)) by (split; simpl; eapply parse_str_safe; eauto).
  destruct ((c' =? 125) && is_nil r'); [inversion H; subst; constructor; [exact SP|constructor]|].
  destruct (c' =? 44); [|discriminate]. destruct (parse_pairs n r') as [m'|] eqn:Pm; [|discriminate].
  inversion H; subst. constructor; [exact SP|eapply IH; exact Pm].
Qed.

Lemma json_decode_safe : forall s m, json_decode s = Some m -> Forall safe_pair m.
Proof.
  intros s m H. unfold json_decode in H. destruct s as [|c t]; [discriminate|]. destruct (c =? 123); [|discriminate].
  destruct t as [|c' t']; [eapply parse_pairs_safe; exact H|].
  destruct t' as [|c'' t'']; [|eapply parse_pairs_safe; exact H].
  destruct (c' =? 125); [inversion H; constructor|eapply parse_pairs_safe; exact H].
Qed.

Lemma upsert_safe : forall k v m, safe_pair (k, v) -> Forall safe_pair m -> Forall safe_pair (upsert k v m).
Proof.
  induction m as [|[k' v'] t IH]; intros Hkv Hm; simpl; [constructor; [exact Hkv|constructor]|].
  inversion Hm; subst. destruct (bytes_eqb k k'); [constructor; assumption|].
  destruct (bytes_ltb k k'); [constructor; assumption|]. constructor; [assumption|apply IH; assumption].
Qed.

Lemma norm_map_safe : forall l, Forall safe_pair l -> Forall safe_pair (norm_map l).
Proof.
  intros l H. unfold norm_map. assert (G : forall acc, Forall safe_pair acc -> Forall safe_pair (fold_left (fun m e => upsert (fst e) (snd e) m) l acc)).
  { induction H as [|[k v] t Hx Ht IH]; intros acc Ha; simpl; [exact Ha|]. apply IH. apply upsert_safe; assumption. }
  apply G. constructor.
Qed.

Lemma merged_safe : forall old i, Forall safe_pair old -> safe_str (i_name i) = true -> forallb safe_str (i_exts i) = true ->
  Forall safe_pair (merged_handlers old i).
Proof.
  intros old i Ho Hn He. unfold merged_handlers.
  assert (G : forall exts acc, forallb safe_str exts = true -> Forall safe_pair acc ->
                Forall safe_pair (fold_left (fun m e => upsert e (i_name i) m) exts acc)).
  { induction exts as [|e t IH]; intros acc Ht Ha; simpl; [exact Ha|].
    simpl in Ht. apply andb_true_iff in Ht. destruct Ht as [H1 H2]. apply IH; [exact H2|]. apply upsert_safe; [split; assumption|exact Ha]. }
  apply G; [exact He|apply norm_map_safe; exact Ho].
Qed.

(* the two facts the crash-safety theorems need *)
Lemma handlers_decode : forall f0 i old, safe_str (i_name i) = true -> forallb safe_str (i_exts i) = true ->
  load_handlers f0 = Ok old -> json_decode (json_encode (merged_handlers old i)) <> None.
Proof.
  intros f0 i old Hn He HL.
  assert (So : Forall safe_pair old).
  { unfold load_handlers in HL. destruct (fs_get f0 ext_path) as [[ns|c]|]; try discriminate.
    - destruct (json_decode c) eqn:E; [|discriminate]. inversion HL; subst. eapply json_decode_safe. exact E.
    - inversion HL. constructor. }
  rewrite (json_roundtrip _ (merged_safe old i So Hn He)). discriminate.
Qed.

Lemma repo_data_decodes : forall a, safe_str (r_url a) = true -> json_decode (repo_data a) <> None.
Proof.
  intros a H. unfold repo_data. rewrite json_roundtrip; [discriminate|].
  constructor; [split; [reflexivity|exact H]|constructor].
Qed.
