(* Proofs/SourcesStdinProofs.v — C23 (3): what execution reads from stdin is the input, whatever the
   previews read before and whatever the read sizes are. *)
From Octo Require Import SourcesStdin.
Local Open Scope nat_scope.

Lemma preview_reads_inv : forall reads rp buf rest seen buf' rest' seen',
  seen ++ rp = buf ->
  preview_reads rp buf rest reads seen = (buf', rest', seen') ->
  buf' ++ rest' = buf ++ rest /\ exists rp', seen' ++ rp' = buf'.
Proof.
  induction reads as [|[req osn] more IH]; intros rp buf rest seen buf' rest' seen' Hinv H; cbn [preview_reads] in H.
  - inversion H; subst. split; auto. eauto.
  - destruct rp as [|x rp0] eqn:E.
    + rewrite app_nil_r in Hinv. apply IH in H.
      * destruct H as [H1 H2]. split; auto. rewrite H1. rewrite <- app_assoc. rewrite firstn_skipn. auto.
      * rewrite app_nil_r. subst. auto.
    + rewrite <- E in *. apply IH in H; auto. rewrite <- app_assoc, firstn_skipn. auto.
Qed.

Lemma exec_reads_inv : forall reads rp rest seen seen' rp' rest',
  exec_reads rp rest reads seen = (seen', rp', rest') -> seen' ++ rp' ++ rest' = seen ++ rp ++ rest.
Proof.
  induction reads as [|[req osn] more IH]; intros rp rest seen seen' rp' rest' H; cbn [exec_reads] in H.
  - inversion H; subst. auto.
  - destruct rp as [|x rp0] eqn:E.
    + apply IH in H. rewrite H. cbn [app]. rewrite <- app_assoc, firstn_skipn. auto.
    + rewrite <- E in *. apply IH in H. rewrite H. rewrite <- !app_assoc. f_equal. rewrite app_assoc, firstn_skipn. auto.
Qed.

Definition sinv (input : bytes) (st : sstate) : Prop :=
  opened st = 0 /\ exists buf, pbuf st = Some buf /\ buf ++ srest st = input.

Definition is_prefix (a b : bytes) : Prop := exists r, a ++ r = b.

Lemma run_previews_inv : forall input previews st acc st' seens,
  sinv input st -> Forall (fun s => is_prefix s input) acc ->
  run_previews st previews acc = Ok (st', seens) ->
  sinv input st' /\ Forall (fun s => is_prefix s input) seens /\ length seens = length acc + length previews.
Proof.
  induction previews as [|p more IH]; intros st acc st' seens Hinv Hacc H; simpl in H.
  - inversion H; subst. split; auto.
  - destruct Hinv as [Ho [buf [Hb Hi]]]. unfold open_preview in H. rewrite Hb in H.
    destruct (preview_reads buf buf (srest st) p []) as [[buf' rest'] seen] eqn:E.
    apply preview_reads_inv in E; auto. destruct E as [E1 [rp' E2]].
    apply IH in H.
    + destruct H as [H1 [H2 H3]]. split; auto. split; auto. rewrite H3, app_length. simpl. lia.
    + split; auto. exists buf'. split; auto. simpl. congruence.
    + apply Forall_app. split; auto. constructor; auto. exists (rp' ++ rest'). rewrite app_assoc, E2, E1. auto.
Qed.

Lemma run_previews_never_fails : forall input previews st acc,
  sinv input st -> exists st' seens, run_previews st previews acc = Ok (st', seens).
Proof.
  induction previews as [|p more IH]; intros st acc Hinv; simpl. eauto.
  destruct Hinv as [Ho [buf [Hb Hi]]]. unfold open_preview. rewrite Hb.
  destruct (preview_reads buf buf (srest st) p []) as [[buf' rest'] seen] eqn:E.
  apply preview_reads_inv in E; auto. destruct E as [E1 _].
  apply IH. split; auto. exists buf'. split; auto. simpl. congruence.
Qed.

(* the run never fails, every preview sees a prefix of the input, and execution sees the input *)
Theorem stdin_replay_correct : forall input previews final_reads,
  exists seens seen unread,
    run_stdin input previews final_reads = Ok (seens, seen, unread) /\
    seen ++ unread = input /\
    length seens = length previews /\ Forall (fun s => is_prefix s input) seens.
Proof.
  intros. unfold run_stdin.
  assert (H0 : sinv input (mks (Some []) input 0)). { split; auto. exists []. auto. }
  destruct (run_previews_never_fails input previews _ [] H0) as [st [seens E]]. rewrite E.
  apply run_previews_inv with (input := input) in E; auto.
  destruct E as [[Ho [buf [Hb Hi]]] [H2 H3]].
  unfold open_exec. rewrite Ho. simpl. rewrite Hb.
  destruct (exec_reads buf (srest st) final_reads []) as [[seen rp] rest'] eqn:E.
  apply exec_reads_inv in E. simpl in E.
  exists seens, seen, (rp ++ rest'). split; auto. split. congruence. split; auto.
Qed.

(* a second execution open is refused, a preview after the execution open would dereference nil *)
Theorem stdin_second_open_refused : forall st reads, 1 <= opened st -> open_exec st reads = Err 1%Z.
Proof. intros. unfold open_exec. replace (1 <=? opened st) with true; auto. symmetry. apply Nat.leb_le. auto. Qed.
