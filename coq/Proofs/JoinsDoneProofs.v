(* Proofs/JoinsDoneProofs.v — C19_reaches_done for insert-only scripts (in particular batch inputs): neither join can
   reach the Go panic of `EventTimes[1:]` nor an error, and after both closes the node has returned nil. *)
From Coq Require Import Permutation.
From Octo Require Import Joins JoinQuery CompareLaws ChangelogLemmas JoinsBase JoinsProofs JoinQueryProofs.

(* records and watermarks, no retraction, then the close *)
Fixpoint good_script (l : list msg) : bool :=
  match l with
  | [] => false
  | MClose :: l' => match l' with [] => true | _ => false end
  | MRec r :: l' => negb (retr r) && good_script l'
  | MWM _ :: l' => good_script l'
  | MErr :: _ => false
  end.

Lemma buf_emit_split w b : forall out rest, buf_emit w b = (out, rest) -> buf_recs b = out ++ buf_recs rest.
Proof.
  induction b as [|[t rs] b IH]; intros out rest H; simpl in H.
  - inversion H. reflexivity.
  - destruct (w <? t); [inversion H; reflexivity|]. destruct (buf_emit w b) as [o' r'] eqn:E. inversion H; subst.
    unfold buf_recs in *. cbn [flat_map snd]. rewrite (IH _ _ eq_refl), app_assoc. reflexivity.
Qed.

Section Done.
  Variable recv : recv_fn.
  Variable use_mark : bool.
  Hypothesis recv_ins_ok : forall s r flag my theirs, retr r = false -> exists t' o, recv s r flag my theirs = Ok (t', o).

  Definition ins_only (l : list rec) : Prop := forall r, In r l -> retr r = false.
  (* same phase, and nothing new in the buffers *)
  Definition keeps (st st' : jstate) : Prop :=
    phase st' = phase st /\ forall s r, In r (buf_recs (buf_of s st')) -> In r (buf_recs (buf_of s st)).

  Lemma keeps_refl st : keeps st st. Proof. split; auto. Qed.
  Lemma keeps_trans a b c : keeps a b -> keeps b c -> keeps a c.
  Proof. intros [P1 B1] [P2 B2]. split; [congruence | auto]. Qed.

  Lemma receive_ins s r flag st : stopped st = false -> retr r = false ->
    keeps st (fst (receive recv s r flag st)).
  Proof.
    intros Hst Hr. unfold receive. rewrite Hst. destruct (recv_ins_ok s r flag (tree_of s st) (tree_of (other s) st) Hr) as [t' [o E]].
    rewrite E. cbn [fst]. split; destruct s; auto.
  Qed.

  Lemma stopped_keeps st st' : keeps st st' -> stopped st' = stopped st.
  Proof. intros [P _]. unfold stopped. rewrite P. reflexivity. Qed.

  Lemma receive_all_ins s flag rs : forall st, stopped st = false -> ins_only rs ->
    keeps st (fst (receive_all recv s flag rs st)).
  Proof.
    induction rs as [|r rs IH]; intros st Hst Hi; [apply keeps_refl|].
    cbn [receive_all]. pose proof (receive_ins s r flag st Hst (Hi r (or_introl eq_refl))) as K1.
    destruct (receive recv s r flag st) as [st1 o1]. cbn [fst] in K1.
    assert (Hst1 : stopped st1 = false) by (rewrite (stopped_keeps _ _ K1); exact Hst).
    specialize (IH st1 Hst1 (fun r0 H => Hi r0 (or_intror H))).
    destruct (receive_all recv s flag rs st1) as [st2 o2]. cbn [fst] in *. eapply keeps_trans; eauto.
  Qed.

  Lemma flush_side_ins s w flag st : stopped st = false -> ins_only (buf_recs (buf_of s st)) ->
    keeps st (fst (flush_side recv s w flag st)).
  Proof.
    intros Hst Hi. unfold flush_side. destruct (tree_nil (other s) st); [apply keeps_refl|].
    destruct (buf_emit w (buf_of s st)) as [out rest] eqn:E. pose proof (buf_emit_split _ _ _ _ E) as Sp.
    assert (K0 : keeps st (set_buf s rest st)).
    { split; [destruct s; reflexivity|]. intros s0 r Hin. destruct (side_cases s s0) as [E0|E0]; subst s0.
      - rewrite buf_of_set_buf in Hin. rewrite Sp. apply in_or_app. right. exact Hin.
      - rewrite buf_of_set_buf_o in Hin. exact Hin. }
    eapply keeps_trans; [exact K0|]. apply receive_all_ins.
    - rewrite (stopped_keeps _ _ K0). exact Hst.
    - intros r Hin. apply Hi. rewrite Sp. apply in_or_app. left. exact Hin.
  Qed.

  Lemma process_ins w flag st : stopped st = false -> (forall s, ins_only (buf_recs (buf_of s st))) ->
    keeps st (fst (process_up_to recv w flag st)).
  Proof.
    intros Hst Hi. unfold process_up_to. pose proof (flush_side_ins SL w flag st Hst (Hi SL)) as K1.
    destruct (flush_side recv SL w flag st) as [st1 o1]. cbn [fst] in K1.
    assert (Hst1 : stopped st1 = false) by (rewrite (stopped_keeps _ _ K1); exact Hst).
    pose proof (flush_side_ins SR w flag st1 Hst1) as K2.
    destruct (flush_side recv SR w flag st1) as [st2 o2]. cbn [fst] in *. eapply keeps_trans; [exact K1|]. apply K2.
    intros r Hin. apply (Hi SR). apply (proj2 K1). exact Hin.
  Qed.

  Definition Rm (st : jstate) (rm : side -> list msg) : Prop :=
    (forall s, ins_only (buf_recs (buf_of s st))) /\
    match phase st with
    | Both => forall s, good_script (rm s) = true
    | OneOpen op _ => good_script (rm op) = true /\ rm (other op) = []
    | Done => forall s, rm s = []
    | _ => False
    end.

  Lemma good_tail m rest : good_script (m :: rest) = true ->
    match m with
    | MRec r => retr r = false /\ good_script rest = true
    | MWM _ => good_script rest = true
    | MClose => rest = []
    | MErr => False
    end.
  Proof.
    destruct m; simpl; intro H.
    - apply andb_prop in H. destruct H as [H1 H2]. split; [apply Bool.negb_true_iff; exact H1 | exact H2].
    - exact H.
    - discriminate.
    - destruct rest; [reflexivity | discriminate].
  Qed.

  Lemma Rm_keep st st' : keeps st st' -> (forall s, ins_only (buf_recs (buf_of s st))) ->
    forall s, ins_only (buf_recs (buf_of s st')).
  Proof. intros [_ B] Hi s r Hin. apply (Hi s). apply B. exact Hin. Qed.

  Lemma on_record_ins s r flag st : stopped st = false -> retr r = false ->
    (forall s0, ins_only (buf_recs (buf_of s0 st))) ->
    let st' := fst (on_record recv s r flag st) in
    phase st' = phase st /\ forall s0, ins_only (buf_recs (buf_of s0 st')).
  Proof.
    intros Hst Hr Hi. unfold on_record. destruct (et r =? zero_ns).
    - pose proof (receive_ins s r flag st Hst Hr) as K. split; [apply K | exact (Rm_keep _ _ K Hi)].
    - cbn [fst]. split; [destruct s; reflexivity|]. intros s0 r0 Hin. destruct (side_cases s s0) as [E|E]; subst s0.
      + rewrite buf_of_set_buf in Hin. apply (Permutation_in _ (buf_add_perm r _)) in Hin. destruct Hin as [E|Hin]; [subst; exact Hr | apply (Hi s); exact Hin].
      + rewrite buf_of_set_buf_o in Hin. apply (Hi (other s)). exact Hin.
  Qed.

  Lemma step_done st rm s m rest : Rm st rm -> rm s = m :: rest ->
    Rm (fst (jstep recv false use_mark st (s, m))) (upd rm s rest).
  Proof.
    intros [Hi Hp] Erm. unfold jstep. destruct (phase st) as [|op flag| | |] eqn:Ph; try contradiction.
    - assert (Hst : stopped st = false) by (unfold stopped; rewrite Ph; reflexivity).
      pose proof (good_tail m rest) as G. rewrite <- Erm in G. specialize (G (Hp s)).
      assert (Hgood : forall s0, s0 <> s -> good_script (upd rm s rest s0) = true).
      { intros s0 Hne. unfold upd. destruct (side_eqb s0 s) eqn:E; [apply side_eqb_eq in E; congruence | apply Hp]. }
      destruct m as [r|w| |]; try contradiction.
      + destruct G as [Hr Hg]. destruct (on_record_ins s r false st Hst Hr Hi) as [P1 B1].
        split; [exact B1|]. rewrite P1, Ph. intro s0. destruct (side_cases s s0) as [E|E]; subst s0; [rewrite upd_same; exact Hg | rewrite upd_other; apply Hp].
      + set (st0 := set_wm s w st).
        assert (Hi0 : forall x s0, ins_only (buf_recs (buf_of s0 (set_minwm x st0)))) by (intros x s0 r0 Hin; apply (Hi s0); destruct s, s0; exact Hin).
        destruct (minwm st0 <? _).
        * match goal with |- context [process_up_to recv ?mn false ?sx] => pose proof (process_ins mn false sx) as K; destruct (process_up_to recv mn false sx) as [st1 o1] end.
          cbn [fst] in K. assert (Hs0 : forall x, stopped (set_minwm x st0) = false) by (intro x; unfold stopped; destruct s; simpl; rewrite Ph; reflexivity).
          assert (K' := K (Hs0 _) (Hi0 _)).
          assert (Hst1 : stopped st1 = false).
          { rewrite (stopped_keeps _ _ K'). apply Hs0. }
          rewrite Hst1. cbn [fst]. split; [exact (Rm_keep _ _ K' (Hi0 _))|].
          rewrite (proj1 K'). replace (phase (set_minwm _ st0)) with (phase st) by (destruct s; reflexivity). rewrite Ph.
          intro s0. destruct (side_cases s s0) as [E|E]; subst s0; [rewrite upd_same; exact G | rewrite upd_other; apply Hp].
        * cbn [fst]. split; [intros s0 r0 Hin; apply (Hi s0); destruct s, s0; exact Hin|].
          replace (phase st0) with (phase st) by (destruct s; reflexivity). rewrite Ph.
          intro s0. destruct (side_cases s s0) as [E|E]; subst s0; [rewrite upd_same; exact G | rewrite upd_other; apply Hp].
      + subst rest.
        match goal with |- context [process_up_to recv ?mn false ?sx] => pose proof (process_ins mn false sx) as K; destruct (process_up_to recv mn false sx) as [st1 o1] end.
        cbn [fst] in K. assert (Hs0 : forall x, stopped (set_minwm x st) = false) by (intro x; unfold stopped; simpl; rewrite Ph; reflexivity).
        assert (K' := K (Hs0 _) (fun s0 => Hi s0)).
        assert (Hst1 : stopped st1 = false) by (rewrite (stopped_keeps _ _ K'); apply Hs0).
        rewrite Hst1. cbn [fst]. split; [exact (Rm_keep _ _ K' (fun s1 => Hi s1))|].
        cbn [phase set_phase]. split; [rewrite upd_other; apply Hp | rewrite other_other, upd_same; reflexivity].
    - destruct Hp as [Hg Hnil].
      assert (Es : s = op) by (destruct (side_cases op s) as [E|E]; [exact E | exfalso; rewrite E, Hnil in Erm; discriminate]).
      subst s. rewrite side_eqb_refl.
      assert (Hst : stopped st = false) by (unfold stopped; rewrite Ph; reflexivity).
      pose proof (good_tail m rest) as G. rewrite <- Erm in G. specialize (G Hg).
      destruct m as [r|w| |]; try contradiction.
      + destruct G as [Hr Hg']. destruct (on_record_ins op r flag st Hst Hr Hi) as [P1 B1].
        split; [exact B1|]. rewrite P1, Ph. split; [rewrite upd_same; exact Hg' | rewrite upd_other; exact Hnil].
      + pose proof (process_ins w flag st Hst Hi) as K. destruct (process_up_to recv w flag st) as [st1 o1]. cbn [fst] in K.
        assert (Hst1 : stopped st1 = false) by (rewrite (stopped_keeps _ _ K); exact Hst).
        rewrite Hst1. cbn [fst]. split; [exact (Rm_keep _ _ K Hi)|].
        cbn [phase set_minwm set_phase]. split; [rewrite upd_same; exact G | rewrite upd_other; exact Hnil].
      + subst rest. pose proof (process_ins max_wm flag st Hst Hi) as K. destruct (process_up_to recv max_wm flag st) as [st1 o1]. cbn [fst] in K.
        assert (Hst1 : stopped st1 = false) by (rewrite (stopped_keeps _ _ K); exact Hst).
        rewrite Hst1. cbn [fst]. split; [exact (Rm_keep _ _ K Hi)|].
        cbn [phase set_phase]. intro s0. destruct (side_cases op s0) as [E|E]; subst s0; [rewrite upd_same; reflexivity | rewrite upd_other; exact Hnil].
    - exfalso. rewrite (Hp s) in Erm. discriminate.
  Qed.

  Lemma run_done l r sigma : interleave l r sigma ->
    forall st rm, rm SL = l -> rm SR = r -> Rm st rm ->
    phase (fst (jrun_steps recv false use_mark st sigma)) = Done.
  Proof.
    induction 1 as [|m l r sg Hil IH|m l r sg Hil IH]; intros st rm El Er HR.
    - cbn [jrun_steps fst]. destruct HR as [_ Hp]. destruct (phase st) as [|op flag| | |]; try contradiction; try reflexivity.
      + specialize (Hp SL). rewrite El in Hp. discriminate.
      + destruct Hp as [Hg Hn]. destruct op; [rewrite El in Hg | rewrite Er in Hg]; discriminate.
    - cbn [jrun_steps]. pose proof (step_done st rm SL m l HR El) as S1.
      destruct (jstep recv false use_mark st (SL, m)) as [st1 o1]. cbn [fst] in S1.
      specialize (IH st1 (upd rm SL l) eq_refl Er S1). destruct (jrun_steps recv false use_mark st1 sg). exact IH.
    - cbn [jrun_steps]. pose proof (step_done st rm SR m r HR Er) as S1.
      destruct (jstep recv false use_mark st (SR, m)) as [st1 o1]. cbn [fst] in S1.
      specialize (IH st1 (upd rm SR r) El eq_refl S1). destruct (jrun_steps recv false use_mark st1 sg). exact IH.
  Qed.

  Theorem reaches_done l r sigma : interleave l r sigma -> good_script l = true -> good_script r = true ->
    phase (fst (jrun_steps recv false use_mark jinit sigma)) = Done.
  Proof.
    intros Hil Hl Hr. apply (run_done l r sigma Hil jinit (fun s => match s with SL => l | SR => r end) eq_refl eq_refl).
    split; [intros s r0 Hin; destruct s; destruct Hin|]. cbn [phase jinit]. intros [|]; assumption.
  Qed.
End Done.

(* an insertion never panics in either receiveRecord *)
Lemma tree_update_ins_ok k r t : retr r = false -> exists x, tree_update k r t = Ok x.
Proof.
  intro Hr. unfold tree_update, inner_update. rewrite Hr.
  destruct (afind k t) as [s|].
  - destruct (afind (vals r) s) as [ets|]; cbn [obind].
    + destruct (areplace (vals r) (ets ++ [et r]) s); eexists; reflexivity.
    + destruct (ainsert (vals r) [et r] s); eexists; reflexivity.
  - cbn [afind obind ainsert]. eexists; reflexivity.
Qed.

Lemma recv_stream_ins_ok kl kr nf s r flag my theirs : retr r = false ->
  exists t' o, recv_stream kl kr nf s r flag my theirs = Ok (t', o).
Proof.
  intro Hr. unfold recv_stream. destruct (_ && _); [eexists _, _; reflexivity|].
  destruct flag; cbn [obind]; [eexists _, _; reflexivity|].
  destruct (tree_update_ins_ok (key_of kl kr s (vals r)) r my Hr) as [[t' fl] E]. rewrite E. cbn [obind fst]. eexists _, _; reflexivity.
Qed.

Lemma recv_outer_ins_ok kl kr ol or nl nr nf s r flag my theirs : retr r = false ->
  exists t' o, recv_outer kl kr ol or nl nr nf s r flag my theirs = Ok (t', o).
Proof.
  intro Hr. unfold recv_outer. destruct (_ && _); [eexists _, _; reflexivity|].
  destruct (tree_update_ins_ok (key_of kl kr s (vals r)) r my Hr) as [[t' [f l]] E]. rewrite E. cbn [obind].
  destruct (afind _ theirs) as [[|? ?]|]; eexists _, _; reflexivity.
Qed.

Lemma good_batch t : good_script (batch t) = true.
Proof. unfold batch. induction t as [|v t IH]; [reflexivity|]. simpl. exact IH. Qed.

(* a valid, well-timed script on which the node can panic: the retraction carries no event time and overtakes the
   buffered insertion it retracts (left [+a@5; -a@0; close], right [close], any schedule) *)
Definition wpanic_left : list msg := [MRec (mkrec [VInt 1] false 5); MRec (mkrec [VInt 1] true zero_ns); MClose].
Definition wpanic_sigma : list (side * msg) :=
  [(SL, MRec (mkrec [VInt 1] false 5)); (SL, MRec (mkrec [VInt 1] true zero_ns)); (SL, MClose); (SR, MClose)].
Lemma overtaking_retraction_panics :
  interleave wpanic_left [MClose] wpanic_sigma /\
  valid_changelog (msg_recs wpanic_left) = true /\ well_timed_from zero_ns wpanic_left = true /\
  panicked (fst (sj_run k1 k1 jinit wpanic_sigma)) = true /\
  panicked (fst (oj_run k1 k1 true true 1 1 jinit wpanic_sigma)) = true.
Proof. split; [repeat constructor|]. vm_compute. repeat split. Qed.
