(* Proofs/OuterJoinProofs.v — the invariant of OuterJoin (DESIGN.md Appendix A.1, outer-join clause) and
   C19 for LEFT / RIGHT / FULL OUTER joins.  The run-level part comes from Proofs/GenJoinProofs.v. *)
From Coq Require Import Permutation.
From Octo Require Import Joins CompareLaws ChangelogLemmas JoinsBase JoinsProofs GenJoinProofs.

(* ---- more about the association lists ---- *)
Section AListMore.
  Context {V : Type}.
  Implicit Types m : @alist V.

  Lemma afind_cong k k' m : row_eqb k k' = true -> afind k m = afind k' m.
  Proof.
    intro H. induction m as [|[k0 v0] m' IH]; [reflexivity|]. simpl. rewrite (row_eqb_cong k k' k0 H), IH. reflexivity.
  Qed.

  Lemma afind_ainsert_same k v m : afind k m = None -> afind k (ainsert k v m) = Some v.
  Proof.
    induction m as [|[k0 v0] m' IH]; simpl; intro H.
    - rewrite row_eqb_refl. reflexivity.
    - destruct (row_eqb k k0) eqn:E; [discriminate|]. destruct (slices_less k k0); simpl.
      + rewrite row_eqb_refl. reflexivity.
      + rewrite E. apply IH. exact H.
  Qed.

  Lemma afind_ainsert_other k k2 v m : row_eqb k2 k = false -> afind k2 (ainsert k v m) = afind k2 m.
  Proof.
    intro H. induction m as [|[k0 v0] m' IH]; simpl.
    - rewrite H. reflexivity.
    - destruct (slices_less k k0); simpl; [rewrite H; reflexivity|]. rewrite IH. reflexivity.
  Qed.

  Lemma afind_areplace_same k v v0 m : afind k m = Some v0 -> afind k (areplace k v m) = Some v.
  Proof.
    induction m as [|[k0 v1] m' IH]; simpl; intro H; [discriminate|].
    destruct (row_eqb k k0) eqn:E; simpl; rewrite E; [reflexivity | apply IH; exact H].
  Qed.

  Lemma afind_areplace_other k k2 v m : row_eqb k2 k = false -> afind k2 (areplace k v m) = afind k2 m.
  Proof.
    intro H. induction m as [|[k0 v1] m' IH]; simpl; [reflexivity|].
    destruct (row_eqb k k0) eqn:E; simpl.
    - destruct (row_eqb k2 k0) eqn:E2; [|reflexivity]. exfalso.
      rewrite row_eqb_sym in E. rewrite (row_eqb_cong_r k2 k0 k E) in E2. congruence.
    - rewrite IH. reflexivity.
  Qed.

  Lemma afind_aremove_other k k2 m : row_eqb k2 k = false -> afind k2 (aremove k m) = afind k2 m.
  Proof.
    intro H. induction m as [|[k0 v1] m' IH]; simpl; [reflexivity|].
    destruct (row_eqb k k0) eqn:E; simpl.
    - destruct (row_eqb k2 k0) eqn:E2; [|reflexivity]. exfalso.
      rewrite row_eqb_sym in E. rewrite (row_eqb_cong_r k2 k0 k E) in E2. congruence.
    - rewrite IH. reflexivity.
  Qed.
End AListMore.

(* is there no record under this key? (firstRecordForThatKeyOnThisSide / lastRetractionForThatKeyOnThisSide) *)
Definition lnil (k : list value) (t : tree) : bool := match tree_lookup k t with [] => true | _ => false end.
Definition npart (k : list value) (t : tree) : Z := if lnil k t then 1 else 0.

Lemma lnil_cong k k' t : row_eqb k k' = true -> lnil k t = lnil k' t.
Proof. intro H. unfold lnil, tree_lookup. rewrite (afind_cong k k' t H). reflexivity. Qed.

Lemma tree_wf_weaken kf (P Q : list value -> Prop) t : (forall row, P row -> Q row) -> tree_wf kf P t -> tree_wf kf Q t.
Proof.
  intros HPQ [Hn Hs]. split; [exact Hn|]. intros k s Hin. destruct (Hs k s Hin) as [Hne [Hn' Hr]].
  split; [exact Hne|]. split; [exact Hn'|]. intros row ets Hin'. destruct (Hr row ets Hin') as [He [Hk HP]].
  split; [exact He|]. split; [exact Hk | apply HPQ; exact HP].
Qed.

Section Flags.
  Variable kf : list value -> list value.
  Variable P : list value -> Prop.

  Lemma lnil_afind k t : tree_wf kf P t -> lnil k t = match afind k t with None => true | Some _ => false end.
  Proof.
    intros [_ Hs]. unfold lnil, tree_lookup. destruct (afind k t) as [s|] eqn:F; [|reflexivity].
    destruct (afind_some _ _ _ F) as [k' [Hin _]]. destruct (Hs _ _ Hin) as [Hne _]. destruct s; [congruence | reflexivity].
  Qed.

  Lemma inner_update_nil_nonempty r s' : inner_update r [] = Ok s' -> s' <> [].
  Proof. unfold inner_update. cbn [afind]. destruct (retr r); intro H; inversion H. cbn [ainsert]. discriminate. Qed.

  (* the two flags tree_update reports, and that no other key is affected *)
  Lemma tree_update_flags k r t t' first last : tree_wf kf P t -> tree_wf kf P t' ->
    tree_update k r t = Ok (t', (first, last)) ->
    first = lnil k t /\ last = lnil k t' /\ forall k2, row_eqb k2 k = false -> lnil k2 t' = lnil k2 t.
  Proof.
    intros W W'. rewrite (lnil_afind k t W), (lnil_afind k t' W'). unfold tree_update.
    destruct (afind k t) as [s|] eqn:F.
    - destruct (inner_update r s) as [s'| |]; cbn [obind]; try discriminate.
      destruct s' as [|e s'']; intro H; inversion H; subst; clear H.
      + rewrite (afind_aremove k t (proj1 W)). split; [reflexivity|]. split; [reflexivity|].
        intros k2 H2. unfold lnil, tree_lookup. rewrite (afind_aremove_other k k2 t H2). reflexivity.
      + rewrite (afind_areplace_same (V:=inner) k (e :: s'') s t F). split; [reflexivity|]. split; [reflexivity|].
        intros k2 H2. unfold lnil, tree_lookup. rewrite (afind_areplace_other (V:=inner) k k2 _ t H2). reflexivity.
    - destruct (inner_update r []) as [s'| |] eqn:U; cbn [obind]; try discriminate.
      pose proof (inner_update_nil_nonempty r s' U) as Hne.
      destruct s' as [|e s'']; [congruence|]. intro H; inversion H; subst; clear H.
      rewrite (afind_ainsert_same (V:=inner) k (e :: s'') t F). split; [reflexivity|]. split; [reflexivity|].
      intros k2 H2. unfold lnil, tree_lookup. rewrite (afind_ainsert_other (V:=inner) k k2 _ t H2). reflexivity.
  Qed.
End Flags.

Lemma nulls_length n : length (nulls n) = n. Proof. apply repeat_length. Qed.

Lemma fit_exact a b v : length v = a -> fit (a + b) v = v ++ nulls b.
Proof.
  intro H. unfold fit. rewrite H. replace (a + b - a)%nat with b by lia.
  rewrite firstn_all2; [reflexivity|]. rewrite app_length, nulls_length. lia.
Qed.
Lemma fit_same a v : length v = a -> fit a v = v.
Proof.
  intro H. unfold fit. rewrite H, Nat.sub_diag. cbn [nulls repeat]. rewrite app_nil_r. apply firstn_all2. lia.
Qed.

Section Outer.
  Variables kl kr : list value -> list value.
  Variables (ol or : bool) (nl nr : nat).
  Hypothesis kl_resp : key_respects kl.
  Hypothesis kr_resp : key_respects kr.

  Notation recvo := (recv_outer kl kr ol or nl nr true).
  Notation bj := (bag_join kl kr nl).
  Notation kf := (kf kl kr).
  Notation outer := (is_outer ol or).
  Definition nar (s : side) : nat := match s with SL => nl | SR => nr end.
  Definition arO (s : side) (row : list value) : Prop := length row = nar s.
  Definition tP (s : side) (row : list value) : Prop := length row = nar s /\ has_null (kf s row) = false.
  Definition twfo (s : side) (t : tree) : Prop := tree_wf (kf s) (tP s) t.

  Lemma kfr s : key_respects (kf s). Proof. apply kf_resp; assumption. Qed.

  Lemma twfo_inner s t : twfo s t -> twf kl kr nl s t.
  Proof. apply tree_wf_weaken. intros row [H _]. destruct s; [exact H | exact I]. Qed.

  (* no stored key contains NULL *)
  Lemma lnil_null s k t : twfo s t -> has_null k = true -> lnil k t = true.
  Proof.
    intros W Hn. rewrite (lnil_afind _ _ k t W). destruct (afind k t) as [sb|] eqn:F; [|reflexivity]. exfalso.
    destruct (afind_some _ _ _ F) as [k' [Hin Hk]]. destruct W as [_ Hs]. destruct (Hs _ _ Hin) as [Hne [_ Hr]].
    destruct sb as [|[row ets] sb']; [congruence|]. destruct (Hr row ets (or_introl eq_refl)) as [_ [Hrk [_ Hnn]]].
    rewrite (has_null_cong _ _ Hrk), <- (has_null_cong _ _ Hk), Hn in Hnn. discriminate.
  Qed.

  (* ---- padded rows ---- *)
  Definition part (s : side) (x : list value) : list value := match s with SL => firstn nl x | SR => skipn nl x end.
  Definition shape (s : side) (x : list value) : bool :=
    (nl <=? length x)%nat &&
    match s with SL => row_eqb (nulls nr) (skipn nl x) | SR => row_eqb (nulls nl) (firstn nl x) end.
  (* padded rows of side s present in the output: its rows whose key has no partner in the other tree *)
  Definition pad_t (s : side) (c : list value -> Z) (t : tree) (x : list value) : Z :=
    if shape s x then c (part s x) * npart (kf s (part s x)) t else 0.

  Lemma pad_t_add s c c' t x : pad_t s (fun y => c y + c' y) t x = pad_t s c t x + pad_t s c' t x.
  Proof. unfold pad_t. destruct (shape s x); lia. Qed.

  Lemma pad_own_cons s r x : arO s (vals r) ->
    consolidate [mkrec (pad_own nl nr s (vals r)) (retr r) (et r)] x =
    if shape s x then consolidate [r] (part s x) else 0.
  Proof.
    intro Ha. rewrite !cons1. cbn [vals]. unfold sign. cbn [retr]. fold (sign r). unfold shape, part, pad_own.
    destruct s; unfold arO, nar in Ha.
    - rewrite (fit_exact nl nr _ Ha), (row_eqb_app_l nl _ _ _ Ha).
      destruct (nl <=? length x)%nat; cbn [andb]; [|reflexivity].
      destruct (row_eqb (vals r) (firstn nl x)); cbn [andb]; destruct (row_eqb (nulls nr) (skipn nl x)); reflexivity.
    - rewrite (fit_same nr _ Ha), (row_eqb_app_l nl _ _ _ (nulls_length nl)).
      destruct (nl <=? length x)%nat; cbn [andb]; [|reflexivity].
      destruct (row_eqb (nulls nl) (firstn nl x)); cbn [andb]; reflexivity.
  Qed.

  Lemma emit_pads_cons s r b subs x : arO s (vals r) ->
    (forall row ets, In (row, ets) subs -> length row = nar (other s)) ->
    consolidate (emit_pads s r b subs) x =
    (if b then -1 else 1) * (if shape (other s) x then inner_bag subs (part (other s) x) else 0).
  Proof.
    intros Ha Hrows. unfold emit_pads, inner_bag.
    induction subs as [|[row ets] subs IH]; [simpl; destruct (shape _ _); lia|].
    cbn [flat_map asum fst snd]. rewrite consolidate_app, IH by (intros; eapply Hrows; right; eauto). clear IH.
    assert (E : forall ets0, consolidate (map (fun t => mkrec (pad_theirs s (vals r) row) b t) ets0) x =
              (if row_eqb (pad_theirs s (vals r) row) x then (if b then -1 else 1) else 0) * Z.of_nat (length ets0)).
    { induction ets0 as [|t ts IHt]; [simpl; lia|]. cbn [map consolidate vals length]. rewrite IHt.
      unfold sign. cbn [retr]. destruct (row_eqb (pad_theirs s (vals r) row) x), b; lia. }
    rewrite E. clear E. unfold inner_w, shape, part, pad_theirs, glue.
    pose proof (Hrows row ets (or_introl eq_refl)) as Hl.
    destruct s; unfold arO, nar in *; cbn [other] in *.
    - rewrite Ha, (row_eqb_app_l nl _ _ _ (nulls_length nl)).
      destruct (nl <=? length x)%nat; cbn [andb]; [|lia].
      destruct (row_eqb (nulls nl) (firstn nl x)); cbn [andb]; [|lia].
      destruct (row_eqb row (skipn nl x)), b; lia.
    - rewrite Ha, (row_eqb_app_l nl _ _ _ Hl).
      destruct (nl <=? length x)%nat; cbn [andb]; [|lia].
      destruct (row_eqb row (firstn nl x)); cbn [andb]; destruct (row_eqb (nulls nr) (skipn nl x)), b; lia.
  Qed.

  Definition bjform (s : side) (A B : list value -> Z) (x : list value) : Z :=
    match s with SL => bj A B x | SR => bj B A x end.

  (* what one OuterJoin.receiveRecord does: own tree, and the emitted records as a change of the three sums *)
  Lemma recvo_spec s r flag my theirs my' o :
    arO s (vals r) -> twfo s my -> twfo (other s) theirs ->
    recvo s r flag my theirs = Ok (my', o) ->
    twfo s my' /\
    (forall y, has_null (kf s y) = false -> tree_bag my' y = tree_bag my y + consolidate [r] y) /\
    (forall x, consolidate o x =
       bjform s (consolidate [r]) (tree_bag theirs) x +
       (if outer s then pad_t s (consolidate [r]) theirs x else 0) +
       (if outer (other s) then pad_t (other s) (tree_bag theirs) my' x - pad_t (other s) (tree_bag theirs) my x else 0)).
  Proof.
    intros Har Wm Wt. unfold recv_outer. fold (kf s). set (k := kf s (vals r)).
    set (alone := if outer s then [mkrec (pad_own nl nr s (vals r)) (retr r) (et r)] else []).
    assert (Halone : forall x, consolidate alone x = if outer s then (if shape s x then consolidate [r] (part s x) else 0) else 0).
    { intro x. unfold alone. destruct (outer s); [apply pad_own_cons; exact Har | reflexivity]. }
    (* the match part, from the inner join's lemma *)
    assert (Hbj : forall x, (if has_null k then 0 else consolidate (emit_matches s r (tree_lookup k theirs)) x) =
                            bjform s (consolidate [r]) (tree_bag theirs) x).
    { intro x.
      assert (Har' : arP nl s (vals r)) by (destruct s; [exact Har | exact I]).
      destruct (recv_spec kl kr nl kl_resp kr_resp s r true my theirs my
                  (if has_null k then [] else emit_matches s r (tree_lookup k theirs)) Har' (twfo_inner s my Wm) (twfo_inner _ theirs Wt))
        as [_ [_ [_ H]]].
      - unfold recv_stream. fold (kf s). fold k. destruct (has_null k); reflexivity.
      - unfold bjform. rewrite <- H. destruct (has_null k); reflexivity. }
    (* own padded row: present iff no partner *)
    assert (Hown : forall x, pad_t s (consolidate [r]) theirs x =
                             (if shape s x then consolidate [r] (part s x) else 0) * npart k theirs).
    { intro x. unfold pad_t. destruct (shape s x); [|lia]. rewrite cons1.
      destruct (row_eqb (vals r) (part s x)) eqn:E; [|lia].
      unfold npart. rewrite <- (lnil_cong k (kf s (part s x)) theirs); [reflexivity|]. apply kfr. exact E. }
    destruct (has_null k) eqn:Hn; cbn [andb].
    - intro H. inversion H; subst. split; [exact Wm|]. split.
      + intros y Hy. rewrite cons1. destruct (row_eqb (vals r) y) eqn:E; [|lia].
        apply (kfr s) in E. apply has_null_cong in E. fold k in E. congruence.
      + intro x. rewrite Halone, <- Hbj, Hown. unfold npart. rewrite (lnil_null (other s) k theirs Wt Hn).
        destruct (outer s), (outer (other s)); lia.
    - destruct (tree_update k r my) as [[t' [first last]]| |] eqn:U; cbn [obind]; try discriminate.
      assert (Hk : row_eqb (kf s (vals r)) k = true) by apply row_eqb_refl.
      destruct (tree_update_spec (kf s) (tP s) k r my t' _ Wm Hk (conj Har Hn) U) as [W B].
      destruct (tree_update_flags (kf s) (tP s) k r my t' first last Wm W U) as [Ef [El Eo]].
      (* the other side's padded rows: they change only under the key k *)
      assert (Hdiff : forall x, pad_t (other s) (tree_bag theirs) t' x - pad_t (other s) (tree_bag theirs) my x =
                (if shape (other s) x then inner_bag (tree_lookup k theirs) (part (other s) x) else 0) *
                ((if last then 1 else 0) - (if first then 1 else 0))).
      { intro x. unfold pad_t. destruct (shape (other s) x); [|lia].
        rewrite (tree_lookup_spec (kf (other s)) (tP (other s)) (kfr (other s)) k theirs _ Wt).
        destruct (row_eqb (kf (other s) (part (other s) x)) k) eqn:E.
        - unfold npart. rewrite (lnil_cong _ _ t' E), (lnil_cong _ _ my E), <- Ef, <- El. destruct first, last; lia.
        - unfold npart. rewrite (Eo _ E). lia. }
      assert (Hrows : forall row ets, In (row, ets) (tree_lookup k theirs) -> length row = nar (other s)).
      { intros row ets Hin. exact (proj1 (tree_lookup_rows (kf (other s)) (tP (other s)) k theirs row ets Wt Hin)). }
      assert (Hfin : forall o0,
                o0 = match tree_lookup k theirs with
                     | [] => alone
                     | subs => (if first && outer (other s) then emit_pads s r true subs else []) ++
                               emit_matches s r subs ++
                               (if last && outer (other s) then emit_pads s r false subs else [])
                     end ->
                forall x, consolidate o0 x =
                  bjform s (consolidate [r]) (tree_bag theirs) x +
                  (if outer s then pad_t s (consolidate [r]) theirs x else 0) +
                  (if outer (other s) then pad_t (other s) (tree_bag theirs) t' x - pad_t (other s) (tree_bag theirs) my x else 0)).
      { intros o0 Eo0 x. rewrite Hdiff, Hown, <- Hbj. subst o0. unfold npart, lnil.
        destruct (tree_lookup k theirs) as [|e subs] eqn:Lk.
        - rewrite Halone. change (inner_bag [] (part (other s) x)) with 0. cbn [emit_matches flat_map consolidate].
          destruct (outer s), (outer (other s)), (shape (other s) x); lia.
        - rewrite !consolidate_app.
          assert (Ep : forall b, consolidate (emit_pads s r b (e :: subs)) x =
                    (if b then -1 else 1) * (if shape (other s) x then inner_bag (e :: subs) (part (other s) x) else 0)).
          { intro b. apply emit_pads_cons; [exact Har | exact Hrows]. }
          destruct first, last, (outer (other s)); cbn [andb]; rewrite ?Ep; cbn [consolidate];
            destruct (outer s); lia. }
      unfold tree_lookup in Hfin.
      destruct (afind k theirs) as [[|e subs]|] eqn:F; intro H; inversion H; subst; clear H;
        (split; [exact W|]); (split; [intros y _; apply B|]); apply Hfin; reflexivity.
  Qed.

  Lemma recvo_never_err s r flag my theirs e : recvo s r flag my theirs <> Err e.
  Proof.
    unfold recv_outer. destruct (_ && _); [discriminate|]. unfold tree_update.
    destruct (afind _ my) as [s0|].
    - pose proof (inner_update_never_err r s0) as N. destruct (inner_update r s0) as [[|? ?]|e0|]; cbn [obind]; try discriminate.
      + destruct (afind _ theirs) as [[|? ?]|]; discriminate.
      + destruct (afind _ theirs) as [[|? ?]|]; discriminate.
      + exfalso. exact (N e0 eq_refl).
    - pose proof (inner_update_never_err r []) as N. destruct (inner_update r []) as [[|? ?]|e0|]; cbn [obind]; try discriminate.
      + destruct (afind _ theirs) as [[|? ?]|]; discriminate.
      + destruct (afind _ theirs) as [[|? ?]|]; discriminate.
      + exfalso. exact (N e0 eq_refl).
  Qed.

  Lemma pad_t_ext s c c' t x : (forall y, c y = c' y) -> pad_t s c t x = pad_t s c' t x.
  Proof. intro H. unfold pad_t. rewrite H. reflexivity. Qed.

  Lemma pad_t_diff_ext s c c' t1 t2 x : twfo (other s) t1 -> twfo (other s) t2 ->
    (forall y, has_null (kf s y) = false -> c y = c' y) ->
    pad_t s c t1 x - pad_t s c t2 x = pad_t s c' t1 x - pad_t s c' t2 x.
  Proof.
    intros W1 W2 H. unfold pad_t. destruct (shape s x); [|reflexivity].
    destruct (has_null (kf s (part s x))) eqn:E.
    - unfold npart. rewrite (lnil_null (other s) _ t1 W1 E), (lnil_null (other s) _ t2 W2 E). lia.
    - rewrite (H _ E). reflexivity.
  Qed.

  (* ---- J1 + J5 for the outer join ---- *)
  Definition CoreInvO (st : jstate) (out : list event) (P : side -> list rec) : Prop :=
    (forall s, twfo s (tree_of s st)) /\
    (forall s y, has_null (kf s y) = false -> tree_bag (tree_of s st) y = consolidate (P s) y) /\
    (forall x, consolidate (records out) x =
       bj (consolidate (P SL)) (consolidate (P SR)) x +
       (if ol then pad_t SL (consolidate (P SL)) (tree_of SR st) x else 0) +
       (if or then pad_t SR (consolidate (P SR)) (tree_of SL st) x else 0)).

  Lemma CIO_ext st out P P' : (forall s, P s = P' s) -> CoreInvO st out P -> CoreInvO st out P'.
  Proof. intros E [A [B C]]. split; [exact A|]. split; [intros s; rewrite <- E; apply B | intro x; rewrite <- !E; apply C]. Qed.

  Lemma CIO_frame st st' out P :
    (forall s, tree_of s st' = tree_of s st) -> (forall s, tnil s st' = false -> tnil s st = false) ->
    CoreInvO st out P -> CoreInvO st' out P.
  Proof.
    intros Ht Hn [A [B C]]. split; [intro s; rewrite Ht; apply A|]. split.
    - intros s. rewrite Ht. apply B.
    - intro x. rewrite !Ht. apply C.
  Qed.

  Lemma CIO_out_wm st out P w : CoreInvO st out P -> CoreInvO st (out ++ [WM w]) P.
  Proof. intros [A [B C]]. split; [exact A|]. split; [exact B|]. intro x. rewrite records_app. simpl. rewrite app_nil_r. apply C. Qed.

  Lemma CIO_init : CoreInvO jinit [] (fun _ => []).
  Proof.
    split; [intro s; destruct s; apply tree_wf_nil|]. split; [intros s y _; destruct s; reflexivity|].
    intro x. unfold pad_t, bag_join. simpl. destruct (_ && _), ol, or, (shape SL x), (shape SR x); reflexivity.
  Qed.

  Lemma CIO_receive s r flag st out P st' o :
    CoreInvO st out P -> stopped st = false -> arO s (vals r) ->
    (flag = true -> tree_nil s st = true) -> tree_nil (other s) st = false ->
    receive recvo s r flag st = (st', o) -> panicked st' = false ->
    (exists t', st' = set_tree s t' st) /\ Forall is_rec o /\
    CoreInvO st' (out ++ o) (upd P s (P s ++ [r])).
  Proof.
    intros [A [B C]] Hst Har Hflag Hoth. unfold receive. rewrite Hst.
    destruct (recvo s r flag (tree_of s st) (tree_of (other s) st)) as [[t' ro]|e|site] eqn:R.
    - intro H. inversion H; subst. intros _.
      destruct (recvo_spec s r flag _ _ _ _ Har (A s) (A (other s)) R) as [W [Hb Hout]].
      split; [exists t'; reflexivity|]. split; [apply Forall_is_rec_map|].
      split; [|split].
      + intro s0. destruct (side_cases s s0) as [E|E]; subst s0.
        * rewrite tree_of_set_tree. exact W.
        * rewrite tree_of_set_tree_o. apply A.
      + intros s0 y Hy. destruct (side_cases s s0) as [E|E]; subst s0.
        * rewrite tree_of_set_tree, upd_same, consolidate_app.
          rewrite (Hb y Hy), (B s) by assumption. reflexivity.
        * rewrite tree_of_set_tree_o, upd_other. apply B; assumption.
      + intro x. rewrite records_app, records_map_Rec, consolidate_app, C, Hout.
        destruct s; cbn [other bjform tree_of set_tree ltree rtree] in *.
        * rewrite upd_same. change (upd P SL (P SL ++ [r]) SR) with (P SR).
          pose proof (bag_join_ext kl kr nl (consolidate (P SL ++ [r])) (fun y => consolidate (P SL) y + consolidate [r] y)
                     (consolidate (P SR)) (consolidate (P SR)) x (fun y _ => consolidate_app (P SL) [r] y) (fun y _ => eq_refl)) as E1.
          rewrite bag_join_add_l in E1.
          pose proof (bag_join_ext kl kr nl (consolidate [r]) (consolidate [r]) (tree_bag (rtree st)) (consolidate (P SR)) x
                     (fun y _ => eq_refl) (fun y Hy => B SR y Hy)) as E1'.
          pose proof (pad_t_ext SL _ (fun y => consolidate (P SL) y + consolidate [r] y) (rtree st) x (consolidate_app (P SL) [r])) as E2.
          rewrite pad_t_add in E2.
          pose proof (pad_t_diff_ext SR (tree_bag (rtree st)) (consolidate (P SR)) t' (ltree st) x W (A SL) (B SR)) as E3.
          destruct ol, or; cbn [is_outer] in *; lia.
        * rewrite upd_same. change (upd P SR (P SR ++ [r]) SL) with (P SL).
          pose proof (bag_join_ext kl kr nl (consolidate (P SL)) (consolidate (P SL))
                     (consolidate (P SR ++ [r])) (fun y => consolidate (P SR) y + consolidate [r] y) x (fun y _ => eq_refl) (fun y _ => consolidate_app (P SR) [r] y)) as E1.
          rewrite bag_join_add_r in E1.
          pose proof (bag_join_ext kl kr nl (tree_bag (ltree st)) (consolidate (P SL)) (consolidate [r]) (consolidate [r]) x
                     (fun y Hy => B SL y Hy) (fun y _ => eq_refl)) as E1'.
          pose proof (pad_t_ext SR _ (fun y => consolidate (P SR) y + consolidate [r] y) (ltree st) x (consolidate_app (P SR) [r])) as E2.
          rewrite pad_t_add in E2.
          pose proof (pad_t_diff_ext SL (tree_bag (ltree st)) (consolidate (P SL)) t' (rtree st) x W (A SR) (B SL)) as E3.
          destruct ol, or; cbn [is_outer] in *; lia.
    - exfalso. exact (recvo_never_err _ _ _ _ _ _ R).
    - intro H. inversion H; subst. unfold panicked. simpl. discriminate.
  Qed.

  (* ---- from the trees to the lists: "no record under this key" = "no partner among the processed records" ---- *)
  Notation hp := (has_partner kl kr).

  Lemma inner_bag_pos sb row ets : In (row, ets) sb -> ets <> [] -> 0 < inner_bag sb row.
  Proof.
    unfold inner_bag. induction sb as [|[k v] sb IH]; intros Hin Hne; [contradiction|].
    cbn [asum]. pose proof (inner_bag_nonneg sb row) as N. unfold inner_bag in N. destruct Hin as [E|Hin].
    - inversion E; subst. unfold inner_w at 1. rewrite row_eqb_refl. destruct ets; [congruence|]. cbn [length]. lia.
    - specialize (IH Hin Hne). unfold inner_w at 1. destruct (row_eqb k row); lia.
  Qed.

  Lemma consolidate_nonzero_in X y : consolidate X y <> 0 -> exists r, In r X /\ row_eqb (vals r) y = true.
  Proof.
    induction X as [|r X IH]; simpl; intro H; [congruence|].
    destruct (row_eqb (vals r) y) eqn:E; [exists r; auto|]. destruct IH as [r' [Hin Hr]]; [lia|]. exists r'. auto.
  Qed.

  Lemma hp_true k o X : hp k o X = true <->
    exists r, In r X /\ key_match k (kf o (vals r)) = true /\ consolidate X (vals r) <> 0.
  Proof.
    unfold has_partner. rewrite existsb_exists. split; intros [r [Hin H]]; exists r; (split; [exact Hin|]).
    - apply andb_prop in H. destruct H as [H1 H2]. split; [exact H1|]. apply Bool.negb_true_iff, Z.eqb_neq in H2. exact H2.
    - destruct H as [H1 H2]. apply andb_true_intro. split; [exact H1|]. apply Bool.negb_true_iff, Z.eqb_neq. exact H2.
  Qed.

  Lemma hp_cong k k' o X : row_eqb k k' = true -> hp k o X = hp k' o X.
  Proof.
    intro H. apply Bool.eq_true_iff_eq. rewrite !hp_true. split; intros [r [Hin [H1 H2]]]; exists r; (split; [exact Hin|]); (split; [|exact H2]).
    - rewrite <- (key_match_cong k k' _ _ H (row_eqb_refl _)). exact H1.
    - rewrite (key_match_cong k k' _ _ H (row_eqb_refl _)). exact H1.
  Qed.

  Lemma hp_perm k o X X' : Permutation X X' -> hp k o X = hp k o X'.
  Proof.
    intro H. apply Bool.eq_true_iff_eq. rewrite !hp_true. split; intros [r [Hin [H1 H2]]]; exists r.
    - split; [eapply Permutation_in; eauto|]. split; [exact H1|]. rewrite <- (consolidate_perm _ _ H). exact H2.
    - split; [eapply Permutation_in; [apply Permutation_sym|]; eauto|]. split; [exact H1|]. rewrite (consolidate_perm _ _ H). exact H2.
  Qed.

  Lemma lnil_hp o T X : twfo o T ->
    (forall y, has_null (kf o y) = false -> tree_bag T y = consolidate X y) ->
    forall k, lnil k T = negb (hp k o X).
  Proof.
    intros W J k. destruct (hp k o X) eqn:H; cbn [negb].
    - apply hp_true in H. destruct H as [r [Hin [KM Hc]]].
      unfold key_match in KM. apply andb_prop in KM. destruct KM as [KM E]. apply andb_prop in KM. destruct KM as [N1 N2].
      apply Bool.negb_true_iff in N2.
      rewrite (lnil_cong k (kf o (vals r)) T E).
      pose proof (tree_lookup_spec (kf o) (tP o) (kfr o) (kf o (vals r)) T (vals r) W) as L.
      rewrite row_eqb_refl, (J _ N2) in L. unfold lnil. destruct (tree_lookup (kf o (vals r)) T); [|reflexivity].
      change (inner_bag [] (vals r)) with 0 in L. congruence.
    - destruct (lnil k T) eqn:Ln; [reflexivity|]. exfalso.
      rewrite (lnil_afind _ _ k T W) in Ln. destruct (afind k T) as [sb|] eqn:F; [|discriminate].
      destruct (afind_some _ _ _ F) as [k' [Hin Hk]]. destruct W as [Hnd Hs]. destruct (Hs _ _ Hin) as [Hne [Hiw Hr]].
      destruct sb as [|[row ets] sb']; [congruence|].
      destruct (Hr row ets (or_introl eq_refl)) as [Hets [Hrk [_ Hnn]]].
      assert (Lk : tree_lookup (kf o row) T = (row, ets) :: sb').
      { unfold tree_lookup. rewrite (afind_cong (kf o row) k T), F; [reflexivity|].
        apply (row_eqb_trans _ k'); [exact Hrk | rewrite row_eqb_sym; exact Hk]. }
      pose proof (tree_lookup_spec (kf o) (tP o) (kfr o) (kf o row) T row (conj Hnd Hs)) as L.
      rewrite row_eqb_refl, Lk, (J _ Hnn) in L.
      pose proof (inner_bag_pos ((row, ets) :: sb') row ets (or_introl eq_refl) Hets) as Pos.
      destruct (consolidate_nonzero_in X row) as [r [HinX Hrr]]; [lia|].
      assert (hp k o X = true); [|congruence]. apply hp_true. exists r. split; [exact HinX|]. split.
      + assert (Ek : row_eqb k (kf o (vals r)) = true).
        { apply (row_eqb_trans _ k'); [exact Hk|]. apply (row_eqb_trans _ (kf o row)); [rewrite row_eqb_sym; exact Hrk|].
          apply kfr. rewrite row_eqb_sym. exact Hrr. }
        unfold key_match. rewrite Ek, <- (has_null_cong _ _ Ek).
        assert (has_null k = false) as Nk.
        { rewrite (has_null_cong _ _ Hk), <- (has_null_cong _ _ Hrk). exact Hnn. }
        rewrite Nk. reflexivity.
      + rewrite (consolidate_cong X _ _ Hrr). lia.
  Qed.

  (* the padded rows of the reference, on bags *)
  Definition pad_l (s : side) (mine theirs : list rec) (x : list value) : Z :=
    if shape s x then consolidate mine (part s x) * (if hp (kf s (part s x)) (other s) theirs then 0 else 1) else 0.

  Lemma pads_of_cons s mine theirs x : (forall r, In r mine -> arO s (vals r)) ->
    consolidate (pads_of kl kr nl nr s mine theirs) x = pad_l s mine theirs x.
  Proof.
    unfold pads_of, pad_l. induction mine as [|r mine IH]; intro Ha; [simpl; destruct (shape s x); lia|].
    cbn [flat_map]. rewrite consolidate_app, IH by (intros; apply Ha; right; assumption). clear IH.
    fold (kf s (vals r)).
    assert (E : consolidate (if hp (kf s (vals r)) (other s) theirs then [] else [mkrec (pad_own nl nr s (vals r)) (retr r) (et r)]) x =
                if shape s x then consolidate [r] (part s x) * (if hp (kf s (part s x)) (other s) theirs then 0 else 1) else 0).
    { destruct (shape s x) eqn:Sh.
      - rewrite cons1. destruct (row_eqb (vals r) (part s x)) eqn:Ev.
        + rewrite <- (hp_cong _ _ (other s) theirs (kfr s _ _ Ev)).
          destruct (hp (kf s (vals r)) (other s) theirs); [simpl; lia|].
          rewrite (pad_own_cons s r x (Ha r (or_introl eq_refl))), Sh, cons1, Ev. lia.
        + destruct (hp (kf s (vals r)) (other s) theirs); [simpl; lia|].
          rewrite (pad_own_cons s r x (Ha r (or_introl eq_refl))), Sh, cons1, Ev. lia.
      - destruct (hp (kf s (vals r)) (other s) theirs); [reflexivity|].
        rewrite (pad_own_cons s r x (Ha r (or_introl eq_refl))), Sh. reflexivity. }
    rewrite E. cbn [consolidate]. destruct (shape s x); [|lia].
    destruct (hp (kf s (part s x)) (other s) theirs); lia.
  Qed.

  Lemma outer_list_cons L R x : (forall r, In r L -> arO SL (vals r)) -> (forall r, In r R -> arO SR (vals r)) ->
    consolidate (outer_list kl kr ol or nl nr L R) x =
    bj (consolidate L) (consolidate R) x + (if ol then pad_l SL L R x else 0) + (if or then pad_l SR R L x else 0).
  Proof.
    intros HL HR. unfold outer_list. rewrite !consolidate_app, (join_list_bag kl kr nl kl_resp kr_resp L R x HL).
    destruct ol, or; cbn [consolidate]; rewrite ?(pads_of_cons SL L R x HL), ?(pads_of_cons SR R L x HR); lia.
  Qed.

  (* J5 read on lists *)
  Lemma CoreInvO_lists st out P : CoreInvO st out P ->
    forall x, consolidate (records out) x =
      bj (consolidate (P SL)) (consolidate (P SR)) x +
      (if ol then pad_l SL (P SL) (P SR) x else 0) + (if or then pad_l SR (P SR) (P SL) x else 0).
  Proof.
    intros [A [B C]] x. rewrite C. unfold pad_t, pad_l, npart.
    rewrite (lnil_hp SR (tree_of SR st) (P SR) (A SR) (B SR)), (lnil_hp SL (tree_of SL st) (P SL) (A SL) (B SL)).
    cbn [other]. destruct ol, or, (shape SL x), (shape SR x);
      try destruct (hp (kf SL (part SL x)) SR (P SR)); try destruct (hp (kf SR (part SR x)) SL (P SL)); cbn [negb]; lia.
  Qed.

  Lemma pad_l_perm s mine mine' theirs theirs' x : Permutation mine mine' -> Permutation theirs theirs' ->
    pad_l s mine theirs x = pad_l s mine' theirs' x.
  Proof.
    intros H1 H2. unfold pad_l. rewrite (consolidate_perm _ _ H1), (hp_perm _ _ _ _ H2). reflexivity.
  Qed.

  (* ---- instantiating the run-level development ---- *)
  Definition oj_inv (timed : Prop) l r sigma st os :=
    run_from_init recvo false arO CoreInvO CIO_ext CIO_frame CIO_receive CIO_out_wm CIO_init timed l r sigma st os.

  Lemma expected_of_processed (P Rc : side -> list rec) out :
    (forall s, Permutation (P s) (Rc s)) -> (forall s r, In r (Rc s) -> arO s (vals r)) ->
    (forall x, consolidate (records out) x =
       bj (consolidate (P SL)) (consolidate (P SR)) x +
       (if ol then pad_l SL (P SL) (P SR) x else 0) + (if or then pad_l SR (P SR) (P SL) x else 0)) ->
    forall x, consolidate (records out) x = consolidate (outer_list kl kr ol or nl nr (Rc SL) (Rc SR)) x.
  Proof.
    intros Hp Ha H x. rewrite H, (outer_list_cons (Rc SL) (Rc SR) x (Ha SL) (Ha SR)).
    rewrite (pad_l_perm SL _ _ _ _ x (Hp SL) (Hp SR)), (pad_l_perm SR _ _ _ _ x (Hp SR) (Hp SL)).
    f_equal. f_equal. apply bag_join_ext; intros y _; apply consolidate_perm; apply Hp.
  Qed.

  (* C19_outer_final *)
  Theorem oj_final l r sigma st os :
    interleave l r sigma -> scripts_ok arO l r ->
    (forall x, In x (msg_recs l ++ msg_recs r) -> et x <= max_wm) ->
    jrun_steps recvo false false jinit sigma = (st, os) -> phase st = Done ->
    forall x, consolidate (records (concat os)) x =
              consolidate (outer_list kl kr ol or nl nr (msg_recs l) (msg_recs r)) x.
  Proof.
    intros Hil Hok Hmax Hrun Hd.
    assert (Hp : panicked st = false) by (unfold panicked; rewrite Hd; reflexivity).
    destruct (oj_inv False l r sigma st os Hil Hok (fun f => match f with end) Hrun Hp)
      as [P [HC [_ [Hperm [_ [Har [Hdone _]]]]]]].
    set (Rc := fun s => match s with SL => msg_recs l | SR => msg_recs r end) in *.
    assert (Hemp : forall s, buf_recs (buf_of s st) = []).
    { intro s. destruct (buf_recs (buf_of s st)) as [|r0 rs] eqn:E; [reflexivity|]. exfalso.
      assert (In r0 (Rc s)) as Hin.
      { eapply Permutation_in; [apply (Hperm s)|]. apply in_or_app. right. rewrite E. left. reflexivity. }
      specialize (Hdone Hd s r0). rewrite E in Hdone. specialize (Hdone (or_introl eq_refl)).
      assert (et r0 <= max_wm); [|lia]. apply Hmax. apply in_or_app. destruct s; [left | right]; exact Hin. }
    apply (expected_of_processed P Rc (concat os)).
    - intro s. specialize (Hperm s). rewrite (Hemp s), app_nil_r in Hperm. exact Hperm.
    - exact Har.
    - apply (CoreInvO_lists st). exact HC.
  Qed.

  (* C19_outer_at_watermark *)
  Theorem oj_at_watermark l r sigma sm st os st' o W :
    interleave l r (sigma ++ [sm]) -> scripts_ok arO l r -> scripts_timed l r ->
    jrun_steps recvo false false jinit sigma = (st, os) ->
    jstep recvo false false st sm = (st', o ++ [WM W]) ->
    forall x, consolidate (records (concat os ++ o ++ [WM W])) x =
              consolidate (outer_list kl kr ol or nl nr (restrict_le W (msg_recs l)) (restrict_le W (msg_recs r))) x.
  Proof.
    intros Hil Hok Htm Hrun Hstep.
    destruct (jstep_wm_cut recvo false _ _ _ _ _ Hstep) as [Hcut Hst].
    pose proof (jrun_steps_snoc recvo false _ _ _ _ _ _ _ Hrun Hstep) as Hrun'.
    destruct (oj_inv True l r _ st' _ Hil Hok (fun _ => Htm) Hrun' (stopped_not_panicked _ Hst))
      as [P [HC [_ [Hperm [_ [Har [_ [_ Ht]]]]]]]].
    assert (Hnd : phase st' <> Done) by (intro E; unfold stopped in Hst; rewrite E in Hst; discriminate).
    destruct (Ht I Hnd) as [T1 [T2 _]]. rewrite Hcut in T1, T2.
    set (Rc := fun s => match s with SL => msg_recs l | SR => msg_recs r end) in *.
    assert (E : forall s, Permutation (P s) (restrict_le W (Rc s))).
    { intro s. unfold restrict_le. eapply Permutation_trans; [|apply perm_filter; apply (Hperm s)].
      rewrite filter_app, (filter_all _ (P s)), (filter_none _ (buf_recs (buf_of s st'))), app_nil_r by (try apply T1; try apply T2).
      apply Permutation_refl. }
    replace (concat os ++ o ++ [WM W]) with (concat (os ++ [o ++ [WM W]])) by (rewrite concat_app; simpl; rewrite app_nil_r; reflexivity).
    apply (expected_of_processed P (fun s => restrict_le W (Rc s)) (concat (os ++ [o ++ [WM W]]))).
    - exact E.
    - intros s r0 Hin. apply (Har s). unfold restrict_le in Hin. apply filter_In in Hin. exact (proj1 Hin).
    - apply (CoreInvO_lists st'). exact HC.
  Qed.
End Outer.
