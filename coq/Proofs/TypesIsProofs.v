(* Proofs/TypesIsProofs.v — induction principle for [ty], equations of Type.Is, reflexivity, TypeSum(a,a) = a. *)
From Octo Require Import Types.

(* induction principle for the nested inductive [ty] *)
Section TyInd.
  Variable P : ty -> Prop.
  Hypothesis HNull : P TNull.
  Hypothesis HInt : P TInt.
  Hypothesis HFloat : P TFloat.
  Hypothesis HBool : P TBool.
  Hypothesis HStr : P TStr.
  Hypothesis HTime : P TTime.
  Hypothesis HDur : P TDur.
  Hypothesis HListN : P (TList None).
  Hypothesis HListS : forall e, P e -> P (TList (Some e)).
  Hypothesis HStruct : forall fs, Forall (fun f => P (snd f)) fs -> P (TStruct fs).
  Hypothesis HTuple : forall es, Forall P es -> P (TTuple es).
  Hypothesis HUnion : forall alts, Forall P alts -> P (TUnion alts).
  Hypothesis HAny : P TAny.

  Fixpoint ty_ind' (t : ty) : P t :=
    match t with
    | TNull => HNull | TInt => HInt | TFloat => HFloat | TBool => HBool | TStr => HStr
    | TTime => HTime | TDur => HDur | TAny => HAny
    | TList None => HListN
    | TList (Some e) => HListS e (ty_ind' e)
    | TStruct fs =>
        HStruct fs ((fix go (l : list (list Z * ty)) : Forall (fun f => P (snd f)) l :=
                       match l with
                       | [] => Forall_nil _
                       | (n, x) :: r => Forall_cons (n, x) (ty_ind' x) (go r)
                       end) fs)
    | TTuple es =>
        HTuple es ((fix go (l : list ty) : Forall P l :=
                      match l with [] => Forall_nil _ | x :: r => Forall_cons x (ty_ind' x) (go r) end) es)
    | TUnion alts =>
        HUnion alts ((fix go (l : list ty) : Forall P l :=
                        match l with [] => Forall_nil _ | x :: r => Forall_cons x (ty_ind' x) (go r) end) alts)
    end.
End TyInd.

(* ---- equations of is_rel ---- *)
Fixpoint fields_rel (fs ofs : list (list Z * ty)) : rel :=
  match fs, ofs with
  | [], [] => Is
  | (n, ft) :: fs', (m, oft) :: ofs' =>
      if negb (bytes_eqb n m) then Isnt else if is_Is (is_rel ft oft) then fields_rel fs' ofs' else Isnt
  | _, _ => Isnt
  end.
Fixpoint elems_rel (es oes : list ty) : rel :=
  match es, oes with
  | [], [] => Is
  | x :: es', y :: oes' => if is_Is (is_rel x y) then elems_rel es' oes' else Isnt
  | _, _ => Isnt
  end.

Lemma is_rel_any : forall t, is_rel t TAny = Is.
Proof. destruct t; reflexivity. Qed.

Lemma is_rel_union_l : forall alts o, o <> TAny ->
  is_rel (TUnion alts) o = union_rel (map (fun a => is_rel a o) alts).
Proof. intros alts o H. destruct o; try reflexivity; congruence. Qed.

Lemma is_rel_union_r : forall t oalts, is_union t = false ->
  is_rel t (TUnion oalts) = fold_left rel_max (map (is_rel t) oalts) Isnt.
Proof. intros t oalts H. destruct t; try reflexivity. discriminate. Qed.

Lemma is_rel_struct : forall fs ofs, is_rel (TStruct fs) (TStruct ofs) = fields_rel fs ofs.
Proof. reflexivity. Qed.
Lemma is_rel_tuple : forall es oes, is_rel (TTuple es) (TTuple oes) = elems_rel es oes.
Proof. reflexivity. Qed.

(* ---- small facts about rel ---- *)
Lemma rel_max_Is_l : forall r, rel_max Is r = Is.
Proof. destruct r; reflexivity. Qed.
Lemma fold_max_Is_acc : forall l, fold_left rel_max l Is = Is.
Proof. induction l as [|r l IH]; simpl; [reflexivity|]. rewrite rel_max_Is_l. exact IH. Qed.
Lemma fold_max_has_Is : forall l acc, In Is l -> fold_left rel_max l acc = Is.
Proof.
  induction l as [|r l IH]; intros acc H; [destruct H|]. simpl. destruct H as [H|H].
  - subst. replace (rel_max acc Is) with Is by (destruct acc; reflexivity). apply fold_max_Is_acc.
  - apply IH; exact H.
Qed.
Lemma fold_max_Is_inv : forall l acc, fold_left rel_max l acc = Is -> acc = Is \/ In Is l.
Proof.
  induction l as [|r l IH]; intros acc H; simpl in H; [left; exact H|].
  destruct (IH _ H) as [E|E]; [|right; right; exact E].
  destruct acc, r; cbv in E; try discriminate; auto; right; left; reflexivity.
Qed.
Lemma union_rel_Is : forall rs, union_rel rs = Is <-> Forall (fun r => r = Is) rs.
Proof.
  intro rs. unfold union_rel. split.
  - destruct (forallb is_Is rs) eqn:E.
    + intros _. apply Forall_forall. intros r Hr. rewrite forallb_forall in E. specialize (E r Hr). destruct r; try discriminate; reflexivity.
    + destruct (existsb _ rs); discriminate.
  - intro H. replace (forallb is_Is rs) with true; [reflexivity|]. symmetry. apply forallb_forall.
    rewrite Forall_forall in H. intros r Hr. rewrite (H r Hr). reflexivity.
Qed.

Lemma is_rel_union_l_Is : forall alts o,
  is_rel (TUnion alts) o = Is <-> (forall a, In a alts -> is_rel a o = Is).
Proof.
  intros alts o. destruct (is_any o) eqn:A.
  - destruct o; try discriminate. split; intros; [apply is_rel_any | reflexivity].
  - rewrite is_rel_union_l by (intro; subst; discriminate). rewrite union_rel_Is, Forall_forall. split.
    + intros H a Ha. apply H. apply in_map_iff. exists a. auto.
    + intros H r Hr. apply in_map_iff in Hr. destruct Hr as [a [E Ha]]. subst. auto.
Qed.

Lemma is_rel_union_r_Is : forall t oalts, is_union t = false ->
  (is_rel t (TUnion oalts) = Is <-> exists b, In b oalts /\ is_rel t b = Is).
Proof.
  intros t oalts U. rewrite is_rel_union_r by exact U. split.
  - intro H. apply fold_max_Is_inv in H. destruct H as [H|H]; [discriminate|].
    apply in_map_iff in H. destruct H as [b [E Hb]]. exists b. auto.
  - intros [b [Hb E]]. apply fold_max_has_Is. apply in_map_iff. exists b. auto.
Qed.

(* a type that Is one alternative Is the union *)
Lemma is_in_union : forall a B b, In b B -> is_rel a b = Is -> is_rel a (TUnion B) = Is.
Proof.
  induction a as [ | | | | | | | |e IHe|fs IH|es IH|alts IH| ] using ty_ind'; intros B b Hb H;
    try (apply is_rel_union_r_Is; [reflexivity | exists b; auto]).
  apply is_rel_union_l_Is. intros a Ha. rewrite Forall_forall in IH.
  apply (IH a Ha B b Hb). rewrite is_rel_union_l_Is in H. apply H. exact Ha.
Qed.

Lemma bytes_eqb_refl : forall n, bytes_eqb n n = true.
Proof. unfold bytes_eqb. induction n as [|x n IH]; simpl; [reflexivity|]. rewrite Z.eqb_refl. exact IH. Qed.

Theorem is_refl : forall t, is_rel t t = Is.
Proof.
  induction t as [ | | | | | | | |e IHe|fs IH|es IH|alts IH| ] using ty_ind'; try reflexivity.
  - simpl. rewrite IHe. reflexivity.
  - rewrite is_rel_struct. induction IH as [|[n x] fs Hx _ IHfs]; [reflexivity|].
    simpl in *. rewrite bytes_eqb_refl, Hx. simpl. exact IHfs.
  - rewrite is_rel_tuple. induction IH as [|x es Hx _ IHes]; [reflexivity|].
    simpl. rewrite Hx. simpl. exact IHes.
  - apply is_rel_union_l_Is. intros a Ha. rewrite Forall_forall in IH.
    apply (is_in_union a alts a Ha). apply IH. exact Ha.
Qed.

(* ---- TypeSum: unfolding, idempotence ---- *)
Lemma type_sum_level_eq : forall rec a b,
  type_sum_level rec a b =
  if is_Is (is_rel a b) then Ok b else if is_Is (is_rel b a) then Ok a
  else match b with
       | TUnion alts2 =>
           match a with
           | TUnion alts1 =>
               (fix fold (l : list ty) (out : outcome ty) : outcome ty :=
                  match l with
                  | [] => out
                  | bk :: rest => fold rest (obind out (fun o => type_sum_level rec o bk))
                  end) alts2 (Ok (TUnion alts1))
           | _ => sum_union_single rec alts2 a
           end
       | _ => match a with TUnion alts1 => sum_union_single rec alts1 b | _ => sum_flat rec a b end
       end.
Proof. intros rec a b. destruct b; reflexivity. Qed.

Theorem tsum_idem : forall a, tsum a a = Ok a.
Proof. intro a. unfold tsum, sum_fuel. simpl. rewrite type_sum_level_eq, is_refl. reflexivity. Qed.

Theorem sum_idem_equals : forall a, exists s, tsum a a = Ok s /\ ty_equals s a = true.
Proof. intro a. exists a. split; [apply tsum_idem|]. unfold ty_equals. rewrite is_refl. reflexivity. Qed.
